(** C03: the pupil samplings of optiland/distribution.py (regenerated kernels k_dist_...): number of points,
    all points inside the unit disk, vignetting factors only shrink the pupil. *)
From Coq Require Import Reals Lra Lia ZArith List Bool Psatz.
From OV Require Import Ops OpsC03 RInst Gen.Distrib Spec.S_C03.
Import ListNotations.
Local Open Scope R_scope.

(** ** Lengths (any arithmetic) *)
Section Lengths.
  Context {O : Ops}.
  Notation T := (T O).

  Lemma seqZ_length a n : length (seqZ a n) = n.
  Proof. revert a; induction n; intros; cbn; [reflexivity|rewrite IHn; reflexivity]. Qed.

  Lemma zerosZ_length n : length (zerosZ (O := O) n) = Z.to_nat n.
  Proof. unfold zerosZ. apply repeat_length. Qed.

  Lemma linspace_length (a b : T) n : length (linspace_ a b n) = Z.to_nat n.
  Proof.
    unfold linspace_. destruct (Z.to_nat n) as [|[|m]]; [reflexivity|reflexivity|].
    rewrite app_length, map_length, seqZ_length. cbn. lia.
  Qed.

  Lemma zip2_length f (a b : list T) : length (zip2 f a b) = Nat.min (length a) (length b).
  Proof. unfold zip2. rewrite map_length, combine_length. reflexivity. Qed.

  (** l[:-1] *)
  Lemma slice_drop_last_length {A} (l : list A) : length (sliceZ l 0 (Some (-1)%Z)) = (length l - 1)%nat.
  Proof.
    unfold sliceZ. cbn [Z.ltb Z.compare]. cbn.
    rewrite firstn_length. lia.
  Qed.

  Theorem line_x_count n vx po :
    length (fst (k_dist_line_x O n vx po)) = Z.to_nat n /\ length (snd (k_dist_line_x O n vx po)) = Z.to_nat n.
  Proof.
    unfold k_dist_line_x. cbn [fst snd]. split; [|apply zerosZ_length].
    destruct po; rewrite map_length, linspace_length; reflexivity.
  Qed.

  Theorem line_y_count n vy po :
    length (fst (k_dist_line_y O n vy po)) = Z.to_nat n /\ length (snd (k_dist_line_y O n vy po)) = Z.to_nat n.
  Proof.
    unfold k_dist_line_y. cbn [fst snd]. split; [apply zerosZ_length|].
    destruct po; rewrite map_length, linspace_length; reflexivity.
  Qed.

  Theorem cross_count_thm n vx vy : (0 <= n)%Z ->
    Z.of_nat (length (fst (k_dist_cross O n vx vy))) = cross_count n /\
    Z.of_nat (length (snd (k_dist_cross O n vx vy))) = cross_count n.
  Proof.
    intros Hn. unfold k_dist_cross, cross_count. cbn [fst snd].
    rewrite !map_length, !app_length, !zerosZ_length, !linspace_length. lia.
  Qed.

  Theorem ring_count n vx vy :
    length (fst (k_dist_ring O n vx vy)) = Z.to_nat n /\ length (snd (k_dist_ring O n vx vy)) = Z.to_nat n.
  Proof.
    unfold k_dist_ring. cbn [fst snd].
    rewrite !map_length, slice_drop_last_length, linspace_length. lia.
  Qed.

  Theorem random_count vx vy (r th : list T) : length r = length th ->
    length (fst (k_dist_random O vx vy r th)) = length r /\ length (snd (k_dist_random O vx vy r th)) = length r.
  Proof.
    intros H. unfold k_dist_random. cbn [fst snd].
    rewrite !map_length, !zip2_length, !map_length. lia.
  Qed.
End Lengths.

Section Hexapolar.
  Context {O : Ops}.
  Notation T := (T O).

  (** one ring of the hexapolar loop *)
  Definition hex_step (r : list T) (acc : list T * list T) (i : Z) : list T * list T :=
    let '(x, y) := acc in
    let num_theta := (6 * (i + 1))%Z in
    let theta := sliceZ (linspace_ (ofZ 0) (mul (ofZ 2) pi_) (num_theta + 1)) 0 (Some (-1)%Z) in
    (x ++ map (fun v => mul (getZ r (i + 1)) v) (map (fun v => cos_ v) theta),
     y ++ map (fun v => mul (getZ r (i + 1)) v) (map (fun v => sin_ v) theta)).

  Lemma hexapolar_unfold n vx vy :
    k_dist_hexapolar O n vx vy =
    let r := linspace_ (ofZ 0) (ofZ 1) (n + 1) in
    let '(x, y) := fold_left (hex_step r) (rangeZ 0 n) (zerosZ 1, zerosZ 1) in
    (map (fun v => mul v (sub (ofZ 1) vx)) x, map (fun v => mul v (sub (ofZ 1) vy)) y).
  Proof.
    unfold k_dist_hexapolar. cbv zeta.
    match goal with |- (let '(a, b) := fold_left ?f _ _ in _) = (let '(c, d) := fold_left ?g _ _ in _) =>
      replace f with g; [reflexivity|] end.
    unfold hex_step. apply FunctionalExtensionality.functional_extensionality. intros [x y].
    apply FunctionalExtensionality.functional_extensionality. intros i. reflexivity.
  Qed.

  Lemma hex_step_length r x y i :
    length (fst (hex_step r (x, y) i)) = (length x + (Z.to_nat (6 * (i + 1) + 1) - 1))%nat /\
    length (snd (hex_step r (x, y) i)) = (length y + (Z.to_nat (6 * (i + 1) + 1) - 1))%nat.
  Proof.
    unfold hex_step. cbv beta iota zeta. unfold fst, snd.
    rewrite !app_length, !map_length, !slice_drop_last_length, !linspace_length. split; reflexivity.
  Qed.

  Lemma hex_fold_length r : forall k a x y, (0 <= a)%Z ->
    let res := fold_left (hex_step r) (seqZ a k) (x, y) in
    Z.of_nat (length (fst res)) = (Z.of_nat (length x) + 6 * Z.of_nat k * (a + 1) + 3 * Z.of_nat k * (Z.of_nat k - 1))%Z /\
    Z.of_nat (length (snd res)) = (Z.of_nat (length y) + 6 * Z.of_nat k * (a + 1) + 3 * Z.of_nat k * (Z.of_nat k - 1))%Z.
  Proof.
    induction k as [|k IH]; intros a x y Ha; cbv zeta; cbn [seqZ fold_left].
    - cbn [fst snd]. lia.
    - destruct (hex_step_length r x y a) as [Lx Ly].
      destruct (hex_step r (x, y) a) as [x1 y1]. cbn [fst snd] in Lx, Ly.
      specialize (IH (a + 1)%Z x1 y1 ltac:(lia)). cbv zeta in IH. destruct IH as [IHx IHy]. rewrite IHx, IHy, Lx, Ly.
      replace (Z.of_nat (length x + (Z.to_nat (6 * (a + 1) + 1) - 1))) with (Z.of_nat (length x) + 6 * (a + 1))%Z by lia.
      replace (Z.of_nat (length y + (Z.to_nat (6 * (a + 1) + 1) - 1))) with (Z.of_nat (length y) + 6 * (a + 1))%Z by lia.
      rewrite Nat2Z.inj_succ. unfold Z.succ. split; ring.
  Qed.

  (** hexapolar: 1 + 3 n (n+1) points for n rings *)
  Theorem hexapolar_count_thm n vx vy : (0 <= n)%Z ->
    Z.of_nat (length (fst (k_dist_hexapolar O n vx vy))) = hexapolar_count n /\
    Z.of_nat (length (snd (k_dist_hexapolar O n vx vy))) = hexapolar_count n.
  Proof.
    intros Hn. rewrite hexapolar_unfold. cbv zeta. unfold rangeZ.
    pose proof (hex_fold_length (linspace_ (ofZ 0) (ofZ 1) (n + 1)) (Z.to_nat (n - 0)) 0
                                (zerosZ 1) (zerosZ 1) ltac:(lia)) as H.
    cbv zeta in H. destruct (fold_left _ _ _) as [x y]. cbn [fst snd] in *.
    rewrite !map_length. destruct H as [Hx Hy]. rewrite Hx, Hy, !zerosZ_length.
    unfold hexapolar_count. replace (Z.of_nat (Z.to_nat (n - 0))) with n by lia.
    change (Z.of_nat (Z.to_nat 1)) with 1%Z. split; ring.
  Qed.
End Hexapolar.

Section GQ.
  Context {O : Ops}.
  Notation T := (T O).

  Lemma gq_cases n : (n < 1 \/ 6 < n \/ n = 1 \/ n = 2 \/ n = 3 \/ n = 4 \/ n = 5 \/ n = 6)%Z.
  Proof. lia. Qed.

  (** Gaussian quadrature: rings outside 1..6 are rejected *)
  Theorem gq_radius_defined n :
    is_none (k_dist_gq_radius O n) = negb (gq_rings_ok n) /\
    forall l, k_dist_gq_radius O n = Some l -> length l = Z.to_nat n.
  Proof.
    unfold k_dist_gq_radius, gq_rings_ok.
    destruct (gq_cases n) as [H|[H|[H|[H|[H|[H|[H|H]]]]]]]; try (subst n; cbn; split; [reflexivity|intros l E; inversion E; reflexivity]).
    - assert (E : existsb (Z.eqb n) [1;2;3;4;5;6]%Z = false).
      { cbn. repeat (rewrite (proj2 (Z.eqb_neq n _)) by lia). reflexivity. }
      rewrite E. cbn [negb is_none]. split; [|discriminate].
      assert ((1 <=? n)%Z = false) by (apply Z.leb_gt; lia). rewrite H0. reflexivity.
    - assert (E : existsb (Z.eqb n) [1;2;3;4;5;6]%Z = false).
      { cbn. repeat (rewrite (proj2 (Z.eqb_neq n _)) by lia). reflexivity. }
      rewrite E. cbn [negb is_none]. split; [|discriminate].
      assert ((n <=? 6)%Z = false) by (apply Z.leb_gt; lia). rewrite H0. rewrite andb_false_r. reflexivity.
  Qed.

  Lemma outer_flat_length (a b : list T) : length (outer_flat a b) = (length a * length b)%nat.
  Proof.
    unfold outer_flat. induction a as [|x a IH]; cbn; [reflexivity|].
    rewrite app_length, map_length, IH. reflexivity.
  Qed.

  (** n rings give 3 n points (n when symmetric); other ring numbers raise *)
  Theorem gq_count_thm n vx vy sym :
    is_none (k_dist_gq O n vx vy sym) = negb (gq_rings_ok n) /\
    forall xs ys, k_dist_gq O n vx vy sym = Some (xs, ys) ->
      Z.of_nat (length xs) = gq_count sym n /\ Z.of_nat (length ys) = gq_count sym n.
  Proof.
    destruct (gq_radius_defined n) as [Hnone Hlen].
    unfold k_dist_gq. destruct (k_dist_gq_radius O n) as [l|] eqn:E.
    - split; [exact Hnone|]. intros xs ys H. inversion H. subst xs ys. clear H.
      specialize (Hlen l eq_refl).
      assert (Hn : (1 <= n <= 6)%Z).
      { cbn in Hnone. unfold gq_rings_ok in Hnone. destruct (1 <=? n)%Z eqn:A, (n <=? 6)%Z eqn:B; cbn in Hnone; try discriminate.
        apply Z.leb_le in A. apply Z.leb_le in B. lia. }
      rewrite !map_length, !outer_flat_length, !map_length, Hlen.
      unfold gq_count. destruct sym; cbn [length]; lia.
    - split; [exact Hnone|]. discriminate.
  Qed.
End GQ.

(** ** Inside the unit disk, and vignetting only shrinks (exact reals) *)
Section Disk.
  Notation disk := in_unit_disk.

  Lemma shrink_abs p v : unit_interval v -> Rabs (p * (1 - v)) <= Rabs p.
  Proof.
    intros [H0 H1]. rewrite Rabs_mult. rewrite (Rabs_right (1 - v)) by lra.
    pose proof (Rabs_pos p). nra.
  Qed.

  Lemma shrink_sq p v : unit_interval v -> (p * (1 - v)) * (p * (1 - v)) <= p * p.
  Proof. intros [H0 H1]. assert (0 <= p*p) by nra. assert (0 <= (1-v)*(1-v) <= 1) by nra. nra. Qed.

  Lemma disk_shrink x y vx vy : unit_interval vx -> unit_interval vy ->
    disk (x, y) -> disk (x * (1 - vx), y * (1 - vy)).
  Proof.
    unfold disk. cbn [fst snd]. intros Hx Hy H.
    pose proof (shrink_sq x vx Hx). pose proof (shrink_sq y vy Hy). lra.
  Qed.

  Lemma combine_map2 {A B C D} (f : A -> C) (g : B -> D) (l : list A) (m : list B) :
    combine (map f l) (map g m) = map (fun p => (f (fst p), g (snd p))) (combine l m).
  Proof. revert m; induction l as [|a l IH]; intros [|b m]; cbn; try reflexivity. rewrite IH. reflexivity. Qed.

  Lemma disk_shrink_all (X Y : list R) vx vy : unit_interval vx -> unit_interval vy ->
    Forall disk (combine X Y) ->
    Forall disk (combine (map (fun v => v * (1 - vx)) X) (map (fun v => v * (1 - vy)) Y)).
  Proof.
    intros Hx Hy H. rewrite combine_map2. apply Forall_map.
    eapply Forall_impl; [|exact H]. intros [x y] Hd. cbn [fst snd]. apply disk_shrink; assumption.
  Qed.

  Lemma combine_app_eq {A B} (a b : list A) (c d : list B) : length a = length c ->
    combine (a ++ b) (c ++ d) = combine a c ++ combine b d.
  Proof.
    revert c; induction a as [|x a IH]; intros [|y c] H; cbn in *; try discriminate; [reflexivity|].
    rewrite IH by lia. reflexivity.
  Qed.

  Lemma In_seqZ i a n : In i (seqZ a n) -> (a <= i < a + Z.of_nat n)%Z.
  Proof.
    revert a; induction n as [|n IH]; intros a H; cbn in H; [contradiction|].
    destruct H as [<-|H]; [lia|]. apply IH in H. lia.
  Qed.

  (** np.linspace(a, b, n) stays in [a, b] *)
  Lemma linspace_range a b n : a <= b -> Forall (fun v => a <= v <= b) (linspace_ (O := ROps) a b n).
  Proof.
    intros Hab. unfold linspace_. destruct (Z.to_nat n) as [|[|m]] eqn:E.
    - constructor.
    - constructor; [lra|constructor].
    - apply Forall_app. split; [|constructor; [lra|constructor]].
      apply Forall_map. apply Forall_forall. intros i Hi. apply In_seqZ in Hi. rops.
      assert (Hn : (n - 1 = Z.of_nat (S m))%Z) by lia. rewrite Hn.
      assert (Hm : 0 < IZR (Z.of_nat (S m))) by (apply IZR_lt; lia).
      assert (Hi0 : 0 <= IZR i) by (apply IZR_le; lia).
      assert (Hi1 : IZR i <= IZR (Z.of_nat (S m))) by (apply IZR_le; lia).
      set (M := IZR (Z.of_nat (S m))) in *. set (I := IZR i) in *.
      assert (Hq : 0 <= I / M <= 1).
      { split; [apply Rmult_le_pos; [lra|left; apply Rinv_0_lt_compat; lra]|].
        apply Rmult_le_reg_r with M; [lra|]. unfold Rdiv. rewrite Rmult_assoc, Rinv_l by lra. lra. }
      replace (I * ((b - a) / M) + a) with (a + (I / M) * (b - a)) by (field; lra). nra.
  Qed.

  Lemma Forall_zeros n : Forall (fun v => v = 0) (zerosZ (O := ROps) n).
  Proof. unfold zerosZ. apply Forall_forall. intros v Hv. apply repeat_spec in Hv. exact Hv. Qed.

  Lemma disk_of_axes (X Y : list R) :
    Forall (fun v => -1 <= v <= 1) X -> Forall (fun v => v = 0) Y ->
    Forall disk (combine X Y) /\ Forall disk (combine Y X).
  Proof.
    intros HX HY. split; apply Forall_forall; intros [p q] Hin.
    - pose proof (in_combine_l _ _ _ _ Hin) as Hp. pose proof (in_combine_r _ _ _ _ Hin) as Hq.
      rewrite Forall_forall in HX, HY. specialize (HX _ Hp). specialize (HY _ Hq). subst q.
      unfold disk; cbn [fst snd]. nra.
    - pose proof (in_combine_l _ _ _ _ Hin) as Hp. pose proof (in_combine_r _ _ _ _ Hin) as Hq.
      rewrite Forall_forall in HX, HY. specialize (HX _ Hq). specialize (HY _ Hp). subst p.
      unfold disk; cbn [fst snd]. nra.
  Qed.

  Lemma lin_pm1 n : Forall (fun v => -1 <= v <= 1) (linspace_ (O := ROps) (ofZ (-1)) (ofZ 1) n).
  Proof. rops. apply (linspace_range (-1) 1 n). lra. Qed.
  Lemma lin_01 n : Forall (fun v => -1 <= v <= 1) (linspace_ (O := ROps) (ofZ 0) (ofZ 1) n).
  Proof. rops. eapply Forall_impl; [|apply (linspace_range 0 1 n); lra]. cbn. intros; lra. Qed.

  Definition pts (r : list R * list R) : list (R * R) := combine (fst r) (snd r).

  Theorem line_x_in_disk n vx po : unit_interval vx -> Forall disk (pts (k_dist_line_x ROps n vx po)).
  Proof.
    intros Hx. unfold pts, k_dist_line_x. cbn [fst snd]. rops.
    assert (Hy : unit_interval 0) by (unfold unit_interval; lra).
    assert (E : zerosZ (O := ROps) n = map (fun v => v * (1 - 0)) (zerosZ (O := ROps) n)).
    { rewrite <- (map_id (zerosZ n)) at 1. apply map_ext. intros; ring. }
    rewrite E. destruct po; apply disk_shrink_all; try assumption.
    - exact (proj1 (disk_of_axes _ _ (lin_01 n) (Forall_zeros n))).
    - exact (proj1 (disk_of_axes _ _ (lin_pm1 n) (Forall_zeros n))).
  Qed.

  Theorem line_y_in_disk n vy po : unit_interval vy -> Forall disk (pts (k_dist_line_y ROps n vy po)).
  Proof.
    intros Hx. unfold pts, k_dist_line_y. cbn [fst snd]. rops.
    assert (Hy : unit_interval 0) by (unfold unit_interval; lra).
    assert (E : zerosZ (O := ROps) n = map (fun v => v * (1 - 0)) (zerosZ (O := ROps) n)).
    { rewrite <- (map_id (zerosZ n)) at 1. apply map_ext. intros; ring. }
    rewrite E. destruct po; apply disk_shrink_all; try assumption.
    - exact (proj2 (disk_of_axes _ _ (lin_01 n) (Forall_zeros n))).
    - exact (proj2 (disk_of_axes _ _ (lin_pm1 n) (Forall_zeros n))).
  Qed.

  Theorem cross_in_disk n vx vy : unit_interval vx -> unit_interval vy -> Forall disk (pts (k_dist_cross ROps n vx vy)).
  Proof.
    intros Hx Hy. unfold pts, k_dist_cross. cbn [fst snd]. rops.
    apply disk_shrink_all; try assumption.
    rewrite combine_app_eq by (rewrite (zerosZ_length (O := ROps)), (linspace_length (O := ROps)); reflexivity).
    apply Forall_app. split.
    - exact (proj2 (disk_of_axes _ _ (lin_pm1 n) (Forall_zeros n))).
    - exact (proj1 (disk_of_axes _ _ (lin_pm1 n) (Forall_zeros n))).
  Qed.

  Lemma circle_in_disk (r : R) (th : list R) : 0 <= r <= 1 ->
    Forall disk (combine (map (fun v => r * v) (map cos th)) (map (fun v => r * v) (map sin th))).
  Proof.
    intros Hr. rewrite !map_map, combine_map2. apply Forall_map. apply Forall_forall. intros [a b] Hin.
    assert (E : a = b).
    { clear -Hin. induction th as [|t th IH]; cbn in Hin; [contradiction|]. destruct Hin as [H|H]; [inversion H; reflexivity|auto]. }
    subst b. unfold disk. cbn [fst snd]. pose proof (sin2_cos2 a) as H. unfold Rsqr in H. nra.
  Qed.

  Theorem ring_in_disk n vx vy : unit_interval vx -> unit_interval vy -> Forall disk (pts (k_dist_ring ROps n vx vy)).
  Proof.
    intros Hx Hy. unfold pts, k_dist_ring. cbn [fst snd]. rops.
    apply disk_shrink_all; try assumption.
    set (th := sliceZ _ _ _).
    pose proof (circle_in_disk 1 th ltac:(lra)) as H.
    assert (E : forall l : list R, map (fun v => 1 * v) l = l).
    { intros l. rewrite <- (map_id l) at 2. apply map_ext. intros; ring. }
    rewrite !E in H. exact H.
  Qed.

  Theorem random_in_disk vx vy (r th : list R) : unit_interval vx -> unit_interval vy ->
    Forall unit_interval r -> Forall disk (pts (k_dist_random ROps vx vy r th)).
  Proof.
    intros Hx Hy Hr. unfold pts, k_dist_random. cbn [fst snd]. rops.
    apply disk_shrink_all; try assumption. unfold zip2.
    revert th. induction r as [|a r IH]; intros [|t th]; cbn; try constructor.
    - inversion Hr as [|? ? Ha Hr']. subst. unfold disk. cbn [fst snd]. destruct Ha as [Ha0 Ha1].
      assert (Hs : sqrt a * sqrt a = a) by (apply sqrt_sqrt; exact Ha0).
      pose proof (sin2_cos2 t) as H. unfold Rsqr in H.
      replace (sqrt a * cos t * (sqrt a * cos t) + sqrt a * sin t * (sqrt a * sin t))
        with ((sqrt a * sqrt a) * (sin t * sin t + cos t * cos t)) by ring. rewrite Hs, H. lra.
    - apply IH. inversion Hr; assumption.
  Qed.
End Disk.

Section Disk2.
  Notation disk := in_unit_disk.

  Lemma getZ_range (l : list R) i : Forall (fun v => 0 <= v <= 1) l -> 0 <= getZ (O := ROps) l i <= 1.
  Proof.
    intros H. unfold getZ, nthZ. rops.
    destruct (_ || _); [lra|].
    destruct (nth_error l _) as [v|] eqn:E; [|lra].
    apply nth_error_In in E. rewrite Forall_forall in H. apply H. exact E.
  Qed.

  Lemma hex_step_length_R (r x y : list R) i :
    length (fst (hex_step (O := ROps) r (x, y) i)) = (length x + (Z.to_nat (6 * (i + 1) + 1) - 1))%nat /\
    length (snd (hex_step (O := ROps) r (x, y) i)) = (length y + (Z.to_nat (6 * (i + 1) + 1) - 1))%nat.
  Proof. exact (hex_step_length (O := ROps) r x y i). Qed.

  Lemma hex_fold_disk r : Forall (fun v => 0 <= v <= 1) r -> forall idx x y,
    length x = length y -> Forall disk (combine x y) ->
    let res := fold_left (hex_step (O := ROps) r) idx (x, y) in
    Forall disk (combine (fst res) (snd res)).
  Proof.
    intros Hr. induction idx as [|i idx IH]; intros x y Hl Hd; cbv zeta; cbn [fold_left]; [exact Hd|].
    destruct (hex_step_length_R r x y i) as [Lx Ly].
    destruct (hex_step (O := ROps) r (x, y) i) as [x1 y1] eqn:E.
    cbn [fst snd] in Lx, Ly.
    apply IH; [rops; rewrite Lx, Ly, Hl; reflexivity|].
    unfold hex_step in E. injection E as Ex Ey. subst x1 y1. rops.
    rewrite combine_app_eq by exact Hl. apply Forall_app. split; [exact Hd|].
    apply circle_in_disk. apply getZ_range. exact Hr.
  Qed.

  Theorem hexapolar_in_disk n vx vy : unit_interval vx -> unit_interval vy ->
    Forall disk (pts (k_dist_hexapolar ROps n vx vy)).
  Proof.
    intros Hx Hy. unfold pts. rewrite hexapolar_unfold. cbv zeta.
    pose proof (hex_fold_disk (linspace_ (O := ROps) (ofZ 0) (ofZ 1) (n + 1))) as H.
    specialize (H ltac:(rops; apply (linspace_range 0 1); lra) (rangeZ 0 n) (zerosZ (O := ROps) 1) (zerosZ (O := ROps) 1) eq_refl).
    cbv zeta in H. destruct (fold_left _ _ _) as [x y]. cbn [fst snd] in *. rops.
    apply disk_shrink_all; try assumption. apply H.
    cbn. constructor; [|constructor]. unfold disk. cbn. lra.
  Qed.

  Lemma outer_disk (rad th : list R) : Forall (fun v => 0 <= v <= 1) rad ->
    Forall disk (combine (outer_flat (O := ROps) rad (map cos th)) (outer_flat (O := ROps) rad (map sin th))).
  Proof.
    intros Hr. unfold outer_flat. induction rad as [|r rad IH]; cbn [flat_map]; [constructor|].
    inversion Hr as [|? ? Hr0 Hr']. subst.
    rewrite combine_app_eq by (rewrite !map_length; reflexivity).
    apply Forall_app. split; [|apply IH; assumption]. rops.
    apply circle_in_disk. exact Hr0.
  Qed.

  Lemma Rlit5 m : (0 <= m <= 100000)%Z -> 0 <= Rlit m (-5) <= 1.
  Proof.
    intros [H0 H1]. unfold Rlit. cbn [Z.ltb Z.compare Z.opp]. cbn.
    apply IZR_le in H0. apply IZR_le in H1.
    split.
    - apply Rmult_le_pos; [exact H0|]. left. apply Rinv_0_lt_compat. lra.
    - apply Rmult_le_reg_r with 100000; [lra|]. unfold Rdiv. rewrite Rmult_assoc, Rinv_l by lra. lra.
  Qed.

  Lemma gq_radius_range n l : k_dist_gq_radius ROps n = Some l -> Forall (fun v => 0 <= v <= 1) l.
  Proof.
    unfold k_dist_gq_radius. rops.
    destruct (gq_cases n) as [H|[H|[H|[H|[H|[H|[H|H]]]]]]];
      try (subst n; cbn [existsb Z.eqb Pos.eqb orb negb]; intros E; inversion E;
           repeat (constructor; [apply Rlit5; lia|]); constructor).
    - assert (E : existsb (Z.eqb n) [1;2;3;4;5;6]%Z = false).
      { cbn. repeat (rewrite (proj2 (Z.eqb_neq n _)) by lia). reflexivity. }
      rewrite E. discriminate.
    - assert (E : existsb (Z.eqb n) [1;2;3;4;5;6]%Z = false).
      { cbn. repeat (rewrite (proj2 (Z.eqb_neq n _)) by lia). reflexivity. }
      rewrite E. discriminate.
  Qed.

  Theorem gq_in_disk n vx vy sym xs ys : unit_interval vx -> unit_interval vy ->
    k_dist_gq ROps n vx vy sym = Some (xs, ys) -> Forall disk (combine xs ys).
  Proof.
    intros Hx Hy. unfold k_dist_gq. destruct (k_dist_gq_radius ROps n) as [l|] eqn:E; [|discriminate].
    apply gq_radius_range in E. intros H. inversion H. subst xs ys. rops.
    apply disk_shrink_all; try assumption.
    destruct sym.
    - apply (outer_disk l [Rlit 0 (-1)]). exact E.
    - apply (outer_disk l [- Rlit 104719755 (-8); Rlit 0 (-1); Rlit 104719755 (-8)]). exact E.
  Qed.

  (** uniform: the kept grid nodes are those with x^2 + y^2 <= 1 *)
  Lemma mask_disk : forall X Y : list R,
    let m := map (fun v => Rleb v 1) (zip2 (O := ROps) Rplus (map (fun v => v * v) X) (map (fun v => v * v) Y)) in
    Forall disk (combine (mask_filter (O := ROps) X m) (mask_filter (O := ROps) Y m)).
  Proof.
    unfold zip2, mask_filter.
    induction X as [|x X IH]; intros [|y Y]; cbn; try constructor.
    destruct (Rleb (x * x + y * y) 1) eqn:E; cbn.
    - constructor; [unfold disk; cbn [fst snd]; apply Rleb_true; exact E|apply IH].
    - apply IH.
  Qed.

  Theorem uniform_in_disk n vx vy : unit_interval vx -> unit_interval vy ->
    Forall disk (pts (k_dist_uniform ROps n vx vy)).
  Proof.
    intros Hx Hy. unfold pts, k_dist_uniform. cbn [fst snd]. rops.
    apply disk_shrink_all; try assumption. apply mask_disk.
  Qed.
End Disk2.

(** * C07 - the hand-written frame changes of Model/Trace.v ARE the regenerated kernels of
    CoordinateSystem.localize / globalize acting on real rays (for every instance of [Ops]), and the
    ideal material kernels do not read the wavelength. *)
From Coq Require Import Reals Lra Psatz ZArith List Bool.
From OV Require Import Ops RInst Gen.RealRays Gen.Standard Gen.Geometries Gen.Apertures Gen.C07K
  Model.Trace Model.M_C07 Lemmas.L_RealRays Lemmas.L_Standard.
Import ListNotations.

(** ** the model's frame changes are the translated CoordinateSystem methods *)
Section Kernel.
  Context {O : Ops}.
  Definition ray6 (r : ray O) := (rx r, ry r, rz r, rL r, rM r, rN r).

  Theorem localize_is_kernel (u : surf O) (r : ray O) :
    ray6 (localize u r) =
    k_c07_cs_localize O (s_x u) (s_y u) (s_z u) (rx r) (ry r) (rz r) (s_rx u) (rM r) (rN r) (s_ry u) (rL r) (s_rz u)
    /\ ri (localize u r) = ri r /\ rw (localize u r) = rw r /\ ropd (localize u r) = ropd r.
  Proof.
    destruct u as [sx sy sz srx sry srz sh n1 n2 k1 rf ap co], r as [x y z L M N i w opd].
    unfold localize, k_c07_cs_localize, ray6, nonzero.
    cbn [s_x s_y s_z s_rx s_ry s_rz rx ry rz rL rM rN ri rw ropd].
    destruct (k_translate O (neg sx) (neg sy) (neg sz) x y z) as [[x1 y1] z1].
    cbn [rx ry rz rL rM rN ri rw ropd].
    destruct (negb (eqb_ srx (ofZ 0))); cbn [rx ry rz rL rM rN ri rw ropd].
    - destruct (k_rotate_x O (neg srx) y1 z1 M N) as [[[y2 z2] M2] N2]. cbn [rx ry rz rL rM rN ri rw ropd].
      destruct (negb (eqb_ sry (ofZ 0))); cbn [rx ry rz rL rM rN ri rw ropd].
      + destruct (k_rotate_y O (neg sry) x1 z2 L N2) as [[[x3 z3] L3] N3]. cbn [rx ry rz rL rM rN ri rw ropd].
        destruct (negb (eqb_ srz (ofZ 0))); cbn [rx ry rz rL rM rN ri rw ropd].
        * destruct (k_rotate_z O (neg srz) x3 y2 L3 M2) as [[[x4 y4] L4] M4]. cbn. auto.
        * cbn. auto.
      + destruct (negb (eqb_ srz (ofZ 0))); cbn [rx ry rz rL rM rN ri rw ropd].
        * destruct (k_rotate_z O (neg srz) x1 y2 L M2) as [[[x4 y4] L4] M4]. cbn. auto.
        * cbn. auto.
    - destruct (negb (eqb_ sry (ofZ 0))); cbn [rx ry rz rL rM rN ri rw ropd].
      + destruct (k_rotate_y O (neg sry) x1 z1 L N) as [[[x3 z3] L3] N3]. cbn [rx ry rz rL rM rN ri rw ropd].
        destruct (negb (eqb_ srz (ofZ 0))); cbn [rx ry rz rL rM rN ri rw ropd].
        * destruct (k_rotate_z O (neg srz) x3 y1 L3 M) as [[[x4 y4] L4] M4]. cbn. auto.
        * cbn. auto.
      + destruct (negb (eqb_ srz (ofZ 0))); cbn [rx ry rz rL rM rN ri rw ropd].
        * destruct (k_rotate_z O (neg srz) x1 y1 L M) as [[[x4 y4] L4] M4]. cbn. auto.
        * cbn. auto.
  Qed.

  Theorem globalize_is_kernel (u : surf O) (r : ray O) :
    ray6 (globalize u r) =
    k_c07_cs_globalize O (s_rz u) (rx r) (ry r) (rL r) (rM r) (s_ry u) (rz r) (rN r) (s_rx u) (s_x u) (s_y u) (s_z u)
    /\ ri (globalize u r) = ri r /\ rw (globalize u r) = rw r /\ ropd (globalize u r) = ropd r.
  Proof.
    destruct u as [sx sy sz srx sry srz sh n1 n2 k1 rf ap co], r as [x y z L M N i w opd].
    unfold globalize, k_c07_cs_globalize, ray6, nonzero.
    cbn [s_x s_y s_z s_rx s_ry s_rz rx ry rz rL rM rN ri rw ropd].
    destruct (negb (eqb_ srz (ofZ 0))); cbn [rx ry rz rL rM rN ri rw ropd].
    - destruct (k_rotate_z O srz x y L M) as [[[x1 y1] L1] M1]. cbn [rx ry rz rL rM rN ri rw ropd].
      destruct (negb (eqb_ sry (ofZ 0))); cbn [rx ry rz rL rM rN ri rw ropd].
      + destruct (k_rotate_y O sry x1 z L1 N) as [[[x2 z2] L2] N2]. cbn [rx ry rz rL rM rN ri rw ropd].
        destruct (negb (eqb_ srx (ofZ 0))); cbn [rx ry rz rL rM rN ri rw ropd].
        * destruct (k_rotate_x O srx y1 z2 M1 N2) as [[[y3 z3] M3] N3]. cbn [rx ry rz rL rM rN ri rw ropd].
          destruct (k_translate O sx sy sz x2 y3 z3) as [[a b] c]. cbn. auto.
        * destruct (k_translate O sx sy sz x2 y1 z2) as [[a b] c]. cbn. auto.
      + destruct (negb (eqb_ srx (ofZ 0))); cbn [rx ry rz rL rM rN ri rw ropd].
        * destruct (k_rotate_x O srx y1 z M1 N) as [[[y3 z3] M3] N3]. cbn [rx ry rz rL rM rN ri rw ropd].
          destruct (k_translate O sx sy sz x1 y3 z3) as [[a b] c]. cbn. auto.
        * destruct (k_translate O sx sy sz x1 y1 z) as [[a b] c]. cbn. auto.
    - destruct (negb (eqb_ sry (ofZ 0))); cbn [rx ry rz rL rM rN ri rw ropd].
      + destruct (k_rotate_y O sry x z L N) as [[[x2 z2] L2] N2]. cbn [rx ry rz rL rM rN ri rw ropd].
        destruct (negb (eqb_ srx (ofZ 0))); cbn [rx ry rz rL rM rN ri rw ropd].
        * destruct (k_rotate_x O srx y z2 M N2) as [[[y3 z3] M3] N3]. cbn [rx ry rz rL rM rN ri rw ropd].
          destruct (k_translate O sx sy sz x2 y3 z3) as [[a b] c]. cbn. auto.
        * destruct (k_translate O sx sy sz x2 y z2) as [[a b] c]. cbn. auto.
      + destruct (negb (eqb_ srx (ofZ 0))); cbn [rx ry rz rL rM rN ri rw ropd].
        * destruct (k_rotate_x O srx y z M N) as [[[y3 z3] M3] N3]. cbn [rx ry rz rL rM rN ri rw ropd].
          destruct (k_translate O sx sy sz x y3 z3) as [[a b] c]. cbn. auto.
        * destruct (k_translate O sx sy sz x y z) as [[a b] c]. cbn. auto.
  Qed.

  (** IdealMaterial.n / k do not read the wavelength at all: the regenerated kernels have no wavelength input *)
  Theorem ideal_material_dispersion_free (index absorp : T O) :
    k_c07_ideal_n O index = index /\ k_c07_ideal_k O absorp = absorp.
  Proof. split; reflexivity. Qed.
End Kernel.


(** C08, second layer: orders of the terms in aperture and field (scaling laws), stop-shift
    independence of the spherical and Petzval FAMILIES and SUMS over any number of surfaces, and
    "a surface without an index step contributes nothing". *)
From Coq Require Import Reals Lra Lia ZArith List Bool Psatz.
From OV Require Import Ops RInst Gen.Seidel Model.Seidel Spec.S_Seidel Lemmas.L_Seidel.
Import ListNotations.
Local Open Scope R_scope.

Section Scaling.
  Variables n n' c y u u' yb ub ub' dn dn' H nl ul : R.
  Variables s h : R.       (* aperture scale (marginal ray), field scale (chief ray) *)
  Let r := mkRow (O:=ROps) n n' c y u u' yb ub ub' dn dn'.
  Let g := mkGlob (O:=ROps) H nl ul.
  Let r2 := mkRow (O:=ROps) n n' c (s * y) (s * u) (s * u') (h * yb) (h * ub) (h * ub') dn dn'.
  Let g2 := mkGlob (O:=ROps) (s * h * H) nl (s * ul).
  Hypothesis Hs : s <> 0.
  Hypothesis Hh : h <> 0.
  Hypothesis Hn : n <> 0.
  Hypothesis Hn' : n' <> 0.
  Hypothesis HH : H <> 0.
  Hypothesis HK : nl * ul <> 0.

  Lemma nl_nz' : nl <> 0. Proof. intro Z; apply HK; rewrite Z; ring. Qed.
  Lemma ul_nz' : ul <> 0. Proof. intro Z; apply HK; rewrite Z; ring. Qed.

  Lemma den1 : Reqb (2 * n' * H) 0 = false.
  Proof. apply Reqb_false. intro E. apply HH. nra. Qed.
  Lemma den2 : Reqb (2 * n' * (s * h * H)) 0 = false.
  Proof.
    apply Reqb_false. intro E.
    assert (s * h * H <> 0) by (repeat apply Rmult_integral_contrapositive_currified; assumption).
    nra.
  Qed.

  Ltac fin := field; repeat split; try assumption; try apply nl_nz'; try apply ul_nz'.

  (** spherical: third order in the aperture, independent of the field *)
  Theorem TSC_scaling : TSC_row g2 r2 = s * s * s * TSC_row g r.
  Proof. unfold r, g, r2, g2. sunfold. simpl. gz. rewrite den1, den2. fin. Qed.

  (** coma: aperture squared times field *)
  Theorem CC_scaling : CC_row g2 r2 = s * s * h * CC_row g r.
  Proof. unfold r, g, r2, g2. sunfold. simpl. gz. rewrite den1, den2. fin. Qed.

  (** astigmatism and Petzval: aperture times field squared *)
  Theorem TAC_scaling : TAC_row g2 r2 = s * h * h * TAC_row g r.
  Proof. unfold r, g, r2, g2. sunfold. simpl. gz. rewrite den1, den2. fin. Qed.
  Theorem TPC_scaling : TPC_row g2 r2 = s * h * h * TPC_row g r.
  Proof. unfold r, g, r2, g2. sunfold. simpl. gz. fin. Qed.

  (** distortion: field cubed, independent of the aperture *)
  Theorem DC_scaling : DC_row g2 r2 = h * h * h * DC_row g r.
  Proof. unfold r, g, r2, g2. sunfold. simpl. gz. rewrite den1, den2. rewrite ?Rlit_half. fin. Qed.

  (** first-order colour: axial ~ aperture, lateral ~ field *)
  Theorem TAchC_scaling : TAchC_row g2 r2 = s * TAchC_row g r.
  Proof. unfold r, g, r2, g2. sunfold. simpl. gz. fin. Qed.
  Theorem TchC_scaling : TchC_row g2 r2 = h * TchC_row g r.
  Proof. unfold r, g, r2, g2. sunfold. simpl. gz. fin. Qed.
End Scaling.

(** ** a surface with the same medium on both sides (dummy surface) contributes nothing *)
Section Dummy.
  Variables n c y u yb ub dn H nl ul : R.
  Let r := mkRow (O:=ROps) n n c y u u yb ub ub dn dn.
  Let g := mkGlob (O:=ROps) H nl ul.
  Hypothesis Hn : n <> 0.
  Hypothesis HK : nl * ul <> 0.

  Theorem no_index_step_contributes_nothing :
    TSC_row g r = 0 /\ CC_row g r = 0 /\ TAC_row g r = 0 /\ TPC_row g r = 0 /\ DC_row g r = 0 /\
    TAchC_row g r = 0 /\ TchC_row g r = 0.
  Proof.
    assert (Hnl : nl <> 0) by (intro Z; apply HK; rewrite Z; ring).
    assert (Hul : ul <> 0) by (intro Z; apply HK; rewrite Z; ring).
    unfold r, g. sunfold. simpl. gz. rewrite ?Rlit_half.
    destruct (Reqb (2 * n * H) 0) eqn:E.
    - repeat split; field; repeat split; assumption.
    - apply Reqb_false in E. assert (HH : H <> 0) by (intro Z; apply E; rewrite Z; ring).
      repeat split; field; repeat split; assumption.
  Qed.
End Dummy.

(** ** stop-shift independence for any number of surfaces *)
Definition same_marginal (a b : srow ROps) : Prop :=
  r_n0 a = r_n0 b /\ r_n1 a = r_n1 b /\ r_c a = r_c b /\ r_ya a = r_ya b /\
  r_ua0 a = r_ua0 b /\ r_ua1 a = r_ua1 b.

Lemma TSC_row_closed (g : sglob ROps) (a : srow ROps) :
  r_n1 a <> 0 -> g_inv g <> 0 -> g_nl g * g_ul g <> 0 ->
  TSC_row g a = r_n0 a * (r_n1 a - r_n0 a) * r_ya a * (r_ua1 a + (r_c a * r_ya a + r_ua0 a)) *
                ((r_c a * r_ya a + r_ua0 a) * (r_c a * r_ya a + r_ua0 a)) / (2 * r_n1 a * (g_nl g * g_ul g)).
Proof.
  destruct g as [H nl ul], a as [n n' c y u u' yb ub ub' dn dn']. cbn [r_n0 r_n1 r_c r_ya r_ua0 r_ua1 g_inv g_nl g_ul].
  intros A B C. apply TSC_stop_independent; assumption.
Qed.

(** moving the stop changes the chief ray (yb, ub, ub') and nothing else: the spherical family is unchanged *)
Theorem spherical_family_stop_independent (H1 H2 nl ul : R) (rows1 rows2 : list (srow ROps)) :
  H1 <> 0 -> H2 <> 0 -> nl * ul <> 0 ->
  Forall2 same_marginal rows1 rows2 -> Forall (fun a : srow ROps => r_n1 a <> 0) rows1 ->
  fam TSC_row (mkGlob (O:=ROps) H1 nl ul) rows1 = fam TSC_row (mkGlob (O:=ROps) H2 nl ul) rows2.
Proof.
  intros A1 A2 AK HF. induction HF as [|a b l1 l2 (E0 & E1 & Ec & Ey & Eu & Eu') _ IH]; intros Hn; [reflexivity|].
  inversion Hn as [|? ? Ha Hl]; subst. unfold fam in *. cbn [map]. f_equal; [|apply IH; exact Hl].
  rewrite (TSC_row_closed (mkGlob (O:=ROps) H1 nl ul) a Ha A1 AK).
  assert (Hb : r_n1 b <> 0) by (rewrite <- E1; exact Ha).
  rewrite (TSC_row_closed (mkGlob (O:=ROps) H2 nl ul) b Hb A2 AK).
  cbn [g_nl g_ul]. rewrite E0, E1, Ec, Ey, Eu, Eu'. reflexivity.
Qed.

Theorem spherical_sum_stop_independent (H1 H2 nl ul : R) (rows1 rows2 : list (srow ROps)) :
  H1 <> 0 -> H2 <> 0 -> nl * ul <> 0 ->
  Forall2 same_marginal rows1 rows2 -> Forall (fun a : srow ROps => r_n1 a <> 0) rows1 ->
  seidel_sum (mkGlob (O:=ROps) H1 nl ul) (fam TSC_row (mkGlob (O:=ROps) H1 nl ul) rows1) =
  seidel_sum (mkGlob (O:=ROps) H2 nl ul) (fam TSC_row (mkGlob (O:=ROps) H2 nl ul) rows2).
Proof.
  intros A1 A2 AK HF Hn. unfold seidel_sum. cbn [g_nl g_ul].
  rewrite (spherical_family_stop_independent H1 H2 nl ul rows1 rows2 A1 A2 AK HF Hn). reflexivity.
Qed.

Lemma TPC_row_closed (g : sglob ROps) (a : srow ROps) :
  r_n0 a <> 0 -> r_n1 a <> 0 -> g_nl g * g_ul g <> 0 ->
  TPC_row g a = (r_n1 a - r_n0 a) * r_c a * (g_inv g * g_inv g) / (2 * r_n1 a * r_n0 a * (g_nl g * g_ul g)).
Proof.
  destruct g as [H nl ul], a as [n n' c y u u' yb ub ub' dn dn']. cbn [r_n0 r_n1 r_c g_inv g_nl g_ul].
  intros A B C. apply TPC_depends_on_invariant_only; assumption.
Qed.

(** the Petzval family needs only indices, curvatures and the invariant: no ray of either kind *)
Theorem petzval_family_ray_independent (H nl ul : R) (rows1 rows2 : list (srow ROps)) :
  nl * ul <> 0 ->
  Forall2 (fun a b : srow ROps => r_n0 a = r_n0 b /\ r_n1 a = r_n1 b /\ r_c a = r_c b) rows1 rows2 ->
  Forall (fun a : srow ROps => r_n0 a <> 0 /\ r_n1 a <> 0) rows1 ->
  fam TPC_row (mkGlob (O:=ROps) H nl ul) rows1 = fam TPC_row (mkGlob (O:=ROps) H nl ul) rows2.
Proof.
  intros AK HF. induction HF as [|a b l1 l2 (E0 & E1 & Ec) _ IH]; intros Hn; [reflexivity|].
  inversion Hn as [|? ? [Ha0 Ha1] Hl]; subst. unfold fam in *. cbn [map]. f_equal; [|apply IH; exact Hl].
  rewrite (TPC_row_closed (mkGlob (O:=ROps) H nl ul) a Ha0 Ha1 AK).
  assert (Hb0 : r_n0 b <> 0) by (rewrite <- E0; exact Ha0).
  assert (Hb1 : r_n1 b <> 0) by (rewrite <- E1; exact Ha1).
  rewrite (TPC_row_closed (mkGlob (O:=ROps) H nl ul) b Hb0 Hb1 AK).
  rewrite E0, E1, Ec. reflexivity.
Qed.

(** a flat surface has no Petzval contribution *)
Theorem plane_has_no_petzval (g : sglob ROps) (a : srow ROps) :
  r_c a = 0 -> r_n0 a <> 0 -> r_n1 a <> 0 -> g_nl g * g_ul g <> 0 -> TPC_row g a = 0.
Proof.
  intros Hc A B C. rewrite (TPC_row_closed g a A B C), Hc. unfold Rdiv. rops. ring.
Qed.

(** The reversed system (SurfaceGroup.inverted) in matrix optics (C04): with J = diag(1, -1),
      M . J . T(d) . M' = J . T(e)
    where M is the matrix of a surface list traced forward from z0, M' the matrix of the reversed list (vertices
    zl - z, curvatures negated, media swapped) traced from w0, d the distance from z0 to the first vertex and e the
    distance from w0 to the first vertex of the reversed list.  Hence M' = T(-d) J M^-1 J T(e): the library's reverse
    traces compute entries of the inverse of the forward matrix, and f1 = det M / C. *)
From Coq Require Import Reals Lra Lia ZArith List Bool Psatz.
From OV Require Import Ops RInst XR Gen.RealRays Gen.Paraxial Model.Paraxial Spec.S_ABCD Lemmas.L_Paraxial Lemmas.L_Paraxial2.
Import ListNotations.
Local Open Scope R_scope.

Definition Jm : mat := mkMat 1 0 0 (-1).

Lemma mat_eq a b c d a' b' c' d' : a = a' -> b = b' -> c = c' -> d = d' -> mkMat a b c d = mkMat a' b' c' d'.
Proof. intros; subst; reflexivity. Qed.

Lemma mmul_assoc p q r : mmul (mmul p q) r = mmul p (mmul q r).
Proof. destruct p, q, r; unfold mmul; simpl; apply mat_eq; ring. Qed.
Lemma mmul_mid_l p : mmul mid p = p.
Proof. destruct p; unfold mmul, mid; simpl; apply mat_eq; ring. Qed.
Lemma mmul_mid_r p : mmul p mid = p.
Proof. destruct p; unfold mmul, mid; simpl; apply mat_eq; ring. Qed.

Lemma TJT a : mmul (transfer a) (mmul Jm (transfer a)) = Jm.
Proof. unfold mmul, transfer, Jm; simpl; apply mat_eq; ring. Qed.

(** the optical part of a surface (no transfer) and of its reversed counterpart *)
Definition opt (s : asurf) : mat :=
  if a_refl s then mirror (a_c s) else refraction (a_c s) (a_n1 s) (a_n2 s).

Definition nonobj (s : asurf) : Prop := a_obj s = false /\ (a_refl s = false -> a_n1 s <> 0 /\ a_n2 s <> 0).

Lemma opt_J_opt_inv zl s : nonobj s -> mmul (opt s) (mmul Jm (opt (ainv zl s))) = Jm.
Proof.
  intros [Ho Hn]. unfold ainv. rewrite Ho. unfold opt. cbn [a_refl a_c a_n1 a_n2].
  destruct (a_refl s) eqn:Er.
  - unfold mmul, mirror, Jm; simpl; apply mat_eq; ring.
  - destruct (Hn eq_refl) as [H1 H2].
    unfold mmul, refraction, Jm; simpl; apply mat_eq; field; try split; assumption.
Qed.

Lemma surf_matrix_nonobj s z : a_obj s = false -> surf_matrix s z = mmul (opt s) (transfer (a_z s - z)).
Proof. intros H. unfold surf_matrix, opt. rewrite H. reflexivity. Qed.

(** axial position reached after tracing a list *)
Fixpoint endz (ss : list asurf) (z : R) : R :=
  match ss with [] => z | s :: ss' => endz ss' (next_z s z) end.

Lemma sysmat_app l x : forall z, sysmat (l ++ [x]) z = mmul (surf_matrix x (endz l z)) (sysmat l z).
Proof.
  induction l as [|s l IH]; intros z; cbn [app sysmat endz].
  - rewrite mmul_mid_l, mmul_mid_r. reflexivity.
  - rewrite IH. rewrite mmul_assoc. reflexivity.
Qed.

Lemma endz_app l x z : endz (l ++ [x]) z = next_z x (endz l z).
Proof. revert z; induction l as [|s l IH]; intros z; cbn [app endz]; [reflexivity|apply IH]. Qed.

Lemma ainv_nonobj zl s : a_obj s = false -> a_obj (ainv zl s) = false /\ a_z (ainv zl s) = zl - a_z s.
Proof. intros H. unfold ainv. rewrite H. cbn. split; reflexivity. Qed.

(** where the reversed trace stands after the reversed list: at the (reversed) vertex of the FIRST forward surface *)
Lemma endz_arev zl ss w0 :
  Forall nonobj ss ->
  endz (arev zl ss) w0 = match ss with [] => w0 | s :: _ => zl - a_z s end.
Proof.
  intros H. destruct ss as [|s ss]; [reflexivity|].
  unfold arev. cbn [rev map]. rewrite map_app. cbn [map]. rewrite endz_app.
  inversion H as [|? ? [Ho _] _]; subst.
  destruct (ainv_nonobj zl s Ho) as [Ho' Hz]. unfold next_z. rewrite Ho'. exact Hz.
Qed.

(** distance from the start plane to the first vertex (forward), resp. of the reversed trace *)
Definition dfirst (zl w0 : R) (ss : list asurf) (z0 : R) : R :=
  match ss with [] => (zl - w0) - z0 | s :: _ => a_z s - z0 end.
Definition lastz (ss : list asurf) (z0 : R) : R := endz ss z0.

Theorem reversed_system_matrix zl w0 ss : forall z0,
  Forall nonobj ss ->
  mmul (sysmat ss z0) (mmul Jm (mmul (transfer (dfirst zl w0 ss z0)) (sysmat (arev zl ss) w0))) =
  mmul Jm (transfer (zl - lastz ss z0 - w0)).
Proof.
  induction ss as [|s ss IH]; intros z0 H.
  - cbn [sysmat arev rev map dfirst lastz endz]. rewrite mmul_mid_l, mmul_mid_r.
    f_equal. f_equal. ring.
  - inversion H as [|? ? Hs Hrest]; subst. destruct Hs as [Ho Hn].
    assert (Hs : nonobj s) by (split; assumption).
    cbn [sysmat dfirst lastz endz]. unfold next_z at 1 2. rewrite Ho.
    (* reversed list = arev rest ++ [ainv s] *)
    assert (Ea : arev zl (s :: ss) = arev zl ss ++ [ainv zl s]).
    { unfold arev. cbn [rev]. rewrite map_app. reflexivity. }
    rewrite Ea, sysmat_app.
    destruct (ainv_nonobj zl s Ho) as [Ho' Hz'].
    rewrite (surf_matrix_nonobj (ainv zl s) _ Ho'), Hz'.
    rewrite (endz_arev zl ss w0 Hrest).
    rewrite (surf_matrix_nonobj s z0 Ho).
    (* the transfer inside the reversed surface matrix is dfirst of the rest, seen from a_z s *)
    assert (Ed : zl - a_z s - match ss with [] => w0 | s0 :: _ => zl - a_z s0 end = dfirst zl w0 ss (a_z s)).
    { destruct ss as [|s0 ss0]; cbn [dfirst]; ring. }
    rewrite Ed.
    specialize (IH (a_z s) Hrest). unfold lastz in IH.
    (* regroup: Mrest . (opt s . T . J . T . opt' ) . T(d') . M'rest *)
    rewrite !mmul_assoc.
    rewrite <- (mmul_assoc (transfer (a_z s - z0)) Jm).
    rewrite <- (mmul_assoc (mmul (transfer (a_z s - z0)) Jm) (transfer (a_z s - z0))).
    rewrite (mmul_assoc (transfer (a_z s - z0)) Jm (transfer (a_z s - z0))), TJT.
    rewrite <- (mmul_assoc Jm (opt (ainv zl s))).
    rewrite <- (mmul_assoc (opt s) (mmul Jm (opt (ainv zl s)))).
    rewrite (opt_J_opt_inv zl s Hs).
    exact IH.
Qed.

(** ** entries of the reversed-system matrix from the forward matrix *)
Lemma reversed_entries (M M' : mat) (d e : R) :
  mmul M (mmul Jm (mmul (transfer d) M')) = mmul Jm (transfer e) ->
  mdet M <> 0 ->
  mc M' = mc M / mdet M /\
  md M' = (mc M * e + ma M) / mdet M /\
  ma M' = (md M - d * mc M) / mdet M.
Proof.
  destruct M as [A B C D], M' as [a' b' c' d']. unfold mmul, Jm, transfer, mdet. cbn [ma mb mc md].
  intros H Hdet. injection H as E1 E2 E3 E4.
  assert (Hc : c' * (A * D - B * C) = C).
  { assert (H1 := f_equal (fun x => C * x) E1). assert (H3 := f_equal (fun x => A * x) E3). cbv beta in H1, H3. lra. }
  assert (Hd : d' * (A * D - B * C) = C * e + A).
  { assert (H2 := f_equal (fun x => C * x) E2). assert (H4 := f_equal (fun x => A * x) E4). cbv beta in H2, H4. lra. }
  assert (Hu : (a' + d * c') * (A * D - B * C) = D).
  { assert (H1 := f_equal (fun x => D * x) E1). assert (H3 := f_equal (fun x => B * x) E3). cbv beta in H1, H3. lra. }
  assert (Hx : forall p q, p * (A * D - B * C) = q -> p = q / (A * D - B * C)).
  { intros p q Hpq. rewrite <- Hpq. field. exact Hdet. }
  repeat split.
  - apply Hx, Hc.
  - apply Hx, Hd.
  - apply Hx. transitivity ((a' + d * c') * (A * D - B * C) - d * (c' * (A * D - B * C))); [ring|].
    rewrite Hu, Hc. ring.
Qed.

Lemma reversed_entry_b (M M' : mat) (d e : R) :
  mmul M (mmul Jm (mmul (transfer d) M')) = mmul Jm (transfer e) ->
  mdet M <> 0 ->
  mb M' = (md M * e + mb M - d * (mc M * e + ma M)) / mdet M.
Proof.
  intros H Hdet. destruct (reversed_entries M M' d e H Hdet) as (_ & Ed & _).
  revert H Ed. destruct M as [A B C D], M' as [a' b' c' d']. unfold mmul, Jm, transfer, mdet in *. cbn [ma mb mc md] in *.
  intros H Ed. injection H as E1 E2 E3 E4.
  assert (Hv : (b' + d * d') * (A * D - B * C) = D * e + B).
  { assert (H2 := f_equal (fun x => D * x) E2). assert (H4 := f_equal (fun x => B * x) E4). cbv beta in H2, H4. lra. }
  assert (Hd' : d' * (A * D - B * C) = C * e + A).
  { rewrite Ed. field. exact Hdet. }
  transitivity (((b' + d * d') * (A * D - B * C) - d * (d' * (A * D - B * C))) / (A * D - B * C)); [field; exact Hdet|].
  rewrite Hv, Hd'. reflexivity.
Qed.

(** ** front focal length and front focal distance of the model from the FORWARD system matrix *)
Lemma rev_head_last {A B} (f : A -> B) (l : list A) (d : A) (b : B) :
  l <> [] -> match rev l with s :: _ => f s | [] => b end = f (last l d).
Proof.
  intros H. rewrite (app_removelast_last d H) at 1. rewrite rev_unit. reflexivity.
Qed.

Lemma Forall2_last {A B} (P : A -> B -> Prop) l1 l2 d1 d2 :
  Forall2 P l1 l2 -> l1 <> [] -> P (last l1 d1) (last l2 d2).
Proof.
  induction 1 as [|a b l1 l2 Hab H IH]; [congruence|]. intros _.
  destruct H as [|a' b' l1' l2' Hab' H']; [exact Hab|].
  change (P (last (a' :: l1') d1) (last (b' :: l2') d2)). apply IH. discriminate.
Qed.

Lemma last_In {A} (l : list A) (d : A) : l <> [] -> In (last l d) l.
Proof.
  induction l as [|a l IH]; [congruence|]. intros _. destruct l as [|b l]; [left; reflexivity|].
  right. change (last (a :: b :: l) d) with (last (b :: l) d). apply IH. discriminate.
Qed.

Lemma endz_last ss : forall z0 d, Forall nonobj ss -> ss <> [] -> endz ss z0 = a_z (last ss d).
Proof.
  induction ss as [|s ss IH]; intros z0 d H Hne; [congruence|].
  inversion H as [|? ? [Ho _] Hrest]; subst. cbn [endz]. unfold next_z. rewrite Ho.
  destruct ss as [|s' ss']; [reflexivity|].
  change (last (s :: s' :: ss') d) with (last (s' :: ss') d). apply IH; [exact Hrest|discriminate].
Qed.

Lemma first_record_height l z :
  l <> [] -> fst (hd (0, 0) (map (fun m => mapply m (1, 0)) (sysmats l z mid))) = 1.
Proof.
  destruct l as [|s l]; [congruence|]. intros _. cbn [sysmats map hd].
  unfold surf_matrix. destruct (a_obj s); [unfold mapply, mmul, mid; simpl; ring|].
  destruct (a_refl s); unfold mapply, mmul, mid, mirror, refraction, transfer; simpl; ring.
Qed.

Definition finite_media (s : asurf) : Prop := a_obj s = false /\ a_n1 s <> 0 /\ a_n2 s <> 0.

Lemma finite_media_nonobj s : finite_media s -> nonobj s.
Proof. intros (Ho & H1 & H2). split; [exact Ho|]. intros _. split; assumption. Qed.

Theorem f1_F1_from_forward_matrix pobj ps1 psr aobj s1 asr zl :
  Forall2 wf_surf (pobj :: ps1 :: psr) (aobj :: s1 :: asr) ->
  a_obj aobj = true ->
  Forall finite_media (s1 :: asr) ->
  p_z (last (ps1 :: psr) pobj) = Fin zl ->
  let M := sysmat (s1 :: asr) (a_z s1 - 1) in
  mdet M <> 0 -> mc M <> 0 ->
  f1 (pobj :: ps1 :: psr) = Fin (mdet M / mc M) /\
  F1 (pobj :: ps1 :: psr) = Fin ((md M - mc M) / mc M).
Proof.
  intros HW Hobj Hfm Hzl M Hdet Hc.
  set (pss := pobj :: ps1 :: psr). set (ass := aobj :: s1 :: asr).
  assert (Hno : Forall nonobj (s1 :: asr)).
  { eapply Forall_impl; [|exact Hfm]. intros s; apply finite_media_nonobj. }
  (* the reversed system is well formed *)
  assert (Hrev : match rev pss with s :: _ => p_z s | [] => Fin 0 end = Fin zl).
  { etransitivity; [apply (rev_head_last (fun s : psurf XOps => p_z s) pss pobj (Fin 0)); discriminate|exact Hzl]. }
  assert (Hn1 : Forall (fun s => a_obj s = false -> a_n1 s <> 0) ass).
  { constructor; [rewrite Hobj; discriminate|].
    eapply Forall_impl; [|exact Hfm]. intros s (_ & H1 & _) _. exact H1. }
  pose proof (wf_inverted pss ass zl HW Hn1 Hrev) as HWI.
  (* vertex of the last surface on the abstract side *)
  assert (Hlast : a_z (last (s1 :: asr) aobj) = zl).
  { pose proof (Forall2_last wf_surf pss ass pobj aobj HW ltac:(discriminate)) as HL.
    change (last pss pobj) with (last (ps1 :: psr) pobj) in HL.
    change (last ass aobj) with (last (s1 :: asr) aobj) in HL.
    assert (Ho : a_obj (last (s1 :: asr) aobj) = false).
    { assert (HIn : In (last (s1 :: asr) aobj) (s1 :: asr)) by (apply last_In; discriminate).
      rewrite Forall_forall in Hfm. apply (Hfm _ HIn). }
    revert HL Ho Hzl. generalize (last (ps1 :: psr) pobj) as pl. generalize (last (s1 :: asr) aobj) as al.
    intros al pl HL Ho Hzl'.
    destruct HL as [x y z rx ry rz Rx n1 n2 rf st | x z rx ry rz Rx c n1 n2 rf st Hcv Hn2]; cbn in *.
    - discriminate.
    - injection Hzl' as <-. reflexivity. }
  (* launch of the reverse trace *)
  assert (Hpos0 : pos (O:=XOps) (inverted pss) 0 = Fin (zl + - zl)).
  { unfold pos, inverted. xops. change (Fin (IZR 0)) with (Fin 0). rewrite Hrev.
    rewrite (app_removelast_last pobj (l:=pss)) by discriminate. rewrite rev_unit. cbn [map nth_error p_z].
    change (last pss pobj) with (last (ps1 :: psr) pobj). rewrite Hzl. reflexivity. }
  set (w0 := zl + - zl + - IZR 1).
  assert (Htr : tg (O:=XOps) pss (Fin 1) (Fin 0) (xsub (Fin (zl + - zl)) (Fin (IZR 1))) true 0
                = map finyu (map (fun mm => mapply mm (1, 0)) (sysmats (arev zl ass) w0 mid))).
  { cbn [xsub xneg xadd]. fold w0. rewrite (tg_reverse_matrix pss ass zl 0 1 0 w0 HWI). reflexivity. }
  (* the reversed list = reversed surfaces followed by the object surface, which only records *)
  assert (Ear : arev zl ass = arev zl (s1 :: asr) ++ [aobj]).
  { unfold arev, ass. cbn [rev]. rewrite !map_app. cbn [map]. unfold ainv at 3. rewrite Hobj. reflexivity. }
  set (M' := sysmat (arev zl (s1 :: asr)) w0).
  assert (Hsys : sysmat (arev zl ass) w0 = M').
  { rewrite Ear, sysmat_app. unfold surf_matrix. rewrite Hobj. apply mmul_mid_l. }
  assert (Hne : arev zl ass <> []) by (rewrite Ear; destruct (arev zl (s1 :: asr)); discriminate).
  (* entries of M' from the forward matrix *)
  pose proof (reversed_system_matrix zl w0 (s1 :: asr) (a_z s1 - 1) Hno) as HR.
  fold M in HR. fold M' in HR. cbn [dfirst] in HR.
  destruct (reversed_entries M M' _ _ HR Hdet) as (Ec & _ & Ea).
  replace (a_z s1 - (a_z s1 - 1)) with 1 in Ea by ring.
  assert (Hc' : mc M' <> 0).
  { rewrite Ec. unfold Rdiv. apply Rmult_integral_contrapositive_currified; [exact Hc|].
    apply Rinv_neq_0_compat, Hdet. }
  unfold f1, F1. fold pss. xops. rewrite Hpos0. rewrite Htr.
  rewrite (lastyu_matrix _ _ _ _ Hne), Hsys.
  unfold firstyu. rewrite map_map.
  assert (Hfirst : hd (@nan_ XOps, @nan_ XOps) (map (fun x => finyu (mapply x (1, 0))) (sysmats (arev zl ass) w0 mid))
                   = (Fin 1, Fin (snd (hd (0, 0) (map (fun m => mapply m (1, 0)) (sysmats (arev zl ass) w0 mid)))))).
  { pose proof (first_record_height (arev zl ass) w0 Hne) as H1.
    destruct (arev zl ass) as [|x l]; [congruence|]. cbn [sysmats map hd] in *.
    unfold finyu. rewrite H1. reflexivity. }
  rewrite Hfirst. unfold finyu, mapply. cbn [fst snd xdiv].
  replace (mc M' * 1 + md M' * 0) with (mc M') by ring.
  replace (ma M' * 1 + mb M' * 0) with (ma M') by ring.
  destruct (Req_EM_T (mc M') 0) as [E|_]; [contradiction|].
  split; f_equal.
  - rewrite Ec. field. split; assumption.
  - rewrite Ea, Ec. replace (1 * mc M) with (mc M) by ring. field. split; assumption.
Qed.

(** non-vacuity: the biconvex singlet of L_Paraxial2 meets every hypothesis *)
Example singlet_f1 :
  exists v w, f1 singlet_ps = Fin v /\ F1 singlet_ps = Fin w.
Proof.
  pose proof (f1_F1_from_forward_matrix
                (mkPS (O:=XOps) (Fin 0) (Fin 0) NInf (Fin 0) (Fin 0) (Fin 0) PInf (Fin 1) (Fin 1) false false true)
                (mkPS (O:=XOps) (Fin 0) (Fin 0) (Fin 0) (Fin 0) (Fin 0) (Fin 0) (Fin 50) (Fin 1) (Fin 1.5) false true false)
                [mkPS (O:=XOps) (Fin 0) (Fin 0) (Fin 5) (Fin 0) (Fin 0) (Fin 0) (Fin (-50)) (Fin 1.5) (Fin 1) false false false;
                 mkPS (O:=XOps) (Fin 0) (Fin 0) (Fin 50) (Fin 0) (Fin 0) (Fin 0) PInf (Fin 1) (Fin 1) false false false]
                (mkAS 0 0 1 1 false true) (mkAS 0 (/ 50) 1 1.5 false false)
                [mkAS 5 (/ (-50)) 1.5 1 false false; mkAS 50 0 1 1 false false] 50 singlet_wf eq_refl) as H.
  cbv zeta in H.
  assert (Hfm : Forall finite_media [mkAS 0 (/ 50) 1 1.5 false false; mkAS 5 (/ (-50)) 1.5 1 false false; mkAS 50 0 1 1 false false]).
  { repeat constructor; cbn; lra. }
  specialize (H Hfm eq_refl).
  assert (Hd : mdet (sysmat [mkAS 0 (/ 50) 1 1.5 false false; mkAS 5 (/ (-50)) 1.5 1 false false; mkAS 50 0 1 1 false false] (0 - 1)) <> 0).
  { cbn. unfold surf_matrix, mmul, refraction, transfer, mid, mdet; cbn. intro E. field_simplify in E. all: try lra. }
  assert (Hc : mc (sysmat [mkAS 0 (/ 50) 1 1.5 false false; mkAS 5 (/ (-50)) 1.5 1 false false; mkAS 50 0 1 1 false false] (0 - 1)) <> 0).
  { cbn. unfold surf_matrix, mmul, refraction, transfer, mid; cbn. intro E. field_simplify in E. all: try lra. }
  destruct (H Hd Hc) as [E1 E2]. eexists; eexists; split; [exact E1|exact E2].
Qed.

(** ** entrance pupil position from the FORWARD matrix of the surfaces in front of the stop:
    with [[A B][C D]] that matrix (from the plane z0, a distance d in front of the first vertex) and e the gap between
    the last of those surfaces and the stop, the stop plane is reached by [[A + eC, B + eD] ...] and
    EPL = (B + eD)/(A + eC) - d  (the object-space image of the stop centre, measured from the first vertex) *)
Lemma skipn_app_cons {A} (l1 : list A) (x : A) (l2 : list A) : skipn (S (length l1)) (l1 ++ x :: l2) = l2.
Proof. induction l1 as [|a l1 IH]; [reflexivity|]. cbn [length app skipn]. exact IH. Qed.

Theorem EPL_classical pss aobj pre stop post zl k z0 :
  let ass := aobj :: pre ++ stop :: post in
  Forall2 wf_surf (inverted pss) (arev zl ass) ->
  a_obj aobj = true ->
  Forall nonobj pre -> pre <> [] ->
  stop_index pss = Some (S k) ->
  stop_index (inverted pss) = Some (length post) ->
  pos (O:=XOps) (inverted pss) (length post) = Fin (zl - a_z stop) ->
  let M := sysmat pre z0 in
  let e := a_z stop - endz pre z0 in
  let d := dfirst zl (zl - a_z stop) pre z0 in
  mdet M <> 0 -> mc M * e + ma M <> 0 ->
  EPL pss = Fin ((md M * e + mb M) / (mc M * e + ma M) - d).
Proof.
  intros ass HW Hobj Hno Hne Hs Hsi Hpos M e d Hdet Hden.
  assert (Esk : skipn (S (length post)) (arev zl ass) = arev zl pre ++ [aobj]).
  { unfold arev, ass. cbn [rev]. rewrite rev_app_distr. cbn [rev]. rewrite !map_app. cbn [map].
    rewrite <- !app_assoc. cbn [app].
    replace (length post) with (length (map (ainv zl) (rev post))) by (rewrite map_length, rev_length; reflexivity).
    rewrite skipn_app_cons. unfold ainv at 2. rewrite Hobj. reflexivity. }
  set (zs := zl - a_z stop) in *.
  set (M' := sysmat (arev zl pre) zs).
  assert (Hm : sysmat (skipn (S (length post)) (arev zl ass)) zs = M').
  { rewrite Esk, sysmat_app. unfold surf_matrix. rewrite Hobj. apply mmul_mid_l. }
  pose proof (reversed_system_matrix zl zs pre z0 Hno) as HR. fold M in HR. fold M' in HR.
  replace (zl - lastz pre z0 - zs) with e in HR by (unfold e, zs, lastz; ring).
  fold d in HR.
  destruct (reversed_entries M M' d e HR Hdet) as (_ & Ed & _).
  pose proof (reversed_entry_b M M' d e HR Hdet) as Eb.
  assert (Hd' : md M' <> 0).
  { rewrite Ed. unfold Rdiv. apply Rmult_integral_contrapositive_currified; [exact Hden|].
    apply Rinv_neq_0_compat, Hdet. }
  assert (Hnes : skipn (S (length post)) (arev zl ass) <> []).
  { rewrite Esk. destruct (arev zl pre); discriminate. }
  pose proof (EPL_from_matrix pss ass zl k (length post) zs HW Hs Hsi Hnes Hpos) as HE.
  cbv zeta in HE. rewrite Hm in HE. rewrite (HE Hd'). f_equal.
  rewrite Eb, Ed. field. split; assumption.
Qed.

(** non-vacuity: singlet with the stop on its SECOND surface *)
Definition stop2_ps : list (psurf XOps) :=
    [mkPS (O:=XOps) (Fin 0) (Fin 0) NInf (Fin 0) (Fin 0) (Fin 0) PInf (Fin 1) (Fin 1) false false true;
     mkPS (O:=XOps) (Fin 0) (Fin 0) (Fin 0) (Fin 0) (Fin 0) (Fin 0) (Fin 50) (Fin 1) (Fin 1.5) false false false;
     mkPS (O:=XOps) (Fin 0) (Fin 0) (Fin 5) (Fin 0) (Fin 0) (Fin 0) (Fin (-50)) (Fin 1.5) (Fin 1) false true false;
     mkPS (O:=XOps) (Fin 0) (Fin 0) (Fin 50) (Fin 0) (Fin 0) (Fin 0) PInf (Fin 1) (Fin 1) false false false].
Example stop2_wf : Forall2 wf_surf stop2_ps singlet_as.
Proof.
  repeat constructor; unfold curv; try (destruct (Req_EM_T _ _); [lra|reflexivity]); try lra; reflexivity.
Qed.
Example stop2_EPL : exists v, EPL stop2_ps = Fin v.
Proof.
  assert (HWI : Forall2 wf_surf (inverted stop2_ps) (arev 50 singlet_as)).
  { apply wf_inverted; [exact stop2_wf| |reflexivity]. repeat constructor; cbn; intros; try discriminate; lra. }
  pose proof (EPL_classical stop2_ps (mkAS 0 0 1 1 false true) [mkAS 0 (/ 50) 1 1.5 false false]
                (mkAS 5 (/ (-50)) 1.5 1 false false) [mkAS 50 0 1 1 false false] 50 1 (-1) HWI eq_refl) as H.
  cbv zeta in H.
  assert (Hno : Forall nonobj [mkAS 0 (/ 50) 1 1.5 false false]).
  { repeat constructor; cbn; intros; lra. }
  specialize (H Hno ltac:(discriminate) eq_refl eq_refl).
  assert (Hp : pos (O:=XOps) (inverted stop2_ps) (length [mkAS 50 0 1 1 false false]) = Fin (50 - a_z (mkAS 5 (/ (-50)) 1.5 1 false false))).
  { cbn. first [reflexivity | f_equal; lra]. }
  specialize (H Hp).
  eexists. apply H.
  - cbn. unfold surf_matrix, mmul, refraction, transfer, mid, mdet; cbn. intro E. field_simplify in E. all: try lra.
  - cbn. unfold surf_matrix, mmul, refraction, transfer, mid; cbn. intro E. field_simplify in E. all: try lra.
Qed.

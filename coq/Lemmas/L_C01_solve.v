(** * C01: marginal-ray-height solve and image solve.
    Specification side (matrix optics of Spec/S_ABCD.v, to which the regenerated paraxial kernel is
    proved equal in Lemmas/L_Paraxial.v): moving surface idx and everything behind it by d changes the
    ray height on surface idx by d times the slope ARRIVING at that surface.  Hence the offset that
    places the ray at height h is (h - y_idx) / u_(idx-1).
    Implementation side (after the fix: commits 0fb8939 / a10a20f): the regenerated
    MarginalRayHeightSolve.apply moves exactly those vertices by (h - ya[idx]) / ua[idx-1], and
    Optic.image_solve moves the image plane by -ya[-1] / ua[-2]: both are proved to place the ray, on
    every surface (powered or not), for a fixed launch ray. *)
From Coq Require Import Reals ZArith List Bool Lia Lra.
From OV Require Import Ops RInst Gen.LensEdit Spec.S_ABCD Spec.S_C01 Lemmas.L_C01_lists Lemmas.L_Paraxial.
Import ListNotations.
Local Open Scope R_scope.

Definition shift_surf (d : R) (s : asurf) : asurf :=
  mkAS (a_z s + d) (a_c s) (a_n1 s) (a_n2 s) (a_refl s) (a_obj s).
Definition shift_from (d : R) (ss : list asurf) : list asurf := map (shift_surf d) ss.

Definition afinal (ss : list asurf) (st : R * R * R) : R * R * R := fold_left (fun st s => astep s st) ss st.

Lemma atrace_app pre rest st : atrace (pre ++ rest) st = atrace pre st ++ atrace rest (afinal pre st).
Proof.
  revert st; induction pre as [|s pre IH]; intros st; [reflexivity|].
  cbn [app atrace afinal fold_left]. destruct (astep s st) as [[y u] z] eqn:E.
  rewrite IH. reflexivity.
Qed.

Lemma atrace_length ss : forall st, List.length (atrace ss st) = List.length ss.
Proof. induction ss as [|s ss IH]; intros st; [reflexivity|]. cbn [atrace]. destruct (astep s st) as [[y u] z]. cbn [List.length]. rewrite IH. reflexivity. Qed.

(** height recorded on the first surface of [s :: post] when the ray arrives as (yp, up, zp) *)
Lemma first_height s post yp up zp :
  a_obj s = false ->
  fst (hd (0, 0) (atrace (s :: post) (yp, up, zp))) = yp + (a_z s - zp) * up.
Proof.
  intros Ho. cbn [atrace]. unfold astep, surf_matrix, next_z. rewrite Ho.
  destruct (a_refl s); cbn; ring.
Qed.

(** ** the geometric fact: a rigid shift by d of surface idx.. moves the height there by d * (arriving slope) *)
Theorem shift_moves_height pre s post st d :
  a_obj s = false ->
  let '(yp, up, zp) := afinal pre st in
  fst (nth (List.length pre) (atrace (pre ++ shift_from d (s :: post)) st) (0, 0)) =
  fst (nth (List.length pre) (atrace (pre ++ s :: post) st) (0, 0)) + d * up.
Proof.
  intros Ho. destruct (afinal pre st) as [[yp up] zp] eqn:EF.
  rewrite !atrace_app, EF.
  rewrite !app_nth2 by (rewrite atrace_length; lia).
  rewrite !atrace_length, Nat.sub_diag.
  cbn [shift_from map].
  change (nth 0 ?l (0, 0)) with (hd (0, 0) l).
  assert (H1 := first_height (shift_surf d s) (map (shift_surf d) post) yp up zp Ho).
  assert (H2 := first_height s post yp up zp Ho).
  destruct (atrace (shift_surf d s :: map (shift_surf d) post) (yp, up, zp)) as [|r1 l1] eqn:E1;
    [cbn [atrace] in E1; destruct (astep _ _) as [[? ?] ?]; discriminate|].
  destruct (atrace (s :: post) (yp, up, zp)) as [|r2 l2] eqn:E2;
    [cbn [atrace] in E2; destruct (astep _ _) as [[? ?] ?]; discriminate|].
  cbn [hd nth] in *. rewrite H1, H2. cbn [shift_surf a_z]. ring.
Qed.

(** ** the solve that the property asks for: offset (h - y_idx) / (slope arriving) *)
Theorem mrh_solve_correct pre s post st h :
  a_obj s = false ->
  let '(yp, up, zp) := afinal pre st in
  up <> 0 ->
  let y := fst (nth (List.length pre) (atrace (pre ++ s :: post) st) (0, 0)) in
  fst (nth (List.length pre) (atrace (pre ++ shift_from ((h - y) / up) (s :: post)) st) (0, 0)) = h.
Proof.
  intros Ho. generalize (shift_moves_height pre s post st). destruct (afinal pre st) as [[yp up] zp].
  intros SH Hu. cbn zeta. rewrite (SH _ Ho). field. exact Hu.
Qed.

(** ** what the regenerated MarginalRayHeightSolve.apply does to the vertex positions *)
Theorem mrh_kernel_is_shift (ya ua : list R) (h : R) (idx : Z) (ss : list asurf) :
  (0 <= idx)%Z ->
  k_c01_mrh_apply ROps ya ua idx h (map a_z ss) (Z.of_nat (List.length ss)) =
  map a_z (firstn (Z.to_nat idx) ss ++
           shift_from ((h - getZ (O:=ROps) ya idx) /
                       (if (idx >? 0)%Z then getZ (O:=ROps) ua (idx - 1) else getZ (O:=ROps) ua idx))
                      (skipn (Z.to_nat idx) ss)).
Proof.
  intros Hi. unfold k_c01_mrh_apply. rops.
  set (d := (h - getZ (O:=ROps) ya idx) / (if (idx >? 0)%Z then getZ (O:=ROps) ua (idx - 1) else getZ (O:=ROps) ua idx)).
  apply list_ext_nth.
  - rewrite map_rangeZ_length, Nat2Z.id, map_length, app_length. unfold shift_from. rewrite map_length.
    rewrite <- app_length, firstn_skipn. reflexivity.
  - intros i Hl. rewrite map_rangeZ_length, Nat2Z.id in Hl.
    rewrite map_rangeZ_nth by (rewrite Nat2Z.id; exact Hl).
    rewrite (getZ_of_nat (O:=ROps) (map a_z ss) i 0) by (rewrite map_length; exact Hl).
    rewrite nth_error_map.
    destruct (Z.ltb_spec (Z.of_nat i) idx) as [Hlt|Hge].
    + rewrite nth_error_app1 by (rewrite firstn_length; lia).
      assert (E : nth_error (firstn (Z.to_nat idx) ss) i = nth_error ss i).
      { rewrite <- (firstn_skipn (Z.to_nat idx) ss) at 2. rewrite nth_error_app1 by (rewrite firstn_length; lia). reflexivity. }
      rewrite E. destruct (nth_error ss i) as [s|] eqn:Es; [|apply nth_error_None in Es; lia].
      cbn [option_map]. f_equal. change 0 with (a_z (mkAS 0 0 0 0 false false)). rewrite map_nth.
      rewrite (nth_error_nth _ _ _ Es). reflexivity.
    + rewrite nth_error_app2 by (rewrite firstn_length; lia). rewrite firstn_length.
      replace (Nat.min (Z.to_nat idx) (List.length ss)) with (Z.to_nat idx) by lia.
      unfold shift_from. rewrite nth_error_map.
      assert (E : nth_error (skipn (Z.to_nat idx) ss) (i - Z.to_nat idx) = nth_error ss i).
      { rewrite <- (firstn_skipn (Z.to_nat idx) ss) at 2. rewrite nth_error_app2 by (rewrite firstn_length; lia).
        rewrite firstn_length. replace (Nat.min (Z.to_nat idx) (List.length ss)) with (Z.to_nat idx) by lia. reflexivity. }
      rewrite E. destruct (nth_error ss i) as [s|] eqn:Es; [|apply nth_error_None in Es; lia].
      cbn [option_map shift_surf a_z]. f_equal. change 0 with (a_z (mkAS 0 0 0 0 false false)). rewrite map_nth.
      rewrite (nth_error_nth _ _ _ Es). reflexivity.
Qed.

Lemma nth_pred_last {A} (l : list A) d : nth (List.length l - 1) l d = last l d.
Proof.
  induction l as [|a l IH]; [reflexivity|]. destruct l as [|b l]; [reflexivity|].
  change (last (a :: b :: l) d) with (last (b :: l) d). rewrite <- IH.
  cbn [List.length]. replace (S (S (List.length l)) - 1)%nat with (S (List.length l)) by lia.
  replace (S (List.length l) - 1)%nat with (List.length l) by lia. reflexivity.
Qed.

(** the record of the last surface of [pre] carries the slope with which the ray leaves [pre] *)
Lemma afinal_last pre : forall st, pre <> [] ->
  let '(yp, up, zp) := afinal pre st in last (atrace pre st) (0, 0) = (yp, up).
Proof.
  induction pre as [|s pre IH]; intros st NE; [contradiction|].
  cbn [afinal fold_left atrace]. destruct (astep s st) as [[y u] z] eqn:E.
  destruct pre as [|s2 pre].
  - cbn. reflexivity.
  - specialize (IH (y, u, z) ltac:(discriminate)). unfold afinal in IH.
    destruct (fold_left (fun st0 s0 => astep s0 st0) (s2 :: pre) (y, u, z)) as [[yp up] zp].
    rewrite <- IH. destruct (atrace (s2 :: pre) (y, u, z)) eqn:EA; [|reflexivity].
    cbn [atrace] in EA. destruct (astep s2 (y, u, z)) as [[? ?] ?]. discriminate.
Qed.

(** a lens whose vertex positions are replaced by a list of positions *)
Definition set_az (s : asurf) (z : R) : asurf := mkAS z (a_c s) (a_n1 s) (a_n2 s) (a_refl s) (a_obj s).
Definition with_zs (ss : list asurf) (zs : list R) : list asurf := map (fun p => set_az (fst p) (snd p)) (combine ss zs).

Lemma with_zs_shift0 d r :
  map (fun p => set_az (fst p) (snd p)) (combine r (map a_z (map (shift_surf d) r))) = map (shift_surf d) r.
Proof. induction r as [|s r IH]; [reflexivity|]. cbn [map combine fst snd]. rewrite IH. reflexivity. Qed.

Lemma with_zs_shift d pre r : with_zs (pre ++ r) (map a_z (pre ++ shift_from d r)) = pre ++ shift_from d r.
Proof.
  unfold with_zs, shift_from. induction pre as [|s pre IH].
  - cbn [app]. apply with_zs_shift0.
  - cbn [app map combine fst snd]. rewrite IH. f_equal. destruct s; reflexivity.
Qed.

(** ** The repaired solve places the marginal ray at the requested height on ANY surface behind the first
    (powered or not), for every lens, every launch ray and every height: retracing the lens with the
    vertex positions the regenerated kernel returns gives height h on surface idx *)
Theorem mrh_solve_places pre s post st h :
  pre <> [] -> a_obj s = false ->
  let ss := pre ++ s :: post in
  let rec := atrace ss st in
  let idx := Z.of_nat (List.length pre) in
  let '(yp, up, zp) := afinal pre st in
  up <> 0 ->
  let zs' := k_c01_mrh_apply ROps (map fst rec) (map snd rec) idx h (map a_z ss) (Z.of_nat (List.length ss)) in
  fst (nth (List.length pre) (atrace (with_zs ss zs') st) (0, 0)) = h.
Proof.
  intros NE Ho. cbv zeta.
  generalize (mrh_solve_correct pre s post st h Ho). generalize (afinal_last pre st NE).
  destruct (afinal pre st) as [[yp up] zp]. intros AL MC Hu.
  rewrite mrh_kernel_is_shift by lia. rewrite Nat2Z.id.
  rewrite firstn_app, firstn_all, Nat.sub_diag. cbn [firstn]. rewrite app_nil_r.
  rewrite skipn_app, skipn_all, Nat.sub_diag. cbn [skipn app].
  assert (Lp : (0 < List.length pre)%nat) by (destruct pre; [contradiction|simpl; lia]).
  destruct (Z.gtb_spec (Z.of_nat (List.length pre)) 0) as [_|]; [|lia].
  assert (LR : List.length (atrace (pre ++ s :: post) st) = List.length (pre ++ s :: post)) by apply atrace_length.
  rewrite (getZ_of_nat (O:=ROps) (map fst (atrace (pre ++ s :: post) st)) (List.length pre) 0)
    by (rewrite map_length, LR, app_length; simpl; lia).
  replace (Z.of_nat (List.length pre) - 1)%Z with (Z.of_nat (List.length pre - 1)) by lia.
  rewrite (getZ_of_nat (O:=ROps) (map snd (atrace (pre ++ s :: post) st)) (List.length pre - 1) 0)
    by (rewrite map_length, LR, app_length; simpl; lia).
  change (T ROps) with R.
  replace (nth (List.length pre) (map fst (atrace (pre ++ s :: post) st)) 0)
    with (fst (nth (List.length pre) (atrace (pre ++ s :: post) st) (0, 0)))
    by (symmetry; apply (map_nth fst (atrace (pre ++ s :: post) st) (0, 0))).
  replace (nth (List.length pre - 1) (map snd (atrace (pre ++ s :: post) st)) 0)
    with (snd (nth (List.length pre - 1) (atrace (pre ++ s :: post) st) (0, 0)))
    by (symmetry; apply (map_nth snd (atrace (pre ++ s :: post) st) (0, 0))).
  assert (EU : snd (nth (List.length pre - 1) (atrace (pre ++ s :: post) st) (0, 0)) = up).
  { rewrite atrace_app. rewrite app_nth1 by (rewrite atrace_length; lia).
    rewrite <- (atrace_length pre st) at 1. rewrite nth_pred_last. rewrite AL. reflexivity. }
  rewrite EU.
  rewrite with_zs_shift. apply MC. exact Hu.
Qed.

(** ** image solve: moving the image plane by -y/u brings the marginal ray onto the axis, provided the
    slope used is the slope arriving at the image plane *)
Theorem image_solve_focus pre img st :
  a_obj img = false ->
  let '(yp, up, zp) := afinal pre st in
  up <> 0 ->
  let y := fst (nth (List.length pre) (atrace (pre ++ [img]) st) (0, 0)) in
  fst (nth (List.length pre) (atrace (pre ++ shift_from (- (y / up)) [img]) st) (0, 0)) = 0.
Proof.
  intros Ho. generalize (shift_moves_height pre img [] st). destruct (afinal pre st) as [[yp up] zp].
  intros SH Hu. cbn zeta. rewrite (SH _ Ho). field. exact Hu.
Qed.

Lemma getZ_m1 (l : list R) a : getZ (O:=ROps) (l ++ [a]) (-1) = a.
Proof.
  unfold getZ, nthZ. rewrite app_length. cbn [List.length].
  destruct (Z.ltb_spec (-1) 0); [|lia].
  destruct (Z.ltb_spec (Z.of_nat (List.length l + 1) + -1) 0); [lia|].
  destruct (Z.leb_spec (Z.of_nat (List.length l + 1)) (Z.of_nat (List.length l + 1) + -1)); [lia|].
  cbn [orb]. replace (Z.to_nat (Z.of_nat (List.length l + 1) + -1)) with (List.length l) by lia.
  rewrite nth_error_app2 by lia. rewrite Nat.sub_diag. reflexivity.
Qed.
Lemma getZ_m2 (l : list R) a b : getZ (O:=ROps) (l ++ [a; b]) (-2) = a.
Proof.
  unfold getZ, nthZ. rewrite app_length. cbn [List.length].
  destruct (Z.ltb_spec (-2) 0); [|lia].
  destruct (Z.ltb_spec (Z.of_nat (List.length l + 2) + -2) 0); [lia|].
  destruct (Z.leb_spec (Z.of_nat (List.length l + 2)) (Z.of_nat (List.length l + 2) + -2)); [lia|].
  cbn [orb]. replace (Z.to_nat (Z.of_nat (List.length l + 2) + -2)) with (List.length l) by lia.
  rewrite nth_error_app2 by lia. rewrite Nat.sub_diag. reflexivity.
Qed.
Lemma setZ_m1 (l : list R) a x : setZ (O:=ROps) (l ++ [a]) (-1) x = l ++ [x].
Proof.
  unfold setZ. rewrite app_length. cbn [List.length].
  destruct (Z.ltb_spec (-1) 0); [|lia].
  destruct (Z.ltb_spec (Z.of_nat (List.length l + 1) + -1) 0); [lia|].
  destruct (Z.leb_spec (Z.of_nat (List.length l + 1)) (Z.of_nat (List.length l + 1) + -1)); [lia|].
  cbn [orb]. replace (Z.to_nat (Z.of_nat (List.length l + 1) + -1)) with (List.length l) by lia.
  clear. induction l as [|c l IH]; [reflexivity|]. cbn [app List.length set_nth]. f_equal. exact IH.
Qed.

(** the regenerated Optic.image_solve moves only the last vertex, by -(ya[-1] / ua[-2]) *)
Theorem image_solve_kernel (ya ua zs : list R) (y u_in u_out z : R) :
  k_c01_image_solve ROps (ya ++ [y]) (ua ++ [u_in; u_out]) (zs ++ [z]) = zs ++ [z - y / u_in].
Proof.
  unfold k_c01_image_solve. rops. change (Z.opp 1) with (-1)%Z. change (Z.opp 2) with (-2)%Z.
  rewrite app_length. cbn [List.length].
  destruct (Z.gtb_spec (Z.of_nat (List.length ua + 2)) 1) as [_|]; [|lia].
  rewrite getZ_m1, getZ_m2, getZ_m1, setZ_m1. reflexivity.
Qed.

(** ** The repaired image_solve brings the marginal ray onto the axis at the image surface, whatever
    media surround that surface *)
Theorem image_solve_places pre img st :
  pre <> [] -> a_obj img = false ->
  let ss := pre ++ [img] in
  let rec := atrace ss st in
  let '(yp, up, zp) := afinal pre st in
  up <> 0 ->
  let zs' := k_c01_image_solve ROps (map fst rec) (map snd rec) (map a_z ss) in
  fst (nth (List.length pre) (atrace (with_zs ss zs') st) (0, 0)) = 0.
Proof.
  intros NE Ho. cbv zeta.
  generalize (image_solve_focus pre img st Ho). generalize (afinal_last pre st NE).
  destruct (afinal pre st) as [[yp up] zp] eqn:EF. intros AL IF Hu.
  rewrite atrace_app, EF.
  destruct (exists_last NE) as (pre0 & sl & EP).
  assert (NT : atrace pre st <> []).
  { rewrite EP. rewrite atrace_app. destruct (atrace pre0 st); cbn [atrace app]; destruct (astep _ _) as [[? ?] ?]; discriminate. }
  destruct (exists_last NT) as (X & rl & EX). rewrite EX in AL. rewrite last_last in AL. subst rl.
  rewrite EX.
  cbn [atrace]. destruct (astep img (yp, up, zp)) as [[yi ui] zi] eqn:EI.
  rewrite !map_app. cbn [map fst snd]. rewrite <- (app_assoc (map snd X) [up] [ui]). cbn [app].
  rewrite image_solve_kernel.
  replace (map a_z pre ++ [a_z img - yi / up]) with (map a_z (pre ++ shift_from (- (yi / up)) [img]))
    by (rewrite map_app; cbn [shift_from map shift_surf a_z]; f_equal; f_equal; ring).
  rewrite with_zs_shift.
  assert (EY : fst (nth (List.length pre) (atrace (pre ++ [img]) st) (0, 0)) = yi).
  { rewrite atrace_app, EF. rewrite app_nth2 by (rewrite atrace_length; lia).
    rewrite atrace_length, Nat.sub_diag. cbn [atrace]. rewrite EI. reflexivity. }
  specialize (IF Hu). cbv zeta in IF. rewrite EY in IF. exact IF.
Qed.

(** non-vacuous: a single refracting surface met by a converging ray *)
Example mrh_ex :
  fst (nth 0 (atrace ([] ++ shift_from ((2 - 1) / (1 / 10)) [mkAS 10 (/ 20) 1 2 false false]) (0, 1 / 10, 0)) (0, 0)) = 2.
Proof. cbn. field. Qed.

(** non-vacuous instance of [mrh_solve_places]: a dummy plane, then a refracting surface (the hypotheses
    hold: the ray leaves the plane with slope 1/10) *)
Example mrh_places_ex :
  let pre := [mkAS 0 0 1 1 false false] in
  let s := mkAS 10 (/ 20) 1 2 false false in
  let st := (0, 1 / 10, -5) in
  let rec := atrace (pre ++ [s]) st in
  fst (nth 1 (atrace (with_zs (pre ++ [s])
        (k_c01_mrh_apply ROps (map fst rec) (map snd rec) 1 2 (map a_z (pre ++ [s])) 2)) st) (0, 0)) = 2.
Proof.
  cbv zeta.
  generalize (mrh_solve_places [mkAS 0 0 1 1 false false] (mkAS 10 (/ 20) 1 2 false false) [] (0, 1 / 10, -5) 2
                ltac:(discriminate) eq_refl).
  cbv zeta. cbn [afinal fold_left astep surf_matrix next_z a_obj a_refl mapply mmul refraction transfer
                 ma mb mc md fst snd a_z a_c a_n1 a_n2 List.length app Z.of_nat].
  intros H. apply H. lra.
Qed.

(** * C01: marginal-ray-height solve and image solve.
    Specification side (matrix optics of Spec/S_ABCD.v, to which the regenerated paraxial kernel is
    proved equal in Lemmas/L_Paraxial.v): moving surface idx and everything behind it by d changes the
    ray height on surface idx by d times the slope ARRIVING at that surface.  Hence the offset that
    places the ray at height h is (h - y_idx) / u_(idx-1).
    Implementation side: the regenerated MarginalRayHeightSolve.apply moves exactly those vertices, by
    (h - ya[idx]) / ua[idx]  -- the slope AFTER the surface.  It places the ray when the two slopes
    agree (an unpowered surface such as the image plane); otherwise it does not (Findings/F_C01.v). *)
From Coq Require Import Reals ZArith List Bool Lia Lra.
From OV Require Import Ops RInst Gen.LensEdit Spec.S_ABCD Spec.S_C01 Lemmas.L_C01_lists Lemmas.L_Paraxial.
Import ListNotations.
Local Open Scope R_scope.

Definition shift_surf (d : R) (s : asurf) : asurf :=
  mkAS (a_z s + d) (a_c s) (a_n1 s) (a_n2 s) (a_refl s) (a_obj s).
Definition shift_from (d : R) (ss : list asurf) : list asurf := map (shift_surf d) ss.

Definition afinal (ss : list asurf) (st : R * R * R) : R * R * R := fold_left (fun st s => astep s st) ss st.

Lemma atrace_app pre rest st : atrace (pre ++ rest) st = atrace pre st ++ atrace rest (afinal pre st).
Proof.
  revert st; induction pre as [|s pre IH]; intros st; [reflexivity|].
  cbn [app atrace afinal fold_left]. destruct (astep s st) as [[y u] z] eqn:E.
  rewrite IH. reflexivity.
Qed.

Lemma atrace_length ss : forall st, List.length (atrace ss st) = List.length ss.
Proof. induction ss as [|s ss IH]; intros st; [reflexivity|]. cbn [atrace]. destruct (astep s st) as [[y u] z]. cbn [List.length]. rewrite IH. reflexivity. Qed.

(** height recorded on the first surface of [s :: post] when the ray arrives as (yp, up, zp) *)
Lemma first_height s post yp up zp :
  a_obj s = false ->
  fst (hd (0, 0) (atrace (s :: post) (yp, up, zp))) = yp + (a_z s - zp) * up.
Proof.
  intros Ho. cbn [atrace]. unfold astep, surf_matrix, next_z. rewrite Ho.
  destruct (a_refl s); cbn; ring.
Qed.

(** ** the geometric fact: a rigid shift by d of surface idx.. moves the height there by d * (arriving slope) *)
Theorem shift_moves_height pre s post st d :
  a_obj s = false ->
  let '(yp, up, zp) := afinal pre st in
  fst (nth (List.length pre) (atrace (pre ++ shift_from d (s :: post)) st) (0, 0)) =
  fst (nth (List.length pre) (atrace (pre ++ s :: post) st) (0, 0)) + d * up.
Proof.
  intros Ho. destruct (afinal pre st) as [[yp up] zp] eqn:EF.
  rewrite !atrace_app, EF.
  rewrite !app_nth2 by (rewrite atrace_length; lia).
  rewrite !atrace_length, Nat.sub_diag.
  cbn [shift_from map].
  change (nth 0 ?l (0, 0)) with (hd (0, 0) l).
  assert (H1 := first_height (shift_surf d s) (map (shift_surf d) post) yp up zp Ho).
  assert (H2 := first_height s post yp up zp Ho).
  destruct (atrace (shift_surf d s :: map (shift_surf d) post) (yp, up, zp)) as [|r1 l1] eqn:E1;
    [cbn [atrace] in E1; destruct (astep _ _) as [[? ?] ?]; discriminate|].
  destruct (atrace (s :: post) (yp, up, zp)) as [|r2 l2] eqn:E2;
    [cbn [atrace] in E2; destruct (astep _ _) as [[? ?] ?]; discriminate|].
  cbn [hd nth] in *. rewrite H1, H2. cbn [shift_surf a_z]. ring.
Qed.

(** ** the solve that the property asks for: offset (h - y_idx) / (slope arriving) *)
Theorem mrh_solve_correct pre s post st h :
  a_obj s = false ->
  let '(yp, up, zp) := afinal pre st in
  up <> 0 ->
  let y := fst (nth (List.length pre) (atrace (pre ++ s :: post) st) (0, 0)) in
  fst (nth (List.length pre) (atrace (pre ++ shift_from ((h - y) / up) (s :: post)) st) (0, 0)) = h.
Proof.
  intros Ho. generalize (shift_moves_height pre s post st). destruct (afinal pre st) as [[yp up] zp].
  intros SH Hu. cbn zeta. rewrite (SH _ Ho). field. exact Hu.
Qed.

(** ** what the regenerated MarginalRayHeightSolve.apply does to the vertex positions *)
Theorem mrh_kernel_is_shift (ya ua : list R) (h : R) (idx : Z) (ss : list asurf) :
  (0 <= idx)%Z ->
  k_c01_mrh_apply ROps ya ua h idx (map a_z ss) (Z.of_nat (List.length ss)) =
  map a_z (firstn (Z.to_nat idx) ss ++
           shift_from ((h - getZ (O:=ROps) ya idx) / getZ (O:=ROps) ua idx) (skipn (Z.to_nat idx) ss)).
Proof.
  intros Hi. unfold k_c01_mrh_apply. rops.
  set (d := (h - getZ (O:=ROps) ya idx) / getZ (O:=ROps) ua idx).
  apply list_ext_nth.
  - rewrite map_rangeZ_length, Nat2Z.id, map_length, app_length. unfold shift_from. rewrite map_length.
    rewrite <- app_length, firstn_skipn. reflexivity.
  - intros i Hl. rewrite map_rangeZ_length, Nat2Z.id in Hl.
    rewrite map_rangeZ_nth by (rewrite Nat2Z.id; exact Hl).
    rewrite (getZ_of_nat (O:=ROps) (map a_z ss) i 0) by (rewrite map_length; exact Hl).
    rewrite nth_error_map.
    destruct (Z.ltb_spec (Z.of_nat i) idx) as [Hlt|Hge].
    + rewrite nth_error_app1 by (rewrite firstn_length; lia).
      assert (E : nth_error (firstn (Z.to_nat idx) ss) i = nth_error ss i).
      { rewrite <- (firstn_skipn (Z.to_nat idx) ss) at 2. rewrite nth_error_app1 by (rewrite firstn_length; lia). reflexivity. }
      rewrite E. destruct (nth_error ss i) as [s|] eqn:Es; [|apply nth_error_None in Es; lia].
      cbn [option_map]. f_equal. change 0 with (a_z (mkAS 0 0 0 0 false false)). rewrite map_nth.
      rewrite (nth_error_nth _ _ _ Es). reflexivity.
    + rewrite nth_error_app2 by (rewrite firstn_length; lia). rewrite firstn_length.
      replace (Nat.min (Z.to_nat idx) (List.length ss)) with (Z.to_nat idx) by lia.
      unfold shift_from. rewrite nth_error_map.
      assert (E : nth_error (skipn (Z.to_nat idx) ss) (i - Z.to_nat idx) = nth_error ss i).
      { rewrite <- (firstn_skipn (Z.to_nat idx) ss) at 2. rewrite nth_error_app2 by (rewrite firstn_length; lia).
        rewrite firstn_length. replace (Nat.min (Z.to_nat idx) (List.length ss)) with (Z.to_nat idx) by lia. reflexivity. }
      rewrite E. destruct (nth_error ss i) as [s|] eqn:Es; [|apply nth_error_None in Es; lia].
      cbn [option_map shift_surf a_z]. f_equal. change 0 with (a_z (mkAS 0 0 0 0 false false)). rewrite map_nth.
      rewrite (nth_error_nth _ _ _ Es). reflexivity.
Qed.

(** the implementation's solve places the ray when the surface does not change the slope
    (e.g. the image plane in the medium of image space); [up] is the slope arriving *)
Theorem mrh_kernel_places_partial pre s post st h :
  a_obj s = false ->
  let ss := pre ++ s :: post in
  let rec := atrace ss st in
  let idx := Z.of_nat (List.length pre) in
  let '(yp, up, zp) := afinal pre st in
  up <> 0 ->
  snd (nth (List.length pre) rec (0, 0)) = up ->          (* slope behind the surface = slope arriving *)
  forall ss', map a_z ss' = k_c01_mrh_apply ROps (map fst rec) (map snd rec) h idx (map a_z ss) (Z.of_nat (List.length ss)) ->
              ss' = pre ++ shift_from ((h - fst (nth (List.length pre) rec (0, 0))) / up) (s :: post) ->
  fst (nth (List.length pre) (atrace ss' st) (0, 0)) = h.
Proof.
  intros Ho. cbn zeta. generalize (mrh_solve_correct pre s post st h Ho).
  destruct (afinal pre st) as [[yp up] zp]. intros MC Hu Hs ss' _ ->. apply MC. exact Hu.
Qed.

(** ** image solve: moving the image plane by -y/u brings the marginal ray onto the axis, provided the
    slope used is the slope arriving at the image plane *)
Theorem image_solve_focus pre img st :
  a_obj img = false ->
  let '(yp, up, zp) := afinal pre st in
  up <> 0 ->
  let y := fst (nth (List.length pre) (atrace (pre ++ [img]) st) (0, 0)) in
  fst (nth (List.length pre) (atrace (pre ++ shift_from (- (y / up)) [img]) st) (0, 0)) = 0.
Proof.
  intros Ho. generalize (shift_moves_height pre img [] st). destruct (afinal pre st) as [[yp up] zp].
  intros SH Hu. cbn zeta. rewrite (SH _ Ho). field. exact Hu.
Qed.

(** the regenerated Optic.image_solve moves only the last vertex, by -(ya[-1] / ua[-1]) *)
Theorem image_solve_kernel (ya ua zs : list R) (z : R) :
  k_c01_image_solve ROps ya ua (zs ++ [z]) =
  zs ++ [z - getZ (O:=ROps) ya (-1) / getZ (O:=ROps) ua (-1)].
Proof.
  unfold k_c01_image_solve. rops. change (Z.opp 1) with (-1)%Z.
  assert (G : getZ (O:=ROps) (zs ++ [z]) (-1) = z).
  { unfold getZ, nthZ. rewrite app_length. cbn [List.length].
    destruct (Z.ltb_spec (-1) 0); [|lia].
    destruct (Z.ltb_spec (Z.of_nat (List.length zs + 1) + -1) 0); [lia|].
    destruct (Z.leb_spec (Z.of_nat (List.length zs + 1)) (Z.of_nat (List.length zs + 1) + -1)); [lia|].
    cbn [orb]. replace (Z.to_nat (Z.of_nat (List.length zs + 1) + -1)) with (List.length zs) by lia.
    rewrite nth_error_app2 by lia. rewrite Nat.sub_diag. reflexivity. }
  rewrite G. unfold setZ. rewrite app_length. cbn [List.length].
  destruct (Z.ltb_spec (-1) 0); [|lia].
  destruct (Z.ltb_spec (Z.of_nat (List.length zs + 1) + -1) 0); [lia|].
  destruct (Z.leb_spec (Z.of_nat (List.length zs + 1)) (Z.of_nat (List.length zs + 1) + -1)); [lia|].
  cbn [orb]. replace (Z.to_nat (Z.of_nat (List.length zs + 1) + -1)) with (List.length zs) by lia.
  clear. induction zs as [|a zs IH]; [reflexivity|]. cbn [app List.length set_nth]. f_equal. exact IH.
Qed.

(** non-vacuous: a single refracting surface met by a converging ray *)
Example mrh_ex :
  fst (nth 0 (atrace ([] ++ shift_from ((2 - 1) / (1 / 10)) [mkAS 10 (/ 20) 1 2 false false]) (0, 1 / 10, 0)) (0, 0)) = 2.
Proof. cbn. field. Qed.

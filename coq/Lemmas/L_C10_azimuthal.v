(** C10, azimuthal orthogonality of the translated [_azimuthal_term] over the reals, for ALL integer
    orders m, m' (Coquelicot Riemann integral):
      int_0^{2 pi} az_m(phi) az_m'(phi) dphi = [m = m'] * (if m = 0 then 2 pi else pi). *)
From Coq Require Import Reals Lra Lia ZArith.
From Coquelicot Require Import Coquelicot.
From OV Require Import Ops RInst Gen.Zernike.
Local Open Scope R_scope.

Definition az (m : Z) (phi : R) : R := k_zk_azimuthal ROps m phi.

Lemma az_unfold m phi : az m phi = if (m >=? 0)%Z then cos (IZR m * phi) else sin (IZR m * phi).
Proof. unfold az, k_zk_azimuthal. rops. reflexivity. Qed.

(** ** sin / cos at integer multiples of 2 pi *)
Lemma sin_nat_2PI n : sin (INR n * (2 * PI)) = 0.
Proof.
  replace (INR n * (2 * PI)) with (0 + 2 * INR n * PI) by ring. rewrite sin_period. apply sin_0.
Qed.
Lemma cos_nat_2PI n : cos (INR n * (2 * PI)) = 1.
Proof.
  replace (INR n * (2 * PI)) with (0 + 2 * INR n * PI) by ring. rewrite cos_period. apply cos_0.
Qed.
Lemma IZR_abs_nat k : IZR k = INR (Z.abs_nat k) \/ IZR k = - INR (Z.abs_nat k).
Proof.
  rewrite INR_IZR_INZ, Zabs2Nat.id_abs. destruct (Z.abs_spec k) as [[_ ->]|[_ ->]]; [left; reflexivity|right].
  rewrite opp_IZR. lra.
Qed.
Lemma sin_Z_2PI k : sin (IZR k * (2 * PI)) = 0.
Proof.
  destruct (IZR_abs_nat k) as [->| ->]; [apply sin_nat_2PI|].
  replace (- INR (Z.abs_nat k) * (2 * PI)) with (- (INR (Z.abs_nat k) * (2 * PI))) by ring.
  rewrite sin_neg, sin_nat_2PI. lra.
Qed.
Lemma cos_Z_2PI k : cos (IZR k * (2 * PI)) = 1.
Proof.
  destruct (IZR_abs_nat k) as [->| ->]; [apply cos_nat_2PI|].
  replace (- INR (Z.abs_nat k) * (2 * PI)) with (- (INR (Z.abs_nat k) * (2 * PI))) by ring.
  rewrite cos_neg. apply cos_nat_2PI.
Qed.

(** ** the two basic integrals *)
Lemma is_RInt_val (f : R -> R) a b l l' : l = l' -> is_RInt f a b l -> is_RInt f a b l'.
Proof. intros ->. trivial. Qed.
Ltac rsimpl := unfold scal, minus, plus, opp; simpl; unfold mult; simpl.

Definition Cval (k : Z) : R := if (k =? 0)%Z then 2 * PI else 0.

Lemma int_cos k : is_RInt (fun phi => cos (IZR k * phi)) 0 (2 * PI) (Cval k).
Proof.
  unfold Cval. destruct (k =? 0)%Z eqn:E.
  - apply Z.eqb_eq in E. subst k.
    apply (is_RInt_ext (fun _ => 1)); [intros x _; rewrite Rmult_0_l, cos_0; reflexivity|].
    apply (is_RInt_val _ _ _ (scal (2 * PI - 0) 1)); [rsimpl; ring|].
    apply (@is_RInt_const R_NormedModule).
  - apply Z.eqb_neq in E. assert (Hw : IZR k <> 0) by (intros H; apply E; apply eq_IZR; exact H).
    set (w := IZR k) in *.
    apply (is_RInt_val _ _ _ (minus (sin (w * (2 * PI)) / w) (sin (w * 0) / w))).
    + rsimpl. unfold w. rewrite sin_Z_2PI, Rmult_0_r, sin_0. field. exact Hw.
    + apply (is_RInt_derive (fun phi => sin (w * phi) / w) (fun phi => cos (w * phi))).
      * intros x _. auto_derive; [trivial|]. field. exact Hw.
      * intros x _. apply (ex_derive_continuous (fun phi => cos (w * phi))). auto_derive. trivial.
Qed.

Lemma int_sin k : is_RInt (fun phi => sin (IZR k * phi)) 0 (2 * PI) 0.
Proof.
  destruct (Z.eq_dec k 0) as [->|E].
  - apply (is_RInt_ext (fun _ => 0)); [intros x _; rewrite Rmult_0_l, sin_0; reflexivity|].
    apply (is_RInt_val _ _ _ (scal (2 * PI - 0) 0)); [rsimpl; ring|].
    apply (@is_RInt_const R_NormedModule).
  - assert (Hw : IZR k <> 0) by (intros H; apply E; apply eq_IZR; exact H).
    set (w := IZR k) in *.
    apply (is_RInt_val _ _ _ (minus (- cos (w * (2 * PI)) / w) (- cos (w * 0) / w))).
    + rsimpl. unfold w. rewrite cos_Z_2PI, Rmult_0_r, cos_0. field. exact Hw.
    + apply (is_RInt_derive (fun phi => - cos (w * phi) / w) (fun phi => sin (w * phi))).
      * intros x _. auto_derive; [trivial|]. field. exact Hw.
      * intros x _. apply (ex_derive_continuous (fun phi => sin (w * phi))). auto_derive. trivial.
Qed.

(** ** products, by the product-to-sum identities (all integer m, m') *)
Lemma int_cos_cos m m' :
  is_RInt (fun phi => cos (IZR m * phi) * cos (IZR m' * phi)) 0 (2 * PI) ((Cval (m - m') + Cval (m + m')) / 2).
Proof.
  apply (is_RInt_ext (fun phi => scal (/ 2) (plus (cos (IZR (m - m') * phi)) (cos (IZR (m + m') * phi))))).
  - intros x _. unfold scal, plus; simpl; unfold mult; simpl. rewrite minus_IZR, plus_IZR.
    replace ((IZR m - IZR m') * x) with (IZR m * x - IZR m' * x) by ring.
    replace ((IZR m + IZR m') * x) with (IZR m * x + IZR m' * x) by ring.
    rewrite cos_minus, cos_plus. field.
  - apply (is_RInt_val _ _ _ (scal (/ 2) (plus (Cval (m - m')) (Cval (m + m'))))); [rsimpl; field|].
    apply (@is_RInt_scal R_NormedModule), (@is_RInt_plus R_NormedModule); apply int_cos.
Qed.

Lemma int_sin_sin m m' :
  is_RInt (fun phi => sin (IZR m * phi) * sin (IZR m' * phi)) 0 (2 * PI) ((Cval (m - m') - Cval (m + m')) / 2).
Proof.
  apply (is_RInt_ext (fun phi => scal (/ 2) (minus (cos (IZR (m - m') * phi)) (cos (IZR (m + m') * phi))))).
  - intros x _. unfold scal, minus, plus, opp; simpl; unfold mult; simpl. rewrite minus_IZR, plus_IZR.
    replace ((IZR m - IZR m') * x) with (IZR m * x - IZR m' * x) by ring.
    replace ((IZR m + IZR m') * x) with (IZR m * x + IZR m' * x) by ring.
    rewrite cos_minus, cos_plus. field.
  - apply (is_RInt_val _ _ _ (scal (/ 2) (minus (Cval (m - m')) (Cval (m + m'))))); [rsimpl; field|].
    apply (@is_RInt_scal R_NormedModule), (@is_RInt_minus R_NormedModule); apply int_cos.
Qed.

Lemma int_cos_sin m m' :
  is_RInt (fun phi => cos (IZR m * phi) * sin (IZR m' * phi)) 0 (2 * PI) 0.
Proof.
  apply (is_RInt_ext (fun phi => scal (/ 2) (minus (sin (IZR (m + m') * phi)) (sin (IZR (m - m') * phi))))).
  - intros x _. unfold scal, minus, plus, opp; simpl; unfold mult; simpl. rewrite minus_IZR, plus_IZR.
    replace ((IZR m - IZR m') * x) with (IZR m * x - IZR m' * x) by ring.
    replace ((IZR m + IZR m') * x) with (IZR m * x + IZR m' * x) by ring.
    rewrite sin_minus, sin_plus. field.
  - apply (is_RInt_val _ _ _ (scal (/ 2) (minus 0 0))); [rsimpl; field|].
    apply (@is_RInt_scal R_NormedModule), (@is_RInt_minus R_NormedModule); apply int_sin.
Qed.

(** ** the azimuthal Gram integral of the code's [_azimuthal_term] *)
Definition az_expected (m m' : Z) : R :=
  if (m =? m')%Z then (if (m =? 0)%Z then 2 * PI else PI) else 0.

Theorem azimuthal_orthogonal (m m' : Z) :
  is_RInt (fun phi => az m phi * az m' phi) 0 (2 * PI) (az_expected m m').
Proof.
  unfold az_expected.
  destruct (Z.geb_spec m 0) as [Hm|Hm], (Z.geb_spec m' 0) as [Hm'|Hm'].
  - (* cos cos *)
    apply (is_RInt_ext (fun phi => cos (IZR m * phi) * cos (IZR m' * phi))).
    { intros x _. rewrite !az_unfold.
      replace (m >=? 0)%Z with true by (symmetry; apply Z.geb_le; lia).
      replace (m' >=? 0)%Z with true by (symmetry; apply Z.geb_le; lia). reflexivity. }
    apply (is_RInt_val _ _ _ ((Cval (m - m') + Cval (m + m')) / 2)); [|apply int_cos_cos].
    unfold Cval. destruct (Z.eqb_spec m m') as [->|Hne].
    + rewrite Z.sub_diag. cbn [Z.eqb]. destruct (Z.eqb_spec m' 0) as [->|H0]; cbn [Z.add Z.eqb]; [lra|].
      replace (m' + m' =? 0)%Z with false by (symmetry; apply Z.eqb_neq; lia). lra.
    + replace (m - m' =? 0)%Z with false by (symmetry; apply Z.eqb_neq; lia).
      replace (m + m' =? 0)%Z with false by (symmetry; apply Z.eqb_neq; lia). lra.
  - (* cos sin *)
    apply (is_RInt_ext (fun phi => cos (IZR m * phi) * sin (IZR m' * phi))).
    { intros x _. rewrite !az_unfold.
      replace (m >=? 0)%Z with true by (symmetry; apply Z.geb_le; lia).
      replace (m' >=? 0)%Z with false by (symmetry; rewrite Z.geb_leb; apply Z.leb_gt; lia). reflexivity. }
    replace (m =? m')%Z with false by (symmetry; apply Z.eqb_neq; lia). apply int_cos_sin.
  - (* sin cos *)
    apply (is_RInt_ext (fun phi => cos (IZR m' * phi) * sin (IZR m * phi))).
    { intros x _. rewrite !az_unfold.
      replace (m >=? 0)%Z with false by (symmetry; rewrite Z.geb_leb; apply Z.leb_gt; lia).
      replace (m' >=? 0)%Z with true by (symmetry; apply Z.geb_le; lia). lra. }
    replace (m =? m')%Z with false by (symmetry; apply Z.eqb_neq; lia). apply int_cos_sin.
  - (* sin sin *)
    apply (is_RInt_ext (fun phi => sin (IZR m * phi) * sin (IZR m' * phi))).
    { intros x _. rewrite !az_unfold.
      replace (m >=? 0)%Z with false by (symmetry; rewrite Z.geb_leb; apply Z.leb_gt; lia).
      replace (m' >=? 0)%Z with false by (symmetry; rewrite Z.geb_leb; apply Z.leb_gt; lia). reflexivity. }
    apply (is_RInt_val _ _ _ ((Cval (m - m') - Cval (m + m')) / 2)); [|apply int_sin_sin].
    unfold Cval. destruct (Z.eqb_spec m m') as [->|Hne].
    + rewrite Z.sub_diag. cbn [Z.eqb].
      replace (m' =? 0)%Z with false by (symmetry; apply Z.eqb_neq; lia).
      replace (m' + m' =? 0)%Z with false by (symmetry; apply Z.eqb_neq; lia). lra.
    + replace (m - m' =? 0)%Z with false by (symmetry; apply Z.eqb_neq; lia).
      replace (m + m' =? 0)%Z with false by (symmetry; apply Z.eqb_neq; lia). lra.
Qed.

Example az_example : az_expected 3 3 = PI /\ az_expected 0 0 = 2 * PI /\ az_expected 2 (-2) = 0.
Proof. repeat split. Qed.

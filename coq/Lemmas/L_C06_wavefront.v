(** C06, part 4: equal optical paths to a common image point  =>  the reported wavefront error is zero
    =>  the Strehl ratio is one.  Stated on the kernels regenerated from optiland/wavefront.py and on the
    hand model of the Wavefront / FFTPSF plumbing (Model/M_C06.v). *)
From Coq Require Import Reals Lra Lia ZArith List String Psatz.
From OV Require Import Ops RInst Gen.WavefrontC06 Model.M_C06 Spec.S_C11_DFT Spec.S_C06.
Import ListNotations.
Local Open Scope R_scope.

(** ** the path from the image point back to the reference sphere centred on it is the radius *)
Lemma opd_image_to_xp_at_centre xc yc zc R L M N :
  L*L + M*M + N*N = 1 -> 0 < R ->
  k_c06_opd_image_to_xp ROps xc yc zc R xc yc zc L M N = R.
Proof.
  intros Hd HR. unfold k_c06_opd_image_to_xp. rops.
  replace (- L * - L + - M * - M + - N * - N) with 1 by lra.
  replace (2 * - L * (xc - xc) + 2 * - M * (yc - yc) + 2 * - N * (zc - zc)) with 0 by ring.
  replace (0*0 - 4*1*(xc*xc + yc*yc + zc*zc - 2*xc*xc + xc*xc - 2*yc*yc + yc*yc - 2*zc*zc + zc*zc - R*R))
    with ((2*R)*(2*R)) by ring.
  rewrite sqrt_square by lra.
  unfold Rltb. destruct (Rlt_dec ((-0 - 2*R)/(2*1)) 0) as [_|E]; [field|exfalso; apply E; lra].
Qed.

Lemma path_length_at_centre xc yc zc R opd ni L M N :
  L*L + M*M + N*N = 1 -> 0 < R ->
  k_c06_path_length ROps xc yc zc R opd ni xc yc zc L M N = opd - Rabs ni * R.
Proof. intros Hd HR. unfold k_c06_path_length. rewrite opd_image_to_xp_at_centre by assumption. reflexivity. Qed.

(** no tilt term for the axial field point, nor for fields given as object heights *)
Lemma correct_tilt_xy_axial opd x y ft mf vx vy epd no :
  k_c06_correct_tilt_xy ROps opd x y ft 0 0 mf vx vy epd no = opd.
Proof.
  unfold k_c06_correct_tilt_xy. rops. destruct (String.eqb ft "angle"); [|simpl; ring].
  rewrite !Rmult_0_r. unfold Rdiv. rewrite !Rmult_0_l, sin_0. ring.
Qed.
Lemma correct_tilt_axial opd ft mf vx vy dx dy epd no :
  k_c06_correct_tilt ROps opd ft 0 0 mf vx vy dx dy epd no = opd.
Proof.
  unfold k_c06_correct_tilt. rops. destruct (String.eqb ft "angle"); [|simpl; ring].
  rewrite !Rmult_0_r. unfold Rdiv. rewrite !Rmult_0_l, sin_0. ring.
Qed.

Lemma Rlit_milli : Rlit 1 (-3) = / 1000.
Proof. unfold Rlit. simpl. lra. Qed.

(** ** equal paths to a common image point give zero wavefront error (the whole Wavefront pipeline) *)
Definition at_image (xi yi zi opl : R) (r : rec ROps) : Prop :=
  c_x r = xi /\ c_y r = yi /\ c_z r = zi /\ c_opd r = opl /\
  c_L r * c_L r + c_M r * c_M r + c_N r * c_N r = 1.

Theorem equal_paths_zero_opd (e : wf_env ROps) (chief : rec ROps) (rays : list (R * R * rec ROps)) xi yi zi opl :
  w_Hx e = 0 -> w_Hy e = 0 -> w_wavelength e <> 0 ->
  at_image xi yi zi opl chief ->
  (forall px py r, In (px, py, r) rays -> at_image xi yi zi opl r) ->
  (xi <> 0 \/ yi <> 0 \/ zi <> w_pupil_z e) ->           (* the image point is not the pupil centre: R > 0 *)
  wavefront_data e chief rays = Some (map (fun '(px, py, r) => (0, c_i r)) rays).
Proof.
  intros Hx Hy Hw (Cx & Cy & Cz & Co & Cd) Hr Hne.
  unfold wavefront_data, k_c06_ref_sphere. simpl Z.eqb. cbn [negb]. rops.
  rewrite Cx, Cy, Cz, Co.
  set (R := sqrt (xi*xi + yi*yi + (zi - w_pupil_z e)*(zi - w_pupil_z e))).
  assert (HR : 0 < R).
  { unfold R. apply sqrt_lt_R0.
    destruct Hne as [H|[H|H]].
    - generalize (Rsqr_pos_lt xi H) (Rle_0_sqr yi) (Rle_0_sqr (zi - w_pupil_z e)). unfold Rsqr. lra.
    - generalize (Rsqr_pos_lt yi H) (Rle_0_sqr xi) (Rle_0_sqr (zi - w_pupil_z e)). unfold Rsqr. lra.
    - assert (H' : zi - w_pupil_z e <> 0) by lra.
      generalize (Rsqr_pos_lt _ H') (Rle_0_sqr xi) (Rle_0_sqr yi). unfold Rsqr. lra. }
  rewrite path_length_at_centre by assumption.
  rewrite Hx, Hy, correct_tilt_xy_axial.
  f_equal. apply map_ext_in. intros [[px py] r] Hin.
  destruct (Hr px py r Hin) as (Rx & Ry & Rz & Ro & Rd).
  unfold k_c06_field_data. rewrite Rx, Ry, Rz, Ro.
  rewrite path_length_at_centre by assumption. rewrite correct_tilt_axial.
  rops. rewrite Rlit_milli. f_equal. unfold Rdiv. ring.
Qed.

(** ** zero (or any constant) wavefront error gives a Strehl ratio of one *)
Lemma fold_add_shift (l : list R) a : fold_left Rplus l a = a + fold_left Rplus l 0.
Proof. revert a. induction l as [|x l IH]; intros a; simpl; [ring|]. rewrite IH, (IH (0 + x)). ring. Qed.
Definition rsum (l : list R) : R := fold_left Rplus l 0.
Lemma sum_list_R (l : list R) : @sum_list ROps l = rsum l. Proof. reflexivity. Qed.
Lemma rsum_cons (x : R) l : rsum (x :: l) = x + rsum l.
Proof. unfold rsum. simpl. rewrite fold_add_shift. ring. Qed.

Lemma sum_scaled (data : list (R * R)) (m c : R) (f : R -> R) :
  (forall w i, In (w, i) data -> w = c) ->
  rsum (map (fun '(w, i) => i / m * f (2 * PI * w)) data)
  = f (2 * PI * c) * rsum (map (fun '(w, i) => i / m) data).
Proof.
  induction data as [|[w i] l IH]; intros H; simpl map.
  - unfold rsum; simpl. ring.
  - rewrite !rsum_cons, IH by (intros; apply (H w0 i0); right; assumption).
    rewrite (H w i) by (left; reflexivity). ring.
Qed.
Lemma sum_abs_pos (data : list (R * R)) (m : R) :
  0 < m -> (forall w i, In (w, i) data -> 0 <= i) ->
  rsum (map Rabs (map (fun '(w, i) => i / m) data)) = rsum (map (fun '(w, i) => i / m) data).
Proof.
  intros Hm. induction data as [|[w i] l IH]; intros H; simpl map; [reflexivity|].
  rewrite !rsum_cons, IH by (intros; apply (H w0 i0); right; assumption).
  rewrite Rabs_right; [reflexivity|]. apply Rle_ge. apply Rmult_le_pos; [apply (H w i); left; reflexivity|].
  left; apply Rinv_0_lt_compat; assumption.
Qed.

Lemma strehl_dc_R (data : list (R * R)) :
  @strehl_dc ROps data =
  let m := @mean_ ROps (map snd data) in
  let re := rsum (map (fun '(w, i) => i / m * cos (2 * PI * w)) data) in
  let im := rsum (map (fun '(w, i) => i / m * sin (2 * PI * w)) data) in
  let s := rsum (map Rabs (map (fun '(w, i) => i / m) data)) in
  (re*re + im*im) / (s*s).
Proof. reflexivity. Qed.

Theorem zero_opd_strehl_one (data : list (R * R)) (c : R) :
  (forall w i, In (w, i) data -> w = c) ->                (* constant wavefront error (0 for C06) *)
  (forall w i, In (w, i) data -> 0 <= i) ->
  0 < @mean_ ROps (map snd data) ->
  rsum (map (fun '(w, i) => i / @mean_ ROps (map snd data)) data) <> 0 ->
  @strehl_dc ROps data = 1.
Proof.
  intros Hc Hi Hm Hs. rewrite strehl_dc_R. cbv zeta. change (T ROps) with R.
  set (m := @mean_ ROps (map snd data)) in *.
  rewrite (sum_scaled data m c cos Hc), (sum_scaled data m c sin Hc).
  rewrite (sum_abs_pos data m Hm Hi).
  set (S := rsum (map (fun '(w, i) => i / m) data)) in *.
  generalize (sin2_cos2 (2*PI*c)). unfold Rsqr. intros T.
  transitivity ((sin (2*PI*c) * sin (2*PI*c) + cos (2*PI*c) * cos (2*PI*c)) * (S*S) / (S*S)); [field; assumption|].
  rewrite T. field. assumption.
Qed.

(** the same fact on the independent specification *)
Lemma Csum_const_phase (a : nat -> R) (c : R) n :
  Csum (fun j => pupil_sample (a j) c) n = Cmul (RtoC (Rsum a n)) (cis (2 * PI * c)).
Proof.
  induction n as [|n IH]; simpl.
  - unfold Cmul, RtoC, C0, cis; simpl. f_equal; ring.
  - rewrite IH. unfold pupil_sample, Cadd, Cmul, RtoC, cis; simpl. f_equal; ring.
Qed.
Theorem strehl_spec_const_phase (a : nat -> R) (c : R) n :
  Rsum a n <> 0 -> strehl_spec a (fun _ => c) n = 1.
Proof.
  intros Hs. unfold strehl_spec. rewrite Csum_const_phase.
  unfold Cn2, Cmul, RtoC, cis; simpl.
  generalize (sin2_cos2 (2*PI*c)). unfold Rsqr. intros T.
  transitivity ((Rsum a n * Rsum a n) * (sin (2*PI*c) * sin (2*PI*c) + cos (2*PI*c) * cos (2*PI*c)) / (Rsum a n * Rsum a n)); [field; assumption|].
  rewrite T. field. assumption.
Qed.

(** non-vacuity: a two-ray pencil meeting at (0,0,50) with path 75, pupil at z = 0 *)
Example wavefront_example :
  let e := mkEnv (O:=ROps) 0 "angle"%string 0 0 0 0 0 10 1 1 (Rlit 55 (-2)) in
  let r := mkRec (O:=ROps) 0 0 50 0 0 1 1 75 in
  wavefront_data e r [(0, 1, r); (1, 0, r)] = Some [(0, 1); (0, 1)].
Proof.
  intros e r.
  apply (equal_paths_zero_opd e r [(0, 1, r); (1, 0, r)] 0 0 50 75); try reflexivity.
  - unfold e; simpl. unfold Rlit; simpl. lra.
  - unfold at_image, r; simpl. repeat split; ring.
  - intros px py r' [H|[H|[]]]; injection H as _ _ <-; unfold at_image, r; simpl; repeat split; ring.
  - right; right. unfold e; simpl. lra.
Qed.

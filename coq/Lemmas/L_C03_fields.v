(** C03: "maximum field" (regenerated FieldGroup.max_field) is the largest field MAGNITUDE of the lens:
    an upper bound of every sqrt(x_i^2 + y_i^2), attained by one of the field points.  In particular it
    is not the magnitude of the signed per-axis maxima. *)
From Coq Require Import Reals Lra Lia ZArith List Bool Psatz.
From OV Require Import Ops OpsC03 RInst Gen.Fields.
Import ListNotations.
Local Open Scope R_scope.

Lemma max_fold_spec : forall (r : list R) (x : R),
  let m := fold_left (fun a b => if Rltb a b then b else a) r x in
  (m = x \/ In m r) /\ x <= m /\ (forall v, In v r -> v <= m).
Proof.
  induction r as [|b r IH]; intros x; cbn [fold_left].
  - split; [left; reflexivity|]. split; [lra|]. intros v [].
  - destruct (Rltb x b) eqn:E.
    + apply Rltb_true in E. destruct (IH b) as (H1 & H2 & H3). split; [|split].
      * destruct H1 as [->|H1]; right; [left; reflexivity|right; exact H1].
      * lra.
      * intros v [<-|Hv]; [exact H2|apply H3; exact Hv].
    + apply Rltb_false in E. destruct (IH x) as (H1 & H2 & H3). split; [|split].
      * destruct H1 as [H1|H1]; [left; exact H1|right; right; exact H1].
      * exact H2.
      * intros v [<-|Hv]; [lra|apply H3; exact Hv].
Qed.

(** np.max on a non-empty array: an element, and an upper bound *)
Theorem max_list_spec (l : list R) : l <> [] ->
  In (max_list (O := ROps) l) l /\ forall v, In v l -> v <= max_list (O := ROps) l.
Proof.
  destruct l as [|x r]; [contradiction|]. intros _. unfold max_list. rops.
  destruct (max_fold_spec r x) as (H1 & H2 & H3). split.
  - destruct H1 as [->|H1]; [left; reflexivity|right; exact H1].
  - intros v [<-|Hv]; [exact H2|apply H3; exact Hv].
Qed.

Definition magnitude (p : R * R) : R := sqrt (fst p * fst p + snd p * snd p).

Lemma magnitudes_eq (xs ys : list R) :
  map (fun v => sqrt v) (zip2 (O := ROps) Rplus (map (fun v => v * v) xs) (map (fun v => v * v) ys))
  = map magnitude (combine xs ys).
Proof.
  unfold zip2, magnitude. revert ys. induction xs as [|x xs IH]; intros [|y ys]; cbn; try reflexivity.
  rewrite IH. reflexivity.
Qed.

(** FieldGroup.max_field, for field points (x_i, y_i), i = 1..n, n >= 1 *)
Theorem max_field_is_largest_magnitude (xs ys : list R) :
  combine xs ys <> [] ->
  let m := k_fld_max_field ROps xs ys in
  (forall p, In p (combine xs ys) -> magnitude p <= m) /\
  (exists p, In p (combine xs ys) /\ m = magnitude p) /\
  (forall p, In p (combine xs ys) -> Rabs (fst p) <= m /\ Rabs (snd p) <= m).
Proof.
  intros Hne m. unfold m, k_fld_max_field. rops. rewrite magnitudes_eq.
  assert (Hn : map magnitude (combine xs ys) <> []).
  { destruct (combine xs ys); [contradiction|discriminate]. }
  destruct (max_list_spec _ Hn) as [Hin Hub].
  assert (B : forall p, In p (combine xs ys) -> magnitude p <= max_list (O := ROps) (map magnitude (combine xs ys))).
  { intros p Hp. apply Hub. apply in_map. exact Hp. }
  split; [exact B|]. split.
  - apply in_map_iff in Hin. destruct Hin as (p & E & Hp). exists p. split; [exact Hp|symmetry; exact E].
  - intros p Hp. specialize (B p Hp). change (magnitude p) with (sqrt (fst p * fst p + snd p * snd p)) in B.
    assert (Ha : Rabs (fst p) <= sqrt (fst p * fst p + snd p * snd p)).
    { rewrite <- sqrt_Rsqr_abs. apply sqrt_le_1_alt. unfold Rsqr. nra. }
    assert (Hb : Rabs (snd p) <= sqrt (fst p * fst p + snd p * snd p)).
    { rewrite <- sqrt_Rsqr_abs. apply sqrt_le_1_alt. unfold Rsqr. nra. }
    split; lra.
Qed.

(** the two manifestations of a "signed maxima" max_field are excluded: fields 0, -14, -20 have maximum 20, and
    the points (0, 10), (10, 0) have maximum 10 *)
Example ex_negative_largest : k_fld_max_field ROps [0; 0; 0] [0; -14; -20] = 20.
Proof.
  destruct (max_field_is_largest_magnitude [0; 0; 0] [0; -14; -20] ltac:(discriminate)) as (Hub & (p & Hp & E) & _).
  cbv zeta in *. rewrite E. cbn in Hp. unfold magnitude.
  assert (S0 : sqrt (0*0 + 0*0) = 0) by (replace (0*0+0*0) with 0 by ring; apply sqrt_0).
  assert (S14 : sqrt (0*0 + -14 * -14) = 14) by (replace (0*0 + -14 * -14) with (14*14) by ring; apply sqrt_square; lra).
  assert (S20 : sqrt (0*0 + -20 * -20) = 20) by (replace (0*0 + -20 * -20) with (20*20) by ring; apply sqrt_square; lra).
  pose proof (Hub (0, -20) ltac:(cbn; auto)) as H20. unfold magnitude in H20. cbn [fst snd] in H20. rewrite S20, E in H20.
  destruct Hp as [<-|[<-|[<-|[]]]]; unfold magnitude in *; cbn [fst snd] in *; lra.
Qed.

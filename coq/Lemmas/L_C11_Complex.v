(** * L_C11_Complex: complex numbers as pairs of reals, finite sums, triangle inequality,
    roots of unity, orthogonality of the DFT kernel, Parseval. *)
From Coq Require Import Reals Lra Lia List Arith ZArith Psatz Ring.
From OV Require Import Spec.S_C11_DFT.
Local Open Scope R_scope.

(** ** ring structure *)
Lemma Ceq (a b : RC) : fst a = fst b -> snd a = snd b -> a = b.
Proof. destruct a, b; simpl; intros; subst; reflexivity. Qed.

Ltac csimp := unfold Cadd, Cmul, Copp, Csub, Cconj, Cn2, C0, C1, RtoC, cis in *; simpl fst in *; simpl snd in *.
Ltac cring := intros; apply Ceq; csimp; ring.

Lemma C_ring_theory : ring_theory C0 C1 Cadd Cmul Csub Copp (@eq RC).
Proof.
  constructor; try cring.
Qed.
Add Ring Cring : C_ring_theory.

Lemma Cn2_nonneg a : 0 <= Cn2 a.
Proof. unfold Cn2; nra. Qed.
Lemma Cn2_mul a b : Cn2 (Cmul a b) = Cn2 a * Cn2 b.
Proof. csimp; ring. Qed.
Lemma Cn2_conj a : Cn2 (Cconj a) = Cn2 a.
Proof. csimp; ring. Qed.
Lemma Cmul_conj a : Cmul a (Cconj a) = RtoC (Cn2 a).
Proof. cring. Qed.
Lemma Cconj_mul a b : Cconj (Cmul a b) = Cmul (Cconj a) (Cconj b).
Proof. cring. Qed.
Lemma Cconj_add a b : Cconj (Cadd a b) = Cadd (Cconj a) (Cconj b).
Proof. cring. Qed.
Lemma Cconj_invol a : Cconj (Cconj a) = a.
Proof. cring. Qed.
Lemma Cn2_0_inv a : Cn2 a = 0 -> a = C0.
Proof. intros H; apply Ceq; csimp; nra. Qed.
Lemma Cmul_integral a b : Cmul a b = C0 -> a = C0 \/ b = C0.
Proof.
  intros H. assert (H2 : Cn2 a * Cn2 b = 0) by (rewrite <- Cn2_mul, H; csimp; ring).
  apply Rmult_integral in H2; destruct H2; [left|right]; apply Cn2_0_inv; assumption.
Qed.

Lemma Cmod_nonneg a : 0 <= Cmod a.
Proof. apply sqrt_pos. Qed.
Lemma Cmod_sqr a : Cmod a * Cmod a = Cn2 a.
Proof. unfold Cmod; apply sqrt_sqrt, Cn2_nonneg. Qed.
Lemma Cmod_mul a b : Cmod (Cmul a b) = Cmod a * Cmod b.
Proof. unfold Cmod; rewrite Cn2_mul; apply sqrt_mult; apply Cn2_nonneg. Qed.
Lemma Cmod_RtoC x : Cmod (RtoC x) = Rabs x.
Proof. unfold Cmod; csimp. replace (x * x + 0 * 0) with (Rsqr x) by (unfold Rsqr; ring). apply sqrt_Rsqr_abs. Qed.
Lemma Cmod_cis t : Cmod (cis t) = 1.
Proof.
  unfold Cmod; csimp. replace (cos t * cos t + sin t * sin t) with 1.
  apply sqrt_1. generalize (sin2_cos2 t); unfold Rsqr; lra.
Qed.
Lemma Cmod_C0 : Cmod C0 = 0.
Proof. unfold Cmod; csimp. replace (0 * 0 + 0 * 0) with 0 by ring. apply sqrt_0. Qed.
Lemma Cmod_unit a : Cn2 a = 1 -> Cmod a = 1.
Proof. intros H; unfold Cmod; rewrite H; apply sqrt_1. Qed.

Lemma Cmod_triangle a b : Cmod (Cadd a b) <= Cmod a + Cmod b.
Proof.
  destruct a as [a1 a2], b as [b1 b2].
  generalize (triangle 0 0 (a1 + b1) (a2 + b2) a1 a2).
  unfold dist_euc, Cmod; csimp; unfold Rsqr.
  replace ((0 - (a1 + b1)) * (0 - (a1 + b1)) + (0 - (a2 + b2)) * (0 - (a2 + b2)))
    with ((a1 + b1) * (a1 + b1) + (a2 + b2) * (a2 + b2)) by ring.
  replace ((0 - a1) * (0 - a1) + (0 - a2) * (0 - a2)) with (a1 * a1 + a2 * a2) by ring.
  replace ((a1 - (a1 + b1)) * (a1 - (a1 + b1)) + (a2 - (a2 + b2)) * (a2 - (a2 + b2)))
    with (b1 * b1 + b2 * b2) by ring.
  auto.
Qed.

Lemma Cmod_le_sq a x : 0 <= x -> Cmod a <= x -> Cn2 a <= x * x.
Proof. intros Hx H; rewrite <- Cmod_sqr; generalize (Cmod_nonneg a); nra. Qed.

(** ** finite sums *)
Lemma Csum_ext f g n : (forall i, (i < n)%nat -> f i = g i) -> Csum f n = Csum g n.
Proof.
  induction n; intros H; simpl; [reflexivity|]. rewrite IHn, H by (intros; try apply H; lia). reflexivity.
Qed.
Lemma Rsum_ext f g n : (forall i, (i < n)%nat -> f i = g i) -> Rsum f n = Rsum g n.
Proof.
  induction n; intros H; simpl; [reflexivity|]. rewrite IHn, H by (intros; try apply H; lia). reflexivity.
Qed.
Lemma Csum_add f g n : Csum (fun i => Cadd (f i) (g i)) n = Cadd (Csum f n) (Csum g n).
Proof. induction n; simpl; [ring | rewrite IHn; ring]. Qed.
Lemma Csum_scal c f n : Csum (fun i => Cmul c (f i)) n = Cmul c (Csum f n).
Proof. induction n; simpl; [ring | rewrite IHn; ring]. Qed.
Lemma Csum_scal_r c f n : Csum (fun i => Cmul (f i) c) n = Cmul (Csum f n) c.
Proof. induction n; simpl; [ring | rewrite IHn; ring]. Qed.
Lemma Csum_conj f n : Cconj (Csum f n) = Csum (fun i => Cconj (f i)) n.
Proof. induction n; simpl; [cring | rewrite Cconj_add, IHn; reflexivity]. Qed.
Lemma Csum_zero n : Csum (fun _ => C0) n = C0.
Proof. induction n; simpl; [reflexivity | rewrite IHn; ring]. Qed.
Lemma Csum_const c n : Csum (fun _ => c) n = Cmul (RtoC (INR n)) c.
Proof.
  induction n; [simpl; cring|]. change (Csum (fun _ => c) (S n)) with (Cadd (Csum (fun _ => c) n) c).
  rewrite IHn, S_INR. cring.
Qed.
Lemma Csum_swap (f : nat -> nat -> RC) n m :
  Csum (fun i => Csum (fun j => f i j) m) n = Csum (fun j => Csum (fun i => f i j) n) m.
Proof.
  induction n; simpl.
  - rewrite Csum_zero; reflexivity.
  - rewrite IHn, <- Csum_add. reflexivity.
Qed.
Lemma Rsum_swap (f : nat -> nat -> R) n m :
  Rsum (fun i => Rsum (fun j => f i j) m) n = Rsum (fun j => Rsum (fun i => f i j) n) m.
Proof.
  induction n; simpl.
  - induction m; simpl; [reflexivity | rewrite <- IHm; ring].
  - rewrite IHn. clear IHn. induction m; simpl; [ring | rewrite <- IHm; ring].
Qed.
Lemma Rsum_scal c f n : Rsum (fun i => c * f i) n = c * Rsum f n.
Proof. induction n; simpl; [ring | rewrite IHn; ring]. Qed.
Lemma Rsum_nonneg f n : (forall i, (i < n)%nat -> 0 <= f i) -> 0 <= Rsum f n.
Proof.
  induction n; intros H; simpl; [lra|]. assert (0 <= f n) by (apply H; lia).
  assert (0 <= Rsum f n) by (apply IHn; intros; apply H; lia). lra.
Qed.
Lemma Rsum_le f g n : (forall i, (i < n)%nat -> f i <= g i) -> Rsum f n <= Rsum g n.
Proof.
  induction n; intros H; simpl; [lra|]. assert (f n <= g n) by (apply H; lia).
  assert (Rsum f n <= Rsum g n) by (apply IHn; intros; apply H; lia). lra.
Qed.
Lemma fst_Csum f n : fst (Csum f n) = Rsum (fun i => fst (f i)) n.
Proof. induction n; simpl; [reflexivity | rewrite IHn; reflexivity]. Qed.
Lemma snd_Csum f n : snd (Csum f n) = Rsum (fun i => snd (f i)) n.
Proof. induction n; simpl; [reflexivity | rewrite IHn; reflexivity]. Qed.
Lemma Csum_RtoC f n : Csum (fun i => RtoC (f i)) n = RtoC (Rsum f n).
Proof. induction n; simpl; [reflexivity | rewrite IHn; cring]. Qed.
(** a sum whose only non-zero term is at [j] *)
Lemma Csum_single f n j : (j < n)%nat -> (forall i, (i < n)%nat -> i <> j -> f i = C0) -> Csum f n = f j.
Proof.
  induction n; intros Hj H; [lia|]. simpl.
  destruct (Nat.eq_dec j n) as [->|Hne].
  - rewrite (Csum_ext f (fun _ => C0)) by (intros; apply H; lia). rewrite Csum_zero; ring.
  - rewrite IHn by (try lia; intros; apply H; lia). rewrite (H n) by lia. ring.
Qed.


Lemma sum_prod3 (f g : nat -> RC) (W : RC) N :
  Cmul (Cmul (Csum f N) (Csum g N)) W = Csum (fun n => Csum (fun m => Cmul (Cmul (f n) (g m)) W) N) N.
Proof.
  transitivity (Csum (fun n => Cmul (Cmul (f n) (Csum g N)) W) N).
  - rewrite Csum_scal_r, Csum_scal_r. reflexivity.
  - apply Csum_ext; intros n _. rewrite Csum_scal_r, Csum_scal. reflexivity.
Qed.

(** ** generalised triangle inequality *)
Lemma Cmod_Csum_le f n : Cmod (Csum f n) <= Rsum (fun i => Cmod (f i)) n.
Proof.
  induction n; simpl.
  - rewrite Cmod_C0; lra.
  - eapply Rle_trans; [apply Cmod_triangle|]. lra.
Qed.

(** the peak bound: a sum of terms x_j u_j with |u_j| = 1 never exceeds Σ |x_j| in modulus *)
Lemma peak_bound_1d (x u : nat -> RC) n :
  (forall j, (j < n)%nat -> Cmod (u j) = 1) ->
  Cmod (Csum (fun j => Cmul (x j) (u j)) n) <= Rsum (fun j => Cmod (x j)) n.
Proof.
  intros Hu. eapply Rle_trans; [apply Cmod_Csum_le|].
  apply Rsum_le; intros j Hj. rewrite Cmod_mul, Hu by assumption. lra.
Qed.

(** ** powers, roots of unity *)
Lemma Cpow_add a n m : Cpow a (n + m) = Cmul (Cpow a n) (Cpow a m).
Proof. induction n; simpl; [ring | rewrite IHn; ring]. Qed.
Lemma Cpow_1 n : Cpow C1 n = C1.
Proof. induction n; simpl; [reflexivity | rewrite IHn; ring]. Qed.
Lemma Cpow_mul a n m : Cpow a (n * m) = Cpow (Cpow a n) m.
Proof.
  induction m; simpl.
  - rewrite Nat.mul_0_r; reflexivity.
  - rewrite Nat.mul_succ_r, Nat.add_comm, Cpow_add, IHm. reflexivity.
Qed.
Lemma Cn2_pow a n : Cn2 a = 1 -> Cn2 (Cpow a n) = 1.
Proof. intros H; induction n; simpl; [csimp; ring | rewrite Cn2_mul, H, IHn; ring]. Qed.
Lemma Cmod_pow_unit a n : Cn2 a = 1 -> Cmod (Cpow a n) = 1.
Proof. intros; apply Cmod_unit, Cn2_pow; assumption. Qed.
Lemma Cpow_conj a n : Cconj (Cpow a n) = Cpow (Cconj a) n.
Proof. induction n; simpl; [cring | rewrite Cconj_mul, IHn; reflexivity]. Qed.
Lemma unit_conj_inv a : Cn2 a = 1 -> Cmul a (Cconj a) = C1.
Proof. intros H; rewrite Cmul_conj, H; reflexivity. Qed.

(** geometric sum *)
Lemma geom_sum a n : Cmul (Csub a C1) (Csum (fun k => Cpow a k) n) = Csub (Cpow a n) C1.
Proof. induction n; simpl; [ring|]. replace (Cmul (Csub a C1) (Cadd (Csum (fun k => Cpow a k) n) (Cpow a n)))
  with (Cadd (Cmul (Csub a C1) (Csum (fun k => Cpow a k) n)) (Cmul (Csub a C1) (Cpow a n))) by ring.
  rewrite IHn; ring.
Qed.

Section Root.
  Variable w : RC.
  Variable N : nat.
  Hypothesis Hw : prim_root w N.

  Let Hunit : Cn2 w = 1 := proj1 Hw.
  Let HN : Cpow w N = C1 := proj1 (proj2 Hw).
  Let Hprim : forall d, (0 < d < N)%nat -> Cpow w d <> C1 := proj2 (proj2 Hw).

  Lemma root_sum_zero d : (0 < d < N)%nat -> Csum (fun k => Cpow w (k * d)) N = C0.
  Proof.
    intros Hd.
    assert (E : Csum (fun k => Cpow w (k * d)) N = Csum (fun k => Cpow (Cpow w d) k) N).
    { apply Csum_ext; intros; rewrite Nat.mul_comm; apply Cpow_mul. }
    rewrite E.
    generalize (geom_sum (Cpow w d) N). rewrite <- Cpow_mul, Nat.mul_comm, Cpow_mul, HN, Cpow_1.
    replace (Csub C1 C1) with C0 by ring. intros G.
    apply Cmul_integral in G. destruct G as [G|G]; [|exact G].
    exfalso; apply (Hprim d Hd). replace (Cpow w d) with (Cadd (Csub (Cpow w d) C1) C1) by ring.
    rewrite G; ring.
  Qed.

  (** orthogonality of the DFT kernel *)
  Lemma kernel_orth n m : (n < N)%nat -> (m < N)%nat ->
    Csum (fun k => Cmul (Cpow w (k * n)) (Cconj (Cpow w (k * m)))) N =
    if Nat.eq_dec n m then RtoC (INR N) else C0.
  Proof.
    intros Hn Hm. destruct (Nat.eq_dec n m) as [->|Hne].
    - rewrite (Csum_ext _ (fun _ => C1)).
      + rewrite Csum_const; cring.
      + intros k _. apply unit_conj_inv, Cn2_pow, Hunit.
    - destruct (lt_dec m n) as [Hlt|Hge].
      + rewrite (Csum_ext _ (fun k => Cpow w (k * (n - m)))).
        * apply root_sum_zero; lia.
        * intros k _. replace (k * n)%nat with (k * (n - m) + k * m)%nat by nia.
          rewrite Cpow_add.
          replace (Cmul (Cmul (Cpow w (k * (n - m))) (Cpow w (k * m))) (Cconj (Cpow w (k * m))))
            with (Cmul (Cpow w (k * (n - m))) (Cmul (Cpow w (k * m)) (Cconj (Cpow w (k * m))))) by ring.
          rewrite unit_conj_inv by (apply Cn2_pow, Hunit). ring.
      + rewrite (Csum_ext _ (fun k => Cconj (Cpow w (k * (m - n))))).
        * rewrite <- Csum_conj, root_sum_zero by lia. cring.
        * intros k _. replace (k * m)%nat with (k * (m - n) + k * n)%nat by nia.
          rewrite Cpow_add, Cconj_mul.
          replace (Cmul (Cpow w (k * n)) (Cmul (Cconj (Cpow w (k * (m - n)))) (Cconj (Cpow w (k * n)))))
            with (Cmul (Cconj (Cpow w (k * (m - n)))) (Cmul (Cpow w (k * n)) (Cconj (Cpow w (k * n))))) by ring.
          rewrite unit_conj_inv by (apply Cn2_pow, Hunit). ring.
  Qed.

  (** Parseval for the 1-D transform:  Σ_k |X_k|^2 = N Σ_n |x_n|^2 *)
  Lemma parseval_1d (x : nat -> RC) :
    Rsum (fun k => Cn2 (dft w N x k)) N = INR N * Rsum (fun n => Cn2 (x n)) N.
  Proof.
    assert (E : Csum (fun k => Cmul (dft w N x k) (Cconj (dft w N x k))) N =
                RtoC (INR N * Rsum (fun n => Cn2 (x n)) N)).
    { unfold dft.
      rewrite (Csum_ext _ (fun k => Csum (fun n => Csum (fun m =>
                 Cmul (Cmul (x n) (Cconj (x m))) (Cmul (Cpow w (k * n)) (Cconj (Cpow w (k * m))))) N) N)).
      2:{ intros k _. rewrite Csum_conj, <- Csum_scal_r. apply Csum_ext; intros n _.
          rewrite <- Csum_scal. apply Csum_ext; intros m _. rewrite Cconj_mul. ring. }
      rewrite Csum_swap.
      rewrite (Csum_ext _ (fun n => Cmul (RtoC (INR N)) (RtoC (Cn2 (x n))))).
      2:{ intros n Hn. rewrite Csum_swap.
          rewrite (Csum_ext _ (fun m => Cmul (Cmul (x n) (Cconj (x m)))
                     (if Nat.eq_dec n m then RtoC (INR N) else C0))).
          2:{ intros m Hm. rewrite Csum_scal, kernel_orth by assumption. reflexivity. }
          rewrite (Csum_single _ N n Hn).
          - cbv beta. destruct (Nat.eq_dec n n) as [_|F]; [|contradiction]. rewrite Cmul_conj. ring.
          - intros i _ Hi. cbv beta. destruct (Nat.eq_dec n i) as [F|_]; [congruence|]. ring. }
      rewrite Csum_scal, Csum_RtoC. cring. }
    transitivity (fst (RtoC (INR N * Rsum (fun n => Cn2 (x n)) N))); [|reflexivity].
    rewrite <- E, fst_Csum. apply Rsum_ext; intros k _. rewrite Cmul_conj. reflexivity.
  Qed.


  (** exponents only matter modulo N *)
  Lemma Cpow_mod_N k a : (1 <= N)%nat -> Cpow w (k * a) = Cpow w (k * (a mod N)).
  Proof.
    intros HN1. set (q := (a / N)%nat). set (r := (a mod N)%nat).
    assert (Ha : a = (N * q + r)%nat) by (apply Nat.div_mod; lia).
    assert (Hk : (k * a = N * (k * q) + k * r)%nat) by (rewrite Ha at 1; ring).
    rewrite Hk, Cpow_add, Cpow_mul, HN, Cpow_1. ring.
  Qed.

  Lemma kernel_orth_gen a m : (1 <= N)%nat -> (m < N)%nat ->
    Csum (fun k => Cmul (Cpow w (k * a)) (Cconj (Cpow w (k * m)))) N =
    if Nat.eq_dec (a mod N) m then RtoC (INR N) else C0.
  Proof.
    intros HN1 Hm.
    rewrite (Csum_ext _ (fun k => Cmul (Cpow w (k * (a mod N))) (Cconj (Cpow w (k * m)))))
      by (intros; rewrite (Cpow_mod_N i a) by assumption; reflexivity).
    apply kernel_orth; [apply Nat.mod_upper_bound; lia | assumption].
  Qed.

  (** autocorrelation (Wiener-Khinchin) theorem: the transform of |X|^2 is N times the circular
      autocorrelation of x *)
  Lemma autocorr_1d (x : nat -> RC) (s : nat) : (1 <= N)%nat ->
    dft w N (fun k => RtoC (Cn2 (dft w N x k))) s =
    Cmul (RtoC (INR N)) (Csum (fun n => Cmul (x n) (Cconj (x ((n + s) mod N)))) N).
  Proof.
    intros HN1. unfold dft at 1.
    rewrite (Csum_ext _ (fun k => Csum (fun n => Csum (fun m =>
               Cmul (Cmul (x n) (Cconj (x m))) (Cmul (Cpow w (k * (n + s))) (Cconj (Cpow w (k * m))))) N) N)).
    2:{ intros k _. rewrite <- Cmul_conj. unfold dft. rewrite Csum_conj, sum_prod3.
        apply Csum_ext; intros n _. apply Csum_ext; intros m _.
        rewrite Cconj_mul. replace (k * (n + s))%nat with (k * n + s * k)%nat by ring.
        rewrite Cpow_add. ring. }
    rewrite Csum_swap.
    rewrite (Csum_ext _ (fun n => Cmul (RtoC (INR N)) (Cmul (x n) (Cconj (x ((n + s) mod N)))))).
    2:{ intros n Hn. rewrite Csum_swap.
        rewrite (Csum_ext _ (fun m => Cmul (Cmul (x n) (Cconj (x m)))
                   (if Nat.eq_dec ((n + s) mod N) m then RtoC (INR N) else C0))).
        2:{ intros m Hm. rewrite Csum_scal, kernel_orth_gen by assumption. reflexivity. }
        rewrite (Csum_single _ N ((n + s) mod N)).
        - cbv beta. destruct (Nat.eq_dec ((n + s) mod N) ((n + s) mod N)) as [_|F]; [ring | contradiction].
        - apply Nat.mod_upper_bound; lia.
        - intros i _ Hi. cbv beta. destruct (Nat.eq_dec ((n + s) mod N) i) as [F|_]; [congruence | ring]. }
    rewrite Csum_scal. reflexivity.
  Qed.

  (** the 2-D transform is a 1-D transform of 1-D transforms *)
  Lemma dft2_nested (x : nat -> nat -> RC) k l :
    dft2 w N x k l = dft w N (fun m => dft w N (fun n => x m n) l) k.
  Proof.
    unfold dft2, dft. apply Csum_ext; intros m _. rewrite <- Csum_scal_r.
    apply Csum_ext; intros n _. ring.
  Qed.

  (** Parseval for the 2-D transform:  Σ_kl |X_kl|^2 = N^2 Σ_mn |x_mn|^2 *)
  Lemma parseval_2d (x : nat -> nat -> RC) :
    energy2 N (fun k l => Cn2 (dft2 w N x k l)) = INR N * INR N * energy2 N (fun m n => Cn2 (x m n)).
  Proof.
    unfold energy2.
    rewrite (Rsum_ext _ (fun k => Rsum (fun l => Cn2 (dft w N (fun m => dft w N (fun n => x m n) l) k)) N))
      by (intros; apply Rsum_ext; intros; rewrite dft2_nested; reflexivity).
    rewrite Rsum_swap.
    rewrite (Rsum_ext _ (fun l => INR N * Rsum (fun m => Cn2 (dft w N (fun n => x m n) l)) N))
      by (intros; apply parseval_1d).
    rewrite Rsum_scal, Rsum_swap.
    rewrite (Rsum_ext _ (fun m => INR N * Rsum (fun n => Cn2 (x m n)) N))
      by (intros; apply parseval_1d).
    rewrite Rsum_scal. ring.
  Qed.

  (** peak bound for the transforms: |X_k| <= Σ |x_n| *)
  Lemma dft_peak (x : nat -> RC) k : Cmod (dft w N x k) <= Rsum (fun n => Cmod (x n)) N.
  Proof. unfold dft; apply peak_bound_1d; intros; apply Cmod_pow_unit, Hunit. Qed.
  Lemma dft2_peak (x : nat -> nat -> RC) k l :
    Cmod (dft2 w N x k l) <= Rsum (fun m => Rsum (fun n => Cmod (x m n)) N) N.
  Proof.
    unfold dft2. eapply Rle_trans; [apply Cmod_Csum_le|]. apply Rsum_le; intros m _.
    apply peak_bound_1d; intros. rewrite Cmod_mul, !Cmod_pow_unit by apply Hunit. ring.
  Qed.
End Root.

(** the zero-frequency sample is the plain sum (no hypothesis on w) *)
Lemma dft2_dc w N (x : nat -> nat -> RC) : dft2 w N x 0 0 = Csum (fun m => Csum (fun n => x m n) N) N.
Proof. unfold dft2; apply Csum_ext; intros; apply Csum_ext; intros; simpl; ring. Qed.

(** ** NumPy's kernel exp(-2 pi i / N) is a primitive N-th root of unity for every N >= 1 *)
Lemma wN_pow N k : Cpow (wN N) k = (cos (INR k * (2 * PI / INR N)), - sin (INR k * (2 * PI / INR N))).
Proof.
  induction k.
  - simpl. rewrite Rmult_0_l, cos_0, sin_0. unfold C1; f_equal; ring.
  - change (Cpow (wN N) (S k)) with (Cmul (wN N) (Cpow (wN N) k)). rewrite IHk, S_INR.
    replace ((INR k + 1) * (2 * PI / INR N)) with (2 * PI / INR N + INR k * (2 * PI / INR N)) by ring.
    rewrite cos_plus, sin_plus. unfold wN, Cmul; simpl. f_equal; ring.
Qed.

Lemma cos_eq_1_range x : 0 < x < 2 * PI -> cos x <> 1.
Proof.
  intros [H0 H2] Hc.
  assert (Hs : sin x = 0).
  { generalize (sin2_cos2 x); rewrite Hc; unfold Rsqr; nra. }
  destruct (sin_eq_0_0 x Hs) as [k Hk].
  assert (HPI := PI_RGT_0).
  assert (0 < IZR k < 2) as [Hk0 Hk2] by (split; nra).
  apply lt_IZR in Hk0. apply lt_IZR in Hk2.
  assert (k = 1%Z) by lia. subst k. rewrite Rmult_1_l in Hk. subst x.
  rewrite cos_PI in Hc. lra.
Qed.

Theorem wN_prim_root N : (1 <= N)%nat -> prim_root (wN N) N.
Proof.
  intros HN1. assert (HNpos : 0 < INR N) by (apply lt_0_INR; lia).
  split; [|split].
  - unfold wN, Cn2; simpl. generalize (sin2_cos2 (2 * PI / INR N)); unfold Rsqr; lra.
  - rewrite wN_pow. replace (INR N * (2 * PI / INR N)) with (2 * PI) by (field; lra).
    rewrite cos_2PI, sin_2PI. unfold C1; f_equal; ring.
  - intros d [Hd0 HdN] H. rewrite wN_pow in H. apply (f_equal fst) in H; simpl in H.
    apply (cos_eq_1_range (INR d * (2 * PI / INR N))); [|exact H].
    assert (HPI := PI_RGT_0). assert (0 < INR d) by (apply lt_0_INR; lia).
    assert (INR d < INR N) by (apply lt_INR; lia).
    split.
    + apply Rmult_lt_0_compat; [assumption|]. apply Rdiv_lt_0_compat; lra.
    + replace (INR d * (2 * PI / INR N)) with (2 * PI * (INR d / INR N)) by (field; lra).
      assert (INR d / INR N < 1).
      { unfold Rdiv. apply Rmult_lt_reg_r with (INR N); [lra|]. rewrite Rmult_assoc, Rinv_l by lra. lra. }
      nra.
Qed.

Example prim_root_4 : prim_root (0, -1) 4.
Proof.
  split; [|split].
  - csimp; ring.
  - simpl; cring.
  - intros d Hd H. assert (d = 1 \/ d = 2 \/ d = 3)%nat as [-> | [-> | ->]] by lia;
      simpl in H; apply (f_equal fst) in H; csimp; lra.
Qed.

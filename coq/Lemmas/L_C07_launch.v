(** * C07 - the launch point of a ray is homogeneous of degree 1 in the lengths.

    The regenerated kernels of RayGenerator._get_starting_z_offset and RayGenerator._get_ray_origins
    (Gen/C07L.v): multiplying every length they read - vertex positions, entrance pupil position and
    diameter, the object surface's radius and vertex, and (for object-height fields) the field
    heights - by s > 0 multiplies the launch point (x0, y0, z0) by s, for an object at infinity and
    for a finite object with angular or height fields.  The launch point is where the optical path
    starts counting, so together with [trace_scale_R] every recorded path length scales by s. *)
From Coq Require Import Reals Lra Psatz ZArith List Bool String.
From OV Require Import Ops RInst Num.OpsC03 Gen.Standard Gen.C07L Lemmas.L_C07_scale.
Import ListNotations.
Local Open Scope R_scope.

Lemma triple_eq (a b c a' b' c' : R) : a = a' -> b = b' -> c = c' -> Some (a, b, c) = Some (a', b', c').
Proof. intros; subst; reflexivity. Qed.

Section Launch.
  Variable s : R.
  Hypothesis Hs : 0 < s.

  Lemma Rltb_scale a b : Rltb (s * a) (s * b) = Rltb a b.
  Proof. unfold Rltb. destruct (Rlt_dec (s * a) (s * b)), (Rlt_dec a b); try reflexivity; exfalso; nra. Qed.

  Lemma min_fold_scale (r : list R) : forall x,
    fold_left (fun a b : R => if Rltb b a then b else a) (map (Rmult s) r) (s * x) =
    s * fold_left (fun a b : R => if Rltb b a then b else a) r x.
  Proof.
    induction r as [|b r IH]; intros x; [reflexivity|]. cbn [map fold_left].
    rewrite Rltb_scale. destruct (Rltb b x); apply IH.
  Qed.

  Lemma min_list_scale (l : list R) : min_list (O:=ROps) (map (Rmult s) l) = s * min_list (O:=ROps) l.
  Proof.
    destruct l as [|x r]; unfold min_list; rops.
    - cbn [map]. ring.
    - cbn [map]. apply min_fold_scale.
  Qed.

  Lemma sliceZ_map (l : list R) lo hi : sliceZ (map (Rmult s) l) lo hi = map (Rmult s) (sliceZ l lo hi).
  Proof. unfold sliceZ. rewrite map_length. rewrite skipn_map, firstn_map. reflexivity. Qed.

  Lemma getZ_scale (l : list R) i : getZ (O:=ROps) (map (Rmult s) l) i = s * getZ (O:=ROps) l i.
  Proof.
    unfold getZ, nthZ. change (@Datatypes.length (T ROps) (map (Rmult s) l)) with (Datatypes.length (map (Rmult s) l)).
    rewrite map_length. change (@Datatypes.length (T ROps) l) with (Datatypes.length l).
    destruct (orb _ _).
    - rops. ring.
    - change (@nth_error (T ROps) (map (Rmult s) l)) with (@nth_error R (map (Rmult s) l)).
      rewrite nth_error_map. change (@nth_error (T ROps) l) with (@nth_error R l).
      destruct (nth_error l _); cbn [option_map]; rops; [reflexivity|ring].
  Qed.

  (** RayGenerator._get_starting_z_offset *)
  Theorem z_offset_homogeneous (pos : list R) (EPD EPL : R) :
    k_c07_z_offset ROps (map (Rmult s) pos) (s * EPD) (s * EPL) = s * k_c07_z_offset ROps pos EPD EPL.
  Proof.
    unfold k_c07_z_offset. rops. rewrite sliceZ_map, min_list_scale, Rltb_scale.
    destruct (Rltb EPL _); ring.
  Qed.

  Definition scale3 (p : R * R * R) : R * R * R := let '(x, y, z) := p in (s * x, s * y, s * z).

  (** RayGenerator._get_ray_origins: every branch (object at infinity / finite object with heights / with angles).
      The maximum field is a length only for object-height fields. *)
  Theorem origins_homogeneous (Hx Hy Px Py vx vy mf : R) (inf : bool) (ft : string) (tele : bool)
          (EPL EPD : R) (pos : list R) (Robj kobj zobj : R) :
    k_c07_origins ROps Hx Hy Px Py vx vy (if String.eqb ft "object_height" then s * mf else mf) inf ft tele
                  (s * EPL) (s * EPD) (map (Rmult s) pos) (s * Robj) kobj (s * zobj) =
    option_map scale3 (k_c07_origins ROps Hx Hy Px Py vx vy mf inf ft tele EPL EPD pos Robj kobj zobj).
  Proof.
    unfold k_c07_origins. destruct inf.
    - destruct (String.eqb ft "object_height"); [reflexivity|]. destruct tele; [reflexivity|].
      rewrite z_offset_homogeneous, getZ_scale. cbn [option_map scale3]. rops.
      apply triple_eq; unfold Rdiv; ring.
    - destruct (String.eqb ft "object_height") eqn:E.
      + cbn [option_map scale3]. rops.
        replace (s * mf * Hx) with (s * (mf * Hx)) by ring.
        replace (s * mf * Hy) with (s * (mf * Hy)) by ring.
        rewrite (std_sag_scale_R s (mf * Hx) (mf * Hy) Robj kobj Hs).
        apply triple_eq; ring.
      + destruct (String.eqb ft "angle"); [|reflexivity].
        rewrite getZ_scale. cbn [option_map scale3]. rops.
        apply triple_eq; ring.
  Qed.
End Launch.

Example launch_hyp_ok : 0 < 1 / 100. Proof. lra. Qed.

(** * Calculus of quadratically convergent families (C05)
    Closure of [E2] / [Od] / [Ev] (Spec/S_C05.v) under the arithmetic of the ray-trace kernels:
    + - * / sqrt |.| sign.  Elementary real analysis, no derivative library. *)
From Coq Require Import Reals Lra Psatz.
From OV Require Import RInst Spec.S_C05.
Local Open Scope R_scope.

(** ** neighbourhoods *)
Lemma Ev_and P Q : Ev P -> Ev Q -> Ev (fun e => P e /\ Q e).
Proof.
  intros (d1 & H1 & P1) (d2 & H2 & P2). exists (Rmin d1 d2). split.
  - apply Rmin_glb_lt; assumption.
  - intros e He. split; [apply P1|apply P2];
      (eapply Rlt_le_trans; [exact He|]); [apply Rmin_l|apply Rmin_r].
Qed.
Lemma Ev_mono (P Q : R -> Prop) : (forall e, P e -> Q e) -> Ev P -> Ev Q.
Proof. intros H (d & Hd & HP). exists d. split; auto. Qed.
Lemma Ev_true (P : R -> Prop) : (forall e, P e) -> Ev P.
Proof. intros H. exists 1. split; [lra|auto]. Qed.

Lemma sq_small e d : Rabs e < d -> d <= 1 -> e * e <= Rabs e.
Proof.
  intros H1 H2. assert (0 <= Rabs e) by apply Rabs_pos.
  replace (e * e) with (Rabs e * Rabs e).
  - nra.
  - rewrite <- Rabs_mult. apply Rabs_right. nra.
Qed.

(** ** E2: basic *)
Lemma E2_const c : E2 (fun _ => c) c.
Proof.
  exists 0, 1. repeat split; try lra. intros e _.
  replace (c - c) with 0 by ring. rewrite Rabs_R0. lra.
Qed.
Lemma E2_sq : E2 (fun e => e * e) 0.
Proof.
  exists 1, 1. repeat split; try lra. intros e _.
  rewrite Rminus_0_r. rewrite Rabs_right; nra.
Qed.
Lemma E2_lim f p q : E2 f p -> p = q -> E2 f q.
Proof. intros H <-. exact H. Qed.
Lemma E2_ext f g p : E2 f p -> (forall e, g e = f e) -> E2 g p.
Proof.
  intros (C & d & HC & Hd & H) E. exists C, d. repeat split; auto. intros e He. rewrite E. auto.
Qed.
Lemma E2_ev_ext f g p : E2 f p -> Ev (fun e => g e = f e) -> E2 g p.
Proof.
  intros (C & d & HC & Hd & H) (d' & Hd' & E). exists C, (Rmin d d'). repeat split; auto.
  - apply Rmin_glb_lt; assumption.
  - intros e He. rewrite E.
    + apply H. eapply Rlt_le_trans; [exact He|apply Rmin_l].
    + eapply Rlt_le_trans; [exact He|apply Rmin_r].
Qed.

(** a common radius <= 1 and common constants *)
Lemma E2_pair f p g q : E2 f p -> E2 g q ->
  exists C1 C2 d, 0 <= C1 /\ 0 <= C2 /\ 0 < d /\ d <= 1 /\
    forall e, Rabs e < d -> Rabs (f e - p) <= C1 * (e * e) /\ Rabs (g e - q) <= C2 * (e * e).
Proof.
  intros (C1 & d1 & HC1 & Hd1 & H1) (C2 & d2 & HC2 & Hd2 & H2).
  exists C1, C2, (Rmin (Rmin d1 d2) 1). repeat split; auto.
  - repeat apply Rmin_glb_lt; lra.
  - apply Rmin_r.
  - apply H1. eapply Rlt_le_trans; [eassumption|]. eapply Rle_trans; [apply Rmin_l|apply Rmin_l].
  - apply H2. eapply Rlt_le_trans; [eassumption|]. eapply Rle_trans; [apply Rmin_l|apply Rmin_r].
Qed.

Lemma E2_add f g p q : E2 f p -> E2 g q -> E2 (fun e => f e + g e) (p + q).
Proof.
  intros Hf Hg. destruct (E2_pair _ _ _ _ Hf Hg) as (C1 & C2 & d & HC1 & HC2 & Hd & _ & H).
  exists (C1 + C2), d. repeat split; try lra. intros e He. destruct (H e He) as [A B].
  replace (f e + g e - (p + q)) with ((f e - p) + (g e - q)) by ring.
  eapply Rle_trans; [apply Rabs_triang|]. nra.
Qed.
Lemma E2_opp f p : E2 f p -> E2 (fun e => - f e) (- p).
Proof.
  intros (C & d & HC & Hd & H). exists C, d. repeat split; auto. intros e He.
  replace (- f e - - p) with (- (f e - p)) by ring. rewrite Rabs_Ropp. auto.
Qed.
Lemma E2_sub f g p q : E2 f p -> E2 g q -> E2 (fun e => f e - g e) (p - q).
Proof. intros Hf Hg. unfold Rminus. apply E2_add; [exact Hf|apply E2_opp; exact Hg]. Qed.

Lemma E2_mul f g p q : E2 f p -> E2 g q -> E2 (fun e => f e * g e) (p * q).
Proof.
  intros Hf Hg. destruct (E2_pair _ _ _ _ Hf Hg) as (C1 & C2 & d & HC1 & HC2 & Hd & Hd1 & H).
  exists (C1 * (Rabs q + C2) + Rabs p * C2), d. repeat split; auto.
  - assert (0 <= Rabs q) by apply Rabs_pos. assert (0 <= Rabs p) by apply Rabs_pos. nra.
  - intros e He. destruct (H e He) as [A B].
    assert (Hs : e * e <= 1).
    { generalize (sq_small e d He Hd1). intros. assert (Rabs e < 1) by lra. lra. }
    assert (He2 : 0 <= e * e) by nra.
    replace (f e * g e - p * q) with ((f e - p) * g e + p * (g e - q)) by ring.
    eapply Rle_trans; [apply Rabs_triang|]. rewrite !Rabs_mult.
    assert (Hg' : Rabs (g e) <= Rabs q + C2).
    { replace (g e) with (q + (g e - q)) by ring. eapply Rle_trans; [apply Rabs_triang|]. nra. }
    assert (0 <= Rabs q) by apply Rabs_pos. assert (0 <= Rabs p) by apply Rabs_pos.
    assert (0 <= Rabs (f e - p)) by apply Rabs_pos. assert (0 <= Rabs (g e - q)) by apply Rabs_pos.
    assert (0 <= Rabs (g e)) by apply Rabs_pos.
    assert (T1 : Rabs (f e - p) * Rabs (g e) <= C1 * (e * e) * (Rabs q + C2)).
    { apply Rmult_le_compat; auto. }
    assert (T2 : Rabs p * Rabs (g e - q) <= Rabs p * (C2 * (e * e))).
    { apply Rmult_le_compat_l; auto. }
    nra.
Qed.

(** eventually positive / non-zero / ordered *)
Lemma E2_ev_near f p r : E2 f p -> 0 < r -> Ev (fun e => Rabs (f e - p) < r).
Proof.
  intros (C & d & HC & Hd & H) Hr.
  exists (Rmin (Rmin d 1) (r / (C + 1))). split.
  - repeat apply Rmin_glb_lt; try lra. apply Rdiv_lt_0_compat; lra.
  - intros e He.
    assert (H1 : Rabs e < d) by (eapply Rlt_le_trans; [exact He|]; eapply Rle_trans; [apply Rmin_l|apply Rmin_l]).
    assert (H2 : Rabs e < 1) by (eapply Rlt_le_trans; [exact He|]; eapply Rle_trans; [apply Rmin_l|apply Rmin_r]).
    assert (H3 : Rabs e < r / (C + 1)) by (eapply Rlt_le_trans; [exact He|]; apply Rmin_r).
    assert (Hs : e * e <= Rabs e) by (apply sq_small with 1; lra).
    specialize (H e H1).
    assert (Hc : C * (e * e) <= C * Rabs e) by (apply Rmult_le_compat_l; auto).
    assert (Hk : (C + 1) * Rabs e < r).
    { apply Rmult_lt_reg_r with (/ (C + 1)); [apply Rinv_0_lt_compat; lra|].
      replace ((C + 1) * Rabs e * / (C + 1)) with (Rabs e) by (field; lra). exact H3. }
    assert (0 <= Rabs e) by apply Rabs_pos. lra.
Qed.
Lemma E2_ev_pos f p : E2 f p -> 0 < p -> Ev (fun e => 0 < f e).
Proof.
  intros Hf Hp. eapply Ev_mono; [|apply (E2_ev_near f p p Hf Hp)].
  intros e H. cbv beta in H. apply Rabs_def2 in H. lra.
Qed.
Lemma E2_ev_neg f p : E2 f p -> p < 0 -> Ev (fun e => f e < 0).
Proof.
  intros Hf Hp. assert (Hq : 0 < - p) by lra.
  eapply Ev_mono; [|apply (E2_ev_near f p (- p) Hf Hq)].
  intros e H. cbv beta in H. apply Rabs_def2 in H. lra.
Qed.
Lemma E2_ev_neq f p : E2 f p -> p <> 0 -> Ev (fun e => f e <> 0).
Proof.
  intros Hf Hp. destruct (Rtotal_order p 0) as [H|[H|H]]; [|contradiction|].
  - eapply Ev_mono; [|apply (E2_ev_neg f p Hf H)]. intros; cbv beta in *; lra.
  - eapply Ev_mono; [|apply (E2_ev_pos f p Hf H)]. intros; cbv beta in *; lra.
Qed.
Lemma E2_ev_lt f g p q : E2 f p -> E2 g q -> p < q -> Ev (fun e => f e < g e).
Proof.
  intros Hf Hg Hpq. assert (H : E2 (fun e => g e - f e) (q - p)) by (apply E2_sub; assumption).
  eapply Ev_mono; [|apply (E2_ev_pos _ _ H)]; [|lra]. intros; cbv beta in *; lra.
Qed.

Lemma E2_inv g q : E2 g q -> q <> 0 -> E2 (fun e => / g e) (/ q).
Proof.
  intros Hg Hq. assert (Hq' : 0 < Rabs q / 2) by (generalize (Rabs_pos_lt q Hq); lra).
  destruct (E2_ev_near g q (Rabs q / 2) Hg Hq') as (d1 & Hd1 & N1).
  destruct Hg as (C & d & HC & Hd & H).
  assert (Hqa : 0 < Rabs q) by (apply Rabs_pos_lt; exact Hq).
  exists (C * (2 / (Rabs q * Rabs q))), (Rmin d d1). repeat split.
  - apply Rmult_le_pos; [exact HC|]. apply Rlt_le. apply Rdiv_lt_0_compat; nra.
  - apply Rmin_glb_lt; assumption.
  - intros e He.
    assert (E1 : Rabs e < d) by (eapply Rlt_le_trans; [exact He|apply Rmin_l]).
    assert (E2' : Rabs e < d1) by (eapply Rlt_le_trans; [exact He|apply Rmin_r]).
    specialize (H e E1). specialize (N1 e E2'). cbv beta in N1.
    assert (Hge : Rabs q / 2 <= Rabs (g e)).
    { assert (T : Rabs q <= Rabs (g e) + Rabs (g e - q)).
      { replace q with (g e + - (g e - q)) at 1 by ring.
        eapply Rle_trans; [apply Rabs_triang|]. rewrite Rabs_Ropp. lra. }
      lra. }
    assert (Hg0 : g e <> 0).
    { intros Z. rewrite Z, Rabs_R0 in Hge. lra. }
    replace (/ g e - / q) with (- (g e - q) * (/ g e * / q)) by (field; split; assumption).
    rewrite Rabs_mult, Rabs_Ropp, Rabs_mult, !Rabs_inv.
    assert (Hi : / Rabs (g e) <= 2 / Rabs q).
    { replace (2 / Rabs q) with (/ (Rabs q / 2)) by (field; lra).
      apply Rinv_le_contravar; lra. }
    assert (0 < / Rabs (g e)) by (apply Rinv_0_lt_compat; lra).
    assert (0 < / Rabs q) by (apply Rinv_0_lt_compat; lra).
    assert (0 <= Rabs (g e - q)) by apply Rabs_pos.
    assert (He2 : 0 <= e * e) by nra.
    replace (C * (2 / (Rabs q * Rabs q)) * (e * e)) with (C * (e * e) * (2 / Rabs q * / Rabs q)) by (field; lra).
    apply Rmult_le_compat; auto.
    + apply Rlt_le. apply Rmult_lt_0_compat; assumption.
    + apply Rmult_le_compat_r; lra.
Qed.
Lemma E2_div f g p q : E2 f p -> E2 g q -> q <> 0 -> E2 (fun e => f e / g e) (p / q).
Proof. intros Hf Hg Hq. unfold Rdiv. apply E2_mul; [exact Hf|apply E2_inv; assumption]. Qed.

Lemma E2_abs f p : E2 f p -> E2 (fun e => Rabs (f e)) (Rabs p).
Proof.
  intros (C & d & HC & Hd & H). exists C, d. repeat split; auto. intros e He.
  eapply Rle_trans; [apply Rabs_triang_inv2|]. auto.
Qed.

Lemma E2_sign f p : E2 f p -> p <> 0 -> E2 (fun e => Rsign (f e)) (Rsign p).
Proof.
  intros Hf Hp. apply E2_ev_ext with (f := fun _ => Rsign p); [apply E2_const|].
  destruct (Rtotal_order p 0) as [H|[H|H]]; [|contradiction|].
  - eapply Ev_mono; [|apply (E2_ev_neg f p Hf H)]. intros e He; cbv beta in *.
    rewrite !Rsign_neg by assumption. reflexivity.
  - eapply Ev_mono; [|apply (E2_ev_pos f p Hf H)]. intros e He; cbv beta in *.
    rewrite !Rsign_pos by assumption. reflexivity.
Qed.

Lemma E2_sqrt f p : E2 f p -> 0 < p -> E2 (fun e => sqrt (f e)) (sqrt p).
Proof.
  intros Hf Hp. destruct (E2_ev_pos f p Hf Hp) as (d1 & Hd1 & P1).
  destruct Hf as (C & d & HC & Hd & H).
  assert (Hr : 0 < sqrt p) by (apply sqrt_lt_R0; exact Hp).
  exists (C / sqrt p), (Rmin d d1). repeat split.
  - unfold Rdiv. apply Rmult_le_pos; [exact HC|]. apply Rlt_le, Rinv_0_lt_compat; exact Hr.
  - apply Rmin_glb_lt; assumption.
  - intros e He.
    assert (E1 : Rabs e < d) by (eapply Rlt_le_trans; [exact He|apply Rmin_l]).
    assert (E2' : Rabs e < d1) by (eapply Rlt_le_trans; [exact He|apply Rmin_r]).
    specialize (H e E1). specialize (P1 e E2'). cbv beta in P1.
    set (s := sqrt (f e)). set (r := sqrt p) in *.
    assert (Hs : 0 < s) by (apply sqrt_lt_R0; exact P1).
    assert (Hss : s * s = f e) by (apply sqrt_sqrt; lra).
    assert (Hrr : r * r = p) by (apply sqrt_sqrt; lra).
    assert (K : Rabs (s - r) * r <= Rabs (f e - p)).
    { rewrite <- Hss, <- Hrr. replace (s * s - r * r) with ((s - r) * (s + r)) by ring.
      rewrite Rabs_mult. rewrite (Rabs_right (s + r)) by lra.
      apply Rmult_le_compat_l; [apply Rabs_pos|lra]. }
    assert (He2 : 0 <= e * e) by nra.
    replace (C / r * (e * e)) with (C * (e * e) / r) by (field; lra).
    apply Rmult_le_reg_r with r; [exact Hr|].
    replace (C * (e * e) / r * r) with (C * (e * e)) by (field; lra). lra.
Qed.

(** ** Od *)
Lemma Od_lim f p q : Od f p -> p = q -> Od f q.
Proof. intros H <-. exact H. Qed.
Lemma Od_ext f g p : Od f p -> (forall e, g e = f e) -> Od g p.
Proof. intros (h & Hh & H) E. exists h. split; auto. intros e. rewrite E. auto. Qed.
Lemma Od_id : Od (fun e => e) 1.
Proof. exists (fun _ => 1). split; [intros; ring|apply E2_const]. Qed.
Lemma Od_zero : Od (fun _ => 0) 0.
Proof. exists (fun _ => 0). split; [intros; ring|apply E2_const]. Qed.
Lemma Od_add f g p q : Od f p -> Od g q -> Od (fun e => f e + g e) (p + q).
Proof.
  intros (f' & Ef & Hf) (g' & Eg & Hg). exists (fun e => f' e + g' e). split.
  - intros e. rewrite Ef, Eg. ring.
  - apply E2_add; assumption.
Qed.
Lemma Od_opp f p : Od f p -> Od (fun e => - f e) (- p).
Proof.
  intros (f' & Ef & Hf). exists (fun e => - f' e). split.
  - intros e. rewrite Ef. ring.
  - apply E2_opp; assumption.
Qed.
Lemma Od_sub f g p q : Od f p -> Od g q -> Od (fun e => f e - g e) (p - q).
Proof. intros Hf Hg. unfold Rminus. apply Od_add; [exact Hf|apply Od_opp; exact Hg]. Qed.
Lemma Od_mul_E2 f g p q : Od f p -> E2 g q -> Od (fun e => f e * g e) (p * q).
Proof.
  intros (f' & Ef & Hf) Hg. exists (fun e => f' e * g e). split.
  - intros e. rewrite Ef. ring.
  - apply E2_mul; assumption.
Qed.
Lemma E2_mul_Od f g p q : E2 f p -> Od g q -> Od (fun e => f e * g e) (p * q).
Proof.
  intros Hf (g' & Eg & Hg). exists (fun e => f e * g' e). split.
  - intros e. rewrite Eg. ring.
  - apply E2_mul; assumption.
Qed.
Lemma Od_div_E2 f g p q : Od f p -> E2 g q -> q <> 0 -> Od (fun e => f e / g e) (p / q).
Proof.
  intros (f' & Ef & Hf) Hg Hq. exists (fun e => f' e / g e). split.
  - intros e. rewrite Ef. unfold Rdiv. ring.
  - apply E2_div; assumption.
Qed.
(** the product of two odd quantities is even and vanishes quadratically *)
Lemma Od_mul_Od f g p q : Od f p -> Od g q -> E2 (fun e => f e * g e) 0.
Proof.
  intros (f' & Ef & Hf) (g' & Eg & Hg).
  apply E2_ext with (f := fun e => (e * e) * (f' e * g' e)).
  - replace 0 with (0 * (p * q)) by ring. apply E2_mul; [apply E2_sq|apply E2_mul; assumption].
  - intros e. rewrite Ef, Eg. ring.
Qed.
(** an odd quantity, seen as an even one, tends to 0 (at least linearly squared bound fails:
    only used through products, see [Od_mul_Od]) *)

(** C16: intensity along a traced ray (Model/Trace.v over the regenerated kernels) *)
From Coq Require Import Reals Lra Lia ZArith List Bool Psatz.
From OV Require Import Ops RInst Gen.RealRays Gen.Standard Gen.Geometries Gen.Apertures Model.Trace.
Import ListNotations.
Local Open Scope R_scope.

(** ** kernels *)
Theorem clip_zero_or_same (cond : bool) (i : R) :
  k_rr_clip ROps cond i = if cond then 0 else i.
Proof.
  unfold k_rr_clip. rops. destruct cond; [|reflexivity]. unfold Rlit; simpl. lra.
Qed.

Theorem radial_clip_spec x y rmax rmin i :
  k_radial_clip ROps x y rmax rmin i =
  if Rltb (rmax * rmax) (x * x + y * y) || Rltb (x * x + y * y) (rmin * rmin) then 0 else i.
Proof. unfold k_radial_clip, gtb_. rops. rewrite clip_zero_or_same. reflexivity. Qed.

(** absorption over the propagated length t (mm -> um): i' = i * exp(-(4 pi k / w) t 1e3) *)
Theorem absorb_factor t x L y M z N k w i :
  let '(_, _, _, i') := k_propagate ROps t x L y M z N k w i in
  i' = i * exp (- (4 * PI * k / w) * t * 1000).
Proof.
  unfold k_propagate. rops. f_equal. f_equal. unfold Rlit. simpl. lra.
Qed.

Lemma exp_le_1 a : a <= 0 -> exp a <= 1.
Proof.
  intros H. destruct (Req_dec a 0) as [->|Hn]; [rewrite exp_0; lra|].
  left. rewrite <- exp_0. apply exp_increasing. lra.
Qed.

Theorem absorb_factor_bounds t k w : 0 <= t -> 0 <= k -> 0 < w ->
  0 < exp (- (4 * PI * k / w) * t * 1000) <= 1.
Proof.
  intros Ht Hk Hw. split; [apply exp_pos|]. apply exp_le_1.
  assert (0 <= 4 * PI * k / w).
  { apply Rmult_le_pos; [|left; apply Rinv_0_lt_compat; exact Hw].
    generalize PI_RGT_0; intros; nra. }
  nra.
Qed.

Theorem coating_factor i tr rf :
  k_coat_transmit ROps i tr = i * tr /\ k_coat_reflect ROps i rf = i * rf.
Proof. split; reflexivity. Qed.

(** ** one surface of the trace model *)
Definition surf_ok (s : surf ROps) : Prop :=
  0 <= s_k1 s /\
  match s_coat s with Some (tr, rf) => 0 <= tr <= 1 /\ 0 <= rf <= 1 | None => True end.

Lemma localize_i s (r : ray ROps) : ri (localize s r) = ri r /\ rw (localize s r) = rw r.
Proof.
  unfold localize. destruct (k_translate ROps _ _ _ _ _ _) as [[x y] z].
  cbn [ri rw rx ry rz rL rM rN].
  destruct (nonzero (s_rx s)); [destruct (k_rotate_x ROps _ _ _ _ _) as [[[a b] c] d]|];
  cbn [ri rw rx ry rz rL rM rN];
  (destruct (nonzero (s_ry s)); [destruct (k_rotate_y ROps _ _ _ _ _) as [[[a' b'] c'] d']|]);
  cbn [ri rw rx ry rz rL rM rN];
  (destruct (nonzero (s_rz s)); [destruct (k_rotate_z ROps _ _ _ _ _) as [[[a'' b''] c''] d'']|]);
  cbn [ri rw]; split; reflexivity.
Qed.

Lemma globalize_i s (r : ray ROps) : ri (globalize s r) = ri r.
Proof.
  unfold globalize.
  destruct (nonzero (s_rz s)); [destruct (k_rotate_z ROps _ _ _ _ _) as [[[a b] c] d]|];
  cbn [ri rw rx ry rz rL rM rN];
  (destruct (nonzero (s_ry s)); [destruct (k_rotate_y ROps _ _ _ _ _) as [[[a' b'] c'] d']|]);
  cbn [ri rw rx ry rz rL rM rN];
  (destruct (nonzero (s_rx s)); [destruct (k_rotate_x ROps _ _ _ _ _) as [[[a'' b''] c''] d'']|]);
  cbn [ri rw rx ry rz rL rM rN];
  destruct (k_translate ROps _ _ _ _ _ _) as [[x y] z]; reflexivity.
Qed.

(** the intensity after a surface is the intensity before it times the stated factors *)
Theorem surface_intensity s (r r' : ray ROps) :
  trace_surface s r = Some r' ->
  exists (t : R) (clipped : bool),
    distance (s_shape s) (localize s r) = Some t /\
    ri r' = (if clipped then 0 else ri r * exp (- (4 * PI * s_k1 s / rw r) * t * 1000)) *
            match s_coat s with Some (tr, rf) => if s_refl s then rf else tr | None => 1 end.
Proof.
  unfold trace_surface. destruct (localize_i s r) as [Hi Hw].
  destruct (distance (s_shape s) (localize s r)) as [t|] eqn:Ed; [|discriminate].
  generalize (absorb_factor t (rx (localize s r)) (rL (localize s r)) (ry (localize s r)) (rM (localize s r))
                            (rz (localize s r)) (rN (localize s r)) (s_k1 s) (rw (localize s r)) (ri (localize s r))).
  destruct (k_propagate ROps _ _ _ _ _ _ _ _ _ _) as [[[x y] z] i]. intros Ei.
  rewrite Hi, Hw in Ei.
  destruct (s_aper s) as [[rmax rmin]|].
  - cbn [rx ry rz rL rM rN ri rw ropd].
    destruct (normal _ _) as [[[nx ny] nz]|]; [|discriminate].
    destruct (if s_refl s then _ else _) as [[L M] N].
    intros H; injection H as <-. rewrite globalize_i. cbn [ri].
    rewrite radial_clip_spec.
    exists t, (Rltb (rmax * rmax) (x * x + y * y) || Rltb (x * x + y * y) (rmin * rmin)).
    split; [reflexivity|].
    destruct (s_coat s) as [[tr rf]|]; [destruct (s_refl s)|];
      destruct (_ || _); rewrite ?(proj1 (coating_factor _ _ 0)), ?(proj2 (coating_factor _ 0 _));
      unfold k_coat_reflect, k_coat_transmit; rops; rewrite ?Ei; ring.
  - cbn [rx ry rz rL rM rN ri rw ropd].
    destruct (normal _ _) as [[[nx ny] nz]|]; [|discriminate].
    destruct (if s_refl s then _ else _) as [[L M] N].
    intros H; injection H as <-. rewrite globalize_i. cbn [ri].
    exists t, false. split; [reflexivity|].
    destruct (s_coat s) as [[tr rf]|]; [destruct (s_refl s)|];
      unfold k_coat_reflect, k_coat_transmit; rops; rewrite ?Ei; ring.
Qed.

Lemma prod3_bound a f c : 0 <= a <= 1 -> 0 < f <= 1 -> 0 <= c <= 1 -> 0 <= a * f * c <= a.
Proof.
  intros Ha Hf Hc. assert (A1 : 0 <= a * f <= a) by nra.
  split; [apply Rmult_le_pos; lra|].
  assert (a * f * c <= a * f * 1) by (apply Rmult_le_compat_l; lra). lra.
Qed.

(** never created: with passive data the intensity stays in [0,1] and does not increase *)
Theorem surface_intensity_monotone s (r r' : ray ROps) t :
  trace_surface s r = Some r' -> surf_ok s ->
  distance (s_shape s) (localize s r) = Some t -> 0 <= t -> 0 < rw r ->
  0 <= ri r <= 1 -> 0 <= ri r' <= ri r.
Proof.
  intros Ht [Hk Hc] Hd Hpos Hw Hi.
  destruct (surface_intensity s r r' Ht) as (t' & cl & Hd' & E).
  rewrite Hd in Hd'. injection Hd' as <-. rewrite E.
  destruct (absorb_factor_bounds t (s_k1 s) (rw r) Hpos Hk Hw) as [Hf0 Hf1].
  set (f := exp _) in *.
  assert (Hc' : 0 <= match s_coat s with Some (tr, rf) => if s_refl s then rf else tr | None => 1 end <= 1).
  { destruct (s_coat s) as [[tr rf]|]; [destruct (s_refl s); tauto|lra]. }
  destruct cl; [rewrite Rmult_0_l; lra|]. apply prod3_bound; [exact Hi|split; assumption|exact Hc'].
Qed.

(** ** along the whole path (any number of surfaces) *)
Fixpoint dists_nonneg (ss : list (surf ROps)) (r : ray ROps) : Prop :=
  match ss with
  | [] => True
  | s :: ss' =>
      match distance (s_shape s) (localize s r), trace_surface s r with
      | Some t, Some r' => 0 <= t /\ dists_nonneg ss' r'
      | _, _ => True
      end
  end.

Fixpoint nonincreasing (x : R) (l : list R) : Prop :=
  match l with [] => True | y :: l' => 0 <= y <= x /\ nonincreasing y l' end.

Lemma trace_keeps_w s (r r' : ray ROps) : trace_surface s r = Some r' -> rw r' = rw r.
Proof.
  unfold trace_surface. destruct (localize_i s r) as [_ Hw].
  destruct (distance _ _); [|discriminate].
  destruct (k_propagate ROps _ _ _ _ _ _ _ _ _ _) as [[[x y] z] i].
  destruct (s_aper s) as [[rmax rmin]|]; cbn [rx ry rz rL rM rN ri rw ropd];
    (destruct (normal _ _) as [[[nx ny] nz]|]; [|discriminate]);
    destruct (if s_refl s then _ else _) as [[L M] N];
    intros H; injection H as <-.
  - unfold globalize.
    destruct (nonzero (s_rz s)); [destruct (k_rotate_z ROps _ _ _ _ _) as [[[a b] c] d]|];
    cbn [ri rw rx ry rz rL rM rN];
    (destruct (nonzero (s_ry s)); [destruct (k_rotate_y ROps _ _ _ _ _) as [[[a' b'] c'] d']|]);
    cbn [ri rw rx ry rz rL rM rN];
    (destruct (nonzero (s_rx s)); [destruct (k_rotate_x ROps _ _ _ _ _) as [[[a'' b''] c''] d'']|]);
    cbn [ri rw rx ry rz rL rM rN];
    destruct (k_translate ROps _ _ _ _ _ _) as [[x' y'] z']; cbn [rw]; exact Hw.
  - unfold globalize.
    destruct (nonzero (s_rz s)); [destruct (k_rotate_z ROps _ _ _ _ _) as [[[a b] c] d]|];
    cbn [ri rw rx ry rz rL rM rN];
    (destruct (nonzero (s_ry s)); [destruct (k_rotate_y ROps _ _ _ _ _) as [[[a' b'] c'] d']|]);
    cbn [ri rw rx ry rz rL rM rN];
    (destruct (nonzero (s_rx s)); [destruct (k_rotate_x ROps _ _ _ _ _) as [[[a'' b''] c''] d'']|]);
    cbn [ri rw rx ry rz rL rM rN];
    destruct (k_translate ROps _ _ _ _ _ _) as [[x' y'] z']; cbn [rw]; exact Hw.
Qed.

Theorem intensity_path_invariant ss : forall (r : ray ROps) l,
  trace ss r = Some l -> Forall surf_ok ss -> dists_nonneg ss r -> 0 < rw r -> 0 <= ri r <= 1 ->
  nonincreasing (ri r) (map ri l).
Proof.
  induction ss as [|s ss IH]; intros r l Ht Hok Hd Hw Hi.
  - injection Ht as <-. exact I.
  - cbn [trace] in Ht. destruct (trace_surface s r) as [r'|] eqn:Es; [|discriminate].
    destruct (trace ss r') as [l'|] eqn:El; [|discriminate]. injection Ht as <-.
    inversion Hok as [|? ? Hs Hok']; subst.
    cbn [dists_nonneg] in Hd. destruct (distance (s_shape s) (localize s r)) as [t|] eqn:Ed.
    + rewrite Es in Hd. destruct Hd as [Hpos Hd'].
      assert (M := surface_intensity_monotone s r r' t Es Hs Ed Hpos Hw Hi).
      cbn [map nonincreasing]. split; [exact M|].
      apply IH; try assumption. rewrite (trace_keeps_w s r r' Es); exact Hw. lra.
    + exfalso. unfold trace_surface in Es. rewrite Ed in Es. discriminate.
Qed.

(** once a ray is clipped its intensity is zero at every later surface *)
Theorem clipped_stays_zero ss : forall (r : ray ROps) l,
  trace ss r = Some l -> ri r = 0 -> Forall (fun r' : ray ROps => ri r' = 0) l.
Proof.
  induction ss as [|s ss IH]; intros r l Ht H0.
  - injection Ht as <-. constructor.
  - cbn [trace] in Ht. destruct (trace_surface s r) as [r'|] eqn:Es; [|discriminate].
    destruct (trace ss r') as [l'|] eqn:El; [|discriminate]. injection Ht as <-.
    destruct (surface_intensity s r r' Es) as (t & cl & _ & E).
    assert (Z : ri r' = 0) by (rewrite E, H0; destruct cl; rewrite ?Rmult_0_l; reflexivity).
    constructor; [exact Z|]. apply (IH r' l' El Z).
Qed.

(** * C01: invariants of every edit history (any arithmetic instance, any operation order,
    including insertion in the middle and removal):
    at most one surface is the aperture stop; exactly one wavelength is primary. *)
From Coq Require Import ZArith List Bool String Lia.
From OV Require Import Ops Gen.LensEdit Model.Paraxial Model.M_C01 Spec.S_C01 Lemmas.L_C01_lists.
Import ListNotations.

Section Inv.
  Context {O : Ops}.
  Notation T := (T O).
  Notation lens := (lens O).
  Notation surf := (surf O).

  (** what an operation that is not add / remove surface / add wavelength leaves alone *)
  Definition frame (l l' : lens) : Prop :=
    map s_stop (surfs l') = map s_stop (surfs l) /\ waves l' = waves l /\ prims l' = prims l /\ ap l' = ap l.

  Lemma frame_refl l : frame l l.
  Proof. repeat split. Qed.
  Lemma frame_trans a b c : frame a b -> frame b c -> frame a c.
  Proof. unfold frame; intros (A1 & A2 & A3 & A4) (B1 & B2 & B3 & B4); repeat split; congruence. Qed.

  Lemma frame_pointwise l (g : Z * surf -> surf) :
    (forall j x, s_stop (g (j, x)) = s_stop x) -> frame l (with_surfs l (map g (enumZ (surfs l)))).
  Proof.
    intros H. unfold frame, with_surfs; cbn [surfs waves prims ap]. repeat split.
    apply map_enumZ_preserve. exact H.
  Qed.

  Lemma frame_upd_surf l i f : (forall s, s_stop (f s) = s_stop s) -> frame l (upd_surf l i f).
  Proof.
    intros H. unfold upd_surf. apply frame_pointwise. intros j x. destruct (j =? i)%Z; [apply H|reflexivity].
  Qed.

  Lemma frame_set_zs l zs : frame l (set_zs l zs).
  Proof. unfold set_zs. apply frame_pointwise. intros; reflexivity. Qed.

  Lemma frame_set_radius l v k l' : set_radius l v k = Some l' -> frame l l'.
  Proof.
    unfold set_radius. destruct (nthS l k); [|discriminate]. intros E; injection E as <-.
    apply frame_upd_surf. intros s0. unfold set_radius_fun. destruct (s_kind s0); destruct (isinf_ v); reflexivity.
  Qed.
  Lemma frame_set_conic l v k l' : set_conic l v k = Some l' -> frame l l'.
  Proof.
    unfold set_conic. destruct (nthS l k); [|discriminate]. intros E; injection E as <-.
    apply frame_upd_surf. reflexivity.
  Qed.
  Lemma frame_set_thickness l v k l' : set_thickness l v k = Some l' -> frame l l'.
  Proof.
    unfold set_thickness. destruct (_ && _); [|discriminate]. intros E; injection E as <-. apply frame_set_zs.
  Qed.
  Lemma frame_set_index l v k l' : set_index l v k = Some l' -> frame l l'.
  Proof.
    unfold set_index. destruct (_ && _); [|discriminate]. intros E; injection E as <-.
    unfold frame; cbn [surfs waves prims ap]. repeat split.
    rewrite (map_enumZ_preserve _ s_stop s_stop) by (intros j x; destruct (j =? k + 1)%Z; reflexivity).
    apply map_enumZ_preserve. intros j x; destruct (j =? k)%Z; reflexivity.
  Qed.
  Lemma frame_set_asphere_coeff l v k j l' : set_asphere_coeff l v k j = Some l' -> frame l l'.
  Proof.
    unfold set_asphere_coeff. destruct (nthS l k) as [s|]; [|discriminate].
    destruct (s_kind s); try discriminate. destruct (nthZ (s_c s) j); [|discriminate].
    intros E; injection E as <-. apply frame_upd_surf. reflexivity.
  Qed.

  Lemma frame_fold {A} (f : lens -> A -> option lens) :
    (forall l x l', f l x = Some l' -> frame l l') ->
    forall xs l l', fold_opt f xs l = Some l' -> frame l l'.
  Proof.
    intros Hf xs. unfold fold_opt.
    assert (G : forall xs (acc : option lens) l', fold_left (fun acc x => obind acc (fun l => f l x)) xs acc = Some l' ->
                exists l0, acc = Some l0 /\ frame l0 l').
    { clear xs. induction xs as [|x xs IH]; intros acc l' E; simpl in E.
      - exists l'. split; [assumption|apply frame_refl].
      - destruct (IH _ _ E) as (l1 & E1 & F1). destruct acc as [l0|]; [|discriminate].
        exists l0. split; [reflexivity|]. simpl in E1. eapply frame_trans; [eapply Hf; eassumption|assumption]. }
    intros l l' E. destruct (G _ _ _ E) as (l0 & E0 & F). injection E0 as <-. assumption.
  Qed.

  Lemma frame_pickup_apply l p l' : pickup_apply l p = Some l' -> frame l l'.
  Proof.
    unfold pickup_apply. destruct (pickup_get l p); [|discriminate]. unfold pickup_set.
    destruct (pk_attr p); [apply frame_set_radius|apply frame_set_conic|apply frame_set_thickness].
  Qed.
  Lemma frame_solve_apply l sv l' : solve_apply l sv = Some l' -> frame l l'.
  Proof.
    unfold solve_apply. destruct sv as [idx h]. destruct (inb _ _); [|discriminate].
    intros E; injection E as <-. apply frame_set_zs.
  Qed.
  Lemma frame_update l l' : update l = Some l' -> frame l l'.
  Proof.
    unfold update. destruct (fold_opt pickup_apply (pickups l) l) as [l1|] eqn:E1; [|discriminate].
    cbn [obind]. intros E2. eapply frame_trans.
    - eapply frame_fold; [apply frame_pickup_apply|exact E1].
    - eapply frame_fold; [apply frame_solve_apply|exact E2].
  Qed.
  Lemma frame_image_solve l l' : image_solve l = Some l' -> frame l l'.
  Proof. unfold image_solve. destruct (surfs l); [discriminate|]. intros E; injection E as <-. apply frame_set_zs. Qed.

  Lemma frame_var_update l vk k sc v l' : var_update l vk k sc v = Some l' -> frame l l'.
  Proof.
    unfold var_update. destruct vk.
    - destruct (nthS l k); [|discriminate]. destruct (k_c01_radius_update _ _ _ _). apply frame_set_radius.
    - destruct (k_c01_conic_update _ _ _). apply frame_set_conic.
    - destruct (k_c01_thickness_update _ _ _ _). apply frame_set_thickness.
    - destruct (k_c01_index_update _ _ _ _). apply frame_set_index.
    - destruct (k_c01_asphere_update _ _ _ _ _) as [[nv kk] jj]. apply frame_set_asphere_coeff.
    - destruct (nthS l k); [|discriminate]. destruct (k_c01_tilt_update _ _ _ _ _ _ _).
      intros E; injection E as <-. apply frame_pointwise. reflexivity.
    - destruct (nthS l k); [|discriminate]. destruct (k_c01_decenter_update _ _ _ _ _ _ _).
      intros E; injection E as <-. apply frame_pointwise. reflexivity.
  Qed.

  (** ** at most one stop *)
  Definition stops (l : lens) : list bool := map s_stop (surfs l).

  Lemma count_insert n b bs : count_true (insert_at n b bs) = ((if b then 1 else 0) + count_true bs)%nat.
  Proof.
    revert bs; induction n as [|n IH]; intros bs; [reflexivity|].
    destruct bs as [|c bs]; simpl; [lia|]. rewrite IH. lia.
  Qed.
  Lemma count_remove n bs : (count_true (remove_at n bs) <= count_true bs)%nat.
  Proof.
    revert n; induction bs as [|c bs IH]; intros n; destruct n; simpl; try lia. specialize (IH n). lia.
  Qed.
  Lemma map_insert {A B} (f : A -> B) n x l : map f (insert_at n x l) = insert_at n (f x) (map f l).
  Proof. revert l; induction n; intros [|y l]; simpl; auto. f_equal; auto. Qed.
  Lemma map_remove {A B} (f : A -> B) n l : map f (remove_at n l) = remove_at n (map f l).
  Proof. revert n; induction l; intros [|n]; simpl; auto. f_equal; auto. Qed.
  Lemma count_all_false {A} (l : list A) : count_true (map (fun _ => false) l) = 0%nat.
  Proof. induction l; simpl; auto. Qed.

  Lemma add_surface_stops l idx kind R k c t m st dx dy rx ry l' :
    add_surface l idx kind R k c t m st dx dy rx ry = Some l' ->
    (count_true (stops l) <= 1)%nat -> (count_true (stops l') <= 1)%nat.
  Proof.
    unfold add_surface. destruct (_ || _); [discriminate|].
    destruct (cfg_material l _ _) as [[[pre post] mats']|]; [|discriminate].
    destruct (k_c01_cfg_cs _ _ _ _ _ _ _ _ _) as [[[[x y] z] rx'] ry'].
    destruct (cfg_geometry _ _ _ _) as [[[g R'] k'] c'].
    intros E; injection E as <-. intros H. unfold stops in *. cbn [surfs].
    rewrite map_insert. rewrite count_insert. cbn [s_stop].
    destruct (if (idx =? 0)%Z then false else st) eqn:Es.
    - rewrite map_map. cbn [with_stop s_stop]. rewrite count_all_false. lia.
    - lia.
  Qed.

  Theorem step_stop_invariant l o l' :
    step l o = Some l' -> (count_true (stops l) <= 1)%nat -> (count_true (stops l') <= 1)%nat.
  Proof.
    assert (FR : forall a b, frame a b -> (count_true (stops a) <= 1)%nat -> (count_true (stops b) <= 1)%nat).
    { intros a b (F & _). unfold stops. rewrite F. auto. }
    destruct o; cbn [step].
    - apply add_surface_stops.
    - unfold remove_surface. destruct (_ && _); [|discriminate]. intros E; injection E as <-.
      unfold stops, with_surfs; cbn [surfs]. rewrite map_remove. intros H.
      eapply Nat.le_trans; [apply count_remove|exact H].
    - intros E; apply FR; eapply frame_set_radius; eassumption.
    - intros E; apply FR; eapply frame_set_conic; eassumption.
    - intros E; apply FR; eapply frame_set_thickness; eassumption.
    - intros E; apply FR; eapply frame_set_index; eassumption.
    - intros E; apply FR; eapply frame_set_asphere_coeff; eassumption.
    - intros E; apply FR; eapply frame_var_update; eassumption.
    - destruct (pickup_apply l _) as [l1|] eqn:E1; [|discriminate]. cbn [obind]. intros E; injection E as <-.
      apply frame_pickup_apply in E1. unfold stops; cbn [surfs]. apply (FR _ _ E1).
    - destruct (solve_apply l _) as [l1|] eqn:E1; [|discriminate]. cbn [obind]. intros E; injection E as <-.
      apply frame_solve_apply in E1. unfold stops; cbn [surfs]. apply (FR _ _ E1).
    - intros E; apply FR; eapply frame_update; eassumption.
    - intros E; apply FR; eapply frame_image_solve; eassumption.
    - intros E; injection E as <-. unfold add_wavelength.
      destruct (k_c01_add_wavelength _ _ _ _ _ _ _ _). unfold stops; cbn [surfs]. auto.
    - unfold add_ready. destruct (_ || _); [discriminate|].
      destruct (cfg_material l _ _) as [[[pre post] mats']|]; [|discriminate].
      destruct (cfg_geometry _ _ _ _) as [[[g R'] k'] c'].
      intros E; injection E as <-. intros H. unfold stops in *. cbn [surfs].
      rewrite map_insert. rewrite count_insert. cbn [s_stop].
      destruct stop.
      + rewrite map_map. cbn [with_stop s_stop]. rewrite count_all_false. lia.
      + lia.
  Qed.

  Lemma run_inv (P : lens -> Prop) :
    (forall l o l', step l o = Some l' -> P l -> P l') ->
    forall ops l l', run l ops = Some l' -> P l -> P l'.
  Proof.
    intros Hs ops. unfold run, fold_opt.
    assert (G : forall ops (acc : option lens) l', fold_left (fun acc x => obind acc (fun l => step l x)) ops acc = Some l' ->
                forall l0, acc = Some l0 -> P l0 -> P l').
    { clear ops. induction ops as [|o ops IH]; intros acc l' E l0 E0 H0; simpl in E.
      - congruence.
      - subst acc. cbn [obind] in E. destruct (step l0 o) as [l1|] eqn:E1.
        + eapply IH; [exact E|reflexivity|]. eapply Hs; eassumption.
        + exfalso. clear -E. induction ops; simpl in E; [discriminate|auto]. }
    intros l l' E H. eapply G; [exact E|reflexivity|exact H].
  Qed.

  (** At most one surface is the aperture stop after ANY history of operations (in any order, with
      insertion anywhere and removal), starting from the empty lens or from any lens with at most one stop *)
  Theorem at_most_one_stop ops l l' :
    run l ops = Some l' -> (count_true (stops l) <= 1)%nat -> (count_true (stops l') <= 1)%nat.
  Proof. apply (run_inv (fun l => (count_true (stops l) <= 1)%nat)). apply step_stop_invariant. Qed.

  Corollary at_most_one_stop_from_empty a ops (l' : lens) :
    run (empty_lens a) ops = Some l' -> (count_true (stops l') <= 1)%nat.
  Proof. intros E. eapply at_most_one_stop; [exact E|]. cbn. lia. Qed.

  (** ** exactly one primary wavelength *)
  Definition waves_ok (l : lens) : Prop :=
    List.length (waves l) = List.length (prims l) /\ (prims l = [] \/ count_true (prims l) = 1%nat).

  Lemma count_app a b : count_true (a ++ b) = (count_true a + count_true b)%nat.
  Proof. induction a; simpl; auto. rewrite IHa. lia. Qed.

  (** the regenerated WavelengthGroup.add_wavelength keeps the invariant *)
  Lemma add_wavelength_kernel v prim u ps ws vals ps' :
    List.length ws = List.length ps -> (ps = [] \/ count_true ps = 1%nat) ->
    k_c01_add_wavelength O v prim u (Z.of_nat (List.length ws)) ps (Z.of_nat (List.length ws)) ws = (vals, ps') ->
    List.length vals = List.length ps' /\ count_true ps' = 1%nat /\ vals = ws ++ [v].
  Proof.
    intros HL HC. unfold k_c01_add_wavelength. intros E. injection E as <- <-.
    split; [|split; [|reflexivity]].
    - rewrite !app_length. cbn [length]. destruct prim.
      + rewrite map_rangeZ_length, Nat2Z.id. reflexivity.
      + rewrite HL. reflexivity.
    - rewrite count_app. cbn [count_true]. destruct prim.
      + unfold rangeZ. rewrite count_all_false.
        destruct (Z.of_nat (List.length ws) =? 0)%Z; reflexivity.
      + destruct (Z.eqb_spec (Z.of_nat (List.length ws)) 0) as [E0|E0].
        * destruct ps; [reflexivity|]. simpl in HL. lia.
        * destruct HC as [->|HC]; [simpl in HL; lia|]. rewrite HC. reflexivity.
  Qed.

  Theorem step_primary_invariant l o l' : step l o = Some l' -> waves_ok l -> waves_ok l'.
  Proof.
    assert (FR : forall a b, frame a b -> waves_ok a -> waves_ok b).
    { intros a b (_ & F2 & F3 & _). unfold waves_ok. rewrite F2, F3. auto. }
    destruct o; cbn [step].
    - unfold add_surface. destruct (_ || _); [discriminate|].
      destruct (cfg_material l _ _) as [[[pre post] mats']|]; [|discriminate].
      destruct (k_c01_cfg_cs _ _ _ _ _ _ _ _ _) as [[[[x y] z] rx'] ry'].
      destruct (cfg_geometry _ _ _ _) as [[[g R'] k'] c'].
      intros E; injection E as <-. auto.
    - unfold remove_surface. destruct (_ && _); [|discriminate]. intros E; injection E as <-. auto.
    - intros E; apply FR; eapply frame_set_radius; eassumption.
    - intros E; apply FR; eapply frame_set_conic; eassumption.
    - intros E; apply FR; eapply frame_set_thickness; eassumption.
    - intros E; apply FR; eapply frame_set_index; eassumption.
    - intros E; apply FR; eapply frame_set_asphere_coeff; eassumption.
    - intros E; apply FR; eapply frame_var_update; eassumption.
    - destruct (pickup_apply l _) as [l1|] eqn:E1; [|discriminate]. cbn [obind]. intros E; injection E as <-.
      apply frame_pickup_apply in E1. intros H. apply (FR _ _ E1) in H. exact H.
    - destruct (solve_apply l _) as [l1|] eqn:E1; [|discriminate]. cbn [obind]. intros E; injection E as <-.
      apply frame_solve_apply in E1. intros H. apply (FR _ _ E1) in H. exact H.
    - intros E; apply FR; eapply frame_update; eassumption.
    - intros E; apply FR; eapply frame_image_solve; eassumption.
    - intros E; injection E as <-. intros (HL & HC). unfold add_wavelength.
      destruct (k_c01_add_wavelength _ _ _ _ _ _ _ _) as [vals ps'] eqn:EK.
      destruct (add_wavelength_kernel _ _ _ _ _ _ _ HL HC EK) as (A & B & _).
      unfold waves_ok; cbn [waves prims]. split; [exact A|right; exact B].
    - unfold add_ready. destruct (_ || _); [discriminate|].
      destruct (cfg_material l _ _) as [[[pre post] mats']|]; [|discriminate].
      destruct (cfg_geometry _ _ _ _) as [[[g R'] k'] c'].
      intros E; injection E as <-. auto.
  Qed.

  (** Exactly one wavelength is primary after any history that added at least one wavelength *)
  Theorem exactly_one_primary ops a (l' : lens) :
    run (empty_lens a) ops = Some l' -> prims l' <> [] -> count_true (prims l') = 1%nat.
  Proof.
    intros E NE.
    assert (W : waves_ok l').
    { eapply (run_inv waves_ok); [apply step_primary_invariant|exact E|]. split; [reflexivity|left; reflexivity]. }
    destruct W as (_ & [W|W]); [contradiction|exact W].
  Qed.

  (** and the number of wavelengths only grows by the calls made: each AddWavelength appends its value *)
  Theorem add_wavelength_appends l v prim :
    waves_ok l -> waves (add_wavelength l v prim) = waves l ++ [v].
  Proof.
    intros (HL & HC). unfold add_wavelength.
    destruct (k_c01_add_wavelength _ _ _ _ _ _ _ _) as [vals ps'] eqn:EK.
    destruct (add_wavelength_kernel _ _ _ _ _ _ _ HL HC EK) as (_ & _ & C). exact C.
  Qed.
End Inv.

(** * C20 - proofs: reading the text of a prescription and converting it gives the lens the prescription
    describes (induction over the surface list), non-sequential files are rejected, unknown operands are
    ignored, glass resolution, the radius kernel. *)
From Coq Require Import ZArith List String Bool Lia.
From OV Require Import Ops Model.M_C20 Spec.S_C20.
Import ListNotations.
Local Open Scope string_scope.
Local Open Scope list_scope.

Ltac hstep := progress (cbn;
  unfold h_fno, h_epd, h_obna, h_floa, h_ftyp, h_xfln, h_yfln, h_wavm, h_pwav, h_surf, h_type, h_parm,
    h_curv, h_disz, h_coni, h_glas, h_stop, h_mode, h_gcat, bindE, getF, getI, getS, tokAt, nthZ; cbn;
  repeat match goal with |- context [Pos.to_nat ?p] =>
    let n := eval compute in (Pos.to_nat p) in change (Pos.to_nat p) with n end; cbn).

Section Proofs.
  Context {O : Ops}.
  Notation T := (T O).
  Variable show : T -> string.
  Variable showZ : Z -> string.
  Variable resolve : string -> option string -> bool.
  Hypothesis Hshow : forall x, (show x =? "INFINITY") = false.

  Notation emit_surf := (emit_surf show showZ).
  Notation emit_surfs := (emit_surfs show showZ).

  (** what the reader holds for one SURF block *)
  Definition params_of (t : @ptype O) : list (Z * T) :=
    match t with
    | PStandard => []
    | PEven c1 c2 c3 c4 c5 c6 c7 c8 =>
      [(0, c1); (1, c2); (2, c3); (3, c4); (4, c5); (5, c6); (6, c7); (7, c8)]%Z
    end.
  Definition mat_of (gcat : option (list string)) (g : @pglass O) : @medium O :=
    match g with
    | GAir => MName "air"
    | GCatalog name nd vd | GModel name nd vd => resolve_glass resolve name gcat nd vd
    end.
  Definition data_of (gcat : option (list string)) (s : @psurf O) : @sdata O :=
    mkS (match p_type s with PStandard => "standard" | _ => "even_asphere" end)
        (p_stop s) (conic_of s) (mat_of gcat (p_glass s))
        (Some (radius_of_curv (p_curv s))) (Some (thick_of s))
        (match p_glass s with GAir => None | GCatalog _ nd _ | GModel _ nd _ => Some nd end)
        (match p_glass s with GAir => None | GCatalog _ _ vd | GModel _ _ vd => Some vd end)
        (params_of (p_type s)).
  Definition step (st : @rstate O) (s : @psurf O) : @rstate O :=
    set_cur (data_of (r_gcat st) s) (next_surf st).

  Lemma read_block : forall k s rest st,
    read_lines resolve (emit_surf k s ++ rest) st = read_lines resolve rest (step st s).
  Proof.
    intros k [stop ty c th gl co] rest st.
    destruct stop, ty, th, gl, co; repeat hstep; rewrite ?Hshow; repeat hstep; reflexivity.
  Qed.

  Lemma read_blocks : forall l k rest st,
    read_lines resolve (emit_surfs k l ++ rest) st = read_lines resolve rest (fold_left step l st).
  Proof.
    induction l as [|s l IH]; intros k rest st; cbn [S_C20.emit_surfs fold_left app].
    - reflexivity.
    - rewrite <- app_assoc, read_block. apply IH.
  Qed.

  Lemma step_keep : forall st s,
    r_ap (step st s) = r_ap st /\ r_ftype (step st s) = r_ftype st /\ r_fx (step st s) = r_fx st /\
    r_fy (step st s) = r_fy st /\ r_wdata (step st s) = r_wdata st /\ r_wprim (step st s) = r_wprim st /\
    r_gcat (step st s) = r_gcat st /\ r_idx (step st s) = (r_idx st + 1)%Z.
  Proof. intros; repeat split. Qed.

  Lemma steps_keep : forall l st,
    r_ap (fold_left step l st) = r_ap st /\ r_ftype (fold_left step l st) = r_ftype st /\
    r_fx (fold_left step l st) = r_fx st /\ r_fy (fold_left step l st) = r_fy st /\
    r_wdata (fold_left step l st) = r_wdata st /\ r_wprim (fold_left step l st) = r_wprim st /\
    r_gcat (fold_left step l st) = r_gcat st.
  Proof.
    induction l as [|s l IH]; intros st; cbn [fold_left].
    - repeat split.
    - destruct (IH (step st s)) as (a & b & c & d & e & f & g).
      destruct (step_keep st s) as (a' & b' & c' & d' & e' & f' & g' & _).
      repeat split; congruence.
  Qed.

  Lemma steps_surfs : forall l st, (0 <= r_idx st)%Z ->
    r_surfs (fold_left step l st) ++ [r_cur (fold_left step l st)]
    = r_surfs st ++ [r_cur st] ++ map (data_of (r_gcat st)) l /\ (0 <= r_idx (fold_left step l st))%Z.
  Proof.
    induction l as [|s l IH]; intros st Hi; cbn [fold_left map].
    - split; [reflexivity | exact Hi].
    - assert (Hi' : (0 <= r_idx (step st s))%Z) by (cbn; lia).
      destruct (IH (step st s) Hi') as [E Hj]. split; [|exact Hj].
      rewrite E. cbn. apply Z.leb_le in Hi. rewrite Hi. rewrite <- app_assoc. reflexivity.
  Qed.

  (** ** slices and token lists *)
  Lemma floats_ntok : forall xs : list T, floats (map (ntok show) xs) = Some xs.
  Proof. induction xs as [|x xs IH]; cbn; [reflexivity | rewrite IH; reflexivity]. Qed.

  Lemma sliceZ_tail : forall {A} (a : A) (l : list A), sliceZ (a :: l) 1 None = l.
  Proof.
    intros A a l. unfold sliceZ. cbn [List.length skipn].
    replace (Z.to_nat ((if (1 <? 0)%Z then Z.max 0 (Z.of_nat (S (List.length l)) + 1) else 1))) with 1%nat by reflexivity.
    cbn [skipn].
    replace (Z.to_nat (Z.of_nat (S (List.length l)) - (if (1 <? 0)%Z then Z.max 0 (Z.of_nat (S (List.length l)) + 1) else 1)))
      with (List.length l) by (cbn [Z.ltb Z.compare]; lia).
    apply firstn_all.
  Qed.

  Lemma sliceZ_fields : forall {A} (a : A) (l pad : list A),
    sliceZ (a :: l ++ pad) 1 (Some (Z.of_nat (List.length l) + 1)%Z) = l.
  Proof.
    intros A a l pad. unfold sliceZ.
    assert (H0 : ((Z.of_nat (List.length l) + 1 <? 0) = false)%Z) by (apply Z.ltb_ge; lia).
    rewrite H0. change ((1 <? 0)%Z) with false. cbv iota.
    change (Z.to_nat 1) with 1%nat. cbn [skipn].
    replace (Z.to_nat (Z.min (Z.of_nat (List.length l) + 1) (Z.of_nat (List.length (a :: l ++ pad))) - 1))
      with (List.length l).
    - rewrite firstn_app, Nat.sub_diag, firstn_all. cbn. apply app_nil_r.
    - cbn [List.length]. rewrite app_length. lia.
  Qed.

  Lemma combine_fst_snd : forall {A B} (l : list (A * B)), combine (map fst l) (map snd l) = l.
  Proof. induction l as [|[a b] l IH]; cbn; [reflexivity | rewrite IH; reflexivity]. Qed.

  Lemma insert_y_nonempty : forall (p : T * T) l, insert_y p l <> [].
  Proof. intros p [|q r]; cbn; [discriminate | destruct (ltb_ (snd p) (snd q)); discriminate]. Qed.
  Lemma sort_acc_nonempty : forall (l acc : list (T * T)), acc <> [] -> fold_left (fun a p => insert_y p a) l acc <> [].
  Proof. induction l as [|p l IH]; intros acc H; cbn; [exact H | apply IH, insert_y_nonempty]. Qed.
  Lemma canon_nonempty : forall l : list (T * T), l <> [] -> canon_fields (map fst l) (map snd l) <> [].
  Proof.
    intros [|p l] H; [congruence|]. unfold canon_fields. rewrite combine_fst_snd.
    cbn. unfold sort_y. cbn. apply sort_acc_nonempty. discriminate.
  Qed.

  (** ** the header *)
  Lemma read_cons : forall (d : list (@tok O)) r (st : @rstate O),
    read_lines resolve (d :: r) st = match dispatch resolve d st with Some st' => read_lines resolve r st' | None => None end.
  Proof. reflexivity. Qed.

  Lemma read_step : forall (d : list (@tok O)) r (st st' : @rstate O),
    dispatch resolve d st = Some st' -> read_lines resolve (d :: r) st = read_lines resolve r st'.
  Proof. intros d r st st' H. cbn [read_lines]. rewrite H. reflexivity. Qed.

  Lemma read_wavm_used : forall ws k rest st nw,
    r_wnum st = Some nw -> (Z.of_nat (List.length (r_wdata st)) + Z.of_nat (List.length ws) <= nw)%Z ->
    read_lines resolve (wavm_lines show showZ k ws ++ rest) st
    = read_lines resolve rest (set_wdata (r_wdata st ++ ws) st).
  Proof.
    induction ws as [|w ws IH]; intros k rest st nw Hn Hl.
    - cbn. rewrite app_nil_r. destruct st; reflexivity.
    - cbn [S_C20.wavm_lines app].
      assert (E : dispatch resolve [wtok "WAVM"; itok showZ (k + 1); ntok show w; itok showZ 1] st
                  = Some (set_wdata (r_wdata st ++ [w]) st)).
      { repeat hstep. rewrite Hn.
        assert (Hlt : (Z.of_nat (List.length (r_wdata st)) <? nw)%Z = true) by (apply Z.ltb_lt; cbn [List.length] in Hl; lia).
        rewrite Hlt. reflexivity. }
      rewrite (read_step _ _ _ _ E). rewrite (IH (k + 1)%Z rest _ nw).
      + cbn. rewrite <- app_assoc. reflexivity.
      + exact Hn.
      + cbn [r_wdata set_wdata]. rewrite app_length. cbn [List.length] in *. lia.
  Qed.

  Lemma read_wavm_extra : forall ws k rest st nw,
    r_wnum st = Some nw -> (Z.of_nat (List.length (r_wdata st)) = nw)%Z ->
    read_lines resolve (wavm_lines show showZ k ws ++ rest) st = read_lines resolve rest st.
  Proof.
    induction ws as [|w ws IH]; intros k rest st nw Hn Hl.
    - reflexivity.
    - cbn [S_C20.wavm_lines app].
      assert (E : dispatch resolve [wtok "WAVM"; itok showZ (k + 1); ntok show w; itok showZ 1] st = Some st).
      { repeat hstep. rewrite Hn.
        assert (Hlt : (Z.of_nat (List.length (r_wdata st)) <? nw)%Z = false) by (apply Z.ltb_ge; lia).
        rewrite Hlt. reflexivity. }
      rewrite (read_step _ _ _ _ E). apply (IH _ _ _ nw); assumption.
  Qed.

  Definition ap_key (a : @paperture O) : string :=
    match a with AEnpd _ => "EPD" | AFnum _ => "imageFNO" | AObna _ => "objectNA" end.
  Definition ap_val (a : @paperture O) : T := match a with AEnpd v | AFnum v | AObna v => v end.

  Definition head_state (p : @presc O) : @rstate O :=
    mkR [(ap_key (p_ap p), ap_val (p_ap p))] (Some (Z.of_nat (List.length (p_fields p))))
        (Some (if p_height p then "object_height" else "angle")) (Some false) (Some false)
        (Some (map fst (p_fields p))) (Some (map snd (p_fields p)))
        (Some (Z.of_nat (List.length (p_waves p)))) (p_waves p) (Some (p_prim p - 1)%Z)
        [] fresh_surf (-1) (p_gcat p).

  Lemma read_head : forall p rest,
    read_lines resolve (emit_head show showZ p ++ rest) init_state = read_lines resolve rest (head_state p).
  Proof.
    intros p rest. unfold emit_head. rewrite <- !app_assoc.
    cbn [app].
    rewrite (read_step _ _ _ init_state) by reflexivity.
    rewrite (read_step _ _ _ init_state) by (repeat hstep; reflexivity).
    rewrite (read_step _ _ _ (set_ap [(ap_key (p_ap p), ap_val (p_ap p))] init_state))
      by (destruct (p_ap p); repeat hstep; reflexivity).
    set (st1 := set_ap [(ap_key (p_ap p), ap_val (p_ap p))] init_state).
    (* GCAT *)
    assert (Eg : read_lines resolve
                   (match p_gcat p with Some cs => [wtok "GCAT" :: map wtok cs] | None => [] end ++
                    [wtok "FTYP"; itok showZ (if p_height p then 1 else 0); itok showZ 0;
                     itok showZ (Z.of_nat (List.length (p_fields p))); itok showZ (Z.of_nat (List.length (p_waves p)));
                     itok showZ 0; itok showZ 0; itok showZ 0]
                    :: (wtok "XFLN" :: map (ntok show) (map fst (p_fields p)) ++ p_pad p)
                    :: (wtok "YFLN" :: map (ntok show) (map snd (p_fields p)) ++ p_pad p)
                    :: wavm_lines show showZ 0 (p_waves p) ++
                       wavm_lines show showZ (Z.of_nat (List.length (p_waves p))) (p_wextra p) ++
                       [[wtok "PWAV"; itok showZ (p_prim p)]] ++ rest) st1
                 = read_lines resolve rest (head_state p)).
    2:{ exact Eg. }
    assert (Egc : forall more, read_lines resolve
                   (match p_gcat p with Some cs => [wtok "GCAT" :: map wtok cs] | None => [] end ++ more) st1
                 = read_lines resolve more (set_gcat (p_gcat p) st1)).
    { intros more. destruct (p_gcat p) as [cs|]; cbn [app].
      - rewrite (read_step _ _ _ (set_gcat (Some (map txt (sliceZ (wtok "GCAT" :: map (@wtok O) cs) 1 None))) st1))
          by reflexivity.
        rewrite sliceZ_tail. rewrite map_map. cbn [txt wtok]. rewrite map_id. reflexivity.
      - reflexivity. }
    rewrite Egc. clear Egc.
    set (st2 := set_gcat (p_gcat p) st1).
    (* FTYP *)
    set (st3 := set_fafoc (Some false) (set_ftele (Some false) (set_wnum (Some (Z.of_nat (List.length (p_waves p))))
                 (set_ftype (Some (if p_height p then "object_height" else "angle"))
                   (set_fnum (Some (Z.of_nat (List.length (p_fields p)))) st2))))).
    assert (Ef : dispatch resolve
                   [wtok "FTYP"; itok showZ (if p_height p then 1 else 0); itok showZ 0;
                    itok showZ (Z.of_nat (List.length (p_fields p))); itok showZ (Z.of_nat (List.length (p_waves p)));
                    itok showZ 0; itok showZ 0; itok showZ 0] st2 = Some st3).
    { destruct (p_height p); repeat hstep; reflexivity. }
    rewrite (read_step _ _ _ _ Ef). clear Ef.
    (* XFLN / YFLN *)
    assert (Ex : dispatch resolve (wtok "XFLN" :: map (ntok show) (map fst (p_fields p)) ++ p_pad p) st3
                 = Some (set_fx (Some (map fst (p_fields p))) st3)).
    { change (dispatch resolve (wtok "XFLN" :: map (ntok show) (map fst (p_fields p)) ++ p_pad p) st3)
        with (h_xfln (wtok "XFLN" :: map (ntok show) (map fst (p_fields p)) ++ p_pad p) st3).
      unfold h_xfln. change (r_fnum st3) with (Some (Z.of_nat (List.length (p_fields p)))).
      replace (Z.of_nat (List.length (p_fields p))) with (Z.of_nat (List.length (map (ntok show) (map fst (p_fields p)))))
        by (rewrite !map_length; reflexivity).
      rewrite sliceZ_fields, floats_ntok. reflexivity. }
    rewrite (read_step _ _ _ _ Ex). clear Ex. set (st4 := set_fx (Some (map fst (p_fields p))) st3).
    assert (Ey : dispatch resolve (wtok "YFLN" :: map (ntok show) (map snd (p_fields p)) ++ p_pad p) st4
                 = Some (set_fy (Some (map snd (p_fields p))) st4)).
    { change (dispatch resolve (wtok "YFLN" :: map (ntok show) (map snd (p_fields p)) ++ p_pad p) st4)
        with (h_yfln (wtok "YFLN" :: map (ntok show) (map snd (p_fields p)) ++ p_pad p) st4).
      unfold h_yfln. change (r_fnum st4) with (Some (Z.of_nat (List.length (p_fields p)))).
      replace (Z.of_nat (List.length (p_fields p))) with (Z.of_nat (List.length (map (ntok show) (map snd (p_fields p)))))
        by (rewrite !map_length; reflexivity).
      rewrite sliceZ_fields, floats_ntok. reflexivity. }
    rewrite (read_step _ _ _ _ Ey). clear Ey. set (st5 := set_fy (Some (map snd (p_fields p))) st4).
    (* WAVM *)
    rewrite (read_wavm_used (p_waves p) 0 _ st5 (Z.of_nat (List.length (p_waves p)))); [| reflexivity | cbn; lia].
    rewrite (read_wavm_extra (p_wextra p) _ _ _ (Z.of_nat (List.length (p_waves p)))); [| reflexivity | reflexivity].
    cbn [app].
    rewrite (read_step _ _ _ (set_wprim (Some (p_prim p - 1)%Z) (set_wdata (r_wdata st5 ++ p_waves p) st5)))
      by (repeat hstep; reflexivity).
    reflexivity.
  Qed.

  (** ** the converter *)
  Hypothesis Hinf : isinf_ (inf_ : T) = true.

  Lemma try_catalogs_none : forall name cs,
    Forall (fun m => resolve name (Some m) = false) cs -> try_catalogs resolve name cs = None.
  Proof. induction 1 as [|m cs Hm _ IH]; cbn; [reflexivity | rewrite Hm; exact IH]. Qed.

  Lemma conv_one : forall gcat s, curv_ok s -> glass_ok resolve gcat s ->
    conv_shape (data_of gcat s) = Some (shape_of s) /\
    conv_medium resolve (d_mat (data_of gcat s)) = Some (medium_of s).
  Proof.
    intros gcat [stop ty c th gl co] Hc Hg. unfold curv_ok, glass_ok in *. cbn [p_type p_curv p_glass] in *. split.
    - unfold conv_shape, data_of, shape_of, radius_of_curv. cbn [d_radius d_type d_conic d_params p_type p_curv params_of].
      destruct ty as [|c1 c2 c3 c4 c5 c6 c7 c8].
      + change ("standard" =? "standard") with true. cbv iota.
        destruct (eqb_ c (ofZ 0)) eqn:E.
        * rewrite Hinf. reflexivity.
        * rewrite (Hc eq_refl). reflexivity.
      + change ("even_asphere" =? "standard") with false. change ("even_asphere" =? "even_asphere") with true. cbv iota.
        change (rangeZ 0 8) with [0; 1; 2; 3; 4; 5; 6; 7]%Z. reflexivity.
    - unfold data_of, medium_of, mat_of. cbn [d_mat p_glass].
      destruct gl as [|name nd vd|name nd vd].
      + reflexivity.
      + unfold resolve_glass. rewrite Hg. reflexivity.
      + destruct Hg as [H0 Hcs]. unfold resolve_glass. rewrite H0.
        destruct gcat as [cs|]; [rewrite (try_catalogs_none _ _ Hcs)|]; reflexivity.
  Qed.

  Lemma last_z_app : forall (acc : list (@lsurf O)) x, last_z (acc ++ [x]) = l_z x.
  Proof. intros. unfold last_z. rewrite rev_app_distr. reflexivity. Qed.

  Definition last_thick (l : list (@psurf O)) (t : T) : T := fold_left (fun _ s => thick_of s) l t.

  Lemma push_nostop : forall (acc : list (@lsurf O)) sh z m, push_surf acc sh z false m = acc ++ [mkL sh z false m].
  Proof. intros [|a acc] sh z m; reflexivity. Qed.

  Lemma conv_nostop : forall gcat l acc t,
    Forall no_stop l -> Forall curv_ok l -> Forall (glass_ok resolve gcat) l ->
    conv_surfs resolve (map (data_of gcat) l) acc t
    = Some (acc ++ place l (List.length acc) (last_z acc) t, last_thick l t).
  Proof.
    intros gcat. induction l as [|s l IH]; intros acc t Hs Hc Hg.
    - cbn. rewrite app_nil_r. reflexivity.
    - inversion Hs as [|? ? Hs1 Hs2]; inversion Hc as [|? ? Hc1 Hc2]; inversion Hg as [|? ? Hg1 Hg2]; subst.
      cbn [map conv_surfs]. destruct (conv_one gcat s Hc1 Hg1) as [E1 E2]. rewrite E1, E2.
      change (d_thick (data_of gcat s)) with (Some (thick_of s)). cbv iota.
      change (d_stop (data_of gcat s)) with (p_stop s). rewrite Hs1. rewrite push_nostop.
      rewrite (IH _ _ Hs2 Hc2 Hg2). rewrite app_length, last_z_app. cbn [List.length l_z].
      rewrite Nat.add_1_r. cbn [place last_thick fold_left]. rewrite Hs1. rewrite <- app_assoc.
      unfold vertex_z. reflexivity.
  Qed.

  Lemma clear_stops_id : forall acc : list (@lsurf O), Forall (fun s => l_stop s = false) acc -> clear_stops acc = acc.
  Proof.
    unfold clear_stops. induction 1 as [|a acc Ha _ IH]; cbn [map]; [reflexivity|]. rewrite IH. destruct a as [sh z st m]. cbn in *. subst. reflexivity.
  Qed.

  Lemma conv_general : forall gcat l acc t, acc <> [] ->
    Forall (fun s => l_stop s = false) acc ->
    one_stop l -> Forall curv_ok l -> Forall (glass_ok resolve gcat) l ->
    conv_surfs resolve (map (data_of gcat) l) acc t
    = Some (acc ++ place l (List.length acc) (last_z acc) t, last_thick l t).
  Proof.
    intros gcat. induction l as [|s l IH]; intros acc t Hne Hacc Hs Hc Hg.
    - cbn. rewrite app_nil_r. reflexivity.
    - inversion Hc as [|? ? Hc1 Hc2]; inversion Hg as [|? ? Hg1 Hg2]; subst.
      cbn [one_stop] in Hs.
      cbn [map conv_surfs]. destruct (conv_one gcat s Hc1 Hg1) as [E1 E2]. rewrite E1, E2.
      change (d_thick (data_of gcat s)) with (Some (thick_of s)). cbv iota.
      change (d_stop (data_of gcat s)) with (p_stop s).
      destruct (p_stop s) eqn:Est.
      + (* the stop: nothing to clear before it, no stop after it *)
        assert (Ep : push_surf acc (shape_of s) (vertex_z (List.length acc) acc (thick_of s) t) true (medium_of s)
                     = acc ++ [mkL (shape_of s) (vertex_z (List.length acc) acc (thick_of s) t) true (medium_of s)]).
        { pose proof (clear_stops_id _ Hacc) as Hcl. unfold push_surf. destruct acc as [|a acc']; [congruence|]. cbv beta iota zeta. rewrite Hcl. reflexivity. }
        rewrite Ep. rewrite (conv_nostop gcat l _ _ Hs Hc2 Hg2).
        rewrite app_length, last_z_app. cbn [List.length l_z]. rewrite Nat.add_1_r.
        cbn [place last_thick fold_left]. rewrite Est. rewrite <- app_assoc. unfold vertex_z. reflexivity.
      + rewrite push_nostop.
        rewrite (IH (acc ++ [mkL (shape_of s) (vertex_z (List.length acc) acc (thick_of s) t) false (medium_of s)]) (thick_of s)).
        * rewrite app_length, last_z_app. cbn [List.length l_z]. rewrite Nat.add_1_r.
          cbn [place last_thick fold_left]. rewrite Est. rewrite <- app_assoc. unfold vertex_z. reflexivity.
        * destruct acc; discriminate.
        * apply Forall_app; split; [exact Hacc | constructor; [reflexivity | constructor]].
        * exact Hs.
        * exact Hc2.
        * exact Hg2.
  Qed.

  Fixpoint end_z (l : list (@psurf O)) (k : nat) (z t : T) : T :=
    match l with
    | [] => z
    | s :: r => end_z r (S k) (match k with 0%nat => neg (thick_of s) | 1%nat => ofZ 0 | _ => add z t end) (thick_of s)
    end.

  Lemma place_app : forall l1 l2 k z t,
    place (l1 ++ l2) k z t
    = place l1 k z t ++ place l2 (k + List.length l1) (end_z l1 k z t) (last_thick l1 t).
  Proof.
    induction l1 as [|s l1 IH]; intros l2 k z t.
    - cbn. rewrite Nat.add_0_r. reflexivity.
    - cbn [app place end_z]. rewrite IH. cbn [app List.length last_thick fold_left].
      replace (S k + List.length l1)%nat with (k + S (List.length l1))%nat by lia. reflexivity.
  Qed.

  Lemma last_z_cons : forall (x : @lsurf O) l, l <> [] -> last_z (x :: l) = last_z l.
  Proof.
    intros x l H. unfold last_z. cbn [rev]. destruct (rev l) as [|b r] eqn:E.
    - apply (f_equal (@rev _)) in E. rewrite rev_involutive in E. cbn in E. congruence.
    - reflexivity.
  Qed.

  Lemma last_z_place : forall l k z t, l <> [] -> last_z (place l k z t) = end_z l k z t.
  Proof.
    induction l as [|s l IH]; intros k z t H; [congruence|].
    cbn [place end_z]. destruct l as [|s' l'].
    - reflexivity.
    - rewrite last_z_cons; [apply IH; discriminate | cbn [place]; discriminate].
  Qed.

  Lemma place_length : forall (l : list (@psurf O)) k z t, List.length (place l k z t) = List.length l.
  Proof. induction l as [|s l IH]; intros; cbn [place List.length]; [reflexivity | rewrite IH; reflexivity]. Qed.

  Lemma import_roundtrip_sec : forall p : @presc O,
    p_fields p <> [] ->
    (1 <= p_prim p <= Z.of_nat (List.length (p_waves p)))%Z ->
    p_stop (p_obj p) = false ->
    one_stop (p_obj p :: p_mids p) ->
    Forall curv_ok (p_obj p :: p_mids p) ->
    Forall (glass_ok resolve (p_gcat p)) (p_obj p :: p_mids p) ->
    plain_image (p_img p) ->
    load resolve (emit show showZ p) = Some (lens_of p).
  Proof.
    intros p Hf Hp Hos H1 Hc Hg Himg.
    unfold load, read_file, emit.
    rewrite read_head.
    rewrite <- (app_nil_r (emit_surfs 0 (all_surfs p))), read_blocks. cbn [read_lines].
    set (stF := fold_left step (all_surfs p) (head_state p)).
    destruct (steps_keep (all_surfs p) (head_state p)) as (Ka & Kt & Kx & Ky & Kw & Kp & Kg).
    fold stF in Ka, Kt, Kx, Ky, Kw, Kp, Kg.
    assert (Ks : r_surfs stF = map (data_of (p_gcat p)) (p_obj p :: p_mids p)).
    { unfold stF, all_surfs. cbn [fold_left]. rewrite fold_left_app. cbn [fold_left].
      set (st0 := step (head_state p) (p_obj p)).
      destruct (steps_surfs (p_mids p) st0) as [E Hi]; [cbn; lia|].
      set (stm := fold_left step (p_mids p) st0) in *.
      change (r_surfs (step stm (p_img p))) with (if (0 <=? r_idx stm)%Z then r_surfs stm ++ [r_cur stm] else r_surfs stm).
      apply Z.leb_le in Hi. rewrite Hi. rewrite E. reflexivity. }
    unfold finish_read. rewrite Ka, Kx, Ky, Kt, Kw, Kp, Ks.
    cbn [head_state r_ap r_fx r_fy r_ftype r_wdata r_wprim].
    destruct (canon_fields (map fst (p_fields p)) (map snd (p_fields p))) as [|f0 fs] eqn:Ecf.
    { exfalso. exact (canon_nonempty _ Hf Ecf). }
    rewrite <- Ecf. clear Ecf f0 fs.
    unfold convert. cbn [q_surfs q_ap q_ftype q_prim q_fields q_waves].
    (* the object surface, then the others *)
    inversion Hc as [|? ? Hc0 Hcm]; inversion Hg as [|? ? Hg0 Hgm]; subst.
    cbn [map conv_surfs]. destruct (conv_one (p_gcat p) (p_obj p) Hc0 Hg0) as [E1 E2]. rewrite E1, E2.
    change (d_thick (data_of (p_gcat p) (p_obj p))) with (Some (thick_of (p_obj p))). cbv iota.
    change (d_stop (data_of (p_gcat p) (p_obj p))) with (p_stop (p_obj p)).
    cbn [List.length vertex_z push_surf app].
    cbn [one_stop] in H1. rewrite Hos in H1.
    rewrite (conv_general (p_gcat p) (p_mids p)); [| discriminate | constructor; [reflexivity | constructor] | exact H1 | exact Hcm | exact Hgm].
    set (ss := [mkL (shape_of (p_obj p)) (neg (thick_of (p_obj p))) false (medium_of (p_obj p))] ++
               place (p_mids p) (List.length [mkL (shape_of (p_obj p)) (neg (thick_of (p_obj p))) false (medium_of (p_obj p))])
                 (last_z [mkL (shape_of (p_obj p)) (neg (thick_of (p_obj p))) false (medium_of (p_obj p))]) (thick_of (p_obj p))).
    assert (Ess : ss = place (p_obj p :: p_mids p) 0 (ofZ 0) (ofZ 0)).
    { unfold ss. cbn [place app List.length]. rewrite Hos. reflexivity. }
    rewrite push_nostop.
    assert (Eap : (ap_key (p_ap p) =? "EPD") || (ap_key (p_ap p) =? "imageFNO") || (ap_key (p_ap p) =? "objectNA") = true)
      by (destruct (p_ap p); reflexivity).
    rewrite Eap.
    assert (Epr : primary_of (List.length (p_waves p)) (p_prim p - 1) = (p_prim p - 1)%Z).
    { unfold primary_of.
      replace (0 <=? p_prim p - 1)%Z with true by (symmetry; apply Z.leb_le; lia).
      replace (p_prim p - 1 <? Z.of_nat (List.length (p_waves p)))%Z with true by (symmetry; apply Z.ltb_lt; lia).
      reflexivity. }
    rewrite Epr.
    unfold lens_of. f_equal. f_equal.
    - (* the surfaces *)
      unfold all_surfs. change (p_obj p :: p_mids p ++ [p_img p]) with ((p_obj p :: p_mids p) ++ [p_img p]).
      rewrite place_app. rewrite <- Ess. f_equal.
      destruct Himg as (Hi1 & Hi2 & Hi3 & Hi4).
      cbn [place]. unfold shape_of, medium_of. rewrite Hi1, Hi2, Hi3, Hi4.
      f_equal. f_equal.
      rewrite Ess at 1 2. rewrite place_length. cbn [List.length Nat.add].
      unfold vertex_z. destruct (p_mids p) as [|m ms] eqn:Em.
      + reflexivity.
      + cbn [List.length]. rewrite last_z_place by discriminate. reflexivity.
  Qed.
End Proofs.

(** ** the theorems, closed *)
Section Closed.
  Context {O : Ops}.
  Notation T := (T O).

  Theorem import_roundtrip : forall (show : T -> string) (showZ : Z -> string)
      (resolve : string -> option string -> bool) (p : @presc O),
    wf show resolve p -> load resolve (emit show showZ p) = Some (lens_of p).
  Proof.
    intros show showZ resolve p [Hs Hi Hf Hp Ho H1 Hc Hg Him].
    apply import_roundtrip_sec; assumption.
  Qed.

  (** consequently every paraxial quantity of the imported lens is that of the written numbers *)
  Theorem import_paraxial : forall (show : T -> string) (showZ : Z -> string)
      (resolve : string -> option string -> bool) (p : @presc O) (n : @lmedium O -> T) (l : @lens O),
    wf show resolve p -> load resolve (emit show showZ p) = Some l ->
    paraxial_ray n l = paraxial_ray n (lens_of p).
  Proof.
    intros show showZ resolve p n l Hw Hl. rewrite (import_roundtrip show showZ resolve p Hw) in Hl.
    inversion Hl. reflexivity.
  Qed.

  Lemma read_lines_app : forall resolve (a b : list (list (@tok O))) st,
    read_lines resolve (a ++ b) st
    = match read_lines resolve a st with Some st' => read_lines resolve b st' | None => None end.
  Proof.
    intros resolve. induction a as [|d a IH]; intros b st; cbn [app read_lines]; [reflexivity|].
    destruct (dispatch resolve d st); [apply IH | reflexivity].
  Qed.

  Lemma nthZ_1 : forall {A} (a b : A) l, nthZ (a :: b :: l) 1 = Some b.
  Proof.
    intros A a b l. unfold nthZ. change (1 <? 0)%Z with false. cbv iota.
    replace (Z.of_nat (List.length (a :: b :: l)) <=? 1)%Z with false
      by (symmetry; apply Z.leb_gt; cbn [List.length]; lia).
    reflexivity.
  Qed.

  Lemma dispatch_mode : forall resolve (m w : @tok O) more st,
    txt m = "MODE" -> (txt w =? "SEQ") = false -> dispatch resolve (m :: w :: more) st = None.
  Proof.
    intros resolve m w more st Hm Hw. unfold dispatch. rewrite Hm.
    repeat match goal with |- context [String.eqb "MODE" ?s] =>
      let b := eval vm_compute in (String.eqb "MODE" s) in change (String.eqb "MODE" s) with b end.
    cbv iota. unfold h_mode, getS, tokAt, bindE. rewrite nthZ_1, Hw. reflexivity.
  Qed.

  (** a MODE line that does not say SEQ makes the import fail, wherever it stands and whatever else the file holds *)
  Theorem nonsequential_rejected : forall resolve (pre post : list (list (@tok O))) (m w : @tok O) (more : list (@tok O)),
    txt m = "MODE" -> (txt w =? "SEQ") = false ->
    load resolve (pre ++ (m :: w :: more) :: post) = None.
  Proof.
    intros resolve pre post m w more Hm Hw. unfold load, read_file.
    rewrite read_lines_app. destruct (read_lines resolve pre init_state) as [st|]; [|reflexivity].
    cbn [read_lines]. rewrite (dispatch_mode resolve m w more st Hm Hw). reflexivity.
  Qed.

  Definition operands : list string :=
    ["FNUM"; "ENPD"; "OBNA"; "FLOA"; "FTYP"; "XFLN"; "YFLN"; "WAVM"; "PWAV"; "SURF"; "TYPE"; "PARM"; "CURV";
     "DISZ"; "CONI"; "GLAS"; "STOP"; "MODE"; "GCAT"].

  (** lines whose first word is not one of the 19 operands (and empty lines) change nothing *)
  Theorem unknown_operand_ignored : forall resolve (pre post : list (list (@tok O))) (d : list (@tok O)) st,
    match d with [] => True | t :: _ => existsb (String.eqb (txt t)) operands = false end ->
    read_lines resolve (pre ++ d :: post) st = read_lines resolve (pre ++ post) st.
  Proof.
    intros resolve pre post d st Hd. rewrite !read_lines_app.
    destruct (read_lines resolve pre st) as [st'|]; [|reflexivity].
    cbn [read_lines]. destruct d as [|t d]; [reflexivity|].
    unfold operands in Hd. cbn [existsb] in Hd.
    repeat (apply orb_false_elim in Hd; destruct Hd as [?H Hd]).
    unfold dispatch. repeat match goal with H : (txt t =? _) = false |- _ => rewrite H; clear H end. reflexivity.
  Qed.

  (** media: a name the catalogue lookup finds becomes that catalogue glass, any other name becomes the
      model glass with exactly the index and Abbe number written on the GLAS line *)
  Theorem glass_resolution : forall (resolve : string -> option string -> bool) name gcat (nd vd : T),
    (resolve name None = true -> resolve_glass resolve name gcat nd vd = MCat name None) /\
    (resolve name None = false ->
     match gcat with Some cs => Forall (fun m => resolve name (Some m) = false) cs | None => True end ->
     resolve_glass resolve name gcat nd vd = MAbbe nd vd).
  Proof.
    intros resolve name gcat nd vd. unfold resolve_glass. split.
    - intros H. rewrite H. reflexivity.
    - intros H Hc. rewrite H. destruct gcat as [cs|]; [|reflexivity].
      rewrite (try_catalogs_none resolve name cs Hc). reflexivity.
  Qed.
End Closed.

(** * C12: related theorems of L_C12_lists / L_C12_spot / L_C12_misc grouped into conjunctions
    (one Print Assumptions per group keeps the quick tier fast); nothing new is proved here. *)
From Coq Require Import String Reals ZArith List.
From OV Require Import Ops RInst Num.OpsC12 Gen.Analysis Model.M_C12 Spec.S_C12
  Lemmas.L_C12_lists Lemmas.L_C12_spot Lemmas.L_C12_misc.

Definition centroid_is_zero_first_moment := conj first_moment_mean first_moment_unique.
Definition nan_reductions_skip := fun O => conj (nanmean_skip O) (nanmax_skip O).
Definition reference_index_rule := conj reference_index_primary reference_index_absent.
Definition centroid_reference_rule := conj centroid_reference_primary (conj centroid_reference_first centroid_reference_total).
Definition ee_properties := conj ee_monotone (conj ee_bounded ee_total).
Definition op_rms_spot_is_rms_about_centroid := conj op_rms_spot_spec op_rms_spot_centroid.
Definition fan_samples_odd := conj rayfan_init_odd pupilab_init_odd.
Definition rayfan_reference_rule := conj rayfan_ref_primary (conj rayfan_ref_listed rayfan_field_total).
Definition invalid_type_raises := conj distortion_model_invalid_type grid_distortion_invalid_type.
Definition grid_distortion_angle_spec := conj grid_distortion_ftheta_spec grid_distortion_ftan_spec.
Definition fc_crossing := conj fc_tangential_crossing fc_sagittal_crossing.

(** C06, part 3: the closed-form stigmatic configurations, stated on the kernels regenerated from
    optiland/geometries/standard.py and optiland/rays/real_rays.py.
    Every theorem says: the traced ray passes through the predicted axial image point, and the optical
    path from the object (or the incoming plane wavefront) to that point does not depend on the ray. *)
From Coq Require Import Reals Lra Lia ZArith List Psatz.
From OV Require Import Ops RInst XR Gen.RealRays Gen.Standard Lemmas.L_RealRays Lemmas.L_Standard.
From OV Require Import Spec.S_C06 Lemmas.L_C06_kernels Lemmas.L_C06_geom.
Local Open Scope R_scope.

Ltac pair_eq H := injection H as ? ? ?; subst.

(** ** 1. paraboloid mirror (k = -1), object at infinity, either direction of travel, either sign of Rc *)
Section Paraboloid.
  Variables Rc sg x y z0 : R.
  Hypothesis HR : Rc <> 0.
  Hypothesis Hsg : sg = 1 \/ sg = -1.
  Let r2 := x*x + y*y.
  Let zs := r2 / (2*Rc).                       (* sag of the paraboloid *)
  Let t1 := sg * (zs - z0).                    (* entry plane z0 -> mirror *)
  Let s := - sg * (r2 + Rc*Rc) / (2*Rc).       (* mirror -> focus (signed) *)

  Lemma parab_rad : 1 - (1 + -1)*(x*x+y*y)/(Rc*Rc) = 1.
  Proof. field. assumption. Qed.

  Theorem paraboloid_stigmatic :
    (0 <= t1 ->       (* the mirror lies ahead of the entry plane: otherwise the kernel reports no intersection *)
     k_std_distance XOps (Fin (-1)) (Fin sg) (Fin 0) (Fin 0) (Fin z0) (Fin x) (Fin y) (Fin Rc) = Fin t1) /\
    on_vertex_sheet Rc (-1) x y zs /\
    (let '(nx, ny, nz) := k_std_normal ROps x y Rc (-1) in
     let '(L', M', N') := k_reflect ROps nx ny nz 0 0 sg in
     unit3 L' M' N' /\ through_axis_point x y zs L' M' N' s (Rc/2)) /\
    t1 + s = - sg * (z0 + Rc/2) /\
    (sg * Rc < 0 -> 0 < s).
  Proof.
    assert (Hs2 : sg*sg = 1) by (destruct Hsg; subst; ring).
    split; [intros Hahead; apply std_distance_paraboloid_axial; assumption|].
    split.
    { unfold on_vertex_sheet, on_conic. rewrite parab_rad, sqrt_1. unfold zs, r2. repeat split; [field; assumption|lra|ring]. }
    split.
    { assert (Hrad : 0 < 1 - (1 + -1)*(x*x+y*y)/(Rc*Rc)) by (rewrite parab_rad; lra).
      rewrite (std_normal_h x y Rc (-1)).
      rewrite (reflect_std_normal x y Rc (-1) 0 0 sg).
      rewrite parab_rad, sqrt_1. replace (Rc*1) with Rc by ring.
      assert (Hh : x / Rc * (x / Rc) + y / Rc * (y / Rc) + 1 <> 0) by nra.
      unfold unit3, through_axis_point, s, zs, r2. repeat split.
      - apply Rmult_eq_reg_l with ((x / Rc * (x / Rc) + y / Rc * (y / Rc) + 1)*(x / Rc * (x / Rc) + y / Rc * (y / Rc) + 1));
          [|apply Rmult_integral_contrapositive_currified; assumption].
        transitivity ((sg*sg) * ((x / Rc * (x / Rc) + y / Rc * (y / Rc) + 1)*(x / Rc * (x / Rc) + y / Rc * (y / Rc) + 1))); [field; repeat split; try assumption; try nra|].
        rewrite Hs2. ring.
      - transitivity (x - (sg*sg)*x); [field; repeat split; try assumption; try nra|rewrite Hs2; ring].
      - transitivity (y - (sg*sg)*y); [field; repeat split; try assumption; try nra|rewrite Hs2; ring].
      - transitivity ((x*x+y*y)/(2*Rc) - (sg*sg)*((x*x+y*y)/(2*Rc) - Rc/2)); [field; repeat split; try assumption; try nra|rewrite Hs2; field; assumption]. }
    split.
    { unfold t1, s, zs. field. assumption. }
    intros Hneg. unfold s.
    assert (0 < r2 + Rc*Rc) by (unfold r2; nra).
    destruct Hsg; subst sg.
    - assert (Rc < 0) by lra. replace (-(1)*(r2 + Rc*Rc)/(2*Rc)) with ((r2 + Rc*Rc) * / (2 * - Rc)) by (field; lra).
      apply Rmult_lt_0_compat; [assumption|apply Rinv_0_lt_compat; lra].
    - assert (0 < Rc) by lra. replace (- -1*(r2 + Rc*Rc)/(2*Rc)) with ((r2 + Rc*Rc) * / (2*Rc)) by (field; lra).
      apply Rmult_lt_0_compat; [assumption|apply Rinv_0_lt_compat; lra].
  Qed.
End Paraboloid.

(** ** 2. conic mirror between its geometric foci:  ellipsoid (0 < e^2 < 1), hyperboloid (1 < e^2),
    sphere about its centre (e = 0).  [e] may have either sign: e -> -e swaps the two foci.
    The ray leaves (tau = 1) or is aimed at (tau = -1: virtual object) the focus F1 = Rc/(1+e) and
    hits the vertex sheet of the conic at P; it then passes through F2 = Rc/(1-e). *)
Section ConicMirror.
  Variables Rc e x y z tau : R.
  Hypothesis He1 : 1 + e <> 0.
  Hypothesis He2 : 1 - e <> 0.
  Hypothesis Hsheet : on_vertex_sheet Rc (- (e*e)) x y z.
  Hypothesis Htau : tau = 1 \/ tau = -1.
  Let f1 := focus Rc e.
  Let f2 := focus Rc (- e).
  Let rho1 := e*z + f1.
  Let rho2 := f2 - e*z.
  Hypothesis H1 : rho1 <> 0.
  Hypothesis H2 : rho2 <> 0.
  (** incoming direction: tau (P - F1) / rho1 *)
  Let L := tau*x/rho1. Let M := tau*y/rho1. Let N := tau*(z - f1)/rho1.

  Lemma cm_f1 : f1 * (1 + e) = Rc. Proof. unfold f1, focus. field. assumption. Qed.
  Lemma cm_f2 : f2 * (1 - e) = Rc. Proof. unfold f2, focus. field. lra. Qed.
  Lemma cm_quadric : x*x + y*y + (1 - e*e)*(z*z) - 2*Rc*z = 0.
  Proof. destruct Hsheet as (Hq & _). unfold on_conic in Hq. lra. Qed.

  Theorem conic_mirror_stigmatic :
    (* the incoming ray is a unit vector and reaches P from F1 after tau*rho1 *)
    unit3 L M N /\ 0 + (tau*rho1)*L = x /\ 0 + (tau*rho1)*M = y /\ f1 + (tau*rho1)*N = z /\
    (* reflection at the kernel's normal sends it through F2 after tau*rho2 *)
    (let '(nx, ny, nz) := k_std_normal ROps x y Rc (- (e*e)) in
     let '(L', M', N') := k_reflect ROps nx ny nz L M N in
     unit3 L' M' N' /\ through_axis_point x y z L' M' N' (tau*rho2) f2) /\
    (* the total path does not depend on the ray *)
    (1 - e*e) * (tau*rho1 + tau*rho2) = tau * (2*Rc).
  Proof.
    assert (Ht2 : tau*tau = 1) by (destruct Htau; subst; ring).
    generalize cm_f1 cm_f2 cm_quadric; intros Hf1 Hf2 Hq.
    destruct Hsheet as (_ & Hrad & Hsh).
    assert (HR : Rc <> 0).
    { intro E. rewrite E in Hrad. unfold Rdiv in Hrad. rewrite Rmult_0_l, Rinv_0, Rmult_0_r in Hrad. 
      rewrite E in Hsh. rewrite Rmult_0_l in Hsh. generalize cm_f1; rewrite E; intros F.
      assert (f1 = 0) by (apply Rmult_eq_reg_r with (1+e); [lra|assumption]).
      assert (Z : (1 + - (e*e)) * z = 0) by lra.
      apply H1. unfold rho1. rewrite H. 
      assert (HH : (1-e)*((1+e)*z) = 0) by (rewrite <- Z; ring).
      apply Rmult_integral in HH. destruct HH as [HH|HH]; [lra|].
      apply Rmult_integral in HH. destruct HH as [HH|HH]; [lra|]. subst z.
      (* z = 0, so x = y = 0 and rho2 = f2 = 0 *) exfalso. apply H2. unfold rho2.
      generalize cm_f2; rewrite E; intros F2. 
      assert (f2 = 0) by (apply Rmult_eq_reg_r with (1-e); [lra|assumption]). rewrite H0. ring. }
    assert (Hq0 : Rc - (1 - e*e)*z <> 0).
    { replace (Rc - (1 - e*e)*z) with (Rc - (1 + - (e*e))*z) by ring. rewrite Hsh.
      apply Rmult_integral_contrapositive_currified; [assumption|]. apply Rgt_not_eq, sqrt_lt_R0, Hrad. }
    assert (D1 := dist_focus1 Rc e f1 f2 x y z Hf1 Hf2 Hq). fold rho1 in D1.
    assert (D2 := dist_focus2 Rc e f1 f2 x y z Hf1 Hf2 Hq). fold rho2 in D2.
    split.
    { unfold unit3, L, M, N.
      transitivity ((tau*tau) * (x*x + y*y + (z - f1)*(z - f1)) / (rho1*rho1)); [field; assumption|].
      rewrite Ht2, D1. field. assumption. }
    split; [unfold L; transitivity ((tau*tau)*x); [field; assumption|rewrite Ht2; ring]|].
    split; [unfold M; transitivity ((tau*tau)*y); [field; assumption|rewrite Ht2; ring]|].
    split; [unfold N; transitivity (f1 + (tau*tau)*(z - f1)); [field; assumption|rewrite Ht2; ring]|].
    split.
    { rewrite (std_normal_h x y Rc (- (e*e))).
      rewrite (reflect_std_normal x y Rc (- (e*e)) L M N).
      rewrite <- Hsh. replace (Rc - (1 + - (e*e))*z) with (Rc - (1 - e*e)*z) by ring.
      generalize (reflect_focus_kernel_form Rc e f1 f2 x y z Hf1 Hf2 Hq Hq0 H1 H2 tau Ht2).
      cbv zeta. fold rho1 rho2 L M N. intros E. injection E as E1 E2 E3. rewrite E1, E2, E3.
      unfold unit3, through_axis_point. repeat split.
      - transitivity ((tau*tau) * (x*x + y*y + (z - f2)*(z - f2)) / (rho2*rho2)); [field; assumption|].
        rewrite Ht2, D2. field. assumption.
      - transitivity (x - (tau*tau)*x); [field; assumption|rewrite Ht2; ring].
      - transitivity (y - (tau*tau)*y); [field; assumption|rewrite Ht2; ring].
      - transitivity (z + (tau*tau)*(f2 - z)); [field; assumption|rewrite Ht2; ring]. }
    generalize (focal_sum Rc e f1 f2 x y z Hf1 Hf2 Hq). fold rho1 rho2. intros F.
    transitivity (tau * ((1 - e*e)*(rho1 + rho2))); [ring|rewrite F; ring].
  Qed.
End ConicMirror.

(** ** 3. refracting conic with k = -(n1/n2)^2 (the curved face of the plano-hyperbolic singlet, n1 > n2;
    the ellipsoid that focuses inside the denser medium, n1 < n2): a ray parallel to the axis in medium n1
    is refracted through the far focus F = Rc / (1 - n1/n2), and n1 * (path in n1) + n2 * (path to F) is constant *)
Section ConicRefract.
  Variables Rc n1 n2 x y z sg z0 : R.
  Let u := n1 / n2.
  Hypothesis HR : Rc <> 0.
  Hypothesis Hn2 : n2 <> 0.
  Hypothesis Hu : 1 - u <> 0.
  Hypothesis Hsheet : on_vertex_sheet Rc (- (u*u)) x y z.
  Hypothesis Hsg : sg = 1 \/ sg = -1.
  Let f := focus Rc (- u).
  Let rho2 := f - u*z.
  Hypothesis H2 : rho2 <> 0.

  Theorem conic_refract_stigmatic :
    (let '(nx, ny, nz) := k_std_normal ROps x y Rc (- (u*u)) in
     let '(L', M', N') := k_refract ROps nx ny nz n1 n2 0 0 sg in
     (L', M', N') = (sg * (- x) / rho2, sg * (- y) / rho2, sg * (f - z) / rho2) /\
     unit3 L' M' N' /\ through_axis_point x y z L' M' N' (sg*rho2) f) /\
    n1 * (sg*(z - z0)) + n2 * (sg*rho2) = sg * (n2*f - n1*z0).
  Proof.
    assert (Hs2 : sg*sg = 1) by (destruct Hsg; subst; ring).
    assert (Hf2 : f * (1 - u) = Rc) by (unfold f, focus; field; lra).
    destruct Hsheet as (Hq & Hrad & Hsh). unfold on_conic in Hq.
    assert (Hq' : x*x + y*y + (1 - u*u)*(z*z) - 2*Rc*z = 0) by lra.
    set (q := Rc - (1 - u*u)*z).
    assert (Hqq : Rc * sqrt (1 - (1 + - (u*u))*(x*x+y*y)/(Rc*Rc)) = q) by (rewrite <- Hsh; unfold q; ring).
    assert (Hs0 : 0 < sqrt (1 - (1 + - (u*u))*(x*x+y*y)/(Rc*Rc))) by (apply sqrt_lt_R0, Hrad).
    assert (Hq0 : q <> 0) by (rewrite <- Hqq; apply Rmult_integral_contrapositive_currified; lra).
    assert (HRq : 0 < Rc / q).
    { rewrite <- Hqq. replace (Rc / (Rc * sqrt (1 - (1 + - (u*u))*(x*x+y*y)/(Rc*Rc))))
        with (/ sqrt (1 - (1 + - (u*u))*(x*x+y*y)/(Rc*Rc))) by (field; lra).
      apply Rinv_0_lt_compat, Hs0. }
    generalize (rtarget_unit Rc u f x y z sg Hf2 Hq' Hs2 H2).
    generalize (rtarget_snell Rc u f x y z sg Hf2 Hq' Hs2 H2).
    generalize (rtarget_dot_grad Rc u f x y z sg Hf2 Hq' Hs2 H2).
    fold rho2. fold q.
    set (tx := sg * (- x) / rho2). set (ty := sg * (- y) / rho2). set (tz := sg * (f - z) / rho2).
    intros Hdg (Sx & Sy & Sz) Hunit.
    split.
    2:{ unfold rho2. transitivity (sg * (n2*f - n1*z0) + sg*z*(n1 - n2*u)); [ring|].
        replace (n2*u) with n1 by (unfold u; field; assumption). ring. }
    rewrite (std_normal_h x y Rc (- (u*u))). rewrite Hqq.
    set (hx := x / q). set (hy := y / q). set (hh := hx*hx + hy*hy + 1).
    assert (Hhh : 0 < hh) by (unfold hh; nra).
    assert (Hm : sqrt hh * sqrt hh = hh) by (apply sqrt_sqrt; lra).
    assert (Hm0 : 0 < sqrt hh) by (apply sqrt_lt_R0; assumption).
    set (m := sqrt hh) in *.
    assert (Hx : x = q * hx) by (unfold hx; field; assumption).
    assert (Hy : y = q * hy) by (unfold hy; field; assumption).
    assert (RC : k_refract ROps (hx / m) (hy / m) (-1 / m) n1 n2 0 0 sg = (tx, ty, tz)).
    { apply (refract_char (hx / m) (hy / m) (-1 / m) n1 n2 0 0 sg tx ty tz (- sg / rho2 * q * m)).
      - rewrite Hs2; ring.
      - transitivity (hh / (m*m)); [unfold hh; field; lra|rewrite Hm; field; lra].
      - exact Hunit.
      - fold u. rewrite Sx. rewrite Hx at 1. field. split; [lra|assumption].
      - fold u. rewrite Sy. rewrite Hy at 1. field. split; [lra|assumption].
      - fold u. rewrite Sz. field. split; [lra|assumption].
      - replace ((tx * (hx / m) + ty * (hy / m) + tz * (-1 / m)) * (0 * (hx / m) + 0 * (hy / m) + sg * (-1 / m)))
          with ((tx*(q*hx) + ty*(q*hy) + tz*(- q)) * (- sg) / (q * (m*m))) by (field; split; [lra|assumption]).
        rewrite <- Hx, <- Hy, Hdg, Hm.
        replace (- sg * Rc * - sg / (q * hh)) with ((sg*sg) * (Rc / q) * / hh) by (field; split; [lra|assumption]).
        rewrite Hs2. apply Rmult_lt_0_compat; [lra|apply Rinv_0_lt_compat; assumption]. }
    rewrite RC. split; [reflexivity|]. split; [exact Hunit|].
    unfold through_axis_point, tx, ty, tz. repeat split.
    - transitivity (x - (sg*sg)*x); [field; assumption|rewrite Hs2; ring].
    - transitivity (y - (sg*sg)*y); [field; assumption|rewrite Hs2; ring].
    - transitivity (z + (sg*sg)*(f - z)); [field; assumption|rewrite Hs2; ring].
  Qed.
End ConicRefract.

(** ** 4. aplanatic points of a spherical surface between media n1 | n2.
    The ray is aimed at (tau = 1, virtual object) or comes from (tau = -1) the point O at
    Rc (n1+n2)/n1 from the vertex; after refraction its line passes through O' at Rc (n1+n2)/n2,
    and  n2 |PO'| - n1 |PO| = 0  for every point P of the sphere (equal optical paths). *)
Section AplanaticSphere.
  Variables Rc n1 n2 x y z tau : R.
  Hypothesis HR : Rc <> 0.
  Hypothesis Hn1 : 0 < n1.
  Hypothesis Hn2 : 0 < n2.
  Hypothesis Hsheet : on_vertex_sheet Rc 0 x y z.
  Hypothesis Htau : tau = 1 \/ tau = -1.
  Let o := aplanatic_object Rc n1 n2.
  Let o' := aplanatic_image Rc n1 n2.
  Let D := sqrt (x*x + y*y + (z - o)*(z - o)).
  Let D' := sqrt (x*x + y*y + (z - o')*(z - o')).
  Hypothesis HP : 0 < x*x + y*y + (z - o')*(z - o').       (* P is not the image point itself *)
  Hypothesis Hside : 0 < (z - o) * (z - o').               (* P lies before (or beyond) both conjugates *)
  (** incoming direction tau (O - P)/|PO| *)
  Let L := tau * (0 - x) / D. Let M := tau * (0 - y) / D. Let N := tau * (o - z) / D.

  Theorem aplanatic_stigmatic :
    D = n2 / n1 * D' /\ n2 * D' - n1 * D = 0 /\
    unit3 L M N /\
    (let '(nx, ny, nz) := k_std_normal ROps x y Rc 0 in
     let '(L', M', N') := k_refract ROps nx ny nz n1 n2 L M N in
     (L', M', N') = (tau * (0 - x) / D', tau * (0 - y) / D', tau * (o' - z) / D') /\
     unit3 L' M' N' /\ through_axis_point x y z L' M' N' (tau * D') o').
  Proof.
    assert (Ht2 : tau*tau = 1) by (destruct Htau; subst; ring).
    set (mu := n2 / n1).
    assert (Hmu : 0 < mu) by (unfold mu; apply Rdiv_lt_0_compat; assumption).
    assert (Hmu0 : mu <> 0) by lra.
    assert (Eo : o = Rc * (1 + mu)) by (unfold o, aplanatic_object, mu; field; lra).
    assert (Eo' : o' = Rc * (1 + / mu)) by (unfold o', aplanatic_image, mu; field; split; lra).
    destruct Hsheet as (Hq & Hrad & Hsh). unfold on_conic in Hq.
    assert (Hq' : x*x + y*y + z*z - 2*Rc*z = 0) by lra.
    assert (HD' : 0 < D') by (apply sqrt_lt_R0; assumption).
    assert (HD'2 : D' * D' = x*x + y*y + (z - o')*(z - o')) by (apply sqrt_sqrt; lra).
    assert (HA : x*x + y*y + (z - o)*(z - o) = (mu*D')*(mu*D')).
    { rewrite Eo. rewrite (apollonius Rc mu x y z Hmu0 Hq'). rewrite <- Eo'.
      transitivity (mu*mu*(D'*D')); [rewrite HD'2; reflexivity|ring]. }
    assert (HD : D = mu * D').
    { unfold D. rewrite HA. apply sqrt_square. apply Rmult_le_pos; lra. }
    split; [exact HD|].
    split; [rewrite HD; unfold mu; field; lra|].
    assert (HDpos : 0 < D) by (rewrite HD; apply Rmult_lt_0_compat; assumption).
    assert (HD2 : D * D = x*x + y*y + (z - o)*(z - o)) by (rewrite HA, HD; ring).
    assert (HU : unit3 L M N).
    { unfold unit3, L, M, N.
      transitivity ((tau*tau) * (x*x + y*y + (z - o)*(z - o)) / (D*D)); [field; lra|].
      rewrite Ht2, <- HD2. field. lra. }
    split; [exact HU|].
    set (q := Rc - z).
    assert (Hqq : Rc * sqrt (1 - (1 + 0)*(x*x+y*y)/(Rc*Rc)) = q) by (rewrite <- Hsh; unfold q; ring).
    assert (Hs0 : 0 < sqrt (1 - (1 + 0)*(x*x+y*y)/(Rc*Rc))) by (apply sqrt_lt_R0, Hrad).
    assert (Hq0 : q <> 0) by (rewrite <- Hqq; apply Rmult_integral_contrapositive_currified; lra).
    rewrite (std_normal_h x y Rc 0). rewrite Hqq.
    set (hx := x / q). set (hy := y / q). set (hh := hx*hx + hy*hy + 1).
    assert (Hhh : 0 < hh) by (unfold hh; nra).
    assert (Hm : sqrt hh * sqrt hh = hh) by (apply sqrt_sqrt; lra).
    assert (Hm0 : 0 < sqrt hh) by (apply sqrt_lt_R0; assumption).
    set (m := sqrt hh) in *.
    assert (Hx : x = q * hx) by (unfold hx; field; assumption).
    assert (Hy : y = q * hy) by (unfold hy; field; assumption).
    set (tx := tau * (0 - x) / D'). set (ty := tau * (0 - y) / D'). set (tz := tau * (o' - z) / D').
    assert (HUt : tx*tx + ty*ty + tz*tz = 1).
    { unfold tx, ty, tz.
      transitivity ((tau*tau) * (x*x + y*y + (z - o')*(z - o')) / (D'*D')); [field; lra|].
      rewrite Ht2, <- HD'2. field. lra. }
    generalize (aplanatic_snell_z Rc mu z Hmu0) (aplanatic_dot_O Rc mu x y z Hmu0 Hq')
               (aplanatic_dot_O' Rc mu x y z Hmu0 Hq').
    rewrite <- Eo, <- Eo'. intros Sz DO DO'.
    assert (Eu : n1 / n2 = / mu) by (unfold mu; field; split; lra).
    assert (RC : k_refract ROps (hx / m) (hy / m) (-1 / m) n1 n2 L M N = (tx, ty, tz)).
    { apply (refract_char (hx / m) (hy / m) (-1 / m) n1 n2 L M N tx ty tz (- tau * (1 - / (mu*mu)) * q * m / D')).
      - exact HU.
      - transitivity (hh / (m*m)); [unfold hh; field; lra|rewrite Hm; field; lra].
      - exact HUt.
      - rewrite Eu. unfold tx, L. rewrite HD. rewrite Hx at 1 2. field. repeat split; lra.
      - rewrite Eu. unfold ty, M. rewrite HD. rewrite Hy at 1 2. field. repeat split; lra.
      - rewrite Eu. unfold tz, N. rewrite HD.
        transitivity (tau / D' * ((o' - z) - / (mu*mu) * (o - z)) + / mu * (tau * (o - z) / (mu*D'))); [field; split; lra|].
        rewrite Sz. unfold q. field. repeat split; lra.
      - replace ((tx * (hx / m) + ty * (hy / m) + tz * (-1 / m)) * (L * (hx / m) + M * (hy / m) + N * (-1 / m)))
          with ((tau*tau) * (((0 - x)*(q*hx) + (0 - y)*(q*hy) + (o' - z)*(- q)) * ((0 - x)*(q*hx) + (0 - y)*(q*hy) + (o - z)*(- q)))
                / (D' * D * (q*q) * (m*m))) by (unfold tx, ty, tz, L, M, N; field; repeat split; lra).
        rewrite <- Hx, <- Hy. replace (- q) with (z - Rc) by (unfold q; ring).
        rewrite DO, DO', Ht2, Hm.
        replace (1 * (Rc * / mu * (z - o) * (Rc * mu * (z - o'))) / (D' * D * (q*q) * hh))
          with ((Rc*Rc) * ((z - o)*(z - o')) * / (D' * D * (q*q) * hh)) by (field; repeat split; lra).
        apply Rmult_lt_0_compat; [apply Rmult_lt_0_compat; [nra|assumption]|].
        assert (Hqq2 : 0 < q*q) by nra.
        apply Rinv_0_lt_compat. apply Rmult_lt_0_compat; [apply Rmult_lt_0_compat; [apply Rmult_lt_0_compat|]|]; assumption. }
    rewrite RC. split; [reflexivity|]. split; [exact HUt|].
    unfold through_axis_point, tx, ty, tz. repeat split.
    - transitivity (x - (tau*tau)*x); [field; lra|rewrite Ht2; ring].
    - transitivity (y - (tau*tau)*y); [field; lra|rewrite Ht2; ring].
    - transitivity (z + (tau*tau)*(o' - z)); [field; lra|rewrite Ht2; ring].
  Qed.
End AplanaticSphere.

(** ** 5. a spherical surface and its own centre of curvature: a ray along a radius (leaving the centre,
    w = +-|Rc| > 0 ... or aimed at it) meets the sphere at  P = C + w d  with the normal along the ray;
    a mirror sends it back on itself, a refracting surface leaves it undeviated. *)
Section SphereCentre.
  Variables Rc L M N w : R.
  Hypothesis HR : Rc <> 0.
  Hypothesis Hd : L*L + M*M + N*N = 1.
  Hypothesis Hw : w*w = Rc*Rc.
  Hypothesis Hside : w * N * Rc < 0.           (* P is on the vertex side of the centre *)
  Let px := 0 + w*L. Let py := 0 + w*M. Let pz := Rc + w*N.

  Lemma sc_N : N <> 0. Proof. intro E; rewrite E in Hside; lra. Qed.
  Lemma sc_w : w <> 0. Proof. intro E; rewrite E in Hside; lra. Qed.

  Lemma sc_rad : 1 - (1 + 0)*(px*px + py*py)/(Rc*Rc) = N*N.
  Proof.
    unfold px, py. transitivity (1 - (w*w)*(L*L + M*M)/(Rc*Rc)); [field; assumption|].
    rewrite Hw. replace (L*L + M*M) with (1 - N*N) by lra. field. assumption.
  Qed.

  Lemma sc_sheet : on_vertex_sheet Rc 0 px py pz.
  Proof.
    generalize sc_N; intros HN.
    unfold on_vertex_sheet. rewrite sc_rad. repeat split.
    - unfold on_conic, px, py, pz.
      transitivity ((w*w)*(L*L + M*M + N*N) - Rc*Rc); [ring|rewrite Hw, Hd; ring].
    - nra.
    - unfold pz. fold (Rsqr N). rewrite sqrt_Rsqr_abs.
      destruct (Rcase_abs N) as [Hn|Hn].
      + rewrite Rabs_left by assumption. assert (0 < w*Rc) by nra.
        assert (w = Rc) by nra. subst w. ring.
      + assert (0 < N) by lra. rewrite Rabs_right by lra. assert (w*Rc < 0) by nra.
        assert (w = - Rc) by nra. subst w. ring.
  Qed.

  Let kap := - Rabs N / N.
  Lemma sc_kap2 : kap*kap = 1.
  Proof.
    generalize sc_N; intros HN. unfold kap.
    transitivity ((Rabs N * Rabs N) / (N*N)); [field; assumption|].
    rewrite <- Rabs_mult, Rabs_right by nra. field. assumption.
  Qed.

  (** the kernel's normal at P is along the ray *)
  Lemma sc_normal : k_std_normal ROps px py Rc 0 = (kap*L, kap*M, kap*N).
  Proof.
    generalize sc_N sc_w; intros HN Hw0.
    destruct sc_sheet as (_ & _ & Hsh).
    rewrite (std_normal_h px py Rc 0). rewrite <- Hsh.
    replace (Rc - (1 + 0)*pz) with (- (w*N)) by (unfold pz; ring).
    assert (Hhh : px / - (w*N) * (px / - (w*N)) + py / - (w*N) * (py / - (w*N)) + 1 = (/ Rabs N)*(/ Rabs N)).
    { unfold px, py. transitivity ((L*L + M*M + N*N) / (N*N)); [field; split; assumption|].
      rewrite Hd. rewrite <- Rinv_mult. rewrite <- Rabs_mult, Rabs_right by nra. field. assumption. }
    rewrite Hhh. rewrite sqrt_square by (left; apply Rinv_0_lt_compat, Rabs_pos_lt; assumption).
    assert (HA : Rabs N <> 0) by (apply Rabs_no_R0; assumption).
    unfold kap, px, py. f_equal; [f_equal|]; field; repeat split; assumption.
  Qed.

  Theorem sphere_centre_mirror :
    on_vertex_sheet Rc 0 px py pz /\
    (let '(nx, ny, nz) := k_std_normal ROps px py Rc 0 in
     k_reflect ROps nx ny nz L M N = (- L, - M, - N)) /\
    through_axis_point px py pz (- L) (- M) (- N) w Rc.
  Proof.
    split; [exact sc_sheet|]. split.
    - rewrite sc_normal.
      generalize (reflect_components (kap*L) (kap*M) (kap*N) L M N).
      destruct (k_reflect ROps _ _ _ L M N) as [[a b] c]. cbn [fst snd]. intros (-> & -> & ->).
      assert (E : L*(kap*L) + M*(kap*M) + N*(kap*N) = kap) by (transitivity (kap*(L*L+M*M+N*N)); [ring|rewrite Hd; ring]).
      rewrite E. generalize sc_kap2; intros K.
      f_equal; [f_equal|].
      + transitivity (L - 2*(kap*kap)*L); [ring|rewrite K; ring].
      + transitivity (M - 2*(kap*kap)*M); [ring|rewrite K; ring].
      + transitivity (N - 2*(kap*kap)*N); [ring|rewrite K; ring].
    - unfold through_axis_point, px, py, pz. repeat split; ring.
  Qed.

  Theorem sphere_centre_refract n1 n2 :
    n2 <> 0 ->
    let '(nx, ny, nz) := k_std_normal ROps px py Rc 0 in
    k_refract ROps nx ny nz n1 n2 L M N = (L, M, N).
  Proof.
    intros Hn2. rewrite sc_normal. generalize sc_kap2; intros K.
    apply (refract_char (kap*L) (kap*M) (kap*N) n1 n2 L M N L M N ((1 - n1/n2)*kap)).
    - exact Hd.
    - transitivity ((kap*kap)*(L*L+M*M+N*N)); [ring|rewrite K, Hd; ring].
    - exact Hd.
    - transitivity (n1/n2*L + (1 - n1/n2)*(kap*kap)*L); [rewrite K; ring|ring].
    - transitivity (n1/n2*M + (1 - n1/n2)*(kap*kap)*M); [rewrite K; ring|ring].
    - transitivity (n1/n2*N + (1 - n1/n2)*(kap*kap)*N); [rewrite K; ring|ring].
    - replace ((L*(kap*L) + M*(kap*M) + N*(kap*N)) * (L*(kap*L) + M*(kap*M) + N*(kap*N)))
        with ((kap*kap)*((L*L+M*M+N*N)*(L*L+M*M+N*N))) by ring.
      rewrite K, Hd. lra.
  Qed.
End SphereCentre.

(** the exact hit: a ray leaving the centre of curvature towards the vertex side meets the sphere after |Rc|,
    on the vertex sheet, and a mirror returns it to the centre after another |Rc| (total path 2 |Rc|) *)
Theorem sphere_centre_mirror_trace Rc L M N :
  Rc <> 0 -> L*L + M*M + N*N = 1 -> N * Rc < 0 ->
  k_std_distance XOps (Fin 0) (Fin N) (Fin L) (Fin M) (Fin Rc) (Fin 0) (Fin 0) (Fin Rc) = Fin (Rabs Rc) /\
  let px := 0 + Rabs Rc * L in let py := 0 + Rabs Rc * M in let pz := Rc + Rabs Rc * N in
  on_vertex_sheet Rc 0 px py pz /\
  (let '(nx, ny, nz) := k_std_normal ROps px py Rc 0 in k_reflect ROps nx ny nz L M N = (- L, - M, - N)) /\
  through_axis_point px py pz (- L) (- M) (- N) (Rabs Rc) Rc /\ Rabs Rc + Rabs Rc = 2 * Rabs Rc.
Proof.
  intros HR Hd Hs.
  assert (HN : N <> 0) by (intro E; rewrite E in Hs; lra).
  split; [apply std_distance_from_centre; assumption|].
  assert (Hw : Rabs Rc * Rabs Rc = Rc*Rc) by (rewrite <- Rabs_mult, Rabs_right; [reflexivity|nra]).
  assert (Hside : Rabs Rc * N * Rc < 0).
  { assert (0 < Rabs Rc) by (apply Rabs_pos_lt; assumption). 
    replace (Rabs Rc * N * Rc) with (Rabs Rc * (N * Rc)) by ring. nra. }
  destruct (sphere_centre_mirror Rc L M N (Rabs Rc) HR Hd Hw Hside) as (A & B & C).
  cbv zeta. split; [exact A|]. split; [exact B|]. split; [exact C|ring].
Qed.

(** ** the hypotheses are satisfiable (the vertex of each surface is a witness) *)
Lemma vertex_on_sheet Rc k : Rc <> 0 -> on_vertex_sheet Rc k 0 0 0.
Proof.
  intros HR. unfold on_vertex_sheet, on_conic.
  replace (1 - (1 + k) * (0*0 + 0*0) / (Rc*Rc)) with 1 by (field; assumption).
  rewrite sqrt_1. repeat split; try ring. lra.
Qed.
Ltac hyps_tac := repeat match goal with |- on_vertex_sheet _ _ _ _ _ => apply vertex_on_sheet; lra | |- _ /\ _ => split | |- _ <> _ => (lra || (let H := fresh in intro H; field_simplify in H; lra)) | |- _ => (lra || (field; lra)) end.
Example conic_mirror_hyps :   (* ellipsoid Rc = -80, k = -1/4: foci at -160/3 and -160 *)
  let Rc := -80 in let e := / 2 in
  1 + e <> 0 /\ 1 - e <> 0 /\ on_vertex_sheet Rc (- (e*e)) 0 0 0 /\
  e*0 + focus Rc e <> 0 /\ focus Rc (- e) - e*0 <> 0.
Proof. cbv zeta. unfold focus. hyps_tac. Qed.
Example hyperboloid_mirror_hyps :   (* Rc = -90, k = -4 (the Cassegrain secondary of the system check) *)
  let Rc := -90 in let e := 2 in
  1 + e <> 0 /\ 1 - e <> 0 /\ on_vertex_sheet Rc (- (e*e)) 0 0 0 /\
  e*0 + focus Rc e <> 0 /\ focus Rc (- e) - e*0 <> 0.
Proof. cbv zeta. unfold focus. replace (1 + - (2)) with (-1) by ring. hyps_tac. Qed.
Example conic_refract_hyps :  (* plano-hyperbolic singlet n = 3/2, Rc = -50: focus 100 behind the vertex *)
  let Rc := -50 in let n1 := 3/2 in let n2 := 1 in
  Rc <> 0 /\ n2 <> 0 /\ 1 - n1/n2 <> 0 /\ on_vertex_sheet Rc (- (n1/n2*(n1/n2))) 0 0 0 /\
  focus Rc (- (n1/n2)) - n1/n2*0 <> 0 /\ focus Rc (- (n1/n2)) = 100.
Proof. cbv zeta. unfold focus. hyps_tac. Qed.
Example aplanatic_hyps :      (* Rc = 10, air -> n = 2: aimed at z = 30, imaged at z = 15 *)
  let Rc := 10 in let n1 := 1 in let n2 := 2 in
  on_vertex_sheet Rc 0 0 0 0 /\ aplanatic_object Rc n1 n2 = 30 /\ aplanatic_image Rc n1 n2 = 15 /\
  0 < 0*0 + 0*0 + (0 - aplanatic_image Rc n1 n2)*(0 - aplanatic_image Rc n1 n2) /\
  0 < (0 - aplanatic_object Rc n1 n2) * (0 - aplanatic_image Rc n1 n2).
Proof.
  cbv zeta. unfold aplanatic_object, aplanatic_image. hyps_tac.
Qed.
Example sphere_centre_hyps : let Rc := -80 in let w := 80 in
  Rc <> 0 /\ 0*0 + 0*0 + 1*1 = 1 /\ w*w = Rc*Rc /\ w * 1 * Rc < 0.
Proof. cbv zeta. repeat split; lra. Qed.

(** ** 2'. the same, with the hit point delivered by the distance kernel itself: since the kernel discards roots off
    the vertex sheet (conic_distance_sound_sheet), "the hit lies on the vertex sheet" is no longer a hypothesis.
    Covers the convex hyperboloid with the object at its far focus and a virtual image (hyperboloid_far). *)
Section FromFocus.
  Variables Rc e L M N t : R.
  Hypothesis HR : Rc <> 0.
  Hypothesis He1 : 1 + e <> 0.
  Hypothesis He2 : 1 - e <> 0.
  Hypothesis Hd : L*L + M*M + N*N = 1.
  Hypothesis Ha : - (e*e) * (N*N) + L*L + M*M + N*N <> 0.       (* not along an asymptote direction *)
  Let f1 := focus Rc e.
  Let f2 := focus Rc (- e).
  Hypothesis Hdist :
    k_std_distance XOps (Fin (- (e*e))) (Fin N) (Fin L) (Fin M) (Fin f1) (Fin 0) (Fin 0) (Fin Rc) = Fin t.
  Let px := 0 + t*L. Let py := 0 + t*M. Let pz := f1 + t*N.
  Hypothesis Hrad : 1 - (1 + - (e*e)) * (px*px + py*py) / (Rc*Rc) <> 0.   (* not on the equator of an ellipsoid *)
  Let rho1 := e*pz + f1.
  Let rho2 := f2 - e*pz.
  Hypothesis H1 : rho1 <> 0.
  Hypothesis H2 : rho2 <> 0.

  Theorem conic_mirror_from_focus :
    on_vertex_sheet Rc (- (e*e)) px py pz /\ 0 <= t /\
    exists tau, (tau = 1 \/ tau = -1) /\ t = tau * rho1 /\
      (let '(nx, ny, nz) := k_std_normal ROps px py Rc (- (e*e)) in
       let '(L', M', N') := k_reflect ROps nx ny nz L M N in
       unit3 L' M' N' /\ through_axis_point px py pz L' M' N' (tau*rho2) f2) /\
      (1 - e*e) * (t + tau*rho2) = tau * (2*Rc).
  Proof.
    destruct (conic_distance_sound_sheet _ _ _ _ _ _ _ _ _ Hdist) as (Hq & Hfs).
    destruct (Hfs Ha) as (Ht & Hsh). fold px py pz in Hq, Hsh.
    destruct (sheet_is_sag_sheet px py pz Rc (- (e*e)) HR Hq Hsh) as (Hr0 & Hsag).
    assert (Hsheet : on_vertex_sheet Rc (- (e*e)) px py pz).
    { unfold on_vertex_sheet, on_conic. unfold quadric in Hq. repeat split; [lra|lra|exact Hsag]. }
    split; [exact Hsheet|]. split; [exact Ht|].
    assert (Hf1 : f1 * (1 + e) = Rc) by (unfold f1, focus; field; assumption).
    assert (Hf2 : f2 * (1 - e) = Rc) by (unfold f2, focus; field; lra).
    assert (Hq' : px*px + py*py + (1 - e*e)*(pz*pz) - 2*Rc*pz = 0) by (unfold quadric in Hq; lra).
    assert (D1 := dist_focus1 Rc e f1 f2 px py pz Hf1 Hf2 Hq'). fold rho1 in D1.
    assert (Ht2 : rho1*rho1 = t*t).
    { rewrite <- D1. unfold px, py, pz. transitivity (t*t*(L*L+M*M+N*N)); [ring|rewrite Hd; ring]. }
    assert (Ht0 : t <> 0) by (intro E; rewrite E in Ht2; apply H1; nra).
    assert (Hcase : rho1 = t \/ rho1 = - t) by (assert ((rho1 - t)*(rho1 + t) = 0) by nra; nra).
    set (tau := if Req_EM_T rho1 t then 1 else -1).
    assert (Htau : tau = 1 \/ tau = -1) by (unfold tau; destruct (Req_EM_T rho1 t); auto).
    assert (Et : t = tau * rho1).
    { unfold tau. destruct (Req_EM_T rho1 t) as [E|E]; [lra|]. destruct Hcase; [contradiction|lra]. }
    exists tau. split; [exact Htau|]. split; [exact Et|].
    assert (Ht2' : tau*tau = 1) by (destruct Htau as [-> | ->]; ring).
    generalize (conic_mirror_stigmatic Rc e px py pz tau He1 He2 Hsheet Htau H1 H2).
    fold f1 f2. fold rho1 rho2.
    assert (Ex : forall v, tau * (t * v) / rho1 = v).
    { intros v. rewrite Et at 1. transitivity ((tau*tau)*v); [field; assumption|rewrite Ht2'; ring]. }
    replace (tau * px / rho1) with L by (unfold px; rewrite <- (Ex L) at 1; f_equal; ring).
    replace (tau * py / rho1) with M by (unfold py; rewrite <- (Ex M) at 1; f_equal; ring).
    replace (tau * (pz - f1) / rho1) with N by (unfold pz; rewrite <- (Ex N) at 1; f_equal; ring).
    intros (_ & _ & _ & _ & Hrefl & Hsum). split; [exact Hrefl|].
    rewrite Et. rewrite <- Hsum. ring.
  Qed.
End FromFocus.

(** the hypotheses are satisfiable: the regression input of finding conic-wrong-sheet (e = -3/2 puts f1 at the far focus) *)
Example conic_mirror_from_focus_hyps :
  let Rc := 11 in let e := - (3/2) in let t := 55 in
  k_std_distance XOps (Fin (- (e*e))) (Fin (4/5)) (Fin 0) (Fin (3/5)) (Fin (focus Rc e)) (Fin 0) (Fin 0) (Fin Rc) = Fin t /\
  - (e*e) * (4/5*(4/5)) + 0*0 + 3/5*(3/5) + 4/5*(4/5) <> 0 /\
  e * (focus Rc e + t*(4/5)) + focus Rc e <> 0 /\ focus Rc (- e) - e * (focus Rc e + t*(4/5)) <> 0.
Proof.
  cbv zeta. unfold focus.
  replace (- (- (3/2) * - (3/2))) with (-9/4) by field.
  replace (11 / (1 + - (3/2))) with (-22) by field.
  replace (11 / (1 + - - (3/2))) with (22/5) by field.
  split; [exact std_distance_far_focus_regression|]. repeat split; lra.
Qed.

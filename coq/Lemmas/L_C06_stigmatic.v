(** C06, part 3: the closed-form stigmatic configurations, stated on the kernels regenerated from
    optiland/geometries/standard.py and optiland/rays/real_rays.py.
    Every theorem says: the traced ray passes through the predicted axial image point, and the optical
    path from the object (or the incoming plane wavefront) to that point does not depend on the ray. *)
From Coq Require Import Reals Lra Lia ZArith List Psatz.
From OV Require Import Ops RInst XR Gen.RealRays Gen.Standard Lemmas.L_RealRays Lemmas.L_Standard.
From OV Require Import Spec.S_C06 Lemmas.L_C06_kernels Lemmas.L_C06_geom.
Local Open Scope R_scope.

Ltac pair_eq H := injection H as ? ? ?; subst.

(** ** 1. paraboloid mirror (k = -1), object at infinity, either direction of travel, either sign of Rc *)
Section Paraboloid.
  Variables Rc sg x y z0 : R.
  Hypothesis HR : Rc <> 0.
  Hypothesis Hsg : sg = 1 \/ sg = -1.
  Let r2 := x*x + y*y.
  Let zs := r2 / (2*Rc).                       (* sag of the paraboloid *)
  Let t1 := sg * (zs - z0).                    (* entry plane z0 -> mirror *)
  Let s := - sg * (r2 + Rc*Rc) / (2*Rc).       (* mirror -> focus (signed) *)

  Lemma parab_rad : 1 - (1 + -1)*(x*x+y*y)/(Rc*Rc) = 1.
  Proof. field. assumption. Qed.

  Theorem paraboloid_stigmatic :
    k_std_distance XOps (Fin (-1)) (Fin sg) (Fin 0) (Fin 0) (Fin z0) (Fin x) (Fin y) (Fin Rc) = Fin t1 /\
    on_vertex_sheet Rc (-1) x y zs /\
    (let '(nx, ny, nz) := k_std_normal ROps x y Rc (-1) in
     let '(L', M', N') := k_reflect ROps nx ny nz 0 0 sg in
     unit3 L' M' N' /\ through_axis_point x y zs L' M' N' s (Rc/2)) /\
    t1 + s = - sg * (z0 + Rc/2) /\
    (sg * Rc < 0 -> 0 < s).
  Proof.
    assert (Hs2 : sg*sg = 1) by (destruct Hsg; subst; ring).
    split; [apply std_distance_paraboloid_axial; assumption|].
    split.
    { unfold on_vertex_sheet, on_conic. rewrite parab_rad, sqrt_1. unfold zs, r2. repeat split; [field; assumption|lra|ring]. }
    split.
    { assert (Hrad : 0 < 1 - (1 + -1)*(x*x+y*y)/(Rc*Rc)) by (rewrite parab_rad; lra).
      rewrite (std_normal_h x y Rc (-1)).
      rewrite (reflect_std_normal x y Rc (-1) 0 0 sg).
      rewrite parab_rad, sqrt_1. replace (Rc*1) with Rc by ring.
      assert (Hh : x / Rc * (x / Rc) + y / Rc * (y / Rc) + 1 <> 0) by nra.
      unfold unit3, through_axis_point, s, zs, r2. repeat split.
      - apply Rmult_eq_reg_l with ((x / Rc * (x / Rc) + y / Rc * (y / Rc) + 1)*(x / Rc * (x / Rc) + y / Rc * (y / Rc) + 1));
          [|apply Rmult_integral_contrapositive_currified; assumption].
        transitivity ((sg*sg) * ((x / Rc * (x / Rc) + y / Rc * (y / Rc) + 1)*(x / Rc * (x / Rc) + y / Rc * (y / Rc) + 1))); [field; repeat split; try assumption; try nra|].
        rewrite Hs2. ring.
      - transitivity (x - (sg*sg)*x); [field; repeat split; try assumption; try nra|rewrite Hs2; ring].
      - transitivity (y - (sg*sg)*y); [field; repeat split; try assumption; try nra|rewrite Hs2; ring].
      - transitivity ((x*x+y*y)/(2*Rc) - (sg*sg)*((x*x+y*y)/(2*Rc) - Rc/2)); [field; repeat split; try assumption; try nra|rewrite Hs2; field; assumption]. }
    split.
    { unfold t1, s, zs. field. assumption. }
    intros Hneg. unfold s.
    assert (0 < r2 + Rc*Rc) by (unfold r2; nra).
    destruct Hsg; subst sg.
    - assert (Rc < 0) by lra. replace (-(1)*(r2 + Rc*Rc)/(2*Rc)) with ((r2 + Rc*Rc) * / (2 * - Rc)) by (field; lra).
      apply Rmult_lt_0_compat; [assumption|apply Rinv_0_lt_compat; lra].
    - assert (0 < Rc) by lra. replace (- -1*(r2 + Rc*Rc)/(2*Rc)) with ((r2 + Rc*Rc) * / (2*Rc)) by (field; lra).
      apply Rmult_lt_0_compat; [assumption|apply Rinv_0_lt_compat; lra].
  Qed.
End Paraboloid.

(** ** 2. conic mirror between its geometric foci:  ellipsoid (0 < e^2 < 1), hyperboloid (1 < e^2),
    sphere about its centre (e = 0).  [e] may have either sign: e -> -e swaps the two foci.
    The ray leaves (tau = 1) or is aimed at (tau = -1: virtual object) the focus F1 = Rc/(1+e) and
    hits the vertex sheet of the conic at P; it then passes through F2 = Rc/(1-e). *)
Section ConicMirror.
  Variables Rc e x y z tau : R.
  Hypothesis He1 : 1 + e <> 0.
  Hypothesis He2 : 1 - e <> 0.
  Hypothesis Hsheet : on_vertex_sheet Rc (- (e*e)) x y z.
  Hypothesis Htau : tau = 1 \/ tau = -1.
  Let f1 := focus Rc e.
  Let f2 := focus Rc (- e).
  Let rho1 := e*z + f1.
  Let rho2 := f2 - e*z.
  Hypothesis H1 : rho1 <> 0.
  Hypothesis H2 : rho2 <> 0.
  (** incoming direction: tau (P - F1) / rho1 *)
  Let L := tau*x/rho1. Let M := tau*y/rho1. Let N := tau*(z - f1)/rho1.

  Lemma cm_f1 : f1 * (1 + e) = Rc. Proof. unfold f1, focus. field. assumption. Qed.
  Lemma cm_f2 : f2 * (1 - e) = Rc. Proof. unfold f2, focus. field. lra. Qed.
  Lemma cm_quadric : x*x + y*y + (1 - e*e)*(z*z) - 2*Rc*z = 0.
  Proof. destruct Hsheet as (Hq & _). unfold on_conic in Hq. lra. Qed.

  Theorem conic_mirror_stigmatic :
    (* the incoming ray is a unit vector and reaches P from F1 after tau*rho1 *)
    unit3 L M N /\ 0 + (tau*rho1)*L = x /\ 0 + (tau*rho1)*M = y /\ f1 + (tau*rho1)*N = z /\
    (* reflection at the kernel's normal sends it through F2 after tau*rho2 *)
    (let '(nx, ny, nz) := k_std_normal ROps x y Rc (- (e*e)) in
     let '(L', M', N') := k_reflect ROps nx ny nz L M N in
     unit3 L' M' N' /\ through_axis_point x y z L' M' N' (tau*rho2) f2) /\
    (* the total path does not depend on the ray *)
    (1 - e*e) * (tau*rho1 + tau*rho2) = tau * (2*Rc).
  Proof.
    assert (Ht2 : tau*tau = 1) by (destruct Htau; subst; ring).
    generalize cm_f1 cm_f2 cm_quadric; intros Hf1 Hf2 Hq.
    destruct Hsheet as (_ & Hrad & Hsh).
    assert (HR : Rc <> 0).
    { intro E. rewrite E in Hrad. unfold Rdiv in Hrad. rewrite Rmult_0_l, Rinv_0, Rmult_0_r in Hrad. 
      rewrite E in Hsh. rewrite Rmult_0_l in Hsh. generalize cm_f1; rewrite E; intros F.
      assert (f1 = 0) by (apply Rmult_eq_reg_r with (1+e); [lra|assumption]).
      assert (Z : (1 + - (e*e)) * z = 0) by lra.
      apply H1. unfold rho1. rewrite H. 
      assert (HH : (1-e)*((1+e)*z) = 0) by (rewrite <- Z; ring).
      apply Rmult_integral in HH. destruct HH as [HH|HH]; [lra|].
      apply Rmult_integral in HH. destruct HH as [HH|HH]; [lra|]. subst z.
      (* z = 0, so x = y = 0 and rho2 = f2 = 0 *) exfalso. apply H2. unfold rho2.
      generalize cm_f2; rewrite E; intros F2. 
      assert (f2 = 0) by (apply Rmult_eq_reg_r with (1-e); [lra|assumption]). rewrite H0. ring. }
    assert (Hq0 : Rc - (1 - e*e)*z <> 0).
    { replace (Rc - (1 - e*e)*z) with (Rc - (1 + - (e*e))*z) by ring. rewrite Hsh.
      apply Rmult_integral_contrapositive_currified; [assumption|]. apply Rgt_not_eq, sqrt_lt_R0, Hrad. }
    assert (D1 := dist_focus1 Rc e f1 f2 x y z Hf1 Hf2 Hq). fold rho1 in D1.
    assert (D2 := dist_focus2 Rc e f1 f2 x y z Hf1 Hf2 Hq). fold rho2 in D2.
    split.
    { unfold unit3, L, M, N.
      transitivity ((tau*tau) * (x*x + y*y + (z - f1)*(z - f1)) / (rho1*rho1)); [field; assumption|].
      rewrite Ht2, D1. field. assumption. }
    split; [unfold L; transitivity ((tau*tau)*x); [field; assumption|rewrite Ht2; ring]|].
    split; [unfold M; transitivity ((tau*tau)*y); [field; assumption|rewrite Ht2; ring]|].
    split; [unfold N; transitivity (f1 + (tau*tau)*(z - f1)); [field; assumption|rewrite Ht2; ring]|].
    split.
    { rewrite (std_normal_h x y Rc (- (e*e))).
      rewrite (reflect_std_normal x y Rc (- (e*e)) L M N).
      rewrite <- Hsh. replace (Rc - (1 + - (e*e))*z) with (Rc - (1 - e*e)*z) by ring.
      generalize (reflect_focus_kernel_form Rc e f1 f2 x y z Hf1 Hf2 Hq Hq0 H1 H2 tau Ht2).
      cbv zeta. fold rho1 rho2 L M N. intros E. injection E as E1 E2 E3. rewrite E1, E2, E3.
      unfold unit3, through_axis_point. repeat split.
      - transitivity ((tau*tau) * (x*x + y*y + (z - f2)*(z - f2)) / (rho2*rho2)); [field; assumption|].
        rewrite Ht2, D2. field. assumption.
      - transitivity (x - (tau*tau)*x); [field; assumption|rewrite Ht2; ring].
      - transitivity (y - (tau*tau)*y); [field; assumption|rewrite Ht2; ring].
      - transitivity (z + (tau*tau)*(f2 - z)); [field; assumption|rewrite Ht2; ring]. }
    generalize (focal_sum Rc e f1 f2 x y z Hf1 Hf2 Hq). fold rho1 rho2. intros F.
    transitivity (tau * ((1 - e*e)*(rho1 + rho2))); [ring|rewrite F; ring].
  Qed.
End ConicMirror.

(** ** 3. refracting conic with k = -(n1/n2)^2 (the curved face of the plano-hyperbolic singlet, n1 > n2;
    the ellipsoid that focuses inside the denser medium, n1 < n2): a ray parallel to the axis in medium n1
    is refracted through the far focus F = Rc / (1 - n1/n2), and n1 * (path in n1) + n2 * (path to F) is constant *)
Section ConicRefract.
  Variables Rc n1 n2 x y z sg z0 : R.
  Let u := n1 / n2.
  Hypothesis HR : Rc <> 0.
  Hypothesis Hn2 : n2 <> 0.
  Hypothesis Hu : 1 - u <> 0.
  Hypothesis Hsheet : on_vertex_sheet Rc (- (u*u)) x y z.
  Hypothesis Hsg : sg = 1 \/ sg = -1.
  Let f := focus Rc (- u).
  Let rho2 := f - u*z.
  Hypothesis H2 : rho2 <> 0.

  Theorem conic_refract_stigmatic :
    (let '(nx, ny, nz) := k_std_normal ROps x y Rc (- (u*u)) in
     let '(L', M', N') := k_refract ROps nx ny nz n1 n2 0 0 sg in
     (L', M', N') = (sg * (- x) / rho2, sg * (- y) / rho2, sg * (f - z) / rho2) /\
     unit3 L' M' N' /\ through_axis_point x y z L' M' N' (sg*rho2) f) /\
    n1 * (sg*(z - z0)) + n2 * (sg*rho2) = sg * (n2*f - n1*z0).
  Proof.
    assert (Hs2 : sg*sg = 1) by (destruct Hsg; subst; ring).
    assert (Hf2 : f * (1 - u) = Rc) by (unfold f, focus; field; lra).
    destruct Hsheet as (Hq & Hrad & Hsh). unfold on_conic in Hq.
    assert (Hq' : x*x + y*y + (1 - u*u)*(z*z) - 2*Rc*z = 0) by lra.
    set (q := Rc - (1 - u*u)*z).
    assert (Hqq : Rc * sqrt (1 - (1 + - (u*u))*(x*x+y*y)/(Rc*Rc)) = q) by (rewrite <- Hsh; unfold q; ring).
    assert (Hs0 : 0 < sqrt (1 - (1 + - (u*u))*(x*x+y*y)/(Rc*Rc))) by (apply sqrt_lt_R0, Hrad).
    assert (Hq0 : q <> 0) by (rewrite <- Hqq; apply Rmult_integral_contrapositive_currified; lra).
    assert (HRq : 0 < Rc / q).
    { rewrite <- Hqq. replace (Rc / (Rc * sqrt (1 - (1 + - (u*u))*(x*x+y*y)/(Rc*Rc))))
        with (/ sqrt (1 - (1 + - (u*u))*(x*x+y*y)/(Rc*Rc))) by (field; lra).
      apply Rinv_0_lt_compat, Hs0. }
    generalize (rtarget_unit Rc u f x y z sg Hf2 Hq' Hs2 H2).
    generalize (rtarget_snell Rc u f x y z sg Hf2 Hq' H2).
    generalize (rtarget_dot_grad Rc u f x y z sg Hf2 Hq' H2).
    fold rho2. fold q.
    set (tx := sg * (- x) / rho2). set (ty := sg * (- y) / rho2). set (tz := sg * (f - z) / rho2).
    intros Hdg (Sx & Sy & Sz) Hunit.
    split.
    2:{ unfold rho2. transitivity (sg * (n2*f - n1*z0) + sg*z*(n1 - n2*u)); [ring|].
        replace (n2*u) with n1 by (unfold u; field; assumption). ring. }
    rewrite (std_normal_h x y Rc (- (u*u))). rewrite Hqq.
    set (hx := x / q). set (hy := y / q). set (hh := hx*hx + hy*hy + 1).
    assert (Hhh : 0 < hh) by (unfold hh; nra).
    assert (Hm : sqrt hh * sqrt hh = hh) by (apply sqrt_sqrt; lra).
    assert (Hm0 : 0 < sqrt hh) by (apply sqrt_lt_R0; assumption).
    set (m := sqrt hh) in *.
    assert (Hx : x = q * hx) by (unfold hx; field; assumption).
    assert (Hy : y = q * hy) by (unfold hy; field; assumption).
    assert (RC : k_refract ROps (hx / m) (hy / m) (-1 / m) n1 n2 0 0 sg = (tx, ty, tz)).
    { apply (refract_char (hx / m) (hy / m) (-1 / m) n1 n2 0 0 sg tx ty tz (- sg / rho2 * q * m)).
      - rewrite Hs2; ring.
      - transitivity (hh / (m*m)); [unfold hh; field; lra|rewrite Hm; field; lra].
      - exact Hunit.
      - fold u. rewrite Sx. rewrite Hx at 1. field. split; [lra|assumption].
      - fold u. rewrite Sy. rewrite Hy at 1. field. split; [lra|assumption].
      - fold u. rewrite Sz. field. split; [lra|assumption].
      - replace ((tx * (hx / m) + ty * (hy / m) + tz * (-1 / m)) * (0 * (hx / m) + 0 * (hy / m) + sg * (-1 / m)))
          with ((tx*(q*hx) + ty*(q*hy) + tz*(- q)) * (- sg) / (q * (m*m))) by (field; split; [lra|assumption]).
        rewrite <- Hx, <- Hy, Hdg, Hm.
        replace (- sg * Rc * - sg / (q * hh)) with ((sg*sg) * (Rc / q) * / hh) by (field; split; [lra|assumption]).
        rewrite Hs2. apply Rmult_lt_0_compat; [lra|apply Rinv_0_lt_compat; assumption]. }
    rewrite RC. split; [reflexivity|]. split; [exact Hunit|].
    unfold through_axis_point, tx, ty, tz. repeat split.
    - transitivity (x - (sg*sg)*x); [field; assumption|rewrite Hs2; ring].
    - transitivity (y - (sg*sg)*y); [field; assumption|rewrite Hs2; ring].
    - transitivity (z + (sg*sg)*(f - z)); [field; assumption|rewrite Hs2; ring].
  Qed.
End ConicRefract.

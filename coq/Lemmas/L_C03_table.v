(** C03: exhaustive rejection table of RayGenerator.generate_rays (regenerated kernel k_rg_generate).
    The table is over the finite configuration domain {finite, infinite object} x {angle, object_height} x
    {telecentric or not} x {EPD, imageFNO, objectNA} (24 cells, 9 of them valid) x polarization handling; every numeric
    input is universally quantified and the arithmetic signature is arbitrary, so the statement holds for exact
    reals and for binary64 alike. *)
From Coq Require Import ZArith List Bool String.
From OV Require Import Ops OpsC03 Gen.Standard Gen.RayGen Spec.S_C03.
Import ListNotations.
Local Open Scope string_scope.

Section Table.
  Variable O : Ops.
  Variables Hx Hy Px Py w v0 v1 mf EPL EPD objR objk objz n0 apv : T O.
  Variable pos : list (T O).

  Notation gen inf ft tele ap pol upol :=
    (k_rg_generate O Hx Hy Px Py w v0 v1 mf inf ft tele EPL EPD pos objR objk objz ap n0 apv pol upol).

  (** every one of the 24 cells: the call raises exactly when one of the six rules (or the polarization rule) applies *)
  Theorem rejection_table :
    forall (inf tele upol : bool) (ft ap pol : string),
      In ft field_types -> In ap aperture_types ->
      is_none (gen inf ft tele ap pol upol) = rejected inf ft tele ap || pol_rejected pol upol.
  Proof.
    intros inf tele upol ft ap pol Hft Hap.
    unfold pol_rejected.
    destruct (String.eqb pol "ignore") eqn:Epol;
    cbn in Hft, Hap;
    destruct Hft as [<-|[<-|[]]]; destruct Hap as [<-|[<-|[<-|[]]]];
    destruct inf, tele, upol;
    unfold k_rg_generate, k_rg_origins; rewrite ?Epol; cbn; try rewrite Epol; reflexivity.
  Qed.

  (** a field type that is neither 'angle' nor 'object_height' is never traced *)
  Theorem unknown_field_type_rejected :
    forall (inf tele upol : bool) (ft ap pol : string),
      String.eqb ft "angle" = false -> String.eqb ft "object_height" = false ->
      gen inf ft tele ap pol upol = None \/ (inf = true /\ tele = false).
  Proof.
    intros inf tele upol ft ap pol Ha Hh.
    destruct inf; [destruct tele; [left|right; auto]|left];
    unfold k_rg_generate, k_rg_origins; rewrite ?Ha, ?Hh; reflexivity.
  Qed.

  (** the valid cells are exactly nine *)
  Definition cells : list (bool * string * bool * string) :=
    flat_map (fun inf => flat_map (fun ft => flat_map (fun tele => map (fun ap => (inf, ft, tele, ap)) aperture_types)
      [false; true]) field_types) [false; true].
  Theorem cell_count : List.length cells = 24%nat /\
    List.length (filter (fun c => match c with (inf, ft, tele, ap) => negb (rejected inf ft tele ap) end) cells) = 9%nat.
  Proof. split; vm_compute; reflexivity. Qed.
End Table.

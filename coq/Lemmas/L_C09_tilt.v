(** Theorems about Wavefront._correct_tilt (kernels k_wf_tilt_xy / k_wf_tilt_dist of Gen/Wavefront.v)
    against the launch of an infinite object (Model/M_C09.v [launch]): the rays of one field are parallel,
    so the common object-space wavefront is a plane; the tilt term equals the plane-wave offset of the
    launched ray when the field is along y, the lens has no vignetting factor at that field, and
    fields.max_y_field = fields.max_field; the exact error otherwise. *)
From Coq Require Import Reals Lra Lia ZArith List String Psatz.
From OV Require Import Ops RInst Num.OpsC09 Gen.Wavefront Model.Trace Model.M_C09 Spec.S_C09 Lemmas.L_C09_sphere.
Import ListNotations.
Local Open Scope R_scope.

Definition rad (a : R) : R := a * PI / 180.

(** ** _correct_tilt, both call forms (vx, vy: vignetting factors of the field; nobj: object-space index) *)
Lemma tilt_xy_angle opd x y f0 f1 maxf vx vy E nobj :
  k_wf_tilt_xy ROps opd x y "angle" f0 f1 maxf vx vy E nobj
  = opd - ((1 - x) * sin (rad (maxf * f0)) * E / 2 + (1 - y) * sin (rad (maxf * f1)) * E / 2) * Rabs nobj.
Proof. unfold k_wf_tilt_xy, rad. cbn [String.eqb Ascii.eqb Bool.eqb]. rops. reflexivity. Qed.

Lemma tilt_dist_angle opd f0 f1 maxf vx vy dx dy E nobj :
  k_wf_tilt_dist ROps opd "angle" f0 f1 maxf vx vy dx dy E nobj
  = opd - ((1 - dx * ((1 - vx) * (1 - vx))) * sin (rad (maxf * f0)) * E / 2 +
           (1 - dy * ((1 - vy) * (1 - vy))) * sin (rad (maxf * f1)) * E / 2) * Rabs nobj.
Proof. unfold k_wf_tilt_dist, rad. cbn [String.eqb Ascii.eqb Bool.eqb]. rops. reflexivity. Qed.

Lemma tilt_xy_other ft opd x y f0 f1 maxf vx vy E nobj :
  String.eqb ft "angle" = false -> k_wf_tilt_xy ROps opd x y ft f0 f1 maxf vx vy E nobj = opd.
Proof. intros H. unfold k_wf_tilt_xy. rewrite H. rops. Req. ring. Qed.

Lemma tilt_dist_other ft opd f0 f1 maxf vx vy dx dy E nobj :
  String.eqb ft "angle" = false -> k_wf_tilt_dist ROps opd ft f0 f1 maxf vx vy dx dy E nobj = opd.
Proof. intros H. unfold k_wf_tilt_dist. rewrite H. rops. Req. ring. Qed.

(** the batch form is the explicit form at the pupil point the ray was launched from *)
Theorem tilt_dist_is_tilt_xy ft opd f0 f1 maxf vx vy dx dy E nobj :
  k_wf_tilt_dist ROps opd ft f0 f1 maxf vx vy dx dy E nobj
  = k_wf_tilt_xy ROps opd (dx * ((1 - vx) * (1 - vx))) (dy * ((1 - vy) * (1 - vy))) ft f0 f1 maxf vx vy E nobj.
Proof.
  unfold k_wf_tilt_dist, k_wf_tilt_xy. destruct (String.eqb ft "angle"); rops; reflexivity.
Qed.

(** the difference (chief corrected) - (ray corrected) *)
Theorem tilt_difference_angle p q f0 f1 maxf vx vy dx dy E nobj :
  k_wf_tilt_xy ROps p 0 0 "angle" f0 f1 maxf vx vy E nobj - k_wf_tilt_dist ROps q "angle" f0 f1 maxf vx vy dx dy E nobj
  = (p - q) - (dx * ((1 - vx) * (1 - vx)) * sin (rad (maxf * f0)) * E / 2 +
               dy * ((1 - vy) * (1 - vy)) * sin (rad (maxf * f1)) * E / 2) * Rabs nobj.
Proof. rewrite tilt_xy_angle, tilt_dist_angle. field. Qed.

(** ** launch of an infinite object with angular fields *)
Section Launch.
  Variable c : launchcfg ROps.
  Hypothesis Hinf : lc_infinite c = true.
  Hypothesis Hang : lc_angle c = true.
  Let E := lc_EPD c.
  Let offset := lc_offset c.
  Let D := offset + lc_EPL c.
  Let dz := lc_EPL c - (lc_pos1 c - offset).

  Definition launch_X (Hx : R) := tan (rad (lc_maxfield c * Hx)) * D.
  Definition launch_Y (Hy : R) := - tan (rad (lc_maxfield c * Hy)) * D.
  Definition launch_mag (Hx Hy : R) := sqrt (launch_X Hx * launch_X Hx + launch_Y Hy * launch_Y Hy + dz * dz).

  Lemma launch_inf_unfold w Hx Hy Px Py vx vy :
    launch c w Hx Hy Px Py vx vy =
    Some (mkRay (O:=ROps) (Px * E / 2 * (1 - vx) + launch_X Hx) (Py * E / 2 * (1 - vy) + launch_Y Hy)
                (lc_pos1 c - offset)
                (- launch_X Hx / launch_mag Hx Hy) (- launch_Y Hy / launch_mag Hx Hy) (dz / launch_mag Hx Hy)
                1 w 0).
  Proof.
    unfold launch, ray_origins. rewrite Hinf, Hang. unfold radians. rops.
    unfold launch_mag, launch_X, launch_Y, dz, D, offset, E, rad.
    set (X := tan (lc_maxfield c * Hx * PI / 180) * (lc_offset c + lc_EPL c)).
    set (Y := - tan (lc_maxfield c * Hy * PI / 180) * (lc_offset c + lc_EPL c)).
    set (Z := lc_EPL c - (lc_pos1 c - lc_offset c)).
    replace (Px * lc_EPD c * (1 - vx) / 2 - (Px * lc_EPD c / 2 * (1 - vx) + X)) with (- X) by field.
    replace (Py * lc_EPD c * (1 - vy) / 2 - (Py * lc_EPD c / 2 * (1 - vy) + Y)) with (- Y) by field.
    replace (- X * - X + - Y * - Y + Z * Z) with (X * X + Y * Y + Z * Z) by ring.
    reflexivity.
  Qed.

  (** all rays of one field are parallel: the direction does not depend on the pupil point or on the
      vignetting factors *)
  Theorem launch_parallel w Hx Hy Px Py vx vy Px' Py' vx' vy' r r' :
    launch c w Hx Hy Px Py vx vy = Some r -> launch c w Hx Hy Px' Py' vx' vy' = Some r' ->
    rL r = rL r' /\ rM r = rM r' /\ rN r = rN r'.
  Proof.
    rewrite !launch_inf_unfold. intros H H'. injection H as <-. injection H' as <-. cbn. auto.
  Qed.

  (** plane-wave offset of a launched ray against the ray through the pupil centre *)
  Theorem launch_offset w Hx Hy Px Py vx vy r r0 :
    launch c w Hx Hy Px Py vx vy = Some r -> launch c w Hx Hy 0 0 vx vy = Some r0 ->
    plane_wave_path 1 (rL r, rM r, rN r) (rx r0, ry r0, rz r0) (rx r, ry r, rz r)
    = rL r * (Px * E / 2 * (1 - vx)) + rM r * (Py * E / 2 * (1 - vy)).
  Proof.
    rewrite !launch_inf_unfold. intros H H0. injection H as <-. injection H0 as <-.
    unfold plane_wave_path, dot3, sub3, px, py, pz. cbn [fst snd rx ry rz rL rM rN]. rops. Req.
    generalize (- launch_X Hx / launch_mag Hx Hy) (- launch_Y Hy / launch_mag Hx Hy) (dz / launch_mag Hx Hy).
    intros l m n. field.
  Qed.

  (** field along y, first surface at z = 0, finite positive launch distance, field angle inside (-90, 90) deg:
      the common direction is (0, sin, cos) of the field angle *)
  Theorem launch_dir_y w Hy Px Py vx vy r :
    lc_pos1 c = 0 -> 0 < D -> 0 < cos (rad (lc_maxfield c * Hy)) ->
    launch c w 0 Hy Px Py vx vy = Some r ->
    rL r = 0 /\ rM r = sin (rad (lc_maxfield c * Hy)) /\ rN r = cos (rad (lc_maxfield c * Hy)).
  Proof.
    intros Hp1 HD Hc. rewrite launch_inf_unfold. intros H. injection H as <-. cbn [rL rM rN].
    set (f := rad (lc_maxfield c * Hy)) in *.
    assert (HX : launch_X 0 = 0).
    { unfold launch_X, rad. replace (lc_maxfield c * 0 * PI / 180) with 0 by field. rewrite tan_0. ring. }
    assert (Hdz : dz = D) by (unfold dz, D; rewrite Hp1; ring).
    assert (HY : launch_Y Hy = - (sin f / cos f) * D) by (unfold launch_Y; fold f; unfold tan; reflexivity).
    assert (Hsc : sin f * sin f + cos f * cos f = 1) by (pose proof (sin2_cos2 f) as Hq; unfold Rsqr in Hq; exact Hq).
    assert (Hmag : launch_mag 0 Hy = D / cos f).
    { unfold launch_mag. rewrite HX, HY, Hdz. apply sqrt_lem_1.
      - pose proof (sq_nonneg (- (sin f / cos f) * D)); pose proof (sq_nonneg D); lra.
      - apply Rlt_le, Rdiv_lt_0_compat; assumption.
      - transitivity (D * D * (sin f * sin f + cos f * cos f) / (cos f * cos f)); [rewrite Hsc; field; lra|field; lra]. }
    rewrite Hmag, HX, HY, Hdz. repeat split; Req; field; lra.
  Qed.
End Launch.

(** ** the tilt term is the plane-wave offset of the ray that was actually launched *)
(** field along y (Hx = 0), any vignetting factors, any object-space index: the subtracted term is the optical
    path from the chief ray's wavefront to the launch point of the ray *)
Theorem tilt_matches_launch :
  forall (c : launchcfg ROps) (w Hy dx dy vx vy p q nobj : R) (r r0 : ray ROps),
    lc_infinite c = true -> lc_angle c = true -> lc_pos1 c = 0 ->
    0 < lc_offset c + lc_EPL c -> 0 < cos (rad (lc_maxfield c * Hy)) ->
    launch c w 0 Hy (scaled (O:=ROps) dx vx) (scaled (O:=ROps) dy vy) vx vy = Some r ->
    launch c w 0 Hy (scaled (O:=ROps) 0 vx) (scaled (O:=ROps) 0 vy) vx vy = Some r0 ->
    k_wf_tilt_xy ROps p 0 0 "angle" 0 Hy (lc_maxfield c) vx vy (lc_EPD c) nobj
    - k_wf_tilt_dist ROps q "angle" 0 Hy (lc_maxfield c) vx vy dx dy (lc_EPD c) nobj
    = (p - q) - plane_wave_path (Rabs nobj) (rL r, rM r, rN r) (rx r0, ry r0, rz r0) (rx r, ry r, rz r).
Proof.
  intros c w Hy dx dy vx vy p q nobj r r0 Hinf Hang Hp1 HD Hc Hr Hr0.
  rewrite tilt_difference_angle.
  unfold scaled in Hr, Hr0. rops.
  replace (0 * (1 - vx)) with 0 in Hr0 by ring. replace (0 * (1 - vy)) with 0 in Hr0 by ring.
  pose proof (launch_offset c Hinf Hang w 0 Hy _ _ vx vy r r0 Hr Hr0) as Ho.
  destruct (launch_dir_y c Hinf Hang w Hy _ _ vx vy r Hp1 HD Hc Hr) as [HL [HM _]].
  unfold plane_wave_path, dot3, sub3, px, py, pz in *. cbn [fst snd] in *. rops.
  rewrite Rmult_1_l in Ho. rewrite Ho, HL, HM.
  replace (rad (lc_maxfield c * 0)) with 0 by (unfold rad; field). rewrite sin_0. field.
Qed.

(** finite object, height fields: every ray of the field starts at the same point (a point source: the
    common wavefront is the point itself) and no correction is applied *)
Theorem finite_object_common_point :
  forall (c : launchcfg ROps) (w Hx Hy Px Py vx vy Px' Py' vx' vy' : R) (r r' : ray ROps),
    lc_infinite c = false ->
    launch c w Hx Hy Px Py vx vy = Some r -> launch c w Hx Hy Px' Py' vx' vy' = Some r' ->
    rx r = rx r' /\ ry r = ry r' /\ rz r = rz r'.
Proof.
  intros c w Hx Hy Px Py vx vy Px' Py' vx' vy' r r' Hfin. unfold launch, ray_origins. rewrite Hfin.
  destruct (lc_angle c); intros H H'; injection H as <-; injection H' as <-; cbn; auto.
Qed.

Theorem height_fields_no_correction :
  forall opd f0 f1 maxf vx vy dx dy E nobj,
    k_wf_tilt_dist ROps opd "object_height" f0 f1 maxf vx vy dx dy E nobj = opd /\
    k_wf_tilt_xy ROps opd 0 0 "object_height" f0 f1 maxf vx vy E nobj = opd.
Proof. intros. split; [apply tilt_dist_other|apply tilt_xy_other]; reflexivity. Qed.

(** the launch plane is in front of the entrance pupil by at least its diameter (after the repair of
    RayGenerator._get_starting_z_offset): the side condition of the theorems above holds for every EPD > 0 *)
Theorem launch_distance_positive :
  forall c : launchcfg ROps, 0 < lc_EPD c -> 0 < lc_offset c + lc_EPL c.
Proof.
  intros c H. unfold lc_offset. rops. unfold Rltb.
  destruct (Rlt_dec (lc_EPL c) (lc_minpos c)); lra.
Qed.

(** hypotheses are satisfiable: EPD 10, stop at the first surface (EPL = 0), first surface at z = 0,
    largest field 30 degrees, on-axis-in-x field Hy = 1, pupil point (0, 1) *)
Definition lc_example : launchcfg ROps := mkLC (O:=ROps) true true 30 10 0 0 0 0 0.
Lemma lc_offset_example : lc_offset lc_example = 10.
Proof. unfold lc_offset. rops. cbn [lc_EPD lc_EPL lc_minpos lc_example]. unfold Rltb. destruct (Rlt_dec 0 0); lra. Qed.

Example tilt_matches_launch_example :
  exists r r0,
    launch lc_example (55/100) 0 1 (scaled (O:=ROps) 0 0) (scaled (O:=ROps) 1 0) 0 0 = Some r /\
    launch lc_example (55/100) 0 1 (scaled (O:=ROps) 0 0) (scaled (O:=ROps) 0 0) 0 0 = Some r0 /\
    0 < lc_offset lc_example + lc_EPL lc_example /\
    0 < cos (rad (lc_maxfield lc_example * 1)).
Proof.
  rewrite !(launch_inf_unfold lc_example eq_refl eq_refl). do 2 eexists. split; [reflexivity|]. split; [reflexivity|].
  split; [rewrite lc_offset_example; cbn [lc_EPL lc_example]; lra|]. cbn [lc_maxfield lc_example].
  replace (rad (30 * 1)) with (PI / 6) by (unfold rad; field).
  rewrite cos_PI6. apply Rdiv_lt_0_compat; [apply sqrt_lt_R0|]; lra.
Qed.

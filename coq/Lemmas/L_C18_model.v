(** C18: the file model (which DATA section `MaterialFile.n` evaluates) returns the index defined
    by the unique dispersion section of the data file; and polynomial evaluation of the model glass. *)
From Coq Require Import PrimFloat.
From Coq Require Import Reals Lra Lia ZArith List Bool Psatz.
From OV Require Import Ops OpsC18 RInst Spec.S_C18 Gen.Materials Model.M_C18
                       Lemmas.L_C18_formulas Lemmas.L_C18_interp.
Import ListNotations.
Local Open Scope R_scope.

Notation Rsection := (section (O := ROps)).
Notation Rst := (st (O := ROps)).

Definition table_ok (s : Rsection) : Prop :=
  match s with
  | STabN t => t <> [] /\ increasing t
  | STabNK t => t <> [] /\ increasing (map (fun r => (fst (fst r), snd (fst r))) t)
  | _ => True
  end.

Lemma parse_no_n : forall (secs : list Rsection) (s0 : Rst),
  filter defines_n secs = [] ->
  exists s1, fold_left parse_step secs (Some s0) = Some s1 /\
             st_coeffs s1 = st_coeffs s0 /\ st_nform s1 = st_nform s0 /\ st_ntab s1 = st_ntab s0.
Proof.
  induction secs as [|a secs IH]; intros s0 Hf.
  - exists s0. repeat split; reflexivity.
  - destruct a; cbn [filter defines_n] in Hf; try discriminate Hf.
    + cbn [fold_left parse_step]. match goal with |- exists s1, fold_left parse_step secs (Some ?X) = _ /\ _ => destruct (IH X Hf) as (s1 & E & A & B & C) end. exists s1. cbn in *. auto.
    + cbn [fold_left parse_step]. match goal with |- exists s1, fold_left parse_step secs (Some ?X) = _ /\ _ => destruct (IH X Hf) as (s1 & E & A & B & C) end. exists s1. auto.
Qed.

Definition loaded (s : Rsection) (s1 : Rst) : Prop :=
  match s with
  | SFormula k c => st_nform s1 = Some (KFormula k) /\ st_coeffs s1 = c
  | STabN t => st_nform s1 = Some KTabN /\ st_ntab s1 = (map fst t, map snd t)
  | STabNK t => st_nform s1 = Some KTabNK /\
                st_ntab s1 = (map (fun r => fst (fst r)) t, map (fun r => snd (fst r)) t)
  | _ => False
  end.

Lemma parse_one_n : forall (secs : list Rsection) (s0 : Rst) (s : Rsection),
  st_nform s0 = None -> filter defines_n secs = [s] ->
  exists s1, fold_left parse_step secs (Some s0) = Some s1 /\ loaded s s1.
Proof.
  induction secs as [|a secs IH]; intros s0 s H0 Hf.
  - discriminate Hf.
  - destruct a; cbn [filter defines_n] in Hf.
    + inversion Hf as [[Ha Hr]]. subst s. cbn [fold_left parse_step]. unfold set_type. cbn [st_nform]. rewrite H0.
      match goal with |- exists s1, fold_left parse_step secs (Some ?X) = _ /\ _ => destruct (parse_no_n secs X Hr) as (s1 & E & A & B & C) end. exists s1. split; [exact E|].
      cbn [loaded]. cbn in A, B. auto.
    + inversion Hf as [[Ha Hr]]. subst s. cbn [fold_left parse_step]. unfold set_type. cbn [st_nform]. rewrite H0.
      match goal with |- exists s1, fold_left parse_step secs (Some ?X) = _ /\ _ => destruct (parse_no_n secs X Hr) as (s1 & E & A & B & C) end. exists s1. split; [exact E|].
      cbn [loaded]. cbn in B, C. auto.
    + cbn [fold_left parse_step]. apply IH; [exact H0 | exact Hf].
    + inversion Hf as [[Ha Hr]]. subst s. cbn [fold_left parse_step]. unfold set_type. cbn [st_nform]. rewrite H0.
      match goal with |- exists s1, fold_left parse_step secs (Some ?X) = _ /\ _ => destruct (parse_no_n secs X Hr) as (s1 & E & A & B & C) end. exists s1. split; [exact E|].
      cbn [loaded]. cbn in B, C. auto.
    + cbn [fold_left parse_step]. apply IH; [exact H0 | exact Hf].
Qed.

Lemma map_pairs {A B C} (t : list (A * B * C)) :
  combine (map (fun r => fst (fst r)) t) (map (fun r => snd (fst r)) t) = map (fun r => (fst (fst r), snd (fst r))) t.
Proof. induction t as [|[[a b] c] t IH]; [reflexivity|]. cbn. rewrite IH. reflexivity. Qed.

(** The index returned for a data file with exactly one dispersion section is the
    refractiveindex.info formula / the linear interpolation that section names. *)
Theorem file_index_correct : forall (secs : list Rsection) (s : Rsection) (w : R),
  filter defines_n secs = [s] -> table_ok s ->
  file_n secs w = file_index secs w /\ file_index secs w = section_n s w.
Proof.
  intros secs s w Hf Hok. unfold file_n, file_index, parse. rewrite Hf. split; [|reflexivity].
  destruct (parse_one_n secs st0 s eq_refl Hf) as (s1 & E & HL). rewrite E.
  unfold model_n. destruct s; cbn [loaded] in HL; try contradiction.
  - destruct HL as [Hn Hc]. rewrite Hn, Hc. cbn [section_n spec_formula].
    destruct k as [|p|p]; try reflexivity.
    repeat (destruct p as [p|p|]; try reflexivity);
      first [apply formula_1_spec | apply formula_2_spec | apply formula_3_spec | apply formula_4_spec
            | apply formula_5_spec | apply formula_6_spec | apply formula_7_spec | apply formula_8_spec
            | apply formula_9_spec].
  - destruct HL as [Hn Ht]. rewrite Hn, Ht. cbn [fst snd section_n]. destruct Hok as [Hne Hinc].
    apply tabulated_n_spec; assumption.
  - destruct HL as [Hn Ht]. rewrite Hn, Ht. cbn [fst snd section_n]. destruct Hok as [Hne Hinc].
    unfold k_tabulated_n, interp_. rewrite map_pairs. apply interp_is_linear; [|exact Hinc].
    destruct tbl; [contradiction|discriminate].
Qed.

(** a file with two dispersion sections cannot be loaded at all (see Findings/F_C18.v) *)
Lemma parse_two_n : forall (a b : Rsection), defines_n a = true -> defines_n b = true -> parse [a; b] = None.
Proof. intros a b Ha Hb. destruct a; try discriminate Ha; destruct b; try discriminate Hb; reflexivity. Qed.

(** ** np.polyval (Horner) = the polynomial sum p0 x^(n-1) + ... + p_(n-1) *)
Lemma polyval_acc : forall (p : list R) (x acc : R),
  fold_left (fun a c => a * x + c) p acc = acc * pow_nat (O := ROps) x (length p) + spec_poly (O := ROps) p x.
Proof.
  induction p as [|a p IH]; intros x acc.
  - cbn. rops. ring.
  - cbn [fold_left length spec_poly pow_nat]. rewrite IH. rops. ring.
Qed.

Theorem model_glass_polynomial : forall (p : list R) (w : R),
  k_abbe_n ROps w p = spec_poly (O := ROps) p w.
Proof.
  intros p w. unfold k_abbe_n, polyval_. rops.
  rewrite (polyval_acc p w 0). ring.
Qed.

Example file_example :
  file_n (O := ROps) [STabK (O := ROps) [(1, 0)]; SFormula (O := ROps) 5 [3/2; 0; 0]] 1 = Some (3/2 + 0 * Rpow 1 0).
Proof. reflexivity. Qed.

(** * C05: real meridional trace -> paraxial trace, through any list of surfaces

    [real_trace_converges]: for every axially symmetric lens of planes / spheres / conics
    (1+k <> 0), refracting or reflecting, and every family of launch rays whose height and
    direction cosine M are odd-type and whose N, z are even-type in the scale factor e, the
    model of the real trace ([Model.M_C05.mtrace] over the regenerated kernels, extended
    reals) returns, for all small e <> 0, finite records whose height / e and tangent / e
    differ from the paraxial matrix trace by at most C e^2 at EVERY surface. *)
From Coq Require Import Reals Lra Lia ZArith List Bool Psatz.
From OV Require Import Ops RInst XR Gen.RealRays Gen.Standard Spec.S_ABCD Spec.S_C05
  Model.M_C05 Lemmas.L_Standard Lemmas.L_C05_E2 Lemmas.L_C05_Link Lemmas.L_C05_Step.
Import ListNotations.
Local Open Scope R_scope.

Definition fin4 (st : R * R * R * R) : mstate XOps :=
  (Fin (st_y st), Fin (st_z st), Fin (st_M st), Fin (st_N st)).

(** ** well-formed surfaces: the three views of one prescription surface *)
Inductive wf_shape (N0 : R) : mshape XOps -> rshape -> R -> Prop :=
| wf_plane : wf_shape N0 (MPlane (O:=XOps)) RPlane 0
| wf_std Rc k sg : (sg = 1 \/ sg = -1) -> 0 < sg * N0 * Rc -> 1 + k <> 0 ->
    wf_shape N0 (MStd (O:=XOps) (Fin Rc) (Fin k)) (RStd Rc k sg) (/ Rc).

(** [N0] = direction of travel (+1 / -1) before the surface, [z0] = previous vertex *)
Inductive wf_surf (N0 z0 : R) : msurf XOps -> rsurf -> asurf -> Prop :=
| wf_s zs msh rsh c n1 n2 refl :
    wf_shape N0 msh rsh c -> 0 < N0 * (zs - z0) -> (refl = false -> n2 <> 0) ->
    wf_surf N0 z0 (mkMS (O:=XOps) (Fin zs) msh (Fin n1) (Fin n2) refl) (mkRS zs rsh n1 n2 refl)
            (mkAS zs c n1 n2 refl false).

Definition next_N0 (rs : rsurf) (N0 : R) : R := if r_refl rs then - N0 else N0.

Inductive wf_sys : R -> R -> list (msurf XOps) -> list rsurf -> list asurf -> Prop :=
| wf_nil N0 z0 : wf_sys N0 z0 [] [] []
| wf_cons N0 z0 ms rs a mss rss ass :
    wf_surf N0 z0 ms rs a -> wf_sys (next_N0 rs N0) (r_z rs) mss rss ass ->
    wf_sys N0 z0 (ms :: mss) (rs :: rss) (a :: ass).

(** ** families of rays indexed by the scale factor *)
Record fam_ok (F : R -> R * R * R * R) (h w N0 z0 : R) : Prop := mkFam {
  fam_y : Od (fun e => st_y (F e)) h;
  fam_z : E2 (fun e => st_z (F e)) z0;
  fam_M : Od (fun e => st_M (F e)) (w * N0);
  fam_N : E2 (fun e => st_N (F e)) N0 }.

Lemma next_N0_pm rs N0 : (N0 = 1 \/ N0 = -1) -> (next_N0 rs N0 = 1 \/ next_N0 rs N0 = -1).
Proof. unfold next_N0. destruct (r_refl rs); intros [H|H]; subst; [right|left|left|right]; lra. Qed.

(** ** one surface: the invariant is carried to the paraxial image of the limits *)
Definition fY (F : R -> R * R * R * R) := fun e => st_y (F e).
Definition fM (F : R -> R * R * R * R) := fun e => st_M (F e).
Definition fN (F : R -> R * R * R * R) := fun e => st_N (F e).
Definition fZL (rs : rsurf) (F : R -> R * R * R * R) := fun e => st_z (F e) - r_z rs.
Definition fT (rs : rsurf) (F : R -> R * R * R * R) :=
  fun e => rdist (r_shape rs) (fY F e) (fZL rs F e) (fM F e) (fN F e).
Definition fY1 (rs : rsurf) (F : R -> R * R * R * R) := fun e => fY F e + fT rs F e * fM F e.

Lemma N0sq' N0 : (N0 = 1 \/ N0 = -1) -> N0 * N0 = 1.
Proof. intros [E|E]; rewrite E; ring. Qed.

Lemma fam_split F h w N0 z0 : fam_ok F h w N0 z0 ->
  Od (fY F) h /\ E2 (fun e => st_z (F e)) z0 /\ Od (fM F) (w * N0) /\ E2 (fN F) N0.
Proof. intros [A B C D]. repeat split; assumption. Qed.

Lemma ZL_conv rs F h w N0 z0 : fam_ok F h w N0 z0 -> E2 (fZL rs F) (z0 - r_z rs).
Proof. intros HF. destruct (fam_split _ _ _ _ _ HF) as (_ & Hz & _ & _). unfold fZL. conv. Qed.

Lemma T_conv N0 z0 ms rs a F h w :
  wf_surf N0 z0 ms rs a -> (N0 = 1 \/ N0 = -1) -> fam_ok F h w N0 z0 ->
  E2 (fT rs F) (- N0 * (z0 - r_z rs)).
Proof.
  intros HW HN0 HF. generalize (ZL_conv rs F h w N0 z0 HF); intros HZ.
  destruct (fam_split _ _ _ _ _ HF) as (Hy & _ & HM & HN).
  inversion HW as [zs msh rsh c n1 n2 refl Hsh Hz Hn]; subst. cbn [r_z r_shape] in *.
  inversion Hsh as [|Rc k sg Hsg Hpos Hk]; subst; unfold fT; cbn [rdist r_shape].
  - eapply E2_lim; [conv|].
    + destruct HN0; subst; lra.
    + destruct HN0; subst; field.
  - eapply (tv_conv Rc k sg N0 (z0 - zs) (fY F) _ (fM F) (fN F) h (w * N0)); eassumption.
Qed.

Lemma Y1_conv N0 z0 ms rs a F h w :
  wf_surf N0 z0 ms rs a -> (N0 = 1 \/ N0 = -1) -> fam_ok F h w N0 z0 ->
  Od (fY1 rs F) (h + (r_z rs - z0) * w).
Proof.
  intros HW HN0 HF. generalize (T_conv _ _ _ _ _ _ _ _ HW HN0 HF); intros HT.
  destruct (fam_split _ _ _ _ _ HF) as (Hy & _ & HM & HN).
  eapply Od_lim; [unfold fY1; conv|]. generalize (N0sq' N0 HN0); intros Hq.
  replace (h + - N0 * (z0 - r_z rs) * (w * N0)) with (h + (N0*N0) * (r_z rs - z0) * w) by ring.
  rewrite Hq. ring.
Qed.

Lemma Z1_conv N0 z0 ms rs a F h w :
  wf_surf N0 z0 ms rs a -> (N0 = 1 \/ N0 = -1) -> fam_ok F h w N0 z0 ->
  E2 (fun e => fZL rs F e + fT rs F e * fN F e + r_z rs) (r_z rs).
Proof.
  intros HW HN0 HF. generalize (T_conv _ _ _ _ _ _ _ _ HW HN0 HF) (ZL_conv rs F h w N0 z0 HF); intros HT HZ.
  destruct (fam_split _ _ _ _ _ HF) as (Hy & _ & HM & HN).
  eapply E2_lim; [conv|]. generalize (N0sq' N0 HN0); intros Hq.
  replace (z0 - r_z rs + - N0 * (z0 - r_z rs) * N0 + r_z rs) with ((z0 - r_z rs) * (1 - N0*N0) + r_z rs) by ring.
  rewrite Hq. ring.
Qed.

(** normal at the intersection point: (0, -nu h1 c, nu) *)
Lemma rnormal_conv N0 z0 ms rs a F h w :
  wf_surf N0 z0 ms rs a -> (N0 = 1 \/ N0 = -1) -> fam_ok F h w N0 z0 ->
  exists nu, (nu = 1 \/ nu = -1) /\
    E2 (fun e => fst (fst (rnormal (r_shape rs) (fY1 rs F e)))) 0 /\
    Od (fun e => snd (fst (rnormal (r_shape rs) (fY1 rs F e)))) (- nu * (h + (r_z rs - z0) * w) * a_c a) /\
    E2 (fun e => snd (rnormal (r_shape rs) (fY1 rs F e))) nu.
Proof.
  intros HW HN0 HF. generalize (Y1_conv _ _ _ _ _ _ _ _ HW HN0 HF); intros HY1.
  inversion HW as [zs msh rsh c n1 n2 refl Hsh Hz Hn]; subst. cbn [r_z r_shape a_c] in *.
  inversion Hsh as [|Rc k sg Hsg Hpos Hk]; subst; cbn [rnormal fst snd].
  - exists 1. split; [left; reflexivity|]. repeat split.
    + apply E2_const.
    + eapply Od_lim; [apply Od_zero|ring].
    + apply E2_const.
  - exists (-1). split; [right; reflexivity|].
    assert (HR : Rc <> 0) by (intros E; rewrite E in Hpos; lra).
    destruct (normal_conv Rc k _ _ HR HY1) as (A & B & C).
    repeat split; [exact A| |exact C].
    eapply Od_lim; [exact B|]. field. exact HR.
Qed.

Theorem rstep_conv N0 z0 ms rs a F h w h1 w1 z1 :
  wf_surf N0 z0 ms rs a -> (N0 = 1 \/ N0 = -1) -> fam_ok F h w N0 z0 ->
  par_step a (h, w, z0) = (h1, w1, z1) ->
  fam_ok (fun e => rstep rs (F e)) h1 w1 (next_N0 rs N0) z1 /\ z1 = r_z rs.
Proof.
  intros HW HN0 HF Hp.
  destruct (rnormal_conv _ _ _ _ _ _ _ _ HW HN0 HF) as (nu & Hnu & NXc & NYc & NZc).
  generalize (Y1_conv _ _ _ _ _ _ _ _ HW HN0 HF) (Z1_conv _ _ _ _ _ _ _ _ HW HN0 HF); intros HY1 HZ1.
  destruct (fam_split _ _ _ _ _ HF) as (Hy & _ & HM & HN).
  inversion HW as [zs msh rsh c n1 n2 refl Hsh Hz Hn]; subst.
  cbn [r_z r_shape a_c] in *.
  unfold par_step, surf_matrix, next_z in Hp. cbn [a_obj a_refl a_c a_n1 a_n2 a_z] in Hp.
  assert (Hsplit : z1 = zs /\ h1 = h + (zs - z0) * w /\
            w1 = if refl then - 2 * c * h1 - w else - (n2 - n1) * c / n2 * h1 + n1 / n2 * w).
  { destruct refl; cbn [mapply mmul mirror refraction transfer ma mb mc md fst snd] in Hp;
      injection Hp as <- <- <-; repeat split; ring. }
  destruct Hsplit as (-> & Eh1 & Ew1). split; [|reflexivity].
  set (q := - nu * (h + (zs - z0) * w) * c) in *.
  unfold next_N0. cbn [r_refl].
  destruct refl.
  - (* mirror *)
    destruct (reflect_conv N0 nu q (w * N0) _ _ _ (fM F) (fN F) HN0 Hnu NXc NYc NZc HM HN) as (Mc & Nc).
    constructor.
    + rewrite Eh1. exact HY1.
    + exact HZ1.
    + eapply Od_lim; [exact Mc|]. rewrite Ew1, Eh1. unfold q.
      destruct Hnu; subst nu; ring.
    + exact Nc.
  - (* refraction *)
    assert (Hn2 : n2 <> 0) by (apply Hn; reflexivity).
    destruct (refract_conv n1 n2 N0 nu q (w * N0) _ _ _ (fM F) (fN F) HN0 Hnu NXc NYc NZc HM HN) as (Mc & Nc).
    constructor.
    + rewrite Eh1. exact HY1.
    + exact HZ1.
    + eapply Od_lim; [exact Mc|]. rewrite Ew1, Eh1. unfold q.
      destruct Hnu; subst nu; destruct HN0; subst N0; field; exact Hn2.
    + exact Nc.
Qed.

(** ** the model over extended reals takes exactly this step (pointwise side conditions) *)
Lemma std_distance_tv Rc k sg y zl M N :
  (sg = 1 \/ sg = -1) ->
  k*(N*N) + 0*0 + M*M + N*N <> 0 ->
  0 < (2*k*N*zl + 2*0*0 + 2*M*y - 2*N*Rc + 2*N*zl) * (2*k*N*zl + 2*0*0 + 2*M*y - 2*N*Rc + 2*N*zl)
       - 4 * (k*(N*N) + 0*0 + M*M + N*N) * (k*(zl*zl) - 2*Rc*zl + 0*0 + y*y + zl*zl) ->
  N <> 0 ->
  0 <= conic_tv Rc k sg y zl M N ->
  0 <= (Rc - (1 + k) * (zl + conic_tv Rc k sg y zl M N * N)) * Rc ->
  Rabs (zl + conic_tv Rc k sg y zl M N * N) < Rabs (zl + conic_to Rc k sg y zl M N * N) ->
  k_std_distance XOps (Fin k) (Fin N) (Fin 0) (Fin M) (Fin zl) (Fin 0) (Fin y) (Fin Rc)
  = Fin (conic_tv Rc k sg y zl M N).
Proof.
  intros Hsg Ha Hd HN Ht Hsh Hsel.
  exact (select_root k N M zl y Rc Ha Hd HN sg Hsg Ht Hsh Hsel).
Qed.

Definition step_ok (rs : rsurf) (st : R * R * R * R) : Prop :=
  let y := st_y st in let zl := st_z st - r_z rs in let M := st_M st in let N := st_N st in
  let y1 := y + rdist (r_shape rs) y zl M N * M in
  N <> 0 /\
  match r_shape rs with
  | RPlane => 0 <= - zl / N
  | RStd Rc k sg =>
      k*(N*N) + 0*0 + M*M + N*N <> 0 /\
      0 < (2*k*N*zl + 2*0*0 + 2*M*y - 2*N*Rc + 2*N*zl) * (2*k*N*zl + 2*0*0 + 2*M*y - 2*N*Rc + 2*N*zl)
           - 4 * (k*(N*N) + 0*0 + M*M + N*N) * (k*(zl*zl) - 2*Rc*zl + 0*0 + y*y + zl*zl) /\
      0 <= conic_tv Rc k sg y zl M N /\
      0 <= (Rc - (1 + k) * (zl + conic_tv Rc k sg y zl M N * N)) * Rc /\
      Rabs (zl + conic_tv Rc k sg y zl M N * N) < Rabs (zl + conic_to Rc k sg y zl M N * N) /\
      Rc <> 0 /\ 0 < 1 - (1 + k) * (0*0 + y1*y1) / (Rc*Rc)
  end /\
  (r_refl rs = false ->
     let n := rnormal (r_shape rs) y1 in
     let dot := 0 * fst (fst n) + M * snd (fst n) + N * snd n in
     0 <= 1 - r_n1 rs / r_n2 rs * (r_n1 rs / r_n2 rs) * (1 - Rabs dot * Rabs dot)).

Lemma mstep_fin N0 z0 ms rs a st :
  wf_surf N0 z0 ms rs a -> step_ok rs st -> mstep ms (fin4 st) = Some (fin4 (rstep rs st)).
Proof.
  intros HW. destruct st as [[[y z] M] N]. unfold step_ok, fin4, rstep.
  cbn [st_y st_z st_M st_N fst snd].
  inversion HW as [zs msh rsh c n1 n2 refl Hsh Hz Hn]; subst.
  cbn [r_z r_shape r_refl r_n1 r_n2].
  intros (HN & Hshape & Hrad).
  unfold mstep. cbn [m_z m_shape m_n1 m_n2 m_refl].
  unfold k_translate, k_propagate_vac. xops. cbn [xneg xadd].
  replace (y + - 0) with y by ring. change (z + - zs) with (z - zs).
  set (zl := z - zs) in *.
  inversion Hsh as [|Rc k sg Hsg Hpos Hk]; subst; cbn [mdistance mnormal rdist rnormal] in *; xops.
  - (* plane *)
    rewrite plane_distance_fin by assumption.
    unfold finite_. xops. cbn [xisnan xisinf orb negb xmul xadd].
    set (t := - zl / N) in *.
    destruct refl.
    + rewrite reflect_fin. destruct (k_reflect ROps 0 0 1 0 M N) as [[L1 M1] N1] eqn:Er.
      unfold rinteract. cbn [r_refl fst snd fin3]. rewrite Er. cbn [fst snd].
      replace (y + t * M + 0) with (y + t * M) by ring. reflexivity.
    + rewrite refract_fin; [|apply Hn; reflexivity|apply Hrad; reflexivity].
      destruct (k_refract ROps 0 0 1 n1 n2 0 M N) as [[L1 M1] N1] eqn:Er.
      unfold rinteract. cbn [r_refl r_n1 r_n2 fst snd fin3]. rewrite Er. cbn [fst snd].
      replace (y + t * M + 0) with (y + t * M) by ring. reflexivity.
  - (* conic *)
    destruct Hshape as (Ha & Hd & Ht & Hon & Hsel & HR & Hr).
    rewrite (std_distance_tv Rc k sg y zl M N Hsg Ha Hd HN Ht Hon Hsel).
    unfold finite_. xops. cbn [xisnan xisinf orb negb xmul xadd].
    set (t := conic_tv Rc k sg y zl M N) in *.
    rewrite std_normal_fin by assumption.
    destruct (k_std_normal ROps 0 (y + t * M) Rc k) as [[nx ny] nz] eqn:En. cbn [fin3 fst snd] in *.
    destruct refl.
    + rewrite reflect_fin. destruct (k_reflect ROps nx ny nz 0 M N) as [[L1 M1] N1] eqn:Er.
      unfold rinteract. cbn [r_refl fst snd fin3]. rewrite Er. cbn [fst snd].
      replace (y + t * M + 0) with (y + t * M) by ring. reflexivity.
    + rewrite refract_fin; [|apply Hn; reflexivity|apply Hrad; reflexivity].
      destruct (k_refract ROps nx ny nz n1 n2 0 M N) as [[L1 M1] N1] eqn:Er.
      unfold rinteract. cbn [r_refl r_n1 r_n2 fst snd fin3]. rewrite Er. cbn [fst snd].
      replace (y + t * M + 0) with (y + t * M) by ring. reflexivity.
Qed.

(** the side conditions hold on a neighbourhood of e = 0 *)
Lemma step_ok_ev N0 z0 ms rs a F h w :
  wf_surf N0 z0 ms rs a -> (N0 = 1 \/ N0 = -1) -> fam_ok F h w N0 z0 ->
  Ev (fun e => step_ok rs (F e)).
Proof.
  intros HW HN0 HF.
  destruct (rnormal_conv _ _ _ _ _ _ _ _ HW HN0 HF) as (nu & Hnu & NXc & NYc & NZc).
  generalize (Y1_conv _ _ _ _ _ _ _ _ HW HN0 HF) (ZL_conv rs F h w N0 z0 HF)
             (T_conv _ _ _ _ _ _ _ _ HW HN0 HF); intros HY1 HZL HT.
  destruct (fam_split _ _ _ _ _ HF) as (Hy & _ & HM & HN).
  assert (HNne : Ev (fun e => fN F e <> 0)).
  { apply (E2_ev_neq _ _ HN). destruct HN0; subst; lra. }
  assert (Hrad : Ev (fun e => r_refl rs = false ->
     let n := rnormal (r_shape rs) (fY1 rs F e) in
     let dot := 0 * fst (fst n) + fM F e * snd (fst n) + fN F e * snd n in
     0 <= 1 - r_n1 rs / r_n2 rs * (r_n1 rs / r_n2 rs) * (1 - Rabs dot * Rabs dot))).
  { eapply Ev_mono; [|apply (radicand_ev (r_n1 rs) (r_n2 rs) N0 nu _ (w * N0) _ _ _ (fM F) (fN F) HN0 Hnu NXc NYc NZc HM HN)].
    intros e He _. exact He. }
  inversion HW as [zs msh rsh c n1 n2 refl Hsh Hz Hn]; subst.
  cbn [r_z r_shape r_refl r_n1 r_n2] in *.
  inversion Hsh as [|Rc k sg Hsg Hpos Hk]; subst.
  - (* plane *)
    assert (Ht : Ev (fun e => 0 <= fT (mkRS zs RPlane n1 n2 refl) F e)).
    { eapply Ev_mono; [|apply (E2_ev_pos _ _ HT)]; [intros; cbv beta in *; lra|].
      cbn [r_z]. lra. }
    eapply Ev_mono; [|apply (Ev_and _ _ HNne (Ev_and _ _ Ht Hrad))].
    intros e (A & B & C). unfold step_ok. cbn [r_z r_shape r_refl r_n1 r_n2].
    repeat split; assumption.
  - (* conic *)
    assert (HR : Rc <> 0) by (intros E; rewrite E in Hpos; lra).
    set (rs := mkRS zs (RStd Rc k sg) n1 n2 refl) in *.
    assert (Ht : Ev (fun e => 0 <= fT rs F e)).
    { eapply Ev_mono; [|apply (E2_ev_pos _ _ HT)]; [intros; cbv beta in *; lra|].
      cbn [r_z rs]. lra. }
    generalize (Af_ev_neq Rc k sg N0 (fM F) (fN F) (w * N0) HN0 Hpos Hk HM HN); intros Ha.
    generalize (Df_ev_pos Rc k sg N0 (z0 - zs) (fY F) (fZL rs F) (fM F) (fN F) h (w * N0) HN0 Hpos Hk Hy HM HN HZL);
      intros Hd.
    generalize (zv_conv Rc k sg N0 (z0 - zs) (fY F) (fZL rs F) (fM F) (fN F) h (w * N0) HN0 Hsg Hpos Hk Hy HM HN HZL)
               (zo_conv Rc k sg N0 (z0 - zs) (fY F) (fZL rs F) (fM F) (fN F) h (w * N0) HN0 Hsg Hpos Hk Hy HM HN HZL);
      intros Hzv Hzo.
    assert (Hsel : Ev (fun e => Rabs (fZL rs F e + conic_tv Rc k sg (fY F e) (fZL rs F e) (fM F e) (fN F e) * fN F e)
                               < Rabs (fZL rs F e + conic_to Rc k sg (fY F e) (fZL rs F e) (fM F e) (fN F e) * fN F e))).
    { apply (E2_ev_lt _ _ _ _ (E2_abs _ _ Hzv) (E2_abs _ _ Hzo)).
      rewrite Rabs_R0. apply Rabs_pos_lt. unfold Rdiv.
      apply Rmult_integral_contrapositive_currified; [lra|apply Rinv_neq_0_compat; exact Hk]. }
    generalize (RAD_ev_pos Rc k (fY1 rs F) _ HR HY1); intros Hr.
    assert (Hon : Ev (fun e => 0 <= (Rc - (1 + k) * (fZL rs F e + conic_tv Rc k sg (fY F e) (fZL rs F e) (fM F e) (fN F e) * fN F e)) * Rc)).
    { set (ZV := fun e => fZL rs F e + conic_tv Rc k sg (fY F e) (fZL rs F e) (fM F e) (fN F e) * fN F e) in *.
      assert (HE : E2 (fun e => (Rc - (1 + k) * ZV e) * Rc) ((Rc - (1 + k) * 0) * Rc)) by conv.
      assert (Hp : 0 < (Rc - (1 + k) * 0) * Rc).
      { replace ((Rc - (1 + k) * 0) * Rc) with (Rc * Rc) by ring.
        destruct (Rtotal_order Rc 0) as [H|[H|H]];
          [replace (Rc * Rc) with ((- Rc) * (- Rc)) by ring; apply Rmult_lt_0_compat; lra|contradiction|apply Rmult_lt_0_compat; lra]. }
      eapply Ev_mono; [|apply (E2_ev_pos _ _ HE Hp)].
      intros e He. cbv beta in He. unfold ZV in He. apply Rlt_le. exact He. }
    eapply Ev_mono; [|apply (Ev_and _ _ HNne (Ev_and _ _ Ht (Ev_and _ _ Hrad (Ev_and _ _ Ha
                               (Ev_and _ _ Hd (Ev_and _ _ Hsel (Ev_and _ _ Hon Hr)))))))].
    intros e (A & B & C & D & E & G & H & I). unfold step_ok. cbn [r_z r_shape r_refl r_n1 r_n2 rs].
    repeat split; assumption.
Qed.

(** ** the whole lens *)
Definition rec_close (C e : R) (r : R * R * R * R) (p : R * R) : Prop :=
  Rabs (st_y r / e - fst p) <= C * (e * e) /\ Rabs (st_M r / st_N r / e - snd p) <= C * (e * e).

Lemma rec_close_mono C C' e r p : C <= C' -> rec_close C e r p -> rec_close C' e r p.
Proof. intros H [A B]. assert (0 <= e * e) by nra. split; nra. Qed.

Lemma fam_records F h w N0 z0 : (N0 = 1 \/ N0 = -1) -> fam_ok F h w N0 z0 ->
  exists C d, 0 <= C /\ 0 < d /\ forall e, Rabs e < d -> e <> 0 -> rec_close C e (F e) (h, w).
Proof.
  intros HN0 HF. destruct (fam_split _ _ _ _ _ HF) as (Hy & _ & HM & HN).
  assert (Hu : Od (fun e => fM F e / fN F e) w).
  { eapply Od_lim; [conv|].
    - destruct HN0; subst; lra.
    - destruct HN0; subst; field. }
  destruct (Od_scaled _ _ Hy) as (C1 & d1 & HC1 & Hd1 & B1).
  destruct (Od_scaled _ _ Hu) as (C2 & d2 & HC2 & Hd2 & B2).
  exists (Rmax C1 C2), (Rmin d1 d2). repeat split.
  - eapply Rle_trans; [exact HC1|apply Rmax_l].
  - apply Rmin_glb_lt; assumption.
  - assert (0 <= e * e) by nra. eapply Rle_trans; [apply B1; auto|].
    + eapply Rlt_le_trans; [eassumption|apply Rmin_l].
    + apply Rmult_le_compat_r; [assumption|apply Rmax_l].
  - assert (0 <= e * e) by nra. eapply Rle_trans; [apply B2; auto|].
    + eapply Rlt_le_trans; [eassumption|apply Rmin_r].
    + apply Rmult_le_compat_r; [assumption|apply Rmax_r].
Qed.

Lemma Forall2_mono {A B} (P Q : A -> B -> Prop) l1 l2 :
  (forall a b, P a b -> Q a b) -> Forall2 P l1 l2 -> Forall2 Q l1 l2.
Proof. intros H; induction 1; constructor; auto. Qed.

Theorem real_trace_converges N0 z0 mss rss ass :
  wf_sys N0 z0 mss rss ass ->
  forall F h w, (N0 = 1 \/ N0 = -1) -> fam_ok F h w N0 z0 ->
  exists C d, 0 <= C /\ 0 < d /\
    forall e, Rabs e < d -> e <> 0 ->
      exists recs, mtrace mss (fin4 (F e)) = Some (map fin4 recs) /\
                   Forall2 (rec_close C e) recs (par_trace ass (h, w, z0)).
Proof.
  induction 1 as [N0 z0|N0 z0 ms rs a mss rss ass HW HS IH]; intros F h w HN0 HF.
  - exists 0, 1. repeat split; try lra. intros e _ _. exists []. split; [reflexivity|constructor].
  - destruct (par_step a (h, w, z0)) as [[h1 w1] z1] eqn:Ep.
    destruct (rstep_conv _ _ _ _ _ _ _ _ _ _ _ HW HN0 HF Ep) as (HF' & Ez1). subst z1.
    generalize (next_N0_pm rs N0 HN0); intros HN0'.
    destruct (IH _ _ _ HN0' HF') as (C' & d' & HC' & Hd' & Htail).
    destruct (fam_records _ _ _ _ _ HN0' HF') as (C1 & d1 & HC1 & Hd1 & Hhead).
    destruct (step_ok_ev _ _ _ _ _ _ _ _ HW HN0 HF) as (d2 & Hd2 & Hok).
    exists (Rmax C1 C'), (Rmin d1 (Rmin d2 d')). repeat split.
    + eapply Rle_trans; [exact HC1|apply Rmax_l].
    + repeat apply Rmin_glb_lt; assumption.
    + intros e He Hne.
      assert (E1 : Rabs e < d1) by (eapply Rlt_le_trans; [exact He|apply Rmin_l]).
      assert (E2' : Rabs e < d2) by (eapply Rlt_le_trans; [exact He|]; eapply Rle_trans; [apply Rmin_r|apply Rmin_l]).
      assert (E3 : Rabs e < d') by (eapply Rlt_le_trans; [exact He|]; eapply Rle_trans; [apply Rmin_r|apply Rmin_r]).
      destruct (Htail e E3 Hne) as (recs & Hm & Hall).
      exists (rstep rs (F e) :: recs). split.
      * cbn [mtrace map]. rewrite (mstep_fin _ _ _ _ _ _ HW (Hok e E2')). rewrite Hm. reflexivity.
      * cbn [par_trace]. rewrite Ep. constructor.
        -- apply rec_close_mono with C1; [apply Rmax_l|]. apply Hhead; assumption.
        -- eapply Forall2_mono; [|exact Hall]. intros r p Hc. apply rec_close_mono with C'; [apply Rmax_r|exact Hc].
Qed.

(** The non-finite clause of Wavefront._opd_image_to_xp over the extended reals (XOps): with finite inputs, a
    FINITE returned distance always puts the point on the reference sphere (no side condition); a ray that
    misses the sphere (negative discriminant) or has a zero direction yields NaN / an infinity, never a
    finite number. *)
From Coq Require Import Reals Lra Lia ZArith List Psatz.
From OV Require Import Ops RInst XR Num.OpsC09 Gen.Wavefront Spec.S_C09 Lemmas.L_C09_sphere.
Import ListNotations.
Local Open Scope R_scope.

Lemma getZ_last_any (O : Ops) (l : list (T O)) (x : T O) : getZ (l ++ [x]) (-1) = x.
Proof. unfold getZ. rewrite nthZ_last. reflexivity. Qed.

Definition fins (l : list R) : list xR := map Fin l.

Section X.
  Variables xc yc zc Rr xr yr zr L M N : R.
  Variables xs ys zs Ls Ms Ns : list R.
  Let a := L * L + M * M + N * N.
  Let b := - (2 * (L * (xr - xc) + M * (yr - yc) + N * (zr - zc))).
  Let c := (xr - xc) * (xr - xc) + (yr - yc) * (yr - yc) + (zr - zc) * (zr - zc) - Rr * Rr.
  Let d := b * b - 4 * a * c.

  Definition t_xp_x : xR :=
    k_wf_image_to_xp XOps (Fin xc) (Fin yc) (Fin zc) (Fin Rr)
      (fins xs ++ [Fin xr]) (fins ys ++ [Fin yr]) (fins zs ++ [Fin zr])
      (fins Ls ++ [Fin L]) (fins Ms ++ [Fin M]) (fins Ns ++ [Fin N]).

  Lemma t_xp_x_unfold :
    t_xp_x =
    (let t1 := xdiv (xsub (xneg (Fin b)) (xsqrt (Fin d))) (Fin (2 * a)) in
     if xltb t1 (Fin 0) then xdiv (xadd (xneg (Fin b)) (xsqrt (Fin d))) (Fin (2 * a)) else t1).
  Proof.
    unfold t_xp_x, k_wf_image_to_xp. rewrite !getZ_last_any. xops. cbn [xadd xsub xmul xneg].
    replace (- L * - L + - M * - M + - N * - N) with a by (unfold a; ring).
    replace (2 * - L * (xr + - xc) + 2 * - M * (yr + - yc) + 2 * - N * (zr + - zc)) with b by (unfold b; ring).
    replace (xr * xr + yr * yr + zr * zr + - (2 * xr * xc) + xc * xc + - (2 * yr * yc) + yc * yc + - (2 * zr * zc) + zc * zc + - (Rr * Rr))
      with c by (unfold c; ring).
    replace (b * b + - (4 * a * c)) with d by (unfold d; ring).
    reflexivity.
  Qed.

  (** a ray that misses the sphere gets NaN *)
  Theorem image_to_xp_miss : d < 0 -> t_xp_x = NaN.
  Proof.
    intros Hd. rewrite t_xp_x_unfold. cbv zeta. cbn [xsqrt].
    destruct (Rlt_dec d 0); [|lra]. cbn [xneg xsub xadd xdiv xltb]. reflexivity.
  Qed.

  (** a finite result is sound, unconditionally *)
  Theorem image_to_xp_finite_sound t :
    t_xp_x = Fin t ->
    a <> 0 /\ 0 <= d /\ on_sphere (xc, yc, zc) (Rr * Rr) (back (xr, yr, zr) (L, M, N) t).
  Proof.
    rewrite t_xp_x_unfold. cbv zeta. cbn [xsqrt].
    destruct (Rlt_dec d 0) as [Hd|Hd]; [cbn [xneg xsub xadd xdiv xltb]; discriminate|].
    cbn [xneg xsub xadd xdiv].
    destruct (Req_EM_T (2 * a) 0) as [Ea|Ea].
    - (* zero direction: every quotient is an infinity or NaN *)
      destruct (Rlt_dec 0 (- b + - sqrt d)); [cbn [xltb]|].
      + destruct (Rlt_dec 0 (- b + sqrt d)); [discriminate|]. destruct (Rlt_dec (- b + sqrt d) 0); discriminate.
      + destruct (Rlt_dec (- b + - sqrt d) 0); cbn [xltb].
        * destruct (Rlt_dec 0 (- b + sqrt d)); [discriminate|]. destruct (Rlt_dec (- b + sqrt d) 0); discriminate.
        * discriminate.
    - assert (Ha : a <> 0) by lra. assert (Hd0 : 0 <= d) by lra.
      cbn [xltb]. unfold Rltb.
      intros H. split; [exact Ha|]. split; [exact Hd0|].
      unfold on_sphere. apply Rminus_diag_uniq. rewrite along_ray. fold a. fold b. fold c.
      destruct (Rlt_dec ((- b + - sqrt d) / (2 * a)) 0); injection H as <-.
      + replace (- b + sqrt d) with (- b + 1 * sqrt d) by ring.
        apply quad_root; [exact Ha|exact Hd0|left; reflexivity].
      + replace (- b + - sqrt d) with (- b + -1 * sqrt d) by ring.
        apply quad_root; [exact Ha|exact Hd0|right; reflexivity].
  Qed.
End X.

(** the hypotheses are satisfiable: the example of L_C09_sphere gives a finite distance; a ray displaced by 7
    from the centre of a sphere of radius 5 and travelling along z misses it *)
Example image_to_xp_miss_example : t_xp_x 0 0 0 5 7 0 0 0 0 1 [] [] [] [] [] [] = NaN.
Proof. apply image_to_xp_miss. lra. Qed.

(** C02: the surface frame: localize/globalize are mutually inverse, and the recorded point is the local hit point *)
From Coq Require Import Reals Lra Lia ZArith List Bool Psatz.
From OV Require Import Ops RInst Gen.RealRays Gen.Standard Gen.Geometries Gen.Apertures Model.Trace Lemmas.L_RealRays.
Import ListNotations.
Local Open Scope R_scope.

Lemma ray_eta (r : ray ROps) : r = mkRay (rx r) (ry r) (rz r) (rL r) (rM r) (rN r) (ri r) (rw r) (ropd r).
Proof. destruct r; reflexivity. Qed.

(** the three optional rotations and the translation of [localize], step by step *)
Definition rotx (a : R) (r : ray ROps) : ray ROps :=
  let '(y, z, M, N) := k_rotate_x ROps a (ry r) (rz r) (rM r) (rN r) in
  mkRay (rx r) y z (rL r) M N (ri r) (rw r) (ropd r).
Definition roty (a : R) (r : ray ROps) : ray ROps :=
  let '(x, z, L, N) := k_rotate_y ROps a (rx r) (rz r) (rL r) (rN r) in
  mkRay x (ry r) z L (rM r) N (ri r) (rw r) (ropd r).
Definition rotz (a : R) (r : ray ROps) : ray ROps :=
  let '(x, y, L, M) := k_rotate_z ROps a (rx r) (ry r) (rL r) (rM r) in
  mkRay x y (rz r) L M (rN r) (ri r) (rw r) (ropd r).
Definition transl (dx dy dz : R) (r : ray ROps) : ray ROps :=
  let '(x, y, z) := k_translate ROps dx dy dz (rx r) (ry r) (rz r) in
  mkRay x y z (rL r) (rM r) (rN r) (ri r) (rw r) (ropd r).

Lemma rotx_inv a r : rotx a (rotx (- a) r) = r.
Proof.
  unfold rotx. generalize (rotate_x_inverse (- a) (ry r) (rz r) (rM r) (rN r)).
  destruct (k_rotate_x ROps (- a) (ry r) (rz r) (rM r) (rN r)) as [[[y z] M] N].
  rewrite Ropp_involutive. cbn [rx ry rz rL rM rN ri rw ropd]. intros ->. symmetry. apply ray_eta.
Qed.
Lemma roty_inv a r : roty a (roty (- a) r) = r.
Proof.
  unfold roty. generalize (rotate_y_inverse (- a) (rx r) (rz r) (rL r) (rN r)).
  destruct (k_rotate_y ROps (- a) (rx r) (rz r) (rL r) (rN r)) as [[[x z] L] N].
  rewrite Ropp_involutive. cbn [rx ry rz rL rM rN ri rw ropd]. intros ->. symmetry. apply ray_eta.
Qed.
Lemma rotz_inv a r : rotz a (rotz (- a) r) = r.
Proof.
  unfold rotz. generalize (rotate_z_inverse (- a) (rx r) (ry r) (rL r) (rM r)).
  destruct (k_rotate_z ROps (- a) (rx r) (ry r) (rL r) (rM r)) as [[[x y] L] M].
  rewrite Ropp_involutive. cbn [rx ry rz rL rM rN ri rw ropd]. intros ->. symmetry. apply ray_eta.
Qed.
Lemma transl_inv dx dy dz r : transl dx dy dz (transl (- dx) (- dy) (- dz) r) = r.
Proof.
  unfold transl, k_translate. rops. cbn [rx ry rz rL rM rN ri rw ropd].
  destruct r as [x y z L M N i w o]. cbn [rx ry rz rL rM rN ri rw ropd]. f_equal; ring.
Qed.

Definition opt (b : bool) (f : ray ROps -> ray ROps) (r : ray ROps) := if b then f r else r.

Lemma localize_steps (s : surf ROps) (r : ray ROps) :
  localize s r =
  opt (nonzero (s_rz s)) (rotz (- s_rz s))
    (opt (nonzero (s_ry s)) (roty (- s_ry s))
       (opt (nonzero (s_rx s)) (rotx (- s_rx s)) (transl (- s_x s) (- s_y s) (- s_z s) r))).
Proof.
  unfold localize, opt, transl, rotx, roty, rotz. rops.
  destruct (k_translate ROps _ _ _ _ _ _) as [[x y] z].
  destruct (nonzero (s_rx s)), (nonzero (s_ry s)), (nonzero (s_rz s)); reflexivity.
Qed.

Lemma globalize_steps (s : surf ROps) (r : ray ROps) :
  globalize s r =
  transl (s_x s) (s_y s) (s_z s)
    (opt (nonzero (s_rx s)) (rotx (s_rx s))
       (opt (nonzero (s_ry s)) (roty (s_ry s))
          (opt (nonzero (s_rz s)) (rotz (s_rz s)) r))).
Proof.
  unfold globalize, opt, transl, rotx, roty, rotz.
  destruct (nonzero (s_rz s)), (nonzero (s_ry s)), (nonzero (s_rx s)); reflexivity.
Qed.

(** going to the surface's own decentred and tilted frame and back is the identity:
    the recorded global point/direction IS the local one expressed in global coordinates *)
Theorem globalize_localize (s : surf ROps) (r : ray ROps) : globalize s (localize s r) = r.
Proof.
  rewrite localize_steps, globalize_steps. unfold opt.
  destruct (nonzero (s_rz s)); rewrite ?rotz_inv;
  destruct (nonzero (s_ry s)); rewrite ?roty_inv;
  destruct (nonzero (s_rx s)); rewrite ?rotx_inv; apply transl_inv.
Qed.

Lemma rotx_inv' a r : rotx (- a) (rotx a r) = r.
Proof.
  unfold rotx. generalize (rotate_x_inverse a (ry r) (rz r) (rM r) (rN r)).
  destruct (k_rotate_x ROps a (ry r) (rz r) (rM r) (rN r)) as [[[y z] M] N].
  cbn [rx ry rz rL rM rN ri rw ropd]. intros ->. symmetry. apply ray_eta.
Qed.
Lemma roty_inv' a r : roty (- a) (roty a r) = r.
Proof.
  unfold roty. generalize (rotate_y_inverse a (rx r) (rz r) (rL r) (rN r)).
  destruct (k_rotate_y ROps a (rx r) (rz r) (rL r) (rN r)) as [[[x z] L] N].
  cbn [rx ry rz rL rM rN ri rw ropd]. intros ->. symmetry. apply ray_eta.
Qed.
Lemma rotz_inv' a r : rotz (- a) (rotz a r) = r.
Proof.
  unfold rotz. generalize (rotate_z_inverse a (rx r) (ry r) (rL r) (rM r)).
  destruct (k_rotate_z ROps a (rx r) (ry r) (rL r) (rM r)) as [[[x y] L] M].
  cbn [rx ry rz rL rM rN ri rw ropd]. intros ->. symmetry. apply ray_eta.
Qed.
Lemma transl_inv' dx dy dz r : transl (- dx) (- dy) (- dz) (transl dx dy dz r) = r.
Proof.
  unfold transl, k_translate. rops. destruct r as [x y z L M N i w o].
  cbn [rx ry rz rL rM rN ri rw ropd]. f_equal; ring.
Qed.

Theorem localize_globalize (s : surf ROps) (r : ray ROps) : localize s (globalize s r) = r.
Proof.
  rewrite localize_steps, globalize_steps. unfold opt. rewrite transl_inv'.
  destruct (nonzero (s_rx s)); rewrite ?rotx_inv';
  destruct (nonzero (s_ry s)); rewrite ?roty_inv';
  destruct (nonzero (s_rz s)); rewrite ?rotz_inv'; reflexivity.
Qed.


Lemma propagate_is_translation_local t (l : ray ROps) k :
  let '(x', y', z', _) := k_propagate ROps t (rx l) (rL l) (ry l) (rM l) (rz l) (rN l) k (rw l) (ri l) in
  x' = rx l + t * rL l /\ y' = ry l + t * rM l /\ z' = rz l + t * rN l.
Proof. unfold k_propagate. rops. repeat split; reflexivity. Qed.

(** the point recorded after a surface, expressed in that surface's own decentred and tilted
    frame, is the incoming local ray advanced by the intersection distance t *)
Theorem recorded_point_in_surface_frame (s : surf ROps) (r r' : ray ROps) :
  trace_surface s r = Some r' ->
  exists t : R,
    distance (s_shape s) (localize s r) = Some t /\
    let l := localize s r in let l' := localize s r' in
    rx l' = rx l + t * rL l /\ ry l' = ry l + t * rM l /\ rz l' = rz l + t * rN l.
Proof.
  unfold trace_surface.
  destruct (distance (s_shape s) (localize s r)) as [t|] eqn:Ed; [|discriminate].
  generalize (propagate_is_translation_local t (localize s r) (s_k1 s)).
  destruct (k_propagate ROps _ _ _ _ _ _ _ _ _ _) as [[[x y] z] i]. intros (Ex & Ey & Ez).
  destruct (s_aper s) as [[rmax rmin]|]; cbn [rx ry rz rL rM rN ri rw ropd];
    (destruct (normal _ _) as [[[nx ny] nz]|]; [|discriminate]);
    destruct (if s_refl s then _ else _) as [[L M] N];
    intros H; injection H as <-; exists t; (split; [reflexivity|]);
    cbv zeta; rewrite localize_globalize; cbn [rx ry rz]; repeat split; assumption.
Qed.

(** Theorems about the Seidel / colour terms (C08): the regenerated term kernels, fed with the
    pre-computed quantities of the hand model, equal Welford's classical surface contributions. *)
From Coq Require Import Reals Lra Lia ZArith List Bool Psatz.
From OV Require Import Ops RInst Gen.Seidel Model.Seidel Spec.S_Seidel.
Import ListNotations.
Local Open Scope R_scope.

Ltac sunfold :=
  unfold TSC_row, CC_row, TAC_row, TPC_row, DC_row, TAchC_row, TchC_row,
         k_TSC_term, k_CC_term, k_TAC_term, k_TPC_term, k_DC_term, k_TAchC_term, k_TchC_term,
         nwin, uawin, B_of, Bp_of, hp_of, i_of, ip_of, two;
  cbn [getZ nthZ length Z.of_nat Z.ltb Z.leb Z.sub Z.add Z.opp orb nth_error Z.to_nat Pos.to_nat
       r_n0 r_n1 r_c r_ya r_ua0 r_ua1 r_yb r_ub0 r_ub1 r_dn0 r_dn1 g_inv g_nl g_ul]; rops.

Lemma g1 (a : R) : getZ (O:=ROps) [a] 0 = a. Proof. reflexivity. Qed.
Lemma g20 (a b : R) : getZ (O:=ROps) [a; b] 0 = a. Proof. reflexivity. Qed.
Lemma g21 (a b : R) : getZ (O:=ROps) [a; b] 1 = b. Proof. reflexivity. Qed.
Lemma g30 (a b c : R) : getZ (O:=ROps) [a; b; c] 0 = a. Proof. reflexivity. Qed.
Lemma g31 (a b c : R) : getZ (O:=ROps) [a; b; c] 1 = b. Proof. reflexivity. Qed.
Lemma g3l (a b c : R) : getZ (O:=ROps) [a; b; c] (-1) = c. Proof. reflexivity. Qed.
Lemma Rlit_half : Rlit 5 (-1) = / 2.
Proof. unfold Rlit. simpl. lra. Qed.
Ltac gz := rewrite ?g1, ?g20, ?g21, ?g30, ?g31, ?g3l.

Section Row.
  Variables n n' c y u u' yb ub ub' dn dn' H nl ul : R.
  Let r := mkRow (O:=ROps) n n' c y u u' yb ub ub' dn dn'.
  Let g := mkGlob (O:=ROps) H nl ul.
  Let K := nl * ul.
  Hypothesis Hn : n <> 0.
  Hypothesis Hn' : n' <> 0.
  Hypothesis HH : H <> 0.
  Hypothesis HK : K <> 0.
  (** the marginal and chief rays are refracted at this surface *)
  Hypothesis Hrefr : n' * u' = n * u - y * c * (n' - n).
  Hypothesis Hrefrb : n' * ub' = n * ub - yb * c * (n' - n).
  (** Lagrange invariant evaluated in front of the surface *)
  Hypothesis Hinv : H = n * (yb * u - y * ub).

  Lemma nl_nz : nl <> 0. Proof. intro Z; apply HK; unfold K; rewrite Z; ring. Qed.
  Lemma ul_nz : ul <> 0. Proof. intro Z; apply HK; unfold K; rewrite Z; ring. Qed.
  Ltac nz := repeat split; try assumption; try apply nl_nz; try apply ul_nz.

  Lemma denom_nz : Reqb (2 * n' * H) 0 = false.
  Proof. apply Reqb_false. intro E. apply HH. nra. Qed.

  Lemma getZ_simpl_1 (a : R) : getZ (O:=ROps) [a] (1 - 1) = a.
  Proof. reflexivity. Qed.

  Theorem TSC_is_classical : 2 * K * TSC_row g r = S_I n n' c y u u'.
  Proof.
    unfold r, g. sunfold. simpl. gz. rewrite denom_nz. unfold S_I, Ai, Dun, K in *.
    assert (E : n * u' - n' * u = - (n' - n) * (u' + (c * y + u))) by nra.
    replace (u' / n' - u / n) with ((n * u' - n' * u) / (n * n')) by (field; repeat split; assumption).
    rewrite E. field. nz.
  Qed.

  Lemma Eb : n * ub' - n' * ub = - (n' - n) * (ub' + (c * yb + ub)).
  Proof. nra. Qed.
  Lemma Em : n * u' - n' * u = - (n' - n) * (u' + (c * y + u)).
  Proof. nra. Qed.

  Theorem CC_is_classical : 2 * K * CC_row g r = S_II n n' c y u u' yb ub.
  Proof.
    unfold r, g. sunfold. simpl. gz. rewrite denom_nz. unfold S_II, Ai, Abar, Dun, K in *.
    replace (u' / n' - u / n) with ((n * u' - n' * u) / (n * n')) by (field; repeat split; assumption).
    rewrite Em. field. nz.
  Qed.

  Theorem TAC_is_classical : 2 * K * TAC_row g r = S_III n n' c y u u' yb ub.
  Proof.
    unfold r, g. sunfold. simpl. gz. rewrite denom_nz. unfold S_III, Abar, Dun, K in *.
    replace (u' / n' - u / n) with ((n * u' - n' * u) / (n * n')) by (field; repeat split; assumption).
    rewrite Em. field. nz.
  Qed.

  Theorem TPC_is_classical : 2 * K * TPC_row g r = S_IV n n' c H.
  Proof.
    unfold r, g. sunfold. simpl. gz. unfold S_IV, K in *. field. nz.
  Qed.

  Theorem TAchC_is_classical : K * TAchC_row g r = C_I n n' c y u dn dn'.
  Proof.
    unfold r, g. sunfold. simpl. gz. unfold C_I, Ai, K in *. field. nz.
  Qed.

  Theorem TchC_is_classical : K * TchC_row g r = C_II n n' c y yb ub dn dn'.
  Proof.
    unfold r, g. sunfold. simpl. gz. unfold C_II, Abar, K in *. field. nz.
  Qed.

  Theorem DC_is_classical : u + y * c <> 0 -> 2 * K * DC_row g r = S_V n n' c y u u' yb ub H.
  Proof.
    intros HA.
    assert (Eu : u' = (n * u - y * c * (n' - n)) / n') by (apply Rmult_eq_reg_l with n'; [field_simplify_eq; [nra|assumption]|assumption]).
    assert (Eub : ub' = (n * ub - yb * c * (n' - n)) / n') by (apply Rmult_eq_reg_l with n'; [field_simplify_eq; [nra|assumption]|assumption]).
    unfold r, g. sunfold. simpl. gz. rewrite denom_nz.
    unfold S_V, S_III, S_IV, Ai, Abar, Dun, K in *.
    assert (HH' : n * (yb * u - y * ub) <> 0) by (rewrite <- Hinv; assumption).
    rewrite ?Rlit_half. rewrite Eu, Eub, Hinv. field. nz; try lra. intro Z. apply HH'. rewrite Z. ring.
  Qed.

  (** spherical aberration and Petzval do not involve the chief ray (stop position) *)
  Theorem TSC_stop_independent :
    TSC_row g r = n * (n' - n) * y * (u' + (c * y + u)) * ((c * y + u) * (c * y + u)) / (2 * n' * K).
  Proof.
    unfold r, g. sunfold. simpl. gz. rewrite denom_nz. unfold K in *. field. nz.
  Qed.
  Theorem TPC_depends_on_invariant_only :
    TPC_row g r = (n' - n) * c * (H * H) / (2 * n' * n * K).
  Proof.
    unfold r, g. sunfold. simpl. gz. unfold K in *. field. nz.
  Qed.
End Row.

(** ** sums over any number of surfaces *)
Lemma fold_add_acc (l : list R) : forall a, fold_left Rplus l a = a + fold_left Rplus l 0.
Proof.
  induction l as [|x l IH]; intros a; cbn [fold_left]; [ring|].
  rewrite (IH (a + x)), (IH (0 + x)). ring.
Qed.
Lemma sum_list_cons (x : R) l : sum_list (O:=ROps) (x :: l) = x + sum_list (O:=ROps) l.
Proof. unfold sum_list. rops. cbn [fold_left]. rewrite fold_add_acc. ring. Qed.
Lemma sum_list_nil : sum_list (O:=ROps) [] = 0.
Proof. reflexivity. Qed.

Lemma sum_scale (A : Type) (f h : A -> R) (k : R) (rows : list A) :
  Forall (fun r => k * f r = h r) rows ->
  k * sum_list (O:=ROps) (map f rows) = sum_list (O:=ROps) (map h rows).
Proof.
  induction 1 as [|r rows Hr _ IH]; cbn [map]; [change (sum_list (O:=ROps) []) with 0; ring|].
  rewrite !sum_list_cons, <- IH, <- Hr. ring.
Qed.

(** every Seidel sum reported by the library is minus the sum of the classical surface
    contributions (Smith's sign convention), for any list of surfaces *)
Theorem seidel_sum_classical (g : sglob ROps) (rows : list (srow ROps)) (f : sglob ROps -> srow ROps -> R) (h : srow ROps -> R) :
  Forall (fun r => 2 * (g_nl g * g_ul g) * f g r = h r) rows ->
  seidel_sum g (fam f g rows) = - sum_list (O:=ROps) (map h rows).
Proof.
  intros HF. unfold seidel_sum, fam, two. rops.
  rewrite <- (sum_scale _ (f g) h (2 * (g_nl g * g_ul g)) rows HF). ring.
Qed.

(** defining identities of the returned families (structure of third_order) *)
Theorem third_order_identities (g : sglob ROps) (rows : list (srow ROps)) :
  let t := third_order g rows in
  nth 3 t [] = map (fun x => x * 3) (nth 2 t []) /\
  nth 1 t [] = map (fun x => - x / g_ul g) (nth 0 t []) /\
  nth 5 t [] = map (fun x => - x / g_ul g) (nth 4 t []) /\
  nth 7 t [] = map (fun x => - x / g_ul g) (nth 6 t []) /\
  nth 10 t [] = map (fun x => - x / g_ul g) (nth 9 t []) /\
  nth 12 t [] = map (fun l => - sum_list (O:=ROps) l * g_nl g * g_ul g * 2)
                    [nth 0 t []; nth 2 t []; nth 4 t []; nth 6 t []; nth 8 t []] /\
  Forall (fun l => length l = length rows) (firstn 12 t).
Proof.
  cbv zeta. unfold third_order, fam, long, seidel_sum, two. rops. cbn [nth firstn map].
  repeat split; try reflexivity.
  repeat constructor; rewrite ?map_length; reflexivity.
Qed.

(** non-vacuity: a refracting surface with a non-zero invariant meets the hypotheses *)
Example row_hypotheses_satisfiable :
  let n := 1 in let n' := 1.5 in let c := / 50 in let y := 5 in let u := 0 in
  let u' := (n * u - y * c * (n' - n)) / n' in
  let yb := 0 in let ub := 0.05 in let ub' := (n * ub - yb * c * (n' - n)) / n' in
  n' * u' = n * u - y * c * (n' - n) /\ n' * ub' = n * ub - yb * c * (n' - n) /\ n * (yb * u - y * ub) <> 0.
Proof. cbv zeta. repeat split; try (field; lra). lra. Qed.

(** Polarization ray trace (hand model Model/M_C17.v of optiland/rays/polarized_rays.py):
    s-p-k frames are orthonormal, an uncoated surface is an isometry that maps fields transverse
    to k0 to fields transverse to k1, lifted over any list of surfaces; unpolarized = mean over
    any orthogonal pair of input states, for arbitrary accumulated matrices (any coatings). *)
From Coq Require Import Reals Lra Lia ZArith List String Psatz Nsatz.
From OV Require Import Ops RInst Cx Spec.S_C17 Model.M_C17.
Import ListNotations.
Local Open Scope R_scope.

Local Notation V := (V3 ROps).
Local Notation CV := (CV3 ROps).
Local Notation dot := (@dot3 ROps).
Local Notation crs := (@cross ROps).
Local Notation nrm := (@norm3 ROps).
Local Notation xh := (@xhat ROps).

Ltac vx_unfold :=
  cbv beta iota zeta delta [unit3 orthonormal3 transverse Cx.dot3 Cx.cross Cx.norm3 Cx.vdiv Cx.cv_abs2 Cx.cv_dotr
    xhat rows3 cols3 cv_lin m3_ofR Cx.m3_mul Cx.m3_apply m3_id
    Cx.cexp Cx.cdiv Cx.cmul Cx.cadd Cx.csub Cx.cneg Cx.cconj Cx.cscale Cx.cI Cx.c0 Cx.c1 Cx.cofR Cx.cabs2 Ccis
    herm2 unit2 fst snd
    T add sub mul div neg sqrt_ abs_ sign_ ltb_ leb_ eqb_ isnan_ isinf_ ofZ lit
    inf_ nan_ pi_ cos_ sin_ tan_ exp_ acos_ asin_ atan2_ pow_ floor_ ROps] in *.
Ltac split_eq := rops; repeat (match goal with
  | |- (_, _) = (_, _) => f_equal
  end).
Ltac v3d v := let x := fresh v "x" in let y := fresh v "y" in let z := fresh v "z" in destruct v as [[x y] z].

(** ** vector algebra *)
Lemma cross_perp_l (a b : V) : dot (crs a b) a = 0.
Proof. v3d a. v3d b. vx_unfold. (rops; ring). Qed.
Lemma cross_perp_r (a b : V) : dot (crs a b) b = 0.
Proof. v3d a. v3d b. vx_unfold. (rops; ring). Qed.
Lemma dot_sym (a b : V) : dot a b = dot b a.
Proof. v3d a. v3d b. vx_unfold. (rops; ring). Qed.
Lemma lagrange (a b : V) : dot (crs a b) (crs a b) = dot a a * dot b b - dot a b * dot a b.
Proof. v3d a. v3d b. vx_unfold. (rops; ring). Qed.
Lemma dot_nonneg (a : V) : 0 <= dot a a.
Proof. v3d a. vx_unfold. nra. Qed.
Lemma norm_sq (a : V) : nrm a * nrm a = dot a a.
Proof. unfold Cx.norm3. rops. apply sqrt_sqrt. apply dot_nonneg. Qed.
Lemma vdiv_dot (a b : V) (m : R) : m <> 0 -> dot (vdiv a m) b = dot a b / m.
Proof. intros. v3d a. v3d b. vx_unfold. (rops; field). assumption. Qed.
Lemma vdiv_dot2 (a : V) (m : R) : m <> 0 -> dot (vdiv a m) (vdiv a m) = dot a a / (m * m).
Proof. intros. v3d a. vx_unfold. (rops; field). assumption. Qed.
Lemma normalize_unit (a : V) : nrm a <> 0 -> unit3 (vdiv a (nrm a)).
Proof.
  intros H. unfold unit3. rewrite vdiv_dot2 by exact H. rewrite norm_sq. rops.
  (rops; field). rewrite <- norm_sq. apply Rmult_integral_contrapositive_currified; exact H.
Qed.
Lemma norm0_zero (a : V) : nrm a = 0 -> a = (0, 0, 0).
Proof.
  intros H. generalize (norm_sq a). rewrite H. v3d a. vx_unfold. intros E.
  assert (ax = 0) by nra. assert (ay = 0) by nra. assert (az = 0) by nra. subst. reflexivity.
Qed.
(** Gram identity specialised: (s, k x s, k) is a complete orthonormal frame *)
Lemma parseval (s k v : V) : unit3 s -> unit3 k -> dot s k = 0 ->
  dot s v * dot s v + dot (crs k s) v * dot (crs k s) v + dot k v * dot k v = dot v v.
Proof.
  unfold unit3. intros Hs Hk Hsk.
  assert (G : dot (crs k s) v * dot (crs k s) v =
              dot k k * dot s s * dot v v + 2 * dot s k * dot s v * dot k v
              - dot k k * (dot s v * dot s v) - dot s s * (dot k v * dot k v) - dot v v * (dot s k * dot s k)).
  { v3d s. v3d k. v3d v. vx_unfold. (rops; ring). }
  rewrite G, Hs, Hk, Hsk. (rops; ring).
Qed.

(** ** the s-vector of [update] *)
Definition par_tolR : R := Rlit 1 (-8).
Lemma par_tolR_val : par_tolR = / 100000000.
Proof. unfold par_tolR, Rlit. cbn. (rops; field). Qed.
Lemma par_tolR_pos : 0 < par_tolR < 1.
Proof. rewrite par_tolR_val. lra. Qed.
Lemma par_tol_R : par_tol (O:=ROps) = par_tolR.
Proof. reflexivity. Qed.
(** either the deviation is resolvable (|k0 x k1| >= 1e-8), or the ray is exactly undeviated / retro-reflected
    and not along the x axis.  (The gap 0 < |k0 x k1| < 1e-8 is covered by [near_parallel_surface_bound].) *)
Definition nondegenerate (k0 k1 : V) : Prop :=
  par_tolR <= nrm (crs k0 k1) \/ (nrm (crs k0 k1) = 0 /\ nrm (crs k0 xh) <> 0).

Lemma s_vector_parallel (k0 k1 : V) : nrm (crs k0 k1) < par_tolR ->
  s_vector (O:=ROps) k0 k1 = vdiv (crs k0 xh) (nrm (crs k0 xh)).
Proof.
  intros H. unfold s_vector. rewrite par_tol_R. rops.
  assert (E : Rltb (nrm (crs k0 k1)) par_tolR = true) by (apply Rltb_true; exact H).
  rewrite E. reflexivity.
Qed.
Lemma s_vector_generic (k0 k1 : V) : par_tolR <= nrm (crs k0 k1) ->
  s_vector (O:=ROps) k0 k1 = vdiv (crs k0 k1) (nrm (crs k0 k1)).
Proof.
  intros H. unfold s_vector. rewrite par_tol_R. rops.
  assert (E : Rltb (nrm (crs k0 k1)) par_tolR = false) by (apply Rltb_false; exact H).
  rewrite E. reflexivity.
Qed.

Lemma s_vector_frame (k0 k1 : V) : unit3 k0 -> unit3 k1 -> nondegenerate k0 k1 ->
  let s := s_vector (O:=ROps) k0 k1 in unit3 s /\ dot s k0 = 0 /\ dot s k1 = 0.
Proof.
  generalize par_tolR_pos. intros Htol H0 H1 [Hn|[Hz Hx]]; cbv zeta.
  - rewrite s_vector_generic by exact Hn.
    assert (Hne : nrm (crs k0 k1) <> 0) by lra.
    repeat split.
    + apply normalize_unit. exact Hne.
    + rewrite vdiv_dot by exact Hne. rewrite cross_perp_l. unfold Rdiv; (rops; ring).
    + rewrite vdiv_dot by exact Hne. rewrite cross_perp_r. unfold Rdiv; (rops; ring).
  - rewrite s_vector_parallel by lra. repeat split.
    + apply normalize_unit. exact Hx.
    + rewrite vdiv_dot by exact Hx. rewrite cross_perp_l. unfold Rdiv; (rops; ring).
    + rewrite vdiv_dot by exact Hx.
      (* k0 x k1 = 0 and |k0| = 1 give k1 = (k0.k1) k0 *)
      generalize (norm0_zero _ Hz). clear Hz Hx. unfold unit3 in *.
      v3d k0. v3d k1. vx_unfold. intros Ez. injection Ez as E1 E2 E3.
      assert (A : k1x = (k0x * k1x + k0y * k1y + k0z * k1z) * k0x) by nsatz.
      assert (B : k1y = (k0x * k1x + k0y * k1y + k0z * k1z) * k0y) by nsatz.
      assert (D : k1z = (k0x * k1x + k0y * k1y + k0z * k1z) * k0z) by nsatz.
      set (q := k0x * k1x + k0y * k1y + k0z * k1z) in *.
      rewrite A, B, D. unfold Rdiv; (rops; ring).
Qed.
Lemma p_vector_frame (k s : V) : unit3 k -> unit3 s -> dot s k = 0 ->
  orthonormal3 s (crs k s) k.
Proof.
  unfold orthonormal3, unit3. intros Hk Hs Hsk. repeat split; try assumption.
  - rewrite lagrange, Hk, Hs, (dot_sym k s), Hsk. (rops; ring).
  - rewrite dot_sym. apply cross_perp_r.
  - apply cross_perp_l.
Qed.

(** ** one uncoated surface is an isometry carrying k0 to k1 *)
Definition re3 (e : CV) : V := (fst (fst (fst e)), fst (snd (fst e)), fst (snd e)).
Definition im3 (e : CV) : V := (snd (fst (fst e)), snd (snd (fst e)), snd (snd e)).
Lemma abs2_split (e : CV) : cv_abs2 (O:=ROps) e = dot (re3 e) (re3 e) + dot (im3 e) (im3 e).
Proof. destruct e as [[[a b] [c d]] [f g]]. unfold re3, im3. vx_unfold. (rops; ring). Qed.
Lemma rows_apply (a b c : V) (e : CV) :
  m3_apply (O:=ROps) (rows3 a b c) e =
  ((dot a (re3 e), dot a (im3 e)), (dot b (re3 e), dot b (im3 e)), (dot c (re3 e), dot c (im3 e))).
Proof. v3d a. v3d b. v3d c. destruct e as [[[e1 e2] [e3 e4]] [e5 e6]]. unfold re3, im3. vx_unfold. split_eq; (rops; ring). Qed.
Definition re_dot (x y : C) : R := fst x * fst y + snd x * snd y.
Lemma cols_norm_expand (a b c : V) (w : CV) :
  cv_abs2 (O:=ROps) (m3_apply (O:=ROps) (cols3 a b c) w) =
    cabs2 (O:=ROps) (fst (fst w)) * dot a a + cabs2 (O:=ROps) (snd (fst w)) * dot b b + cabs2 (O:=ROps) (snd w) * dot c c
    + 2 * re_dot (fst (fst w)) (snd (fst w)) * dot a b + 2 * re_dot (fst (fst w)) (snd w) * dot a c
    + 2 * re_dot (snd (fst w)) (snd w) * dot b c.
Proof.
  destruct w as [[[x1 x2] [y1 y2]] [z1 z2]]. v3d a. v3d b. v3d c. unfold re_dot. vx_unfold. (rops; ring).
Qed.
Lemma cols_norm (a b c : V) (w : CV) : orthonormal3 a b c ->
  cv_abs2 (O:=ROps) (m3_apply (O:=ROps) (cols3 a b c) w) = cv_abs2 (O:=ROps) w.
Proof.
  intros (Ha & Hb & Hc & Hab & Hac & Hbc). unfold unit3 in *.
  rewrite cols_norm_expand, Ha, Hb, Hc, Hab, Hac, Hbc.
  destruct w as [[[x1 x2] [y1 y2]] [z1 z2]]. unfold re_dot. vx_unfold. (rops; ring).
Qed.
Lemma cols_dot_expand (a b c : V) (w : CV) :
  cv_dotr (O:=ROps) (m3_apply (O:=ROps) (cols3 a b c) w) c =
    (fst (fst (fst w)) * dot a c + fst (snd (fst w)) * dot b c + fst (snd w) * dot c c,
     snd (fst (fst w)) * dot a c + snd (snd (fst w)) * dot b c + snd (snd w) * dot c c).
Proof.
  destruct w as [[[x1 x2] [y1 y2]] [z1 z2]]. v3d a. v3d b. v3d c. vx_unfold. split_eq; (rops; ring).
Qed.
Lemma cols_dot (a b c : V) (w : CV) : orthonormal3 a b c ->
  cv_dotr (O:=ROps) (m3_apply (O:=ROps) (cols3 a b c) w) c = snd w.
Proof.
  intros (Ha & Hb & Hc & Hab & Hac & Hbc). unfold unit3 in *.
  rewrite cols_dot_expand, Hc, Hac, Hbc.
  destruct w as [[[x1 x2] [y1 y2]] [z1 z2]]. cbn [fst snd]. split_eq; (rops; ring).
Qed.

Section Surface.
  Variables k0 k1 : V.
  Hypothesis H0 : unit3 k0.
  Hypothesis H1 : unit3 k1.
  Hypothesis Hnd : nondegenerate k0 k1.

  Lemma frames_orthonormal :
    let s := s_vector (O:=ROps) k0 k1 in
    orthonormal3 s (crs k0 s) k0 /\ orthonormal3 s (crs k1 s) k1.
  Proof.
    destruct (s_vector_frame k0 k1 H0 H1 Hnd) as (Hs & Hs0 & Hs1).
    split; apply p_vector_frame; assumption.
  Qed.

  Lemma surface_apply (e : CV) :
    m3_apply (O:=ROps) (surface_matrix (O:=ROps) k0 k1 None) e =
    m3_apply (O:=ROps) (o_out (O:=ROps) k0 k1) (m3_apply (O:=ROps) (o_in (O:=ROps) k0 k1) e).
  Proof.
    unfold surface_matrix. generalize (o_out (O:=ROps) k0 k1) (o_in (O:=ROps) k0 k1). intros A B.
    destruct A as [[[[[[[[a1 a2] a3] a4] a5] a6] a7] a8] a9].
    destruct B as [[[[[[[[b1 b2] b3] b4] b5] b6] b7] b8] b9].
    destruct a1, a2, a3, a4, a5, a6, a7, a8, a9, b1, b2, b3, b4, b5, b6, b7, b8, b9.
    destruct e as [[[e1 e2] [e3 e4]] [e5 e6]]. vx_unfold. split_eq; (rops; ring).
  Qed.

  Theorem uncoated_surface_isometry (e : CV) :
    cv_abs2 (O:=ROps) (m3_apply (O:=ROps) (surface_matrix (O:=ROps) k0 k1 None) e) = cv_abs2 (O:=ROps) e.
  Proof.
    destruct frames_orthonormal as (Fin & Fout).
    destruct (s_vector_frame k0 k1 H0 H1 Hnd) as (Hs & Hs0 & Hs1).
    rewrite surface_apply. unfold o_out, o_in. rewrite cols_norm by exact Fout.
    rewrite rows_apply. rewrite (abs2_split e).
    rewrite <- (parseval (s_vector (O:=ROps) k0 k1) k0 (re3 e)) by assumption.
    rewrite <- (parseval (s_vector (O:=ROps) k0 k1) k0 (im3 e)) by assumption.
    vx_unfold. (rops; ring).
  Qed.
  Theorem uncoated_surface_transverse (e : CV) :
    cv_dotr (O:=ROps) (m3_apply (O:=ROps) (surface_matrix (O:=ROps) k0 k1 None) e) k1 = cv_dotr (O:=ROps) e k0.
  Proof.
    destruct frames_orthonormal as (Fin & Fout).
    rewrite surface_apply. unfold o_out, o_in. rewrite cols_dot by exact Fout.
    rewrite rows_apply. cbn [snd]. destruct e as [[[e1 e2] [e3 e4]] [e5 e6]]. v3d k0. unfold re3, im3.
    vx_unfold. split_eq; (rops; ring).
  Qed.
End Surface.

(** ** the gap 0 < |k0 x k1| < 1e-8: the fallback frame is exact for k0 and off by at most |k0 x k1| for k1,
       so one surface changes |E|^2 by at most the relative amount |k0 x k1| (< 1e-8) *)
Lemma sq_nn (a : R) : 0 <= a * a.
Proof. generalize (Rle_0_sqr a). unfold Rsqr. lra. Qed.
Lemma mix_bound (d m x z : R) : - m <= d <= m -> 2 * d * (x * z) <= m * (x * x + z * z) /\ - (m * (x * x + z * z)) <= 2 * d * (x * z).
Proof.
  intros [Hl Hu].
  assert (P1 : 0 <= (m - d) * ((x + z) * (x + z))) by (apply Rmult_le_pos; [lra|apply sq_nn]).
  assert (P2 : 0 <= (m + d) * ((x - z) * (x - z))) by (apply Rmult_le_pos; [lra|apply sq_nn]).
  assert (P3 : 0 <= (m - d) * ((x - z) * (x - z))) by (apply Rmult_le_pos; [lra|apply sq_nn]).
  assert (P4 : 0 <= (m + d) * ((x + z) * (x + z))) by (apply Rmult_le_pos; [lra|apply sq_nn]).
  split; nra.
Qed.
Lemma bound_core (d m X1 X2 Y1 Y2 Z1 Z2 : R) : d * d <= m * m -> 0 <= m -> m <= 1 ->
  Rabs (- (d * d) * (Y1 * Y1 + Y2 * Y2) + 2 * d * (X1 * Z1 + X2 * Z2))
  <= m * (X1 * X1 + X2 * X2 + (Y1 * Y1 + Y2 * Y2) + (Z1 * Z1 + Z2 * Z2)).
Proof.
  intros Hd Hm Hm1.
  assert (Hdm : - m <= d <= m) by (split; nra).
  destruct (mix_bound d m X1 Z1 Hdm) as [U1 L1]. destruct (mix_bound d m X2 Z2 Hdm) as [U2 L2].
  assert (Hy : 0 <= Y1 * Y1 + Y2 * Y2) by (generalize (sq_nn Y1) (sq_nn Y2); lra).
  assert (Hdd : d * d <= m) by nra.
  assert (Hq : d * d * (Y1 * Y1 + Y2 * Y2) <= m * (Y1 * Y1 + Y2 * Y2)) by (apply Rmult_le_compat_r; assumption).
  assert (Hq0 : 0 <= d * d * (Y1 * Y1 + Y2 * Y2)) by (apply Rmult_le_pos; [apply sq_nn|assumption]).
  apply Rabs_le. split; lra.
Qed.

Theorem near_parallel_surface_bound (k0 k1 : V) (e : CV) :
  unit3 k0 -> unit3 k1 -> nrm (crs k0 k1) < par_tolR -> nrm (crs k0 xh) <> 0 ->
  Rabs (cv_abs2 (O:=ROps) (m3_apply (O:=ROps) (surface_matrix (O:=ROps) k0 k1 None) e) - cv_abs2 (O:=ROps) e)
  <= nrm (crs k0 k1) * cv_abs2 (O:=ROps) e.
Proof.
  intros H0 H1 Hpar Hx. generalize par_tolR_pos. intros Htol.
  rewrite surface_apply. unfold o_out, o_in. rewrite (s_vector_parallel k0 k1 Hpar).
  set (s := vdiv (crs k0 xh) (nrm (crs k0 xh))).
  assert (Hs : unit3 s) by (apply normalize_unit; exact Hx).
  assert (Hs0 : dot s k0 = 0) by (unfold s; rewrite vdiv_dot by exact Hx; rewrite cross_perp_l; unfold Rdiv; (rops; ring)).
  set (d := dot s k1).
  set (m := nrm (crs k0 k1)) in *.
  assert (Hm0 : 0 <= m) by (unfold m, Cx.norm3; rops; apply sqrt_pos).
  assert (Hmm : m * m = 1 - dot k0 k1 * dot k0 k1).
  { unfold m. rewrite norm_sq, lagrange. unfold unit3 in H0, H1. rewrite H0, H1. (rops; ring). }
  assert (Hd : d * d <= m * m).
  { generalize (parseval s k0 k1 Hs H0 Hs0). fold d. unfold unit3 in H1. rewrite H1, Hmm. intros P.
    assert (0 <= dot (crs k0 s) k1 * dot (crs k0 s) k1) by nra. nra. }
  rewrite cols_norm_expand, rows_apply. cbn [fst snd].
  unfold unit3 in Hs, H1.
  assert (Gb : dot (crs k1 s) (crs k1 s) = 1 - d * d).
  { rewrite lagrange, H1, Hs, (dot_sym k1 s). fold d. (rops; ring). }
  assert (Gab : dot s (crs k1 s) = 0) by (rewrite dot_sym; apply cross_perp_r).
  assert (Gbc : dot (crs k1 s) k1 = 0) by apply cross_perp_l.
  rewrite Hs, H1, Gb, Gab, Gbc. fold d.
  rewrite (abs2_split e).
  rewrite <- (parseval s k0 (re3 e) Hs H0 Hs0), <- (parseval s k0 (im3 e) Hs H0 Hs0).
  set (X1 := dot s (re3 e)). set (X2 := dot s (im3 e)).
  set (Y1 := dot (crs k0 s) (re3 e)). set (Y2 := dot (crs k0 s) (im3 e)).
  set (Z1 := dot k0 (re3 e)). set (Z2 := dot k0 (im3 e)).
  generalize (bound_core d m X1 X2 Y1 Y2 Z1 Z2 Hd Hm0 ltac:(lra)). intros B.
  unfold re_dot, Cx.cabs2. rops. cbn [fst snd].
  match goal with |- Rabs ?a <= ?b =>
    replace a with (- (d * d) * (Y1 * Y1 + Y2 * Y2) + 2 * d * (X1 * Z1 + X2 * Z2)) by (rops; ring);
    replace b with (m * (X1 * X1 + X2 * X2 + (Y1 * Y1 + Y2 * Y2) + (Z1 * Z1 + Z2 * Z2))) by (rops; ring) end.
  exact B.
Qed.

(** ** lifted over any list of uncoated surfaces *)
Fixpoint chain_ok (k : V) (surfs : list (V * option (M3 ROps))) : Prop :=
  match surfs with
  | [] => True
  | (k', J) :: rest => J = None /\ unit3 k' /\ nondegenerate k k' /\ chain_ok k' rest
  end.

Lemma m3_apply_mul (A B : M3 ROps) (v : CV) :
  m3_apply (O:=ROps) (m3_mul (O:=ROps) A B) v = m3_apply (O:=ROps) A (m3_apply (O:=ROps) B v).
Proof.
  destruct A as [[[[[[[[a1 a2] a3] a4] a5] a6] a7] a8] a9].
  destruct B as [[[[[[[[b1 b2] b3] b4] b5] b6] b7] b8] b9].
  destruct a1, a2, a3, a4, a5, a6, a7, a8, a9, b1, b2, b3, b4, b5, b6, b7, b8, b9.
  destruct v as [[[e1 e2] [e3 e4]] [e5 e6]]. vx_unfold. split_eq; (rops; ring).
Qed.

Theorem uncoated_trace_isometry : forall surfs k P e,
  unit3 k -> chain_ok k surfs ->
  cv_abs2 (O:=ROps) (m3_apply (O:=ROps) (trace_P (O:=ROps) k surfs P) e) = cv_abs2 (O:=ROps) (m3_apply (O:=ROps) P e) /\
  cv_dotr (O:=ROps) (m3_apply (O:=ROps) (trace_P (O:=ROps) k surfs P) e) (last_dir (O:=ROps) k surfs)
    = cv_dotr (O:=ROps) (m3_apply (O:=ROps) P e) k.
Proof.
  induction surfs as [|[k' J] rest IH]; intros k P e Hk Hc.
  - cbn. split; reflexivity.
  - cbn in Hc. destruct Hc as (HJ & Hk' & Hnd & Hrest). subst J.
    cbn [trace_P last_dir]. destruct (IH k' (pol_update (O:=ROps) k k' None P) e Hk' Hrest) as (I1 & I2).
    rewrite I1, I2. unfold pol_update. rewrite m3_apply_mul.
    split.
    + apply uncoated_surface_isometry; assumption.
    + apply uncoated_surface_transverse; assumption.
Qed.

(** the per-call model coincides with the chained one when the recorded calls form a chain *)
Lemma trace_PP_chain : forall surfs k P,
  trace_PP (O:=ROps) (chain_calls (O:=ROps) k surfs) P = trace_P (O:=ROps) k surfs P.
Proof.
  induction surfs as [|[k' J] rest IH]; intros k P; cbn; [reflexivity|apply IH].
Qed.

(** ** every float-resolvable configuration: each surface is either resolvable (|k x k'| >= 1e-8) or takes the
       fallback frame (ray not along x).  Intensity stays within (1 -+ 1e-8)^n over n uncoated surfaces. *)
Lemma cv_abs2_nonneg (e : CV) : 0 <= cv_abs2 (O:=ROps) e.
Proof. rewrite abs2_split. generalize (dot_nonneg (re3 e)) (dot_nonneg (im3 e)). lra. Qed.
Definition surface_ok (k k' : V) : Prop := par_tolR <= nrm (crs k k') \/ nrm (crs k xh) <> 0.
Lemma surface_two_sided (k k' : V) (e : CV) : unit3 k -> unit3 k' -> surface_ok k k' ->
  (1 - par_tolR) * cv_abs2 (O:=ROps) e <= cv_abs2 (O:=ROps) (m3_apply (O:=ROps) (surface_matrix (O:=ROps) k k' None) e)
  <= (1 + par_tolR) * cv_abs2 (O:=ROps) e.
Proof.
  intros Hk Hk' Hok. generalize par_tolR_pos (cv_abs2_nonneg e). intros Ht Hb.
  destruct (Rle_or_lt par_tolR (nrm (crs k k'))) as [Hge|Hlt].
  - rewrite (uncoated_surface_isometry k k' Hk Hk' (or_introl Hge)). nra.
  - destruct Hok as [Hge|Hx]; [lra|].
    generalize (near_parallel_surface_bound k k' e Hk Hk' Hlt Hx).
    set (a := cv_abs2 (O:=ROps) (m3_apply (O:=ROps) (surface_matrix (O:=ROps) k k' None) e)).
    set (b := cv_abs2 (O:=ROps) e) in *. set (m := nrm (crs k k')) in *.
    intros B. assert (Hm0 : 0 <= m) by (unfold m, Cx.norm3; rops; apply sqrt_pos).
    assert (Hmb : m * b <= par_tolR * b) by (apply Rmult_le_compat_r; lra).
    unfold Rabs in B. destruct (Rcase_abs (a - b)); lra.
Qed.
Fixpoint chain_ok2 (k : V) (surfs : list (V * option (M3 ROps))) : Prop :=
  match surfs with
  | [] => True
  | (k', J) :: rest => J = None /\ unit3 k' /\ surface_ok k k' /\ chain_ok2 k' rest
  end.
Theorem uncoated_trace_intensity_bounds : forall surfs k P e,
  unit3 k -> chain_ok2 k surfs ->
  (1 - par_tolR) ^ length surfs * cv_abs2 (O:=ROps) (m3_apply (O:=ROps) P e)
    <= cv_abs2 (O:=ROps) (m3_apply (O:=ROps) (trace_P (O:=ROps) k surfs P) e)
    <= (1 + par_tolR) ^ length surfs * cv_abs2 (O:=ROps) (m3_apply (O:=ROps) P e).
Proof.
  generalize par_tolR_pos. intros Ht.
  induction surfs as [|[k' J] rest IH]; intros k P e Hk Hc.
  - cbn. lra.
  - cbn in Hc. destruct Hc as (HJ & Hk' & Hok & Hrest). subst J.
    cbn [trace_P length pow].
    specialize (IH k' (pol_update (O:=ROps) k k' None P) e Hk' Hrest).
    unfold pol_update in IH. rewrite m3_apply_mul in IH.
    generalize (surface_two_sided k k' (m3_apply (O:=ROps) P e) Hk Hk' Hok).
    unfold pol_update.
    set (a := cv_abs2 (O:=ROps) (m3_apply (O:=ROps) (trace_P (O:=ROps) k' rest (m3_mul (O:=ROps) (surface_matrix (O:=ROps) k k' None) P)) e)) in *.
    set (q := cv_abs2 (O:=ROps) (m3_apply (O:=ROps) (surface_matrix (O:=ROps) k k' None) (m3_apply (O:=ROps) P e))) in *.
    set (b := cv_abs2 (O:=ROps) (m3_apply (O:=ROps) P e)).
    intros S.
    assert (Hlo : 0 <= (1 - par_tolR) ^ length rest) by (apply pow_le; lra).
    assert (Hhi : 0 <= (1 + par_tolR) ^ length rest) by (apply pow_le; lra).
    destruct IH as [I1 I2]. destruct S as [S1 S2].
    rewrite <- !tech_pow_Rmult.
    split.
    + apply Rle_trans with ((1 - par_tolR) ^ length rest * q); [|exact I1].
      replace ((1 - par_tolR) * (1 - par_tolR) ^ length rest * b) with ((1 - par_tolR) ^ length rest * ((1 - par_tolR) * b)) by (rops; ring).
      apply Rmult_le_compat_l; assumption.
    + apply Rle_trans with ((1 + par_tolR) ^ length rest * q); [exact I2|].
      replace ((1 + par_tolR) * (1 + par_tolR) ^ length rest * b) with ((1 + par_tolR) ^ length rest * ((1 + par_tolR) * b)) by (rops; ring).
      apply Rmult_le_compat_l; assumption.
Qed.
(** ** launch field of a (normalised) polarization state *)
Definition normalised (st : R * R * R * R) : Prop :=
  let '(ex, ey, _, _) := st in ex * ex + ey * ey = 1.
Lemma cs1 t : cos t * cos t + sin t * sin t = 1.
Proof. generalize (sin2_cos2 t); unfold Rsqr; lra. Qed.
Lemma cis_R (phi : R) : cis (O:=ROps) phi = Ccis phi.
Proof.
  unfold cis. vx_unfold. f_equal.
  - replace (0 * phi - 1 * 0) with 0 by (rops; ring). replace (0 * 0 + 1 * phi) with phi by (rops; ring). rewrite exp_0. (rops; ring).
  - replace (0 * phi - 1 * 0) with 0 by (rops; ring). replace (0 * 0 + 1 * phi) with phi by (rops; ring). rewrite exp_0. (rops; ring).
Qed.
Lemma polstate_init_normalised ex ey px py : ex * ex + ey * ey <> 0 ->
  normalised (polstate_init (O:=ROps) (ex, ey, px, py)).
Proof.
  intros H. unfold polstate_init, normalised. rops.
  assert (Hp : 0 < ex * ex + ey * ey) by nra.
  assert (Hs : sqrt (ex * ex + ey * ey) * sqrt (ex * ex + ey * ey) = ex * ex + ey * ey) by (apply sqrt_sqrt; lra).
  assert (Hn : sqrt (ex * ex + ey * ey) <> 0) by (apply Rgt_not_eq, sqrt_lt_R0; exact Hp).
  set (m := sqrt _) in *.
  replace (ex / m * (ex / m) + ey / m * (ey / m)) with ((ex * ex + ey * ey) / (m * m)) by ((rops; field); exact Hn).
  rewrite Hs. (rops; field). lra.
Qed.
Lemma jones_vec_unit st : normalised st -> unit2 (jones_vec (O:=ROps) st).
Proof.
  destruct st as [[[ex ey] px] py]. unfold normalised, jones_vec. intros H. rewrite !cis_R.
  generalize (cs1 px) (cs1 py). intros Hx Hy. vx_unfold. nsatz.
Qed.

Definition launch_ok (k : V) : Prop := unit3 k /\ nrm (crs k xh) <> 0.

Lemma field_basis_frame (k : V) : launch_ok k ->
  let '(s, p) := field_basis (O:=ROps) k in
  unit3 s /\ unit3 p /\ dot s p = 0 /\ dot s k = 0 /\ dot p k = 0.
Proof.
  intros [Hk Hx]. unfold field_basis.
  set (p := vdiv (crs k xh) (nrm (crs k xh))).
  assert (Hp : unit3 p) by (apply normalize_unit; exact Hx).
  assert (Hpk : dot p k = 0) by (unfold p; rewrite vdiv_dot by exact Hx; rewrite cross_perp_l; rops; unfold Rdiv; ring).
  repeat split; try assumption.
  - unfold unit3 in *. rewrite lagrange, Hp, Hk, Hpk. (rops; ring).
  - apply cross_perp_l.
  - apply cross_perp_r.
Qed.

Lemma lin_norm_expand (a b : C) (s p : V) :
  cv_abs2 (O:=ROps) (cv_lin a s b p) =
    cabs2 (O:=ROps) a * dot s s + cabs2 (O:=ROps) b * dot p p + 2 * re_dot a b * dot s p.
Proof. destruct a as [a1 a2], b as [b1 b2]. v3d s. v3d p. unfold re_dot. vx_unfold. (rops; ring). Qed.
Lemma lin_norm (a b : C) (s p : V) : unit3 s -> unit3 p -> dot s p = 0 ->
  cv_abs2 (O:=ROps) (cv_lin a s b p) = cabs2 (O:=ROps) a + cabs2 (O:=ROps) b.
Proof.
  unfold unit3. intros Hs Hp Hsp. rewrite lin_norm_expand, Hs, Hp, Hsp. (rops; ring).
Qed.
Lemma lin_dot_expand (a b : C) (s p k : V) :
  cv_dotr (O:=ROps) (cv_lin a s b p) k =
    (fst a * dot s k + fst b * dot p k, snd a * dot s k + snd b * dot p k).
Proof. destruct a as [a1 a2], b as [b1 b2]. v3d s. v3d p. v3d k. vx_unfold. split_eq; (rops; ring). Qed.
Lemma lin_dot (a b : C) (s p k : V) : dot s k = 0 -> dot p k = 0 ->
  cv_dotr (O:=ROps) (cv_lin a s b p) k = c0 (O:=ROps).
Proof.
  intros Hs Hp. rewrite lin_dot_expand, Hs, Hp. vx_unfold. split_eq; (rops; ring).
Qed.

Theorem launch_field_unit_transverse (k : V) st : launch_ok k -> normalised st ->
  cv_abs2 (O:=ROps) (field3d (O:=ROps) k st) = 1 /\ transverse (field3d (O:=ROps) k st) k.
Proof.
  intros Hk Hst. generalize (field_basis_frame k Hk) (jones_vec_unit st Hst).
  unfold field3d, transverse. destruct (field_basis (O:=ROps) k) as [s p].
  destruct (jones_vec (O:=ROps) st) as [a b]. intros (Hs & Hp & Hsp & Hsk & Hpk) Hu.
  split.
  - rewrite lin_norm by assumption. exact Hu.
  - apply lin_dot; assumption.
Qed.

(** *** the uncoated-lens clause: every input state keeps the launch intensity 1, the field stays transverse *)
Theorem uncoated_trace_preserves_intensity (k : V) surfs st :
  launch_ok k -> chain_ok k surfs -> normalised st ->
  intensity_pol (O:=ROps) (trace_P (O:=ROps) k surfs (m3_id (O:=ROps))) k st = 1 /\
  transverse (m3_apply (O:=ROps) (trace_P (O:=ROps) k surfs (m3_id (O:=ROps))) (field3d (O:=ROps) k st))
             (last_dir (O:=ROps) k surfs).
Proof.
  intros Hk Hc Hst. destruct (launch_field_unit_transverse k st Hk Hst) as (Hu & Ht).
  destruct (uncoated_trace_isometry surfs k (m3_id (O:=ROps)) (field3d (O:=ROps) k st) (proj1 Hk) Hc) as (I1 & I2).
  assert (Hid : m3_apply (O:=ROps) (m3_id (O:=ROps)) (field3d (O:=ROps) k st) = field3d (O:=ROps) k st).
  { destruct (field3d (O:=ROps) k st) as [[[e1 e2] [e3 e4]] [e5 e6]]. vx_unfold. split_eq; (rops; ring). }
  unfold intensity_pol, transverse. rewrite I1, I2, Hid. split; assumption.
Qed.

(** every input state, any lens whose surfaces are float-resolvable or take the fallback frame:
    the final intensity is within (1 -+ 1e-8)^n of the launch intensity 1 *)
Theorem uncoated_trace_intensity_within (k : V) surfs st :
  launch_ok k -> chain_ok2 k surfs -> normalised st ->
  (1 - par_tolR) ^ length surfs <= intensity_pol (O:=ROps) (trace_P (O:=ROps) k surfs (m3_id (O:=ROps))) k st
    <= (1 + par_tolR) ^ length surfs.
Proof.
  intros Hk Hc Hst. destruct (launch_field_unit_transverse k st Hk Hst) as (Hu & _).
  generalize (uncoated_trace_intensity_bounds surfs k (m3_id (O:=ROps)) (field3d (O:=ROps) k st) (proj1 Hk) Hc).
  assert (Hid : m3_apply (O:=ROps) (m3_id (O:=ROps)) (field3d (O:=ROps) k st) = field3d (O:=ROps) k st).
  { destruct (field3d (O:=ROps) k st) as [[[e1 e2] [e3 e4]] [e5 e6]]. vx_unfold. split_eq; (rops; ring). }
  unfold intensity_pol. rewrite Hid, Hu. lra.
Qed.

(** ** unpolarized light = mean over any two orthogonal input states, for ANY accumulated matrix *)
Lemma apply_lin (P : M3 ROps) (a b : C) (s p : V) :
  m3_apply (O:=ROps) P (cv_lin a s b p) =
  let u := m3_apply (O:=ROps) P (cv_lin (c1 (O:=ROps)) s (c0 (O:=ROps)) p) in
  let v := m3_apply (O:=ROps) P (cv_lin (c0 (O:=ROps)) s (c1 (O:=ROps)) p) in
  let '(u1, u2, u3) := u in let '(v1, v2, v3) := v in
  (cadd (O:=ROps) (cmul (O:=ROps) a u1) (cmul (O:=ROps) b v1),
   cadd (O:=ROps) (cmul (O:=ROps) a u2) (cmul (O:=ROps) b v2),
   cadd (O:=ROps) (cmul (O:=ROps) a u3) (cmul (O:=ROps) b v3)).
Proof.
  destruct P as [[[[[[[[a1 a2] a3] a4] a5] a6] a7] a8] a9].
  destruct a1, a2, a3, a4, a5, a6, a7, a8, a9, a, b. v3d s. v3d p.
  vx_unfold. split_eq; (rops; ring).
Qed.
(** scalar core: a unitary 2x2 mixing preserves the summed squared modulus *)
Lemma unitary_mix (a1 b1 a2 b2 u v : C) :
  unit2 (a1, b1) -> unit2 (a2, b2) -> herm2 (a1, b1) (a2, b2) = c0 (O:=ROps) ->
  cabs2 (O:=ROps) (cadd (O:=ROps) (cmul (O:=ROps) a1 u) (cmul (O:=ROps) b1 v)) +
  cabs2 (O:=ROps) (cadd (O:=ROps) (cmul (O:=ROps) a2 u) (cmul (O:=ROps) b2 v))
  = cabs2 (O:=ROps) u + cabs2 (O:=ROps) v.
Proof.
  destruct a1 as [p1 p2], b1 as [q1 q2], a2 as [r1 r2], b2 as [s1 s2], u as [u1 u2], v as [v1 v2].
  intros H1 H2 H3. vx_unfold. injection H3 as H3 H4.
  (* rows orthonormal -> columns orthonormal *)
  assert (D : (p1 * s1 - p2 * s2 - (q1 * r1 - q2 * r2)) * (p1 * s1 - p2 * s2 - (q1 * r1 - q2 * r2))
            + (p1 * s2 + p2 * s1 - (q1 * r2 + q2 * r1)) * (p1 * s2 + p2 * s1 - (q1 * r2 + q2 * r1)) = 1) by nsatz.
  assert (C1 : p1 * p1 + p2 * p2 + (r1 * r1 + r2 * r2) = 1) by nsatz.
  assert (C2 : q1 * q1 + q2 * q2 + (s1 * s1 + s2 * s2) = 1) by nsatz.
  assert (C3 : p1 * q1 + p2 * q2 + (r1 * s1 + r2 * s2) = 0) by nsatz.
  assert (C4 : p1 * q2 - p2 * q1 + (r1 * s2 - r2 * s1) = 0) by nsatz.
  nsatz.
Qed.

Theorem unpolarized_is_mean (P : M3 ROps) (k : V) (i0 : R) st1 st2 :
  launch_ok k -> normalised st1 -> normalised st2 ->
  herm2 (jones_vec (O:=ROps) st1) (jones_vec (O:=ROps) st2) = c0 (O:=ROps) ->
  intensity_unpol (O:=ROps) P k i0
  = i0 * ((intensity_pol (O:=ROps) P k st1 + intensity_pol (O:=ROps) P k st2) / 2).
Proof.
  intros Hk Hn1 Hn2 Horth.
  generalize (jones_vec_unit st1 Hn1) (jones_vec_unit st2 Hn2). intros Hu1 Hu2.
  unfold intensity_unpol, intensity_pol, field3d.
  destruct (field_basis (O:=ROps) k) as [s p].
  (* the two reference states are (1,0) and (0,1) *)
  assert (Ex : jones_vec (O:=ROps) (state_x (O:=ROps)) = (c1 (O:=ROps), c0 (O:=ROps))).
  { unfold state_x, polstate_init, jones_vec. rewrite !cis_R. vx_unfold.
    replace (1 * 1 + 0 * 0) with 1 by (rops; ring). rewrite sqrt_1, cos_0, sin_0. split_eq; (rops; field). }
  assert (Ey : jones_vec (O:=ROps) (state_y (O:=ROps)) = (c0 (O:=ROps), c1 (O:=ROps))).
  { unfold state_y, polstate_init, jones_vec. rewrite !cis_R. vx_unfold.
    replace (0 * 0 + 1 * 1) with 1 by (rops; ring). rewrite sqrt_1, cos_0, sin_0. split_eq; (rops; field). }
  rewrite Ex, Ey.
  destruct (jones_vec (O:=ROps) st1) as [a1 b1]. destruct (jones_vec (O:=ROps) st2) as [a2 b2].
  rewrite (apply_lin P a1 b1), (apply_lin P a2 b2).
  destruct (m3_apply (O:=ROps) P (cv_lin (c1 (O:=ROps)) s (c0 (O:=ROps)) p)) as [[u1 u2] u3].
  destruct (m3_apply (O:=ROps) P (cv_lin (c0 (O:=ROps)) s (c1 (O:=ROps)) p)) as [[v1 v2] v3].
  cbv zeta.
  generalize (unitary_mix a1 b1 a2 b2 u1 v1 Hu1 Hu2 Horth) (unitary_mix a1 b1 a2 b2 u2 v2 Hu1 Hu2 Horth)
             (unitary_mix a1 b1 a2 b2 u3 v3 Hu1 Hu2 Horth).
  intros M1 M2 M3.
  unfold Cx.cv_abs2. rops.
  match goal with |- ?A * i0 / 2 = i0 * (?B / 2) => assert (E : B = A) by lra; rewrite E end.
  (rops; field).
Qed.

(** the hypotheses are satisfiable: on-axis launch, one refraction-free surface, H and V states *)
Example trace_hyps_satisfiable :
  launch_ok (0, 0, 1) /\ chain_ok (0, 0, 1) [((0, 0, 1), None)] /\ normalised (1, 0, 0, 0) /\ normalised (0, 1, 0, 0) /\
  herm2 (jones_vec (O:=ROps) (1, 0, 0, 0)) (jones_vec (O:=ROps) (0, 1, 0, 0)) = c0 (O:=ROps).
Proof.
  assert (N : nrm (crs (0, 0, 1) xh) = 1).
  { unfold Cx.norm3, Cx.cross, Cx.dot3, xhat. rops.
    replace ((0 * 0 - 1 * 0) * (0 * 0 - 1 * 0) + (1 * 1 - 0 * 0) * (1 * 1 - 0 * 0) + (0 * 0 - 0 * 1) * (0 * 0 - 0 * 1)) with 1 by (rops; ring).
    apply sqrt_1. }
  assert (Z : nrm (crs (0, 0, 1) (0, 0, 1)) = 0).
  { unfold Cx.norm3, Cx.cross, Cx.dot3. rops.
    replace ((0 * 1 - 1 * 0) * (0 * 1 - 1 * 0) + (1 * 0 - 0 * 1) * (1 * 0 - 0 * 1) + (0 * 0 - 0 * 0) * (0 * 0 - 0 * 0)) with 0 by (rops; ring).
    apply sqrt_0. }
  assert (U : unit3 (0, 0, 1)) by (vx_unfold; ring).
  repeat split; try exact U.
  - rewrite N. lra.
  - right. split; [exact Z|rewrite N; lra].
  - unfold normalised. (rops; ring).
  - unfold normalised. (rops; ring).
  - unfold jones_vec. rewrite !cis_R. vx_unfold. split_eq; (rops; ring).
Qed.

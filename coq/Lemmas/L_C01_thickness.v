(** * C01: Optic.set_thickness (regenerated kernel) refines "replace one thickness":
    over the reals, for every vertex list and every valid surface number. *)
From Coq Require Import Reals ZArith List Bool Lia Lra.
From OV Require Import Ops RInst XR Gen.LensEdit Spec.S_C01 Lemmas.L_C01_lists.
Import ListNotations.
Local Open Scope R_scope.

Lemma nth_mapfrom (f : R -> R) (l : list R) : forall (m i : nat),
  (i < length l)%nat ->
  nth i (firstn m l ++ map f (skipn m l)) 0 = if (i <? m)%nat then nth i l 0 else f (nth i l 0).
Proof.
  induction l as [|a l IH]; intros m i H; [simpl in H; lia|].
  destruct m as [|m].
  - cbn [firstn skipn app]. change (i <? 0)%nat with false.
    rewrite (nth_indep (map f (a :: l)) 0 (f 0)) by (rewrite map_length; exact H).
    apply map_nth.
  - destruct i as [|i]; [reflexivity|].
    cbn [firstn skipn app nth]. rewrite IH by (simpl in H; lia).
    change (S i <? S m)%nat with (i <? m)%nat. reflexivity.
Qed.

Lemma length_mapfrom (f : R -> R) (l : list R) m : length (firstn m l ++ map f (skipn m l)) = length l.
Proof. rewrite app_length, map_length, <- app_length, firstn_skipn. reflexivity. Qed.

Ltac rlia := change (T ROps) with R; lia.
Ltac rring := change (T ROps) with R; ring.

Lemma sliceZ_to_end (l : list R) lo : (0 <= lo)%Z -> sliceZ l lo None = skipn (Z.to_nat lo) l.
Proof.
  intros H. unfold sliceZ. destruct (Z.ltb_spec lo 0); [lia|].
  apply firstn_all2. rewrite skipn_length. lia.
Qed.

Lemma setZ_zero (a x : R) (r : list R) : setZ (O:=ROps) (a :: r) 0 x = x :: r.
Proof.
  unfold setZ. destruct (Z.ltb_spec 0 0); [lia|].
  destruct (Z.leb_spec (Z.of_nat (length (a :: r))) 0) as [H0|H0]; [cbn [length] in H0; lia|]. reflexivity.
Qed.

Lemma st_shape (p : list R) (m : Z) :
  m = Z.of_nat (length p) -> (1 < length p)%nat ->
  map (fun j => getZ (O:=ROps) (map (fun x => x - getZ (O:=ROps) p 1) p) j) (rangeZ 0 m) =
  map (fun x => x - nth 1 p 0) p.
Proof.
  intros -> H1. rewrite (getZ_nth (O:=ROps) p 1 0) by rlia. change (Z.to_nat 1) with 1%nat.
  set (p4 := map (fun x : R => x - nth 1 p 0) p).
  assert (L4 : length p4 = length p) by (unfold p4; apply map_length).
  rewrite <- L4. apply (map_getZ_range (O:=ROps)).
Qed.

Section SetThickness.
  Variables (v : R) (k : Z) (zs : list R).
  Hypothesis Hk : (0 <= k)%Z.
  Hypothesis Hn : (k + 1 < Z.of_nat (length zs))%Z.

  Local Notation n := (Z.of_nat (length zs)).
  Local Notation zs' := (k_c01_set_thickness ROps v k zs n).
  Local Notation d := (v - getZ (O:=ROps) zs (k + 1) + getZ (O:=ROps) zs k).
  (** the vertex list before re-anchoring: the object gap moves only the object (so that an object at
      infinity stays harmless), any other gap moves everything behind it *)
  Local Notation p2 := (if (k =? 0)%Z then setZ (O:=ROps) zs 0 (getZ (O:=ROps) zs 1 - v)
                        else firstn (Z.to_nat (k + 1)) zs ++ map (fun x => x + d) (skipn (Z.to_nat (k + 1)) zs)).

  Lemma p2_length : length p2 = length zs.
  Proof.
    destruct (k =? 0)%Z; [|apply length_mapfrom].
    unfold setZ. destruct (_ || _); [reflexivity|]. apply set_nth_length.
  Qed.

  Lemma p2_nth i : (i < length zs)%nat ->
    nth i p2 0 = if (k =? 0)%Z then (if Nat.eqb i 0 then nth 1 zs 0 - v else nth i zs 0)
                 else (if (i <=? Z.to_nat k)%nat then nth i zs 0 else nth i zs 0 + d).
  Proof.
    intros H. destruct (Z.eqb_spec k 0) as [E|E].
    - destruct zs as [|a r]; [simpl in H; lia|]. rewrite setZ_zero.
      rewrite (getZ_nth (O:=ROps) (a :: r) 1 0) by (subst k; rlia). change (Z.to_nat 1) with 1%nat.
      destruct i; reflexivity.
    - rewrite nth_mapfrom by exact H.
      replace (Z.to_nat (k + 1)) with (S (Z.to_nat k)) by lia.
      change (i <? S (Z.to_nat k))%nat with (i <=? Z.to_nat k)%nat. reflexivity.
  Qed.

  Lemma set_thickness_unfold : zs' = map (fun x => x - nth 1 p2 0) p2.
  Proof.
    unfold k_c01_set_thickness. rops.
    rewrite sliceZ_to_end by lia.
    apply st_shape.
    - f_equal. symmetry. apply p2_length.
    - eapply Nat.lt_le_trans; [|apply Nat.eq_le_incl; symmetry; apply p2_length]. lia.
  Qed.

  Lemma set_thickness_length : length zs' = length zs.
  Proof. rewrite set_thickness_unfold, map_length. apply p2_length. Qed.

  Lemma set_thickness_nth i : (i < length zs)%nat -> nth i zs' 0 = nth i p2 0 - nth 1 p2 0.
  Proof.
    intros H. rewrite set_thickness_unfold.
    assert (L2 : length p2 = length zs) by apply p2_length.
    rewrite (nth_indep _ 0 (0 - nth 1 p2 0))
      by (rewrite map_length; eapply Nat.lt_le_trans; [exact H|apply Nat.eq_le_incl; symmetry; apply p2_length]).
    rewrite (map_nth (fun x => x - nth 1 p2 0)). reflexivity.
  Qed.

  (** the first surface stays at (is brought back to) z = 0 *)
  Theorem set_thickness_first_zero : getZ (O:=ROps) zs' 1 = 0.
  Proof.
    rewrite (getZ_nth (O:=ROps) zs' 1 0) by (rewrite set_thickness_length; lia).
    change (Z.to_nat 1) with 1%nat. rewrite set_thickness_nth by lia.
    apply Rminus_diag_eq. reflexivity.
  Qed.

  (** thickness k reads back the value set; every other thickness is what it was
      (all later vertices move rigidly) *)
  Theorem set_thickness_refines j :
    (0 <= j)%Z -> (j + 1 < Z.of_nat (length zs))%Z ->
    k_c01_get_thickness ROps j zs' = if (j =? k)%Z then v else k_c01_get_thickness ROps j zs.
  Proof.
    intros Hj0 Hj1. unfold k_c01_get_thickness. rops.
    rewrite (getZ_nth (O:=ROps) zs' (j + 1) 0), (getZ_nth (O:=ROps) zs' j 0) by (rewrite set_thickness_length; rlia).
    rewrite (getZ_nth (O:=ROps) zs (j + 1) 0), (getZ_nth (O:=ROps) zs j 0) by rlia.
    rewrite !set_thickness_nth by lia. rewrite !p2_nth by lia.
    rewrite (getZ_nth (O:=ROps) zs (k + 1) 0), (getZ_nth (O:=ROps) zs k 0) by rlia.
    replace (Z.to_nat (j + 1)) with (S (Z.to_nat j)) by lia.
    replace (Z.to_nat (k + 1)) with (S (Z.to_nat k)) by lia.
    change (Nat.eqb (S (Z.to_nat j)) 0) with false.
    destruct (Z.eqb_spec k 0) as [E0|E0].
    - subst k. change (Z.to_nat 0) with 0%nat.
      destruct (Z.eqb_spec j 0) as [->|Hne].
      + change (Z.to_nat 0) with 0%nat. cbn [Nat.eqb]. rring.
      + destruct (Nat.eqb_spec (Z.to_nat j) 0); [lia|]. rring.
    - destruct (Z.eqb_spec j k) as [->|Hne].
      + destruct (Nat.leb_spec (S (Z.to_nat k)) (Z.to_nat k)); [lia|].
        destruct (Nat.leb_spec (Z.to_nat k) (Z.to_nat k)); [|lia]. rring.
      + destruct (Nat.leb_spec (S (Z.to_nat j)) (Z.to_nat k)); destruct (Nat.leb_spec (Z.to_nat j) (Z.to_nat k));
          try rring; lia.
  Qed.
End SetThickness.

(** list form: thk after = upd k v (thk before) *)
Lemma thk_length zs : length (thk zs) = pred (length zs).
Proof.
  induction zs as [|a [|b r] IH]; [reflexivity|reflexivity|].
  change (thk (a :: b :: r)) with ((b - a) :: thk (b :: r)). cbn [length] in *. rewrite IH. reflexivity.
Qed.
Lemma thk_nth zs : forall j, (S j < length zs)%nat -> nth j (thk zs) 0 = nth (S j) zs 0 - nth j zs 0.
Proof.
  induction zs as [|a [|b r] IH]; intros j H; [simpl in H; lia|simpl in H; lia|].
  change (thk (a :: b :: r)) with ((b - a) :: thk (b :: r)).
  destruct j as [|j]; [reflexivity|].
  cbn [nth]. rewrite IH by (cbn [length] in *; lia). reflexivity.
Qed.
Lemma upd_length {A} k (v : A) l : length (upd k v l) = length l.
Proof. revert k; induction l; intros [|k]; simpl; auto. Qed.
Lemma upd_nth k (v : R) l : forall j, (j < length l)%nat -> nth j (upd k v l) 0 = if Nat.eqb j k then v else nth j l 0.
Proof.
  revert k; induction l as [|a l IH]; intros k j H; [simpl in H; lia|].
  destruct k as [|k]; destruct j as [|j]; cbn [upd nth Nat.eqb]; try reflexivity.
  apply IH. simpl in H; lia.
Qed.

Theorem set_thickness_thk (v : R) k (zs : list R) :
  (0 <= k)%Z -> (k + 1 < Z.of_nat (length zs))%Z ->
  thk (k_c01_set_thickness ROps v k zs (Z.of_nat (length zs))) = upd (Z.to_nat k) v (thk zs).
Proof.
  intros Hk Hn. set (zs' := k_c01_set_thickness ROps v k zs (Z.of_nat (length zs))).
  assert (L : @length R zs' = length zs) by (apply set_thickness_length; assumption).
  apply nth_ext with (d := 0) (d' := 0).
  - rewrite upd_length, !thk_length, L. reflexivity.
  - intros j Hj. rewrite thk_length, L in Hj.
    rewrite thk_nth by lia. rewrite upd_nth by (rewrite thk_length; lia). rewrite thk_nth by lia.
    generalize (set_thickness_refines v k zs Hk Hn (Z.of_nat j) ltac:(lia) ltac:(lia)).
    unfold k_c01_get_thickness. rops. fold zs'.
    rewrite (getZ_nth (O:=ROps) zs' (Z.of_nat j + 1) 0), (getZ_nth (O:=ROps) zs' (Z.of_nat j) 0) by rlia.
    rewrite (getZ_nth (O:=ROps) zs (Z.of_nat j + 1) 0), (getZ_nth (O:=ROps) zs (Z.of_nat j) 0) by rlia.
    replace (Z.to_nat (Z.of_nat j + 1)) with (S j) by lia. rewrite Nat2Z.id.
    intros E. change (T ROps) with R in E. rewrite E. destruct (Z.eqb_spec (Z.of_nat j) k); destruct (Nat.eqb_spec j (Z.to_nat k)); try reflexivity; lia.
Qed.

(** non-vacuous: a singlet, thickness of the glass changed from 5 to 7 *)
Example set_thickness_ex :
  k_c01_set_thickness ROps 7 1 [-100; 0; 5; 45] 4 = [-100 - 0; 0 - 0; 5 + (7 - 5 + 0) - 0; 45 + (7 - 5 + 0) - 0].
Proof. reflexivity. Qed.

(** ** the object gap with the object at infinity (extended reals): set_thickness(v, 0) brings the object
    to -v, leaves every other vertex where it was (surface 1 at 0) and produces no NaN *)
Theorem set_thickness_infinite_object (v z1 : R) (rest : list R) :
  k_c01_set_thickness XOps (Fin v) 0 (NInf :: Fin z1 :: map Fin rest) (Z.of_nat (length (NInf :: Fin z1 :: map Fin rest))) =
  Fin (z1 + - v + - z1) :: Fin (z1 + - z1) :: map (fun z => Fin (z + - z1)) rest.
Proof.
  unfold k_c01_set_thickness. cbn [Z.eqb].
  assert (S0 : setZ (O:=XOps) (NInf :: Fin z1 :: map Fin rest) 0 (sub (o:=XOps) (getZ (O:=XOps) (NInf :: Fin z1 :: map Fin rest) 1) (Fin v))
               = Fin (z1 + - v) :: Fin z1 :: map Fin rest).
  { unfold setZ. cbv zeta. change (0 <? 0)%Z with false. cbn [orb].
    destruct (Z.leb_spec (Z.of_nat (length (NInf :: Fin z1 :: map Fin rest))) 0) as [H0|H0]; [cbn [length] in H0; lia|].
    change (Z.to_nat 0) with 0%nat. cbn [set_nth]. f_equal.
    rewrite (getZ_nth (O:=XOps) _ 1 NaN) by (cbn [length]; lia). reflexivity. }
  rewrite S0.
  assert (G1 : getZ (O:=XOps) (Fin (z1 + - v) :: Fin z1 :: map Fin rest) 1 = Fin z1).
  { rewrite (getZ_nth (O:=XOps) _ 1 NaN) by (cbn [length]; lia). reflexivity. }
  rewrite G1.
  set (p6 := map (fun x_ => sub (o:=XOps) x_ (Fin z1)) (Fin (z1 + - v) :: Fin z1 :: map Fin rest)).
  assert (L6 : length p6 = length (NInf :: Fin z1 :: map Fin rest)) by (unfold p6; rewrite map_length; reflexivity).
  rewrite <- L6. rewrite (map_getZ_range (O:=XOps)). unfold p6. cbn [map]. rewrite map_map. reflexivity.
Qed.

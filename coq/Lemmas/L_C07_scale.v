(** * C07 - homogeneity of the real-ray trace under a change of the unit of length.

    Multiplying every length of the prescription (vertex positions, decentres, radii, radial
    apertures) and of the incoming ray (position, accumulated path) by s > 0 multiplies every
    recorded position and path length by s and leaves direction cosines and intensities unchanged
    - kernel by kernel, and by induction over the surface list for the whole trace of
    Model/Trace.v (planes and conics, non-absorbing media).

    As for the mirrors the proofs use only a small set of laws [ScaleLaws] of the arithmetic, which
    hold for the exact reals (Coq's total division: /0 = 0) and for the extended reals, so the
    statement includes the non-finite outcomes (a miss stays a miss, +inf stays +inf). *)
From Coq Require Import Reals Lra Psatz ZArith List Bool.
From OV Require Import Ops RInst XR Gen.RealRays Gen.Standard Gen.Geometries Gen.Apertures Model.Trace Model.M_C07.
Import ListNotations.

Set Implicit Arguments.
Record ScaleLaws (O : Ops) (s : T O) : Prop := mkScaleLaws {
  sl_add : forall a b : T O, add (mul s a) (mul s b) = mul s (add a b);
  sl_sub : forall a b : T O, sub (mul s a) (mul s b) = mul s (sub a b);
  sl_neg : forall a : T O, neg (mul s a) = mul s (neg a);
  sl_mul_l : forall a b : T O, mul (mul s a) b = mul s (mul a b);
  sl_mul_r : forall a b : T O, mul a (mul s b) = mul s (mul a b);
  sl_div_ss : forall a b : T O, div (mul s a) (mul s b) = div a b;
  sl_div_l : forall a b : T O, div (mul s a) b = mul s (div a b);
  sl_sqrt : forall a : T O, sqrt_ (mul s (mul s a)) = mul s (sqrt_ a);
  sl_abs : forall a : T O, abs_ (mul s a) = mul s (abs_ a);
  sl_ltb0 : forall a : T O, ltb_ (mul s a) (ofZ 0) = ltb_ a (ofZ 0);
  sl_eqb0 : forall a : T O, eqb_ (mul s a) (ofZ 0) = eqb_ a (ofZ 0);
  sl_ltb : forall a b : T O, ltb_ (mul s a) (mul s b) = ltb_ a b;
  sl_leb : forall a b : T O, leb_ (mul s a) (mul s b) = leb_ a b;
  sl_inf : mul s inf_ = inf_;
  sl_nan : mul s nan_ = nan_;
  (* the absorption exponent of a medium with k = 0 *)
  sl_mul0 : forall X w t : T O,
      mul (neg (div (mul X (ofZ 0)) w)) (mul s t) = mul (neg (div (mul X (ofZ 0)) w)) t
}.
Unset Implicit Arguments.

(** ** the laws hold for the exact reals ... *)
Local Open Scope R_scope.
Lemma sqrt_scale s d : 0 <= s -> sqrt (s * (s * d)) = s * sqrt d.
Proof.
  intros Hs. destruct (Rle_dec 0 d) as [Hd|Hd].
  - replace (s * (s * d)) with ((s * s) * d) by ring.
    rewrite sqrt_mult by nra. rewrite sqrt_square by exact Hs. reflexivity.
  - rewrite (sqrt_neg_0 d) by lra. rewrite sqrt_neg_0 by nra. ring.
Qed.

Lemma ScaleLaws_R (s : R) : 0 < s -> ScaleLaws ROps s.
Proof.
  intros Hs. constructor; intros; rops; try (unfold Rdiv; ring).
  - unfold Rdiv. rewrite Rinv_mult. replace (s * a * (/ s * / b)) with (a * / b * (s * / s)) by ring.
    rewrite Rinv_r by lra. ring.
  - apply sqrt_scale. lra.
  - rewrite Rabs_mult, (Rabs_right s) by lra. reflexivity.
  - unfold Rltb. destruct (Rlt_dec (s * a) 0), (Rlt_dec a 0); try reflexivity; exfalso; nra.
  - unfold Reqb. destruct (Req_EM_T (s * a) 0), (Req_EM_T a 0); try reflexivity; exfalso; nra.
  - unfold Rltb. destruct (Rlt_dec (s * a) (s * b)), (Rlt_dec a b); try reflexivity; exfalso; nra.
  - unfold Rleb. destruct (Rle_dec (s * a) (s * b)), (Rle_dec a b); try reflexivity; exfalso; nra.
Qed.
Local Close Scope R_scope.

Section Scale.
  Context {O : Ops}.
  Variable s : T O.
  Variable SL : ScaleLaws O s.
  Notation T := (T O).
  (** [sc a] = s * a, kept folded so that the rewriting below cannot confuse the factor with an operand *)
  Definition sc (a : T) : T := mul s a.

  Lemma c_add a b : add (sc a) (sc b) = sc (add a b). Proof. apply (sl_add SL). Qed.
  Lemma c_sub a b : sub (sc a) (sc b) = sc (sub a b). Proof. apply (sl_sub SL). Qed.
  Lemma c_neg a : neg (sc a) = sc (neg a). Proof. apply (sl_neg SL). Qed.
  Lemma c_mul_l a b : mul (sc a) b = sc (mul a b). Proof. apply (sl_mul_l SL). Qed.
  Lemma c_mul_r a b : mul a (sc b) = sc (mul a b). Proof. apply (sl_mul_r SL). Qed.
  Lemma c_div_ss a b : div (sc a) (sc b) = div a b. Proof. apply (sl_div_ss SL). Qed.
  Lemma c_div_l a b : div (sc a) b = sc (div a b). Proof. apply (sl_div_l SL). Qed.
  Lemma c_sqrt a : sqrt_ (sc (sc a)) = sc (sqrt_ a). Proof. apply (sl_sqrt SL). Qed.
  Lemma c_abs a : abs_ (sc a) = sc (abs_ a). Proof. apply (sl_abs SL). Qed.
  Lemma c_ltb0 a : ltb_ (sc a) (ofZ 0) = ltb_ a (ofZ 0). Proof. apply (sl_ltb0 SL). Qed.
  Lemma c_eqb0 a : eqb_ (sc a) (ofZ 0) = eqb_ a (ofZ 0). Proof. apply (sl_eqb0 SL). Qed.
  Lemma c_ltb a b : ltb_ (sc a) (sc b) = ltb_ a b. Proof. apply (sl_ltb SL). Qed.
  Lemma c_leb a b : leb_ (sc a) (sc b) = leb_ a b. Proof. apply (sl_leb SL). Qed.
  Lemma if_inf (c : bool) (t : T) : (if c then inf_ else sc t) = sc (if c then inf_ else t).
  Proof. destruct c; [symmetry; apply (sl_inf SL)|reflexivity]. Qed.
  Lemma if_nan (c : bool) (t : T) : (if c then nan_ else sc t) = sc (if c then nan_ else t).
  Proof. destruct c; [symmetry; apply (sl_nan SL)|reflexivity]. Qed.
  Lemma if_sc (c : bool) (a b : T) : (if c then sc a else sc b) = sc (if c then a else b).
  Proof. destruct c; reflexivity. Qed.
  Lemma c_mul0 X w t : mul (neg (div (mul X (ofZ 0)) w)) (sc t) = mul (neg (div (mul X (ofZ 0)) w)) t.
  Proof. apply (sl_mul0 SL). Qed.

  Ltac scnorm :=
    repeat first [ rewrite c_mul_l | rewrite c_mul_r | rewrite c_add | rewrite c_sub
                 | rewrite c_neg | rewrite c_sqrt | rewrite c_abs
                 | rewrite c_ltb0 | rewrite c_eqb0 | rewrite c_ltb | rewrite c_leb
                 | rewrite if_inf | rewrite if_nan | rewrite if_sc
                 | rewrite c_div_ss | rewrite c_div_l ].
  Opaque sc.

  (** *** kernels *)
  Lemma plane_distance_scale z N : k_plane_distance O (sc z) N = sc (k_plane_distance O z N).
  Proof. unfold k_plane_distance; cbv beta iota zeta. scnorm. reflexivity. Qed.

  Lemma std_distance_scale k N L M z x y R :
    k_std_distance O k N L M (sc z) (sc x) (sc y) (sc R) = sc (k_std_distance O k N L M z x y R).
  Proof. unfold k_std_distance; cbv beta iota zeta. scnorm. reflexivity. Qed.

  Lemma std_sag_scale x y R k : k_std_sag O (sc x) (sc y) (sc R) k = sc (k_std_sag O x y R k).
  Proof. unfold k_std_sag; cbv beta iota zeta. scnorm. reflexivity. Qed.

  Lemma std_normal_scale x y R k : k_std_normal O (sc x) (sc y) (sc R) k = k_std_normal O x y R k.
  Proof. unfold k_std_normal; cbv beta iota zeta. scnorm. reflexivity. Qed.

  Lemma radial_clip_scale x y rmax rmin i :
    k_radial_clip O (sc x) (sc y) (sc rmax) (sc rmin) i = k_radial_clip O x y rmax rmin i.
  Proof. unfold k_radial_clip, gtb_; cbv beta iota zeta. scnorm. reflexivity. Qed.

  Lemma propagate_scale t x L y M z N w i :
    k_propagate O (sc t) (sc x) L (sc y) M (sc z) N (ofZ 0) w i =
    (let '(a, b, c, d) := k_propagate O t x L y M z N (ofZ 0) w i in (sc a, sc b, sc c, d)).
  Proof.
    unfold k_propagate; cbv beta iota zeta. rewrite c_mul0. scnorm. reflexivity.
  Qed.

  Lemma translate_scale dx dy dz x y z :
    k_translate O (sc dx) (sc dy) (sc dz) (sc x) (sc y) (sc z) =
    (let '(a, b, c) := k_translate O dx dy dz x y z in (sc a, sc b, sc c)).
  Proof. unfold k_translate; cbv beta iota zeta. scnorm. reflexivity. Qed.
  Lemma rotate_x_scale a y z M N :
    k_rotate_x O a (sc y) (sc z) M N = (let '(y', z', M', N') := k_rotate_x O a y z M N in (sc y', sc z', M', N')).
  Proof. unfold k_rotate_x; cbv beta iota zeta. scnorm. reflexivity. Qed.
  Lemma rotate_y_scale a x z L N :
    k_rotate_y O a (sc x) (sc z) L N = (let '(x', z', L', N') := k_rotate_y O a x z L N in (sc x', sc z', L', N')).
  Proof. unfold k_rotate_y; cbv beta iota zeta. scnorm. reflexivity. Qed.
  Lemma rotate_z_scale a x y L M :
    k_rotate_z O a (sc x) (sc y) L M = (let '(x', y', L', M') := k_rotate_z O a x y L M in (sc x', sc y', L', M')).
  Proof. unfold k_rotate_z; cbv beta iota zeta. scnorm. reflexivity. Qed.

  (** *** one surface, then the whole trace *)
  Ltac dpair :=
    match goal with
    | |- context [match ?e with (_, _) => _ end] =>
        lazymatch e with (_, _) => fail | _ => destruct e end
    end.
  Ltac rfields := cbn [s_x s_y s_z s_rx s_ry s_rz s_shape s_n1 s_n2 s_k1 s_refl s_aper s_coat
                       rx ry rz rL rM rN ri rw ropd option_map scale_ray scale_surf scale_shape scale_aper].
  Ltac foldsc := repeat match goal with |- context [mul s ?a] => change (mul s a) with (sc a) end.

  (* k_rotate_x and k_rotate_z are convertible (same formula on renamed axes), so the rewriting is driven by a
     syntactic match on the goal *)
  Ltac rotstep :=
    match goal with
    | |- context [k_rotate_x O ?a (sc ?y) (sc ?z) ?M ?N] =>
        rewrite (rotate_x_scale a y z M N); destruct (k_rotate_x O a y z M N) as [[[? ?] ?] ?]
    | |- context [k_rotate_y O ?a (sc ?x) (sc ?z) ?L ?N] =>
        rewrite (rotate_y_scale a x z L N); destruct (k_rotate_y O a x z L N) as [[[? ?] ?] ?]
    | |- context [k_rotate_z O ?a (sc ?x) (sc ?y) ?L ?M] =>
        rewrite (rotate_z_scale a x y L M); destruct (k_rotate_z O a x y L M) as [[[? ?] ?] ?]
    end; rfields; foldsc.

  Lemma localize_scale u r : localize (scale_surf s u) (scale_ray s r) = scale_ray s (localize u r).
  Proof.
    destruct u as [sx sy sz srx sry srz sh n1 n2 k1 rf ap co], r as [x y z L M N i w opd].
    unfold localize. rfields. foldsc. unfold k_translate. scnorm.
    destruct (nonzero srx), (nonzero sry), (nonzero srz); rfields; foldsc; repeat rotstep;
    with_strategy transparent [sc] reflexivity.
  Qed.

  Lemma globalize_scale u r : globalize (scale_surf s u) (scale_ray s r) = scale_ray s (globalize u r).
  Proof.
    destruct u as [sx sy sz srx sry srz sh n1 n2 k1 rf ap co], r as [x y z L M N i w opd].
    unfold globalize. rfields. foldsc.
    destruct (nonzero srx), (nonzero sry), (nonzero srz); rfields; foldsc; repeat rotstep;
    unfold k_translate; scnorm; with_strategy transparent [sc] reflexivity.
  Qed.


  (** planes and conics in non-absorbing media *)
  Definition scalable (u : surf O) : Prop := sym_shape (s_shape u) = true /\ s_k1 u = ofZ 0.

  Lemma trace_surface_scale u r :
    scalable u -> trace_surface (scale_surf s u) (scale_ray s r) = option_map (scale_ray s) (trace_surface u r).
  Proof.
    intros (Hsh & Hk). unfold trace_surface. rewrite localize_scale.
    destruct (localize u r) as [x y z L M N i w opd].
    assert (Ek : s_k1 (scale_surf s u) = ofZ 0) by (destruct u; exact Hk).
    assert (En1 : s_n1 (scale_surf s u) = s_n1 u) by (destruct u; reflexivity).
    assert (En2 : s_n2 (scale_surf s u) = s_n2 u) by (destruct u; reflexivity).
    assert (Erf : s_refl (scale_surf s u) = s_refl u) by (destruct u; reflexivity).
    assert (Eco : s_coat (scale_surf s u) = s_coat u) by (destruct u; reflexivity).
    assert (Eap : s_aper (scale_surf s u) = scale_aper s (s_aper u)) by (destruct u; reflexivity).
    assert (Esh : s_shape (scale_surf s u) = scale_shape s (s_shape u)) by (destruct u; reflexivity).
    rewrite Ek, En1, En2, Erf, Eco, Eap, Esh, Hk.
    destruct (s_shape u) as [|R k| | |]; try discriminate; unfold distance, normal; rfields; foldsc.
    - rewrite plane_distance_scale. set (t := k_plane_distance O z N).
      rewrite propagate_scale.
      destruct (k_propagate O t x L y M z N (ofZ 0) w i) as [[[px py] pz] pi].
      rewrite c_mul_l, c_abs, c_add.
      destruct (s_aper u) as [[rmax rmin]|]; rfields; foldsc; rewrite ?radial_clip_scale;
        (destruct (s_refl u);
         [ destruct (k_reflect O (ofZ 0) (ofZ 0) (ofZ 1) L M N) as [[tx ty] tz]
         | destruct (k_refract O (ofZ 0) (ofZ 0) (ofZ 1) (s_n1 u) (s_n2 u) L M N) as [[tx ty] tz] ]);
        destruct (s_coat u) as [[tr rf]|]; rfields;
        rewrite <- globalize_scale; with_strategy transparent [sc] reflexivity.
    - rewrite std_distance_scale. set (t := k_std_distance O k N L M z x y R).
      rewrite propagate_scale.
      destruct (k_propagate O t x L y M z N (ofZ 0) w i) as [[[px py] pz] pi].
      rewrite c_mul_l, c_abs, c_add.
      destruct (s_aper u) as [[rmax rmin]|]; rfields; foldsc; rewrite ?radial_clip_scale;
        rewrite std_normal_scale; destruct (k_std_normal O px py R k) as [[nx ny] nz];
        (destruct (s_refl u);
         [ destruct (k_reflect O nx ny nz L M N) as [[tx ty] tz]
         | destruct (k_refract O nx ny nz (s_n1 u) (s_n2 u) L M N) as [[tx ty] tz] ]);
        destruct (s_coat u) as [[tr rf]|]; rfields;
        rewrite <- globalize_scale; with_strategy transparent [sc] reflexivity.
  Qed.

  Theorem trace_scale ss : forall r,
    Forall scalable ss ->
    trace (map (scale_surf s) ss) (scale_ray s r) = option_map (map (scale_ray s)) (trace ss r).
  Proof.
    induction ss as [|u ss IH]; intros r H; [reflexivity|].
    inversion H as [|u' ss' Hu Hss]; subst. cbn [trace map].
    rewrite (trace_surface_scale _ _ Hu).
    destruct (trace_surface u r) as [r'|]; [|reflexivity]. cbn [option_map].
    rewrite (IH _ Hss). destruct (trace ss r'); with_strategy transparent [sc] reflexivity.
  Qed.
End Scale.

Transparent sc.

(** ** instance: exact reals, every scale factor s > 0 *)
Theorem trace_scale_R (s : R) (ss : list (surf ROps)) (r : ray ROps) :
  (0 < s)%R -> Forall (@scalable ROps) ss ->
  trace (map (scale_surf (O:=ROps) s) ss) (scale_ray (O:=ROps) s r) = option_map (map (scale_ray (O:=ROps) s)) (trace ss r).
Proof. intros Hs. apply trace_scale. apply ScaleLaws_R. exact Hs. Qed.

Theorem std_distance_scale_R (s k N L M z x y R0 : R) :
  (0 < s)%R ->
  k_std_distance ROps k N L M (s * z)%R (s * x)%R (s * y)%R (s * R0)%R = (s * k_std_distance ROps k N L M z x y R0)%R.
Proof. intros Hs. exact (@std_distance_scale ROps s (ScaleLaws_R s Hs) k N L M z x y R0). Qed.

Theorem std_sag_scale_R (s x y R0 k : R) :
  (0 < s)%R -> k_std_sag ROps (s * x)%R (s * y)%R (s * R0)%R k = (s * k_std_sag ROps x y R0 k)%R.
Proof. intros Hs. exact (@std_sag_scale ROps s (ScaleLaws_R s Hs) x y R0 k). Qed.

Theorem std_normal_scale_R (s x y R0 k : R) :
  (0 < s)%R -> k_std_normal ROps (s * x)%R (s * y)%R (s * R0)%R k = k_std_normal ROps x y R0 k.
Proof. intros Hs. exact (@std_normal_scale ROps s (ScaleLaws_R s Hs) x y R0 k). Qed.

Example scalable_example :
  Forall (@scalable ROps)
    [mkSurf (O:=ROps) (1/10)%R 0%R 0%R (1/100)%R 0%R 0%R (SStd (O:=ROps) 50%R 0%R) 1%R (3/2)%R 0%R false (Some (10%R, 0%R)) None;
     mkSurf (O:=ROps) 0%R 0%R 60%R 0%R 0%R 0%R (SPlane (O:=ROps)) 1%R 1%R 0%R false None None].
Proof. repeat constructor. Qed.

(** C03: the per-sampling theorems of L_C03_dist / L_C03_vig gathered per clause of the property
    (one statement per clause keeps the number of Print Assumptions runs of the check small). *)
From Coq Require Import Reals ZArith List Bool.
From OV Require Import Ops OpsC03 RInst Gen.Distrib Spec.S_C03 Lemmas.L_C03_dist Lemmas.L_C03_vig.
Import ListNotations.
Local Open Scope R_scope.

(** "all inside the unit pupil": every named sampling, every count, every vignetting pair in [0,1]^2 *)
Theorem samplings_in_unit_disk :
  forall (n : Z) (vx vy : R), unit_interval vx -> unit_interval vy ->
    (forall po, Forall in_unit_disk (pts (k_dist_line_x ROps n vx po))) /\
    (forall po, Forall in_unit_disk (pts (k_dist_line_y ROps n vy po))) /\
    Forall in_unit_disk (pts (k_dist_cross ROps n vx vy)) /\
    Forall in_unit_disk (pts (k_dist_ring ROps n vx vy)) /\
    Forall in_unit_disk (pts (k_dist_hexapolar ROps n vx vy)) /\
    Forall in_unit_disk (pts (k_dist_uniform ROps n vx vy)) /\
    (forall sym xs ys, k_dist_gq ROps n vx vy sym = Some (xs, ys) -> Forall in_unit_disk (combine xs ys)) /\
    (forall r th, Forall unit_interval r -> Forall in_unit_disk (pts (k_dist_random ROps vx vy r th))).
Proof.
  intros n vx vy Hx Hy.
  split; [intro po; apply line_x_in_disk; exact Hx|].
  split; [intro po; apply line_y_in_disk; exact Hy|].
  split; [apply cross_in_disk; assumption|].
  split; [apply ring_in_disk; assumption|].
  split; [apply hexapolar_in_disk; assumption|].
  split; [apply uniform_in_disk; assumption|].
  split; [intros sym xs ys H; exact (gq_in_disk n vx vy sym xs ys Hx Hy H)|].
  intros r th Hr. apply random_in_disk; assumption.
Qed.

(** "field vignetting factors can only shrink the sampled pupil": point by point |x(vx)| <= |x(0)|, |y(vy)| <= |y(0)| *)
Theorem samplings_vignetting_shrinks :
  forall (n : Z) (vx vy : R), unit_interval vx -> unit_interval vy ->
    (forall po, shrinks (fst (k_dist_line_x ROps n vx po)) (fst (k_dist_line_x ROps n 0 po)) /\
                shrinks (snd (k_dist_line_x ROps n vx po)) (snd (k_dist_line_x ROps n 0 po))) /\
    (forall po, shrinks (fst (k_dist_line_y ROps n vy po)) (fst (k_dist_line_y ROps n 0 po)) /\
                shrinks (snd (k_dist_line_y ROps n vy po)) (snd (k_dist_line_y ROps n 0 po))) /\
    (shrinks (fst (k_dist_cross ROps n vx vy)) (fst (k_dist_cross ROps n 0 0)) /\
     shrinks (snd (k_dist_cross ROps n vx vy)) (snd (k_dist_cross ROps n 0 0))) /\
    (shrinks (fst (k_dist_ring ROps n vx vy)) (fst (k_dist_ring ROps n 0 0)) /\
     shrinks (snd (k_dist_ring ROps n vx vy)) (snd (k_dist_ring ROps n 0 0))) /\
    (shrinks (fst (k_dist_hexapolar ROps n vx vy)) (fst (k_dist_hexapolar ROps n 0 0)) /\
     shrinks (snd (k_dist_hexapolar ROps n vx vy)) (snd (k_dist_hexapolar ROps n 0 0))) /\
    (shrinks (fst (k_dist_uniform ROps n vx vy)) (fst (k_dist_uniform ROps n 0 0)) /\
     shrinks (snd (k_dist_uniform ROps n vx vy)) (snd (k_dist_uniform ROps n 0 0))) /\
    (forall sym xs ys xs0 ys0, k_dist_gq ROps n vx vy sym = Some (xs, ys) -> k_dist_gq ROps n 0 0 sym = Some (xs0, ys0) ->
       shrinks xs xs0 /\ shrinks ys ys0) /\
    (forall r th, shrinks (fst (k_dist_random ROps vx vy r th)) (fst (k_dist_random ROps 0 0 r th)) /\
                  shrinks (snd (k_dist_random ROps vx vy r th)) (snd (k_dist_random ROps 0 0 r th))).
Proof.
  intros n vx vy Hx Hy.
  split; [intro po; apply line_x_shrinks; exact Hx|].
  split; [intro po; apply line_y_shrinks; exact Hy|].
  split; [apply cross_shrinks; assumption|].
  split; [apply ring_shrinks; assumption|].
  split; [apply hexapolar_shrinks; assumption|].
  split; [apply uniform_shrinks; assumption|].
  split; [intros sym xs ys xs0 ys0 H H0; exact (gq_shrinks n vx vy sym xs ys xs0 ys0 Hx Hy H H0)|].
  intros r th. apply random_shrinks; assumption.
Qed.

(** "deliver their documented number of points" (line, cross, ring, random: any arithmetic) *)
Theorem samplings_counts :
  forall (O : Ops) (n : Z) (vx vy : T O),
    (forall po, length (fst (k_dist_line_x O n vx po)) = Z.to_nat n /\ length (snd (k_dist_line_x O n vx po)) = Z.to_nat n) /\
    (forall po, length (fst (k_dist_line_y O n vy po)) = Z.to_nat n /\ length (snd (k_dist_line_y O n vy po)) = Z.to_nat n) /\
    (length (fst (k_dist_ring O n vx vy)) = Z.to_nat n /\ length (snd (k_dist_ring O n vx vy)) = Z.to_nat n) /\
    ((0 <= n)%Z -> Z.of_nat (length (fst (k_dist_cross O n vx vy))) = cross_count n /\
                   Z.of_nat (length (snd (k_dist_cross O n vx vy))) = cross_count n) /\
    (forall r th : list (T O), length r = length th ->
       length (fst (k_dist_random O vx vy r th)) = length r /\ length (snd (k_dist_random O vx vy r th)) = length r).
Proof.
  intros O n vx vy.
  split; [intro po; apply line_x_count|].
  split; [intro po; apply line_y_count|].
  split; [apply ring_count|].
  split; [intro Hn; apply cross_count_thm; exact Hn|].
  intros r th H. apply random_count; exact H.
Qed.

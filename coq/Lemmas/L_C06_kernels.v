(** C06, part 1: what the regenerated kernels k_std_normal / k_reflect / k_refract / k_std_distance /
    k_plane_distance compute in the situations the stigmatic configurations need.
    (normal of a conic as the normalised gradient; reflection / refraction characterised by their
    target direction; exact hit distances for axis-parallel rays and for rays through the centre) *)
From Coq Require Import Reals Lra Lia ZArith List Psatz.
From OV Require Import Ops RInst XR Gen.RealRays Gen.Standard Lemmas.L_RealRays Lemmas.L_Standard.
Local Open Scope R_scope.

(** ** the conic normal is  h / |h|  with  h = (x/q, y/q, -1),  q = Rc sqrt(1 - (1+k) r^2 / Rc^2) *)
Section StdNormal.
  Variables x y Rc k : R.
  Hypothesis HR : Rc <> 0.
  Hypothesis Hrad : 0 < 1 - (1+k)*(x*x+y*y)/(Rc*Rc).
  Let q := Rc * sqrt (1 - (1+k)*(x*x+y*y)/(Rc*Rc)).
  Let hx := x / q. Let hy := y / q.
  Let hh := hx*hx + hy*hy + 1.

  Lemma q_ne : q <> 0.
  Proof. unfold q. apply Rmult_integral_contrapositive_currified; [assumption|]. apply Rgt_not_eq, sqrt_lt_R0, Hrad. Qed.
  Lemma hh_pos : 0 < hh. Proof. unfold hh. nra. Qed.
  Lemma sqrt_hh_sq : sqrt hh * sqrt hh = hh. Proof. apply sqrt_sqrt. generalize hh_pos; lra. Qed.
  Lemma sqrt_hh_pos : 0 < sqrt hh. Proof. apply sqrt_lt_R0, hh_pos. Qed.

  Lemma std_normal_h : k_std_normal ROps x y Rc k = (hx / sqrt hh, hy / sqrt hh, -1 / sqrt hh).
  Proof.
    generalize (std_normal_components x y Rc k).
    destruct (k_std_normal ROps x y Rc k) as [[a b] c]. cbn [fst snd].
    fold q. fold hx. fold hy. fold hh. intros (-> & -> & ->). reflexivity.
  Qed.

  (** reflection off the conic: d - 2 (d.h) h / (h.h) *)
  Lemma reflect_std_normal L M N :
    let dh := L*hx + M*hy - N in
    k_reflect ROps (hx / sqrt hh) (hy / sqrt hh) (-1 / sqrt hh) L M N
    = (L - 2*dh*hx/hh, M - 2*dh*hy/hh, N + 2*dh/hh).
  Proof.
    intros dh.
    generalize (reflect_components (hx / sqrt hh) (hy / sqrt hh) (-1 / sqrt hh) L M N).
    destruct (k_reflect ROps _ _ _ L M N) as [[a b] c]. cbn [fst snd]. intros (-> & -> & ->).
    generalize sqrt_hh_sq sqrt_hh_pos; intros S P.
    set (m := sqrt hh) in *. rewrite <- S. unfold dh.
    f_equal; [f_equal|]; field; lra.
  Qed.
End StdNormal.

(** ** refraction characterised by its target: a unit vector  t = (n1/n2) d + c n  on the
    transmission side is what k_refract returns *)
Section RefractChar.
  Variables nx ny nz n1 n2 L M N tx ty tz c : R.
  Hypothesis Hd : L*L + M*M + N*N = 1.
  Hypothesis Hn : nx*nx + ny*ny + nz*nz = 1.
  Hypothesis Ht : tx*tx + ty*ty + tz*tz = 1.
  Let u := n1 / n2.
  Let dot := L*nx + M*ny + N*nz.
  Hypothesis Htx : tx = u*L + c*nx.
  Hypothesis Hty : ty = u*M + c*ny.
  Hypothesis Htz : tz = u*N + c*nz.
  Hypothesis Hside : 0 < (tx*nx + ty*ny + tz*nz) * dot.

  Lemma refract_char : k_refract ROps nx ny nz n1 n2 L M N = (tx, ty, tz).
  Proof.
    assert (Hdot : dot <> 0) by (intro E; rewrite E, Rmult_0_r in Hside; lra).
    assert (Htn : tx*nx + ty*ny + tz*nz = u*dot + c).
    { rewrite Htx, Hty, Htz. unfold dot.
      transitivity (u*(L*nx+M*ny+N*nz) + c*(nx*nx+ny*ny+nz*nz)); [ring|rewrite Hn; ring]. }
    assert (Hsq : (c + u*dot)*(c + u*dot) = 1 - u*u*(1 - dot*dot)).
    { assert (E : tx*tx + ty*ty + tz*tz = u*u*(L*L+M*M+N*N) + 2*u*c*dot + c*c*(nx*nx+ny*ny+nz*nz)).
      { rewrite Htx, Hty, Htz. unfold dot. ring. }
      rewrite Ht, Hd, Hn in E. nra. }
    assert (Hrad : 0 <= 1 - u*u*(1 - dot*dot)).
    { rewrite <- Hsq. generalize (Rle_0_sqr (c + u*dot)). unfold Rsqr. lra. }
    generalize (refract_components nx ny nz n1 n2 L M N).
    generalize (refract_facts nx ny nz n1 n2 L M N Hdot Hrad).
    fold dot. fold u. cbv zeta.
    set (s := Rsign dot). set (a := Rabs dot). set (r := sqrt (1 - u*u*(1 - a*a))).
    intros (Hs & Ha & Hr & Hr0 & Ha0).
    destruct (k_refract ROps nx ny nz n1 n2 L M N) as [[ox oy] oz]. cbn [fst snd]. intros (-> & -> & ->).
    (* r = s (c + u dot) *)
    assert (Haa : a*a = dot*dot). { rewrite Ha. transitivity ((s*s)*(dot*dot)); [ring|rewrite Hs; ring]. }
    assert (Hrr : r*r = (c + u*dot)*(c + u*dot)) by (rewrite Hr, Haa, Hsq; reflexivity).
    assert (Hsgn : 0 <= s*(c + u*dot)).
    { rewrite Htn in Hside. unfold s.
      destruct (Rtotal_order dot 0) as [Hlt|[Heq|Hgt]]; [|contradiction|].
      - rewrite Rsign_neg by assumption. nra.
      - rewrite Rsign_pos by assumption. nra. }
    assert (Hreq : r = s*(c + u*dot)).
    { assert (Q : (s*(c + u*dot))*(s*(c + u*dot)) = r*r).
      { rewrite Hrr. transitivity ((s*s)*((c + u*dot)*(c + u*dot))); [ring|rewrite Hs; ring]. }
      nra. }
    assert (Hcoef : s*r - u*s*a = c).
    { rewrite Hreq, Ha. transitivity ((s*s)*(c + u*dot) - u*(s*s)*dot); [ring|rewrite Hs; ring]. }
    rewrite Htx, Hty, Htz. rewrite <- Hcoef. f_equal; [f_equal|]; ring.
  Qed.
End RefractChar.

(** ** exact hit distances *)

(** a ray parallel to the axis (direction (0,0,sg), sg = +-1) meets the paraboloid k = -1 at its sag
    r^2 / (2 Rc): the kernel takes its linear branch (a = 0) *)
Lemma std_distance_paraboloid_axial Rc sg x y z0 :
  Rc <> 0 -> (sg = 1 \/ sg = -1) ->
  0 <= sg * ((x*x + y*y) / (2*Rc) - z0) ->            (* the mirror lies ahead of the ray (else: no intersection) *)
  k_std_distance XOps (Fin (-1)) (Fin sg) (Fin 0) (Fin 0) (Fin z0) (Fin x) (Fin y) (Fin Rc)
  = Fin (sg * ((x*x + y*y) / (2*Rc) - z0)).
Proof.
  intros HR Hsg Hahead. rewrite res_unfold. cbv zeta.
  assert (Hs2 : sg*sg = 1) by (destruct Hsg; subst; ring).
  replace (-1 * (sg*sg) + 0*0 + 0*0 + sg*sg) with 0 by (rewrite Hs2; ring).
  unfold Reqb. destruct (Req_EM_T 0 0) as [_|E]; [|exfalso; apply E; reflexivity].
  cbn [xdiv].
  replace (2 * -1 * sg * z0 + 2*0*x + 2*0*y - 2*sg*Rc + 2*sg*z0) with (- (2*sg*Rc)) by ring.
  destruct (Req_EM_T (- (2*sg*Rc)) 0) as [E|E].
  - exfalso. destruct Hsg; subst; lra.
  - assert (Et : - (-1 * (z0*z0) - 2*Rc*z0 + x*x + y*y + z0*z0) / - (2*sg*Rc) = sg * ((x*x + y*y) / (2*Rc) - z0)).
    { apply Rmult_eq_reg_l with sg; [|destruct Hsg; subst; lra].
      transitivity ((sg*sg) * ((x*x+y*y)/(2*Rc) - z0)); [|ring].
      rewrite Hs2. field. split; [assumption|destruct Hsg; subst; lra]. }
    rewrite Et. unfold behind. cbn [xltb]. unfold Rltb.
    destruct (Rlt_dec (sg * ((x*x + y*y) / (2*Rc) - z0)) 0) as [Hn|_]; [lra|reflexivity].
Qed.

(** a ray leaving the centre of curvature of a sphere (k = 0) towards its vertex side (N Rc < 0) meets it after |Rc|
    (the other root is behind the ray; since the sheet filter of the kernel, a ray heading away from the vertex
    finds no intersection at all) *)
Ltac xdec :=
  repeat (cbn [xadd xsub xmul xdiv xneg xabs xsqrt xltb xleb xeqb];
          unfold Rltb, Rleb, Reqb;
          match goal with
          | |- context [Rlt_dec ?a ?b] => destruct (Rlt_dec a b); try (exfalso; nra)
          | |- context [Rle_dec ?a ?b] => destruct (Rle_dec a b); try (exfalso; nra)
          | |- context [Req_EM_T ?a ?b] => destruct (Req_EM_T a b); try (exfalso; nra)
          end).

(** the selection among two known roots: the first is behind the ray (or off the sheet), the second is in front,
    on the vertex sheet *)
Lemma select_second k N z Rc (t1 t2 : R) :
  N <> 0 -> t1 < 0 -> 0 <= t2 -> 0 <= (Rc - (1 + k) * (z + t2 * N)) * Rc ->
  (let t1' := sheet k N z Rc (behind (Fin t1)) in
   let t2' := sheet k N z Rc (behind (Fin t2)) in
   if xleb (xabs (zat N z t1')) (xabs (zat N z t2')) then t1' else t2') = Fin t2.
Proof.
  intros HN H1 H2 Hs. cbv zeta.
  assert (B1 : behind (Fin t1) = PInf) by (unfold behind; xdec; reflexivity).
  assert (B2 : behind (Fin t2) = Fin t2) by (unfold behind; xdec; reflexivity).
  rewrite B1, B2.
  assert (S1 : sheet k N z Rc PInf = PInf) by (unfold sheet, zat; xdec; reflexivity).
  assert (S2 : sheet k N z Rc (Fin t2) = Fin t2).
  { unfold sheet, zat. cbn [xadd xsub xmul xneg xltb]. unfold Rltb.
    destruct (Rlt_dec ((Rc + - ((1 + k) * (z + t2 * N))) * Rc) 0) as [E|_]; [exfalso; nra|reflexivity]. }
  rewrite S1, S2. unfold zat. xdec; reflexivity.
Qed.

Lemma std_distance_from_centre Rc L M N :
  Rc <> 0 -> L*L + M*M + N*N = 1 -> N * Rc < 0 ->
  k_std_distance XOps (Fin 0) (Fin N) (Fin L) (Fin M) (Fin Rc) (Fin 0) (Fin 0) (Fin Rc) = Fin (Rabs Rc).
Proof.
  intros HR Hd HN. rewrite res_unfold.
  assert (HN0 : N <> 0) by (intro E; rewrite E in HN; lra).
  assert (Ha : 0 < Rabs Rc) by (apply Rabs_pos_lt; assumption).
  assert (Ha2 : Rabs Rc * Rabs Rc = Rc * Rc) by (rewrite <- Rabs_mult, (Rabs_right (Rc*Rc)); [reflexivity|nra]).
  replace (0*(N*N) + L*L + M*M + N*N) with 1 by lra.
  replace (2*0*N*Rc + 2*L*0 + 2*M*0 - 2*N*Rc + 2*N*Rc) with 0 by ring.
  replace (0*0 - 4*1*(0*(Rc*Rc) - 2*Rc*Rc + 0*0 + 0*0 + Rc*Rc)) with ((2*Rabs Rc)*(2*Rabs Rc)) by (transitivity (4*(Rabs Rc*Rabs Rc)); [ring|rewrite Ha2; ring]).
  replace (0*(Rc*Rc) - 2*Rc*Rc + 0*0 + 0*0 + Rc*Rc) with (- (Rabs Rc * Rabs Rc)) by (rewrite Ha2; ring).
  assert (Q : xmul (Fin (- / 2)) (xadd (Fin 0) (xmul (if Rltb 0 0 then Fin (-1) else Fin 1)
                 (xsqrt (Fin (2 * Rabs Rc * (2 * Rabs Rc)))))) = Fin (- Rabs Rc)).
  { unfold Rltb. destruct (Rlt_dec 0 0) as [E|_]; [lra|]. cbn [xsqrt].
    destruct (Rlt_dec (2*Rabs Rc*(2*Rabs Rc)) 0) as [E|_]; [nra|]. rewrite sqrt_square by lra.
    cbn [xmul xadd]. f_equal. field. }
  cbv zeta. rewrite Q.
  assert (T1 : xdiv (Fin (- Rabs Rc)) (Fin 1) = Fin (- Rabs Rc)) by (xdec; f_equal; field).
  assert (T2 : (if xeqb (Fin (- Rabs Rc)) (Fin 0) then Fin (- Rabs Rc)
                else xdiv (Fin (- (Rabs Rc * Rabs Rc))) (Fin (- Rabs Rc))) = Fin (Rabs Rc)).
  { xdec. f_equal. field. lra. }
  rewrite T1, T2. unfold Reqb. destruct (Req_EM_T 1 0) as [E|_]; [lra|].
  apply (select_second 0 N Rc Rc (- Rabs Rc) (Rabs Rc)); try lra.
  destruct (Rcase_abs Rc) as [Hneg|Hpos].
  - rewrite (Rabs_left Rc) by assumption. nra.
  - rewrite (Rabs_right Rc) by lra. nra.
Qed.

(** regression of finding conic-wrong-sheet (fixed by dc4c87d): convex hyperboloid Rc = 11, k = -9/4, ray leaving
    the far focus (0,0,-22) along (0, 3/5, 4/5).  Both sheets are ahead: the second sheet at t = 5 (z = -18, closer
    to the vertex in z) and the vertex sheet at t = 55 (z = +22).  The kernel returns the vertex-sheet hit. *)
Lemma std_distance_far_focus_regression :
  k_std_distance XOps (Fin (-9/4)) (Fin (4/5)) (Fin 0) (Fin (3/5)) (Fin (-22)) (Fin 0) (Fin 0) (Fin 11) = Fin 55.
Proof.
  rewrite res_unfold.
  replace (-9/4 * (4/5 * (4/5)) + 0*0 + 3/5 * (3/5) + 4/5 * (4/5)) with (-11/25) by field.
  replace (2 * (-9/4) * (4/5) * -22 + 2*0*0 + 2 * (3/5) * 0 - 2 * (4/5) * 11 + 2 * (4/5) * -22) with (132/5) by field.
  replace (-9/4 * (-22 * -22) - 2 * 11 * -22 + 0*0 + 0*0 + -22 * -22) with (-121) by field.
  replace (132/5 * (132/5) - 4 * (-11/25) * -121) with (22*22) by field.
  assert (Q : xmul (Fin (- / 2)) (xadd (Fin (132/5)) (xmul (if Rltb (132/5) 0 then Fin (-1) else Fin 1)
                 (xsqrt (Fin (22*22))))) = Fin (-121/5)).
  { unfold Rltb. destruct (Rlt_dec (132/5) 0) as [E|_]; [lra|]. cbn [xsqrt].
    destruct (Rlt_dec (22*22) 0) as [E|_]; [lra|]. rewrite sqrt_square by lra.
    cbn [xmul xadd]. f_equal. field. }
  cbv zeta. rewrite Q.
  assert (T1 : xdiv (Fin (-121/5)) (Fin (-11/25)) = Fin 55) by (xdec; f_equal; field).
  assert (T2 : (if xeqb (Fin (-121/5)) (Fin 0) then Fin 55 else xdiv (Fin (-121)) (Fin (-121/5))) = Fin 5).
  { xdec. f_equal. field. }
  rewrite T1, T2. unfold Reqb. destruct (Req_EM_T (-11/25) 0) as [E|_]; [lra|].
  assert (B1 : behind (Fin 55) = Fin 55) by (unfold behind; xdec; reflexivity).
  assert (B2 : behind (Fin 5) = Fin 5) by (unfold behind; xdec; reflexivity).
  rewrite B1, B2.
  assert (S1 : sheet (-9/4) (4/5) (-22) 11 (Fin 55) = Fin 55) by (unfold sheet, zat; xdec; reflexivity).
  assert (S2 : sheet (-9/4) (4/5) (-22) 11 (Fin 5) = PInf) by (unfold sheet, zat; xdec; reflexivity).
  rewrite S1, S2. unfold zat. xdec; reflexivity.
Qed.

(** the image plane: a ray at height z (relative to the plane) with direction cosine N reaches it after -z/N *)
Lemma plane_distance_exact z N :
  N <> 0 -> 0 <= - z / N -> k_plane_distance XOps (Fin z) (Fin N) = Fin (- z / N).
Proof.
  intros HN Ht. unfold k_plane_distance. xops. cbn [xneg xdiv].
  destruct (Req_EM_T N 0); [contradiction|]. cbn [xltb]. unfold Rltb.
  destruct (Rlt_dec (- z / N) 0); [lra|reflexivity].
Qed.

(** Theorems about the wavefront data of the model (Model/M_C09.v over the regenerated kernels):
    every reported sample is (chief path - ray path) / wavelength with both paths measured from the
    common object-space wavefront to the chief-ray reference sphere; the chief ray's own sample is 0. *)
From Coq Require Import Reals Lra Lia ZArith List String Psatz.
From OV Require Import Ops RInst Num.OpsC09 Gen.Wavefront Model.Trace Model.M_C09 Spec.S_C09
     Lemmas.L_C09_sphere Lemmas.L_C09_tilt.
Import ListNotations.
Local Open Scope R_scope.

(** the record of a ray at the image surface: the last row of the record arrays *)
Definition image_rec (l0 : ray ROps) (recs : list (ray ROps)) : ray ROps := last (l0 :: recs) l0.

(** distance from the image point back along the ray to the sphere (centre (xc,yc,zc), radius Rr),
    as computed by the regenerated _opd_image_to_xp *)
Definition dist_back (xc yc zc Rr : R) (e : ray ROps) : R :=
  t_xp xc yc zc Rr (rx e) (ry e) (rz e) (rL e) (rM e) (rN e) [] [] [] [] [] [].

Lemma t_xp_prefix xc yc zc Rr xr yr zr L M N xs ys zs Ls Ms Ns :
  t_xp xc yc zc Rr xr yr zr L M N xs ys zs Ls Ms Ns = t_xp xc yc zc Rr xr yr zr L M N [] [] [] [] [] [].
Proof. rewrite !t_xp_unfold. reflexivity. Qed.

Lemma col_snoc (f : ray ROps -> R) l0 recs :
  exists pre, col f l0 recs = pre ++ [f (image_rec l0 recs)].
Proof.
  unfold col, image_rec. destruct (nonempty_snoc (l0 :: recs)) as [l' [x E]]; [discriminate|].
  rewrite E, map_app, last_last. cbn [map]. eauto.
Qed.

Lemma Rlit_milli : Rlit 1 (-3) = / 1000.
Proof. unfold Rlit. cbn. lra. Qed.

(** _generate_field_data after the trace, on one ray *)
Lemma field_data_on_records w opd_ref xc yc zc Rr nimg ft f0 f1 maxf vx vy dx dy E nobj l0 recs :
  let e := image_rec l0 recs in
  k_wf_field_data ROps w opd_ref xc yc zc Rr (col ri l0 recs) (col ropd l0 recs) nimg (col rx l0 recs)
     (col ry l0 recs) (col rz l0 recs) (col rL l0 recs) (col rM l0 recs) (col rN l0 recs)
     ft f0 f1 maxf vx vy dx dy E nobj
  = ((opd_ref - k_wf_tilt_dist ROps (ropd e - Rabs nimg * dist_back xc yc zc Rr e) ft f0 f1 maxf vx vy dx dy E nobj)
       / (w * / 1000), ri e).
Proof.
  intros e. unfold k_wf_field_data.
  destruct (col_snoc ri l0 recs) as [pi Ei]. destruct (col_snoc ropd l0 recs) as [po Eo].
  destruct (col_snoc rx l0 recs) as [p1 E1]. destruct (col_snoc ry l0 recs) as [p2 E2].
  destruct (col_snoc rz l0 recs) as [p3 E3]. destruct (col_snoc rL l0 recs) as [p4 E4].
  destruct (col_snoc rM l0 recs) as [p5 E5]. destruct (col_snoc rN l0 recs) as [p6 E6].
  rewrite Ei, Eo, E1, E2, E3, E4, E5, E6. fold e.
  rewrite path_length_unfold, getZ_last. rewrite t_xp_prefix. fold (dist_back xc yc zc Rr e).
  rops. rewrite Rlit_milli. reflexivity.
Qed.

(** _trace_chief_ray + _get_reference_sphere + _get_path_length + _correct_tilt(x=0, y=0) *)
Lemma chief_ref_on_records ss pz (c : wfcfg ROps) Hx Hy vx vy l0 recs :
  trace ss l0 = Some recs ->
  let e := image_rec l0 recs in
  let Rr := sqrt (ref_radius_sq (rx e, ry e, rz e) pz) in
  chief_ref ss pz c Hx Hy vx vy l0 =
  Some (rx e, ry e, rz e, Rr,
        k_wf_tilt_xy ROps (ropd e - Rabs (n_image ss) * dist_back (rx e) (ry e) (rz e) Rr e) 0 0 (w_ftype c) Hx Hy
                     (w_maxfield c) vx vy (w_EPD c) (n_object ss)).
Proof.
  intros Ht e Rr. unfold chief_ref. rewrite Ht.
  destruct (col_snoc ropd l0 recs) as [po Eo].
  destruct (col_snoc rx l0 recs) as [p1 E1]. destruct (col_snoc ry l0 recs) as [p2 E2].
  destruct (col_snoc rz l0 recs) as [p3 E3]. destruct (col_snoc rL l0 recs) as [p4 E4].
  destruct (col_snoc rM l0 recs) as [p5 E5]. destruct (col_snoc rN l0 recs) as [p6 E6].
  rewrite Eo, E1, E2, E3, E4, E5, E6. fold e.
  unfold k_wf_ref_sphere. cbn [Z.eqb Pos.eqb negb]. rewrite !getZ_last.
  rewrite path_length_unfold, t_xp_prefix. rops.
  replace (sqrt (rx e * rx e + ry e * ry e + (rz e - pz) * (rz e - pz))) with Rr.
  - reflexivity.
  - unfold Rr, ref_radius_sq, sqdist, dot3, sub3, px, py, S_C09.pz. cbn [fst snd]. f_equal. ring.
Qed.

Lemma sample_on_records ss (c : wfcfg ROps) w Hx Hy vx vy xc yc zc Rr opd_ref l0 dx dy recs :
  trace ss l0 = Some recs ->
  let e := image_rec l0 recs in
  sample ss c w Hx Hy vx vy (xc, yc, zc, Rr, opd_ref) l0 dx dy =
  Some ((opd_ref - k_wf_tilt_dist ROps (ropd e - Rabs (n_image ss) * dist_back xc yc zc Rr e) (w_ftype c) Hx Hy
                                   (w_maxfield c) vx vy dx dy (w_EPD c) (n_object ss))
          / (w * / 1000), ri e).
Proof. intros Ht e. unfold sample. rewrite Ht, field_data_on_records. reflexivity. Qed.

(** ** the chief ray's own sample is exactly zero *)
Theorem chief_sample_zero :
  forall ss pz (c : wfcfg ROps) w Hx Hy vx vy l0 ref v i,
    chief_ref ss pz c Hx Hy vx vy l0 = Some ref ->
    sample ss c w Hx Hy vx vy ref l0 0 0 = Some (v, i) ->
    v = 0.
Proof.
  intros ss pz c w Hx Hy vx vy l0 ref v i Hc Hs.
  destruct (trace ss l0) as [recs|] eqn:Ht; [|unfold chief_ref in Hc; rewrite Ht in Hc; discriminate].
  rewrite (chief_ref_on_records ss pz c Hx Hy vx vy l0 recs Ht) in Hc. injection Hc as <-.
  rewrite (sample_on_records ss c w Hx Hy vx vy _ _ _ _ _ l0 0 0 recs Ht) in Hs. injection Hs as <- _.
  rewrite tilt_dist_is_tilt_xy.
  replace (0 * ((1 - vx) * (1 - vx))) with 0 by ring. replace (0 * ((1 - vy) * (1 - vy))) with 0 by ring.
  unfold k_wf_tilt_xy. rops.
  destruct (String.eqb (w_ftype c) "angle"); Req; unfold Rdiv; ring.
Qed.

(** ** sequence / batch plumbing *)
Lemma sequence_nth {A} (l : list (option A)) (r : list A) :
  sequence l = Some r -> forall k, nth_error l k = option_map Some (nth_error r k).
Proof.
  revert r. induction l as [|a l IH]; intros r H k.
  - injection H as <-. destruct k; reflexivity.
  - destruct a as [a|]; [|discriminate]. cbn in H.
    destruct (sequence l) as [r'|] eqn:E; [|discriminate]. injection H as <-.
    destruct k; [reflexivity|]. cbn. apply IH. reflexivity.
Qed.

Lemma sequence_length {A} (l : list (option A)) (r : list A) : sequence l = Some r -> List.length r = List.length l.
Proof.
  revert r. induction l as [|a l IH]; intros r H.
  - injection H as <-. reflexivity.
  - destruct a as [a|]; [|discriminate]. cbn in H.
    destruct (sequence l) as [r'|] eqn:E; [|discriminate]. injection H as <-. cbn. f_equal. apply IH. reflexivity.
Qed.

(** every entry of the reported cell is the sample of the corresponding launched ray *)
Theorem field_data_from_samples :
  forall ss pz (c : wfcfg ROps) w Hx Hy vx vy chief batch opds ints,
    field_data_from ss pz c w Hx Hy vx vy chief batch = Some (opds, ints) ->
    exists ref, chief_ref ss pz c Hx Hy vx vy chief = Some ref /\
      List.length opds = List.length batch /\ List.length ints = List.length batch /\
      forall k l0 dx dy, nth_error batch k = Some (l0, (dx, dy)) ->
        exists v i, sample ss c w Hx Hy vx vy ref l0 dx dy = Some (v, i) /\
                    nth_error opds k = Some v /\ nth_error ints k = Some i.
Proof.
  intros ss pz c w Hx Hy vx vy chief batch opds ints H. unfold field_data_from in H. revert H.
  destruct (chief_ref ss pz c Hx Hy vx vy chief) as [ref|]; [|discriminate].
  destruct (sequence _) as [cells|] eqn:Es; [|discriminate]. intros H. injection H as <- <-.
  exists ref. split; [reflexivity|].
  pose proof (sequence_length _ _ Es) as Hl. rewrite map_length in Hl.
  split; [rewrite map_length; exact Hl|]. split; [rewrite map_length; exact Hl|].
  intros k l0 dx dy Hk. pose proof (sequence_nth _ _ Es k) as Hn.
  rewrite nth_error_map, Hk in Hn. cbn in Hn.
  rops. revert Hn. destruct (nth_error cells k) as [[v i]|] eqn:Ec; cbn; intros Hn; [|discriminate]. injection Hn as Hn.
  exists v, i. split; [exact Hn|]. rewrite !nth_error_map, Ec. split; reflexivity.
Qed.

(** with the launch modelled: the distribution point (0, 0) is launched exactly like the chief ray
    (whatever the vignetting factors), so its reported OPD is 0 *)
Theorem field_data_chief_zero :
  forall ss pz (c : wfcfg ROps) lc w Hx Hy vx vy dist opds ints k,
    field_data ss pz c lc w Hx Hy vx vy dist = Some (opds, ints) ->
    nth_error dist k = Some (0, 0) ->
    nth_error opds k = Some 0.
Proof.
  intros ss pz c lc w Hx Hy vx vy dist opds ints k H Hk. unfold field_data in H. revert H.
  destruct (launch lc w Hx Hy (scaled (O:=ROps) (ofZ 0) vx) (scaled (O:=ROps) (ofZ 0) vy) vx vy) as [chief|] eqn:Ec; [|discriminate].
  destruct (sequence _) as [batch|] eqn:Es; [|discriminate]. intros H.
  pose proof (sequence_nth _ _ Es k) as Hn. rewrite nth_error_map, Hk in Hn. cbn [option_map] in Hn.
  change (@ofZ ROps 0) with 0 in Ec. rewrite Ec in Hn.
  rops. revert Hn. destruct (nth_error batch k) as [b|] eqn:Eb; cbn; intros Hn; [|discriminate]. injection Hn as <-.
  destruct (field_data_from_samples _ _ _ _ _ _ _ _ _ _ _ _ H) as [ref [Hr [_ [_ Hall]]]].
  destruct (Hall k chief 0 0 Eb) as [v [i [Hs [Hv _]]]].
  assert (Hz : v = 0) by (eapply chief_sample_zero; eassumption). subst v. exact Hv.
Qed.

(** ** the reported sample is the path difference of the specification *)
(** infinite object, angular field along y; any vignetting factors; object- and image-space media of any
    index (|n|: a mirror system may carry the index with a sign). *)
Theorem opd_definition_infinite :
  forall ss pz (wc : wfcfg ROps) (lc : launchcfg ROps) w Hy vx vy dx dy l0c l0 recs_c recs ref v i,
    lc_infinite lc = true -> lc_angle lc = true -> lc_pos1 lc = 0 ->
    0 < lc_offset lc + lc_EPL lc -> 0 < cos (rad (lc_maxfield lc * Hy)) ->
    w_ftype wc = "angle"%string -> w_maxfield wc = lc_maxfield lc -> w_EPD wc = lc_EPD lc ->
    launch lc w 0 Hy (scaled (O:=ROps) 0 vx) (scaled (O:=ROps) 0 vy) vx vy = Some l0c ->
    launch lc w 0 Hy (scaled (O:=ROps) dx vx) (scaled (O:=ROps) dy vy) vx vy = Some l0 ->
    trace ss l0c = Some recs_c -> trace ss l0 = Some recs ->
    chief_ref ss pz wc 0 Hy vx vy l0c = Some ref ->
    sample ss wc w 0 Hy vx vy ref l0 dx dy = Some (v, i) ->
    let ec := image_rec l0c recs_c in
    let e := image_rec l0 recs in
    let Rr := sqrt (ref_radius_sq (rx ec, ry ec, rz ec) pz) in
    let n_obj := Rabs (n_object ss) in
    let n_img := Rabs (n_image ss) in
    v = opd_waves
          (path_to_sphere 0 (ropd ec) n_img (dist_back (rx ec) (ry ec) (rz ec) Rr ec))
          (path_to_sphere (plane_wave_path n_obj (rL l0, rM l0, rN l0) (rx l0c, ry l0c, rz l0c) (rx l0, ry l0, rz l0))
                          (ropd e) n_img (dist_back (rx ec) (ry ec) (rz ec) Rr e))
          w.
Proof.
  intros ss pz wc lc w Hy vx vy dx dy l0c l0 recs_c recs ref v i Hinf Hang Hp1 HD Hcos Hft Hmf HE Hl0c Hl0 Htc Ht Hc Hs.
  cbv zeta.
  rewrite (chief_ref_on_records ss pz wc 0 Hy vx vy l0c recs_c Htc) in Hc. injection Hc as <-.
  rewrite (sample_on_records ss wc w 0 Hy vx vy _ _ _ _ _ l0 dx dy recs Ht) in Hs. injection Hs as <- _.
  rops. set (ec := image_rec l0c recs_c) in *. set (e := image_rec l0 recs) in *.
  set (Rr := sqrt (ref_radius_sq (rx ec, ry ec, rz ec) pz)) in *.
  pose proof (tilt_matches_launch lc w Hy dx dy vx vy (ropd ec - Rabs (n_image ss) * dist_back (rx ec) (ry ec) (rz ec) Rr ec)
                (ropd e - Rabs (n_image ss) * dist_back (rx ec) (ry ec) (rz ec) Rr e) (n_object ss) l0 l0c
                Hinf Hang Hp1 HD Hcos Hl0 Hl0c) as Heq.
  rewrite Hft, Hmf, HE. unfold k_wf_tilt_xy, k_wf_tilt_dist in *. cbn [String.eqb Ascii.eqb Bool.eqb] in *. rops.
  unfold opd_waves, path_to_sphere. Req. f_equal. lra.
Qed.

(** finite object, height fields: no launch offset (every ray starts at the object point) *)
Theorem opd_definition_finite :
  forall ss pz (wc : wfcfg ROps) w Hx Hy vx vy dx dy l0c l0 recs_c recs ref v i,
    w_ftype wc = "object_height"%string ->
    trace ss l0c = Some recs_c -> trace ss l0 = Some recs ->
    chief_ref ss pz wc Hx Hy vx vy l0c = Some ref ->
    sample ss wc w Hx Hy vx vy ref l0 dx dy = Some (v, i) ->
    let ec := image_rec l0c recs_c in
    let e := image_rec l0 recs in
    let Rr := sqrt (ref_radius_sq (rx ec, ry ec, rz ec) pz) in
    let n_img := Rabs (n_image ss) in
    v = opd_waves
          (path_to_sphere 0 (ropd ec) n_img (dist_back (rx ec) (ry ec) (rz ec) Rr ec))
          (path_to_sphere 0 (ropd e) n_img (dist_back (rx ec) (ry ec) (rz ec) Rr e))
          w.
Proof.
  intros ss pz wc w Hx Hy vx vy dx dy l0c l0 recs_c recs ref v i Hft Htc Ht Hc Hs.
  cbv zeta.
  rewrite (chief_ref_on_records ss pz wc Hx Hy vx vy l0c recs_c Htc) in Hc. injection Hc as <-.
  rewrite (sample_on_records ss wc w Hx Hy vx vy _ _ _ _ _ l0 dx dy recs Ht) in Hs. injection Hs as <- _.
  rops. set (ec := image_rec l0c recs_c) in *. set (e := image_rec l0 recs) in *.
  set (Rr := sqrt (ref_radius_sq (rx ec, ry ec, rz ec) pz)) in *.
  rewrite Hft. unfold k_wf_tilt_xy, k_wf_tilt_dist. cbn [String.eqb Ascii.eqb Bool.eqb]. rops.
  unfold opd_waves, path_to_sphere. Req. f_equal. ring.
Qed.

(** both subtracted distances put their points on the reference sphere of the specification (centre = the
    chief ray's image point, through the axial exit-pupil point) *)
Theorem sample_points_on_reference_sphere :
  forall pz (ec e : ray ROps),
    let cen := (rx ec, ry ec, rz ec) in
    let R2 := ref_radius_sq cen pz in
    let Rr := sqrt R2 in
    rL e * rL e + rM e * rM e + rN e * rN e <> 0 ->
    0 <= (- (2 * (rL e * (rx e - rx ec) + rM e * (ry e - ry ec) + rN e * (rz e - rz ec)))) *
         (- (2 * (rL e * (rx e - rx ec) + rM e * (ry e - ry ec) + rN e * (rz e - rz ec))))
         - 4 * (rL e * rL e + rM e * rM e + rN e * rN e) *
           ((rx e - rx ec) * (rx e - rx ec) + (ry e - ry ec) * (ry e - ry ec) + (rz e - rz ec) * (rz e - rz ec) - Rr * Rr) ->
    on_sphere cen R2 (back (rx e, ry e, rz e) (rL e, rM e, rN e) (dist_back (rx ec) (ry ec) (rz ec) Rr e)) /\
    on_sphere cen R2 (0, 0, pz).
Proof.
  intros pz ec e cen R2 Rr Ha Hd.
  assert (HR2 : 0 <= R2).
  { unfold R2, ref_radius_sq, sqdist, dot3, sub3, px, py, S_C09.pz, cen. cbn [fst snd].
    pose proof (sq_nonneg (0 - rx ec)); pose proof (sq_nonneg (0 - ry ec)); pose proof (sq_nonneg (pz - rz ec)). lra. }
  assert (HRR : Rr * Rr = R2) by (unfold Rr; apply sqrt_sqrt; exact HR2).
  split.
  - rewrite <- HRR. unfold dist_back, cen.
    apply (image_to_xp_on_sphere (rx ec) (ry ec) (rz ec) Rr (rx e) (ry e) (rz e) (rL e) (rM e) (rN e)); assumption.
  - unfold on_sphere, R2, ref_radius_sq. reflexivity.
Qed.

(** the hypotheses of [opd_definition_infinite] are satisfiable (degenerate lens with no surface:
    the image record is the launch record) *)
Example opd_definition_infinite_example :
  exists l0c l0 ref v i,
    launch lc_example (55/100) 0 1 (scaled (O:=ROps) 0 0) (scaled (O:=ROps) 0 0) 0 0 = Some l0c /\
    launch lc_example (55/100) 0 1 (scaled (O:=ROps) 0 0) (scaled (O:=ROps) 1 0) 0 0 = Some l0 /\
    trace (O:=ROps) [] l0c = Some [] /\ trace (O:=ROps) [] l0 = Some [] /\
    chief_ref (O:=ROps) [] (-50) (mkWC (O:=ROps) "angle" 30 10) 0 1 0 0 l0c = Some ref /\
    sample (O:=ROps) [] (mkWC (O:=ROps) "angle" 30 10) (55/100) 0 1 0 0 ref l0 0 1 = Some (v, i).
Proof.
  destruct tilt_matches_launch_example as [r [r0 [Hr [Hr0 _]]]].
  exists r0, r.
  pose proof (chief_ref_on_records [] (-50) (mkWC (O:=ROps) "angle" 30 10) 0 1 0 0 r0 [] eq_refl) as Hc.
  cbv zeta in Hc. eexists. eexists. eexists.
  split; [exact Hr0|]. split; [exact Hr|]. split; [reflexivity|]. split; [reflexivity|].
  split; [exact Hc|]. rewrite (sample_on_records [] _ _ _ _ _ _ _ _ _ _ _ r 0 1 [] eq_refl). reflexivity.
Qed.

(** ** Wavefront._generate_data: one cell per (field, wavelength), each the field data of that pair *)
Lemma nthZ_of_nat {A} (l : list A) (i : nat) : nthZ l (Z.of_nat i) = nth_error l i.
Proof.
  unfold nthZ. cbv zeta.
  assert (E0 : (Z.of_nat i <? 0)%Z = false) by (apply Z.ltb_ge; lia). rewrite !E0. cbn [orb].
  destruct (Z.leb_spec (Z.of_nat (List.length l)) (Z.of_nat i)) as [H|H].
  - cbn [orb]. symmetry. apply nth_error_None. lia.
  - cbn [orb]. rewrite Nat2Z.id. reflexivity.
Qed.

Theorem generate_data_entry :
  forall (lens : R -> list (surf ROps)) ps (c : wfcfg ROps) lc fields wls dist (d : wfdata (O:=ROps)),
    generate_data (O:=ROps) lens ps c lc fields wls dist = Some d ->
    List.length d = List.length fields /\
    forall i j f w, nth_error fields i = Some f -> nth_error wls j = Some w ->
      field_data (lens w) (pupil_z_of ps) c lc w (f_Hx f) (f_Hy f) (f_vx f) (f_vy f) dist
      = Some (wf_cell (wf_row d (Z.of_nat i)) (Z.of_nat j)).
Proof.
  intros lens ps c lc fields wls dist d H. unfold generate_data in H.
  pose proof (sequence_length _ _ H) as Hl. rewrite map_length in Hl. split; [exact Hl|].
  intros i j f w Hi Hj.
  pose proof (sequence_nth _ _ H i) as Hn. rewrite nth_error_map, Hi in Hn. cbn [option_map] in Hn.
  unfold wf_row, wf_cell. rewrite !nthZ_of_nat.
  rops. revert Hn. destruct (@nth_error (list (list R * list R)) d i) as [row|] eqn:Er; cbn [option_map]; intros Hn; [|discriminate].
  injection Hn as Hn.
  pose proof (sequence_nth _ _ Hn j) as Hm. rewrite nth_error_map, Hj in Hm. cbn [option_map] in Hm.
  revert Hm. destruct (@nth_error (list R * list R) row j) as [cell|] eqn:Ec; cbn [option_map]; intros Hm; [|discriminate].
  injection Hm as Hm. exact Hm.
Qed.

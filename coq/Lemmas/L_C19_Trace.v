(** * C19 - a reloaded lens traces every ray identically.

    [surfs_of] reads from the codec state (Model/M_C19.v) exactly what the ray-trace model of C02
    (Model/Trace.v: Surface._trace_real, SurfaceGroup.trace) takes as its prescription input; refractive
    indices come from an arbitrary function of the *material description* and the wavelength (C18).
    Because the reloaded state equals the saved one, every ray - positions, directions, optical path,
    intensity, at every surface - is the same term.  The arithmetic kernels of this property
    (Gen/C19Arith.v) get their algebraic facts here too. *)
From Coq Require Import Reals ZArith List String Bool Lra.
From OV Require Import Ops RInst Spec.S_C19 Model.M_C19 Model.Trace Lemmas.L_C19 Gen.C19Arith.
Import ListNotations.

Section TraceView.
  Context {O : Ops}.
  Notation T := (T O).
  Variable nk : material T -> T -> T * T.     (* (n, k) of a material at a wavelength *)

  Definition shape_of (g : geom T) : shape O :=
    match g with
    | GPlane _ _ _ => SPlane (O:=O)
    | GStd _ _ R k => SStd R k
    | GEven _ _ R k tol mi cf => SEven R k cf tol (Z.to_nat mi)
    | GPoly _ _ R k tol mi cf => SPoly R k cf tol (Z.to_nat mi)
    | GCheb _ _ R k tol mi cf nx ny => SCheb R k cf tol (Z.to_nat mi) nx ny
    end.

  Definition cs_of (g : geom T) : cs T :=
    match g with GPlane _ c _ | GStd _ c _ _ | GEven _ c _ _ _ _ _ | GPoly _ c _ _ _ _ _ | GCheb _ c _ _ _ _ _ _ _ => c end.

  Definition surf_of (w : T) (s : surface T) : option (surf O) :=
    let mk g pre post refl ap co :=
      match cs_of g with
      | CS _ x y z rx ry rz _ =>
          mkSurf x y z rx ry rz (shape_of g) (fst (nk pre w)) (fst (nk post w)) (snd (nk pre w)) refl
                 (match ap with Some (PRadial _ a b) => Some (a, b) | None => None end)
                 (match co with Some (CSimple _ t r) => Some (t, r) | _ => None end)
      end in
    match s with
    | SObject _ _ _ => None
    | SStandard _ g pre post _ ap co _ refl => Some (mk g pre post refl ap co)
    | SImage _ g pre ap => Some (mk g pre pre false ap None)
    end.

  Definition surfs_of (w : T) (l : lens T) : list (surf O) :=
    flat_map (fun s => match surf_of w s with Some x => [x] | None => [] end) (l_surfs l).

  Variable c_inf c_zero c_one c_tol c_m1 : T.
  Variable lower : string -> string.
  Variable catalog_file : string -> option string -> bool -> string.
  Variable I : impl.
  Variable apply_pickups : lens T -> lens T.

  Theorem reload_traces_identically_partial : forall (l l' : lens T) (w : T) (r : ray O),
      reloadable T lower I apply_pickups l ->
      from_dict T c_zero c_one c_tol lower I apply_pickups (to_dict T c_inf c_zero c_one c_m1 catalog_file I l) = Some l' ->
      trace (surfs_of w l') r = trace (surfs_of w l) r.
  Proof.
    intros l l' w r Hok Hd.
    exact (same_behaviour_partial T c_inf c_zero c_one c_tol c_m1 lower catalog_file I apply_pickups
             _ (fun x => trace (surfs_of w x) r) l l' Hok Hd).
  Qed.
End TraceView.

(** ** arithmetic kernels *)
Local Open Scope R_scope.

Lemma coat_init_energy : forall t r : R,
    let '(t', r', a) := k_c19_coat_init ROps t r in t' = t /\ r' = r /\ t' + r' + a = 1.
Proof. intros t r. unfold k_c19_coat_init. rops. simpl. repeat split; lra. Qed.

Lemma ap_scale_compose : forall s1 s2 a b : R,
    (let '(a1, b1) := k_c19_ap_scale ROps s1 a b in k_c19_ap_scale ROps s2 a1 b1)
    = k_c19_ap_scale ROps (s1 * s2) a b.
Proof. intros. unfold k_c19_ap_scale. rops. f_equal; ring. Qed.

Lemma ap_scale_inverse : forall s a b : R, s <> 0 ->
    (let '(a1, b1) := k_c19_ap_scale ROps s a b in k_c19_ap_scale ROps (/ s) a1 b1) = (a, b).
Proof. intros. unfold k_c19_ap_scale. rops. f_equal; field; assumption. Qed.

(** * L_C15: proofs about the tolerancing machine of Model/M_C15.v *)
From Coq Require Import ZArith List Bool Lia Reals Lra.
From OV Require Import Ops RInst Gen.TolC15 Model.M_C15 Spec.S_C15.
Import ListNotations.
Set Implicit Arguments.

Section Abstract.
  Context {O : Ops}.
  Notation T := (T O).
  Variables (L X : Type) (vget : L -> X -> T) (vset : L -> X -> T -> L) (upd : L -> L) (ev : L -> list T).
  Variables (G D : Type) (draw : G -> D -> option (T * G)).
  Variable ok : X -> Prop.
  Hypothesis laws : store_laws vget vset ok.

  Variable l0 : L.                                   (* nominal lens *)
  Variables hp hc : list X.                          (* handles of the perturbations / compensators *)
  Hypothesis nodup : NoDup (hp ++ hc).
  Hypothesis allok : Forall ok (hp ++ hc).
  Let pv := map (mkvar vget l0) hp.
  Let cv := map (mkvar vget l0) hc.
  Let H := hp ++ hc.
  Variable eqv : L -> L -> Prop.                     (* equal up to pickup targets / solved coordinates *)
  Hypothesis ulaws : update_laws vset upd H l0 eqv.  (* Optic.update(); eqv := eq, upd := id when there are none *)

  Notation reset_vars := (reset_vars vset).
  Notation treset := (treset vset upd pv cv).
  Notation reach0 := (reach0 vset H l0).
  Notation reach := (reach vset upd H l0).

  Lemma map_vx_mkvar hs : map (@vx O X) (map (mkvar vget l0) hs) = hs.
  Proof. induction hs; simpl; congruence. Qed.

  Lemma treset_app l : treset l = upd (reset_vars (pv ++ cv) l).
  Proof. unfold M_C15.treset, M_C15.reset_vars. rewrite fold_left_app. reflexivity. Qed.

  Lemma pvcv : pv ++ cv = map (mkvar vget l0) H.
  Proof. unfold pv, cv, H. rewrite map_app. reflexivity. Qed.

  (** a write through a registered handle is forgotten by a later reset *)
  Lemma reset_absorb : forall (hs : list X) l x a,
      NoDup hs -> Forall ok hs -> In x hs ->
      reset_vars (map (mkvar vget l0) hs) (vset l x a) = reset_vars (map (mkvar vget l0) hs) l.
  Proof.
    induction hs as [|h hs IH]; intros l x a Hnd Hok Hin; [inversion Hin|].
    inversion Hnd as [|? ? Hnotin Hnd']; subst. inversion Hok as [|? ? Hokh Hok']; subst.
    simpl. destruct Hin as [Heq|Hin].
    - subst h. rewrite (set_set laws); auto.
    - assert (Hne : x <> h) by (intro; subst; contradiction).
      assert (Hokx : ok x) by (rewrite Forall_forall in Hok'; auto).
      rewrite (set_comm laws l (y:=h) a (vget l0 h) Hokx Hokh Hne).
      apply IH; auto.
  Qed.

  (** resetting the nominal lens is the identity (initial values were read from it) *)
  Lemma reset_nominal : forall hs, Forall ok hs -> reset_vars (map (mkvar vget l0) hs) l0 = l0.
  Proof.
    induction hs as [|h hs IH]; intros Hok; [reflexivity|].
    inversion Hok; subst. simpl. rewrite (set_get laws); auto.
  Qed.

  Lemma reset_restores0 : forall l, reach0 l -> reset_vars (pv ++ cv) l = l0.
  Proof.
    intros l Hr. rewrite pvcv.
    induction Hr as [|l x a Hr IH Hin].
    - apply reset_nominal; exact allok.
    - rewrite reset_absorb; auto.
  Qed.

  (** every reachable state equals, up to derived coordinates, a state reached by handle writes only *)
  Lemma reach_pure : forall l, reach l -> exists lp, reach0 lp /\ eqv l lp.
  Proof.
    intros l Hr. induction Hr as [|l x a Hr [lp [Hp He]] Hin|l Hr [lp [Hp He]]].
    - exists l0. split; [constructor|apply (eqv_refl ulaws)].
    - exists (vset lp x a). split; [constructor; assumption|apply (set_cong ulaws); assumption].
    - exists lp. split; [assumption|]. eapply (eqv_trans ulaws); [apply (upd_eqv ulaws)|exact He].
  Qed.

  Lemma reset_vars_cong : forall hs l l', incl hs H -> eqv l l' ->
      eqv (reset_vars (map (mkvar vget l0) hs) l) (reset_vars (map (mkvar vget l0) hs) l').
  Proof.
    induction hs as [|h hs IH]; intros l l' Hinc He; [exact He|].
    simpl. apply IH. { intros y Hy; apply Hinc; right; exact Hy. }
    apply (set_cong ulaws); [apply Hinc; left; reflexivity|exact He].
  Qed.

  (** ** reset_restores (with pickups / solves: reset ends with Optic.update()) *)
  Theorem reset_restores : forall l, reach l -> treset l = l0.
  Proof.
    intros l Hr. rewrite treset_app. destruct (reach_pure Hr) as [lp [Hp He]].
    rewrite <- (upd_nominal ulaws), <- (reset_restores0 Hp). apply (upd_cong ulaws).
    rewrite pvcv. apply reset_vars_cong; [apply incl_refl|exact He].
  Qed.

  Lemma reach_set_all : forall xs vals l, incl xs H -> reach l -> reach (set_all vset xs vals l).
  Proof.
    unfold set_all. induction xs as [|x xs IH]; intros vals l Hinc Hr; [exact Hr|].
    destruct vals as [|v vals]; [exact Hr|]. simpl.
    apply IH. { intros y Hy; apply Hinc; right; exact Hy. }
    constructor; auto. apply Hinc; left; reflexivity.
  Qed.

  Lemma reach_compensate : forall tr l, reach l -> reach (compensate vset upd cv tr l).
  Proof.
    intros tr l Hr. unfold compensate. destruct cv eqn:Ecv; [exact Hr|]. rewrite <- Ecv.
    revert l Hr. induction tr as [|x tr IH]; intros l Hr; [exact Hr|].
    simpl. apply IH. unfold fun_call. apply reach_upd. apply reach_set_all; auto.
    unfold cv. rewrite map_vx_mkvar. unfold H. apply incl_appr, incl_refl.
  Qed.

  Lemma nth_pv_in j v : nth_error pv j = Some v -> In (vx v) H.
  Proof.
    intros Hn. apply nth_error_In in Hn. unfold pv in Hn. apply in_map_iff in Hn.
    destruct Hn as (h & Hv & Hin). subst v. simpl. unfold H. apply in_or_app; left; exact Hin.
  Qed.

  Lemma reach_set_which : forall which xs l, reach l -> reach (set_which vset pv which xs l).
  Proof.
    induction which as [|j w IH]; intros xs l Hr; [exact Hr|].
    destruct xs as [|x xs]; [exact Hr|]. simpl.
    destruct (nth_error pv j) as [v|] eqn:E; [|exact Hr].
    apply IH. constructor; auto. eapply nth_pv_in; eauto.
  Qed.

  Lemma apply_perts_lens : forall which (s s' : st L G D) xs,
      apply_perts vset draw pv which s = Some (s', xs) ->
      lens s' = set_which vset pv which xs (lens s).
  Proof.
    induction which as [|j w IH]; intros s s' xs Hap; simpl in Hap.
    - inversion Hap; subst. reflexivity.
    - unfold apply_pert in Hap.
      destruct (nth_error pv j) as [v|] eqn:Ev; [|discriminate].
      destruct (nth_error (sams s) j) as [sm|]; [|discriminate].
      destruct (sample draw (rng s) sm) as [[[x sm'] g']|]; [|discriminate].
      match type of Hap with match apply_perts _ _ _ _ ?s1 with _ => _ end = _ => destruct (apply_perts vset draw pv w s1) as [[s2 xs2]|] eqn:E2; [|discriminate]; specialize (IH _ _ _ E2) end.
      inversion Hap; subst. simpl. rewrite Ev. rewrite IH. reflexivity.
  Qed.

  (** one trial: the row is the fresh evaluation and the lens stays reachable *)
  Lemma trial_fresh : forall which tr (s s' : st L G D) rw,
      reach (lens s) ->
      trial vget vset upd ev draw pv cv which tr s = Some (s', rw) ->
      row_spec vset upd ev pv cv l0 rw (which, tr) /\ reach (lens s').
  Proof.
    intros which tr s s' rw Hr Ht. unfold trial in Ht.
    match type of Ht with match apply_perts _ _ _ _ ?s0 with _ => _ end = _ =>
      destruct (apply_perts vset draw pv which s0) as [[s1 xs]|] eqn:E; [|discriminate];
      apply apply_perts_lens in E end.
    simpl in E. rewrite (reset_restores Hr) in E.
    inversion Ht; subst; clear Ht. simpl. unfold row_spec, fresh_lens. simpl. rewrite E.
    split; [split; reflexivity|].
    apply reach_compensate, reach_set_which. constructor.
  Qed.

  (** ** row_is_fresh_evaluation: every recorded row, for any number of trials and any sampler stream *)
  Theorem row_is_fresh_evaluation : forall plan (s s' : st L G D) rows,
      reach (lens s) ->
      run vget vset upd ev draw pv cv plan s = Some (s', rows) ->
      Forall2 (row_spec vset upd ev pv cv l0) rows plan /\ reach (lens s').
  Proof.
    induction plan as [|[which tr] plan IH]; intros s s' rows Hr Hrun; simpl in Hrun.
    - inversion Hrun; subst. split; [constructor|exact Hr].
    - destruct (trial vget vset upd ev draw pv cv which tr s) as [[s1 rw]|] eqn:Et; [|discriminate].
      destruct (run vget vset upd ev draw pv cv plan s1) as [[s2 rs]|] eqn:Er; [|discriminate].
      inversion Hrun; subst. apply trial_fresh in Et; [|exact Hr]. destruct Et as [Hrow Hr1].
      destruct (IH _ _ _ Hr1 Er) as [Hrows Hr2]. split; [constructor; assumption|exact Hr2].
  Qed.

  (** ** SensitivityAnalysis.run ends at the nominal lens *)
  Theorem sensitivity_ends_nominal : forall traces (s s' : st L G D) rows,
      reach (lens s) ->
      sens_run vget vset upd ev draw pv cv traces s = Some (s', rows) ->
      lens s' = l0 /\ Forall2 (row_spec vset upd ev pv cv l0) rows (combine (sens_which (sams s)) traces).
  Proof.
    intros traces s s' rows Hr Hs. unfold sens_run in Hs.
    destruct (forallb (@is_range O D) (sams s)); [|discriminate].
    match type of Hs with match ?r with _ => _ end = _ => destruct r as [[s1 rs]|] eqn:Er; [|discriminate] end.
    inversion Hs; subst. simpl. apply row_is_fresh_evaluation in Er; [|exact Hr]. destruct Er as [Hrows Hr1].
    split; [apply reset_restores; exact Hr1|exact Hrows].
  Qed.

  (** ** MonteCarlo.run: rows are fresh evaluations; an explicit reset() afterwards restores the lens;
      the repaired run (final reset) ends nominal *)
  Theorem montecarlo_rows_and_reset : forall traces (s s' : st L G D) rows,
      reach (lens s) ->
      mc_run vget vset upd ev draw pv cv traces s = Some (s', rows) ->
      Forall2 (row_spec vset upd ev pv cv l0) rows (map (fun tr => (seq 0 (length pv), tr)) traces)
      /\ treset (lens s') = l0.
  Proof.
    intros traces s s' rows Hr Hm. unfold mc_run in Hm.
    apply row_is_fresh_evaluation in Hm; [|exact Hr]. destruct Hm as [Hrows Hr1].
    split; [exact Hrows|apply reset_restores; exact Hr1].
  Qed.

  Theorem montecarlo_fixed_ends_nominal : forall traces (s s' : st L G D) rows,
      reach (lens s) ->
      mc_run_fixed vget vset upd ev draw pv cv traces s = Some (s', rows) -> lens s' = l0.
  Proof.
    intros traces s s' rows Hr Hm. unfold mc_run_fixed in Hm.
    destruct (mc_run vget vset upd ev draw pv cv traces s) as [[s1 rs]|] eqn:E; [|discriminate].
    inversion Hm; subst. simpl. apply montecarlo_rows_and_reset in E; [|exact Hr]. destruct E as [_ Hres]. exact Hres.
  Qed.

  (** ** a perturbation equal to the nominal value reproduces the nominal operand values (no compensators) *)
  Lemma set_which_nominal : forall which xs, nominal_values vget pv l0 which xs -> set_which vset pv which xs l0 = l0.
  Proof.
    induction which as [|j w IH]; intros xs Hn; [reflexivity|].
    destruct xs as [|x xs]; [reflexivity|]. simpl in *.
    destruct (nth_error pv j) as [v|] eqn:E; [|reflexivity].
    destruct Hn as [Hx Hn]. subst x.
    assert (Hok : ok (vx v)).
    { pose proof E as Hin. apply nth_pv_in in Hin. unfold H in Hin. rewrite Forall_forall in allok. auto. }
    rewrite (set_get laws); auto.
  Qed.

  Theorem nominal_perturbation_nominal_operands : forall rw which tr,
      hc = [] ->
      row_spec vset upd ev pv cv l0 rw (which, tr) ->
      nominal_values vget pv l0 which (r_pert rw) ->
      r_ops rw = ev l0.
  Proof.
    intros rw which tr Hc [_ Hops] Hn. simpl in *. rewrite Hops. unfold fresh_lens, compensate.
    unfold cv. rewrite Hc. simpl. rewrite set_which_nominal; auto.
  Qed.
End Abstract.

(** ** recorded value = applied value, for every row and ANY starting state of the samplers (mid-cycle RangeSampler
    after an earlier analysis or a manual sample(), any position of the random stream): no hypothesis at all *)
Section Recorded.
  Context {O : Ops}.
  Notation T := (T O).
  Variables (L X : Type) (vget : L -> X -> T) (vset : L -> X -> T -> L) (upd : L -> L) (ev : L -> list T).
  Variables (G D : Type) (draw : G -> D -> option (T * G)).
  Variables pv cv : list (var (O:=O) X).

  Lemma apply_perts_records : forall which (s s' : st L G D) xs,
      apply_perts vset draw pv which s = Some (s', xs) ->
      lens s' = set_which vset pv which xs (lens s).
  Proof.
    induction which as [|j w IH]; intros s s' xs Hap; simpl in Hap.
    - inversion Hap; subst. reflexivity.
    - unfold apply_pert in Hap.
      destruct (nth_error pv j) as [v|] eqn:Ev; [|discriminate].
      destruct (nth_error (sams s) j) as [sm|]; [|discriminate].
      destruct (sample draw (rng s) sm) as [[[x sm'] g']|]; [|discriminate].
      match type of Hap with match apply_perts _ _ _ _ ?s1 with _ => _ end = _ => destruct (apply_perts vset draw pv w s1) as [[s2 xs2]|] eqn:E2; [|discriminate]; specialize (IH _ _ _ E2) end.
      inversion Hap; subst. simpl. rewrite Ev. rewrite IH. reflexivity.
  Qed.

  Theorem recorded_value_is_applied_value : forall which tr (s s' : st L G D) rw,
      trial vget vset upd ev draw pv cv which tr s = Some (s', rw) ->
      r_which rw = which /\
      lens s' = compensate vset upd cv tr (set_which vset pv which (r_pert rw) (treset vset upd pv cv (lens s))) /\
      r_ops rw = ev (lens s').
  Proof.
    intros which tr s s' rw Ht. unfold trial in Ht.
    match type of Ht with match apply_perts _ _ _ _ ?s0 with _ => _ end = _ =>
      destruct (apply_perts vset draw pv which s0) as [[s1 xs]|] eqn:E; [|discriminate];
      apply apply_perts_records in E end.
    simpl in E. inversion Ht; subst; clear Ht. simpl. rewrite E. repeat split; reflexivity.
  Qed.

  (** ... and the same for every row of a whole run (any plan: sensitivity, Monte Carlo, any history of analyses) *)
  Theorem run_records_applied_values : forall plan (s s' : st L G D) rows,
      run vget vset upd ev draw pv cv plan s = Some (s', rows) ->
      Forall2 (fun rw p => r_which rw = fst p /\ exists l, r_ops rw = ev (compensate vset upd cv (snd p)
                              (set_which vset pv (fst p) (r_pert rw) (treset vset upd pv cv l)))) rows plan.
  Proof.
    induction plan as [|[which tr] plan IH]; intros s s' rows Hrun; simpl in Hrun.
    - inversion Hrun; subst. constructor.
    - destruct (trial vget vset upd ev draw pv cv which tr s) as [[s1 rw]|] eqn:Et; [|discriminate].
      destruct (run vget vset upd ev draw pv cv plan s1) as [[s2 rs]|] eqn:Er; [|discriminate].
      inversion Hrun; subst. apply recorded_value_is_applied_value in Et. destruct Et as (Hw & Hl & Ho).
      constructor; [|eapply IH; eauto].
      simpl. split; [exact Hw|]. exists (lens s). rewrite Ho, Hl. reflexivity.
  Qed.
End Recorded.

(** ** freeform coefficient arrays: a write at (i, j) - inside the stored array or outside it in the row direction, the
    column direction or both - returns the written value at (i, j) and leaves EVERY other coefficient, stored or not
    (zero), at its own (a, b): growth is padding with zeros, never a re-ordering *)
Section Coeff2.
  Context {O : Ops}.
  Lemma nth_nil {A} (d : A) k : nth k [] d = d.
  Proof. destruct k; reflexivity. Qed.
  Lemma nth_upd_pad {A} (d : A) (f : A -> A) : forall n l a,
      nth a (upd_pad d l n f) d = if Nat.eqb a n then f (nth n l d) else nth a l d.
  Proof.
    induction n as [|n IH]; intros l a; destruct l as [|x l]; destruct a as [|a]; simpl; try reflexivity.
    - destruct a; reflexivity.
    - rewrite IH. rewrite !nth_nil. reflexivity.
    - rewrite IH. reflexivity.
  Qed.
  Theorem cget2_cset2 : forall (c : list (list (T O))) i j v a b,
      cget2 (cset2 c i j v) a b = if Nat.eqb a i && Nat.eqb b j then v else cget2 c a b.
  Proof.
    intros c i j v a b. unfold cget2, cset2. rewrite nth_upd_pad.
    destruct (Nat.eqb a i) eqn:Ea; simpl; [|reflexivity].
    apply Nat.eqb_eq in Ea. subst a. rewrite nth_upd_pad. destruct (Nat.eqb b j); reflexivity.
  Qed.
  (** reading never changes a coefficient, and a write of the value already there is invisible to every read
      (a perturbation equal to the nominal value, a reset) *)
  Corollary cset2_same_value : forall (c : list (list (T O))) i j a b,
      cget2 (cset2 c i j (cget2 c i j)) a b = cget2 c a b.
  Proof.
    intros. rewrite cget2_cset2. destruct (Nat.eqb a i) eqn:Ea; destruct (Nat.eqb b j) eqn:Eb; simpl; try reflexivity.
    apply Nat.eqb_eq in Ea, Eb. subst. reflexivity.
  Qed.
End Coeff2.

(** ** seeded samplers: the run does not depend on the previous state of the global stream *)
Section Seeded.
  Context {O : Ops}.
  Notation T := (T O).
  Variables (G D : Type) (seed_state : Z -> G).

  Lemma build_seeded : forall (specs : list (sspec (O:=O) D)) g1 g2,
      existsb (@seeded O D) specs = true -> build seed_state g1 specs = build seed_state g2 specs.
  Proof.
    induction specs as [|p specs IH]; intros g1 g2 Hex; [discriminate|].
    simpl in Hex. destruct p as [v|vals|sd d]; simpl in *.
    - rewrite (IH g1 g2 Hex). reflexivity.
    - rewrite (IH g1 g2 Hex). reflexivity.
    - destruct sd as [z|]; simpl in *; [reflexivity|]. rewrite (IH g1 g2 Hex). reflexivity.
  Qed.

  Lemma build_samplers_indep : forall (specs : list (sspec (O:=O) D)) g1 g2,
      fst (build seed_state g1 specs) = fst (build seed_state g2 specs).
  Proof.
    induction specs as [|p specs IH]; intros g1 g2; [reflexivity|].
    destruct p as [v|vals|sd d]; simpl.
    - specialize (IH g1 g2). destruct (build seed_state g1 specs), (build seed_state g2 specs); simpl in *; congruence.
    - specialize (IH g1 g2). destruct (build seed_state g1 specs), (build seed_state g2 specs); simpl in *; congruence.
    - specialize (IH (match sd with Some z => seed_state z | None => g1 end) (match sd with Some z => seed_state z | None => g2 end)).
      destruct (build seed_state _ specs), (build seed_state _ specs); simpl in *; congruence.
  Qed.

  Variables (L X : Type) (vget : L -> X -> T) (vset : L -> X -> T -> L) (upd : L -> L) (ev : L -> list T).
  Variable draw : G -> D -> option (T * G).
  Variables pv cv : list (var (O:=O) X).

  (** the whole analysis (any plan) started after constructing the samplers: if at least one
      DistributionSampler carries a seed, the result is the same whatever the global stream held before *)
  Theorem seeded_reproducible : forall specs plan l g1 g2,
      existsb (@seeded O D) specs = true ->
      (let '(ss, g) := build seed_state g1 specs in run vget vset upd ev draw pv cv plan (mkSt l ss g)) =
      (let '(ss, g) := build seed_state g2 specs in run vget vset upd ev draw pv cv plan (mkSt l ss g)).
  Proof. intros specs plan l g1 g2 Hex. rewrite (build_seeded specs g1 g2 Hex). reflexivity. Qed.
End Seeded.

(** ** RangeSampler (translated kernel): walks through the values and wraps around *)
Section Range.
  Context {O : Ops}.
  Theorem range_sample_step : forall (vals : list (T O)) idx,
      vals <> [] -> (0 <= idx <= Z.of_nat (length vals))%Z ->
      range_step_spec vals idx (k_c15_range_sample O idx vals).
  Proof.
    intros vals idx Hne Hidx. unfold range_step_spec, k_c15_range_sample. simpl.
    set (n := Z.of_nat (length vals)) in *.
    assert (Hn : (0 < n)%Z). { unfold n. destruct vals; [congruence|simpl; lia]. }
    set (i := if (idx >=? n)%Z then 0%Z else idx).
    assert (Hi : (0 <= i < n)%Z). { unfold i. destruct (idx >=? n)%Z eqn:E; lia. }
    repeat split; try lia.
    unfold getZ, nthZ. fold n.
    destruct (i <? 0)%Z eqn:E1; [lia|].
    replace ((i <? 0)%Z || (n <=? i)%Z) with false by (symmetry; apply orb_false_iff; split; lia).
    destruct (nth_error vals (Z.to_nat i)) eqn:E; [reflexivity|].
    apply nth_error_None in E. lia.
  Qed.
End Range.

(** ** scale / inverse_scale kernels are mutually inverse over the reals (Variable.reset of a compensator) *)
Local Open Scope R_scope.
Lemma Rlit_1 : Rlit 10 (-1) = 1. Proof. unfold Rlit; simpl. lra. Qed.
Lemma Rlit_100 : Rlit 1000 (-1) = 100. Proof. unfold Rlit; simpl. lra. Qed.
Lemma Rlit_10 : Rlit 100 (-1) = 10. Proof. unfold Rlit; simpl. lra. Qed.

Theorem radius_scale_roundtrip : forall v : R,
    k_c15_radius_inverse_scale ROps (k_c15_radius_scale ROps v) = v /\
    k_c15_radius_scale ROps (k_c15_radius_inverse_scale ROps v) = v.
Proof. intros v. unfold k_c15_radius_inverse_scale, k_c15_radius_scale. rops. rewrite Rlit_1, Rlit_100. split; field. Qed.
Theorem thickness_scale_roundtrip : forall v : R,
    k_c15_thickness_inverse_scale ROps (k_c15_thickness_scale ROps v) = v /\
    k_c15_thickness_scale ROps (k_c15_thickness_inverse_scale ROps v) = v.
Proof. intros v. unfold k_c15_thickness_inverse_scale, k_c15_thickness_scale. rops. rewrite Rlit_1, Rlit_10. split; field. Qed.
Theorem index_scale_roundtrip : forall v : R,
    k_c15_index_inverse_scale ROps (k_c15_index_scale ROps v) = v /\
    k_c15_index_scale ROps (k_c15_index_inverse_scale ROps v) = v.
Proof. intros v. unfold k_c15_index_inverse_scale, k_c15_index_scale. rops. split; ring. Qed.
Theorem asphere_scale_roundtrip : forall (v : R) (j : Z), (0 <= j)%Z ->
    k_c15_asphere_inverse_scale ROps (k_c15_asphere_scale ROps v j) j = v /\
    k_c15_asphere_scale ROps (k_c15_asphere_inverse_scale ROps v j) j = v.
Proof.
  intros v j Hj. unfold k_c15_asphere_inverse_scale, k_c15_asphere_scale. rops.
  assert (Hp : IZR (10 ^ (4 + 2 * j)) <> 0).
  { apply not_0_IZR. pose proof (Z.pow_pos_nonneg 10 (4 + 2 * j)). lia. }
  split; field; exact Hp.
Qed.

(** the scaled handle of the concrete model inherits the round trip: cget after cset returns the written value
    for every handle kind whenever the raw coordinate does *)
Theorem scaled_roundtrip : forall (k : hk) (j : Z) (v : R), (0 <= j)%Z ->
    scale_of (O:=ROps) k j (inverse_scale_of (O:=ROps) k j v) = v /\
    inverse_scale_of (O:=ROps) k j (scale_of (O:=ROps) k j v) = v.
Proof.
  intros k j v Hj. destruct k; simpl;
    try (split; reflexivity);
    first [ destruct (radius_scale_roundtrip v); split; assumption
          | destruct (thickness_scale_roundtrip v); split; assumption
          | destruct (index_scale_roundtrip v); split; assumption
          | destruct (asphere_scale_roundtrip v Hj); split; assumption ].
Qed.

(** ** the hypotheses are satisfiable: a two-coordinate store (say radius and thickness of one surface) *)
Section Example2.
  Definition L2 := (R * R)%type.
  Definition get2 (l : L2) (x : bool) : R := if x then fst l else snd l.
  Definition set2 (l : L2) (x : bool) (v : R) : L2 := if x then (v, snd l) else (fst l, v).
  Example store_laws_example : store_laws (O:=ROps) get2 set2 (fun _ => True).
  Proof.
    split.
    - intros [a b] [|] u v _; reflexivity.
    - intros [a b] [|] [|] u v _ _ Hne; try reflexivity; congruence.
    - intros [a b] [|] _; reflexivity.
  Qed.
  Example handles_example : NoDup ([true] ++ [false]) /\ Forall (fun _ : bool => True) ([true] ++ [false]).
  Proof. split; [repeat constructor; simpl; intuition congruence|repeat constructor]. Qed.
  (** Optic.update(): without pickups it is the identity ... *)
  Example update_laws_trivial : forall l0, update_laws (O:=ROps) set2 (fun l => l) [true; false] l0 eq.
  Proof. intros l0. split; intros; subst; congruence. Qed.
  (** ... and with a pickup "second coordinate := - first coordinate" (only the first one is a handle) *)
  Definition upd2 (l : L2) : L2 := (fst l, - fst l).
  Example update_laws_pickup : update_laws (O:=ROps) set2 upd2 [true] (60, -60) (fun l l' => fst l = fst l').
  Proof.
    split; try (intros; simpl in *; congruence).
    - intros [a b] [a' b'] H; unfold upd2; simpl in *; subst; reflexivity.
    - intros [a b] [a' b'] x v [Hx|[]] H; subst x; reflexivity.
    - unfold upd2; simpl. f_equal.
  Qed.
  (** ** Order obligation of Tolerancing.reset: Optic.update() has to run after ALL variable resets.
      [reset_restores] proves that the order of the code (perturbations, compensators, update) restores the nominal lens
      under [update_laws].  The other order (update between the perturbation resets and the compensator resets) does
      not: with the pickup above depending on the compensated coordinate, the state reached after one compensation
      (first coordinate moved to 65, update applied) is restored by [treset] but not by the early-update variant. *)
  Definition treset_update_early {O : Ops} (L X : Type) (vset : L -> X -> T O -> L) (upd : L -> L)
             (pv cv : list (var (O:=O) X)) (l : L) : L :=
    reset_vars vset cv (upd (reset_vars vset pv l)).
  Theorem reset_order_sensitive :
    let l0 : L2 := (60, -60) in
    let cv := map (mkvar (O:=ROps) get2 l0) [true] in
    let l := upd2 (set2 l0 true 65) in
    reach (O:=ROps) set2 upd2 [true] l0 l /\
    treset (O:=ROps) set2 upd2 [] cv l = l0 /\
    treset_update_early (O:=ROps) set2 upd2 [] cv l <> l0.
  Proof.
    intros l0 cv l. split; [|split].
    - apply reach_upd. apply reach_set; [constructor|left; reflexivity].
    - cbv [l cv l0 treset reset_vars upd2 set2 get2 mkvar map fold_left vx vinit fst snd]. reflexivity.
    - cbv [l cv l0 treset_update_early reset_vars upd2 set2 get2 mkvar map fold_left vx vinit fst snd].
      intro Heq. inversion Heq. lra.
  Qed.
  (** ** Order obligation of Optic.update(): pickups first, then solves.
      Three coordinates (a, b, c): a is the toleranced handle, b := -a is a pickup target, c := a - b is solved from
      both (an image distance that depends on the picked-up radius).  From the state left by a trial (a perturbed, update
      applied) Tolerancing.reset with update = solve after pickup restores the nominal lens; with the two swapped the
      solve sees the stale pickup target and the lens is NOT restored. *)
  Definition L3 := (R * R * R)%type.
  Definition get3 (l : L3) (_ : unit) : R := fst (fst l).
  Definition set3 (l : L3) (_ : unit) (v : R) : L3 := (v, snd (fst l), snd l).
  Definition pickup3 (l : L3) : L3 := (fst (fst l), - fst (fst l), snd l).
  Definition solve3 (l : L3) : L3 := (fst (fst l), snd (fst l), fst (fst l) - snd (fst l)).
  Definition upd3_code (l : L3) : L3 := solve3 (pickup3 l).       (* Optic.update: pickups.apply(); solves.apply() *)
  Definition upd3_swapped (l : L3) : L3 := pickup3 (solve3 l).
  Theorem update_order_sensitive :
    let l0 : L3 := (60, -60, 120) in
    let pv := map (mkvar (O:=ROps) get3 l0) [tt] in
    let l := upd3_code (set3 l0 tt 65) in
    upd3_code l0 = l0 /\ upd3_swapped l0 = l0 /\
    treset (O:=ROps) set3 upd3_code pv [] l = l0 /\
    treset (O:=ROps) set3 upd3_swapped pv [] l <> l0.
  Proof.
    intros l0 pv l.
    cbv [l pv l0 treset reset_vars upd3_code upd3_swapped solve3 pickup3 set3 get3 mkvar map fold_left vx vinit fst snd].
    repeat split; try (repeat f_equal; lra).
    intro Heq. inversion Heq. lra.
  Qed.
  (** and the machine really runs on it: one Monte-Carlo trial with a scalar sampler, row = fresh evaluation *)
  Example run_example :
    let pv := map (mkvar (O:=ROps) get2 (60, 5)) [true] in
    mc_run (O:=ROps) get2 set2 (fun l => l) (fun l => [fst l + snd l]) (fun (g : unit) (_ : unit) => Some (0, g))
           pv [] [[]] (mkSt (60, 5) [SScalar (O:=ROps) unit 65] tt)
    = Some (mkSt (65, 5) [SScalar (O:=ROps) unit 65] tt, [mkRow (O:=ROps) [0%nat] [65] [65 + 5] []]).
  Proof. reflexivity. Qed.
End Example2.

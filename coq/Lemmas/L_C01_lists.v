(** * C01: list lemmas for the index arithmetic of the regenerated kernels
    (getZ / setZ / rangeZ / enumZ of Num/Ops.v). *)
From Coq Require Import ZArith List Bool Lia.
From OV Require Import Ops.
Import ListNotations.

Section Lists.
  Context {O : Ops}.
  Notation T := (T O).

  Lemma list_ext_nth {A} (l1 l2 : list A) :
    length l1 = length l2 -> (forall i, (i < length l1)%nat -> nth_error l1 i = nth_error l2 i) -> l1 = l2.
  Proof.
    revert l2; induction l1 as [|a l1 IH]; intros [|b l2] HL H; try discriminate; [reflexivity|].
    simpl in HL. f_equal.
    - specialize (H 0%nat ltac:(simpl; lia)). simpl in H. congruence.
    - apply IH; [lia|]. intros i Hi. apply (H (S i)). simpl; lia.
  Qed.

  Lemma nthZ_in {A} (l : list A) i :
    (0 <= i < Z.of_nat (length l))%Z -> nthZ l i = nth_error l (Z.to_nat i).
  Proof.
    intros H. unfold nthZ.
    destruct (Z.ltb_spec i 0); [lia|].
    destruct (Z.ltb_spec i 0); [lia|]. destruct (Z.leb_spec (Z.of_nat (length l)) i); [lia|]. reflexivity.
  Qed.

  Lemma nthZ_out {A} (l : list A) i :
    (Z.of_nat (length l) <= i)%Z -> nthZ l i = None.
  Proof.
    intros H. unfold nthZ. destruct (Z.ltb_spec i 0); [lia|].
    destruct (Z.ltb_spec i 0); [lia|]. destruct (Z.leb_spec (Z.of_nat (length l)) i); [|lia]. reflexivity.
  Qed.

  Lemma getZ_nth (l : list T) i d :
    (0 <= i < Z.of_nat (length l))%Z -> getZ l i = nth (Z.to_nat i) l d.
  Proof.
    intros H. unfold getZ. rewrite nthZ_in by assumption.
    destruct (nth_error l (Z.to_nat i)) eqn:E.
    - symmetry. apply nth_error_nth. assumption.
    - apply nth_error_None in E. lia.
  Qed.

  Lemma getZ_of_nat (l : list T) (n : nat) d :
    (n < length l)%nat -> getZ l (Z.of_nat n) = nth n l d.
  Proof. intros H. rewrite (getZ_nth l (Z.of_nat n) d) by lia. rewrite Nat2Z.id. reflexivity. Qed.

  (** ** rangeZ *)
  Lemma seqZ_length a n : length (seqZ a n) = n.
  Proof. revert a; induction n; intros; simpl; auto. Qed.

  Lemma seqZ_nth a n i : (i < n)%nat -> nth_error (seqZ a n) i = Some (a + Z.of_nat i)%Z.
  Proof.
    revert a i; induction n as [|n IH]; intros a i H; [lia|].
    destruct i as [|i]; cbn [seqZ nth_error].
    - f_equal; lia.
    - rewrite IH by lia. f_equal; lia.
  Qed.

  Lemma map_seqZ_nth {B} (f : Z -> B) a n i :
    (i < n)%nat -> nth_error (map f (seqZ a n)) i = Some (f (a + Z.of_nat i)%Z).
  Proof. intros H. rewrite nth_error_map, seqZ_nth by assumption. reflexivity. Qed.

  Lemma map_rangeZ_length {B} (f : Z -> B) n : length (map f (rangeZ 0 n)) = Z.to_nat n.
  Proof. unfold rangeZ. rewrite map_length, seqZ_length. f_equal; lia. Qed.

  Lemma map_rangeZ_nth {B} (f : Z -> B) n i :
    (i < Z.to_nat n)%nat -> nth_error (map f (rangeZ 0 n)) i = Some (f (Z.of_nat i)).
  Proof.
    intros H. unfold rangeZ. rewrite map_seqZ_nth by (replace (n - 0)%Z with n by lia; assumption).
    reflexivity.
  Qed.

  (** `for k, s in enumerate(xs): ... = l[k]` over the whole list gives the list back *)
  Lemma map_getZ_range (l : list T) : map (fun k => getZ l k) (rangeZ 0 (Z.of_nat (length l))) = l.
  Proof.
    apply list_ext_nth.
    - rewrite map_rangeZ_length. lia.
    - intros i Hi. rewrite map_rangeZ_length in Hi. rewrite map_rangeZ_nth by assumption.
      rewrite Nat2Z.id in Hi.
      unfold getZ. rewrite nthZ_in by lia. rewrite Nat2Z.id.
      destruct (nth_error l i) eqn:E; [reflexivity|]. apply nth_error_None in E; lia.
  Qed.

  (** ** enumZ: a pointwise update of a list *)
  Lemma combine_seqZ_nth {A} (l : list A) a i :
    nth_error (combine (seqZ a (length l)) l) i =
    match nth_error l i with Some x => Some ((a + Z.of_nat i)%Z, x) | None => None end.
  Proof.
    revert a i; induction l as [|x l IH]; intros a i.
    - destruct i; reflexivity.
    - destruct i as [|i]; cbn [length seqZ combine nth_error].
      + do 2 f_equal; lia.
      + rewrite IH. destruct (nth_error l i); [|reflexivity]. do 2 f_equal; lia.
  Qed.

  Lemma map_enumZ_length {A B} (g : Z * A -> B) (l : list A) : length (map g (enumZ l)) = length l.
  Proof. unfold enumZ. rewrite map_length, combine_length, seqZ_length. lia. Qed.

  Lemma map_enumZ_nth {A B} (g : Z * A -> B) (l : list A) i :
    nth_error (map g (enumZ l)) i = match nth_error l i with Some x => Some (g (Z.of_nat i, x)) | None => None end.
  Proof.
    unfold enumZ. rewrite nth_error_map, combine_seqZ_nth.
    destruct (nth_error l i); reflexivity.
  Qed.

  (** a field of every element that the pointwise update keeps *)
  Lemma map_enumZ_preserve {A B C} (g : Z * A -> B) (pa : A -> C) (pb : B -> C) (l : list A) :
    (forall j x, pb (g (j, x)) = pa x) -> map pb (map g (enumZ l)) = map pa l.
  Proof.
    intros H. apply list_ext_nth.
    - rewrite !map_length. unfold enumZ. rewrite combine_length, seqZ_length. lia.
    - intros i _. rewrite (nth_error_map pb), map_enumZ_nth, (nth_error_map pa). destruct (nth_error l i); simpl; [rewrite H|]; reflexivity.
  Qed.

  (** ** setZ *)
  Lemma set_nth_length {A} (l : list A) n x : length (set_nth l n x) = length l.
  Proof. revert n; induction l; intros [|n]; simpl; auto. Qed.

  Lemma set_nth_nth {A} (l : list A) n x i :
    nth_error (set_nth l n x) i = if Nat.eqb i n then (if Nat.ltb n (length l) then Some x else None) else nth_error l i.
  Proof.
    revert n i; induction l as [|a l IH]; intros n i; simpl.
    - destruct (Nat.eqb i n); destruct i; reflexivity.
    - destruct n as [|n]; destruct i as [|i]; simpl; try reflexivity.
      rewrite IH. destruct (Nat.eqb i n); [|reflexivity].
      change (S n <? S (length l))%nat with (n <? length l)%nat. reflexivity.
  Qed.
End Lists.

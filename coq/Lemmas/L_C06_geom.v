(** C06, part 2: the plane/solid geometry of conics and of the aplanatic sphere, as polynomial
    identities over the reals (no kernels here).  [nsatz] does the ideal-membership steps. *)
From Coq Require Import Reals Lra Psatz Nsatz.
Local Open Scope R_scope.

Section ConicFoci.
  Variables Rc e f1 f2 x y z : R.
  Hypothesis Hf1 : f1 * (1 + e) = Rc.
  Hypothesis Hf2 : f2 * (1 - e) = Rc.
  Hypothesis Hq : x*x + y*y + (1 - e*e)*(z*z) - 2*Rc*z = 0.
  Let rho1 := e*z + f1.
  Let rho2 := f2 - e*z.
  Let gz := (1 - e*e)*z - Rc.

  Lemma dist_focus1 : x*x + y*y + (z - f1)*(z - f1) = rho1*rho1.
  Proof. unfold rho1. nsatz. Qed.
  Lemma dist_focus2 : x*x + y*y + (z - f2)*(z - f2) = rho2*rho2.
  Proof. unfold rho2. nsatz. Qed.
  Lemma grad_dot1 : x*x + y*y + (z - f1)*gz = Rc*rho1.
  Proof. unfold rho1, gz. nsatz. Qed.
  Lemma grad_sq : (1 - e*e) * (rho1*rho2) = x*x + y*y + gz*gz.
  Proof. unfold rho1, rho2, gz. nsatz. Qed.
  Lemma focal_sum_x : (1 - e*e) * (rho2*x + rho1*x) = 2*Rc*x.
  Proof. unfold rho1, rho2. nsatz. Qed.
  Lemma focal_sum_y : (1 - e*e) * (rho2*y + rho1*y) = 2*Rc*y.
  Proof. unfold rho1, rho2. nsatz. Qed.
  Lemma focal_sum_z : (1 - e*e) * (rho2*(z - f1) + rho1*(z - f2)) = 2*Rc*gz.
  Proof. unfold rho1, rho2, gz. nsatz. Qed.
  Let q := Rc - (1 - e*e)*z.
  Hypothesis Hq0 : q <> 0.
  Hypothesis H1 : rho1 <> 0.
  Hypothesis H2 : rho2 <> 0.
  Let hx := x / q. Let hy := y / q. Let hz := -1.
  Let dx := x / rho1. Let dy := y / rho1. Let dz := (z - f1) / rho1.
  Let dot := dx*hx + dy*hy + dz*hz.
  Let hh := hx*hx + hy*hy + hz*hz.
  Lemma hh_pos : 0 < hh.
  Proof. unfold hh, hz. nra. Qed.
  Lemma gg_pos : 0 < x*x + y*y + q*q.
  Proof. assert (0 < q*q) by nra. nra. Qed.
  Lemma e2_rho : (1 - e*e) * (rho1*rho2) = x*x + y*y + q*q.
  Proof. rewrite grad_sq. unfold gz, q. ring. Qed.
  Lemma e2_ne : 1 - e*e <> 0.
  Proof. intro E. generalize e2_rho gg_pos. rewrite E. lra. Qed.
  Lemma dot_val : dot = Rc / q.
  Proof.
    unfold dot, dx, dy, dz, hx, hy, hz.
    generalize grad_dot1. intros G.
    replace gz with (- q) in G by (unfold q, gz; ring).
    apply Rmult_eq_reg_l with (rho1*q); [|apply Rmult_integral_contrapositive_currified; assumption].
    transitivity (x*x + y*y + (z - f1) * - q); [field; split; assumption|].
    rewrite G. field. assumption.
  Qed.
  Lemma hh_val : hh = (1 - e*e) * (rho1*rho2) / (q*q).
  Proof. rewrite e2_rho. unfold hh, hx, hy, hz. field. assumption. Qed.
  Lemma coef_val : 2*dot/hh = 2*Rc*q / ((1 - e*e) * (rho1*rho2)).
  Proof. rewrite dot_val, hh_val. field. repeat split; try assumption. apply e2_ne. Qed.

  Theorem reflect_focus :
    dx - 2*dot*hx/hh = - x / rho2 /\ dy - 2*dot*hy/hh = - y / rho2 /\ dz - 2*dot*hz/hh = (f2 - z) / rho2.
  Proof.
    assert (Hc := coef_val). assert (He := e2_ne).
    assert (Fx := focal_sum_x). assert (Fy := focal_sum_y).
    assert (Fz := focal_sum_z).
    replace gz with (- q) in Fz by (unfold q, gz; ring).
    repeat split.
    - replace (2*dot*hx/hh) with (2*dot/hh*hx) by (unfold Rdiv; ring).
      rewrite Hc. unfold dx, hx.
      apply Rmult_eq_reg_l with ((1 - e*e)*(rho1*rho2)); [|repeat apply Rmult_integral_contrapositive_currified; assumption].
      transitivity ((1 - e*e)*(rho2*x) - 2*Rc*x); [field; repeat split; assumption|].
      transitivity (- ((1 - e*e)*(rho1*x))); [lra|field; assumption].
    - replace (2*dot*hy/hh) with (2*dot/hh*hy) by (unfold Rdiv; ring).
      rewrite Hc. unfold dy, hy.
      apply Rmult_eq_reg_l with ((1 - e*e)*(rho1*rho2)); [|repeat apply Rmult_integral_contrapositive_currified; assumption].
      transitivity ((1 - e*e)*(rho2*y) - 2*Rc*y); [field; repeat split; assumption|].
      transitivity (- ((1 - e*e)*(rho1*y))); [lra|field; assumption].
    - replace (2*dot*hz/hh) with (2*dot/hh*hz) by (unfold Rdiv; ring).
      rewrite Hc. unfold dz, hz.
      apply Rmult_eq_reg_l with ((1 - e*e)*(rho1*rho2)); [|repeat apply Rmult_integral_contrapositive_currified; assumption].
      transitivity ((1 - e*e)*(rho2*(z - f1)) + 2*Rc*q); [field; repeat split; assumption|].
      transitivity (- ((1 - e*e)*(rho1*(z - f2)))); [lra|field; assumption].
  Qed.

  (** the same, in the shape the reflection kernel produces (direction  tau (P - F1)/rho1,  tau = +-1) *)
  Theorem reflect_focus_kernel_form tau : tau*tau = 1 ->
    let L := tau*x/rho1 in let M := tau*y/rho1 in let N := tau*(z - f1)/rho1 in
    let dh := L*hx + M*hy - N in let hh' := hx*hx + hy*hy + 1 in
    (L - 2*dh*hx/hh', M - 2*dh*hy/hh', N + 2*dh/hh') = (- tau*x/rho2, - tau*y/rho2, tau*(f2 - z)/rho2).
  Proof.
    intros Ht L M N dh hh'. destruct reflect_focus as (Ex & Ey & Ez).
    assert (Hh : hh' = hh) by (unfold hh', hh, hz; ring).
    assert (Hd : dh = tau*dot) by (unfold dh, dot, L, M, N, dx, dy, dz, hz; field; assumption).
    assert (Hp := hh_pos).
    rewrite Hh, Hd. f_equal; [f_equal|].
    - transitivity (tau*(dx - 2*dot*hx/hh)); [unfold L, dx; field; split; [lra|assumption]|rewrite Ex; field; assumption].
    - transitivity (tau*(dy - 2*dot*hy/hh)); [unfold M, dy; field; split; [lra|assumption]|rewrite Ey; field; assumption].
    - transitivity (tau*(dz - 2*dot*hz/hh)); [unfold N, dz, hz; field; split; [lra|assumption]|rewrite Ez; field; assumption].
  Qed.
  (** the target is a unit vector, the focal distances are rho1, rho2, and their sum is constant *)
  Lemma focal_sum : (1 - e*e) * (rho1 + rho2) = 2*Rc.
  Proof. unfold rho1, rho2. nsatz. Qed.
End ConicFoci.

(** ** refraction at a conic of eccentricity e = n1/n2: an axis-parallel ray is sent to the focus Rc/(1-e) *)
Section ConicRefract.
  Variables Rc e f2 x y z sg : R.
  Hypothesis Hf2 : f2 * (1 - e) = Rc.
  Hypothesis Hq : x*x + y*y + (1 - e*e)*(z*z) - 2*Rc*z = 0.
  Hypothesis Hsg : sg*sg = 1.
  Let rho2 := f2 - e*z.
  Let q := Rc - (1 - e*e)*z.
  Hypothesis H2 : rho2 <> 0.
  (** target direction sg (F - P) / rho2 *)
  Let tx := sg * (- x) / rho2. Let ty := sg * (- y) / rho2. Let tz := sg * (f2 - z) / rho2.

  Lemma rtarget_unit : tx*tx + ty*ty + tz*tz = 1.
  Proof.
    unfold tx, ty, tz.
    assert (D : x*x + y*y + (z - f2)*(z - f2) = rho2*rho2) by (unfold rho2; nsatz).
    transitivity ((sg*sg) * (x*x + y*y + (z - f2)*(z - f2)) / (rho2*rho2)); [field; assumption|].
    rewrite Hsg, D. field. assumption.
  Qed.
  (** t - e d  is along the gradient (x, y, -q) *)
  Lemma rtarget_snell : tx = e*0 + (- sg / rho2) * x /\ ty = e*0 + (- sg / rho2) * y /\ tz = e*sg + (- sg / rho2) * (- q).
  Proof.
    unfold tx, ty, tz. repeat split; try (field; assumption).
    apply Rmult_eq_reg_l with rho2; [|assumption].
    transitivity (sg * (f2 - z)); [field; assumption|].
    transitivity (sg * (e * rho2 + q)); [|field; assumption].
    f_equal. unfold rho2, q. nsatz.
  Qed.
  Lemma rtarget_dot_grad : tx*x + ty*y + tz*(- q) = - sg * Rc.
  Proof.
    unfold tx, ty, tz.
    apply Rmult_eq_reg_l with rho2; [|assumption].
    transitivity (- sg * (x*x + y*y + (f2 - z)*q)); [field; assumption|].
    transitivity (- sg * (Rc * rho2)); [|ring]. f_equal. unfold rho2, q. nsatz.
  Qed.
End ConicRefract.

(** ** the aplanatic points of a sphere:  o = Rc (1 + mu),  o' = Rc (1 + 1/mu),  mu = n2/n1 *)
Section Aplanatic.
  Variables Rc mu x y z : R.
  Hypothesis Hmu : mu <> 0.
  Hypothesis Hq : x*x + y*y + z*z - 2*Rc*z = 0.
  Let o := Rc * (1 + mu).
  Let o' := Rc * (1 + / mu).
  Let D2 := x*x + y*y + (z - o)*(z - o).
  Let D2' := x*x + y*y + (z - o')*(z - o').

  (** Apollonius: |PO| = mu |PO'| for every point of the sphere *)
  Lemma apollonius : D2 = mu*mu * D2'.
  Proof.
    unfold D2, D2', o, o'.
    apply Rmult_eq_reg_l with (mu*mu); [|nra].
    transitivity (mu*mu*(x*x + y*y + z*z - 2*Rc*z) + mu*mu*(- 2*Rc*mu*z + Rc*Rc*(1+mu)*(1+mu))); [ring|].
    transitivity (mu*mu*(mu*mu*(x*x + y*y + z*z - 2*Rc*z) + (- 2*Rc*mu*z + Rc*Rc*(mu+1)*(mu+1)))); [|field; assumption].
    rewrite Hq. ring.
  Qed.
  (** (O' - P) - (1/mu^2) (O - P)  is along the gradient (x, y, z - Rc) *)
  Lemma aplanatic_snell_x : (0 - x) - / (mu*mu) * (0 - x) = - (1 - / (mu*mu)) * x.
  Proof. field. assumption. Qed.
  Lemma aplanatic_snell_z : (o' - z) - / (mu*mu) * (o - z) = - (1 - / (mu*mu)) * (z - Rc).
  Proof. unfold o, o'. field. assumption. Qed.
  Lemma aplanatic_dot_O : (0 - x)*x + (0 - y)*y + (o - z)*(z - Rc) = Rc * mu * (z - o').
  Proof.
    unfold o, o'.
    transitivity (- (x*x + y*y + z*z - 2*Rc*z) + Rc*mu*z - Rc*Rc*(1+mu)); [ring|].
    rewrite Hq. field. assumption.
  Qed.
  Lemma aplanatic_dot_O' : (0 - x)*x + (0 - y)*y + (o' - z)*(z - Rc) = Rc * / mu * (z - o).
  Proof.
    unfold o, o'.
    transitivity (- (x*x + y*y + z*z - 2*Rc*z) + Rc * / mu * z - Rc*Rc*(1 + / mu)); [field; assumption|].
    rewrite Hq. field. assumption.
  Qed.
End Aplanatic.

(** C04: the LAUNCH of the paraxial marginal ray is regenerated from the source (Gen/ParaxLaunch.v:
    k_px_marginal_launch = the arguments of the final `return self._trace_generic(ya, ua, obj_z, wavelength)` of
    Paraxial.marginal_ray, with EPD() and EPL() as inputs).  The hand model's [marginal_ray] IS the trace [tg]
    started from that regenerated launch -- generically in the arithmetic signature. *)
From Coq Require Import ZArith List Bool Lia.
From OV Require Import Ops Gen.Paraxial Gen.ParaxLaunch Model.Paraxial.
Import ListNotations.

Section L.
  Context {O : Ops}.
  Notation T := (T O).
  Notation psurf := (psurf O).

  Lemma getZ_positions_1 (a b : psurf) (rest : list psurf) :
    getZ (map p_z (a :: b :: rest)) 1 = pos (a :: b :: rest) 1.
  Proof.
    unfold getZ, nthZ, pos. cbn [map length nth_error].
    assert (H : (Z.of_nat (S (S (length (map p_z rest)))) <=? 1)%Z = false).
    { apply Z.leb_gt. rewrite !Nat2Z.inj_succ. pose proof (Nat2Z.is_nonneg (length (map p_z rest))). lia. }
    cbn [Z.ltb Z.compare]. rewrite H. cbn [orb Z.to_nat Pos.to_nat Pos.iter_op Nat.add nth_error]. reflexivity.
  Qed.

  (** at least the object surface and one more surface (every lens the library can trace) *)
  Theorem marginal_ray_launch_regenerated (obj s1 : psurf) (rest : list psurf) (ap : aptype) (v w : T) :
    let ss := obj :: s1 :: rest in
    marginal_ray ss ap v =
    let '(ya, ua, z0, _) :=
        k_px_marginal_launch O (EPD ss ap v) (map p_z ss) (isinf_ (p_z obj)) (p_z obj) (EPL ss) w in
    tg ss ya ua z0 false 0.
  Proof.
    cbv zeta. unfold marginal_ray, k_px_marginal_launch. rewrite getZ_positions_1.
    destruct (isinf_ (p_z obj)); reflexivity.
  Qed.
End L.

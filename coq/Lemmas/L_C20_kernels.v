(** * C20 - the regenerated kernels compute what the hand model's handlers use
    (a change of the Python handlers changes Gen/Zemax.v and breaks these equalities). *)
From Coq Require Import ZArith List String Bool Lia.
From OV Require Import Ops Gen.Zemax Model.M_C20 Lemmas.L_C20.
Import ListNotations.
Local Open Scope string_scope.
Local Open Scope list_scope.

Section K.
  Context {O : Ops}.
  Notation T := (T O).

  Lemma getZ_1 : forall (a b : T) l, getZ (a :: b :: l) 1 = b.
  Proof. intros. unfold getZ. rewrite nthZ_1. reflexivity. Qed.

  (** CURV c ... : the stored radius is the model's [radius_of_curv c] (1/c, or inf when c compares equal to 0) *)
  Theorem kernel_radius : forall (op c : T) (rest : list T),
    k_zmx_radius O (op :: c :: rest) = radius_of_curv c.
  Proof. intros. unfold k_zmx_radius, radius_of_curv. rewrite getZ_1. reflexivity. Qed.

  Theorem kernel_conic : forall (op c : T) (rest : list T), k_zmx_conic O (op :: c :: rest) = c.
  Proof. intros. unfold k_zmx_conic. apply getZ_1. Qed.

  (** FTYP t tele nf nw _ _ a : the five entries written by _read_config_data are the model's *)
  Theorem kernel_config : forall z0 z1 z2 z3 z4 z5 z6 z7 (rest : list Z),
    k_zmx_config O (z0 :: z1 :: z2 :: z3 :: z4 :: z5 :: z6 :: z7 :: rest)
    = (z3, ftype_name z1, z4, (z2 =? 1)%Z, (z7 =? 1)%Z).
  Proof.
    intros. unfold k_zmx_config, ftype_name.
    set (L := z0 :: z1 :: z2 :: z3 :: z4 :: z5 :: z6 :: z7 :: rest).
    assert (Hlen : (8 <= Z.of_nat (List.length L))%Z) by (unfold L; cbn [List.length]; lia).
    assert (G : forall i, (0 <= i < 8)%Z -> getIZ L i = nth (Z.to_nat i) L 0%Z).
    { intros i Hi. unfold getIZ, nthZ. cbv zeta.
      assert (Hlt : (i <? 0)%Z = false) by (apply Z.ltb_ge; lia).
      repeat (rewrite Hlt; cbv iota).
      replace (Z.of_nat (List.length L) <=? i)%Z with false by (symmetry; apply Z.leb_gt; lia).
      cbn [orb]. destruct (nth_error L (Z.to_nat i)) eqn:E.
      - symmetry. apply nth_error_nth with (d := 0%Z) in E. exact E.
      - apply nth_error_None in E. lia. }
    rewrite !G by lia. unfold L.
    change (nth (Z.to_nat 3) (z0 :: z1 :: z2 :: z3 :: z4 :: z5 :: z6 :: z7 :: rest) 0%Z) with z3.
    change (nth (Z.to_nat 1) (z0 :: z1 :: z2 :: z3 :: z4 :: z5 :: z6 :: z7 :: rest) 0%Z) with z1.
    change (nth (Z.to_nat 4) (z0 :: z1 :: z2 :: z3 :: z4 :: z5 :: z6 :: z7 :: rest) 0%Z) with z4.
    change (nth (Z.to_nat 2) (z0 :: z1 :: z2 :: z3 :: z4 :: z5 :: z6 :: z7 :: rest) 0%Z) with z2.
    change (nth (Z.to_nat 7) (z0 :: z1 :: z2 :: z3 :: z4 :: z5 :: z6 :: z7 :: rest) 0%Z) with z7.
    destruct (z2 =? 1)%Z, (z7 =? 1)%Z; reflexivity.
  Qed.

  (** PWAV p : zero-based primary index *)
  Theorem kernel_primary : forall (op p : Z) (rest : list Z), k_zmx_primary O (op :: p :: rest) = (p - 1)%Z.
  Proof.
    intros. unfold k_zmx_primary, getIZ. rewrite nthZ_1. reflexivity.
  Qed.

  (** WAVM i w ... : the value is appended only while fewer than num_wavelengths are stored *)
  Theorem kernel_wavelength : forall (a b w : T) (rest : list T) (nw : Z) (wd : list T),
    k_zmx_wavelength O (a :: b :: w :: rest) nw wd
    = if (Z.of_nat (List.length wd) <? nw)%Z then wd ++ [w] else wd.
  Proof.
    intros. unfold k_zmx_wavelength.
    assert (E : getZ (a :: b :: w :: rest) 2 = w).
    { unfold getZ, nthZ. cbv zeta. change (2 <? 0)%Z with false. cbv iota.
      assert (Hl : (Z.of_nat (List.length (a :: b :: w :: rest)) <=? 2)%Z = false)
        by (apply Z.leb_gt; cbn [List.length]; lia).
      rewrite Hl. reflexivity. }
    rewrite E. reflexivity.
  Qed.

  (** XFLN / YFLN : the first num_fields entries after the operand, as in the model's handlers *)
  Theorem kernel_fields : forall (d : list T) (nf : Z),
    k_zmx_xfields O d nf = sliceZ d 1 (Some (nf + 1)%Z) /\ k_zmx_yfields O d nf = sliceZ d 1 (Some (nf + 1)%Z).
  Proof. intros; split; reflexivity. Qed.
End K.

(** Theorems about the kernels regenerated from optiland/geometries/{standard,plane}.py *)
From Coq Require Import Reals Lra Lia ZArith List Psatz.
From OV Require Import Ops RInst XR Gen.Standard.
Local Open Scope R_scope.

(** ** Plane *)
Theorem plane_distance_sound z N t :
  k_plane_distance XOps (Fin z) (Fin N) = Fin t -> 0 <= t /\ z + t * N = 0.
Proof.
  unfold k_plane_distance. xops. cbn [xneg xdiv].
  destruct (Req_EM_T N 0) as [E|E].
  - destruct (Rlt_dec 0 (- z)); [cbn; discriminate|].
    destruct (Rlt_dec (- z) 0); cbn; discriminate.
  - cbn [xltb]. unfold Rltb. destruct (Rlt_dec (- z / N) 0); [discriminate|].
    intros H; injection H as <-. split; [lra|]. field; exact E.
Qed.

Theorem plane_distance_miss z N :
  N <> 0 -> - z / N < 0 -> k_plane_distance XOps (Fin z) (Fin N) = NaN.
Proof.
  intros HN Hneg. unfold k_plane_distance. xops. cbn [xneg xdiv].
  destruct (Req_EM_T N 0); [contradiction|]. cbn [xltb]. unfold Rltb.
  destruct (Rlt_dec (- z / N) 0); [reflexivity|lra].
Qed.

(** ** Conic (standard) surface *)
Section Conic.
  Variables k N L M z x y Rc : R.
  Let a := k*(N*N) + L*L + M*M + N*N.
  Let b := 2*k*N*z + 2*L*x + 2*M*y - 2*N*Rc + 2*N*z.
  Let c := k*(z*z) - 2*Rc*z + x*x + y*y + z*z.
  Let d := b*b - 4*a*c.
  Definition quadric (px py pz : R) := px*px + py*py + (1+k)*(pz*pz) - 2*Rc*pz.

  Lemma quadric_along_ray t : quadric (x + t*L) (y + t*M) (z + t*N) = c + t*b + t*t*a.
  Proof. unfold quadric, a, b, c. ring. Qed.

  Let res := k_std_distance XOps (Fin k) (Fin N) (Fin L) (Fin M) (Fin z) (Fin x) (Fin y) (Fin Rc).

  Lemma Rlit_half : Rlit 5 (-1) = / 2. Proof. unfold Rlit; simpl; lra. Qed.
  Lemma Rlit_one : Rlit 10 (-1) = 1. Proof. unfold Rlit; simpl; lra. Qed.

  (** the kernel, with the four quantities a b c d named (numerically stable root form:
      q = -(b + sgn(b) sqrt d)/2,  t1 = q/a,  t2 = c/q); a root is discarded when it lies behind the ray or on the
      sheet of the quadric that does not pass through the vertex ((Rc - (1+k) z) Rc < 0) *)
  Definition behind (t : xR) : xR := if xltb t (Fin 0) then PInf else t.
  Definition zat (t : xR) : xR := xadd (Fin z) (xmul t (Fin N)).
  Definition sheet (t : xR) : xR :=
    if xltb (xmul (xsub (Fin Rc) (xmul (Fin (1 + k)) (zat t))) (Fin Rc)) (Fin 0) then PInf else t.

  Lemma res_unfold :
    res =
    (let sg := if Rltb b 0 then Fin (- 1) else Fin 1 in
     let q := xmul (Fin (- / 2)) (xadd (Fin b) (xmul sg (xsqrt (Fin d)))) in
     let t1 := xdiv q (Fin a) in
     let t2 := if xeqb q (Fin 0) then t1 else xdiv (Fin c) q in
     let t1' := sheet (behind t1) in
     let t2' := sheet (behind t2) in
     let t := if xleb (xabs (zat t1')) (xabs (zat t2')) then t1' else t2' in
     if Reqb a 0 then behind (xdiv (Fin (- c)) (Fin b)) else t).
  Proof.
    unfold res, k_std_distance, sheet, behind, zat. xops. cbn [xadd xsub xmul xneg xeqb xltb].
    rewrite Rlit_half, Rlit_one.
    replace (k * (N * N) + L * L + M * M + N * N) with a by (unfold a; ring).
    replace (2 * k * N * z + 2 * L * x + 2 * M * y + - (2 * N * Rc) + 2 * N * z) with b by (unfold b; ring).
    replace (k * (z * z) + - (2 * Rc * z) + x * x + y * y + z * z) with c by (unfold c; ring).
    replace (b * b + - (4 * a * c)) with d by (unfold d; ring).
    destruct (Rltb b 0); reflexivity.
  Qed.

  (** key identity of the stable form: q^2 + b q + a c = 0 *)
  Lemma q_identity s : 0 <= d -> (s = 1 \/ s = -1) ->
    let q := - / 2 * (b + s * sqrt d) in q * q + b * q + a * c = 0.
  Proof.
    intros Hd Hs q. unfold q.
    assert (Hq : sqrt d * sqrt d = b*b - 4*a*c) by (rewrite sqrt_sqrt by exact Hd; reflexivity).
    assert (Hs2 : s*s = 1) by (destruct Hs; subst; ring).
    transitivity (/ 4 * ((s*s) * (sqrt d * sqrt d) - b*b) + a*c); [field|].
    rewrite Hs2, Hq. field.
  Qed.

  Lemma root1_on_quadric q : a <> 0 -> q * q + b * q + a * c = 0 ->
    let t := q / a in c + t*b + t*t*a = 0.
  Proof.
    intros Ha Hq t. unfold t.
    apply Rmult_eq_reg_l with a; [|exact Ha].
    transitivity (q * q + b * q + a * c); [field; exact Ha|rewrite Hq; ring].
  Qed.
  Lemma root2_on_quadric q : q <> 0 -> q * q + b * q + a * c = 0 ->
    let t := c / q in c + t*b + t*t*a = 0.
  Proof.
    intros Hq0 Hq t. unfold t.
    apply Rmult_eq_reg_l with (q * q); [|apply Rmult_integral_contrapositive_currified; exact Hq0].
    transitivity (c * (q * q + b * q + a * c)); [field; exact Hq0|rewrite Hq; ring].
  Qed.

  Lemma xdiv_fin_loc p r : r <> 0 -> xdiv (Fin p) (Fin r) = Fin (p / r).
  Proof. intros H; cbn. destruct (Req_EM_T r 0); [contradiction|reflexivity]. Qed.

  (** what survives the two filters: nothing (+inf), or a root in front of the ray on the vertex sheet *)
  Definition onq (t : R) : Prop := c + t*b + t*t*a = 0.
  Definition front (v : xR) : Prop := v = PInf \/ exists t, v = Fin t /\ 0 <= t /\ onq t.
  Definition kept (v : xR) : Prop :=
    v = PInf \/ exists t, v = Fin t /\ 0 <= t /\ onq t /\ 0 <= (Rc - (1 + k) * (z + t * N)) * Rc.

  Lemma behind_front t : onq t -> front (behind (Fin t)).
  Proof.
    intros Q. unfold behind. cbn [xltb]. unfold Rltb. destruct (Rlt_dec t 0) as [Hn|Hn]; [left; reflexivity|].
    right. exists t. repeat split; [lra|exact Q].
  Qed.

  Lemma sheet_kept v : front v -> kept (sheet v).
  Proof.
    intros [->|(t & -> & Ht & Q)]; unfold sheet.
    - destruct (xltb _ _); left; reflexivity.
    - unfold zat. cbn [xmul xadd xsub xneg xltb]. unfold Rltb.
      destruct (Rlt_dec ((Rc + - ((1 + k) * (z + t * N))) * Rc) 0) as [Hs|Hs]; [left; reflexivity|].
      right. exists t. repeat split; [exact Ht|exact Q|].
      replace (Rc - (1 + k) * (z + t * N)) with (Rc + - ((1 + k) * (z + t * N))) by ring. lra.
  Qed.

  Lemma kept_choice (bb : bool) v1 v2 : kept v1 -> kept v2 -> kept (if bb then v1 else v2).
  Proof. destruct bb; auto. Qed.

  (** a finite distance puts the ray on the quadric of the prescription; unless the degenerate [a = 0] branch fired
      the point is in front of the ray and on the sheet of the quadric through the vertex *)
  Theorem conic_distance_sound_sheet t :
    res = Fin t ->
    quadric (x + t*L) (y + t*M) (z + t*N) = 0 /\
    (a <> 0 -> 0 <= t /\ 0 <= (Rc - (1 + k) * (z + t * N)) * Rc).
  Proof.
    rewrite res_unfold, quadric_along_ray. cbv zeta.
    unfold Reqb. destruct (Req_EM_T a 0) as [Ea|Ea].
    - (* linear branch: the single root, ignored when it lies behind the ray *)
      unfold behind. cbn [xdiv]. destruct (Req_EM_T b 0) as [Eb|Eb].
      + destruct (Rlt_dec 0 (- c)); [cbn; discriminate|]. destruct (Rlt_dec (- c) 0); cbn; discriminate.
      + cbn [xltb]. unfold Rltb. destruct (Rlt_dec (- c / b) 0); [discriminate|].
        intros H; injection H as <-. split; [|contradiction]. rewrite Ea. field; exact Eb.
    - cbn [xsqrt]. destruct (Rlt_dec d 0) as [Hd|Hd].
      + (* negative discriminant: everything is NaN *)
        unfold sheet, behind, zat. destruct (Rltb b 0); cbn; discriminate.
      + assert (Hd' : 0 <= d) by lra.
        set (s := if Rltb b 0 then -1 else 1).
        assert (Hs : s = 1 \/ s = -1) by (unfold s; destruct (Rltb b 0); auto).
        assert (Esg : (if Rltb b 0 then Fin (-1) else Fin 1) = Fin s) by (unfold s; destruct (Rltb b 0); reflexivity).
        rewrite Esg. cbn [xmul xadd].
        set (q := - / 2 * (b + s * sqrt d)).
        generalize (q_identity s Hd' Hs). cbv zeta. fold q. intros HQ.
        rewrite (xdiv_fin_loc q a Ea).
        assert (Q1 : onq (q / a)) by (apply (root1_on_quadric q Ea HQ)).
        assert (K1 : kept (sheet (behind (Fin (q / a))))) by (apply sheet_kept, behind_front, Q1).
        assert (K2 : kept (sheet (behind (if xeqb (Fin q) (Fin 0) then Fin (q / a) else xdiv (Fin c) (Fin q))))).
        { cbn [xeqb]. unfold Reqb. destruct (Req_EM_T q 0) as [Eq0|Eq0]; [exact K1|].
          cbn [xdiv]. destruct (Req_EM_T q 0) as [|_]; [contradiction|].
          apply sheet_kept, behind_front. apply (root2_on_quadric q Eq0 HQ). }
        intros H.
        match type of H with (if ?bb then _ else _) = _ => pose proof (kept_choice bb _ _ K1 K2) as K end.
        rewrite H in K.
        destruct K as [K|(t' & E & Ht & Q & Hsh)]; [discriminate|].
        injection E as <-. split; [exact Q|intros _; split; assumption].
  Qed.

  (** a finite distance is never negative - also in the degenerate branch [a = 0] (a ray parallel to the axis of a
      paraboloid or along an asymptote of a hyperboloid), which applies the behind-the-ray filter too *)
  Theorem conic_distance_nonneg t : res = Fin t -> 0 <= t.
  Proof.
    intros H. destruct (Req_EM_T a 0) as [Ea|Ea].
    - revert H. rewrite res_unfold. cbv zeta. unfold Reqb. destruct (Req_EM_T a 0) as [_|]; [|contradiction].
      unfold behind. cbn [xdiv]. destruct (Req_EM_T b 0) as [Eb|Eb].
      + destruct (Rlt_dec 0 (- c)); [cbn; discriminate|]. destruct (Rlt_dec (- c) 0); cbn; discriminate.
      + cbn [xltb]. unfold Rltb. destruct (Rlt_dec (- c / b) 0) as [|Hn]; [discriminate|].
        intros H; injection H as <-. lra.
    - destruct (conic_distance_sound_sheet t H) as [_ P]. apply P, Ea.
  Qed.

  Theorem conic_distance_sound t :
    res = Fin t ->
    quadric (x + t*L) (y + t*M) (z + t*N) = 0 /\ (a <> 0 -> 0 <= t).
  Proof.
    intros H. destruct (conic_distance_sound_sheet t H) as [Q P]. split; [exact Q|].
    intros Ha. apply P, Ha.
  Qed.

  (** no real intersection (negative discriminant) is reported as NaN, never as a number *)
  Theorem conic_distance_miss : a <> 0 -> d < 0 -> res = NaN.
  Proof.
    intros Ha Hd. rewrite res_unfold. cbv zeta. unfold Reqb.
    destruct (Req_EM_T a 0); [contradiction|].
    cbn [xsqrt]. destruct (Rlt_dec d 0); [|lra]. unfold sheet, behind, zat. destruct (Rltb b 0); reflexivity.
  Qed.
End Conic.

(** ** Surface normal of the conic *)
Section Normal.
  Variables x y Rc k : R.
  Let r2 := x*x + y*y.
  Let rad := 1 - (1+k)*r2/(Rc*Rc).
  Hypothesis HR : Rc <> 0.
  Hypothesis Hrad : 0 < rad.
  Let out := k_std_normal ROps x y Rc k.
  Let nx := fst (fst out). Let ny := snd (fst out). Let nz := snd out.
  Let fx := x / (Rc * sqrt rad).
  Let fy := y / (Rc * sqrt rad).
  Let mag := sqrt (fx*fx + fy*fy + 1).

  Lemma std_normal_components : nx = fx / mag /\ ny = fy / mag /\ nz = -1 / mag.
  Proof.
    unfold nx, ny, nz, out, k_std_normal. rops. cbn [fst snd].
    fold r2. fold rad. fold fx. fold fy.
    replace (IZR ((-1) ^ 2)) with 1 by (simpl; lra).
    fold mag. repeat split; reflexivity.
  Qed.

  Lemma mag_pos : 0 < mag.
  Proof. unfold mag. apply sqrt_lt_R0. nra. Qed.

  Theorem std_normal_unit : nx*nx + ny*ny + nz*nz = 1.
  Proof.
    destruct std_normal_components as (Hx & Hy & Hz). rewrite Hx, Hy, Hz.
    generalize mag_pos; intros Hm.
    assert (Hmm : mag*mag = fx*fx + fy*fy + 1) by (unfold mag; rewrite sqrt_sqrt; nra).
    replace (fx / mag * (fx / mag) + fy / mag * (fy / mag) + -1 / mag * (-1 / mag))
      with ((fx*fx + fy*fy + 1) / (mag*mag)) by (field; lra).
    rewrite <- Hmm. field. nra.
  Qed.

  (** on the sag sheet of the quadric the returned normal is parallel to the gradient of
      the quadric  (x, y, (1+k) z - Rc)  i.e. it IS the surface normal of the prescribed shape *)
  Theorem std_normal_parallel_gradient z :
    Rc - (1+k)*z = Rc * sqrt rad ->
    let gx := x in let gy := y in let gz := (1+k)*z - Rc in
    ny*gz - nz*gy = 0 /\ nz*gx - nx*gz = 0 /\ nx*gy - ny*gx = 0.
  Proof.
    intros Hsheet gx gy gz.
    destruct std_normal_components as (Hx & Hy & Hz). rewrite Hx, Hy, Hz.
    generalize mag_pos; intros Hm.
    assert (Hs : 0 < sqrt rad) by (apply sqrt_lt_R0; exact Hrad).
    assert (Hgz : gz = - (Rc * sqrt rad)) by (unfold gz; lra).
    unfold gx, gy. rewrite Hgz. unfold fx, fy.
    assert (Rc * sqrt rad <> 0) by (apply Rmult_integral_contrapositive_currified; lra).
    repeat split; field; repeat split; lra.
  Qed.
End Normal.

(** the sag function lies on the quadric (so "on the sag sheet" is a point of the prescribed shape) *)
Theorem std_sag_on_quadric x y Rc k :
  Rc <> 0 -> 0 <= 1 - (1+k)*(x*x+y*y)/(Rc*Rc) ->
  quadric k Rc x y (k_std_sag ROps x y Rc k) = 0.
Proof.
  intros HR Hrad. unfold k_std_sag, quadric. rops.
  set (r2 := x*x+y*y) in *. set (s := sqrt (1 - (1+k)*r2/(Rc*Rc))).
  assert (Hs : s*s = 1 - (1+k)*r2/(Rc*Rc)) by (unfold s; apply sqrt_sqrt; exact Hrad).
  assert (Hs0 : 0 <= s) by apply sqrt_pos.
  assert (H1 : 1 + s <> 0) by lra.
  assert (HR2: Rc*Rc <> 0) by (apply Rmult_integral_contrapositive_currified; assumption).
  assert (Hk : (1+k)*r2 = (1 - s*s)*(Rc*Rc)).
  { rewrite Hs. field. exact HR. }
  replace (x*x + y*y) with r2 by reflexivity.
  apply Rmult_eq_reg_l with ((Rc*(1+s))*(Rc*(1+s))).
  2:{ apply Rmult_integral_contrapositive_currified; apply Rmult_integral_contrapositive_currified; assumption. }
  replace (Rc*(1+s)*(Rc*(1+s))*0) with 0 by ring.
  transitivity (r2*(Rc*Rc)*(1+s)*(1+s) + ((1+k)*r2)*r2 - 2*Rc*Rc*(1+s)*r2); [field; split; assumption|].
  rewrite Hk. ring.
Qed.

(** a point of the quadric that passes the sheet filter of [k_std_distance] is on the sheet through the vertex,
    the one [sag] and [surface_normal] describe: it satisfies the hypothesis of [std_normal_parallel_gradient] *)
Theorem sheet_is_sag_sheet px py pz Rc k :
  Rc <> 0 -> quadric k Rc px py pz = 0 -> 0 <= (Rc - (1+k)*pz) * Rc ->
  let rad := 1 - (1+k)*(px*px+py*py)/(Rc*Rc) in
  0 <= rad /\ Rc - (1+k)*pz = Rc * sqrt rad.
Proof.
  intros HR HQ Hs rad. unfold quadric in HQ.
  set (w := Rc - (1+k)*pz) in *.
  assert (HR2 : 0 < Rc*Rc) by nra.
  assert (Hw2 : (w / Rc) * (w / Rc) = rad).
  { assert (Hr2 : px*px + py*py = 2*Rc*pz - (1+k)*(pz*pz)) by lra.
    unfold rad. rewrite Hr2. unfold w. field. exact HR. }
  assert (Hq : 0 <= w / Rc).
  { replace (w / Rc) with ((w * Rc) / (Rc * Rc)) by (field; exact HR).
    apply Rmult_le_pos; [exact Hs|]. left. apply Rinv_0_lt_compat, HR2. }
  split.
  - rewrite <- Hw2. nra.
  - rewrite (sqrt_lem_1 rad (w / Rc)); [field; exact HR| |exact Hq|exact Hw2].
    rewrite <- Hw2. nra.
Qed.

(** * C13 - the wavefront code that reads the record table: what it computes from the last-row records *)
From Coq Require Import Reals Lra Lia ZArith.
From OV Require Import Ops RInst Gen.C13Kern.
Local Open Scope R_scope.

Lemma quad_root (a b c s t : R) :
  a <> 0 -> s * s = b * b - 4 * a * c -> (t = (- b + s) / (2 * a) \/ t = (- b - s) / (2 * a)) ->
  a * t * t + b * t + c = 0.
Proof.
  intros Ha Hs [-> | ->].
  - assert (E : a * ((- b + s) / (2 * a)) * ((- b + s) / (2 * a)) + b * ((- b + s) / (2 * a)) + c
                = (s * s - (b * b - 4 * a * c)) / (4 * a)) by (field; assumption).
    rewrite E, Hs. unfold Rdiv. ring.
  - assert (E : a * ((- b - s) / (2 * a)) * ((- b - s) / (2 * a)) + b * ((- b - s) / (2 * a)) + c
                = (s * s - (b * b - 4 * a * c)) / (4 * a)) by (field; assumption).
    rewrite E, Hs. unfold Rdiv. ring.
Qed.

Theorem wf_opd_image_to_xp_on_sphere (xc yc zc R x y z L M N : R) :
  let a := L * L + M * M + N * N in
  let b := 2 * - L * (x - xc) + 2 * - M * (y - yc) + 2 * - N * (z - zc) in
  let c := (x - xc) * (x - xc) + (y - yc) * (y - yc) + (z - zc) * (z - zc) - R * R in
  a <> 0 -> 0 <= b * b - 4 * a * c ->
  let t := k_wf_opd_image_to_xp ROps xc yc zc R x y z L M N in
  (x - t * L - xc) * (x - t * L - xc) + (y - t * M - yc) * (y - t * M - yc) + (z - t * N - zc) * (z - t * N - zc) = R * R.
Proof.
  intros a b c Ha Hd t.
  assert (Hq : a * t * t + b * t + c = 0).
  { apply quad_root with (s := sqrt (b * b - 4 * a * c)); [exact Ha|apply sqrt_sqrt; exact Hd|].
    unfold t, k_wf_opd_image_to_xp. rops.
    replace (- L * - L + - M * - M + - N * - N) with a by (unfold a; ring).
    replace (2 * - L * (x - xc) + 2 * - M * (y - yc) + 2 * - N * (z - zc)) with b by reflexivity.
    replace (x * x + y * y + z * z - 2 * x * xc + xc * xc - 2 * y * yc + yc * yc - 2 * z * zc + zc * zc - R * R)
      with c by (unfold c; ring).
    destruct (Rltb _ 0); [left|right]; reflexivity. }
  unfold a, b, c in Hq. nra.
Qed.

(** the path length handed to the OPD is the recorded opd minus that distance, weighted by |n| of the
    image-space medium when a wavelength is given (and by 1 otherwise); nothing else is read *)
Theorem wf_path_length_reads_only_the_ray (xc yc zc r opd n x y z L M N : R) :
  k_wf_path_length ROps xc yc zc r opd n x y z L M N =
  opd - Rabs n * k_wf_opd_image_to_xp ROps xc yc zc r x y z L M N.
Proof. reflexivity. Qed.

Theorem wf_path_length_vac_reads_only_the_ray (xc yc zc r opd x y z L M N : R) :
  k_wf_path_length_vac ROps xc yc zc r opd x y z L M N = opd - k_wf_opd_image_to_xp ROps xc yc zc r x y z L M N.
Proof.
  unfold k_wf_path_length_vac. rops. unfold Rlit; simpl.
  set (k := k_wf_opd_image_to_xp ROps xc yc zc r x y z L M N). lra.
Qed.

(** hypotheses satisfiable: axial ray at the image point, reference sphere of radius 2 centred there *)
Example wf_on_sphere_hypotheses_satisfiable :
  let a := 0 * 0 + 0 * 0 + 1 * 1 in
  let b := 2 * - 0 * (0 - 0) + 2 * - 0 * (0 - 0) + 2 * - 1 * (0 - 0) in
  let c := (0 - 0) * (0 - 0) + (0 - 0) * (0 - 0) + (0 - 0) * (0 - 0) - 2 * 2 in
  a <> 0 /\ 0 <= b * b - 4 * a * c.
Proof. simpl. split; lra. Qed.

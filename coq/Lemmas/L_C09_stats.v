(** Derived quantities of the wavefront data: OPD.rms (regenerated kernel), the fan slices of OPDFan, the
    OPD-difference operand: each is the stated function of the data on its documented samples. *)
From Coq Require Import Reals Lra Lia ZArith List String Psatz.
From OV Require Import Ops RInst Num.OpsC09 Gen.Wavefront Model.Trace Model.M_C09 Spec.S_C09 Lemmas.L_C09_sphere.
Import ListNotations.
Local Open Scope R_scope.
Notation length := List.length.

(** ** sums and means *)
Lemma fold_add_acc (l : list R) (a : R) : fold_left Rplus l a = a + sumR l.
Proof. revert a. induction l as [|x l IH]; intros a; cbn; [ring|]. rewrite IH. ring. Qed.

Lemma sum_list_sumR (l : list R) : sum_list (O:=ROps) l = sumR l.
Proof. unfold sum_list. rops. rewrite fold_add_acc. ring. Qed.

Lemma mean_list_meanR (l : list R) : mean_list (O:=ROps) l = meanR l.
Proof. unfold mean_list, meanR. rewrite sum_list_sumR. rops. rewrite <- INR_IZR_INZ. reflexivity. Qed.

Lemma sq_list_map (l : list R) : sq_list (O:=ROps) l = map (fun x => x * x) l.
Proof. reflexivity. Qed.

Lemma nthZ_0_cons {A} (a : A) (l : list A) : nthZ (a :: l) 0 = Some a.
Proof.
  unfold nthZ. cbn [Z.ltb Z.compare length].
  replace (Z.of_nat (S (length l)) <=? 0)%Z with false by (symmetry; apply Z.leb_gt; lia).
  reflexivity.
Qed.

Lemma sumR_nonneg (l : list R) : (forall x, In x l -> 0 <= x) -> 0 <= sumR l.
Proof.
  induction l as [|x l IH]; intros H; cbn; [lra|].
  assert (0 <= x) by (apply H; left; reflexivity).
  assert (0 <= sumR l) by (apply IH; intros y Hy; apply H; right; exact Hy). lra.
Qed.

(** ** OPD.rms *)
Theorem rms_is_rms :
  forall (opd inten : list R) (rest : list (list R * list R)) (rows : list (list (list R * list R))),
    k_wf_opd_rms ROps (((opd, inten) :: rest) :: rows) = rmsR opd.
Proof.
  intros. unfold k_wf_opd_rms, wf_row, wf_cell. rewrite !nthZ_0_cons. cbn [fst].
  rewrite mean_list_meanR, sq_list_map. reflexivity.
Qed.

Theorem rms_nonneg : forall l, 0 <= rmsR l.
Proof. intros. unfold rmsR. apply sqrt_pos. Qed.

(** a wavefront that is zero at every sample has zero RMS, and (for a non-empty sample set) conversely *)
Theorem rms_zero_iff : forall l, l <> [] -> (rmsR l = 0 <-> forall x, In x l -> x = 0).
Proof.
  intros l Hne. unfold rmsR, meanR. rewrite map_length.
  assert (Hn : 0 < INR (length l)).
  { destruct l; [contradiction|]. apply lt_0_INR. cbn. lia. }
  assert (Hs : 0 <= sumR (map (fun x => x * x) l)).
  { apply sumR_nonneg. intros y Hy. apply in_map_iff in Hy. destruct Hy as [x [<- _]]. apply sq_nonneg. }
  split.
  - intros H. apply sqrt_eq_0 in H; [|apply Rle_mult_inv_pos; assumption].
    assert (H0 : sumR (map (fun x => x * x) l) = 0).
    { unfold Rdiv in H. apply Rmult_integral in H. destruct H as [H|H]; [exact H|].
      pose proof (Rinv_0_lt_compat _ Hn). lra. }
    clear Hn Hne Hs H. induction l as [|y l IH]; intros x Hx; [destruct Hx|].
    cbn in H0.
    assert (Hy : 0 <= y * y) by apply sq_nonneg.
    assert (Hl : 0 <= sumR (map (fun x => x * x) l)).
    { apply sumR_nonneg. intros z Hz. apply in_map_iff in Hz. destruct Hz as [u [<- _]]. apply sq_nonneg. }
    destruct Hx as [<-|Hx].
    + assert (y * y = 0) by lra. destruct (Rmult_integral _ _ H); assumption.
    + apply IH; [lra|exact Hx].
  - intros H.
    assert (H0 : sumR (map (fun x => x * x) l) = 0).
    { clear Hn Hne Hs. induction l as [|y l IH]; [reflexivity|]. cbn.
      rewrite (H y) by (left; reflexivity). rewrite IH; [ring|]. intros x Hx. apply H. right. exact Hx. }
    rewrite H0. unfold Rdiv. rewrite Rmult_0_l. apply sqrt_0.
Qed.

(** ** OPDFan: slices of the cross distribution *)
Lemma nth_error_firstn_lt {A} (l : list A) (n k : nat) : (k < n)%nat -> nth_error (firstn n l) k = nth_error l k.
Proof.
  revert l k. induction n as [|n IH]; intros l k Hk; [lia|].
  destruct l as [|a l]; [destruct k; reflexivity|]. destruct k; [reflexivity|]. cbn. apply IH. lia.
Qed.
Lemma nth_error_skipn_plus {A} (l : list A) (n k : nat) : nth_error (skipn n l) k = nth_error l (n + k).
Proof.
  revert l. induction n as [|n IH]; intros l; [reflexivity|].
  destruct l as [|a l]; [destruct k; reflexivity|]. cbn. apply IH.
Qed.
Lemma linspace_length (a b : R) (n : nat) : length (linspace (O:=ROps) a b n) = n.
Proof.
  unfold linspace. destruct n as [|[|n]]; [reflexivity|reflexivity|].
  rewrite map_length, seq_length. reflexivity.
Qed.

Theorem fan_is_slice :
  forall (n : nat) (opd : list R) (k : nat),
    (k < n)%nat ->
    let lin := linspace (O:=ROps) (Ropp 1) 1 n in
    nth_error (fan_y (O:=ROps) n opd) k = nth_error opd k /\
    nth_error (fan_x (O:=ROps) n opd) k = nth_error opd (n + k) /\
    nth_error (cross (O:=ROps) n) k = Some (0, nth k lin 0) /\
    nth_error (cross (O:=ROps) n) (n + k) = Some (nth k lin 0, 0).
Proof.
  intros n opd k Hk lin. unfold fan_y, fan_x, cross. rops.
  change (linspace (O:=ROps) (Ropp 1) 1 n) with lin.
  assert (Hlen : length lin = n) by apply linspace_length.
  split; [apply nth_error_firstn_lt; exact Hk|]. split; [apply nth_error_skipn_plus|].
  split.
  - rewrite nth_error_app1 by (rewrite map_length; lia).
    rewrite nth_error_map, (nth_error_nth' lin 0) by lia. reflexivity.
  - rewrite nth_error_app2 by (rewrite map_length; lia).
    rewrite map_length, Hlen. replace (n + k - n)%nat with k by lia.
    rewrite nth_error_map, (nth_error_nth' lin 0) by lia. reflexivity.
Qed.

(** ** OPD-difference operand *)
Theorem opd_difference_is_mean_abs_dev :
  forall opd weights : list R, opd_difference (O:=ROps) opd weights = mean_abs_dev opd weights.
Proof.
  intros. unfold opd_difference, mean_abs_dev. rewrite !mean_list_meanR. rops.
  f_equal. apply map_ext. intros [d wt]. reflexivity.
Qed.

Theorem opd_difference_nonneg : forall opd weights : list R, 0 <= mean_abs_dev opd weights.
Proof.
  intros. unfold mean_abs_dev, meanR at 1.
  set (l := map _ _).
  assert (0 <= sumR l).
  { apply sumR_nonneg. intros y Hy. unfold l in Hy. apply in_map_iff in Hy. destruct Hy as [x [<- _]]. apply Rabs_pos. }
  destruct (length l) as [|m] eqn:E.
  - destruct l; [|discriminate]. cbn. unfold Rdiv. rewrite Rmult_0_l. lra.
  - apply Rle_mult_inv_pos; [assumption|]. apply lt_0_INR. lia.
Qed.

(** a wavefront that is constant over the pupil (pure piston) has zero OPD difference *)
Theorem opd_difference_constant :
  forall (c : R) (n : nat) (weights : list R), mean_abs_dev (repeat c (S n)) weights = 0.
Proof.
  intros c n weights.
  assert (Hm : meanR (repeat c (S n)) = c).
  { unfold meanR. rewrite repeat_length.
    assert (Hs : forall m, sumR (repeat c m) = INR m * c).
    { induction m as [|m IH]; [cbn; ring|]. cbn [repeat sumR]. rewrite IH, S_INR. ring. }
    rewrite Hs. field. apply not_0_INR. lia. }
  unfold mean_abs_dev. rewrite Hm.
  assert (Hz : forall (l : list (R * R)), (forall p, In p l -> fst p = c) ->
               sumR (map (fun dw => Rabs ((fst dw - c) * snd dw)) l) = 0).
  { induction l as [|p l IH]; intros H; [reflexivity|]. cbn [map sumR].
    rewrite (H p) by (left; reflexivity). rewrite IH by (intros q Hq; apply H; right; exact Hq).
    replace ((c - c) * snd p) with 0 by ring. rewrite Rabs_R0. ring. }
  unfold meanR. rewrite Hz; [unfold Rdiv; apply Rmult_0_l|].
  intros p Hp. destruct p as [d wt]. apply in_combine_l in Hp. apply repeat_spec in Hp. exact Hp.
Qed.

(** C18: the dispersion-formula kernels regenerated from optiland/materials/material_file.py
    equal the refractiveindex.info formulas of Spec/S_C18.v -- for every coefficient list
    (any length) and every wavelength; then what those formulas mean over the reals. *)
From Coq Require Import PrimFloat.
From Coq Require Import Reals Lra Lia ZArith List Bool Psatz.
From OV Require Import Ops OpsC18 RInst Spec.S_C18 Gen.Materials.
Import ListNotations.

(** ** Python list reads *)
Lemma nthZ_app_len {A} (pre : list A) (a : A) (r : list A) :
  nthZ (pre ++ a :: r) (Z.of_nat (length pre)) = Some a.
Proof.
  unfold nthZ. rewrite app_length. cbn [length].
  assert (H0 : (Z.of_nat (length pre) <? 0)%Z = false) by (apply Z.ltb_ge; lia).
  rewrite H0.
  assert (H1 : (Z.of_nat (length pre) <? 0)%Z || (Z.of_nat (length pre + S (length r)) <=? Z.of_nat (length pre))%Z = false).
  { rewrite H0. cbn. apply Z.leb_gt. lia. }
  rewrite H1. rewrite Nat2Z.id. rewrite nth_error_app2 by lia. rewrite Nat.sub_diag. reflexivity.
Qed.

Lemma nthZ_app_len1 {A} (pre : list A) (a b : A) (r : list A) :
  nthZ (pre ++ a :: b :: r) (Z.of_nat (length pre) + 1) = Some b.
Proof.
  replace (pre ++ a :: b :: r) with ((pre ++ [a]) ++ b :: r) by (rewrite <- app_assoc; reflexivity).
  replace (Z.of_nat (length pre) + 1)%Z with (Z.of_nat (length (pre ++ [a]))).
  - apply nthZ_app_len.
  - rewrite app_length. cbn [length]. lia.
Qed.

Lemma nthZ_past_end {A} (l : list A) (i : Z) : (Z.of_nat (length l) <= i)%Z -> nthZ l i = None.
Proof.
  intros H. unfold nthZ.
  assert (H0 : (i <? 0)%Z = false) by (apply Z.ltb_ge; lia). rewrite H0.
  assert (H1 : (Z.of_nat (length l) <=? i)%Z = true) by (apply Z.leb_le; lia). rewrite H1.
  rewrite orb_true_r. reflexivity.
Qed.

Lemma nthZ_head {A} (a : A) (r : list A) : nthZ (a :: r) 0 = Some a.
Proof. exact (nthZ_app_len [] a r). Qed.

(** ** The loop `for k in range(start, len(c), 2): n += term(c[k], c[k+1])` under try/except IndexError *)
Section Loop.
  Context {O : Ops}.
  Notation T := (T O).
  Variable term : T -> T -> T.

  Definition pair_body (c : list T) (oacc : option T) (k : Z) : option T :=
    match oacc with
    | None => None
    | Some n =>
        match nthZ c k with
        | None => None
        | Some a => match nthZ c (k + 1) with None => None | Some b => Some (add n (term a b)) end
        end
    end.

  Lemma pair_loop_steps : forall (n : nat) (pre rest : list T) (acc : T),
    n = Z.to_nat ((Z.of_nat (length rest) + 1) / 2) ->
    fold_left (pair_body (pre ++ rest)) (stepZ (Z.of_nat (length pre)) 2 n) (Some acc)
    = sum_pairs term rest acc.
  Proof.
    induction n as [|n IH]; intros pre rest acc Hn.
    - destruct rest as [|a rest].
      + reflexivity.
      + exfalso. cbn [length] in Hn.
        assert (1 <= (Z.of_nat (S (length rest)) + 1) / 2)%Z by (apply Z.div_le_lower_bound; lia). lia.
    - destruct rest as [|a [|b rest]].
      + exfalso. cbn in Hn. discriminate.
      + (* a dangling coefficient: c[k+1] raises *)
        cbn in Hn. assert (n = 0%nat) by lia. subst n.
        cbn [stepZ fold_left sum_pairs]. unfold pair_body.
        rewrite nthZ_app_len. rewrite nthZ_past_end; [reflexivity|].
        rewrite app_length. cbn [length]. lia.
      + cbn [stepZ fold_left sum_pairs]. unfold pair_body at 2.
        rewrite nthZ_app_len, nthZ_app_len1.
        replace (pre ++ a :: b :: rest) with ((pre ++ [a; b]) ++ rest) by (rewrite <- app_assoc; reflexivity).
        replace (Z.of_nat (length pre) + 2)%Z with (Z.of_nat (length (pre ++ [a; b])))
          by (rewrite app_length; cbn [length]; lia).
        apply IH.
        cbn [length] in Hn.
        replace (Z.of_nat (S (S (length rest))) + 1)%Z with (Z.of_nat (length rest) + 1 + 1 * 2)%Z in Hn by lia.
        rewrite Z.div_add in Hn by lia.
        assert (0 <= (Z.of_nat (length rest) + 1) / 2)%Z by (apply Z.div_pos; lia). lia.
  Qed.

  Lemma pair_loop : forall (pre rest : list T) (acc : T),
    fold_left (pair_body (pre ++ rest))
      (rangeStepZ (Z.of_nat (length pre)) (Z.of_nat (length (pre ++ rest))) 2) (Some acc)
    = sum_pairs term rest acc.
  Proof.
    intros. unfold rangeStepZ. cbn [Z.leb Z.compare].
    apply pair_loop_steps. rewrite app_length. f_equal. f_equal. lia.
  Qed.
End Loop.

(** the loop of formula 7: `for k in range(3, len(c)): n += c[k] * w**(2*(k-2))` *)
Section Loop7.
  Context {O : Ops}.
  Notation T := (T O).
  Variable w : T.
  Definition herz_body (c : list T) (oacc : option T) (k : Z) : option T :=
    match oacc with
    | None => None
    | Some n => match nthZ c k with None => None | Some a => Some (add n (mul a (powZ w (2 * (k - 2))))) end
    end.
  Lemma herz_loop : forall (rest pre : list T) (acc : T),
    (2 <= length pre)%nat ->
    fold_left (herz_body (pre ++ rest)) (seqZ (Z.of_nat (length pre)) (length rest)) (Some acc)
    = Some (herz_tail w rest (length pre - 2) acc).
  Proof.
    induction rest as [|a rest IH]; intros pre acc Hp.
    - reflexivity.
    - cbn [length seqZ fold_left herz_tail]. unfold herz_body at 2.
      rewrite nthZ_app_len.
      replace (pre ++ a :: rest) with ((pre ++ [a]) ++ rest) by (rewrite <- app_assoc; reflexivity).
      replace (Z.of_nat (length pre) + 1)%Z with (Z.of_nat (length (pre ++ [a])))
        by (rewrite app_length; cbn [length]; lia).
      rewrite IH by (rewrite app_length; cbn [length]; lia).
      f_equal. rewrite app_length. cbn [length].
      replace (length pre + 1 - 2)%nat with (S (length pre - 2)) by lia.
      f_equal. f_equal. f_equal. unfold powZ.
      assert (Hneg : (2 * (Z.of_nat (length pre) - 2) <? 0)%Z = false) by (apply Z.ltb_ge; lia).
      rewrite Hneg. f_equal. lia.
  Qed.
End Loop7.

Ltac head_read := rewrite ?nthZ_head.

(** ** kernel = published formula, any arithmetic, any coefficient list, any wavelength *)
Theorem formula_1_spec : forall (O : Ops) (c : list (T O)) (w : T O),
  k_formula_1 O w c = spec_formula_1 c w.
Proof.
  intros O [|c1 rest] w; [reflexivity|].
  unfold k_formula_1, spec_formula_1, sq, one. rewrite nthZ_head.
  change (c1 :: rest) with ([c1] ++ rest).
  change 1%Z with (Z.of_nat (length [c1])) at 2.
  rewrite <- (pair_loop (fun a b => div (mul a (mul w w)) (sub (mul w w) (mul b b))) [c1] rest (add (ofZ 1) c1)).
  unfold pair_body.
  match goal with |- match ?A with _ => _ end = option_map _ ?B => change B with A; destruct A; reflexivity end.
Qed.

Theorem formula_2_spec : forall (O : Ops) (c : list (T O)) (w : T O),
  k_formula_2 O w c = spec_formula_2 c w.
Proof.
  intros O [|c1 rest] w; [reflexivity|].
  unfold k_formula_2, spec_formula_2, sq, one. rewrite nthZ_head.
  change (c1 :: rest) with ([c1] ++ rest).
  change 1%Z with (Z.of_nat (length [c1])) at 2.
  rewrite <- (pair_loop (fun a b => div (mul a (mul w w)) (sub (mul w w) b)) [c1] rest (add (ofZ 1) c1)).
  unfold pair_body.
  match goal with |- match ?A with _ => _ end = option_map _ ?B => change B with A; destruct A; reflexivity end.
Qed.

Theorem formula_3_spec : forall (O : Ops) (c : list (T O)) (w : T O),
  k_formula_3 O w c = spec_formula_3 c w.
Proof.
  intros O [|c1 rest] w; [reflexivity|].
  unfold k_formula_3, spec_formula_3. rewrite nthZ_head.
  change (c1 :: rest) with ([c1] ++ rest).
  change 1%Z with (Z.of_nat (length [c1])).
  rewrite <- (pair_loop (fun a b => mul a (pow_ w b)) [c1] rest c1).
  unfold pair_body.
  match goal with |- match ?A with _ => _ end = option_map _ ?B => change B with A; destruct A; reflexivity end.
Qed.

Theorem formula_5_spec : forall (O : Ops) (c : list (T O)) (w : T O),
  k_formula_5 O w c = spec_formula_5 c w.
Proof.
  intros O [|c1 rest] w; [reflexivity|].
  unfold k_formula_5, spec_formula_5. rewrite nthZ_head.
  change (c1 :: rest) with ([c1] ++ rest).
  change 1%Z with (Z.of_nat (length [c1])).
  rewrite <- (pair_loop (fun a b => mul a (pow_ w b)) [c1] rest c1).
  unfold pair_body.
  match goal with |- match ?A with _ => _ end = ?B => change B with A; destruct A; reflexivity end.
Qed.

Lemma nthZ_ok {A} (l : list A) (i : Z) (x : A) :
  (0 <= i)%Z -> nth_error l (Z.to_nat i) = Some x -> nthZ l i = Some x.
Proof.
  intros Hi Hn. unfold nthZ.
  assert (Hlt : (Z.to_nat i < length l)%nat) by (apply nth_error_Some; rewrite Hn; discriminate).
  assert (H0 : (i <? 0)%Z = false) by (apply Z.ltb_ge; lia).
  assert (H1 : (Z.of_nat (length l) <=? i)%Z = false) by (apply Z.leb_gt; lia).
  cbv zeta. rewrite !H0, H1. exact Hn.
Qed.
Ltac rd i :=
  match goal with |- context [nthZ ?l i] =>
    let x := eval compute in (nth_error l (Z.to_nat i)) in
    lazymatch x with @Some _ ?v => rewrite (@nthZ_ok _ l i v ltac:(lia) eq_refl) end
  end.

Lemma sum_pairs_ext {O : Ops} (t1 t2 : T O -> T O -> T O) (H : forall a b, t1 a b = t2 a b) :
  forall r acc, sum_pairs t1 r acc = sum_pairs t2 r acc.
Proof. fix IH 1. intros [|a [|b r]] acc; try reflexivity. cbn [sum_pairs]. rewrite H. apply IH. Qed.

Theorem formula_4_spec : forall (O : Ops) (c : list (T O)) (w : T O),
  k_formula_4 O w c = spec_formula_4 c w.
Proof.
  intros O c w.
  destruct c as [|c1 [|c2 [|c3 [|c4 [|c5 [|c6 [|c7 [|c8 [|c9 rest]]]]]]]]]; try reflexivity.
  unfold k_formula_4, spec_formula_4, sq.
  rd 0%Z. rd 1%Z. rd 2%Z. rd 3%Z. rd 4%Z. rd 5%Z. rd 6%Z. rd 7%Z. rd 8%Z.
  change (c1 :: c2 :: c3 :: c4 :: c5 :: c6 :: c7 :: c8 :: c9 :: rest)
    with ([c1; c2; c3; c4; c5; c6; c7; c8; c9] ++ rest).
  change 9%Z with (Z.of_nat (length [c1; c2; c3; c4; c5; c6; c7; c8; c9])).
  match goal with |- context [Some ?acc0] =>
    rewrite <- (pair_loop (fun a b => mul a (pow_ w b)) [c1; c2; c3; c4; c5; c6; c7; c8; c9] rest acc0) end.
  unfold pair_body.
  match goal with |- match ?A with _ => _ end = option_map _ ?B => change B with A; destruct A; reflexivity end.
Qed.

Theorem formula_7_spec : forall (O : Ops) (c : list (T O)) (w : T O),
  k_formula_7 O w c = spec_formula_7 c w.
Proof.
  intros O c w.
  destruct c as [|c1 [|c2 [|c3 rest]]]; try reflexivity.
  unfold k_formula_7, spec_formula_7, sq, one, c0028.
  rd 0%Z. rd 1%Z. rd 2%Z.
  unfold rangeZ.
  replace (Z.to_nat (Z.of_nat (length (c1 :: c2 :: c3 :: rest)) - 3)) with (length rest)
    by (cbn [length]; lia).
  change (c1 :: c2 :: c3 :: rest) with ([c1; c2; c3] ++ rest).
  change 3%Z with (Z.of_nat (length [c1; c2; c3])).
  match goal with |- context [Some ?acc0] =>
    pose proof (herz_loop w rest [c1; c2; c3] acc0 ltac:(cbn; lia)) as HL end.
  unfold herz_body in HL. cbv zeta. rewrite HL. reflexivity.
Qed.

Theorem formula_8_spec : forall (O : Ops) (c : list (T O)) (w : T O),
  k_formula_8 O w c = spec_formula_8 c w.
Proof.
  intros O c w.
  destruct c as [|c1 [|c2 [|c3 [|c4 [|c5 rest]]]]]; try reflexivity.
  unfold k_formula_8, spec_formula_8.
  assert (H : (Z.of_nat (length (c1 :: c2 :: c3 :: c4 :: c5 :: rest)) =? 4)%Z = false)
    by (apply Z.eqb_neq; cbn [length]; lia).
  rewrite H. reflexivity.
Qed.

Theorem formula_9_spec : forall (O : Ops) (c : list (T O)) (w : T O),
  k_formula_9 O w c = spec_formula_9 c w.
Proof.
  intros O c w.
  destruct c as [|c1 [|c2 [|c3 [|c4 [|c5 [|c6 [|c7 rest]]]]]]]; try reflexivity.
  unfold k_formula_9, spec_formula_9.
  assert (H : (Z.of_nat (length (c1 :: c2 :: c3 :: c4 :: c5 :: c6 :: c7 :: rest)) =? 6)%Z = false)
    by (apply Z.eqb_neq; cbn [length]; lia).
  rewrite H. reflexivity.
Qed.

(** formula 6 reads `1 / w**2` (since the repair of `w**-2`, which raised for integer-typed wavelengths) *)
Theorem formula_6_spec : forall (c : list R) (w : R),
  k_formula_6 ROps w c = spec_formula_6 (O := ROps) c w.
Proof.
  intros [|c1 rest] w; [reflexivity|].
  unfold k_formula_6, spec_formula_6, sq, one. rewrite nthZ_head.
  change (c1 :: rest) with ([c1] ++ rest).
  change 1%Z with (Z.of_nat (length [c1])) at 2.
  rewrite <- (pair_loop (O := ROps) (fun a b => div (o := ROps) a (sub (o := ROps) b (div (o := ROps) (ofZ 1) (mul (o := ROps) w w)))) [c1] rest (add (o := ROps) (ofZ 1) c1)).
  unfold pair_body.
  match goal with |- match ?A with _ => _ end = ?B => change B with A; destruct A; reflexivity end.
Qed.

(** the wavelengths `BaseMaterial.abbe` evaluates the index at *)
Definition line_d (O : Ops) : T O := lit 5875618 (-7) 0x1.2cd4e676c1fe4p-1%float.
Definition line_F (O : Ops) : T O := lit 4861327 (-7) 0x1.f1ccc54010914p-2%float.
Definition line_C (O : Ops) : T O := lit 6562725 (-7) 0x1.5002f2f987400p-1%float.

Theorem abbe_definition : forall (O : Ops) (n : T O -> T O),
  k_abbe O n = spec_abbe (n (line_d O)) (n (line_F O)) (n (line_C O)).
Proof. reflexivity. Qed.

(** they are the Fraunhofer d, F and C lines (in micrometres), exactly; so V = (n_d - 1)/(n_F - n_C) *)
Lemma abbe_lines :
  (line_d ROps = 0.5875618 /\ line_F ROps = 0.4861327 /\ line_C ROps = 0.6562725)%R.
Proof. unfold line_d, line_F, line_C. rops. unfold Rlit. cbn. repeat split; lra. Qed.

Theorem abbe_number : forall n : R -> R,
  k_abbe ROps n = ((n 0.5875618 - 1) / (n 0.4861327 - n 0.6562725))%R.
Proof.
  intros n. rewrite abbe_definition. destruct abbe_lines as (Ed & EF & EC).
  rewrite Ed, EF, EC. reflexivity.
Qed.

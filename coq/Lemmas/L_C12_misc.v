(** * C12: ray fan, pupil aberration, distortion, grid distortion, field curvature.
    Theorems about the regenerated kernels of Gen/Analysis.v and the hand model Model/M_C12.v
    over exact reals, for sample lists of ANY length. *)
From Coq Require Import String Reals ZArith List Lra Lia Bool.
From OV Require Import Ops RInst Num.OpsC12 Gen.Analysis Model.M_C12 Spec.S_C12 Lemmas.L_C12_lists Lemmas.L_C12_spot.
Import ListNotations.
Local Open Scope R_scope.
Local Open Scope list_scope.

(** rewriting [nth] through elementwise maps, side conditions by length arithmetic *)
Ltac len_side :=
  repeat (rewrite lmap_length || rewrite lmap2_length || rewrite rev_length || rewrite map_length);
  cbn [T ROps] in *; lia.
Ltac nth_maps :=
  repeat (first
    [ erewrite (lmap2_nth _ _ _ _ 0 0 0) by len_side
    | erewrite (lmap_nth _ _ _ 0 0) by len_side ]).

(** ** Number of fan samples: forced odd, so that one sample lies at P = 0 *)
Theorem rayfan_init_odd (n : Z) :
  Z.odd (k_rayfan_init ROps n) = true /\ (n <= k_rayfan_init ROps n <= n + 1)%Z.
Proof.
  unfold k_rayfan_init. cbv zeta.
  destruct (Z.eqb_spec (n mod 2) 0) as [E|E].
  - split; [|lia]. rewrite Z.add_1_r, Z.odd_succ. apply Zeven_bool_iff, Zeven_ex_iff.
    exists (n / 2)%Z. pose proof (Z.div_mod n 2). lia.
  - split; [|lia]. apply Zodd_bool_iff, Zodd_ex_iff. exists (n / 2)%Z.
    pose proof (Z.div_mod n 2). pose proof (Z.mod_pos_bound n 2). lia.
Qed.

Theorem pupilab_init_odd (n : Z) :
  Z.odd (k_pupilab_init ROps n) = true /\ (n <= k_pupilab_init ROps n <= n + 1)%Z.
Proof.
  unfold k_pupilab_init. cbv zeta.
  destruct (Z.eqb_spec (n mod 2) 0) as [E|E].
  - split; [|lia]. rewrite Z.add_1_r, Z.odd_succ. apply Zeven_bool_iff, Zeven_ex_iff.
    exists (n / 2)%Z. pose proof (Z.div_mod n 2). lia.
  - split; [|lia]. apply Zodd_bool_iff, Zodd_ex_iff. exists (n / 2)%Z.
    pose proof (Z.div_mod n 2). pose proof (Z.mod_pos_bound n 2). lia.
Qed.

Lemma seqZ_nth k : forall z i d, (i < k)%nat -> nth i (seqZ z k) d = (z + Z.of_nat i)%Z.
Proof.
  induction k as [|k IH]; intros z i d H; [lia|]. cbn [seqZ].
  destruct i as [|i]; [cbn; lia|]. cbn [nth]. rewrite IH by lia. lia.
Qed.

Lemma seqZ_length k : forall z, List.length (seqZ z k) = k.
Proof. induction k; intros; cbn; auto. Qed.

Lemma nth_map_seqZ {A} (f : Z -> A) k : forall z i d, (i < k)%nat -> nth i (map f (seqZ z k)) d = f (z + Z.of_nat i)%Z.
Proof.
  induction k as [|k IH]; intros z i d H; [lia|]. cbn [seqZ map].
  destruct i as [|i]; [cbn; f_equal; lia|]. cbn [nth]. rewrite IH by lia. f_equal; lia.
Qed.

(** with an odd number 2m+1 of samples, the middle sample of linspace(-1, 1, .) is exactly P = 0 *)
Theorem linspace_mid_zero (m : nat) :
  (1 <= m)%nat -> nth m (linspace (O := ROps) (-1) 1 (S (2 * m))) 7 = 0.
Proof.
  intros Hm. replace (S (2 * m)) with (S (S (2 * m - 1))) by lia. cbn [linspace].
  rewrite app_nth1 by (rewrite map_length, seqZ_length; lia).
  rewrite nth_map_seqZ by lia. rops.
  replace (0 + Z.of_nat m)%Z with (Z.of_nat m) by lia.
  replace (S (2 * m - 1)) with (2 * m)%nat by lia.
  rewrite <- !INR_IZR_INZ. rewrite mult_INR. change (INR 2) with 2.
  assert (INR m <> 0) by (apply not_0_INR; lia). field. assumption.
Qed.

(** ** Ray fan: reference = the fan of the primary wavelength *)
Notation fanR := (fan ROps).

(** a reference wavelength that is not a key of the fan raises (KeyError) *)
Theorem rayfan_key_error (ws : list R) wref n (fans : list fanR) :
  ~ In wref ws -> rayfan_field (O := ROps) ws wref n fans = None.
Proof. intros H. unfold rayfan_field. apply find_wave_none in H. rewrite H. reflexivity. Qed.

(** the reference wavelength chosen by the repaired code: the primary when it is listed ... *)
Theorem rayfan_ref_primary (ws : list R) (wp : R) : In wp ws -> rayfan_ref (O := ROps) ws wp = wp.
Proof.
  intros H. unfold rayfan_ref. destruct (find_wave (O := ROps) ws wp) eqn:E; [reflexivity|].
  apply find_wave_none in E. contradiction.
Qed.

(** ... and in every case one of the listed wavelengths, so the fan of a non-empty explicit list never raises *)
Theorem rayfan_ref_listed (ws : list R) (wp : R) : ws <> [] -> In (rayfan_ref (O := ROps) ws wp) ws.
Proof.
  intros Hne. unfold rayfan_ref. destruct (find_wave (O := ROps) ws wp) as [k|] eqn:E.
  - apply find_wave_some in E. eapply nth_error_In; exact E.
  - destruct ws; [contradiction|left; reflexivity].
Qed.

Theorem rayfan_field_total (ws : list R) (wp : R) n (fans : list fanR) :
  ws <> [] -> List.length fans = List.length ws ->
  rayfan_field (O := ROps) ws (rayfan_ref (O := ROps) ws wp) n fans <> None.
Proof.
  intros Hne Hl. unfold rayfan_field.
  destruct (find_wave (O := ROps) ws (rayfan_ref (O := ROps) ws wp)) as [k|] eqn:E.
  - apply find_wave_some in E.
    assert (Hk : (k < List.length fans)%nat) by (rewrite Hl; apply nth_error_Some; rewrite E; discriminate).
    destruct (nth_error fans k) eqn:Ef; [discriminate|]. apply nth_error_None in Ef. lia.
  - apply find_wave_none in E. exfalso. apply E. apply rayfan_ref_listed. exact Hne.
Qed.

Lemma getZ_nth (l : list R) (i : Z) :
  (0 <= i < Z.of_nat (List.length l))%Z -> getZ (O := ROps) l i = nth (Z.to_nat i) l 0.
Proof.
  intros H. unfold getZ, nthZ. cbv zeta. cbn [T ROps nan_].
  assert (E1 : (i <? 0)%Z = false) by (apply Z.ltb_ge; lia). rewrite !E1. cbv beta iota.
  match goal with |- context [(?a <=? i)%Z] => assert (E2 : (a <=? i)%Z = false) by (apply Z.leb_gt; exact (proj2 H)); rewrite E2 end.
  cbn [orb].
  destruct (nth_error l (Z.to_nat i)) eqn:E.
  - symmetry. apply nth_error_nth. exact E.
  - apply nth_error_None in E. lia.
Qed.

Lemma getZ_lmap_sub (l : list R) (c : R) (i : Z) :
  (0 <= i < Z.of_nat (List.length l))%Z ->
  getZ (O := ROps) (lmap (O := ROps) (fun v => v - c) l) i = getZ (O := ROps) l i - c.
Proof.
  intros H. assert (Hn : (Z.to_nat i < List.length l)%nat) by lia.
  rewrite !getZ_nth by (rewrite ?lmap_length; exact H).
  rewrite (lmap_nth _ _ _ 0 0) by exact Hn. reflexivity.
Qed.

(** when the primary wavelength IS listed: every fan is shifted by the centre sample of the primary
    wavelength's fan, and that centre sample becomes the origin *)
Theorem rayfan_field_spec (ws : list R) wref n (fans out : list fanR) :
  rayfan_field (O := ROps) ws wref n fans = Some out ->
  exists k ref,
    nth_error ws k = Some wref /\ nth_error fans k = Some ref /\
    out = map (fun f => mkFan (lmap (O := ROps) (fun v => v - getZ (O := ROps) (fx ref) (n / 2)) (fx f)) (fix_ f)
                              (lmap (O := ROps) (fun v => v - getZ (O := ROps) (fy ref) (n / 2)) (fy f)) (fiy f)) fans /\
    ((0 <= n / 2 < Z.of_nat (length (fx ref)))%Z ->
       forall r', nth_error out k = Some r' -> getZ (O := ROps) (fx r') (n / 2) = 0) /\
    ((0 <= n / 2 < Z.of_nat (length (fy ref)))%Z ->
       forall r', nth_error out k = Some r' -> getZ (O := ROps) (fy r') (n / 2) = 0).
Proof.
  unfold rayfan_field. destruct (find_wave (O := ROps) ws wref) as [k|] eqn:Ek; [|discriminate].
  destruct (nth_error fans k) as [ref|] eqn:Er; [|discriminate].
  intros H; injection H as <-. exists k, ref.
  split; [apply find_wave_some; exact Ek|]. split; [exact Er|]. split; [reflexivity|].
  split; intros Hr r' Hn; rewrite nth_error_map, Er in Hn; injection Hn as <-; cbn [fx fy];
    rops; rewrite getZ_lmap_sub by exact Hr; rops; lra.
Qed.

(** ** Pupil aberration *)
Theorem pupil_err_spec (d : R) (parax real inten : list R) (i : nat) :
  (i < length parax)%nat -> (i < length real)%nat -> (i < length inten)%nat ->
  nth i inten 0 <> 0 ->
  nth i (pupil_err (O := ROps) d parax real inten) 0 = pupil_aberration (nth i parax 0) (nth i real 0) d.
Proof.
  intros H1 H2 H3 Hi. unfold pupil_err. nth_maps. unfold mask_nan. rops.
  unfold Reqb. destruct (Req_EM_T (nth i inten 0) 0); [contradiction|].
  unfold pupil_aberration. reflexivity.
Qed.

(** ** Distortion (f-tan): the value reported for every field sample *)
Section Distortion.
  Variables (Hy yr : list R) (maxf w : R).
  Let theta := maxf * PI / 180.
  Let tiny := Rlit 1 (-10).
  Let c := nth 0 yr 0 / tan (tiny * theta).

  Theorem distortion_ftan_value :
    exists D, k_distortion_ftan ROps Hy [w] yr maxf = Some [D] /\
      forall i, (i < length Hy)%nat -> (i < length yr)%nat ->
        nth i D 0 = rel_departure (nth i yr 0) (c * tan (nth i Hy 0 * theta)).
  Proof.
    unfold k_distortion_ftan. cbv zeta. cbn [fold_left app]. eexists. split; [reflexivity|].
    intros i H1 H2. rops.
    rewrite (getZ_nth yr 0) by lia. change (Z.to_nat 0) with 0%nat.
    nth_maps. unfold rel_departure, c, tiny, theta. reflexivity.
  Qed.

  (** an ideal f-tan(theta) lens (chief-ray height proportional to the tangent of the field angle,
      at the tiny reference field too) has zero reported distortion at every field sample *)
  Theorem distortion_ftan_ideal (k : R) :
    nth 0 Hy 0 = tiny -> tan (tiny * theta) <> 0 -> k <> 0 ->
    (forall i, (i < length Hy)%nat -> nth i yr 0 = k * tan (nth i Hy 0 * theta)) ->
    (0 < length Hy)%nat -> length yr = length Hy ->
    exists D, k_distortion_ftan ROps Hy [w] yr maxf = Some [D] /\
      forall i, (i < length Hy)%nat -> tan (nth i Hy 0 * theta) <> 0 -> nth i D 0 = 0.
  Proof.
    intros H0 Ht Hk Hall Hn Hl. destruct distortion_ftan_value as [D [HD Hv]].
    exists D. split; [exact HD|]. intros i Hi Hti. rewrite Hv by lia.
    assert (Hc : c = k).
    { unfold c. rewrite (Hall 0%nat Hn), H0. unfold Rdiv. rewrite Rmult_assoc, Rinv_r by exact Ht. apply Rmult_1_r. }
    rewrite Hc, (Hall i Hi). unfold rel_departure, Rdiv. rewrite Rminus_diag_eq by reflexivity. rewrite Rmult_0_r, Rmult_0_l. reflexivity.
  Qed.

  Theorem distortion_ftheta_value :
    exists D, k_distortion_ftheta ROps Hy [w] yr maxf = Some [D] /\
      forall i, (i < length Hy)%nat -> (i < length yr)%nat ->
        nth i D 0 = rel_departure (nth i yr 0) (c * nth i Hy 0 * theta).
  Proof.
    unfold k_distortion_ftheta. cbv zeta. cbn [fold_left app]. eexists. split; [reflexivity|].
    intros i H1 H2. rops.
    rewrite (getZ_nth yr 0) by lia. change (Z.to_nat 0) with 0%nat.
    nth_maps. unfold rel_departure, c, tiny, theta. reflexivity.
  Qed.
  (** object-height fields: the reference is proportional to the height itself *)
  Theorem distortion_height_value :
    exists D, k_distortion_height ROps Hy [w] yr = Some [D] /\
      forall i, (i < List.length Hy)%nat -> (i < List.length yr)%nat ->
        nth i D 0 = rel_departure (nth i yr 0) (nth 0 yr 0 / tiny * nth i Hy 0).
  Proof.
    unfold k_distortion_height. cbv zeta. cbn [fold_left app]. eexists. split; [reflexivity|].
    intros i H1 H2. rops.
    rewrite (getZ_nth yr 0) by lia. change (Z.to_nat 0) with 0%nat.
    nth_maps. unfold rel_departure, tiny. reflexivity.
  Qed.

  (** a finite-conjugate lens without distortion (image height = m x object height, at the tiny reference
      field too) is reported with zero distortion at every field sample *)
  Theorem distortion_height_ideal (m : R) :
    nth 0 Hy 0 = tiny -> m <> 0 ->
    (forall i, (i < List.length Hy)%nat -> nth i yr 0 = m * nth i Hy 0) ->
    (0 < List.length Hy)%nat -> List.length yr = List.length Hy ->
    exists D, k_distortion_height ROps Hy [w] yr = Some [D] /\
      forall i, (i < List.length Hy)%nat -> nth i Hy 0 <> 0 -> nth i D 0 = 0.
  Proof.
    intros H0 Hm Hall Hn Hl. destruct distortion_height_value as [D [HD Hv]].
    exists D. split; [exact HD|]. intros i Hi Hne. rewrite Hv by lia.
    assert (Ht : tiny <> 0) by (unfold tiny, Rlit; cbn; lra).
    rewrite (Hall 0%nat Hn), H0, (Hall i Hi). unfold rel_departure.
    replace (m * tiny / tiny * nth i Hy 0) with (m * nth i Hy 0) by (field; exact Ht).
    unfold Rdiv. rewrite Rminus_diag_eq by reflexivity. rewrite Rmult_0_r, Rmult_0_l. reflexivity.
  Qed.
End Distortion.

(** the model: one curve per traced wavelength; an unknown distortion type raises, whatever the field kind *)
Theorem distortion_model_invalid_type (height : bool) (ty : string) maxf Hy (yr : list R) yrs :
  String.eqb ty "f-tan" = false -> String.eqb ty "f-theta" = false ->
  distortion (O := ROps) height ty maxf Hy (yr :: yrs) = None.
Proof. intros H1 H2. unfold distortion. rewrite H1, H2. reflexivity. Qed.

(** ** Grid distortion *)
Theorem grid_distortion_invalid_type (ty fty : string) x_ref y_ref maxf (Hx Hy xr yr : list R) :
  String.eqb ty "f-tan" = false -> String.eqb ty "f-theta" = false ->
  k_grid_distortion ROps y_ref x_ref ty fty Hx Hy maxf xr yr = None.
Proof. intros H1 H2. unfold k_grid_distortion. rewrite H1, H2. reflexivity. Qed.

Lemma lmap2_nil_r (f : R -> R -> R) (a : list R) : lmap2 (O := ROps) f a [] = [].
Proof. destruct a; reflexivity. Qed.

Lemma lmask_nil_l (m : list bool) : lmask (O := ROps) [] m = [].
Proof. destruct m; reflexivity. Qed.

Lemma lmask_div100 (d r : list R) (m : list bool) :
  lmap2 (O := ROps) Rdiv (lmap (O := ROps) (fun v => 100 * v) (lmask (O := ROps) d m)) (lmask (O := ROps) r m)
  = lmask (O := ROps) (lmap2 (O := ROps) Rdiv (lmap (O := ROps) (fun v => 100 * v) d) r) m.
Proof.
  unfold lmap. revert r m; induction d as [|x d IH]; intros r m.
  - reflexivity.
  - destruct r as [|y r].
    + change (lmask (O := ROps) [] m) with (@nil R). rewrite lmap2_nil_r. reflexivity.
    + destruct m as [|b m]; [reflexivity|]. cbn [lmask map lmap2].
      destruct b; cbn [map lmap2 lmask]; [f_equal|]; apply IH.
Qed.

Lemma lmask_nonempty (l : list R) (m : list bool) :
  List.length l = List.length m -> existsb (fun b => b) m = true -> lmask (O := ROps) l m <> [].
Proof.
  revert m; induction l as [|x l IH]; intros [|b m] Hl He; cbn in *; try discriminate.
  destruct b; [discriminate|]. apply IH; [lia|exact He].
Qed.

(** what every branch of GridDistortion._generate_data does after the predicted grid (xp, yp) is known *)
Definition grid_tail (xp yp xr yr : list R) : R :=
  let delta := lmap (O := ROps) sqrt (lmap2 (O := ROps) Rplus (lmap (O := ROps) (fun v => v * v) (lmap2 (O := ROps) Rminus xp xr))
                                                                   (lmap (O := ROps) (fun v => v * v) (lmap2 (O := ROps) Rminus yp yr))) in
  let rp := lmap (O := ROps) sqrt (lmap2 (O := ROps) Rplus (lmap (O := ROps) (fun v => v * v) xp) (lmap (O := ROps) (fun v => v * v) yp)) in
  let c := Rlit 1 (-9) * max_list (O := ROps) rp in
  let off := map (fun v => Rltb c v) rp in
  if existsb (fun b => b) off
  then max_list (O := ROps) (lmap2 (O := ROps) Rdiv (lmap (O := ROps) (fun v => 100 * v) (lmask (O := ROps) delta off)) (lmask (O := ROps) rp off))
  else 0.

(** the reported maximum is the largest relative departure over the grid points OFF the axis (predicted radius above
    1e-9 of the largest one): a grid point on the axis no longer produces 0/0 *)
Theorem grid_tail_spec (xp yp xr yr : list R) :
  List.length yp = List.length xp -> List.length xr = List.length xp -> List.length yr = List.length xp ->
  exists rel rp off,
    List.length rel = List.length xp /\ List.length rp = List.length xp /\
    off = map (fun r => Rltb (Rlit 1 (-9) * max_list (O := ROps) rp) r) rp /\
    (forall i, (i < List.length xp)%nat ->
       nth i rp 0 = sqrt (nth i xp 0 * nth i xp 0 + nth i yp 0 * nth i yp 0) /\
       nth i rel 0 = 100 * sqrt ((nth i xp 0 - nth i xr 0) * (nth i xp 0 - nth i xr 0) +
                                 (nth i yp 0 - nth i yr 0) * (nth i yp 0 - nth i yr 0)) / nth i rp 0) /\
    (existsb (fun b => b) off = true -> is_max (lmask (O := ROps) rel off) (grid_tail xp yp xr yr)).
Proof.
  intros L1 L2 L3. unfold grid_tail. cbv zeta.
  set (delta := lmap (O := ROps) sqrt (lmap2 (O := ROps) Rplus (lmap (O := ROps) (fun v => v * v) (lmap2 (O := ROps) Rminus xp xr))
                                                                   (lmap (O := ROps) (fun v => v * v) (lmap2 (O := ROps) Rminus yp yr)))).
  set (rp := lmap (O := ROps) sqrt (lmap2 (O := ROps) Rplus (lmap (O := ROps) (fun v => v * v) xp) (lmap (O := ROps) (fun v => v * v) yp))).
  set (off := map (fun v => Rltb (Rlit 1 (-9) * max_list (O := ROps) rp) v) rp).
  assert (Hd : List.length delta = List.length xp) by (unfold delta; len_side).
  assert (Hr : List.length rp = List.length xp) by (unfold rp; len_side).
  exists (lmap2 (O := ROps) Rdiv (lmap (O := ROps) (fun v => 100 * v) delta) rp), rp, off.
  split; [rewrite lmap2_length, lmap_length, Hd, Hr; lia|]. split; [exact Hr|]. split; [reflexivity|]. split.
  - intros i Hi. split.
    + unfold rp. nth_maps. reflexivity.
    + rewrite (lmap2_nth _ _ _ _ 0 0 0) by (rewrite ?lmap_length, ?Hd, ?Hr; lia).
      rewrite (lmap_nth _ _ _ 0 0) by (rewrite Hd; lia).
      unfold delta. nth_maps. reflexivity.
  - intros Hex. rewrite Hex, lmask_div100. apply max_list_is_max. apply lmask_nonempty; [|exact Hex].
    unfold off. rewrite map_length, lmap2_length, lmap_length, Hd, Hr. cbn [T ROps] in *. lia.
Qed.

(** object-height fields: the predicted grid is the traced scale per axis times the field (no mirroring, no tangent) *)
Theorem grid_distortion_height_spec (ty : string) x_ref y_ref maxf (Hx Hy xr yr : list R) :
  orb (String.eqb ty "f-tan") (String.eqb ty "f-theta") = true ->
  let tiny := Rlit 1 (-10) in
  let xp := map (fun h => x_ref / tiny * h) Hx in
  let yp := map (fun h => y_ref / tiny * h) Hy in
  k_grid_distortion ROps y_ref x_ref ty "object_height" Hx Hy maxf xr yr = Some (xr, yr, xp, yp, grid_tail xp yp xr yr).
Proof.
  intros Hty tiny xp yp. unfold k_grid_distortion. rewrite Hty. reflexivity.
Qed.

(** angle fields, f-theta: linear in the field angle, scale per axis from the traced reference rays (the mirrored x of
    angle fields is in the sign of x_ref; nothing is flipped by hand) *)
Theorem grid_distortion_ftheta_spec (fty : string) x_ref y_ref maxf (Hx Hy xr yr : list R) :
  String.eqb fty "object_height" = false ->
  let theta := maxf * PI / 180 in
  let xp := map (fun h => x_ref / (Rlit 1 (-10) * theta) * h * theta) Hx in
  let yp := map (fun h => y_ref / (Rlit 1 (-10) * theta) * h * theta) Hy in
  k_grid_distortion ROps y_ref x_ref "f-theta" fty Hx Hy maxf xr yr = Some (xr, yr, xp, yp, grid_tail xp yp xr yr).
Proof.
  intros Hf theta xp yp.
  assert (Ex : xp = lmap (O := ROps) (fun v => v * theta) (lmap (O := ROps) (fun v => x_ref / (Rlit 1 (-10) * theta) * v) Hx))
    by (unfold xp, lmap; rewrite map_map; reflexivity).
  assert (Ey : yp = lmap (O := ROps) (fun v => v * theta) (lmap (O := ROps) (fun v => y_ref / (Rlit 1 (-10) * theta) * v) Hy))
    by (unfold yp, lmap; rewrite map_map; reflexivity).
  rewrite Ex, Ey. unfold k_grid_distortion. rewrite Hf. reflexivity.
Qed.

Theorem grid_distortion_ftan_spec (fty : string) x_ref y_ref maxf (Hx Hy xr yr : list R) :
  String.eqb fty "object_height" = false ->
  let theta := maxf * PI / 180 in
  let xp := map (fun h => x_ref / tan (Rlit 1 (-10) * theta) * tan (h * theta)) Hx in
  let yp := map (fun h => y_ref / tan (Rlit 1 (-10) * theta) * tan (h * theta)) Hy in
  k_grid_distortion ROps y_ref x_ref "f-tan" fty Hx Hy maxf xr yr = Some (xr, yr, xp, yp, grid_tail xp yp xr yr).
Proof.
  intros Hf theta xp yp.
  assert (Ex : xp = lmap (O := ROps) (fun v => x_ref / tan (Rlit 1 (-10) * theta) * v) (lmap (O := ROps) tan (lmap (O := ROps) (fun v => v * theta) Hx)))
    by (unfold xp, lmap; rewrite !map_map; reflexivity).
  assert (Ey : yp = lmap (O := ROps) (fun v => y_ref / tan (Rlit 1 (-10) * theta) * v) (lmap (O := ROps) tan (lmap (O := ROps) (fun v => v * theta) Hy)))
    by (unfold yp, lmap; rewrite !map_map; reflexivity).
  rewrite Ex, Ey. unfold k_grid_distortion. rewrite Hf. reflexivity.
Qed.

(** ** Field curvature: crossing of a pair of parabasal rays *)
Lemma parabasal_crossing (p1 z1 d1 n1 p2 z2 d2 n2 : R) :
  d1 * n2 - d2 * n1 <> 0 ->
  let t1 := (d2 * z1 - d2 * z2 - n2 * p1 + n2 * p2) / (d1 * n2 - d2 * n1) in
  is_crossing_z p1 z1 d1 n1 p2 z2 d2 n2 (z1 + t1 * n1).
Proof.
  intros HD t1. unfold is_crossing_z.
  exists t1, ((d1 * (z1 - z2) - n1 * (p1 - p2)) / (d1 * n2 - d2 * n1)).
  unfold t1. repeat split; field; exact HD.
Qed.

(** the regenerated kernels return, per field sample, the z offset (from the first ray's point on the
    image surface) of the point where the two parabasal rays cross in the meridional / sagittal plane *)
Theorem fc_tangential_crossing (M1 N1 M2 N2 y01 z01 y02 z02 : list R) (i : nat) :
  (i < length M1)%nat -> (i < length N1)%nat -> (i < length M2)%nat -> (i < length N2)%nat ->
  (i < length y01)%nat -> (i < length z01)%nat -> (i < length y02)%nat -> (i < length z02)%nat ->
  nth i M1 0 * nth i N2 0 - nth i M2 0 * nth i N1 0 <> 0 ->
  is_crossing_z (nth i y01 0) (nth i z01 0) (nth i M1 0) (nth i N1 0)
                (nth i y02 0) (nth i z02 0) (nth i M2 0) (nth i N2 0)
                (nth i z01 0 + nth i (k_fc_tangential ROps M1 N1 M2 N2 y01 z01 y02 z02) 0).
Proof.
  intros. unfold k_fc_tangential. cbv zeta. nth_maps. rops.
  apply parabasal_crossing. assumption.
Qed.

Theorem fc_sagittal_crossing (L1 N1 L2 N2 x01 z01 x02 z02 : list R) (i : nat) :
  (i < length L1)%nat -> (i < length N1)%nat -> (i < length L2)%nat -> (i < length N2)%nat ->
  (i < length x01)%nat -> (i < length z01)%nat -> (i < length x02)%nat -> (i < length z02)%nat ->
  nth i L1 0 * nth i N2 0 - nth i L2 0 * nth i N1 0 <> 0 ->
  is_crossing_z (nth i x01 0) (nth i z01 0) (nth i L1 0) (nth i N1 0)
                (nth i x02 0) (nth i z02 0) (nth i L2 0) (nth i N2 0)
                (nth i z01 0 + nth i (k_fc_sagittal ROps L1 N1 L2 N2 x01 z01 x02 z02) 0).
Proof.
  intros. unfold k_fc_sagittal. cbv zeta. nth_maps. rops.
  apply parabasal_crossing. assumption.
Qed.

(** the interleaved trace (-delta, +delta, -delta, ...) is split into the two rays of every pair *)
Lemma evens_cons (y : R) (l : list R) : evens (O := ROps) (y :: l) = y :: odds (O := ROps) l.
Proof. destruct l; reflexivity. Qed.

Lemma evens_odds_interleave (a b : list R) :
  List.length a = List.length b ->
  let l := flat_map (fun p => [fst p; snd p]) (combine a b) in
  evens (O := ROps) l = a /\ odds (O := ROps) l = b.
Proof.
  revert b; induction a as [|x a IH]; intros [|y b] H; cbn in H; try discriminate; [split; reflexivity|].
  injection H as H. destruct (IH b H) as [E1 E2]. cbn [combine flat_map fst snd app].
  split.
  - rewrite evens_cons. unfold odds at 1. rewrite E1. reflexivity.
  - unfold odds at 1. rewrite evens_cons, E2. reflexivity.
Qed.

(** satisfiability: two rays converging to the point (0, 10) *)
Example fc_example :
  nth 0 (k_fc_tangential ROps [-1/10] [1] [1/10] [1] [1] [0] [-1] [0]) 0 = 10.
Proof. unfold k_fc_tangential. cbn. rops. field. Qed.

(** * C12: ray fan, pupil aberration, distortion, grid distortion, field curvature.
    Theorems about the regenerated kernels of Gen/Analysis.v and the hand model Model/M_C12.v
    over exact reals, for sample lists of ANY length. *)
From Coq Require Import String Reals ZArith List Lra Lia Bool.
From OV Require Import Ops RInst Num.OpsC12 Gen.Analysis Model.M_C12 Spec.S_C12 Lemmas.L_C12_lists.
Import ListNotations.
Local Open Scope R_scope.
Local Open Scope list_scope.

(** rewriting [nth] through elementwise maps, side conditions by length arithmetic *)
Ltac len_side :=
  repeat (rewrite lmap_length || rewrite lmap2_length || rewrite rev_length || rewrite map_length);
  cbn [T ROps] in *; lia.
Ltac nth_maps :=
  repeat (first
    [ erewrite (lmap2_nth _ _ _ _ 0 0 0) by len_side
    | erewrite (lmap_nth _ _ _ 0 0) by len_side ]).

(** ** Number of fan samples: forced odd, so that one sample lies at P = 0 *)
Theorem rayfan_init_odd (n : Z) :
  Z.odd (k_rayfan_init ROps n) = true /\ (n <= k_rayfan_init ROps n <= n + 1)%Z.
Proof.
  unfold k_rayfan_init. cbv zeta.
  destruct (Z.eqb_spec (n mod 2) 0) as [E|E].
  - split; [|lia]. rewrite Z.add_1_r, Z.odd_succ. apply Zeven_bool_iff, Zeven_ex_iff.
    exists (n / 2)%Z. pose proof (Z.div_mod n 2). lia.
  - split; [|lia]. apply Zodd_bool_iff, Zodd_ex_iff. exists (n / 2)%Z.
    pose proof (Z.div_mod n 2). pose proof (Z.mod_pos_bound n 2). lia.
Qed.

Theorem pupilab_init_odd (n : Z) :
  Z.odd (k_pupilab_init ROps n) = true /\ (n <= k_pupilab_init ROps n <= n + 1)%Z.
Proof.
  unfold k_pupilab_init. cbv zeta.
  destruct (Z.eqb_spec (n mod 2) 0) as [E|E].
  - split; [|lia]. rewrite Z.add_1_r, Z.odd_succ. apply Zeven_bool_iff, Zeven_ex_iff.
    exists (n / 2)%Z. pose proof (Z.div_mod n 2). lia.
  - split; [|lia]. apply Zodd_bool_iff, Zodd_ex_iff. exists (n / 2)%Z.
    pose proof (Z.div_mod n 2). pose proof (Z.mod_pos_bound n 2). lia.
Qed.

Lemma seqZ_nth k : forall z i d, (i < k)%nat -> nth i (seqZ z k) d = (z + Z.of_nat i)%Z.
Proof.
  induction k as [|k IH]; intros z i d H; [lia|]. cbn [seqZ].
  destruct i as [|i]; [cbn; lia|]. cbn [nth]. rewrite IH by lia. lia.
Qed.

Lemma seqZ_length k : forall z, List.length (seqZ z k) = k.
Proof. induction k; intros; cbn; auto. Qed.

Lemma nth_map_seqZ {A} (f : Z -> A) k : forall z i d, (i < k)%nat -> nth i (map f (seqZ z k)) d = f (z + Z.of_nat i)%Z.
Proof.
  induction k as [|k IH]; intros z i d H; [lia|]. cbn [seqZ map].
  destruct i as [|i]; [cbn; f_equal; lia|]. cbn [nth]. rewrite IH by lia. f_equal; lia.
Qed.

(** with an odd number 2m+1 of samples, the middle sample of linspace(-1, 1, .) is exactly P = 0 *)
Theorem linspace_mid_zero (m : nat) :
  (1 <= m)%nat -> nth m (linspace (O := ROps) (-1) 1 (S (2 * m))) 7 = 0.
Proof.
  intros Hm. replace (S (2 * m)) with (S (S (2 * m - 1))) by lia. cbn [linspace].
  rewrite app_nth1 by (rewrite map_length, seqZ_length; lia).
  rewrite nth_map_seqZ by lia. rops.
  replace (0 + Z.of_nat m)%Z with (Z.of_nat m) by lia.
  replace (S (2 * m - 1)) with (2 * m)%nat by lia.
  rewrite <- !INR_IZR_INZ. rewrite mult_INR. change (INR 2) with 2.
  assert (INR m <> 0) by (apply not_0_INR; lia). field. assumption.
Qed.

(** ** Ray fan: reference = the fan of the primary wavelength *)
Notation fanR := (fan ROps).

Lemma find_wave_some (ws : list R) wref k :
  find_wave (O := ROps) ws wref = Some k -> nth_error ws k = Some wref.
Proof.
  revert k; induction ws as [|w ws IH]; intros k H; cbn in H; [discriminate|].
  unfold Reqb in H. destruct (Req_EM_T w wref) as [->|N].
  - injection H as <-. reflexivity.
  - destruct (find_wave (O := ROps) ws wref) as [j|] eqn:E; [|discriminate].
    injection H as <-. cbn. apply IH. reflexivity.
Qed.

Lemma find_wave_none (ws : list R) wref :
  find_wave (O := ROps) ws wref = None <-> ~ In wref ws.
Proof.
  induction ws as [|w ws IH]; cbn; [tauto|].
  unfold Reqb. destruct (Req_EM_T w wref) as [->|N].
  - split; [discriminate|]. intros H; exfalso; apply H; left; reflexivity.
  - destruct (find_wave (O := ROps) ws wref) as [j|] eqn:E; cbn.
    + split; [discriminate|]. intros H; exfalso. apply (proj1 IH); [|]; try reflexivity.
      * exfalso. assert (Hn : ~ In wref ws) by (intros Hi; apply H; right; exact Hi).
        apply (proj2 IH) in Hn. discriminate.
      * assert (Hn : ~ In wref ws) by (intros Hi; apply H; right; exact Hi).
        apply (proj2 IH) in Hn. discriminate.
    + split; [|reflexivity]. intros _ [Hw|Hi]; [contradiction|]. apply (proj1 IH); [reflexivity|exact Hi].
Qed.

(** KeyError: the lens's primary wavelength is not among the wavelengths of the fan *)
Theorem rayfan_key_error (ws : list R) wref n (fans : list fanR) :
  ~ In wref ws -> rayfan_field (O := ROps) ws wref n fans = None.
Proof. intros H. unfold rayfan_field. apply find_wave_none in H. rewrite H. reflexivity. Qed.

Lemma getZ_nth (l : list R) (i : Z) :
  (0 <= i < Z.of_nat (List.length l))%Z -> getZ (O := ROps) l i = nth (Z.to_nat i) l 0.
Proof.
  intros H. unfold getZ, nthZ. cbv zeta. cbn [T ROps nan_].
  assert (E1 : (i <? 0)%Z = false) by (apply Z.ltb_ge; lia). rewrite !E1. cbv beta iota.
  match goal with |- context [(?a <=? i)%Z] => assert (E2 : (a <=? i)%Z = false) by (apply Z.leb_gt; exact (proj2 H)); rewrite E2 end.
  cbn [orb].
  destruct (nth_error l (Z.to_nat i)) eqn:E.
  - symmetry. apply nth_error_nth. exact E.
  - apply nth_error_None in E. lia.
Qed.

Lemma getZ_lmap_sub (l : list R) (c : R) (i : Z) :
  (0 <= i < Z.of_nat (List.length l))%Z ->
  getZ (O := ROps) (lmap (O := ROps) (fun v => v - c) l) i = getZ (O := ROps) l i - c.
Proof.
  intros H. assert (Hn : (Z.to_nat i < List.length l)%nat) by lia.
  rewrite !getZ_nth by (rewrite ?lmap_length; exact H).
  rewrite (lmap_nth _ _ _ 0 0) by exact Hn. reflexivity.
Qed.

(** when the primary wavelength IS listed: every fan is shifted by the centre sample of the primary
    wavelength's fan, and that centre sample becomes the origin *)
Theorem rayfan_field_spec (ws : list R) wref n (fans out : list fanR) :
  rayfan_field (O := ROps) ws wref n fans = Some out ->
  exists k ref,
    nth_error ws k = Some wref /\ nth_error fans k = Some ref /\
    out = map (fun f => mkFan (lmap (O := ROps) (fun v => v - getZ (O := ROps) (fx ref) (n / 2)) (fx f)) (fix_ f)
                              (lmap (O := ROps) (fun v => v - getZ (O := ROps) (fy ref) (n / 2)) (fy f)) (fiy f)) fans /\
    ((0 <= n / 2 < Z.of_nat (length (fx ref)))%Z ->
       forall r', nth_error out k = Some r' -> getZ (O := ROps) (fx r') (n / 2) = 0) /\
    ((0 <= n / 2 < Z.of_nat (length (fy ref)))%Z ->
       forall r', nth_error out k = Some r' -> getZ (O := ROps) (fy r') (n / 2) = 0).
Proof.
  unfold rayfan_field. destruct (find_wave (O := ROps) ws wref) as [k|] eqn:Ek; [|discriminate].
  destruct (nth_error fans k) as [ref|] eqn:Er; [|discriminate].
  intros H; injection H as <-. exists k, ref.
  split; [apply find_wave_some; exact Ek|]. split; [exact Er|]. split; [reflexivity|].
  split; intros Hr r' Hn; rewrite nth_error_map, Er in Hn; injection Hn as <-; cbn [fx fy];
    rops; rewrite getZ_lmap_sub by exact Hr; rops; lra.
Qed.

(** ** Pupil aberration *)
Theorem pupil_err_spec (d : R) (parax real inten : list R) (i : nat) :
  (i < length parax)%nat -> (i < length real)%nat -> (i < length inten)%nat ->
  nth i inten 0 <> 0 ->
  nth i (pupil_err (O := ROps) d parax real inten) 0 = pupil_aberration (nth i parax 0) (nth i real 0) d.
Proof.
  intros H1 H2 H3 Hi. unfold pupil_err. nth_maps. unfold mask_nan. rops.
  unfold Reqb. destruct (Req_EM_T (nth i inten 0) 0); [contradiction|].
  unfold pupil_aberration. reflexivity.
Qed.

(** ** Distortion (f-tan): the value reported for every field sample *)
Section Distortion.
  Variables (Hy yr : list R) (maxf w : R).
  Let theta := maxf * PI / 180.
  Let tiny := Rlit 1 (-10).
  Let c := nth 0 yr 0 / tan (tiny * theta).

  Theorem distortion_ftan_value :
    exists D, k_distortion_ftan ROps Hy [w] yr maxf = Some [D] /\
      forall i, (i < length Hy)%nat -> (i < length yr)%nat ->
        nth i D 0 = rel_departure (nth i yr 0) (c * tan (nth i Hy 0 * theta)).
  Proof.
    unfold k_distortion_ftan. cbv zeta. cbn [fold_left app]. eexists. split; [reflexivity|].
    intros i H1 H2. rops.
    rewrite (getZ_nth yr 0) by lia. change (Z.to_nat 0) with 0%nat.
    nth_maps. unfold rel_departure, c, tiny, theta. reflexivity.
  Qed.

  (** an ideal f-tan(theta) lens (chief-ray height proportional to the tangent of the field angle,
      at the tiny reference field too) has zero reported distortion at every field sample *)
  Theorem distortion_ftan_ideal (k : R) :
    nth 0 Hy 0 = tiny -> tan (tiny * theta) <> 0 -> k <> 0 ->
    (forall i, (i < length Hy)%nat -> nth i yr 0 = k * tan (nth i Hy 0 * theta)) ->
    (0 < length Hy)%nat -> length yr = length Hy ->
    exists D, k_distortion_ftan ROps Hy [w] yr maxf = Some [D] /\
      forall i, (i < length Hy)%nat -> tan (nth i Hy 0 * theta) <> 0 -> nth i D 0 = 0.
  Proof.
    intros H0 Ht Hk Hall Hn Hl. destruct distortion_ftan_value as [D [HD Hv]].
    exists D. split; [exact HD|]. intros i Hi Hti. rewrite Hv by lia.
    assert (Hc : c = k).
    { unfold c. rewrite (Hall 0%nat Hn), H0. unfold Rdiv. rewrite Rmult_assoc, Rinv_r by exact Ht. apply Rmult_1_r. }
    rewrite Hc, (Hall i Hi). unfold rel_departure, Rdiv. rewrite Rminus_diag_eq by reflexivity. rewrite Rmult_0_r, Rmult_0_l. reflexivity.
  Qed.

  Theorem distortion_ftheta_value :
    exists D, k_distortion_ftheta ROps Hy [w] yr maxf = Some [D] /\
      forall i, (i < length Hy)%nat -> (i < length yr)%nat ->
        nth i D 0 = rel_departure (nth i yr 0) (c * nth i Hy 0 * theta).
  Proof.
    unfold k_distortion_ftheta. cbv zeta. cbn [fold_left app]. eexists. split; [reflexivity|].
    intros i H1 H2. rops.
    rewrite (getZ_nth yr 0) by lia. change (Z.to_nat 0) with 0%nat.
    nth_maps. unfold rel_departure, c, tiny, theta. reflexivity.
  Qed.
End Distortion.

(** the model: one curve per traced wavelength; an unknown distortion type raises *)
Theorem distortion_model_invalid_type (ty : string) maxf Hy (yr : list R) yrs :
  String.eqb ty "f-tan" = false -> String.eqb ty "f-theta" = false ->
  distortion (O := ROps) ty maxf Hy (yr :: yrs) = None.
Proof. intros H1 H2. unfold distortion. rewrite H1, H2. reflexivity. Qed.

(** ** Grid distortion *)
Theorem grid_distortion_invalid_type (ty : string) y_ref maxf (Hx Hy xr yr : list R) :
  String.eqb ty "f-tan" = false -> String.eqb ty "f-theta" = false ->
  k_grid_distortion ROps ty y_ref maxf Hx Hy xr yr = None.
Proof. intros H1 H2. unfold k_grid_distortion. rewrite H1, H2. reflexivity. Qed.

(** f-theta grid: the predicted grid is linear in the field, x mirrored (reversed row-major data);
    the reported maximum is the largest relative departure over the grid points *)
Theorem grid_distortion_ftheta_spec y_ref maxf (Hx Hy xr yr : list R) :
  let theta := maxf * PI / 180 in
  let c := y_ref / (Rlit 1 (-10) * theta) in
  exists xp yp m,
    k_grid_distortion ROps "f-theta" y_ref maxf Hx Hy xr yr = Some (xr, yr, xp, yp, m) /\
    xp = rev (map (fun h => c * h * theta) Hx) /\ yp = map (fun h => c * h * theta) Hy /\
    (length Hx = length Hy -> length xr = length Hx -> length yr = length Hx -> Hx <> [] ->
     exists rel, is_max rel m /\ length rel = length Hx /\
       forall i, (i < length Hx)%nat ->
         nth i rel 0 = 100 * sqrt ((nth i xp 0 - nth i xr 0) * (nth i xp 0 - nth i xr 0) +
                                   (nth i yp 0 - nth i yr 0) * (nth i yp 0 - nth i yr 0))
                       / sqrt (nth i xp 0 * nth i xp 0 + nth i yp 0 * nth i yp 0)).
Proof.
  intros theta c. unfold k_grid_distortion. cbn [String.eqb Ascii.eqb Bool.eqb]. cbv zeta.
  do 3 eexists. split; [reflexivity|]. rops.
  split; [unfold lmap; rewrite map_map; reflexivity|]. split; [unfold lmap; rewrite map_map; reflexivity|].
  intros L1 L2 L3 Hne.
  assert (Hpos : (0 < List.length Hx)%nat) by (destruct Hx; [contradiction|cbn; lia]).
  match goal with |- exists rel, is_max rel (max_list ?l) /\ _ => exists l; assert (Hlen : List.length l = List.length Hx) end.
  { repeat (rewrite lmap_length || rewrite lmap2_length || rewrite rev_length || rewrite map_length).
    cbn [T ROps] in *. lia. }
  split; [apply max_list_is_max|split; [exact Hlen|]].
  - intros E. rewrite E in Hlen. cbn [List.length] in Hlen. lia.
  - intros i Hi. nth_maps. reflexivity.
Qed.

(** ** Field curvature: crossing of a pair of parabasal rays *)
Lemma parabasal_crossing (p1 z1 d1 n1 p2 z2 d2 n2 : R) :
  d1 * n2 - d2 * n1 <> 0 ->
  let t1 := (d2 * z1 - d2 * z2 - n2 * p1 + n2 * p2) / (d1 * n2 - d2 * n1) in
  is_crossing_z p1 z1 d1 n1 p2 z2 d2 n2 (z1 + t1 * n1).
Proof.
  intros HD t1. unfold is_crossing_z.
  exists t1, ((d1 * (z1 - z2) - n1 * (p1 - p2)) / (d1 * n2 - d2 * n1)).
  unfold t1. repeat split; field; exact HD.
Qed.

(** the regenerated kernels return, per field sample, the z offset (from the first ray's point on the
    image surface) of the point where the two parabasal rays cross in the meridional / sagittal plane *)
Theorem fc_tangential_crossing (M1 N1 M2 N2 y01 z01 y02 z02 : list R) (i : nat) :
  (i < length M1)%nat -> (i < length N1)%nat -> (i < length M2)%nat -> (i < length N2)%nat ->
  (i < length y01)%nat -> (i < length z01)%nat -> (i < length y02)%nat -> (i < length z02)%nat ->
  nth i M1 0 * nth i N2 0 - nth i M2 0 * nth i N1 0 <> 0 ->
  is_crossing_z (nth i y01 0) (nth i z01 0) (nth i M1 0) (nth i N1 0)
                (nth i y02 0) (nth i z02 0) (nth i M2 0) (nth i N2 0)
                (nth i z01 0 + nth i (k_fc_tangential ROps M1 N1 M2 N2 y01 z01 y02 z02) 0).
Proof.
  intros. unfold k_fc_tangential. cbv zeta. nth_maps. rops.
  apply parabasal_crossing. assumption.
Qed.

Theorem fc_sagittal_crossing (L1 N1 L2 N2 x01 z01 x02 z02 : list R) (i : nat) :
  (i < length L1)%nat -> (i < length N1)%nat -> (i < length L2)%nat -> (i < length N2)%nat ->
  (i < length x01)%nat -> (i < length z01)%nat -> (i < length x02)%nat -> (i < length z02)%nat ->
  nth i L1 0 * nth i N2 0 - nth i L2 0 * nth i N1 0 <> 0 ->
  is_crossing_z (nth i x01 0) (nth i z01 0) (nth i L1 0) (nth i N1 0)
                (nth i x02 0) (nth i z02 0) (nth i L2 0) (nth i N2 0)
                (nth i z01 0 + nth i (k_fc_sagittal ROps L1 N1 L2 N2 x01 z01 x02 z02) 0).
Proof.
  intros. unfold k_fc_sagittal. cbv zeta. nth_maps. rops.
  apply parabasal_crossing. assumption.
Qed.

(** the interleaved trace (-delta, +delta, -delta, ...) is split into the two rays of every pair *)
Lemma evens_cons (y : R) (l : list R) : evens (O := ROps) (y :: l) = y :: odds (O := ROps) l.
Proof. destruct l; reflexivity. Qed.

Lemma evens_odds_interleave (a b : list R) :
  List.length a = List.length b ->
  let l := flat_map (fun p => [fst p; snd p]) (combine a b) in
  evens (O := ROps) l = a /\ odds (O := ROps) l = b.
Proof.
  revert b; induction a as [|x a IH]; intros [|y b] H; cbn in H; try discriminate; [split; reflexivity|].
  injection H as H. destruct (IH b H) as [E1 E2]. cbn [combine flat_map fst snd app].
  split.
  - rewrite evens_cons. unfold odds at 1. rewrite E1. reflexivity.
  - unfold odds at 1. rewrite evens_cons, E2. reflexivity.
Qed.

(** satisfiability: two rays converging to the point (0, 10) *)
Example fc_example :
  nth 0 (k_fc_tangential ROps [-1/10] [1] [1/10] [1] [1] [0] [-1] [0]) 0 = 10.
Proof. unfold k_fc_tangential. cbn. rops. field. Qed.

(** * L_C14: proofs for property C14 (optimisers leave the lens at the returned solution).
    Exact reals ([ROps]).  Kernels: Gen/OptVars.v (translated); model: Model/M_C14.v. *)
From Coq Require Import Reals Lra Lia ZArith List Bool Psatz FunctionalExtensionality.
From OV Require Import Ops RInst Gen.OptVars Model.M_C14 Spec.S_C14.
Import ListNotations.
Local Open Scope R_scope.

Ltac kunf := cbv beta delta [k_radius_scale k_radius_inverse_scale k_thickness_scale k_thickness_inverse_scale
                             k_index_scale k_index_inverse_scale k_asphere_scale k_asphere_inverse_scale
                             k_conic_scale k_conic_inverse_scale k_tilt_scale k_tilt_inverse_scale
                             k_decenter_scale k_decenter_inverse_scale k_poly_scale k_poly_inverse_scale
                             k_base_scale k_base_inverse_scale k_operand_fun k_operand_delta
                             k_radius_get_value k_conic_get_value k_thickness_get_value k_index_get_value] iota zeta;
             rops.

Lemma Rlit_1000_m1 : Rlit 1000 (-1) = 100.  Proof. unfold Rlit; simpl; lra. Qed.
Lemma Rlit_100_m1 : Rlit 100 (-1) = 10.     Proof. unfold Rlit; simpl; lra. Qed.
Lemma Rlit_10_m1 : Rlit 10 (-1) = 1.        Proof. unfold Rlit; simpl; lra. Qed.
Lemma Rlit_15_m1 : Rlit 15 (-1) = 15 / 10.  Proof. unfold Rlit; simpl; lra. Qed.
Ltac lits := rewrite ?Rlit_1000_m1, ?Rlit_100_m1, ?Rlit_10_m1, ?Rlit_15_m1 in *.

Lemma pow10_pos (k : Z) : (0 <= k)%Z -> 0 < IZR (10 ^ k).
Proof. intros Hk. apply IZR_lt. apply Z.pow_pos_nonneg; lia. Qed.

(** ** 1. The translated scaling kernels compute the documented units and are mutually inverse *)
Lemma radius_scale_units r : k_radius_scale ROps r = radius_units r.
Proof. kunf; lits; unfold radius_units; lra. Qed.
Lemma thickness_scale_units t : k_thickness_scale ROps t = thickness_units t.
Proof. kunf; lits; unfold thickness_units; lra. Qed.
Lemma index_scale_units n : k_index_scale ROps n = index_units n.
Proof. kunf; lits; unfold index_units; lra. Qed.
Lemma asphere_scale_units k c : k_asphere_scale ROps c k = asphere_units k c.
Proof. kunf; reflexivity. Qed.

Lemma radius_roundtrip x : k_radius_inverse_scale ROps (k_radius_scale ROps x) = x
                           /\ k_radius_scale ROps (k_radius_inverse_scale ROps x) = x.
Proof. kunf; lits; split; field. Qed.
Lemma thickness_roundtrip x : k_thickness_inverse_scale ROps (k_thickness_scale ROps x) = x
                              /\ k_thickness_scale ROps (k_thickness_inverse_scale ROps x) = x.
Proof. kunf; lits; split; field. Qed.
Lemma index_roundtrip x : k_index_inverse_scale ROps (k_index_scale ROps x) = x
                          /\ k_index_scale ROps (k_index_inverse_scale ROps x) = x.
Proof. kunf; lits; split; ring. Qed.
Lemma asphere_roundtrip k x : (0 <= k)%Z ->
  k_asphere_inverse_scale ROps (k_asphere_scale ROps x k) k = x
  /\ k_asphere_scale ROps (k_asphere_inverse_scale ROps x k) k = x.
Proof.
  intros Hk. kunf. assert (H : 0 < IZR (10 ^ (4 + 2 * k))) by (apply pow10_pos; lia).
  split; field; lra.
Qed.
Lemma identity_roundtrips x :
  k_conic_inverse_scale ROps (k_conic_scale ROps x) = x /\ k_tilt_inverse_scale ROps (k_tilt_scale ROps x) = x
  /\ k_decenter_inverse_scale ROps (k_decenter_scale ROps x) = x /\ k_poly_inverse_scale ROps (k_poly_scale ROps x) = x
  /\ k_base_inverse_scale ROps (k_base_scale ROps x) = x.
Proof. kunf; repeat split; reflexivity. Qed.

(** the translated get_value kernels have exactly the shape of the model's [var_get] *)
Lemma get_value_shapes (l : list R) (k : Z) (sc : bool) (t : R) :
  k_radius_get_value ROps l k sc = (if sc then k_radius_scale ROps (@getZ ROps l k) else @getZ ROps l k)
  /\ k_conic_get_value ROps l k = @getZ ROps l k
  /\ k_thickness_get_value ROps t sc = (if sc then k_thickness_scale ROps t else t)
  /\ k_index_get_value ROps l k sc = (if sc then k_index_scale ROps (@getZ ROps l k) else @getZ ROps l k).
Proof. repeat split; reflexivity. Qed.

(** ** 2. Variables of the model *)
Notation var := (@var ROps).
Notation store := (@store ROps).

(** admissible variables: aspheric coefficient numbers are non-negative *)
Definition var_ok (v : var) : Prop := vkind_ v = KAsphere -> (0 <= va v)%Z.

Lemma scale_inverse (v : var) x : var_ok v ->
  inverse_of v (scale_of v x) = x /\ scale_of v (inverse_of v x) = x.
Proof.
  intros Hok. unfold scale_of, inverse_of, var_ok in *. destruct (vkind_ v).
  - apply radius_roundtrip.
  - split; reflexivity.
  - apply thickness_roundtrip.
  - apply index_roundtrip.
  - apply asphere_roundtrip; auto.
  - split; reflexivity.
  - split; reflexivity.
  - split; reflexivity.
  - split; reflexivity.
Qed.

(** scale is strictly increasing (so bounds keep their orientation) *)
Lemma scale_mono (v : var) x y : var_ok v -> (x <= y <-> scale_of v x <= scale_of v y).
Proof.
  intros Hok. unfold scale_of, var_ok in *. destruct (vkind_ v); kunf; lits; try lra.
  assert (H : 0 < IZR (10 ^ (4 + 2 * va v))) by (apply pow10_pos; specialize (Hok eq_refl); lia).
  split; intros; nra.
Qed.

Lemma coord_eqb_eq (c d : coord) : coord_eqb c d = true <-> c = d.
Proof.
  destruct c as [[[k1 s1] a1] b1], d as [[[k2 s2] a2] b2]. unfold coord_eqb.
  rewrite !andb_true_iff, !Z.eqb_eq. split.
  - intros [[[-> ->] ->] ->]; reflexivity.
  - intros H; inversion H; auto.
Qed.
Lemma coord_eqb_refl c : coord_eqb c c = true.
Proof. apply coord_eqb_eq; reflexivity. Qed.
Lemma coord_eqb_neq c d : c <> d -> coord_eqb c d = false.
Proof. intros H. destruct (coord_eqb c d) eqn:E; auto. apply coord_eqb_eq in E. contradiction. Qed.

Lemma put_same (s : store) c x : put s c x c = x.
Proof. unfold put. rewrite coord_eqb_refl. reflexivity. Qed.
Lemma put_other (s : store) c d x : c <> d -> put s c x d = s d.
Proof. intros H. unfold put. rewrite coord_eqb_neq; auto. Qed.
Lemma put_id (s : store) c : put s c (s c) = s.
Proof.
  apply functional_extensionality. intros d. unfold put.
  destruct (coord_eqb c d) eqn:E; auto. apply coord_eqb_eq in E. subst; reflexivity.
Qed.

(** set then read returns the value set *)
Theorem set_get (v : var) (x : R) (s : store) : var_ok v -> var_get (var_set v x s) v = x.
Proof.
  intros Hok. unfold var_get, var_set. rewrite put_same.
  destruct (vscaled v); auto. apply scale_inverse; auto.
Qed.
(** ... and leaves every variable addressing another lens parameter untouched *)
Theorem set_get_other (v w : var) (x : R) (s : store) :
  vcoord w <> vcoord v -> var_get (var_set v x s) w = var_get s w.
Proof. intros H. unfold var_get, var_set. rewrite put_other; auto. Qed.
(** writing back the value just read does not change the lens *)
Lemma set_current (v : var) (s : store) : var_ok v -> var_set v (var_get s v) s = s.
Proof.
  intros Hok. unfold var_get, var_set.
  destruct (vscaled v).
  - destruct (scale_inverse v (s (vcoord v)) Hok) as [-> _]. apply put_id.
  - apply put_id.
Qed.

(** ** 3. Bounds are expressed in the units of the value *)
Definition raw_within (v : var) (r : R) : Prop := within (vmin v, vmax v) r.

Theorem bounds_units (v : var) (s : store) : var_ok v ->
  (within (bounds_spec v) (var_get s v) <-> raw_within v (s (vcoord v))).
Proof.
  intros Hok. unfold bounds_spec, bounds_impl, raw_within, within, var_get.
  destruct (vscaled v); cbn [fst snd]; [|tauto].
  destruct (vmin v) as [lo|], (vmax v) as [hi|]; cbn [option_map];
    rewrite <- ?(scale_mono v) by assumption; tauto.
Qed.
(** the code's [bounds] is the specified one whenever scaling is applied (and for every identity-scaled class) *)
Lemma bounds_impl_scaled (v : var) : vscaled v = true -> bounds_impl v = bounds_spec v.
Proof. intros H. unfold bounds_spec. rewrite H. reflexivity. Qed.
Lemma bounds_impl_identity (v : var) :
  match vkind_ v with KRadius | KThickness | KIndex | KAsphere => False | _ => True end ->
  bounds_impl v = bounds_spec v.
Proof.
  intros H. unfold bounds_spec, bounds_impl. destruct (vscaled v); auto.
  unfold scale_of. destruct (vkind_ v); try contradiction;
    destruct (vmin v), (vmax v); reflexivity.
Qed.

(** ** 4. Merit function *)
Lemma fold_add_shift (l : list R) (a : R) : fold_left Rplus l a = a + fold_left Rplus l 0.
Proof.
  revert a. induction l as [|x l IH]; intros a; cbn [fold_left].
  - lra.
  - rewrite (IH (a + x)), (IH (0 + x)). lra.
Qed.
Theorem merit_is_sum (l : list (R * R * R)) : @sum_squared ROps l = merit_spec l.
Proof.
  unfold sum_squared, sum_list. rops. induction l as [|[[w t] v] l IH].
  - reflexivity.
  - cbn [fun_array map fold_left merit_spec]. rewrite fold_add_shift.
    unfold fun_array in IH. rewrite IH. unfold op_fun. kunf. lra.
Qed.
(** the objective handed to SciPy is that sum (the NaN guard never fires on reals) *)
Theorem fun_is_merit (l : list (R * R * R)) : @fun_guard ROps (@sum_squared ROps l) = merit_spec l.
Proof. unfold fun_guard. rops. apply merit_is_sum. Qed.
Lemma merit_nonneg (l : list (R * R * R)) : 0 <= merit_spec l.
Proof. induction l as [|[[w t] v] l IH]; cbn [merit_spec]; [lra|]. nra. Qed.

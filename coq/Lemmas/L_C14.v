(** * L_C14: proofs for property C14 (optimisers leave the lens at the returned solution).
    Exact reals ([ROps]).  Kernels: Gen/OptVars.v (translated); model: Model/M_C14.v. *)
From Coq Require Import Reals Lra Lia ZArith List Bool Psatz FunctionalExtensionality.
From OV Require Import Ops RInst Gen.OptVars Model.M_C14 Spec.S_C14.
Import ListNotations.
Local Open Scope R_scope.

Ltac kunf := cbv beta delta [k_radius_scale k_radius_inverse_scale k_thickness_scale k_thickness_inverse_scale
                             k_index_scale k_index_inverse_scale k_asphere_scale k_asphere_inverse_scale
                             k_conic_scale k_conic_inverse_scale k_tilt_scale k_tilt_inverse_scale
                             k_decenter_scale k_decenter_inverse_scale k_poly_scale k_poly_inverse_scale
                             k_base_scale k_base_inverse_scale k_operand_fun k_operand_delta
                             k_radius_get_value k_conic_get_value k_thickness_get_value k_index_get_value] iota zeta;
             rops.

Lemma Rlit_1000_m1 : Rlit 1000 (-1) = 100.  Proof. unfold Rlit; simpl; lra. Qed.
Lemma Rlit_100_m1 : Rlit 100 (-1) = 10.     Proof. unfold Rlit; simpl; lra. Qed.
Lemma Rlit_10_m1 : Rlit 10 (-1) = 1.        Proof. unfold Rlit; simpl; lra. Qed.
Lemma Rlit_15_m1 : Rlit 15 (-1) = 15 / 10.  Proof. unfold Rlit; simpl; lra. Qed.
Ltac lits := rewrite ?Rlit_1000_m1, ?Rlit_100_m1, ?Rlit_10_m1, ?Rlit_15_m1 in *.

Lemma pow10_pos (k : Z) : (0 <= k)%Z -> 0 < IZR (10 ^ k).
Proof. intros Hk. apply IZR_lt. apply Z.pow_pos_nonneg; lia. Qed.

(** ** 1. The translated scaling kernels compute the documented units and are mutually inverse *)
Lemma radius_scale_units r : k_radius_scale ROps r = radius_units r.
Proof. kunf; lits; unfold radius_units; lra. Qed.
Lemma thickness_scale_units t : k_thickness_scale ROps t = thickness_units t.
Proof. kunf; lits; unfold thickness_units; lra. Qed.
Lemma index_scale_units n : k_index_scale ROps n = index_units n.
Proof. kunf; lits; unfold index_units; lra. Qed.
Lemma asphere_scale_units k c : k_asphere_scale ROps c k = asphere_units k c.
Proof. kunf; reflexivity. Qed.

Lemma radius_roundtrip x : k_radius_inverse_scale ROps (k_radius_scale ROps x) = x
                           /\ k_radius_scale ROps (k_radius_inverse_scale ROps x) = x.
Proof. kunf; lits; split; field. Qed.
Lemma thickness_roundtrip x : k_thickness_inverse_scale ROps (k_thickness_scale ROps x) = x
                              /\ k_thickness_scale ROps (k_thickness_inverse_scale ROps x) = x.
Proof. kunf; lits; split; field. Qed.
Lemma index_roundtrip x : k_index_inverse_scale ROps (k_index_scale ROps x) = x
                          /\ k_index_scale ROps (k_index_inverse_scale ROps x) = x.
Proof. kunf; lits; split; ring. Qed.
Lemma asphere_roundtrip k x : (0 <= k)%Z ->
  k_asphere_inverse_scale ROps (k_asphere_scale ROps x k) k = x
  /\ k_asphere_scale ROps (k_asphere_inverse_scale ROps x k) k = x.
Proof.
  intros Hk. kunf. assert (H : 0 < IZR (10 ^ (4 + 2 * k))) by (apply pow10_pos; lia).
  split; field; lra.
Qed.
Lemma identity_roundtrips x :
  k_conic_inverse_scale ROps (k_conic_scale ROps x) = x /\ k_tilt_inverse_scale ROps (k_tilt_scale ROps x) = x
  /\ k_decenter_inverse_scale ROps (k_decenter_scale ROps x) = x /\ k_poly_inverse_scale ROps (k_poly_scale ROps x) = x
  /\ k_base_inverse_scale ROps (k_base_scale ROps x) = x.
Proof. kunf; repeat split; reflexivity. Qed.

(** the translated get_value kernels have exactly the shape of the model's [var_get] *)
Lemma get_value_shapes (l : list R) (k : Z) (sc : bool) (t : R) :
  k_radius_get_value ROps l k sc = (if sc then k_radius_scale ROps (@getZ ROps l k) else @getZ ROps l k)
  /\ k_conic_get_value ROps l k = @getZ ROps l k
  /\ k_thickness_get_value ROps t sc = (if sc then k_thickness_scale ROps t else t)
  /\ k_index_get_value ROps l k sc = (if sc then k_index_scale ROps (@getZ ROps l k) else @getZ ROps l k).
Proof. repeat split; reflexivity. Qed.

(** ** 2. Variables of the model *)
Notation var := (@var ROps).
Notation store := (@store ROps).

(** admissible variables: aspheric coefficient numbers are non-negative *)
Definition var_ok (v : var) : Prop := vkind_ v = KAsphere -> (0 <= va v)%Z.

Lemma scale_inverse (v : var) x : var_ok v ->
  inverse_of v (scale_of v x) = x /\ scale_of v (inverse_of v x) = x.
Proof.
  intros Hok. unfold scale_of, inverse_of, var_ok in *. destruct (vkind_ v).
  - apply radius_roundtrip.
  - split; reflexivity.
  - apply thickness_roundtrip.
  - apply index_roundtrip.
  - apply asphere_roundtrip; auto.
  - split; reflexivity.
  - split; reflexivity.
  - split; reflexivity.
  - split; reflexivity.
Qed.

(** scale is strictly increasing (so bounds keep their orientation) *)
Lemma scale_mono (v : var) x y : var_ok v -> (x <= y <-> scale_of v x <= scale_of v y).
Proof.
  intros Hok. unfold scale_of, var_ok in *. destruct (vkind_ v); kunf; lits; try lra.
  assert (H : 0 < IZR (10 ^ (4 + 2 * va v))) by (apply pow10_pos; specialize (Hok eq_refl); lia).
  split; intros; nra.
Qed.

Lemma coord_eqb_eq (c d : coord) : coord_eqb c d = true <-> c = d.
Proof.
  destruct c as [[[k1 s1] a1] b1], d as [[[k2 s2] a2] b2]. unfold coord_eqb.
  rewrite !andb_true_iff, !Z.eqb_eq. split.
  - intros [[[-> ->] ->] ->]; reflexivity.
  - intros H; inversion H; auto.
Qed.
Lemma coord_eqb_refl c : coord_eqb c c = true.
Proof. apply coord_eqb_eq; reflexivity. Qed.
Lemma coord_eqb_neq c d : c <> d -> coord_eqb c d = false.
Proof. intros H. destruct (coord_eqb c d) eqn:E; auto. apply coord_eqb_eq in E. contradiction. Qed.

Lemma put_same (s : store) c x : put s c x c = x.
Proof. unfold put. rewrite coord_eqb_refl. reflexivity. Qed.
Lemma put_other (s : store) c d x : c <> d -> put s c x d = s d.
Proof. intros H. unfold put. rewrite coord_eqb_neq; auto. Qed.
Lemma put_id (s : store) c : put s c (s c) = s.
Proof.
  apply functional_extensionality. intros d. unfold put.
  destruct (coord_eqb c d) eqn:E; auto. apply coord_eqb_eq in E. subst; reflexivity.
Qed.

(** set then read returns the value set *)
Theorem set_get (v : var) (x : R) (s : store) : var_ok v -> var_get (var_set v x s) v = x.
Proof.
  intros Hok. unfold var_get, var_set. rewrite put_same.
  destruct (vscaled v); auto. apply scale_inverse; auto.
Qed.
(** ... and leaves every variable addressing another lens parameter untouched *)
Theorem set_get_other (v w : var) (x : R) (s : store) :
  vcoord w <> vcoord v -> var_get (var_set v x s) w = var_get s w.
Proof. intros H. unfold var_get, var_set. rewrite put_other; auto. Qed.
(** writing back the value just read does not change the lens *)
Lemma set_current (v : var) (s : store) : var_ok v -> var_set v (var_get s v) s = s.
Proof.
  intros Hok. unfold var_get, var_set.
  destruct (vscaled v).
  - destruct (scale_inverse v (s (vcoord v)) Hok) as [-> _]. apply put_id.
  - apply put_id.
Qed.

(** ** 3. Bounds are expressed in the units of the value *)
Definition raw_within (v : var) (r : R) : Prop := within (vmin v, vmax v) r.

Theorem bounds_units (v : var) (s : store) : var_ok v ->
  (within (bounds_spec v) (var_get s v) <-> raw_within v (s (vcoord v))).
Proof.
  intros Hok. unfold bounds_spec, bounds_impl, raw_within, within, var_get.
  destruct (vscaled v); cbn [fst snd]; [|tauto].
  destruct (vmin v) as [lo|], (vmax v) as [hi|]; cbn [option_map];
    rewrite <- ?(scale_mono v) by assumption; tauto.
Qed.
(** the code's [bounds] is the specified one whenever scaling is applied (and for every identity-scaled class) *)
Lemma bounds_impl_scaled (v : var) : vscaled v = true -> bounds_impl v = bounds_spec v.
Proof. intros H. unfold bounds_spec. rewrite H. reflexivity. Qed.
Lemma bounds_impl_identity (v : var) :
  match vkind_ v with KRadius | KThickness | KIndex | KAsphere => False | _ => True end ->
  bounds_impl v = bounds_spec v.
Proof.
  intros H. unfold bounds_spec, bounds_impl. destruct (vscaled v); auto.
  unfold scale_of. destruct (vkind_ v); try contradiction;
    destruct (vmin v), (vmax v); reflexivity.
Qed.

(** ** 4. Merit function *)
Lemma fold_add_shift (l : list R) (a : R) : fold_left Rplus l a = a + fold_left Rplus l 0.
Proof.
  revert a. induction l as [|x l IH]; intros a; cbn [fold_left].
  - lra.
  - rewrite (IH (a + x)), (IH (0 + x)). lra.
Qed.
Theorem merit_is_sum (l : list (R * R * R)) : @sum_squared ROps l = merit_spec l.
Proof.
  unfold sum_squared, sum_list. rops. induction l as [|[[w t] v] l IH].
  - reflexivity.
  - cbn [fun_array map fold_left merit_spec]. rewrite fold_add_shift.
    unfold fun_array in IH. rewrite IH. unfold op_fun. kunf. ring.
Qed.
(** the objective handed to SciPy is that sum (the NaN guard never fires on reals) *)
Theorem fun_is_merit (l : list (R * R * R)) : @fun_guard ROps (@sum_squared ROps l) = merit_spec l.
Proof. unfold fun_guard. rops. apply merit_is_sum. Qed.
Lemma merit_nonneg (l : list (R * R * R)) : 0 <= merit_spec l.
Proof. induction l as [|[[w t] v] l IH]; cbn [merit_spec]; [lra|]. pose proof (pow2_ge_0 (w * (v - t))). lra. Qed.

(** combined statements quoted by Props/C14.v *)
Theorem scale_roundtrips :
  (forall x, k_radius_inverse_scale ROps (k_radius_scale ROps x) = x /\ k_radius_scale ROps (k_radius_inverse_scale ROps x) = x)
  /\ (forall x, k_thickness_inverse_scale ROps (k_thickness_scale ROps x) = x /\ k_thickness_scale ROps (k_thickness_inverse_scale ROps x) = x)
  /\ (forall x, k_index_inverse_scale ROps (k_index_scale ROps x) = x /\ k_index_scale ROps (k_index_inverse_scale ROps x) = x)
  /\ (forall k x, (0 <= k)%Z -> k_asphere_inverse_scale ROps (k_asphere_scale ROps x k) k = x
                               /\ k_asphere_scale ROps (k_asphere_inverse_scale ROps x k) k = x)
  /\ (forall x, k_conic_inverse_scale ROps (k_conic_scale ROps x) = x /\ k_tilt_inverse_scale ROps (k_tilt_scale ROps x) = x
                /\ k_decenter_inverse_scale ROps (k_decenter_scale ROps x) = x /\ k_poly_inverse_scale ROps (k_poly_scale ROps x) = x
                /\ k_base_inverse_scale ROps (k_base_scale ROps x) = x).
Proof.
  repeat apply conj; [exact radius_roundtrip | exact thickness_roundtrip | exact index_roundtrip
                     | exact asphere_roundtrip | exact identity_roundtrips].
Qed.
Theorem scale_units :
  (forall r, k_radius_scale ROps r = radius_units r) /\ (forall t, k_thickness_scale ROps t = thickness_units t)
  /\ (forall n, k_index_scale ROps n = index_units n) /\ (forall k c, k_asphere_scale ROps c k = asphere_units k c).
Proof. repeat apply conj; [exact radius_scale_units | exact thickness_scale_units | exact index_scale_units | exact asphere_scale_units]. Qed.
Theorem faithful_handle :
  (forall (v : var) (x : R) (s : store), var_ok v -> var_get (var_set v x s) v = x)
  /\ (forall (v w : var) (x : R) (s : store), vcoord w <> vcoord v -> var_get (var_set v x s) w = var_get s w)
  /\ (forall (v : var) (x : R), var_ok v -> inverse_of v (scale_of v x) = x /\ scale_of v (inverse_of v x) = x).
Proof. repeat apply conj; [exact set_get | exact set_get_other | exact scale_inverse]. Qed.
Theorem bounds_in_value_units :
  (forall (v : var) (s : store), var_ok v -> (within (bounds_spec v) (var_get s v) <-> raw_within v (s (vcoord v))))
  /\ (forall v : var, vscaled v = true -> bounds_impl v = bounds_spec v)
  /\ (forall v : var, match vkind_ v with KRadius | KThickness | KIndex | KAsphere => False | _ => True end ->
                      bounds_impl v = bounds_spec v).
Proof. repeat apply conj; [exact bounds_units | exact bounds_impl_scaled | exact bounds_impl_identity]. Qed.
Theorem merit_function :
  (forall l : list (R * R * R), @sum_squared ROps l = merit_spec l)
  /\ (forall l : list (R * R * R), @fun_guard ROps (@sum_squared ROps l) = merit_spec l).
Proof. split; [exact merit_is_sum | exact fun_is_merit]. Qed.

Lemma Forall2_map_in {A B} (P : A -> B -> Prop) (f : A -> B) (l : list A) :
  Forall2 P l (map f l) -> forall v, In v l -> P v (f v).
Proof.
  induction l as [|w ws IH]; intros H v Hv; [contradiction|].
  cbn [map] in H. inversion H; subst. destruct Hv as [->|Hv]; auto.
Qed.

(** ** 5. The optimise / undo state machine *)
Section Machine.
  (** Optic.update() (pickups, then solves) is an arbitrary function of the lens that
      (U1) writes only the pickup / solve targets and (U2) computes them from the rest of the
      lens (no hysteresis).  [upd_pickups_frame] / [upd_pickups_dep] below show that the pickup
      manager satisfies both when no pickup reads another pickup's target. *)
  Variable upd : store -> store.
  Variable tgt : coord -> bool.
  Hypothesis U1 : forall (s : store) c, tgt c = false -> upd s c = s c.
  Hypothesis U2 : forall s s' : store, (forall c, tgt c = false -> s c = s' c) -> upd s = upd s'.

  Variable vars : list var.
  Hypothesis Vok : Forall var_ok vars.
  Hypothesis Vnodup : NoDup (map (@vcoord ROps) vars).                     (* distinct lens parameters *)
  Hypothesis Vfree : forall v, In v vars -> tgt (vcoord v) = false.   (* no variable is a pickup/solve target *)

  Notation n := (length vars).
  Notation eval_point := (eval_point upd vars).
  Notation run_trace := (run_trace upd vars).
  Notation trace := (@trace ROps).

  (** pickups and solves are satisfied = update() has nothing left to do *)
  Definition sat (s : store) : Prop := upd s = s.
  (** same prescription outside the variables and the pickup/solve targets *)
  Definition frame_eq (s s' : store) : Prop :=
    forall c, tgt c = false -> ~ In c (map (@vcoord ROps) vars) -> s c = s' c.

  Lemma sat_upd s : sat (upd s).
  Proof. unfold sat. apply U2. intros c Hc. apply U1; auto. Qed.

  Lemma frame_refl s : frame_eq s s.  Proof. intros c _ _; reflexivity. Qed.
  Lemma frame_sym s s' : frame_eq s s' -> frame_eq s' s.
  Proof. intros H c H1 H2. symmetry. apply H; auto. Qed.
  Lemma frame_trans s s' s'' : frame_eq s s' -> frame_eq s' s'' -> frame_eq s s''.
  Proof. intros H H' c H1 H2. rewrite H by auto. apply H'; auto. Qed.

  (** *** setv / getv on arbitrary variable lists *)
  Lemma setv_cons v vs x xs (s : store) : setv (v :: vs) (x :: xs) s = setv vs xs (var_set v x s).
  Proof. reflexivity. Qed.

  Lemma setv_frame vs : forall x (s : store) c, ~ In c (map (@vcoord ROps) vs) -> setv vs x s c = s c.
  Proof.
    induction vs as [|v vs IH]; intros x s c Hc.
    - reflexivity.
    - destruct x as [|a x]; [reflexivity|]. rewrite setv_cons. rewrite IH.
      + unfold var_set. apply put_other. intros E. apply Hc. left. auto.
      + intros Hin. apply Hc. right. exact Hin.
  Qed.

  (** the value written at a coordinate only depends on the vector (last write wins in both lenses) *)
  Lemma setv_determined vs : forall x (s s' : store) c, length x = length vs ->
    (~ In c (map (@vcoord ROps) vs) -> s c = s' c) -> setv vs x s c = setv vs x s' c.
  Proof.
    induction vs as [|v vs IH]; intros x s s' c Hlen H.
    - destruct x; [|discriminate]. cbn. apply H. intros [].
    - destruct x as [|a x]; [discriminate|]. rewrite !setv_cons. apply IH.
      + cbn in Hlen. injection Hlen; auto.
      + intros Hnot. unfold var_set, put. destruct (coord_eqb (vcoord v) c) eqn:E; auto.
        apply H. intros [Hin|Hin]; [|contradiction].
        rewrite <- Hin, coord_eqb_refl in E. discriminate.
  Qed.

  Lemma getv_setv vs : forall (x : list R) (s : store), Forall var_ok vs -> NoDup (map (@vcoord ROps) vs) ->
    length x = length vs -> getv vs (setv vs x s) = x.
  Proof.
    induction vs as [|v vs IH]; intros x s Hok Hnd Hlen.
    - destruct x; [reflexivity|discriminate].
    - destruct x as [|a x]; [discriminate|]. inversion Hok; subst. inversion Hnd; subst.
      rewrite setv_cons. cbn [getv map]. f_equal.
      + unfold var_get. rewrite setv_frame by assumption. fold (var_get (var_set v a s) v).
        apply set_get; assumption.
      + apply IH; auto.
  Qed.

  Lemma setv_getv vs : forall (s : store), Forall var_ok vs -> setv vs (getv vs s) s = s.
  Proof.
    induction vs as [|v vs IH]; intros s Hok.
    - reflexivity.
    - inversion Hok; subst. cbn [getv map]. rewrite setv_cons. rewrite set_current by assumption.
      apply IH; assumption.
  Qed.

  Lemma getv_length vs (s : store) : length (getv vs s) = length vs.
  Proof. unfold getv. apply map_length. Qed.

  Lemma getv_ext vs (s s' : store) : (forall v, In v vs -> s (vcoord v) = s' (vcoord v)) -> getv vs s = getv vs s'.
  Proof.
    intros H. unfold getv. apply map_ext_in. intros v Hv. unfold var_get. rewrite (H v Hv). reflexivity.
  Qed.

  (** update() does not move a variable *)
  Lemma getv_upd (s : store) : getv vars (upd s) = getv vars s.
  Proof. apply getv_ext. intros v Hv. apply U1. apply Vfree; assumption. Qed.

  (** *** one objective evaluation *)
  Lemma eval_point_getv x (s : store) : length x = n -> getv vars (eval_point x s) = x.
  Proof. intros Hlen. unfold M_C14.eval_point. rewrite getv_upd. apply getv_setv; assumption. Qed.

  Lemma eval_point_sat x s : sat (eval_point x s).
  Proof. apply sat_upd. Qed.

  Lemma eval_point_frame x s : frame_eq s (eval_point x s).
  Proof.
    intros c H1 H2. unfold M_C14.eval_point. rewrite U1 by assumption. rewrite setv_frame by assumption. reflexivity.
  Qed.

  (** no history: the lens after evaluating x is the same from every lens with this prescription *)
  Lemma eval_point_indep x s s' : length x = n -> frame_eq s s' -> eval_point x s = eval_point x s'.
  Proof.
    intros Hlen Hf. unfold M_C14.eval_point. apply U2. intros c Hc.
    apply setv_determined; [assumption|]. intros Hnot. apply Hf; assumption.
  Qed.

  Lemma eval_point_current s : sat s -> eval_point (getv vars s) s = s.
  Proof. intros Hs. unfold M_C14.eval_point. rewrite setv_getv by assumption. exact Hs. Qed.

  (** well-formed traces: every evaluated point has one entry per variable *)
  Definition wf_trace (tr : trace) : Prop := Forall (fun e : bool * list R => length (snd e) = n) tr.

  Lemma run_trace_frame tr : forall s, frame_eq s (run_trace tr s).
  Proof.
    induction tr as [|[b x] tr IH]; intros s.
    - apply frame_refl.
    - cbn [M_C14.run_trace fold_left fst snd]. destruct b.
      + eapply frame_trans; [apply eval_point_frame | apply IH].
      + apply IH.
  Qed.

  Lemma run_trace_sat tr : forall s, sat s -> sat (run_trace tr s).
  Proof.
    induction tr as [|[b x] tr IH]; intros s Hs.
    - exact Hs.
    - cbn [M_C14.run_trace fold_left fst snd]. destruct b; apply IH; [apply eval_point_sat | exact Hs].
  Qed.

  Lemma run_trace_app tr tr' s : run_trace (tr ++ tr') s = run_trace tr' (run_trace tr s).
  Proof. unfold M_C14.run_trace. apply fold_left_app. Qed.

  (** *** optimize() as written leaves the lens at the last point evaluated in the parent process *)
  Theorem impl_state_is_last_parent_eval tr tr' x xstar s :
    length x = n -> Forall (fun e : bool * list R => fst e = false) tr' ->
    getv vars (optimize_impl upd vars (tr ++ (true, x) :: tr') xstar s) = x.
  Proof.
    intros Hlen Hw. unfold optimize_impl. rewrite run_trace_app. cbn [M_C14.run_trace fold_left fst snd].
    assert (Hid : forall s0, fold_left (fun (s1 : store) (e : bool * list R) =>
                      if fst e then eval_point (snd e) s1 else s1) tr' s0 = s0).
    { induction Hw as [|[b y] tr' Hb _ IH]; intros s0; [reflexivity|].
      cbn [fold_left]. cbn in Hb. rewrite Hb. apply IH. }
    rewrite Hid. apply eval_point_getv. exact Hlen.
  Qed.
  (** ... and does not move it at all when every evaluation ran in a worker process *)
  Theorem impl_state_workers_only tr xstar s :
    Forall (fun e : bool * list R => fst e = false) tr -> optimize_impl upd vars tr xstar s = s.
  Proof.
    intros Hw. unfold optimize_impl. revert s.
    induction Hw as [|[b y] tr Hb _ IH]; intros s; [reflexivity|].
    cbn [M_C14.run_trace fold_left]. cbn in Hb. rewrite Hb. apply IH.
  Qed.

  Theorem impl_state tr tr' x xstar s :
    (length x = n -> Forall (fun e : bool * list R => fst e = false) tr' ->
     getv vars (optimize_impl upd vars (tr ++ (true, x) :: tr') xstar s) = x)
    /\ (Forall (fun e : bool * list R => fst e = false) tr -> optimize_impl upd vars tr xstar s = s).
  Proof. split; [apply impl_state_is_last_parent_eval | apply impl_state_workers_only]. Qed.

  (** *** the repaired optimize(): the lens is in the state of the returned solution, for every
      evaluation schedule and every split of the evaluations between parent and workers *)
  Theorem fixed_state_is_returned_solution tr xstar s :
    length xstar = n -> getv vars (optimize_fixed upd vars tr xstar s) = xstar.
  Proof. intros Hlen. unfold optimize_fixed. apply eval_point_getv. exact Hlen. Qed.

  Theorem fixed_pickups_solves_satisfied tr xstar s : sat (optimize_fixed upd vars tr xstar s).
  Proof. unfold optimize_fixed. apply eval_point_sat. Qed.

  (** the lens the optimiser returns is the lens on which x* was evaluated, whichever process
      evaluated it (any lens [s'] with the prescription of the start) *)
  Theorem fixed_lens_is_evaluated_lens tr xstar s s' :
    length xstar = n -> frame_eq s s' ->
    optimize_fixed upd vars tr xstar s = eval_point xstar s'.
  Proof.
    intros Hlen Hf. unfold optimize_fixed. apply eval_point_indep; [assumption|].
    eapply frame_trans; [apply frame_sym, run_trace_frame | exact Hf].
  Qed.

  (** re-evaluating the merit function reproduces the returned objective, and it is not worse than at the start.
      [fstar] / [f0]: the values the objective returned when x* / x0 were evaluated (contract of the
      external minimiser, validated per front end by the harness: x* and x0 were evaluated, fstar <= f0) *)
  Variable ops : list (@operand ROps).
  Notation M := (@merit ROps ops).

  Theorem fixed_merit_is_returned_objective tr xstar fstar s s' :
    length xstar = n -> frame_eq s s' ->
    fstar = fun_guard (M (eval_point xstar s')) ->
    fun_guard (M (optimize_fixed upd vars tr xstar s)) = fstar.
  Proof. intros Hlen Hf ->. rewrite (fixed_lens_is_evaluated_lens tr xstar s s' Hlen Hf). reflexivity. Qed.

  Theorem fixed_not_worse tr xstar fstar f0 s s' s'' :
    length xstar = n -> sat s -> frame_eq s s' -> frame_eq s s'' ->
    fstar = M (eval_point xstar s') ->
    f0 = M (eval_point (getv vars s) s'') ->
    fstar <= f0 ->
    M (optimize_fixed upd vars tr xstar s) <= M s.
  Proof.
    intros Hlen Hs Hf Hf' Hstar H0 Hle.
    rewrite (fixed_lens_is_evaluated_lens tr xstar s s' Hlen Hf). rewrite <- Hstar.
    rewrite <- (eval_point_indep (getv vars s) s s'' (getv_length vars s) Hf') in H0.
    rewrite eval_point_current in H0 by assumption. rewrite <- H0. exact Hle.
  Qed.

  (** every bounded variable lies within its bounds (in lens units), given that SciPy respects
      the bounds it was handed and that these are the specified ones *)
  Theorem fixed_within_bounds (tr : trace) (xstar : list R) (s : store) :
    length xstar = n ->
    Forall2 (fun (v : var) (x : R) => within (bounds_spec v) x) vars xstar ->
    Forall (fun v : var => raw_within v (optimize_fixed upd vars tr xstar s (vcoord v))) vars.
  Proof.
    intros Hlen HB.
    pose proof (fixed_state_is_returned_solution tr xstar s Hlen) as Hst.
    set (sf := optimize_fixed upd vars tr xstar s) in *.
    unfold getv in Hst.
    assert (HB' : Forall2 (fun (v : var) (x : R) => within (bounds_spec v) x) vars (map (var_get sf) vars)) by (rewrite Hst; exact HB).
    clear Hst HB. apply Forall_forall. intros v Hv.
    assert (Hw : within (bounds_spec v) (var_get sf v)).
    { exact (Forall2_map_in _ _ _ HB' v Hv). }
    apply bounds_units in Hw; [exact Hw|]. rewrite Forall_forall in Vok. apply Vok; assumption.
  Qed.

  (** *** undo *)
  Lemma undo_fixed_restores tr xstar s :
    sat s -> length xstar = n -> undo_fixed upd vars (getv vars s) (optimize_fixed upd vars tr xstar s) = s.
  Proof.
    intros Hs Hlen. unfold undo_fixed. fold (eval_point (getv vars s) (optimize_fixed upd vars tr xstar s)).
    rewrite <- (eval_point_indep (getv vars s) s _ (getv_length vars s)).
    - apply eval_point_current; assumption.
    - unfold optimize_fixed. eapply frame_trans; [apply run_trace_frame | apply eval_point_frame].
  Qed.

  (** undo() as written restores everything except the pickup / solve targets *)
  Lemma undo_impl_restores_off_targets tr xstar s c :
    tgt c = false -> undo_impl vars (getv vars s) (optimize_impl upd vars tr xstar s) c = s c.
  Proof.
    intros Hc. unfold undo_impl, optimize_impl.
    transitivity (setv vars (getv vars s) s c).
    - apply setv_determined; [apply getv_length|]. intros Hnot. symmetry. apply run_trace_frame; assumption.
    - rewrite setv_getv by assumption. reflexivity.
  Qed.

  (** *** all sequences optimise / undo / optimise *)
  Definition wf_cmd (c : @cmd ROps) : Prop :=
    match c with Optimize _ tr xstar => length xstar = n | Undo => True end.
  Definition wf_stack (st : @opt_state ROps) : Prop := Forall (fun x : list R => length x = n) (snd st).

  Lemma step_fixed_inv st c : wf_cmd c -> sat (fst st) -> wf_stack st ->
    sat (fst (step_fixed upd vars st c)) /\ wf_stack (step_fixed upd vars st c).
  Proof.
    intros Hc Hs Hw. destruct st as [s stk]. unfold step_fixed, step_gen, wf_stack in *. cbn [fst snd] in *.
    destruct c as [fe tr xstar|].
    - destruct (needs_bounds fe && negb (forallb bounded vars)); cbn [fst snd]; split;
        try (constructor; [apply getv_length|assumption]); auto.
      apply fixed_pickups_solves_satisfied.
    - destruct stk as [|x0 rest]; cbn [fst snd]; [split; assumption|].
      inversion Hw; subst. split; [|assumption]. unfold undo_fixed. apply sat_upd.
  Qed.

  Lemma exec_fixed_inv cs : forall st, Forall wf_cmd cs -> sat (fst st) -> wf_stack st ->
    sat (fst (exec_fixed upd vars cs st)) /\ wf_stack (exec_fixed upd vars cs st).
  Proof.
    induction cs as [|c cs IH]; intros st Hcs Hs Hw.
    - split; assumption.
    - inversion Hcs; subst. unfold exec_fixed. cbn [fold_left].
      destruct (step_fixed_inv st c) as [Hs' Hw']; auto. apply IH; assumption.
  Qed.

  (** whatever happened before, optimise followed by undo gives back the lens (and the undo stack) *)
  Theorem undo_restores cs fe tr xstar s0 :
    Forall wf_cmd cs -> sat s0 -> length xstar = n ->
    exec_fixed upd vars (cs ++ [Optimize fe tr xstar; Undo]) (s0, []) = exec_fixed upd vars cs (s0, []).
  Proof.
    intros Hcs Hs0 Hlen. unfold exec_fixed. rewrite fold_left_app.
    fold (exec_fixed upd vars cs (s0, [])).
    destruct (exec_fixed_inv cs (s0, [])) as [Hs _]; auto; [constructor|].
    destruct (exec_fixed upd vars cs (s0, [])) as [s stk]. cbn [fst] in Hs.
    cbn [fold_left]. unfold step_fixed at 2. unfold step_gen. cbn [fst snd].
    destruct (needs_bounds fe && negb (forallb bounded vars)).
    - unfold step_fixed, step_gen. cbn [fst snd]. f_equal.
      unfold undo_fixed. fold (eval_point (getv vars s) s). apply eval_point_current; assumption.
    - unfold step_fixed, step_gen. cbn [fst snd]. f_equal. apply undo_fixed_restores; assumption.
  Qed.

  (** the code as written: the same, restricted to what is not a pickup / solve target *)
  Theorem undo_restores_impl_partial fe tr xstar s stk c :
    tgt c = false ->
    fst (exec_impl upd vars [Optimize fe tr xstar; Undo] (s, stk)) c = s c
    /\ snd (exec_impl upd vars [Optimize fe tr xstar; Undo] (s, stk)) = stk.
  Proof.
    intros Hc. unfold exec_impl. cbn [fold_left]. unfold step_impl, step_gen. cbn [fst snd].
    destruct (needs_bounds fe && negb (forallb bounded vars)); cbn [fst snd].
    - split; [|reflexivity]. unfold undo_impl. rewrite setv_getv by assumption. reflexivity.
    - split; [|reflexivity]. apply undo_impl_restores_off_targets; assumption.
  Qed.
End Machine.

(** ** 6. The pickup manager satisfies the two hypotheses on update() *)
Section Pickups.
  Notation pickup := (@pickup ROps).
  Variable pks : list pickup.
  Definition pk_target (c : coord) : bool := existsb (fun p : pickup => coord_eqb (pk_tgt p) c) pks.
  (** no pickup reads a parameter that is itself written by a pickup (no chains) *)
  Definition flat (l : list pickup) : Prop := forall p, In p l -> ~ In (pk_src p) (map (@pk_tgt ROps) l).

  Lemma pk_target_false c : pk_target c = false <-> ~ In c (map (@pk_tgt ROps) pks).
  Proof.
    unfold pk_target. split.
    - intros H Hin. apply in_map_iff in Hin. destruct Hin as [p [Hp Hin]].
      assert (E : existsb (fun p : pickup => coord_eqb (pk_tgt p) c) pks = true).
      { apply existsb_exists. exists p. split; auto. apply coord_eqb_eq; auto. }
      congruence.
    - intros H. destruct (existsb _ pks) eqn:E; auto. apply existsb_exists in E.
      destruct E as [p [Hin Hp]]. apply coord_eqb_eq in Hp. exfalso. apply H. apply in_map_iff. exists p; auto.
  Qed.

  Lemma upd_pickups_frame_gen (l : list pickup) : forall (s : store) c,
    ~ In c (map (@pk_tgt ROps) l) -> upd_pickups l s c = s c.
  Proof.
    induction l as [|[[[src tg] a] b] l IH]; intros s c Hc; [reflexivity|].
    unfold upd_pickups. cbn [fold_left apply_pickup]. fold (upd_pickups l (put s tg (add (mul a (s src)) b))).
    rewrite IH.
    - apply put_other. intros E. apply Hc. left. exact E.
    - intros Hin. apply Hc. right. exact Hin.
  Qed.

  Lemma upd_pickups_dep_gen (l : list pickup) : forall (s s' : store), flat l ->
    (forall c, ~ In c (map (@pk_tgt ROps) l) -> s c = s' c) -> forall c, upd_pickups l s c = upd_pickups l s' c.
  Proof.
    induction l as [|[[[src tg] a] b] l IH]; intros s s' Hfl H c.
    - cbn. apply H. intros [].
    - unfold upd_pickups. cbn [fold_left apply_pickup].
      fold (upd_pickups l (put s tg (add (mul a (s src)) b))).
      fold (upd_pickups l (put s' tg (add (mul a (s' src)) b))).
      assert (Hsrc : s src = s' src).
      { apply H. apply (Hfl (src, tg, a, b)). left; reflexivity. }
      rewrite Hsrc. apply IH.
      + intros p Hp Hin. apply (Hfl p); [right; exact Hp|]. right. exact Hin.
      + intros d Hd. unfold put. destruct (coord_eqb tg d) eqn:E; auto.
        apply H. intros [Hin|Hin]; [|contradiction].
        cbn in Hin. rewrite Hin, coord_eqb_refl in E. discriminate.
  Qed.

  Theorem upd_pickups_frame (s : store) c : pk_target c = false -> upd_pickups pks s c = s c.
  Proof. intros H. apply upd_pickups_frame_gen. apply pk_target_false; exact H. Qed.
  Theorem upd_pickups_dep (s s' : store) : flat pks ->
    (forall c, pk_target c = false -> s c = s' c) -> upd_pickups pks s = upd_pickups pks s'.
  Proof.
    intros Hfl H. apply functional_extensionality. apply upd_pickups_dep_gen; auto.
    intros c Hc. apply H. apply pk_target_false; exact Hc.
  Qed.
  Theorem upd_pickups_hypotheses :
    (forall (s : store) c, pk_target c = false -> upd_pickups pks s c = s c)
    /\ (flat pks -> forall s s' : store, (forall c, pk_target c = false -> s c = s' c) -> upd_pickups pks s = upd_pickups pks s').
  Proof. split; [exact upd_pickups_frame | intros H s s'; apply upd_pickups_dep; exact H]. Qed.
End Pickups.

(** ** 7. The hypotheses are satisfiable: a singlet whose second radius picks up minus the first,
    first radius and thickness variable (scaled, bounded), one operand *)
Section Instance.
  Let c_r1 : coord := (0, 1, 0, 0)%Z.
  Let c_r2 : coord := (0, 2, 0, 0)%Z.
  Let v_r1 : var := @mkVar ROps KRadius 1 0 0 true (Some 20) (Some 200).
  Let v_t2 : var := @mkVar ROps KThickness 2 0 0 true (Some 10) (Some 150).
  Let pks : list (@pickup ROps) := [(c_r1, c_r2, -1, 0)].
  Let s0 : store := fun c => if coord_eqb c c_r1 then 50 else if coord_eqb c c_r2 then -50 else 45.

  Example instance_hypotheses :
    Forall var_ok [v_r1; v_t2] /\ NoDup (map (@vcoord ROps) [v_r1; v_t2])
    /\ (forall v, In v [v_r1; v_t2] -> pk_target pks (vcoord v) = false)
    /\ flat pks /\ sat (upd_pickups pks) s0.
  Proof.
    repeat split.
    - repeat constructor; unfold var_ok; cbn; discriminate.
    - repeat constructor; cbn; intuition discriminate.
    - intros v [<-|[<-|[]]]; reflexivity.
    - intros p [<-|[]]. cbn. intros [H|[]]. discriminate.
    - unfold sat. apply functional_extensionality. intros c. unfold pks, upd_pickups. cbn [fold_left apply_pickup].
      unfold put. destruct (coord_eqb c_r2 c) eqn:E; auto. apply coord_eqb_eq in E. subst c.
      unfold s0. cbn. rops. lra.
  Qed.

  (** the theorems apply: whatever SciPy evaluated, the repaired optimise leaves the lens at x* *)
  Example instance_state tr s :
    getv [v_r1; v_t2] (optimize_fixed (upd_pickups pks) [v_r1; v_t2] tr [0; 3] s) = [0; 3].
  Proof.
    destruct instance_hypotheses as (Hok & Hnd & Hfree & Hflat & _).
    apply (fixed_state_is_returned_solution (upd_pickups pks) (pk_target pks)); auto.
    intros; apply upd_pickups_frame; assumption.
  Qed.
End Instance.

(** ** 8. Problems spanning several optics: update_optics updates every optic that owns a variable
    exactly once, and afterwards the pickups and solves of EVERY such optic are satisfied *)
Lemma dedup_in (l : list Z) (o : Z) : In o (dedup l) <-> In o l.
Proof.
  induction l as [|x r IH]; [tauto|]. cbn [dedup].
  destruct (existsb (Z.eqb x) r) eqn:E.
  - rewrite IH. split; [right; assumption|]. intros [<-|H]; [|assumption].
    apply existsb_exists in E. destruct E as [y [Hy Hxy]]. apply Z.eqb_eq in Hxy. subst; assumption.
  - cbn [In]. rewrite IH. tauto.
Qed.
Lemma dedup_nodup (l : list Z) : NoDup (dedup l).
Proof.
  induction l as [|x r IH]; [constructor|]. cbn [dedup].
  destruct (existsb (Z.eqb x) r) eqn:E; [assumption|]. constructor; [|assumption].
  rewrite dedup_in. intros Hin.
  assert (existsb (Z.eqb x) r = true) by (apply existsb_exists; exists x; split; [assumption|apply Z.eqb_refl]).
  congruence.
Qed.
(** each optic owning a variable is updated exactly once, every other optic never *)
Theorem update_optics_each_owner_once (owners : list Z) (o : Z) :
  (In o owners -> count_occ Z.eq_dec (dedup owners) o = 1%nat)
  /\ (~ In o owners -> count_occ Z.eq_dec (dedup owners) o = 0%nat).
Proof.
  split; intros H.
  - apply NoDup_count_occ'; [apply dedup_nodup | apply dedup_in; assumption].
  - apply count_occ_not_In. rewrite dedup_in. assumption.
Qed.

Section MultiOptic.
  Variable u : Z -> store -> store.        (* Optic.update() of optic o, acting on the joint state of all lenses *)
  Variable own : Z -> coord -> bool.       (* the parameters of optic o *)
  Hypothesis P1 : forall o (s : store) c, own o c = false -> u o s c = s c.              (* writes its own lens only *)
  Hypothesis P2 : forall o (s s' : store), (forall c, own o c = true -> s c = s' c) ->
                  forall c, own o c = true -> u o s c = u o s' c.                         (* reads its own lens only *)
  Hypothesis P3 : forall o (s : store), u o (u o s) = u o s.                              (* update() satisfies its pickups/solves *)
  Hypothesis P4 : forall o o' c, o <> o' -> own o c = true -> own o' c = false.           (* lenses are disjoint *)

  Lemma others_preserve (L : list Z) (o : Z) : forall s : store, ~ In o L ->
    forall c, own o c = true -> update_each u L s c = s c.
  Proof.
    induction L as [|x L IH]; intros s Hn c Hc; [reflexivity|].
    unfold update_each. cbn [fold_left]. fold (update_each u L (u x s)).
    rewrite IH; [|intros H; apply Hn; right; assumption|assumption].
    apply P1. apply (P4 o x); [intros E; apply Hn; left; auto|assumption].
  Qed.

  (** for EVERY duplicate-free enumeration of the owning optics (any iteration order of the set) *)
  Theorem every_owner_satisfied (L : list Z) (o : Z) (s : store) :
    NoDup L -> In o L -> u o (update_each u L s) = update_each u L s.
  Proof.
    intros Hnd Hin. apply in_split in Hin. destruct Hin as [L1 [L2 ->]].
    apply NoDup_remove_2 in Hnd.
    assert (Hn2 : ~ In o L2) by (intros H; apply Hnd; apply in_or_app; right; assumption).
    unfold update_each. rewrite fold_left_app. cbn [fold_left].
    set (s1 := fold_left (fun (s0 : store) (o0 : Z) => u o0 s0) L1 s).
    fold (update_each u L2 (u o s1)). set (fin := update_each u L2 (u o s1)).
    apply functional_extensionality. intros c. destruct (own o c) eqn:Hc.
    - assert (Hag : forall d, own o d = true -> fin d = u o s1 d) by (intros d Hd; apply (others_preserve L2 o); assumption).
      rewrite (P2 o fin (u o s1) Hag c Hc). rewrite P3. symmetry. apply Hag. assumption.
    - apply P1. assumption.
  Qed.

  Theorem update_optics_satisfies_every_owner (owners : list Z) (o : Z) (s : store) :
    In o owners -> u o (update_optics u owners s) = update_optics u owners s.
  Proof.
    intros H. unfold update_optics. apply every_owner_satisfied; [apply dedup_nodup | apply dedup_in; assumption].
  Qed.
End MultiOptic.

(** * C20 - the round-trip theorem at the extended-real instance: every finite curvature has a finite radius,
    so the only hypotheses left are about the file's structure.  Also a witness that [wf] is satisfiable. *)
From Coq Require Import Reals ZArith List String Bool Lra Lia.
From OV Require Import Ops RInst XR Model.M_C20 Spec.S_C20 Lemmas.L_C20.
Import ListNotations.
Local Open Scope string_scope.
Local Open Scope list_scope.

(** a finite non-zero curvature has a finite radius, and 1/0 is +infinity (CURV 0 -> plane) *)
Lemma xr_radius_finite : forall c : R, c <> 0%R ->
  radius_of_curv (O:=XOps) (Fin c) = Fin (1 / c)%R.
Proof.
  intros c Hc. unfold radius_of_curv. xops. cbn [xeqb]. 
  destruct (Reqb c 0) eqn:E; [apply Reqb_true in E; contradiction|].
  cbn [xdiv]. destruct (Req_EM_T c 0); [contradiction|]. reflexivity.
Qed.
Lemma xr_radius_zero : radius_of_curv (O:=XOps) (Fin 0) = PInf.
Proof.
  unfold radius_of_curv. xops. cbn [xeqb].
  destruct (Reqb 0 0) eqn:E; [reflexivity|]. apply Reqb_false in E. congruence.
Qed.

Definition all_finite (s : @psurf XOps) : Prop := exists c, p_curv s = Fin c.

Lemma xr_curv_ok : forall s : @psurf XOps, all_finite s -> curv_ok s.
Proof.
  intros s [c Hc]. unfold curv_ok. destruct (p_type s); [|exact I]. rewrite Hc. xops. cbn [xeqb].
  intros E. apply Reqb_false in E. cbn [xdiv]. destruct (Req_EM_T c 0); [contradiction|]. reflexivity.
Qed.

(** round trip over the extended reals: no numeric side condition besides finite curvatures *)
Theorem import_roundtrip_xr : forall (show : xR -> string) (showZ : Z -> string)
    (resolve : string -> option string -> bool) (p : @presc XOps),
  (forall x, (show x =? "INFINITY") = false) ->
  p_fields p <> [] ->
  (1 <= p_prim p <= Z.of_nat (List.length (p_waves p)))%Z ->
  p_stop (p_obj p) = false ->
  one_stop (p_obj p :: p_mids p) ->
  Forall all_finite (p_obj p :: p_mids p) ->
  Forall (glass_ok resolve (p_gcat p)) (p_obj p :: p_mids p) ->
  plain_image (p_img p) ->
  load (O:=XOps) resolve (emit (O:=XOps) show showZ p) = Some (lens_of p).
Proof.
  intros show showZ resolve p Hs Hf Hp Ho H1 Hfin Hg Him.
  apply (import_roundtrip (O:=XOps)). constructor; try assumption.
  - reflexivity.
  - eapply Forall_impl; [|exact Hfin]. intros s. apply xr_curv_ok.
Qed.

(** the hypotheses are satisfiable: a singlet (object at infinity, stop on the front surface, one catalogue
    glass, an even asphere with a model glass behind it, a plane image) *)
Definition ex_resolve (n : string) (r : option string) : bool :=
  match r with None => n =? "N-BK7" | Some _ => false end.
Definition ex_presc : @presc XOps :=
  (@mkPresc XOps) ((@AEnpd XOps) (Fin 10)) false [(Fin 0, Fin 0); (Fin 0, Fin 7)] [] [Fin 0.5; Fin 0.6] [Fin 0.55] 2 (Some ["SCHOTT"])
    ((@mkP XOps) false (@PStandard XOps) (Fin 0) (@TInf XOps) (@GAir XOps) None)
    [(@mkP XOps) true (@PStandard XOps) (Fin 0.02) ((@TFin XOps) (Fin 5)) ((@GCatalog XOps) "N-BK7" (Fin 1.5168) (Fin 64.17)) (Some (Fin (-0.5)));
     (@mkP XOps) false ((@PEven XOps) (Fin 0) (Fin 1e-5) (Fin 0) (Fin 0) (Fin 0) (Fin 0) (Fin 0) (Fin 0)) (Fin (-0.01)) ((@TFin XOps) (Fin 3))
         ((@GModel XOps) "ZZ9" (Fin 1.6) (Fin 50)) None;
     (@mkP XOps) false (@PStandard XOps) (Fin 0) ((@TFin XOps) (Fin 95)) (@GAir XOps) None]
    ((@mkP XOps) false (@PStandard XOps) (Fin 0) ((@TFin XOps) (Fin 0)) (@GAir XOps) None).

Example wf_satisfiable : wf (O:=XOps) (fun _ => "1.0") ex_resolve ex_presc.
Proof.
  constructor.
  - reflexivity.
  - reflexivity.
  - discriminate.
  - cbn. lia.
  - reflexivity.
  - cbn. repeat constructor.
  - repeat constructor; apply xr_curv_ok; eexists; reflexivity.
  - repeat constructor.
  - repeat split. cbn. xops. cbn [xeqb]. apply Reqb_true. reflexivity.
Qed.

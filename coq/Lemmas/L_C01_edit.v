(** * C01: each edit changes exactly the quantity it names (frame conditions), reads back the value
    set, and keeps the media chained.  Any arithmetic instance unless reals are mentioned. *)
From Coq Require Import Reals ZArith List Bool String Lia Lra.
From OV Require Import Ops RInst Gen.LensEdit Model.Paraxial Model.M_C01 Spec.S_C01 Lemmas.L_C01_lists
     Lemmas.L_C01_inv Lemmas.L_C01_thickness.
Import ListNotations.

Section Edit.
  Context {O : Ops}.
  Notation T := (T O).
  Notation lens := (lens O).
  Notation surf := (surf O).

  (** everything of the lens except the surface list *)
  Definition same_rest (l l' : lens) : Prop :=
    mats l' = mats l /\ last_t l' = last_t l /\ waves l' = waves l /\ prims l' = prims l /\
    pickups l' = pickups l /\ solves l' = solves l /\ ap l' = ap l.

  Lemma nthS_some (l : lens) k s : nthS l k = Some s -> (0 <= k)%Z /\ nth_error (surfs l) (Z.to_nat k) = Some s.
  Proof.
    unfold nthS, inb. destruct (Z.leb_spec 0 k); cbn [andb]; [|discriminate].
    destruct (Z.ltb_spec k (Z.of_nat (List.length (surfs l)))); [|discriminate]. auto.
  Qed.

  (** [upd_surf] touches surface i only *)
  Lemma upd_surf_nth (l : lens) i f j :
    nth_error (surfs (upd_surf l i f)) j =
    match nth_error (surfs l) j with
    | Some s => Some (if (Z.of_nat j =? i)%Z then f s else s)
    | None => None
    end.
  Proof. unfold upd_surf, with_surfs; cbn [surfs]. rewrite map_enumZ_nth. reflexivity. Qed.

  Lemma upd_surf_rest (l : lens) i f : same_rest l (upd_surf l i f).
  Proof. unfold same_rest, upd_surf, with_surfs; cbn. repeat split. Qed.

  (** the shape of every single-surface edit *)
  Definition edits_only (l l' : lens) (k : Z) (f : surf -> surf) : Prop :=
    same_rest l l' /\
    forall j, nth_error (surfs l') j =
              match nth_error (surfs l) j with
              | Some s => Some (if (Z.of_nat j =? k)%Z then f s else s)
              | None => None
              end.

  (** set_radius touches surface k only, through [set_radius_fun] (Model/M_C01.v): a flat surface given a
      finite radius becomes a StandardGeometry keeping the conic it read; a StandardGeometry given an
      infinite radius goes back to a Plane keeping a non-zero conic; every other case stores the radius *)
  Theorem set_radius_exact (l : lens) v k l' :
    set_radius l v k = Some l' ->
    edits_only l l' k (set_radius_fun v) /\
    (forall s, nth_error (surfs l) (Z.to_nat k) = Some s -> isinf_ v = false ->
       exists s', nth_error (surfs l') (Z.to_nat k) = Some s' /\ s_R s' = v /\ s_c s' = s_c s /\
                  conic_read s' = conic_read s).
  Proof.
    unfold set_radius. destruct (nthS l k) as [s0|] eqn:E; [|discriminate].
    destruct (nthS_some _ _ _ E) as (Hk & Hs0). intros H; injection H as <-. split.
    - split; [apply upd_surf_rest|]. intros j. apply upd_surf_nth.
    - intros s Hs Hv. rewrite upd_surf_nth, Hs. rewrite Z2Nat.id by exact Hk. rewrite Z.eqb_refl.
      eexists. split; [reflexivity|]. unfold set_radius_fun. rewrite Hv.
      destruct (s_kind s); cbn; repeat split; reflexivity.
  Qed.

  (** for a finite radius value the edit leaves every other read-out of the surface alone *)
  Lemma set_radius_fun_frame (v : T) (s : surf) :
    isinf_ v = false ->
    let s' := set_radius_fun v s in
    s_R s' = v /\ conic_read s' = conic_read s /\ s_c s' = s_c s /\
    s_x s' = s_x s /\ s_y s' = s_y s /\ s_z s' = s_z s /\ s_rx s' = s_rx s /\ s_ry s' = s_ry s /\
    s_mpre s' = s_mpre s /\ s_mpost s' = s_mpost s /\ s_stop s' = s_stop s /\ s_refl s' = s_refl s /\
    s_obj s' = s_obj s.
  Proof. intros Hv. cbv zeta. unfold set_radius_fun. rewrite Hv. destruct (s_kind s); cbn; repeat split; reflexivity. Qed.

  (** whatever the value (infinite included): positions, media, flags and decentres are untouched *)
  Theorem set_radius_frame (l : lens) v k l' :
    set_radius l v k = Some l' ->
    positions l' = positions l /\ n_post l' = n_post l /\ n_pre l' = n_pre l /\
    map s_stop (surfs l') = map s_stop (surfs l) /\ map s_x (surfs l') = map s_x (surfs l) /\
    map s_y (surfs l') = map s_y (surfs l) /\ map s_rx (surfs l') = map s_rx (surfs l) /\
    map s_ry (surfs l') = map s_ry (surfs l).
  Proof.
    unfold set_radius. destruct (nthS l k) as [s0|]; [|discriminate]. intros H; injection H as <-.
    unfold positions, n_post, n_pre, index_of, upd_surf, with_surfs. cbn [surfs mats].
    repeat split; apply map_enumZ_preserve; intros j x; destruct (j =? k)%Z; try reflexivity;
      unfold set_radius_fun; destruct (s_kind x); destruct (isinf_ v); reflexivity.
  Qed.

  (** a finite radius value keeps every conic read-out and every coefficient list *)
  Theorem set_radius_keeps_conic (l : lens) v k l' :
    isinf_ v = false ->
    set_radius l v k = Some l' ->
    map conic_read (surfs l') = map conic_read (surfs l) /\ map s_c (surfs l') = map s_c (surfs l).
  Proof.
    intros Hv. unfold set_radius. destruct (nthS l k) as [s0|]; [|discriminate]. intros H; injection H as <-.
    unfold upd_surf, with_surfs. cbn [surfs].
    split; apply map_enumZ_preserve; intros j x; destruct (j =? k)%Z; try reflexivity;
      unfold set_radius_fun; rewrite Hv; destruct (s_kind x); reflexivity.
  Qed.

  Theorem set_conic_exact (l : lens) v k l' :
    set_conic l v k = Some l' ->
    edits_only l l' k (fun s => with_geom s (s_kind s) (s_R s) (Some v) (s_c s)).
  Proof.
    unfold set_conic. destruct (nthS l k) as [s0|] eqn:E; [|discriminate]. intros H; injection H as <-.
    split; [apply upd_surf_rest|]. intros j. apply upd_surf_nth.
  Qed.

  Theorem set_asphere_coeff_exact (l : lens) v k j l' :
    set_asphere_coeff l v k j = Some l' ->
    edits_only l l' k (fun s => with_geom s (s_kind s) (s_R s) (s_k s) (setZ (s_c s) j v)).
  Proof.
    unfold set_asphere_coeff. destruct (nthS l k) as [s0|] eqn:E; [|discriminate].
    destruct (s_kind s0); try discriminate. destruct (nthZ (s_c s0) j); [|discriminate].
    intros H; injection H as <-. split; [apply upd_surf_rest|]. intros i. apply upd_surf_nth.
  Qed.

  (** the coefficient written reads back, the others are untouched *)
  Lemma setZ_getZ (c : list T) j v i :
    (0 <= j < Z.of_nat (List.length c))%Z -> (0 <= i < Z.of_nat (List.length c))%Z ->
    getZ (setZ c j v) i = if (i =? j)%Z then v else getZ c i.
  Proof.
    intros Hj Hi. unfold setZ.
    destruct (Z.ltb_spec j 0); [lia|]. destruct (Z.ltb_spec j 0); [lia|].
    destruct (Z.leb_spec (Z.of_nat (List.length c)) j); [lia|]. cbn [orb].
    unfold getZ. rewrite !nthZ_in by (rewrite ?set_nth_length; lia).
    rewrite set_nth_nth. destruct (Z.eqb_spec i j) as [->|Hne].
    - rewrite Nat.eqb_refl. destruct (Nat.ltb_spec (Z.to_nat j) (List.length c)); [reflexivity|lia].
    - destruct (Nat.eqb_spec (Z.to_nat i) (Z.to_nat j)); [lia|reflexivity].
  Qed.

  (** ** media chain *)
  Definition refsO (l : lens) : list (nat * nat) := map (fun s => (s_mpre s, s_mpost s)) (surfs l).

  Lemma media_chained_nth (rs : list (nat * nat)) :
    media_chained rs <->
    (forall j a b, nth_error rs j = Some a -> nth_error rs (S j) = Some b -> snd a = fst b).
  Proof.
    induction rs as [|[p q] rs IH]; [split; [intros _ j a b H; destruct j; discriminate|intros; exact I]|].
    destruct rs as [|[p2 q2] rs].
    - split; [|intros; exact I]. intros _ j a b H1 H2. destruct j; [discriminate|]. destruct j; discriminate.
    - cbn [media_chained]. rewrite IH. split.
      + intros (E & H) j a b H1 H2. destruct j as [|j].
        * injection H1 as <-. injection H2 as <-. exact E.
        * apply (H j); assumption.
      + intros H. split.
        * apply (H 0%nat (p, q) (p2, q2)); reflexivity.
        * intros j a b H1 H2. apply (H (S j)); assumption.
  Qed.

  Lemma set_index_unfold (l : lens) v k l' :
    set_index l v k = Some l' ->
    (0 <= k)%Z /\ (k + 1 < nsurf l)%Z /\
    l' = mkL (surfs (upd_surf (upd_surf l k (fun s => with_mat s (s_mpre s) (List.length (mats l))))
                              (k + 1) (fun s => with_mat s (List.length (mats l)) (s_mpost s))))
             (mats l ++ [v]) (last_t l) (waves l) (prims l) (pickups l) (solves l) (ap l).
  Proof.
    unfold set_index. destruct (Z.leb_spec 0 k); cbn [andb]; [|discriminate].
    destruct (Z.ltb_spec (k + 1) (nsurf l)); [|discriminate]. intros E. repeat split; try assumption.
    injection E as <-. reflexivity.
  Qed.

  (** set_index gives surface k and surface k+1 one new shared medium: the chain is kept, the index
      behind surface k reads back the value set *)
  Theorem set_index_media (l : lens) v k l' :
    set_index l v k = Some l' ->
    media_chained (refsO l) -> media_chained (refsO l').
  Proof.
    intros E. destruct (set_index_unfold _ _ _ _ E) as (Hk0 & Hk1 & ->). clear E.
    rewrite !media_chained_nth. intros HC j a b. unfold refsO. cbn [surfs].
    rewrite !nth_error_map, !upd_surf_nth.
    specialize (HC j). unfold refsO in HC. rewrite !nth_error_map in HC.
    destruct (nth_error (surfs l) j) as [sj|] eqn:Ej; [|discriminate].
    destruct (nth_error (surfs l) (S j)) as [sj1|] eqn:Ej1; [|discriminate].
    specialize (HC _ _ eq_refl eq_refl). cbn [fst snd] in HC.
    destruct (Z.eqb_spec (Z.of_nat j) k) as [Ejk|Ejk];
    destruct (Z.eqb_spec (Z.of_nat j) (k + 1)) as [Ejk1|Ejk1];
    destruct (Z.eqb_spec (Z.of_nat (S j)) k) as [Esk|Esk];
    destruct (Z.eqb_spec (Z.of_nat (S j)) (k + 1)) as [Esk1|Esk1]; try lia;
    cbn [option_map]; intros Ha Hb; injection Ha as <-; injection Hb as <-;
    cbn [fst snd with_mat s_mpre s_mpost]; try exact HC; reflexivity.
  Qed.

  Theorem set_index_readback (l : lens) v k l' s' :
    set_index l v k = Some l' -> nth_error (surfs l') (Z.to_nat k) = Some s' ->
    index_of l' (s_mpost s') = v.
  Proof.
    intros E. destruct (set_index_unfold _ _ _ _ E) as (Hk0 & Hk1 & ->). clear E.
    cbn [surfs]. rewrite !upd_surf_nth.
    destruct (nth_error (surfs l) (Z.to_nat k)) as [s|]; [|discriminate].
    rewrite Z2Nat.id by assumption. rewrite Z.eqb_refl.
    destruct (Z.eqb_spec k (k + 1)); [lia|]. intros E; injection E as <-.
    unfold index_of; cbn [mats s_mpost with_mat]. rewrite app_nth2 by lia. rewrite Nat.sub_diag. reflexivity.
  Qed.

  (** and no other surface's media references change *)
  Theorem set_index_frame (l : lens) v k l' j :
    set_index l v k = Some l' -> Z.of_nat j <> k -> Z.of_nat j <> (k + 1)%Z ->
    nth_error (surfs l') j = nth_error (surfs l) j.
  Proof.
    intros E. destruct (set_index_unfold _ _ _ _ E) as (Hk0 & Hk1 & ->). clear E. intros H1 H2.
    cbn [surfs]. rewrite !upd_surf_nth. destruct (nth_error (surfs l) j); [|reflexivity].
    destruct (Z.eqb_spec (Z.of_nat j) k); [contradiction|]. destruct (Z.eqb_spec (Z.of_nat j) (k + 1)); [contradiction|].
    reflexivity.
  Qed.

  (** ** set_thickness at lens level: only vertex positions change *)
  Lemma set_zs_nth (l : lens) zs j :
    nth_error (surfs (set_zs l zs)) j =
    match nth_error (surfs l) j with Some s => Some (with_z s (getZ zs (Z.of_nat j))) | None => None end.
  Proof. unfold set_zs, with_surfs; cbn [surfs]. rewrite map_enumZ_nth. reflexivity. Qed.

  Lemma set_zs_positions (l : lens) zs :
    List.length zs = List.length (surfs l) -> positions (set_zs l zs) = zs.
  Proof.
    intros HL. unfold positions. apply list_ext_nth.
    - rewrite map_length. unfold set_zs, with_surfs; cbn [surfs]. rewrite map_enumZ_length. lia.
    - intros i Hi. rewrite nth_error_map, set_zs_nth.
      rewrite map_length in Hi. unfold set_zs, with_surfs in Hi; cbn [surfs] in Hi. rewrite map_enumZ_length in Hi.
      destruct (nth_error (surfs l) i) as [s|] eqn:E; [|apply nth_error_None in E; lia].
      cbn [option_map with_z s_z]. unfold getZ. rewrite nthZ_in by lia. rewrite Nat2Z.id.
      destruct (nth_error zs i) eqn:E2; [reflexivity|]. apply nth_error_None in E2. lia.
  Qed.

  Theorem set_thickness_frame (l : lens) v k l' :
    set_thickness l v k = Some l' ->
    same_rest l l' /\
    forall j, nth_error (surfs l') j =
              match nth_error (surfs l) j with
              | Some s => Some (with_z s (getZ (k_c01_set_thickness O v k (positions l) (nsurf l)) (Z.of_nat j)))
              | None => None
              end.
  Proof.
    unfold set_thickness. destruct (_ && _); [|discriminate]. intros E; injection E as <-. split.
    - unfold same_rest, set_zs, with_surfs; cbn. repeat split.
    - intros j. apply set_zs_nth.
  Qed.
End Edit.

(** ** exact reals: the thicknesses of the lens after set_thickness *)
Local Open Scope R_scope.

Theorem set_thickness_lens (l : lens ROps) v k l' :
  set_thickness l v k = Some l' ->
  thk (positions l') = upd (Z.to_nat k) v (thk (positions l)) /\ getZ (O:=ROps) (positions l') 1 = 0.
Proof.
  unfold set_thickness. destruct (Z.leb_spec 0 k); cbn [andb]; [|discriminate].
  destruct (Z.ltb_spec (k + 1) (nsurf l)) as [Hn|]; [|discriminate]. intros E; injection E as <-.
  unfold nsurf in *.
  assert (LP : List.length (positions l) = List.length (surfs l)) by (unfold positions; apply map_length).
  rewrite <- LP in *.
  rewrite set_zs_positions by (rewrite set_thickness_length by assumption; exact LP).
  split; [apply set_thickness_thk; assumption|apply set_thickness_first_zero; assumption].
Qed.

(** ** any history of thickness edits: every thickness finally reads the last value written to it *)
Definition apply_edits (es : list (nat * R)) (ts : list R) : list R :=
  fold_left (fun ts e => upd (fst e) (snd e) ts) es ts.
Definition run_thk (es : list (nat * R)) (zs : list R) : list R :=
  fold_left (fun zs e => k_c01_set_thickness ROps (snd e) (Z.of_nat (fst e)) zs (Z.of_nat (List.length zs))) es zs.

Theorem thickness_history (es : list (nat * R)) : forall zs,
  (forall e, In e es -> (S (fst e) < List.length zs)%nat) ->
  thk (run_thk es zs) = apply_edits es (thk zs) /\ List.length (run_thk es zs) = List.length zs.
Proof.
  induction es as [|[k v] es IH]; intros zs H; [split; reflexivity|].
  cbn [run_thk apply_edits fold_left fst snd].
  assert (Hk : (S k < List.length zs)%nat) by (apply (H (k, v)); left; reflexivity).
  assert (L : List.length (k_c01_set_thickness ROps v (Z.of_nat k) zs (Z.of_nat (List.length zs))) = List.length zs)
    by (apply set_thickness_length; lia).
  destruct (IH (k_c01_set_thickness ROps v (Z.of_nat k) zs (Z.of_nat (List.length zs)))) as (A & B).
  { intros e He. change (T ROps) with R in *. rewrite L. apply H. right. exact He. }
  unfold run_thk, apply_edits in *. change (T ROps) with R in *. split.
  - rewrite A. rewrite set_thickness_thk by lia. rewrite Nat2Z.id. reflexivity.
  - rewrite B. exact L.
Qed.

Lemma apply_edits_last_write (es : list (nat * R)) : forall ts j,
  (j < List.length ts)%nat ->
  nth j (apply_edits es ts) 0 = last_write Nat.eqb es j (nth j ts 0).
Proof.
  induction es as [|[k v] es IH]; intros ts j Hj; [reflexivity|].
  cbn [apply_edits fold_left last_write fst snd]. change (fold_left _ es ?x) with (apply_edits es x).
  rewrite IH by (rewrite upd_length; exact Hj). rewrite upd_nth by exact Hj.
  rewrite (Nat.eqb_sym j k). reflexivity.
Qed.

Corollary thickness_last_write_wins es zs j :
  (forall e, In e es -> (S (fst e) < List.length zs)%nat) -> (S j < List.length zs)%nat ->
  nth j (thk (run_thk es zs)) 0 = last_write Nat.eqb es j (nth j (thk zs) 0).
Proof.
  intros H Hj. destruct (thickness_history es zs H) as (A & _). rewrite A.
  apply apply_edits_last_write. rewrite thk_length. lia.
Qed.

Example thickness_history_ex :
  last_write Nat.eqb [(1%nat, 7); (2%nat, 3); (1%nat, 9)] 1%nat 5 = 9.
Proof. reflexivity. Qed.

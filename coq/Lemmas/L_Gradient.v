(** C02: the surface-normal kernels return the normalised gradient (dz/dx, dz/dy, -1) of the SAG
    kernels (derivatives in the sense of Coquelicot's is_derive), for the conic and for the even
    asphere with ANY coefficient list. *)
From Coq Require Import Reals Lra Lia ZArith List Psatz.
From Coquelicot Require Import Coquelicot.
From OV Require Import Ops RInst Gen.Standard Gen.Geometries.
Import ListNotations.
Local Open Scope R_scope.

Section Conic.
  Variables Rc k : R.
  Hypothesis HR : Rc <> 0.
  Definition rad (x y : R) := 1 - (1 + k) * (x * x + y * y) / (Rc * Rc).

  Lemma conic_dx_algebra x y s :
    0 < s -> s * s = rad x y ->
    2 * x / (Rc * (1 + s)) + ((1 + k) * (x * x + y * y)) * x / (Rc * s) / (Rc * Rc * (1 + s) * (1 + s))
    = x / (Rc * s).
  Proof.
    intros Hs Hss.
    assert (Hk : (1 + k) * (x * x + y * y) = (1 - s * s) * (Rc * Rc)).
    { rewrite Hss. unfold rad. field. exact HR. }
    rewrite Hk. field. repeat split; lra.
  Qed.

  Theorem std_sag_dx x y : 0 < rad x y ->
    is_derive (fun x => k_std_sag ROps x y Rc k) x (x / (Rc * sqrt (rad x y))).
  Proof.
    intros Hrad. unfold k_std_sag. rops.
    assert (E : 1 + - ((1 + k) * (x * x + y * y) * / (Rc * Rc)) = rad x y) by (unfold rad; field; exact HR).
    assert (Hs : 0 < sqrt (rad x y)) by (apply sqrt_lt_R0; exact Hrad).
    auto_derive.
    - rewrite E. repeat split; [exact Hrad|].
      apply Rmult_integral_contrapositive_currified; [exact HR|lra].
    - rewrite E. set (s := sqrt (rad x y)) in *.
      rewrite <- (conic_dx_algebra x y s Hs (sqrt_sqrt _ (Rlt_le _ _ Hrad))).
      field. repeat split; lra.
  Qed.

  Theorem std_sag_dy x y : 0 < rad x y ->
    is_derive (fun y => k_std_sag ROps x y Rc k) y (y / (Rc * sqrt (rad x y))).
  Proof.
    intros Hrad. unfold k_std_sag. rops.
    assert (E : 1 + - ((1 + k) * (x * x + y * y) * / (Rc * Rc)) = rad x y) by (unfold rad; field; exact HR).
    assert (Hs : 0 < sqrt (rad x y)) by (apply sqrt_lt_R0; exact Hrad).
    auto_derive.
    - rewrite E. repeat split; [exact Hrad|].
      apply Rmult_integral_contrapositive_currified; [exact HR|lra].
    - rewrite E. set (s := sqrt (rad x y)) in *.
      assert (A : 2 * y / (Rc * (1 + s)) + ((1 + k) * (x * x + y * y)) * y / (Rc * s) / (Rc * Rc * (1 + s) * (1 + s)) = y / (Rc * s)).
      { assert (Hss : s * s = rad x y) by (apply sqrt_sqrt; lra).
        assert (Hk : (1 + k) * (x * x + y * y) = (1 - s * s) * (Rc * Rc)).
        { rewrite Hss. unfold rad. field. exact HR. }
        rewrite Hk. field. repeat split; lra. }
      rewrite <- A. field. repeat split; lra.
  Qed.

  (** the normal kernel is (dz/dx, dz/dy, -1) / |.| with exactly those derivatives *)
  Theorem std_normal_is_gradient x y : 0 < rad x y ->
    exists gx gy : R,
      is_derive (fun x => k_std_sag ROps x y Rc k) x gx /\
      is_derive (fun y => k_std_sag ROps x y Rc k) y gy /\
      k_std_normal ROps x y Rc k =
      (gx / sqrt (gx * gx + gy * gy + 1), gy / sqrt (gx * gx + gy * gy + 1), -1 / sqrt (gx * gx + gy * gy + 1)).
  Proof.
    intros Hrad. exists (x / (Rc * sqrt (rad x y))), (y / (Rc * sqrt (rad x y))).
    split; [apply std_sag_dx; exact Hrad|]. split; [apply std_sag_dy; exact Hrad|].
    unfold k_std_normal. rops. fold (rad x y).
    replace (IZR ((-1) ^ 2)) with 1 by (simpl; lra). reflexivity.
  Qed.
End Conic.

(** ** Even asphere: any coefficient list *)
Lemma pow_nat_pow (x : R) n : pow_nat (O:=ROps) x n = x ^ n.
Proof. induction n as [|n IH]; cbn [pow_nat pow]; rops; [reflexivity|rewrite IH; reflexivity]. Qed.
Lemma powZ_pow (x : R) n : powZ (O:=ROps) x (Z.of_nat n) = x ^ n.
Proof.
  unfold powZ. destruct (Z.ltb_spec (Z.of_nat n) 0) as [H|H]; [lia|].
  rewrite Nat2Z.id. apply pow_nat_pow.
Qed.

(** specification of the polynomial part: sum_j c_j * r2^(a+j+1) and its r2-derivative weights *)
Fixpoint ea_poly (a : nat) (c : list R) (r2 : R) : R :=
  match c with [] => 0 | cj :: c' => cj * r2 ^ (a + 1) + ea_poly (S a) c' r2 end.
Fixpoint ea_dpoly (a : nat) (c : list R) (r2 : R) : R :=    (* d/d(r2) of ea_poly *)
  match c with [] => 0 | cj :: c' => cj * (INR (a + 1) * r2 ^ a) + ea_dpoly (S a) c' r2 end.

Lemma seqZ_S a n : seqZ (Z.of_nat a) (S n) = Z.of_nat a :: seqZ (Z.of_nat (S a)) n.
Proof. cbn [seqZ]. f_equal. f_equal. lia. Qed.

Lemma ea_sag_fold (r2 : R) c : forall a z0,
  fold_left (fun (z : R) '(i, Ci) => z + Ci * powZ (O:=ROps) r2 (i + 1))
            (combine (seqZ (Z.of_nat a) (length c)) c) z0 = z0 + ea_poly a c r2.
Proof.
  induction c as [|cj c IH]; intros a z0; cbn [length].
  - cbn. ring.
  - rewrite seqZ_S. cbn [combine fold_left ea_poly]. rewrite IH.
    replace (Z.of_nat a + 1)%Z with (Z.of_nat (a + 1)) by lia. rewrite powZ_pow. ring.
Qed.

Theorem ea_sag_is_conic_plus_poly x y Rc k c :
  k_ea_sag ROps x y Rc k c = k_std_sag ROps x y Rc k + ea_poly 0 c (x * x + y * y).
Proof.
  unfold k_ea_sag, k_std_sag, enumZ. rops.
  change 0%Z with (Z.of_nat 0). rewrite (ea_sag_fold (x * x + y * y) c 0). reflexivity.
Qed.

Lemma ea_poly_derive a c r2 : is_derive (ea_poly a c) r2 (ea_dpoly a c r2).
Proof.
  revert a. induction c as [|cj c IH]; intros a; cbn [ea_poly ea_dpoly].
  - apply (is_derive_const 0).
  - apply (is_derive_plus (fun r => cj * r ^ (a + 1)) (ea_poly (S a) c)); [|apply IH].
    apply is_derive_scal.
    auto_derive; [exact I|].
    replace (Init.Nat.pred (a + 1)) with a by lia. ring.
Qed.

(** d/dx of the even-asphere sag = conic slope + 2 x * (d poly / d r2), for every coefficient list *)
Theorem ea_sag_dx x y Rc k c : Rc <> 0 -> 0 < rad Rc k x y ->
  is_derive (fun x => k_ea_sag ROps x y Rc k c) x
            (x / (Rc * sqrt (rad Rc k x y)) + 2 * x * ea_dpoly 0 c (x * x + y * y)).
Proof.
  intros HR Hrad.
  apply (is_derive_ext (fun x => k_std_sag ROps x y Rc k + ea_poly 0 c (x * x + y * y))).
  { intros t. symmetry. apply ea_sag_is_conic_plus_poly. }
  apply (is_derive_plus (fun x => k_std_sag ROps x y Rc k) (fun x => ea_poly 0 c (x * x + y * y))).
  - apply std_sag_dx; assumption.
  - replace (2 * x * ea_dpoly 0 c (x * x + y * y)) with ((x * 1 + 1 * x) * ea_dpoly 0 c (x * x + y * y)) by ring.
    apply (is_derive_comp (ea_poly 0 c) (fun x => x * x + y * y)); [apply ea_poly_derive|].
    auto_derive; [exact I|ring].
Qed.

(** the accumulated x-slope of the NORMAL kernel is exactly that derivative *)
Lemma ea_normal_fold (x y r2 : R) c : forall a dx0 dy0,
  fold_left (fun '(dfdx, dfdy) '(i, Ci) =>
               (dfdx + IZR (2 * (i + 1)) * x * Ci * powZ (O:=ROps) r2 i,
                dfdy + IZR (2 * (i + 1)) * y * Ci * powZ (O:=ROps) r2 i))
            (combine (seqZ (Z.of_nat a) (length c)) c) (dx0, dy0)
  = (dx0 + 2 * x * ea_dpoly a c r2, dy0 + 2 * y * ea_dpoly a c r2).
Proof.
  induction c as [|cj c IH]; intros a dx0 dy0; cbn [length].
  - cbn. f_equal; ring.
  - rewrite seqZ_S. cbn [combine fold_left ea_dpoly]. rewrite IH. rewrite powZ_pow.
    replace (2 * (Z.of_nat a + 1))%Z with (2 * Z.of_nat (a + 1))%Z by lia.
    rewrite mult_IZR, <- INR_IZR_INZ. f_equal; ring.
Qed.

Theorem ea_normal_is_gradient x y Rc k c : Rc <> 0 -> 0 < rad Rc k x y ->
  exists gx gy : R,
    is_derive (fun x => k_ea_sag ROps x y Rc k c) x gx /\
    k_ea_normal ROps x y Rc k c =
    (gx / sqrt (gx * gx + gy * gy + 1), gy / sqrt (gx * gx + gy * gy + 1), -1 / sqrt (gx * gx + gy * gy + 1)) /\
    gy = y / (Rc * sqrt (rad Rc k x y)) + 2 * y * ea_dpoly 0 c (x * x + y * y).
Proof.
  intros HR Hrad.
  exists (x / (Rc * sqrt (rad Rc k x y)) + 2 * x * ea_dpoly 0 c (x * x + y * y)),
         (y / (Rc * sqrt (rad Rc k x y)) + 2 * y * ea_dpoly 0 c (x * x + y * y)).
  split; [apply ea_sag_dx; assumption|]. split; [|reflexivity].
  unfold k_ea_normal, enumZ. rops. fold (rad Rc k x y).
  change 0%Z with (Z.of_nat 0).
  rewrite (ea_normal_fold x y (x * x + y * y) c 0). reflexivity.
Qed.

(** * C19 - the codec tables regenerated from /repo (Gen/C19Codec.v) are the ones the hand model
    Model/M_C19.v was written against.  GENERATED ONCE by a script, then frozen by hand: every lemma is
    `reflexivity` between the regenerated table and the literal copied here, so any change of a key, a
    value expression, a default, an argument order or a statement in a to_dict / from_dict / __init__ of an
    anchored class makes this file stop compiling (fail closed).  Every site is pinned in its current (repaired)
    form; should a site be reopened, both texts can be accepted again through the regenerated k_flag definitions. *)
From Coq Require Import List String Bool.
From OV Require Import Gen.C19Codec Model.M_C19.
Import ListNotations.

(** the implementation as described by the current sources *)
Definition impl_now : impl :=
  mkImpl k_flag_fresnel_nested k_flag_pol_codec k_flag_image_from_dict k_flag_aperture_none_ok
         k_flag_pickups_applied_on_load k_flag_plane_conic.

(** optiland/optic.py :: Optic *)
Lemma pin_Optic_bases : k_codec_Optic_bases = [].
Proof. reflexivity. Qed.
Lemma pin_Optic_to_dict : k_codec_Optic_to_dict =
   [("<args>"%string, "self"%string);
    ("<dict>"%string, "data ="%string);
    ("version"%string, "1.0"%string);
    ("aperture"%string, "self.aperture.to_dict() if self.aperture else None"%string);
    ("surface_group"%string, "self.surface_group.to_dict()"%string);
    ("fields"%string, "self.fields.to_dict()"%string);
    ("wavelengths"%string, "self.wavelengths.to_dict()"%string);
    ("pickups"%string, "self.pickups.to_dict()"%string);
    ("solves"%string, "self.solves.to_dict()"%string);
    ("</dict>"%string, ""%string);
    ("data.wavelengths.polarization"%string, "self.polarization.to_dict() if isinstance(self.polarization, PolarizationState) else self.polarization"%string);
    ("data.fields.field_type"%string, "self.field_type"%string);
    ("data.fields.object_space_telecentric"%string, "self.obj_space_telecentric"%string);
    ("<stmt>"%string, "return data"%string)].
Proof. reflexivity. Qed.
Lemma pin_Optic_from_dict : k_codec_Optic_from_dict =
   [("<args>"%string, "cls, data"%string);
    ("<stmt>"%string, "optic = cls()"%string);
    ("<stmt>"%string, "optic.aperture = Aperture.from_dict(data['aperture']) if data['aperture'] else None"%string);
    ("<stmt>"%string, "optic.surface_group = SurfaceGroup.from_dict(data['surface_group'])"%string);
    ("<stmt>"%string, "optic.fields = FieldGroup.from_dict(data['fields'])"%string);
    ("<stmt>"%string, "optic.wavelengths = WavelengthGroup.from_dict(data['wavelengths'])"%string);
    ("<stmt>"%string, "optic.pickups = PickupManager.from_dict(optic, data['pickups'])"%string);
    ("<stmt>"%string, "optic.solves = SolveManager.from_dict(optic, data['solves'])"%string);
    ("<stmt>"%string, "polarization = data['wavelengths']['polarization']"%string);
    ("<stmt>"%string, "optic.polarization = PolarizationState.from_dict(polarization) if isinstance(polarization, dict) else polarization"%string);
    ("<stmt>"%string, "optic.field_type = data['fields']['field_type']"%string);
    ("<stmt>"%string, "optic.obj_space_telecentric = data['fields']['object_space_telecentric']"%string);
    ("<stmt>"%string, "optic.paraxial = Paraxial(optic)"%string);
    ("<stmt>"%string, "optic.aberrations = Aberrations(optic)"%string);
    ("<stmt>"%string, "optic.ray_generator = RayGenerator(optic)"%string);
    ("<stmt>"%string, "return optic"%string)].
Proof. reflexivity. Qed.

(** optiland/surfaces/surface_group.py :: SurfaceGroup *)
Lemma pin_SurfaceGroup_bases : k_codec_SurfaceGroup_bases = [].
Proof. reflexivity. Qed.
Lemma pin_SurfaceGroup_to_dict : k_codec_SurfaceGroup_to_dict =
   [("<args>"%string, "self"%string);
    ("<dict>"%string, "return"%string);
    ("surfaces"%string, "[surface.to_dict() for surface in self.surfaces]"%string);
    ("</dict>"%string, ""%string)].
Proof. reflexivity. Qed.
Lemma pin_SurfaceGroup_from_dict : k_codec_SurfaceGroup_from_dict =
   [("<args>"%string, "cls, data"%string);
    ("<return-call>"%string, "cls"%string);
    ("#0"%string, "[Surface.from_dict(surface_data) for surface_data in data['surfaces']]"%string)].
Proof. reflexivity. Qed.
Lemma pin_SurfaceGroup_init : k_codec_SurfaceGroup_init =
   [("<args>"%string, "self, surfaces=None"%string);
    ("<if>"%string, "surfaces is None"%string);
    ("<stmt>"%string, "  self.surfaces = []"%string);
    ("<else>"%string, ""%string);
    ("<stmt>"%string, "  self.surfaces = surfaces"%string);
    ("<endif>"%string, ""%string);
    ("<stmt>"%string, "self.surface_factory = SurfaceFactory(self)"%string)].
Proof. reflexivity. Qed.

(** optiland/surfaces/standard_surface.py :: Surface *)
Lemma pin_Surface_bases : k_codec_Surface_bases = [].
Proof. reflexivity. Qed.
Lemma pin_Surface_to_dict : k_codec_Surface_to_dict =
   [("<args>"%string, "self"%string);
    ("<dict>"%string, "return"%string);
    ("type"%string, "self.__class__.__name__"%string);
    ("geometry"%string, "self.geometry.to_dict()"%string);
    ("material_pre"%string, "self.material_pre.to_dict()"%string);
    ("material_post"%string, "self.material_post.to_dict()"%string);
    ("is_stop"%string, "self.is_stop"%string);
    ("aperture"%string, "self.aperture.to_dict() if self.aperture else None"%string);
    ("coating"%string, "self.coating.to_dict() if self.coating else None"%string);
    ("bsdf"%string, "self.bsdf.to_dict() if self.bsdf else None"%string);
    ("is_reflective"%string, "self.is_reflective"%string);
    ("</dict>"%string, ""%string)].
Proof. reflexivity. Qed.
Lemma pin_Surface_from_dict : k_codec_Surface_from_dict =
   [("<args>"%string, "cls, data"%string);
    ("<if>"%string, "'type' not in data"%string);
    ("<stmt>"%string, "  raise ValueError(""Missing 'type' field."")"%string);
    ("<endif>"%string, ""%string);
    ("<stmt>"%string, "type_name = data['type']"%string);
    ("<stmt>"%string, "subclass = cls._registry.get(type_name, cls)"%string);
    ("<return-call>"%string, "subclass._from_dict"%string);
    ("#0"%string, "data"%string)].
Proof. reflexivity. Qed.
Lemma pin_Surface_p_from_dict : k_codec_Surface_p_from_dict =
   [("<args>"%string, "cls, data"%string);
    ("<stmt>"%string, "surface_type = data.get('type')"%string);
    ("<stmt>"%string, "geometry = BaseGeometry.from_dict(data['geometry'])"%string);
    ("<stmt>"%string, "material_pre = BaseMaterial.from_dict(data['material_pre'])"%string);
    ("<stmt>"%string, "material_post = BaseMaterial.from_dict(data['material_post'])"%string);
    ("<stmt>"%string, "aperture = BaseAperture.from_dict(data['aperture']) if data['aperture'] else None"%string);
    ("<stmt>"%string, "coating = BaseCoating.from_dict(data['coating']) if data['coating'] else None"%string);
    ("<stmt>"%string, "bsdf = BaseBSDF.from_dict(data['bsdf']) if data['bsdf'] else None"%string);
    ("<stmt>"%string, "surface_class = cls._registry.get(surface_type, cls)"%string);
    ("<return-call>"%string, "surface_class"%string);
    ("#0"%string, "geometry"%string);
    ("#1"%string, "material_pre"%string);
    ("#2"%string, "material_post"%string);
    ("#3"%string, "data['is_stop']"%string);
    ("#4"%string, "aperture"%string);
    ("#5"%string, "coating"%string);
    ("#6"%string, "bsdf"%string);
    ("#7"%string, "data['is_reflective']"%string)].
Proof. reflexivity. Qed.
Lemma pin_Surface_init : k_codec_Surface_init =
   [("<args>"%string, "self, geometry, material_pre, material_post, is_stop=False, aperture=None, coating=None, bsdf=None, is_reflective=False"%string);
    ("<stmt>"%string, "self.geometry = geometry"%string);
    ("<stmt>"%string, "self.material_pre = material_pre"%string);
    ("<stmt>"%string, "self.material_post = material_post"%string);
    ("<stmt>"%string, "self.is_stop = is_stop"%string);
    ("<stmt>"%string, "self.aperture = aperture"%string);
    ("<stmt>"%string, "self.semi_aperture = None"%string);
    ("<stmt>"%string, "self.coating = coating"%string);
    ("<stmt>"%string, "self.bsdf = bsdf"%string);
    ("<stmt>"%string, "self.is_reflective = is_reflective"%string);
    ("<stmt>"%string, "self.reset()"%string)].
Proof. reflexivity. Qed.

(** optiland/surfaces/object_surface.py :: ObjectSurface *)
Lemma pin_ObjectSurface_bases : k_codec_ObjectSurface_bases = ["Surface"%string].
Proof. reflexivity. Qed.
Lemma pin_ObjectSurface_to_dict : k_codec_ObjectSurface_to_dict =
   [("<args>"%string, "self"%string);
    ("<dict>"%string, "return"%string);
    ("type"%string, "self.__class__.__name__"%string);
    ("geometry"%string, "self.geometry.to_dict()"%string);
    ("material_post"%string, "self.material_post.to_dict()"%string);
    ("</dict>"%string, ""%string)].
Proof. reflexivity. Qed.
Lemma pin_ObjectSurface_p_from_dict : k_codec_ObjectSurface_p_from_dict =
   [("<args>"%string, "cls, data"%string);
    ("<stmt>"%string, "geometry = BaseGeometry.from_dict(data['geometry'])"%string);
    ("<stmt>"%string, "material_post = BaseMaterial.from_dict(data['material_post'])"%string);
    ("<return-call>"%string, "cls"%string);
    ("#0"%string, "geometry"%string);
    ("#1"%string, "material_post"%string)].
Proof. reflexivity. Qed.
Lemma pin_ObjectSurface_init : k_codec_ObjectSurface_init =
   [("<args>"%string, "self, geometry, material_post"%string);
    ("<stmt>"%string, "super().__init__(geometry=geometry, material_pre=material_post, material_post=material_post, is_stop=False, aperture=None)"%string)].
Proof. reflexivity. Qed.

(** optiland/surfaces/image_surface.py :: ImageSurface *)
Lemma pin_ImageSurface_bases : k_codec_ImageSurface_bases = ["Surface"%string].
Proof. reflexivity. Qed.
Lemma pin_ImageSurface_to_dict : k_codec_ImageSurface_to_dict =
   [("<absent>"%string, ""%string)].
Proof. reflexivity. Qed.
Lemma pin_ImageSurface_p_from_dict : k_codec_ImageSurface_p_from_dict =
   [("<args>"%string, "cls, data"%string);
    ("<stmt>"%string, "geometry = BaseGeometry.from_dict(data['geometry'])"%string);
    ("<stmt>"%string, "material_pre = BaseMaterial.from_dict(data['material_pre'])"%string);
    ("<stmt>"%string, "aperture = BaseAperture.from_dict(data['aperture']) if data['aperture'] else None"%string);
    ("<return-call>"%string, "cls"%string);
    ("#0"%string, "geometry"%string);
    ("#1"%string, "material_pre"%string);
    ("#2"%string, "aperture"%string)].
Proof. reflexivity. Qed.
Lemma pin_ImageSurface_init : k_codec_ImageSurface_init =
   [("<args>"%string, "self, geometry, material_pre, aperture=None"%string);
    ("<stmt>"%string, "super().__init__(geometry=geometry, material_pre=material_pre, material_post=material_pre, is_stop=False, aperture=aperture)"%string)].
Proof. reflexivity. Qed.

(** optiland/coordinate_system.py :: CoordinateSystem *)
Lemma pin_CoordinateSystem_bases : k_codec_CoordinateSystem_bases = [].
Proof. reflexivity. Qed.
Lemma pin_CoordinateSystem_to_dict : k_codec_CoordinateSystem_to_dict =
   [("<args>"%string, "self"%string);
    ("<dict>"%string, "return"%string);
    ("x"%string, "self.x"%string);
    ("y"%string, "self.y"%string);
    ("z"%string, "self.z"%string);
    ("rx"%string, "self.rx"%string);
    ("ry"%string, "self.ry"%string);
    ("rz"%string, "self.rz"%string);
    ("reference_cs"%string, "self.reference_cs.to_dict() if self.reference_cs else None"%string);
    ("</dict>"%string, ""%string)].
Proof. reflexivity. Qed.
Lemma pin_CoordinateSystem_from_dict : k_codec_CoordinateSystem_from_dict =
   [("<args>"%string, "cls, data"%string);
    ("<stmt>"%string, "reference_cs = cls.from_dict(data['reference_cs']) if data['reference_cs'] else None"%string);
    ("<return-call>"%string, "cls"%string);
    ("#0"%string, "data.get('x', 0)"%string);
    ("#1"%string, "data.get('y', 0)"%string);
    ("#2"%string, "data.get('z', 0)"%string);
    ("#3"%string, "data.get('rx', 0)"%string);
    ("#4"%string, "data.get('ry', 0)"%string);
    ("#5"%string, "data.get('rz', 0)"%string);
    ("#6"%string, "reference_cs"%string)].
Proof. reflexivity. Qed.
Lemma pin_CoordinateSystem_init : k_codec_CoordinateSystem_init =
   [("<args>"%string, "self, x=0, y=0, z=0, rx=0, ry=0, rz=0, reference_cs=None"%string);
    ("<stmt>"%string, "self.x = x"%string);
    ("<stmt>"%string, "self.y = y"%string);
    ("<stmt>"%string, "self.z = z"%string);
    ("<stmt>"%string, "self.rx = rx"%string);
    ("<stmt>"%string, "self.ry = ry"%string);
    ("<stmt>"%string, "self.rz = rz"%string);
    ("<stmt>"%string, "self.reference_cs = reference_cs"%string)].
Proof. reflexivity. Qed.

(** optiland/geometries/base.py :: BaseGeometry *)
Lemma pin_BaseGeometry_bases : k_codec_BaseGeometry_bases = ["ABC"%string].
Proof. reflexivity. Qed.
Lemma pin_BaseGeometry_to_dict : k_codec_BaseGeometry_to_dict =
   [("<args>"%string, "self"%string);
    ("<dict>"%string, "return"%string);
    ("type"%string, "self.__class__.__name__"%string);
    ("cs"%string, "self.cs.to_dict()"%string);
    ("</dict>"%string, ""%string)].
Proof. reflexivity. Qed.
Lemma pin_BaseGeometry_from_dict : k_codec_BaseGeometry_from_dict =
   [("<args>"%string, "cls, data"%string);
    ("<stmt>"%string, "geometry_type = data.get('type')"%string);
    ("<if>"%string, "geometry_type not in cls._registry"%string);
    ("<stmt>"%string, "  raise ValueError(f'Unknown geometry type: {geometry_type}')"%string);
    ("<endif>"%string, ""%string);
    ("<return-call>"%string, "cls._registry[geometry_type].from_dict"%string);
    ("#0"%string, "data"%string)].
Proof. reflexivity. Qed.
Lemma pin_BaseGeometry_init : k_codec_BaseGeometry_init =
   [("<args>"%string, "self, coordinate_system"%string);
    ("<stmt>"%string, "self.cs = coordinate_system"%string)].
Proof. reflexivity. Qed.

(** optiland/geometries/plane.py :: Plane *)
Lemma pin_Plane_bases : k_codec_Plane_bases = ["BaseGeometry"%string].
Proof. reflexivity. Qed.
Lemma pin_Plane_to_dict : k_codec_Plane_to_dict =
   [("<args>"%string, "self"%string);
    ("<stmt>"%string, "geometry_dict = super().to_dict()"%string);
    ("<dict>"%string, "geometry_dict.update"%string);
    ("radius"%string, "np.inf"%string);
    ("</dict>"%string, ""%string);
    ("<if>"%string, "getattr(self, 'k', 0) != 0"%string);
    ("  geometry_dict.conic"%string, "self.k"%string);
    ("<endif>"%string, ""%string);
    ("<stmt>"%string, "return geometry_dict"%string)].
Proof. reflexivity. Qed.
Lemma pin_Plane_from_dict : k_codec_Plane_from_dict =
   [("<args>"%string, "cls, data"%string);
    ("<stmt>"%string, "cs = CoordinateSystem.from_dict(data['cs'])"%string);
    ("<stmt>"%string, "plane = cls(cs)"%string);
    ("<if>"%string, "data.get('conic', 0) != 0"%string);
    ("<stmt>"%string, "  plane.k = data['conic']"%string);
    ("<endif>"%string, ""%string);
    ("<stmt>"%string, "return plane"%string)].
Proof. reflexivity. Qed.
Lemma pin_Plane_init : k_codec_Plane_init =
   [("<args>"%string, "self, coordinate_system"%string);
    ("<stmt>"%string, "super().__init__(coordinate_system)"%string);
    ("<stmt>"%string, "self.radius = np.inf"%string);
    ("<stmt>"%string, "self.is_symmetric = True"%string)].
Proof. reflexivity. Qed.

(** optiland/geometries/standard.py :: StandardGeometry *)
Lemma pin_StandardGeometry_bases : k_codec_StandardGeometry_bases = ["BaseGeometry"%string].
Proof. reflexivity. Qed.
Lemma pin_StandardGeometry_to_dict : k_codec_StandardGeometry_to_dict =
   [("<args>"%string, "self"%string);
    ("<stmt>"%string, "geometry_dict = super().to_dict()"%string);
    ("<dict>"%string, "geometry_dict.update"%string);
    ("radius"%string, "self.radius"%string);
    ("conic"%string, "self.k"%string);
    ("</dict>"%string, ""%string);
    ("<stmt>"%string, "return geometry_dict"%string)].
Proof. reflexivity. Qed.
Lemma pin_StandardGeometry_from_dict : k_codec_StandardGeometry_from_dict =
   [("<args>"%string, "cls, data"%string);
    ("<stmt>"%string, "required_keys = {'cs', 'radius'}"%string);
    ("<if>"%string, "not required_keys.issubset(data)"%string);
    ("<stmt>"%string, "  missing = required_keys - data.keys()"%string);
    ("<stmt>"%string, "  raise ValueError(f'Missing required keys: {missing}')"%string);
    ("<endif>"%string, ""%string);
    ("<stmt>"%string, "cs = CoordinateSystem.from_dict(data['cs'])"%string);
    ("<return-call>"%string, "cls"%string);
    ("#0"%string, "cs"%string);
    ("#1"%string, "data['radius']"%string);
    ("#2"%string, "data.get('conic', 0.0)"%string)].
Proof. reflexivity. Qed.
Lemma pin_StandardGeometry_init : k_codec_StandardGeometry_init =
   [("<args>"%string, "self, coordinate_system, radius, conic=0.0"%string);
    ("<stmt>"%string, "super().__init__(coordinate_system)"%string);
    ("<stmt>"%string, "self.radius = radius"%string);
    ("<stmt>"%string, "self.k = conic"%string);
    ("<stmt>"%string, "self.is_symmetric = True"%string)].
Proof. reflexivity. Qed.

(** optiland/geometries/newton_raphson.py :: NewtonRaphsonGeometry *)
Lemma pin_NewtonRaphsonGeometry_bases : k_codec_NewtonRaphsonGeometry_bases = ["StandardGeometry"%string; "ABC"%string].
Proof. reflexivity. Qed.
Lemma pin_NewtonRaphsonGeometry_to_dict : k_codec_NewtonRaphsonGeometry_to_dict =
   [("<args>"%string, "self"%string);
    ("<stmt>"%string, "geometry_dict = super().to_dict()"%string);
    ("<dict>"%string, "geometry_dict.update"%string);
    ("tol"%string, "self.tol"%string);
    ("max_iter"%string, "self.max_iter"%string);
    ("</dict>"%string, ""%string);
    ("<stmt>"%string, "return geometry_dict"%string)].
Proof. reflexivity. Qed.
Lemma pin_NewtonRaphsonGeometry_from_dict : k_codec_NewtonRaphsonGeometry_from_dict =
   [("<args>"%string, "cls, data"%string);
    ("<stmt>"%string, "required_keys = {'cs', 'radius'}"%string);
    ("<if>"%string, "not required_keys.issubset(data)"%string);
    ("<stmt>"%string, "  missing = required_keys - data.keys()"%string);
    ("<stmt>"%string, "  raise ValueError(f'Missing required keys: {missing}')"%string);
    ("<endif>"%string, ""%string);
    ("<stmt>"%string, "cs = CoordinateSystem.from_dict(data['cs'])"%string);
    ("<stmt>"%string, "conic = data.get('conic', 0.0)"%string);
    ("<stmt>"%string, "tol = data.get('tol', 1e-10)"%string);
    ("<stmt>"%string, "max_iter = data.get('max_iter', 100)"%string);
    ("<return-call>"%string, "cls"%string);
    ("#0"%string, "cs"%string);
    ("#1"%string, "data['radius']"%string);
    ("#2"%string, "conic"%string);
    ("#3"%string, "tol"%string);
    ("#4"%string, "max_iter"%string)].
Proof. reflexivity. Qed.
Lemma pin_NewtonRaphsonGeometry_init : k_codec_NewtonRaphsonGeometry_init =
   [("<args>"%string, "self, coordinate_system, radius, conic=0.0, tol=1e-10, max_iter=100"%string);
    ("<stmt>"%string, "super().__init__(coordinate_system, radius, conic)"%string);
    ("<stmt>"%string, "self.tol = tol"%string);
    ("<stmt>"%string, "self.max_iter = max_iter"%string)].
Proof. reflexivity. Qed.

(** optiland/geometries/even_asphere.py :: EvenAsphere *)
Lemma pin_EvenAsphere_bases : k_codec_EvenAsphere_bases = ["NewtonRaphsonGeometry"%string].
Proof. reflexivity. Qed.
Lemma pin_EvenAsphere_to_dict : k_codec_EvenAsphere_to_dict =
   [("<args>"%string, "self"%string);
    ("<stmt>"%string, "data = super().to_dict()"%string);
    ("data.coefficients"%string, "list(self.c)"%string);
    ("<stmt>"%string, "return data"%string)].
Proof. reflexivity. Qed.
Lemma pin_EvenAsphere_from_dict : k_codec_EvenAsphere_from_dict =
   [("<args>"%string, "cls, data"%string);
    ("<stmt>"%string, "required_keys = {'cs', 'radius'}"%string);
    ("<if>"%string, "not required_keys.issubset(data)"%string);
    ("<stmt>"%string, "  missing = required_keys - data.keys()"%string);
    ("<stmt>"%string, "  raise ValueError(f'Missing required keys: {missing}')"%string);
    ("<endif>"%string, ""%string);
    ("<stmt>"%string, "cs = CoordinateSystem.from_dict(data['cs'])"%string);
    ("<stmt>"%string, "conic = data.get('conic', 0.0)"%string);
    ("<stmt>"%string, "tol = data.get('tol', 1e-10)"%string);
    ("<stmt>"%string, "max_iter = data.get('max_iter', 100)"%string);
    ("<stmt>"%string, "coefficients = list(data.get('coefficients', []))"%string);
    ("<return-call>"%string, "cls"%string);
    ("#0"%string, "cs"%string);
    ("#1"%string, "data['radius']"%string);
    ("#2"%string, "conic"%string);
    ("#3"%string, "tol"%string);
    ("#4"%string, "max_iter"%string);
    ("#5"%string, "coefficients"%string)].
Proof. reflexivity. Qed.
Lemma pin_EvenAsphere_init : k_codec_EvenAsphere_init =
   [("<args>"%string, "self, coordinate_system, radius, conic=0.0, tol=1e-10, max_iter=100, coefficients=[]"%string);
    ("<stmt>"%string, "super().__init__(coordinate_system, radius, conic, tol, max_iter)"%string);
    ("<stmt>"%string, "self.c = coefficients"%string);
    ("<stmt>"%string, "self.is_symmetric = True"%string)].
Proof. reflexivity. Qed.

(** optiland/geometries/polynomial.py :: PolynomialGeometry *)
Lemma pin_PolynomialGeometry_bases : k_codec_PolynomialGeometry_bases = ["NewtonRaphsonGeometry"%string].
Proof. reflexivity. Qed.
Lemma pin_PolynomialGeometry_to_dict : k_codec_PolynomialGeometry_to_dict =
   [("<args>"%string, "self"%string);
    ("<stmt>"%string, "geometry_dict = super().to_dict()"%string);
    ("geometry_dict.coefficients"%string, "self.c.tolist()"%string);
    ("<stmt>"%string, "return geometry_dict"%string)].
Proof. reflexivity. Qed.
Lemma pin_PolynomialGeometry_from_dict : k_codec_PolynomialGeometry_from_dict =
   [("<args>"%string, "cls, data"%string);
    ("<stmt>"%string, "required_keys = {'cs', 'radius'}"%string);
    ("<if>"%string, "not required_keys.issubset(data)"%string);
    ("<stmt>"%string, "  missing = required_keys - data.keys()"%string);
    ("<stmt>"%string, "  raise ValueError(f'Missing required keys: {missing}')"%string);
    ("<endif>"%string, ""%string);
    ("<stmt>"%string, "cs = CoordinateSystem.from_dict(data['cs'])"%string);
    ("<return-call>"%string, "cls"%string);
    ("#0"%string, "cs"%string);
    ("#1"%string, "data['radius']"%string);
    ("#2"%string, "data.get('conic', 0.0)"%string);
    ("#3"%string, "data.get('tol', 1e-10)"%string);
    ("#4"%string, "data.get('max_iter', 100)"%string);
    ("#5"%string, "data.get('coefficients', [])"%string)].
Proof. reflexivity. Qed.
Lemma pin_PolynomialGeometry_init : k_codec_PolynomialGeometry_init =
   [("<args>"%string, "self, coordinate_system, radius, conic=0.0, tol=1e-10, max_iter=100, coefficients=[]"%string);
    ("<stmt>"%string, "super().__init__(coordinate_system, radius, conic, tol, max_iter)"%string);
    ("<stmt>"%string, "self.c = np.atleast_2d(np.asarray(coefficients, dtype=float))"%string);
    ("<stmt>"%string, "self.is_symmetric = False"%string);
    ("<if>"%string, "len(self.c) == 0"%string);
    ("<stmt>"%string, "  self.c = np.zeros((1, 1))"%string);
    ("<endif>"%string, ""%string)].
Proof. reflexivity. Qed.

(** optiland/geometries/chebyshev.py :: ChebyshevPolynomialGeometry *)
Lemma pin_ChebyshevGeometry_bases : k_codec_ChebyshevGeometry_bases = ["NewtonRaphsonGeometry"%string].
Proof. reflexivity. Qed.
Lemma pin_ChebyshevGeometry_to_dict : k_codec_ChebyshevGeometry_to_dict =
   [("<args>"%string, "self"%string);
    ("<stmt>"%string, "geometry_dict = super().to_dict()"%string);
    ("<dict>"%string, "geometry_dict.update"%string);
    ("coefficients"%string, "self.c.tolist()"%string);
    ("norm_x"%string, "self.norm_x"%string);
    ("norm_y"%string, "self.norm_y"%string);
    ("</dict>"%string, ""%string);
    ("<stmt>"%string, "return geometry_dict"%string)].
Proof. reflexivity. Qed.
Lemma pin_ChebyshevGeometry_from_dict : k_codec_ChebyshevGeometry_from_dict =
   [("<args>"%string, "cls, data"%string);
    ("<stmt>"%string, "required_keys = {'cs', 'radius'}"%string);
    ("<if>"%string, "not required_keys.issubset(data)"%string);
    ("<stmt>"%string, "  missing = required_keys - data.keys()"%string);
    ("<stmt>"%string, "  raise ValueError(f'Missing required keys: {missing}')"%string);
    ("<endif>"%string, ""%string);
    ("<stmt>"%string, "cs = CoordinateSystem.from_dict(data['cs'])"%string);
    ("<return-call>"%string, "cls"%string);
    ("#0"%string, "cs"%string);
    ("#1"%string, "data['radius']"%string);
    ("#2"%string, "data.get('conic', 0.0)"%string);
    ("#3"%string, "data.get('tol', 1e-10)"%string);
    ("#4"%string, "data.get('max_iter', 100)"%string);
    ("#5"%string, "data.get('coefficients', [])"%string);
    ("#6"%string, "data.get('norm_x', 1)"%string);
    ("#7"%string, "data.get('norm_y', 1)"%string)].
Proof. reflexivity. Qed.
Lemma pin_ChebyshevGeometry_init : k_codec_ChebyshevGeometry_init =
   [("<args>"%string, "self, coordinate_system, radius, conic=0.0, tol=1e-10, max_iter=100, coefficients=[], norm_x=1, norm_y=1"%string);
    ("<stmt>"%string, "super().__init__(coordinate_system, radius, conic, tol, max_iter)"%string);
    ("<stmt>"%string, "self.c = np.atleast_2d(np.asarray(coefficients, dtype=float))"%string);
    ("<stmt>"%string, "self.norm_x = norm_x"%string);
    ("<stmt>"%string, "self.norm_y = norm_y"%string);
    ("<stmt>"%string, "self.is_symmetric = False"%string)].
Proof. reflexivity. Qed.

(** optiland/materials/base.py :: BaseMaterial *)
Lemma pin_BaseMaterial_bases : k_codec_BaseMaterial_bases = ["ABC"%string].
Proof. reflexivity. Qed.
Lemma pin_BaseMaterial_to_dict : k_codec_BaseMaterial_to_dict =
   [("<args>"%string, "self"%string);
    ("<dict>"%string, "return"%string);
    ("type"%string, "self.__class__.__name__"%string);
    ("</dict>"%string, ""%string)].
Proof. reflexivity. Qed.
Lemma pin_BaseMaterial_from_dict : k_codec_BaseMaterial_from_dict =
   [("<args>"%string, "cls, data"%string);
    ("<stmt>"%string, "material_type = data.get('type')"%string);
    ("<if>"%string, "material_type not in cls._registry"%string);
    ("<stmt>"%string, "  raise ValueError(f'Unknown material type: {material_type}')"%string);
    ("<endif>"%string, ""%string);
    ("<return-call>"%string, "cls._registry[material_type].from_dict"%string);
    ("#0"%string, "data"%string)].
Proof. reflexivity. Qed.

(** optiland/materials/ideal.py :: IdealMaterial *)
Lemma pin_IdealMaterial_bases : k_codec_IdealMaterial_bases = ["BaseMaterial"%string].
Proof. reflexivity. Qed.
Lemma pin_IdealMaterial_to_dict : k_codec_IdealMaterial_to_dict =
   [("<args>"%string, "self"%string);
    ("<stmt>"%string, "material_dict = super().to_dict()"%string);
    ("<dict>"%string, "material_dict.update"%string);
    ("index"%string, "self.index"%string);
    ("absorp"%string, "self.absorp"%string);
    ("</dict>"%string, ""%string);
    ("<stmt>"%string, "return material_dict"%string)].
Proof. reflexivity. Qed.
Lemma pin_IdealMaterial_from_dict : k_codec_IdealMaterial_from_dict =
   [("<args>"%string, "cls, data"%string);
    ("<return-call>"%string, "cls"%string);
    ("#0"%string, "data['index']"%string);
    ("#1"%string, "data.get('absorp', 0)"%string)].
Proof. reflexivity. Qed.
Lemma pin_IdealMaterial_init : k_codec_IdealMaterial_init =
   [("<args>"%string, "self, n, k=0"%string);
    ("<stmt>"%string, "self.index = n"%string);
    ("<stmt>"%string, "self.absorp = k"%string)].
Proof. reflexivity. Qed.

(** optiland/materials/mirror.py :: Mirror *)
Lemma pin_Mirror_bases : k_codec_Mirror_bases = ["IdealMaterial"%string].
Proof. reflexivity. Qed.
Lemma pin_Mirror_to_dict : k_codec_Mirror_to_dict =
   [("<absent>"%string, ""%string)].
Proof. reflexivity. Qed.
Lemma pin_Mirror_from_dict : k_codec_Mirror_from_dict =
   [("<args>"%string, "cls, data"%string);
    ("<return-call>"%string, "Mirror"%string)].
Proof. reflexivity. Qed.
Lemma pin_Mirror_init : k_codec_Mirror_init =
   [("<args>"%string, "self"%string);
    ("<stmt>"%string, "super().__init__(n=-1.0, k=0.0)"%string)].
Proof. reflexivity. Qed.

(** optiland/materials/abbe.py :: AbbeMaterial *)
Lemma pin_AbbeMaterial_bases : k_codec_AbbeMaterial_bases = ["BaseMaterial"%string].
Proof. reflexivity. Qed.
Lemma pin_AbbeMaterial_to_dict : k_codec_AbbeMaterial_to_dict =
   [("<args>"%string, "self"%string);
    ("<stmt>"%string, "material_dict = super().to_dict()"%string);
    ("<dict>"%string, "material_dict.update"%string);
    ("index"%string, "self.index"%string);
    ("abbe"%string, "self.abbe"%string);
    ("</dict>"%string, ""%string);
    ("<stmt>"%string, "return material_dict"%string)].
Proof. reflexivity. Qed.
Lemma pin_AbbeMaterial_from_dict : k_codec_AbbeMaterial_from_dict =
   [("<args>"%string, "cls, data"%string);
    ("<stmt>"%string, "required_keys = ['index', 'abbe']"%string);
    ("<for>"%string, "key in required_keys"%string);
    ("<if>"%string, "  key not in data"%string);
    ("<stmt>"%string, "    raise ValueError(f'Missing required key: {key}')"%string);
    ("<endif>"%string, "  "%string);
    ("<endfor>"%string, ""%string);
    ("<return-call>"%string, "cls"%string);
    ("#0"%string, "data['index']"%string);
    ("#1"%string, "data['abbe']"%string)].
Proof. reflexivity. Qed.
Lemma pin_AbbeMaterial_init : k_codec_AbbeMaterial_init =
   [("<args>"%string, "self, n, abbe"%string);
    ("<stmt>"%string, "self.index = n"%string);
    ("<stmt>"%string, "self.abbe = abbe"%string);
    ("<stmt>"%string, "self._p = self._get_coefficients()"%string)].
Proof. reflexivity. Qed.

(** optiland/materials/material.py :: Material *)
Lemma pin_Material_bases : k_codec_Material_bases = ["MaterialFile"%string].
Proof. reflexivity. Qed.
Lemma pin_Material_to_dict : k_codec_Material_to_dict =
   [("<args>"%string, "self"%string);
    ("<stmt>"%string, "material_dict = super().to_dict()"%string);
    ("<dict>"%string, "material_dict.update"%string);
    ("name"%string, "self.name"%string);
    ("reference"%string, "self.reference"%string);
    ("robust_search"%string, "self.robust"%string);
    ("min_wavelength"%string, "self.min_wavelength"%string);
    ("max_wavelength"%string, "self.max_wavelength"%string);
    ("</dict>"%string, ""%string);
    ("<stmt>"%string, "return material_dict"%string)].
Proof. reflexivity. Qed.
Lemma pin_Material_from_dict : k_codec_Material_from_dict =
   [("<args>"%string, "cls, data"%string);
    ("<if>"%string, "'name' not in data"%string);
    ("<stmt>"%string, "  raise ValueError('Missing required key: name')"%string);
    ("<endif>"%string, ""%string);
    ("<return-call>"%string, "cls"%string);
    ("#0"%string, "data['name']"%string);
    ("#1"%string, "data.get('reference', None)"%string);
    ("#2"%string, "data.get('robust_search', True)"%string);
    ("#3"%string, "data.get('min_wavelength', None)"%string);
    ("#4"%string, "data.get('max_wavelength', None)"%string)].
Proof. reflexivity. Qed.
Lemma pin_Material_init : k_codec_Material_init =
   [("<args>"%string, "self, name, reference=None, robust_search=True, min_wavelength=None, max_wavelength=None"%string);
    ("<stmt>"%string, "self.name = name"%string);
    ("<stmt>"%string, "self.reference = reference"%string);
    ("<stmt>"%string, "self.robust = robust_search"%string);
    ("<stmt>"%string, "self.min_wavelength = min_wavelength"%string);
    ("<stmt>"%string, "self.max_wavelength = max_wavelength"%string);
    ("<stmt>"%string, "file, self.material_data = self._retrieve_file()"%string);
    ("<stmt>"%string, "super().__init__(file)"%string)].
Proof. reflexivity. Qed.

(** optiland/materials/material_file.py :: MaterialFile *)
Lemma pin_MaterialFile_bases : k_codec_MaterialFile_bases = ["BaseMaterial"%string].
Proof. reflexivity. Qed.
Lemma pin_MaterialFile_to_dict : k_codec_MaterialFile_to_dict =
   [("<args>"%string, "self"%string);
    ("<stmt>"%string, "material_dict = super().to_dict()"%string);
    ("<dict>"%string, "material_dict.update"%string);
    ("filename"%string, "self.filename"%string);
    ("</dict>"%string, ""%string);
    ("<stmt>"%string, "return material_dict"%string)].
Proof. reflexivity. Qed.
Lemma pin_MaterialFile_from_dict : k_codec_MaterialFile_from_dict =
   [("<args>"%string, "cls, data"%string);
    ("<if>"%string, "'filename' not in data"%string);
    ("<stmt>"%string, "  raise ValueError('Material file data missing filename.')"%string);
    ("<endif>"%string, ""%string);
    ("<stmt>"%string, "material = cls(data['filename'])"%string);
    ("<stmt>"%string, "return material"%string)].
Proof. reflexivity. Qed.

(** optiland/coatings.py :: BaseCoating *)
Lemma pin_BaseCoating_bases : k_codec_BaseCoating_bases = ["ABC"%string].
Proof. reflexivity. Qed.
Lemma pin_BaseCoating_to_dict : k_codec_BaseCoating_to_dict =
   [("<args>"%string, "self"%string);
    ("<dict>"%string, "return"%string);
    ("type"%string, "self.__class__.__name__"%string);
    ("</dict>"%string, ""%string)].
Proof. reflexivity. Qed.
Lemma pin_BaseCoating_from_dict : k_codec_BaseCoating_from_dict =
   [("<args>"%string, "cls, data"%string);
    ("<stmt>"%string, "coating_type = data['type']"%string);
    ("<return-call>"%string, "cls._registry[coating_type].from_dict"%string);
    ("#0"%string, "data"%string)].
Proof. reflexivity. Qed.

(** optiland/coatings.py :: SimpleCoating *)
Lemma pin_SimpleCoating_bases : k_codec_SimpleCoating_bases = ["BaseCoating"%string].
Proof. reflexivity. Qed.
Lemma pin_SimpleCoating_to_dict : k_codec_SimpleCoating_to_dict =
   [("<args>"%string, "self"%string);
    ("<dict>"%string, "return"%string);
    ("type"%string, "self.__class__.__name__"%string);
    ("transmittance"%string, "self.transmittance"%string);
    ("reflectance"%string, "self.reflectance"%string);
    ("</dict>"%string, ""%string)].
Proof. reflexivity. Qed.
Lemma pin_SimpleCoating_from_dict : k_codec_SimpleCoating_from_dict =
   [("<args>"%string, "cls, data"%string);
    ("<return-call>"%string, "cls"%string);
    ("#0"%string, "data['transmittance']"%string);
    ("#1"%string, "data['reflectance']"%string)].
Proof. reflexivity. Qed.
Lemma pin_SimpleCoating_init : k_codec_SimpleCoating_init =
   [("<args>"%string, "self, transmittance, reflectance=0"%string);
    ("<stmt>"%string, "self.transmittance = transmittance"%string);
    ("<stmt>"%string, "self.reflectance = reflectance"%string);
    ("<stmt>"%string, "self.absorptance = 1 - reflectance - transmittance"%string)].
Proof. reflexivity. Qed.

(** optiland/coatings.py :: FresnelCoating *)
Lemma pin_FresnelCoating_bases : k_codec_FresnelCoating_bases = ["BaseCoatingPolarized"%string].
Proof. reflexivity. Qed.
Lemma pin_FresnelCoating_to_dict : k_codec_FresnelCoating_to_dict =
   [("<args>"%string, "self"%string);
    ("<dict>"%string, "return"%string);
    ("type"%string, "self.__class__.__name__"%string);
    ("material_pre"%string, "self.material_pre.to_dict()"%string);
    ("material_post"%string, "self.material_post.to_dict()"%string);
    ("</dict>"%string, ""%string)].
Proof. reflexivity. Qed.
Lemma pin_FresnelCoating_from_dict : k_codec_FresnelCoating_from_dict =
   [("<args>"%string, "cls, data"%string);
    ("<return-call>"%string, "cls"%string);
    ("#0"%string, "BaseMaterial.from_dict(data['material_pre'])"%string);
    ("#1"%string, "BaseMaterial.from_dict(data['material_post'])"%string)].
Proof. reflexivity. Qed.
Lemma pin_FresnelCoating_init : k_codec_FresnelCoating_init =
   [("<args>"%string, "self, material_pre, material_post"%string);
    ("<stmt>"%string, "self.material_pre = material_pre"%string);
    ("<stmt>"%string, "self.material_post = material_post"%string);
    ("<stmt>"%string, "self.jones = JonesFresnel(material_pre, material_post)"%string)].
Proof. reflexivity. Qed.

(** optiland/scatter.py :: BaseBSDF *)
Lemma pin_BaseBSDF_bases : k_codec_BaseBSDF_bases = ["ABC"%string].
Proof. reflexivity. Qed.
Lemma pin_BaseBSDF_to_dict : k_codec_BaseBSDF_to_dict =
   [("<args>"%string, "self"%string);
    ("<dict>"%string, "return"%string);
    ("type"%string, "self.__class__.__name__"%string);
    ("</dict>"%string, ""%string)].
Proof. reflexivity. Qed.
Lemma pin_BaseBSDF_from_dict : k_codec_BaseBSDF_from_dict =
   [("<args>"%string, "cls, data"%string);
    ("<stmt>"%string, "bsdf_type = data['type']"%string);
    ("<return-call>"%string, "cls._registry[bsdf_type].from_dict"%string);
    ("#0"%string, "data"%string)].
Proof. reflexivity. Qed.

(** optiland/scatter.py :: LambertianBSDF *)
Lemma pin_LambertianBSDF_bases : k_codec_LambertianBSDF_bases = ["BaseBSDF"%string].
Proof. reflexivity. Qed.
Lemma pin_LambertianBSDF_to_dict : k_codec_LambertianBSDF_to_dict =
   [("<args>"%string, "self"%string);
    ("<dict>"%string, "return"%string);
    ("type"%string, "'LambertianBSDF'"%string);
    ("</dict>"%string, ""%string)].
Proof. reflexivity. Qed.
Lemma pin_LambertianBSDF_from_dict : k_codec_LambertianBSDF_from_dict =
   [("<args>"%string, "cls, data"%string);
    ("<return-call>"%string, "cls"%string)].
Proof. reflexivity. Qed.
Lemma pin_LambertianBSDF_init : k_codec_LambertianBSDF_init =
   [("<args>"%string, "self"%string);
    ("<stmt>"%string, "self.scattering_function = get_point_lambertian"%string)].
Proof. reflexivity. Qed.

(** optiland/scatter.py :: GaussianBSDF *)
Lemma pin_GaussianBSDF_bases : k_codec_GaussianBSDF_bases = ["BaseBSDF"%string].
Proof. reflexivity. Qed.
Lemma pin_GaussianBSDF_to_dict : k_codec_GaussianBSDF_to_dict =
   [("<args>"%string, "self"%string);
    ("<dict>"%string, "return"%string);
    ("type"%string, "'GaussianBSDF'"%string);
    ("sigma"%string, "self.sigma"%string);
    ("</dict>"%string, ""%string)].
Proof. reflexivity. Qed.
Lemma pin_GaussianBSDF_from_dict : k_codec_GaussianBSDF_from_dict =
   [("<args>"%string, "cls, data"%string);
    ("<return-call>"%string, "cls"%string);
    ("#0"%string, "data['sigma']"%string)].
Proof. reflexivity. Qed.
Lemma pin_GaussianBSDF_init : k_codec_GaussianBSDF_init =
   [("<args>"%string, "self, sigma"%string);
    ("<stmt>"%string, "self.sigma = sigma"%string);
    ("<stmt>"%string, "self.scattering_function = func_wrapper(get_point_gaussian, sigma)"%string)].
Proof. reflexivity. Qed.

(** optiland/physical_apertures.py :: BaseAperture *)
Lemma pin_BaseAperture_bases : k_codec_BaseAperture_bases = ["ABC"%string].
Proof. reflexivity. Qed.
Lemma pin_BaseAperture_to_dict : k_codec_BaseAperture_to_dict =
   [("<args>"%string, "self"%string);
    ("<dict>"%string, "return"%string);
    ("type"%string, "self.__class__.__name__"%string);
    ("</dict>"%string, ""%string)].
Proof. reflexivity. Qed.
Lemma pin_BaseAperture_from_dict : k_codec_BaseAperture_from_dict =
   [("<args>"%string, "cls, data"%string);
    ("<stmt>"%string, "aperture_type = data['type']"%string);
    ("<return-call>"%string, "cls._registry[aperture_type].from_dict"%string);
    ("#0"%string, "data"%string)].
Proof. reflexivity. Qed.

(** optiland/physical_apertures.py :: RadialAperture *)
Lemma pin_RadialAperture_bases : k_codec_RadialAperture_bases = ["BaseAperture"%string].
Proof. reflexivity. Qed.
Lemma pin_RadialAperture_to_dict : k_codec_RadialAperture_to_dict =
   [("<args>"%string, "self"%string);
    ("<stmt>"%string, "aperture_dict = super().to_dict()"%string);
    ("aperture_dict.r_max"%string, "self.r_max"%string);
    ("aperture_dict.r_min"%string, "self.r_min"%string);
    ("<stmt>"%string, "return aperture_dict"%string)].
Proof. reflexivity. Qed.
Lemma pin_RadialAperture_from_dict : k_codec_RadialAperture_from_dict =
   [("<args>"%string, "cls, data"%string);
    ("<return-call>"%string, "cls"%string);
    ("#0"%string, "data['r_max']"%string);
    ("#1"%string, "data['r_min']"%string)].
Proof. reflexivity. Qed.
Lemma pin_RadialAperture_init : k_codec_RadialAperture_init =
   [("<args>"%string, "self, r_max, r_min=0"%string);
    ("<stmt>"%string, "super().__init__()"%string);
    ("<stmt>"%string, "self.r_max = r_max"%string);
    ("<stmt>"%string, "self.r_min = r_min"%string)].
Proof. reflexivity. Qed.

(** optiland/fields.py :: Field *)
Lemma pin_Field_bases : k_codec_Field_bases = [].
Proof. reflexivity. Qed.
Lemma pin_Field_to_dict : k_codec_Field_to_dict =
   [("<args>"%string, "self"%string);
    ("<dict>"%string, "return"%string);
    ("field_type"%string, "self.field_type"%string);
    ("x"%string, "self.x"%string);
    ("y"%string, "self.y"%string);
    ("vx"%string, "self.vx"%string);
    ("vy"%string, "self.vy"%string);
    ("</dict>"%string, ""%string)].
Proof. reflexivity. Qed.
Lemma pin_Field_from_dict : k_codec_Field_from_dict =
   [("<args>"%string, "cls, field_dict"%string);
    ("<if>"%string, "'field_type' not in field_dict"%string);
    ("<stmt>"%string, "  raise ValueError('Missing required keys: field_type')"%string);
    ("<endif>"%string, ""%string);
    ("<return-call>"%string, "cls"%string);
    ("#0"%string, "field_dict['field_type']"%string);
    ("#1"%string, "field_dict.get('x', 0)"%string);
    ("#2"%string, "field_dict.get('y', 0)"%string);
    ("#3"%string, "field_dict.get('vx', 0.0)"%string);
    ("#4"%string, "field_dict.get('vy', 0.0)"%string)].
Proof. reflexivity. Qed.
Lemma pin_Field_init : k_codec_Field_init =
   [("<args>"%string, "self, field_type, x=0, y=0, vignette_factor_x=0.0, vignette_factor_y=0.0"%string);
    ("<stmt>"%string, "self.field_type = field_type"%string);
    ("<stmt>"%string, "self.x = x"%string);
    ("<stmt>"%string, "self.y = y"%string);
    ("<stmt>"%string, "self.vx = vignette_factor_x"%string);
    ("<stmt>"%string, "self.vy = vignette_factor_y"%string)].
Proof. reflexivity. Qed.

(** optiland/fields.py :: FieldGroup *)
Lemma pin_FieldGroup_bases : k_codec_FieldGroup_bases = [].
Proof. reflexivity. Qed.
Lemma pin_FieldGroup_to_dict : k_codec_FieldGroup_to_dict =
   [("<args>"%string, "self"%string);
    ("<dict>"%string, "return"%string);
    ("fields"%string, "[field.to_dict() for field in self.fields]"%string);
    ("telecentric"%string, "self.telecentric"%string);
    ("</dict>"%string, ""%string)].
Proof. reflexivity. Qed.
Lemma pin_FieldGroup_from_dict : k_codec_FieldGroup_from_dict =
   [("<args>"%string, "cls, data"%string);
    ("<stmt>"%string, "field_group = cls()"%string);
    ("<for>"%string, "field_dict in data['fields']"%string);
    ("<stmt>"%string, "  field_group.add_field(Field.from_dict(field_dict))"%string);
    ("<endfor>"%string, ""%string);
    ("<stmt>"%string, "field_group.set_telecentric(data['telecentric'])"%string);
    ("<stmt>"%string, "return field_group"%string)].
Proof. reflexivity. Qed.
Lemma pin_FieldGroup_init : k_codec_FieldGroup_init =
   [("<args>"%string, "self"%string);
    ("<stmt>"%string, "self.fields = []"%string);
    ("<stmt>"%string, "self.telecentric = False"%string)].
Proof. reflexivity. Qed.
Lemma pin_FieldGroup_add_field : k_codec_FieldGroup_add_field =
   [("<args>"%string, "self, field"%string);
    ("<stmt>"%string, "self.fields.append(field)"%string)].
Proof. reflexivity. Qed.
Lemma pin_FieldGroup_set_telecentric : k_codec_FieldGroup_set_telecentric =
   [("<args>"%string, "self, is_telecentric"%string);
    ("<stmt>"%string, "self.telecentric = is_telecentric"%string)].
Proof. reflexivity. Qed.

(** optiland/wavelength.py :: Wavelength *)
Lemma pin_Wavelength_bases : k_codec_Wavelength_bases = [].
Proof. reflexivity. Qed.
Lemma pin_Wavelength_to_dict : k_codec_Wavelength_to_dict =
   [("<args>"%string, "self"%string);
    ("<dict>"%string, "return"%string);
    ("value"%string, "self._value"%string);
    ("is_primary"%string, "self.is_primary"%string);
    ("unit"%string, "self._unit"%string);
    ("</dict>"%string, ""%string)].
Proof. reflexivity. Qed.
Lemma pin_Wavelength_from_dict : k_codec_Wavelength_from_dict =
   [("<args>"%string, "cls, data"%string);
    ("<stmt>"%string, "required_keys = {'value', 'is_primary', 'unit'}"%string);
    ("<if>"%string, "not required_keys.issubset(data)"%string);
    ("<stmt>"%string, "  missing = required_keys - data.keys()"%string);
    ("<stmt>"%string, "  raise ValueError(f'Missing required keys: {missing}')"%string);
    ("<endif>"%string, ""%string);
    ("<return-call>"%string, "cls"%string);
    ("value"%string, "data['value']"%string);
    ("is_primary"%string, "data['is_primary']"%string);
    ("unit"%string, "data['unit']"%string)].
Proof. reflexivity. Qed.
Lemma pin_Wavelength_init : k_codec_Wavelength_init =
   [("<args>"%string, "self, value, is_primary=True, unit='um'"%string);
    ("<stmt>"%string, "self._value = value"%string);
    ("<stmt>"%string, "self.is_primary = is_primary"%string);
    ("<stmt>"%string, "self._unit = unit.lower()"%string);
    ("<stmt>"%string, "self._value_in_um = self._convert_to_um()"%string)].
Proof. reflexivity. Qed.

(** optiland/wavelength.py :: WavelengthGroup *)
Lemma pin_WavelengthGroup_bases : k_codec_WavelengthGroup_bases = [].
Proof. reflexivity. Qed.
Lemma pin_WavelengthGroup_to_dict : k_codec_WavelengthGroup_to_dict =
   [("<args>"%string, "self"%string);
    ("<dict>"%string, "return"%string);
    ("wavelengths"%string, "[wave.to_dict() for wave in self.wavelengths]"%string);
    ("</dict>"%string, ""%string)].
Proof. reflexivity. Qed.
Lemma pin_WavelengthGroup_from_dict : k_codec_WavelengthGroup_from_dict =
   [("<args>"%string, "cls, data"%string);
    ("<if>"%string, "'wavelengths' not in data"%string);
    ("<stmt>"%string, "  raise ValueError('Missing required key: ""wavelengths""')"%string);
    ("<endif>"%string, ""%string);
    ("<stmt>"%string, "new_group = cls()"%string);
    ("<for>"%string, "wave_data in data['wavelengths']"%string);
    ("<stmt>"%string, "  new_group.add_wavelength(**wave_data)"%string);
    ("<endfor>"%string, ""%string);
    ("<stmt>"%string, "return new_group"%string)].
Proof. reflexivity. Qed.
Lemma pin_WavelengthGroup_init : k_codec_WavelengthGroup_init =
   [("<args>"%string, "self"%string);
    ("<stmt>"%string, "self.wavelengths = []"%string)].
Proof. reflexivity. Qed.
Lemma pin_WavelengthGroup_add_wavelength : k_codec_WavelengthGroup_add_wavelength =
   [("<args>"%string, "self, value, is_primary=True, unit='um'"%string);
    ("<if>"%string, "is_primary"%string);
    ("<for>"%string, "  wavelength in self.wavelengths"%string);
    ("<stmt>"%string, "    wavelength.is_primary = False"%string);
    ("<endfor>"%string, "  "%string);
    ("<endif>"%string, ""%string);
    ("<if>"%string, "self.num_wavelengths == 0"%string);
    ("<stmt>"%string, "  is_primary = True"%string);
    ("<endif>"%string, ""%string);
    ("<stmt>"%string, "self.wavelengths.append(Wavelength(value, is_primary, unit))"%string)].
Proof. reflexivity. Qed.

(** optiland/aperture.py :: Aperture *)
Lemma pin_Aperture_bases : k_codec_Aperture_bases = [].
Proof. reflexivity. Qed.
Lemma pin_Aperture_to_dict : k_codec_Aperture_to_dict =
   [("<args>"%string, "self"%string);
    ("<dict>"%string, "return"%string);
    ("type"%string, "self.ap_type"%string);
    ("value"%string, "self.value"%string);
    ("object_space_telecentric"%string, "self.object_space_telecentric"%string);
    ("</dict>"%string, ""%string)].
Proof. reflexivity. Qed.
Lemma pin_Aperture_from_dict : k_codec_Aperture_from_dict =
   [("<args>"%string, "cls, data"%string);
    ("<stmt>"%string, "required_keys = {'type', 'value'}"%string);
    ("<if>"%string, "not required_keys.issubset(data)"%string);
    ("<stmt>"%string, "  missing = required_keys - data.keys()"%string);
    ("<stmt>"%string, "  raise ValueError(f'Missing required keys: {missing}')"%string);
    ("<endif>"%string, ""%string);
    ("<return-call>"%string, "cls"%string);
    ("aperture_type"%string, "data['type']"%string);
    ("value"%string, "data['value']"%string);
    ("object_space_telecentric"%string, "data.get('object_space_telecentric', False)"%string)].
Proof. reflexivity. Qed.
Lemma pin_Aperture_init : k_codec_Aperture_init =
   [("<args>"%string, "self, aperture_type, value, object_space_telecentric=False"%string);
    ("<if>"%string, "aperture_type not in ['EPD', 'imageFNO', 'objectNA']"%string);
    ("<stmt>"%string, "  raise ValueError('Aperture type must be ""EPD"", ""imageFNO"", ""objectNA""')"%string);
    ("<endif>"%string, ""%string);
    ("<if>"%string, "aperture_type in ['EPD', 'imageFNO'] and object_space_telecentric"%string);
    ("<stmt>"%string, "  raise ValueError('Cannot set aperture type to ""EPD"" or ""imageFNO"" if lens is telecentric in object space.')"%string);
    ("<endif>"%string, ""%string);
    ("<stmt>"%string, "self.ap_type = aperture_type"%string);
    ("<stmt>"%string, "self.value = value"%string);
    ("<stmt>"%string, "self.object_space_telecentric = object_space_telecentric"%string)].
Proof. reflexivity. Qed.

(** optiland/pickup.py :: Pickup *)
Lemma pin_Pickup_bases : k_codec_Pickup_bases = [].
Proof. reflexivity. Qed.
Lemma pin_Pickup_to_dict : k_codec_Pickup_to_dict =
   [("<args>"%string, "self"%string);
    ("<dict>"%string, "return"%string);
    ("source_surface_idx"%string, "self.source_surface_idx"%string);
    ("attr_type"%string, "self.attr_type"%string);
    ("target_surface_idx"%string, "self.target_surface_idx"%string);
    ("scale"%string, "self.scale"%string);
    ("offset"%string, "self.offset"%string);
    ("</dict>"%string, ""%string)].
Proof. reflexivity. Qed.
Lemma pin_Pickup_from_dict : k_codec_Pickup_from_dict =
   [("<args>"%string, "cls, optic, data"%string);
    ("<return-call>"%string, "cls"%string);
    ("#0"%string, "optic"%string);
    ("#1"%string, "data['source_surface_idx']"%string);
    ("#2"%string, "data['attr_type']"%string);
    ("#3"%string, "data['target_surface_idx']"%string);
    ("#4"%string, "data['scale']"%string);
    ("#5"%string, "data['offset']"%string)].
Proof. reflexivity. Qed.
Lemma pin_Pickup_init : k_codec_Pickup_init =
   [("<args>"%string, "self, optic, source_surface_idx, attr_type, target_surface_idx, scale=1, offset=0"%string);
    ("<stmt>"%string, "self.optic = optic"%string);
    ("<stmt>"%string, "self.source_surface_idx = source_surface_idx"%string);
    ("<stmt>"%string, "self.attr_type = attr_type"%string);
    ("<stmt>"%string, "self.target_surface_idx = target_surface_idx"%string);
    ("<stmt>"%string, "self.scale = scale"%string);
    ("<stmt>"%string, "self.offset = offset"%string)].
Proof. reflexivity. Qed.

(** optiland/pickup.py :: PickupManager *)
Lemma pin_PickupManager_bases : k_codec_PickupManager_bases = [].
Proof. reflexivity. Qed.
Lemma pin_PickupManager_to_dict : k_codec_PickupManager_to_dict =
   [("<args>"%string, "self"%string);
    ("<stmt>"%string, "return [pickup.to_dict() for pickup in self.pickups]"%string)].
Proof. reflexivity. Qed.
Lemma pin_PickupManager_from_dict : k_codec_PickupManager_from_dict =
   [("<args>"%string, "cls, optic, data"%string);
    ("<stmt>"%string, "manager = cls(optic)"%string);
    ("<for>"%string, "pickup_data in data"%string);
    ("<stmt>"%string, "  manager.pickups.append(Pickup.from_dict(optic, pickup_data))"%string);
    ("<endfor>"%string, ""%string);
    ("<stmt>"%string, "return manager"%string)].
Proof. reflexivity. Qed.
Lemma pin_PickupManager_init : k_codec_PickupManager_init =
   [("<args>"%string, "self, optic"%string);
    ("<stmt>"%string, "self.optic = optic"%string);
    ("<stmt>"%string, "self.pickups = []"%string)].
Proof. reflexivity. Qed.
Lemma pin_PickupManager_add : k_codec_PickupManager_add =
   [("<args>"%string, "self, source_surface_idx, attr_type, target_surface_idx, scale=1, offset=0"%string);
    ("<stmt>"%string, "pickup = Pickup(self.optic, source_surface_idx, attr_type, target_surface_idx, scale, offset)"%string);
    ("<stmt>"%string, "pickup.apply()"%string);
    ("<stmt>"%string, "self.pickups.append(pickup)"%string)].
Proof. reflexivity. Qed.

(** optiland/solves.py :: BaseSolve *)
Lemma pin_BaseSolve_bases : k_codec_BaseSolve_bases = ["ABC"%string].
Proof. reflexivity. Qed.
Lemma pin_BaseSolve_to_dict : k_codec_BaseSolve_to_dict =
   [("<args>"%string, "self"%string);
    ("<dict>"%string, "return"%string);
    ("type"%string, "self.__class__.__name__"%string);
    ("</dict>"%string, ""%string)].
Proof. reflexivity. Qed.
Lemma pin_BaseSolve_from_dict : k_codec_BaseSolve_from_dict =
   [("<args>"%string, "cls, optic, data"%string);
    ("<stmt>"%string, "solve_type = data['type']"%string);
    ("<if>"%string, "solve_type not in BaseSolve._registry"%string);
    ("<stmt>"%string, "  raise ValueError(f'Unknown solve type: {solve_type}')"%string);
    ("<endif>"%string, ""%string);
    ("<stmt>"%string, "solve_class = BaseSolve._registry[data['type']]"%string);
    ("<return-call>"%string, "solve_class.from_dict"%string);
    ("#0"%string, "optic"%string);
    ("#1"%string, "data"%string)].
Proof. reflexivity. Qed.

(** optiland/solves.py :: MarginalRayHeightSolve *)
Lemma pin_MarginalRayHeightSolve_bases : k_codec_MarginalRayHeightSolve_bases = ["BaseSolve"%string].
Proof. reflexivity. Qed.
Lemma pin_MarginalRayHeightSolve_to_dict : k_codec_MarginalRayHeightSolve_to_dict =
   [("<args>"%string, "self"%string);
    ("<stmt>"%string, "solve_dict = super().to_dict()"%string);
    ("<dict>"%string, "solve_dict.update"%string);
    ("surface_idx"%string, "self.surface_idx"%string);
    ("height"%string, "self.height"%string);
    ("</dict>"%string, ""%string);
    ("<stmt>"%string, "return solve_dict"%string)].
Proof. reflexivity. Qed.
Lemma pin_MarginalRayHeightSolve_from_dict : k_codec_MarginalRayHeightSolve_from_dict =
   [("<args>"%string, "cls, optic, data"%string);
    ("<return-call>"%string, "cls"%string);
    ("#0"%string, "optic"%string);
    ("#1"%string, "data['surface_idx']"%string);
    ("#2"%string, "data['height']"%string)].
Proof. reflexivity. Qed.
Lemma pin_MarginalRayHeightSolve_init : k_codec_MarginalRayHeightSolve_init =
   [("<args>"%string, "self, optic, surface_idx, height"%string);
    ("<stmt>"%string, "self.optic = optic"%string);
    ("<stmt>"%string, "self.surface_idx = surface_idx"%string);
    ("<stmt>"%string, "self.height = height"%string)].
Proof. reflexivity. Qed.

(** optiland/solves.py :: SolveManager *)
Lemma pin_SolveManager_bases : k_codec_SolveManager_bases = [].
Proof. reflexivity. Qed.
Lemma pin_SolveManager_to_dict : k_codec_SolveManager_to_dict =
   [("<args>"%string, "self"%string);
    ("<dict>"%string, "return"%string);
    ("solves"%string, "[solve.to_dict() for solve in self.solves]"%string);
    ("</dict>"%string, ""%string)].
Proof. reflexivity. Qed.
Lemma pin_SolveManager_from_dict : k_codec_SolveManager_from_dict =
   [("<args>"%string, "cls, optic, data"%string);
    ("<stmt>"%string, "solve_manager = cls(optic)"%string);
    ("<for>"%string, "solve_data in data['solves']"%string);
    ("<stmt>"%string, "  solve = BaseSolve.from_dict(optic, solve_data)"%string);
    ("<stmt>"%string, "  solve_manager.solves.append(solve)"%string);
    ("<endfor>"%string, ""%string);
    ("<stmt>"%string, "return solve_manager"%string)].
Proof. reflexivity. Qed.
Lemma pin_SolveManager_init : k_codec_SolveManager_init =
   [("<args>"%string, "self, optic"%string);
    ("<stmt>"%string, "self.optic = optic"%string);
    ("<stmt>"%string, "self.solves = []"%string)].
Proof. reflexivity. Qed.

(** optiland/fileio/optiland_handler.py :: None *)
Lemma pin_FileIO_bases : k_codec_FileIO_bases = ["load_obj_from_json"%string; "save_obj_to_json"%string; "load_optiland_file"%string; "save_optiland_file"%string].
Proof. reflexivity. Qed.
Lemma pin_FileIO_load_obj_from_json : k_codec_FileIO_load_obj_from_json =
   [("<args>"%string, "cls, filepath"%string);
    ("<if>"%string, "not os.path.exists(filepath)"%string);
    ("<stmt>"%string, "  raise FileNotFoundError(f""File '{filepath}' does not exist."")"%string);
    ("<endif>"%string, ""%string);
    ("<stmt>"%string, "with open(filepath, 'r') as f:?    data = json.load(f)"%string);
    ("<return-call>"%string, "cls.from_dict"%string);
    ("#0"%string, "data"%string)].
Proof. reflexivity. Qed.
Lemma pin_FileIO_save_obj_to_json : k_codec_FileIO_save_obj_to_json =
   [("<args>"%string, "obj, filepath"%string);
    ("<stmt>"%string, "with open(filepath, 'w') as f:?    json.dump(obj.to_dict(), f, indent=4)"%string)].
Proof. reflexivity. Qed.
Lemma pin_FileIO_load_optiland_file : k_codec_FileIO_load_optiland_file =
   [("<args>"%string, "filepath"%string);
    ("<return-call>"%string, "load_obj_from_json"%string);
    ("#0"%string, "Optic"%string);
    ("#1"%string, "filepath"%string)].
Proof. reflexivity. Qed.
Lemma pin_FileIO_save_optiland_file : k_codec_FileIO_save_optiland_file =
   [("<args>"%string, "obj, filepath"%string);
    ("<stmt>"%string, "save_obj_to_json(obj, filepath)"%string)].
Proof. reflexivity. Qed.

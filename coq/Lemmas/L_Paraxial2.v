(** More of optiland.paraxial.Paraxial as matrix optics (C04): every forward [_trace_generic] is the list of
    accumulated ABCD matrices applied to the launch; exit pupil position, marginal ray and magnification
    in terms of matrix entries. *)
From Coq Require Import Reals Lra Lia ZArith List Bool Psatz.
From OV Require Import Ops RInst XR Gen.RealRays Gen.Paraxial Model.Paraxial Spec.S_ABCD Lemmas.L_Paraxial.
Import ListNotations.
Local Open Scope R_scope.

Lemma Forall2_skipn {A B} (P : A -> B -> Prop) k : forall l1 l2,
  Forall2 P l1 l2 -> Forall2 P (skipn k l1) (skipn k l2).
Proof.
  induction k as [|k IH]; intros l1 l2 H; [exact H|].
  destruct H as [|a b l1 l2 Hab H]; [constructor|]. cbn [skipn]. apply IH, H.
Qed.

(** ** every forward trace of Paraxial._trace_generic, from any launch and any first surface *)
Theorem tg_forward_matrix pss ass k y u z :
  Forall2 wf_surf pss ass ->
  tg (O:=XOps) pss (Fin y) (Fin u) (Fin z) false k =
  map finyu (map (fun m => mapply m (y, u)) (sysmats (skipn k ass) z mid)).
Proof.
  intros HW. unfold tg. xops.
  etransitivity; [exact (ptrace_is_atrace _ _ (Forall2_skipn _ k _ _ HW) y u z 0)|].
  rewrite atrace_abcd. reflexivity.
Qed.

Lemma lastyu_matrix ss z y u :
  ss <> [] ->
  lastyu (O:=XOps) (map finyu (map (fun m => mapply m (y, u)) (sysmats ss z mid))) =
  finyu (mapply (sysmat ss z) (y, u)).
Proof.
  intros Hne. destruct ss as [|s ss]; [congruence|].
  unfold lastyu. rewrite map_map.
  rewrite (last_map (fun x => finyu (mapply x (y, u))) _ mid); [|apply sysmats_nonempty].
  rewrite sysmats_last. f_equal. f_equal.
  unfold mmul, mid; destruct (sysmat _ _); simpl; f_equal; ring.
Qed.

Lemma Rlit_01 : Rlit 1 (-1) <> 0.
Proof. unfold Rlit. cbn. lra. Qed.

(** ** exit pupil position: the stop centre imaged by the surfaces behind the stop.
    With [[A B][C D]] the matrix of the surfaces after the stop (transfer starting at the stop vertex),
    XPL = -B/D measured from the last surface. *)
Theorem XPL_from_matrix pss ass si zs :
  Forall2 wf_surf pss ass ->
  stop_index pss = Some si ->
  Nat.eqb si (length pss - 2) = false ->
  skipn (S si) ass <> [] ->
  pos (O:=XOps) pss si = Fin zs ->
  let m := sysmat (skipn (S si) ass) zs in
  md m <> 0 ->
  XPL pss = Fin (- mb m / md m).
Proof.
  intros HW Hs Hn Hne Hpos m Hd.
  unfold XPL. rewrite Hs, Hn, Hpos.
  unfold u01. xops.
  rewrite (tg_forward_matrix pss ass (S si) 0 (Rlit 1 (-1)) zs HW).
  rewrite (lastyu_matrix _ _ _ _ Hne).
  fold m. unfold finyu, mapply. cbn [fst snd xneg xdiv].
  pose proof Rlit_01 as H01.
  destruct (Req_EM_T (mc m * 0 + md m * Rlit 1 (-1)) 0) as [E|E].
  - exfalso. rewrite Rmult_0_r, Rplus_0_l in E. apply Rmult_integral in E. tauto.
  - f_equal. field. split; assumption.
Qed.

(** ** marginal ray, aperture given as entrance pupil diameter *)
Theorem marginal_ray_matrix_infinite pobj psrest ass e z1 :
  Forall2 wf_surf (pobj :: psrest) ass ->
  p_z pobj = NInf ->
  pos (O:=XOps) (pobj :: psrest) 1 = Fin z1 ->
  marginal_ray (pobj :: psrest) EPDt (Fin e) =
  map finyu (map (fun m => mapply m (e / 2, 0)) (sysmats ass (z1 - 10) mid)).
Proof.
  intros HW Hz Hpos. unfold marginal_ray, EPD. rewrite Hz. xops. cbn [xisinf].
  rewrite Hpos. cbn [xsub xneg xadd xdiv].
  destruct (Req_EM_T (IZR 2) 0) as [E|_]; [exfalso; lra|].
  replace (z1 + - IZR 10) with (z1 - 10) by (simpl; ring).
  rewrite (tg_forward_matrix _ ass 0 (e / IZR 2) (IZR 0) (z1 - 10) HW).
  cbn [skipn]. reflexivity.
Qed.

Theorem marginal_ray_matrix_finite pobj psrest ass e zo epl :
  Forall2 wf_surf (pobj :: psrest) ass ->
  p_z pobj = Fin zo ->
  EPL (pobj :: psrest) = Fin epl ->
  epl - zo <> 0 ->
  marginal_ray (pobj :: psrest) EPDt (Fin e) =
  map finyu (map (fun m => mapply m (0, e / (2 * (epl - zo)))) (sysmats ass zo mid)).
Proof.
  intros HW Hz Hepl Hne. unfold marginal_ray, EPD. rewrite Hz, Hepl. xops. cbn [xisinf xsub xneg xadd xmul xdiv].
  destruct (Req_EM_T (IZR 2 * (epl + - zo)) 0) as [E|_].
  - exfalso. apply Hne. simpl in E. lra.
  - replace (e / (IZR 2 * (epl + - zo))) with (e / (2 * (epl - zo))) by (simpl; f_equal; ring).
    rewrite (tg_forward_matrix _ ass 0 (IZR 0) _ zo HW). cbn [skipn]. reflexivity.
Qed.

(** ** magnification.  For a finite object the marginal ray leaves the axial object point; with [[A B][C D]] the
    matrix from the object plane to behind the last surface the returned value is n0/(n_last D); when the last
    surface lies in the plane conjugate to the object (B = 0) and det = n0/n_last (no mirrors; [mdet_sysmat]) this
    is the lateral magnification A. *)
Lemma hd_map_snd_finyu (l : list (R * R)) d :
  l <> [] -> hd d (map snd (map finyu l)) = Fin (snd (hd (0, 0) l)).
Proof. destruct l as [|a l]; [congruence|]. reflexivity. Qed.

Lemma last_map_snd_finyu (l : list (R * R)) d :
  l <> [] -> last (map snd (map finyu l)) d = Fin (snd (last l (0, 0))).
Proof.
  intros H. rewrite map_map. rewrite (last_map (fun x => snd (finyu x)) l (0, 0) d H). reflexivity.
Qed.

Theorem magnification_matrix pobj psrest aobj asrest e zo epl n0 nl :
  Forall2 wf_surf (pobj :: psrest) (aobj :: asrest) ->
  a_obj aobj = true ->
  asrest <> [] ->
  p_z pobj = Fin zo ->
  p_npost pobj = Fin n0 ->
  p_npost (last psrest pobj) = Fin nl ->
  EPL (pobj :: psrest) = Fin epl ->
  epl - zo <> 0 -> e <> 0 -> nl <> 0 ->
  let m := sysmat (aobj :: asrest) zo in
  md m <> 0 ->
  magnification (pobj :: psrest) EPDt (Fin e) = Fin (n0 / (nl * md m)).
Proof.
  intros HW Hobj Hne Hz Hn0 Hnl Hepl Hd He Hnl0 m Hmd.
  unfold magnification.
  rewrite (marginal_ray_matrix_finite pobj psrest (aobj :: asrest) e zo epl HW Hz Hepl Hd).
  set (u0 := e / (2 * (epl - zo))).
  assert (Hu0 : u0 <> 0).
  { unfold u0. unfold Rdiv. apply Rmult_integral_contrapositive_currified; [exact He|].
    apply Rinv_neq_0_compat. lra. }
  set (recs := map (fun mm => mapply mm (0, u0)) (sysmats (aobj :: asrest) zo mid)).
  assert (Hrne : recs <> []) by (unfold recs; cbn; discriminate).
  rewrite (hd_map_snd_finyu recs _ Hrne), (last_map_snd_finyu recs _ Hrne).
  assert (Hh : snd (hd (0, 0) recs) = u0).
  { unfold recs. cbn [sysmats map hd]. unfold surf_matrix. rewrite Hobj.
    unfold mapply, mmul, mid; simpl. ring. }
  assert (Hl : snd (last recs (0, 0)) = md m * u0).
  { unfold recs. rewrite (last_map (fun mm => mapply mm (0, u0)) _ mid); [|apply sysmats_nonempty].
    rewrite sysmats_last. fold m. unfold mapply, mmul, mid; destruct m; simpl. ring. }
  rewrite Hh, Hl. cbn [p_npost].
  assert (Hlast : last (pobj :: psrest) (mkPS (O:=XOps) nan_ nan_ nan_ nan_ nan_ nan_ nan_ nan_ nan_ false false false)
                  = last psrest pobj).
  { apply last_cons. }
  rewrite Hlast, Hn0, Hnl. xops. cbn [xmul xdiv].
  destruct (Req_EM_T (nl * (md m * u0)) 0) as [E|_].
  - exfalso. apply Rmult_integral in E. destruct E as [E|E]; [contradiction|].
    apply Rmult_integral in E. tauto.
  - f_equal. field. repeat split; assumption.
Qed.

(** the classical statement: in the conjugate plane (B = 0), with det M = n0/n_last, the value is A *)
Corollary magnification_is_A (A B C D n0 nl : R) :
  B = 0 -> A * D - B * C = n0 / nl -> nl <> 0 -> D <> 0 -> n0 <> 0 ->
  n0 / (nl * D) = A.
Proof.
  intros HB Hdet Hnl HD Hn0. subst B.
  assert (HA : A * D = n0 / nl) by lra.
  assert (A = n0 / nl / D) by (rewrite <- HA; field; exact HD).
  subst A. field. split; assumption.
Qed.

(** ** Non-vacuity: the hypotheses hold for a biconvex singlet (stop on its first surface) *)
Definition singlet_ps : list (psurf XOps) :=
    [mkPS (O:=XOps) (Fin 0) (Fin 0) NInf (Fin 0) (Fin 0) (Fin 0) PInf (Fin 1) (Fin 1) false false true;
     mkPS (O:=XOps) (Fin 0) (Fin 0) (Fin 0) (Fin 0) (Fin 0) (Fin 0) (Fin 50) (Fin 1) (Fin 1.5) false true false;
     mkPS (O:=XOps) (Fin 0) (Fin 0) (Fin 5) (Fin 0) (Fin 0) (Fin 0) (Fin (-50)) (Fin 1.5) (Fin 1) false false false;
     mkPS (O:=XOps) (Fin 0) (Fin 0) (Fin 50) (Fin 0) (Fin 0) (Fin 0) PInf (Fin 1) (Fin 1) false false false].
Definition singlet_as : list asurf :=
    [mkAS 0 0 1 1 false true; mkAS 0 (/ 50) 1 1.5 false false; mkAS 5 (/ (-50)) 1.5 1 false false;
     mkAS 50 0 1 1 false false].

Example singlet_XPL : XPL singlet_ps = Fin (- mb (sysmat (skipn 2 singlet_as) 0) / md (sysmat (skipn 2 singlet_as) 0))
                      /\ md (sysmat (skipn 2 singlet_as) 0) <> 0.
Proof.
  assert (Hd : md (sysmat (skipn 2 singlet_as) 0) <> 0).
  { cbn. unfold surf_matrix, mmul, refraction, transfer, mid; cbn. lra. }
  split; [|exact Hd].
  apply (XPL_from_matrix singlet_ps singlet_as 1 0 singlet_wf); try reflexivity; [cbn; discriminate|exact Hd].
Qed.

(** the same singlet imaging a finite object at z = -100 (EPL = 0: stop on the first surface) *)
Definition singlet_fin_ps : list (psurf XOps) :=
    [mkPS (O:=XOps) (Fin 0) (Fin 0) (Fin (-100)) (Fin 0) (Fin 0) (Fin 0) PInf (Fin 1) (Fin 1.33) false false true;
     mkPS (O:=XOps) (Fin 0) (Fin 0) (Fin 0) (Fin 0) (Fin 0) (Fin 0) (Fin 50) (Fin 1.33) (Fin 1.5) false true false;
     mkPS (O:=XOps) (Fin 0) (Fin 0) (Fin 5) (Fin 0) (Fin 0) (Fin 0) (Fin (-50)) (Fin 1.5) (Fin 1) false false false;
     mkPS (O:=XOps) (Fin 0) (Fin 0) (Fin 50) (Fin 0) (Fin 0) (Fin 0) PInf (Fin 1) (Fin 1) false false false].
Definition singlet_fin_as : list asurf :=
    [mkAS 0 0 1 1 false true; mkAS 0 (/ 50) 1.33 1.5 false false; mkAS 5 (/ (-50)) 1.5 1 false false;
     mkAS 50 0 1 1 false false].
Example singlet_fin_wf : Forall2 wf_surf singlet_fin_ps singlet_fin_as.
Proof.
  repeat constructor; unfold curv; try (destruct (Req_EM_T _ _); [lra|reflexivity]); try lra; reflexivity.
Qed.
Example singlet_fin_magnification :
  magnification singlet_fin_ps EPDt (Fin 10) = Fin (1.33 / (1 * md (sysmat singlet_fin_as (-100)))).
Proof.
  apply (magnification_matrix _ _ _ _ 10 (-100) 0 1.33 1 singlet_fin_wf); try reflexivity; try lra; try (cbn; discriminate).
  - cbn. destruct (Req_EM_T (1 / 10) 0) as [E|E]; [exfalso; lra|]. f_equal. field.
  - cbn. unfold surf_matrix, mmul, refraction, transfer, mid, md; cbn.
    intro H. field_simplify in H. all: try lra.
Qed.

(** ** the reversed system (SurfaceGroup.inverted) and the entrance pupil position *)
Definition ainv (zl : R) (s : asurf) : asurf :=
  if a_obj s then s else mkAS (zl - a_z s) (- a_c s) (a_n2 s) (a_n1 s) (a_refl s) false.
Definition arev (zl : R) (ass : list asurf) : list asurf := map (ainv zl) (rev ass).

Lemma Forall2_rev {A B} (P : A -> B -> Prop) l1 l2 :
  Forall2 P l1 l2 -> Forall2 P (rev l1) (rev l2).
Proof.
  induction 1 as [|a b l1 l2 Hab H IH]; [constructor|].
  cbn [rev]. apply Forall2_app; [exact IH|]. constructor; [exact Hab|constructor].
Qed.

Lemma curv_neg Rx c : curv Rx = Some c -> curv (xmul Rx (xneg (Fin (IZR 1)))) = Some (- c).
Proof.
  destruct Rx as [r| | |]; cbn [curv xmul xneg]; intros H.
  - destruct (Req_EM_T r 0) as [E|E]; [discriminate|]. inversion H; subst c.
    destruct (Req_EM_T (r * - IZR 1) 0) as [E'|E']; [exfalso; apply E; simpl in E'; lra|].
    f_equal. simpl. field. exact E.
  - inversion H; subst c.
    destruct (Rlt_dec 0 (- IZR 1)) as [L|L]; [exfalso; simpl in L; lra|].
    destruct (Rlt_dec (- IZR 1) 0) as [L'|L']; [|exfalso; simpl in L'; lra].
    cbn. f_equal. ring.
  - inversion H; subst c.
    destruct (Rlt_dec 0 (- IZR 1)) as [L|L]; [exfalso; simpl in L; lra|].
    destruct (Rlt_dec (- IZR 1) 0) as [L'|L']; [|exfalso; simpl in L'; lra].
    cbn. f_equal. ring.
  - discriminate.
Qed.

Lemma wf_inverted_one zl ps s :
  wf_surf ps s -> (a_obj s = false -> a_n1 s <> 0) ->
  wf_surf (mkPS (O:=XOps) (p_x ps) (p_y ps) (xsub (Fin zl) (p_z ps)) (p_rx ps) (p_ry ps) (p_rz ps)
                (xmul (p_R ps) (xneg (Fin (IZR 1)))) (p_npost ps) (p_npre ps) (p_refl ps) (p_stop ps) (p_obj ps))
          (ainv zl s).
Proof.
  intros W Hn. destruct W as [x y z rx ry rz Rx n1 n2 rf st | x z rx ry rz Rx c n1 n2 rf st Hc Hn2].
  - cbn. constructor.
  - unfold ainv. cbn [a_obj p_x p_y p_z p_rx p_ry p_rz p_R p_npost p_npre p_refl p_stop p_obj a_z a_c a_n1 a_n2 a_refl].
    cbn [xsub xneg xadd]. replace (zl + - z) with (zl - z) by ring.
    constructor; [apply curv_neg, Hc|]. apply Hn. reflexivity.
Qed.

Theorem wf_inverted pss ass zl :
  Forall2 wf_surf pss ass ->
  Forall (fun s => a_obj s = false -> a_n1 s <> 0) ass ->
  (match rev pss with s :: _ => p_z s | [] => Fin 0 end) = Fin zl ->
  Forall2 wf_surf (inverted pss) (arev zl ass).
Proof.
  intros HW Hn Hz. unfold inverted, arev. xops. change (Fin (IZR 0)) with (Fin 0). rewrite Hz.
  assert (HR : Forall2 wf_surf (rev pss) (rev ass)) by (apply Forall2_rev, HW).
  assert (HnR : Forall (fun s => a_obj s = false -> a_n1 s <> 0) (rev ass)).
  { apply Forall_forall. intros s Hs. apply in_rev in Hs. rewrite Forall_forall in Hn. apply Hn, Hs. }
  clear HW Hn Hz. induction HR as [|ps s l1 l2 W _ IH]; [constructor|].
  cbn [map]. inversion HnR as [|? ? Hs Hrest]; subst. constructor; [|apply IH, Hrest].
  apply wf_inverted_one; assumption.
Qed.

Theorem tg_reverse_matrix pss ass zl k y u z :
  Forall2 wf_surf (inverted pss) (arev zl ass) ->
  tg (O:=XOps) pss (Fin y) (Fin u) (Fin z) true k =
  map finyu (map (fun m => mapply m (y, u)) (sysmats (skipn k (arev zl ass)) z mid)).
Proof.
  intros HW. unfold tg. xops.
  etransitivity; [exact (ptrace_is_atrace _ _ (Forall2_skipn _ k _ _ HW) y u z 0)|].
  rewrite atrace_abcd. reflexivity.
Qed.

(** entrance pupil position: the stop centre imaged by the surfaces in front of the stop, traced through the
    reversed system; [[A B][C D]] = matrix of the reversed surfaces behind the (reversed) stop, EPL = B/D
    (in the coordinate of the first surface, as the library reports it) *)
Theorem EPL_from_matrix pss ass zl k si zs :
  Forall2 wf_surf (inverted pss) (arev zl ass) ->
  stop_index pss = Some (S k) ->
  stop_index (inverted pss) = Some si ->
  skipn (S si) (arev zl ass) <> [] ->
  pos (O:=XOps) (inverted pss) si = Fin zs ->
  let m := sysmat (skipn (S si) (arev zl ass)) zs in
  md m <> 0 ->
  EPL pss = Fin (mb m / md m).
Proof.
  intros HW Hs Hsi Hne Hpos m Hd.
  unfold EPL. rewrite Hs, Hsi, Hpos.
  unfold u01. xops.
  rewrite (tg_reverse_matrix pss ass zl (S si) 0 (Rlit 1 (-1)) zs HW).
  rewrite (lastyu_matrix _ _ _ _ Hne).
  fold m. unfold finyu, mapply. cbn [fst snd xneg xdiv].
  pose proof Rlit_01 as H01.
  destruct (Req_EM_T (mc m * 0 + md m * Rlit 1 (-1)) 0) as [E|E].
  - exfalso. rewrite Rmult_0_r, Rplus_0_l in E. apply Rmult_integral in E. tauto.
  - f_equal. field. split; assumption.
Qed.

Example singlet_inverted_wf : Forall2 wf_surf (inverted singlet_ps) (arev 50 singlet_as).
Proof.
  apply wf_inverted; [exact singlet_wf| |reflexivity].
  repeat constructor; cbn; intros; try discriminate; lra.
Qed.

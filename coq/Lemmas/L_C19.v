(** * C19 - proofs about the codec model (Model/M_C19.v) against the clauses of Spec/S_C19.v. *)
From Coq Require Import ZArith List String Bool Lia.
From OV Require Import Spec.S_C19 Model.M_C19.
Import ListNotations.
Local Open Scope string_scope.
Local Open Scope list_scope.

Section Proofs.
  Variable A : Type.
  Variable c_inf c_zero c_one c_tol c_m1 : A.
  Variable lower : string -> string.
  Variable catalog_file : string -> option string -> bool -> string.

  Notation cs := (cs A). Notation geom := (geom A). Notation material := (material A).
  Notation lens := (lens A). Notation live := (live A). Notation J := (json A live).
  Notation e_cs := (@e_cs A). Notation d_cs := (@d_cs A c_zero).
  Notation e_geom := (@e_geom A c_inf). Notation d_geom := (@d_geom A c_zero c_one c_tol).
  Notation e_material := (@e_material A c_zero c_m1 catalog_file).
  Notation d_material := (@d_material A c_zero).
  Notation to_dict := (@to_dict A c_inf c_zero c_one c_m1 catalog_file).
  Notation decode := (@decode A c_zero c_one c_tol lower).
  Notation from_dict := (@from_dict A c_zero c_one c_tol lower).
  Notation wf := (@wf A lower).

  (** ** generic list lemmas *)
  Lemma traverse_map : forall X (enc : X -> J) (dec : J -> option X) (l : list X),
      (forall x, In x l -> dec (enc x) = Some x) -> traverse dec (map enc l) = Some l.
  Proof.
    intros X enc dec l. induction l as [|x r IH]; intros H; simpl; [reflexivity|].
    rewrite (H x (or_introl eq_refl)). simpl. rewrite IH; [reflexivity|].
    intros y Hy. apply H. now right.
  Qed.

  Lemma d_nums_e : forall l : list A, d_nums (e_nums l) = Some l.
  Proof. intros l. unfold d_nums, e_nums. simpl. apply traverse_map. reflexivity. Qed.

  Lemma d_nums2_e : forall l : list (list A), d_nums2 (e_nums2 l) = Some l.
  Proof. intros l. unfold d_nums2, e_nums2. simpl. apply traverse_map. intros x _. apply d_nums_e. Qed.

  Lemma all_safe_map : forall X (f : X -> J) (l : list X),
      (forall x, In x l -> json_safe (f x) = true) -> all_safe (map f l) = true.
  Proof.
    intros X f l H. unfold all_safe. apply forallb_forall. intros j Hj.
    apply in_map_iff in Hj. destruct Hj as [x [<- Hx]]. now apply H.
  Qed.

  Lemma safe_nums : forall l : list A, json_safe (e_nums l) = true.
  Proof. intros l. unfold e_nums. rewrite json_safe_list. apply all_safe_map. reflexivity. Qed.

  Lemma safe_nums2 : forall l : list (list A), json_safe (e_nums2 l) = true.
  Proof. intros l. unfold e_nums2. rewrite json_safe_list. apply all_safe_map. intros x _. apply safe_nums. Qed.

  Opaque e_nums e_nums2.

  (** ** coordinate systems (arbitrary nesting depth of reference frames) *)
  Lemma e_cs_dict : forall c : cs, exists d, e_cs c = JDict d.
  Proof. intros [x y z rx ry rz r]. simpl. eauto. Qed.

  Lemma d_cs_e_cs : forall c : cs, d_cs (e_cs c) = Some c.
  Proof.
    fix IH 1. intros [x y z rx ry rz [c'|]].
    - specialize (IH c'). destruct (e_cs_dict c') as [d Hd].
      simpl. rewrite Hd in *. rewrite IH. reflexivity.
    - reflexivity.
  Qed.

  Lemma safe_cs : forall c : cs, json_safe (e_cs c) = true.
  Proof.
    fix IH 1. intros [x y z rx ry rz [c'|]].
    - specialize (IH c'). simpl. simpl in IH. rewrite IH. reflexivity.
    - reflexivity.
  Qed.

  (** ** leaves *)
  Lemma d_geom_e : forall (pc : bool) (g : geom),
      (geom_plane_conic g = true -> pc = true) -> d_geom pc (e_geom pc g) = Some g.
  Proof.
    intros pc [c [k0|]|c R k|c R k tol mi cf|c R k tol mi cf|c R k tol mi cf nx ny] Hpc;
      [rewrite (Hpc eq_refl)|destruct pc| | | |];
      unfold M_C19.d_geom, M_C19.e_geom, req, dflt; simpl;
      rewrite ?d_cs_e_cs; simpl; rewrite ?d_nums_e, ?d_nums2_e; reflexivity.
  Qed.
  Lemma safe_geom : forall (pc : bool) (g : geom), json_safe (e_geom pc g) = true.
  Proof.
    intros pc [c [k0|]|c R k|c R k tol mi cf|c R k tol mi cf|c R k tol mi cf nx ny]; [destruct pc| | | | |]; simpl;
      rewrite ?safe_cs, ?safe_nums, ?safe_nums2; reflexivity.
  Qed.

  Lemma d_material_e : forall m : material, d_material (e_material m) = Some m.
  Proof.
    intros [n k| |n v|nm [rf|] rb [mn|] [mx|]|f]; reflexivity.
  Qed.

  Lemma safe_material : forall m : material, json_safe (e_material m) = true.
  Proof.
    intros [n k| |n v|nm [rf|] rb [mn|] [mx|]|f]; reflexivity.
  Qed.

  Section WithImpl.
  Variable I : impl.
  Notation e_coating := (@e_coating A c_zero c_m1 catalog_file I).
  Notation d_coating := (@d_coating A c_zero I).
  Notation e_surface := (@e_surface A c_inf c_zero c_m1 catalog_file I).
  Notation d_surface := (@d_surface A c_zero c_one c_tol I).
  Notation e_pol := (@e_pol A I). Notation d_pol := (@d_pol A I).

  Lemma d_coating_e : forall c, d_coating (e_coating c) = Some c.
  Proof.
    intros [t r|pre post]; unfold M_C19.d_coating, M_C19.e_coating; [reflexivity|].
    destruct (fresnel_nested I); unfold req; simpl; rewrite ?d_material_e; reflexivity.
  Qed.

  Lemma safe_coating : forall c,
      json_safe (e_coating c) = negb (coating_fresnel (Some c)) || fresnel_nested I.
  Proof.
    intros [t r|pre post]; unfold M_C19.e_coating; [reflexivity|].
    destruct (fresnel_nested I); simpl; rewrite ?safe_material; reflexivity.
  Qed.

  Lemma d_bsdf_e : forall b : bsdf A, d_bsdf (e_bsdf b) = Some b.
  Proof. intros [|s]; reflexivity. Qed.

  Lemma d_pap_e : forall p : paperture A, d_pap (e_pap p) = Some p.
  Proof. intros [a b]; reflexivity. Qed.

  Lemma d_optobj_e : forall X (enc : X -> J) (dec : J -> option X) (o : option X),
      (forall x, dec (enc x) = Some x) -> (forall x, exists d, enc x = JDict d) ->
      d_optobj dec (e_opt enc o) = Some o.
  Proof.
    intros X enc dec [x|] H Hd; simpl; [|reflexivity].
    destruct (Hd x) as [d E]. specialize (H x). rewrite E in *. simpl. rewrite H. reflexivity.
  Qed.

  Lemma e_coating_dict : forall c, exists d, e_coating c = JDict d.
  Proof. intros [t r|a b]; unfold M_C19.e_coating; [|destruct (fresnel_nested I)]; eauto. Qed.
  Lemma e_bsdf_dict : forall b : bsdf A, exists d, e_bsdf b = JDict d.
  Proof. intros [|s]; simpl; eauto. Qed.
  Lemma e_pap_dict : forall p : paperture A, exists d, e_pap p = JDict d.
  Proof. intros [a b]; simpl; eauto. Qed.

  Lemma d_surface_e : forall s,
      (surf_image s = true -> image_from_dict I = true) ->
      (surf_plane_conic s = true -> plane_conic I = true) -> d_surface (e_surface s) = Some s.
  Proof.
    intros [g post|g pre post st ap co bs rf|g pre ap] Himg Hpc;
      unfold surf_plane_conic in Hpc; simpl in Hpc;
      unfold M_C19.d_surface, M_C19.e_surface, req; simpl.
    - rewrite (d_geom_e _ _ Hpc). simpl. rewrite d_material_e. reflexivity.
    - rewrite (d_geom_e _ _ Hpc). simpl. rewrite !d_material_e. simpl.
      rewrite (d_optobj_e _ _ _ _ d_pap_e e_pap_dict). simpl.
      rewrite (d_optobj_e _ _ _ _ d_coating_e e_coating_dict). simpl.
      rewrite (d_optobj_e _ _ _ _ d_bsdf_e e_bsdf_dict). reflexivity.
    - rewrite (Himg eq_refl). rewrite (d_geom_e _ _ Hpc). simpl. rewrite d_material_e. simpl.
      rewrite (d_optobj_e _ _ _ _ d_pap_e e_pap_dict). reflexivity.
  Qed.

  Lemma safe_opt : forall X (enc : X -> J) (o : option X),
      (forall x, json_safe (enc x) = true) -> json_safe (e_opt enc o) = true.
  Proof. intros X enc [x|] H; simpl; auto. Qed.

  Lemma safe_bsdf : forall b : bsdf A, json_safe (e_bsdf b) = true.
  Proof. intros [|s]; reflexivity. Qed.
  Lemma safe_pap : forall p : paperture A, json_safe (e_pap p) = true.
  Proof. intros [a b]; reflexivity. Qed.

  Lemma safe_surface : forall s, json_safe (e_surface s) = negb (surf_fresnel s) || fresnel_nested I.
  Proof.
    intros [g post|g pre post st ap co bs rf|g pre ap]; unfold M_C19.e_surface; simpl.
    - rewrite safe_geom, safe_material. reflexivity.
    - rewrite safe_geom, !safe_material, (safe_opt _ _ _ safe_pap), (safe_opt _ _ _ safe_bsdf). simpl.
      destruct co as [c|]; simpl; [rewrite safe_coating; simpl; now rewrite andb_true_r | reflexivity].
    - rewrite safe_geom, !safe_material, (safe_opt _ _ _ safe_pap). reflexivity.
  Qed.

  Lemma safe_surfaces : forall l,
      all_safe (map e_surface l) = negb (existsb surf_fresnel l) || fresnel_nested I.
  Proof.
    induction l as [|s r IH]; simpl; [reflexivity|].
    unfold all_safe in *. simpl. rewrite IH, safe_surface.
    destruct (surf_fresnel s), (existsb surf_fresnel r), (fresnel_nested I); reflexivity.
  Qed.

  (** ** small records *)
  Lemma d_field_e : forall f : field A, @d_field A c_zero (e_field f) = Some f.
  Proof. intros [[t|] x y vx vy]; reflexivity. Qed.
  Lemma safe_field : forall f : field A, json_safe (e_field f) = true.
  Proof. intros [[t|] x y vx vy]; reflexivity. Qed.
  Lemma d_sysap_e : forall a : sysap A, @d_sysap A (e_sysap a) = Some a.
  Proof. intros [t v tc]; reflexivity. Qed.
  Lemma safe_sysap : forall a : sysap A, json_safe (e_sysap a) = true.
  Proof. intros [t v tc]; reflexivity. Qed.
  Lemma d_pickup_e : forall p : pickup A, @d_pickup A c_zero c_one (e_pickup p) = Some p.
  Proof. intros [s a t sc off]; reflexivity. Qed.
  Lemma safe_pickup : forall p : pickup A, json_safe (e_pickup p) = true.
  Proof. intros [s a t sc off]; reflexivity. Qed.
  Lemma d_solve_e : forall s : solve A, d_solve (e_solve s) = Some s.
  Proof. intros [i h]; reflexivity. Qed.
  Lemma safe_solve : forall s : solve A, json_safe (e_solve s) = true.
  Proof. intros [i h]; reflexivity. Qed.
  Lemma safe_wave : forall w : wavelength A, json_safe (e_wave w) = true.
  Proof. intros [v p u]; reflexivity. Qed.

  Lemma d_pol_e : forall p, d_pol (e_pol p) = Some p.
  Proof.
    intros [|ip ex ey px py]; unfold M_C19.e_pol, M_C19.d_pol; [reflexivity|].
    destruct (pol_codec I) eqn:E; [|reflexivity].
    simpl. rewrite ?E. destruct ex, ey, px, py; reflexivity.
  Qed.

  Lemma safe_pol : forall p,
      json_safe (e_pol p) = negb (match p with PIgnore _ => false | _ => true end) || pol_codec I.
  Proof.
    intros [|ip ex ey px py]; unfold M_C19.e_pol; [reflexivity|].
    destruct (pol_codec I); [|reflexivity]. destruct ex, ey, px, py; reflexivity.
  Qed.

  (** ** wavelengths: from_dict replays add_wavelength on every entry *)
  Definition w_args (w : wavelength A) : A * bool * string := match w with WL _ v p u => (v, p, u) end.

  Lemma d_wave_args_e : forall w : wavelength A, d_wave_args (e_wave w) = Some (w_args w).
  Proof. intros [v p u]; reflexivity. Qed.

  Notation addw := (@add_wavelength A lower).
  Notation step := (fun ws a => match a with (v, p, u) => addw ws v p u end).

  Lemma fold_noprim_nonempty : forall b acc,
      noprim b -> @units_lower A lower b -> acc <> [] ->
      fold_left step (map w_args b) acc = acc ++ b.
  Proof.
    induction b as [|[v p u] r IH]; intros acc Hn Hu Hacc; simpl.
    - now rewrite app_nil_r.
    - assert (p = false) as -> by (apply (Hn (WL A v p u)); now left).
      assert (lower u = u) as Eu by (apply (Hu (WL A v false u)); now left).
      unfold M_C19.add_wavelength at 2. rewrite Eu.
      destruct acc as [|a0 acc']; [contradiction|].
      rewrite IH.
      + now rewrite <- app_assoc.
      + intros w Hw. apply Hn. now right.
      + intros w Hw. apply Hu. now right.
      + destruct acc'; discriminate.
  Qed.

  Definition force_first (ws : list (wavelength A)) : list (wavelength A) :=
    match ws with [] => [] | WL _ v _ u :: r => WL A v true u :: r end.

  Lemma fold_noprim_empty : forall a,
      noprim a -> @units_lower A lower a -> fold_left step (map w_args a) [] = force_first a.
  Proof.
    intros [|[v p u] r] Hn Hu; simpl; [reflexivity|].
    assert (lower u = u) as Eu by (apply (Hu (WL A v p u)); now left).
    assert (p = false) as -> by (apply (Hn (WL A v p u)); now left).
    unfold M_C19.add_wavelength at 2. simpl. rewrite Eu.
    rewrite fold_noprim_nonempty; [reflexivity| | |discriminate].
    - intros w Hw. apply Hn. now right.
    - intros w Hw. apply Hu. now right.
  Qed.

  Lemma unset_force : forall a, noprim a -> map w_unset (force_first a) = a.
  Proof.
    intros [|[v p u] r] Hn; simpl; [reflexivity|].
    assert (p = false) as -> by (apply (Hn (WL A v p u)); now left).
    f_equal. assert (noprim r) as Hr by (intros w Hw; apply Hn; now right).
    clear Hn. induction r as [|[v' p' u'] r' IH]; simpl; [reflexivity|].
    assert (p' = false) as -> by (apply (Hr (WL A v' p' u')); now left).
    f_equal. apply IH. intros w Hw. apply Hr. now right.
  Qed.

  Lemma replay_waves_id : forall ws,
      @waves_wf A lower ws -> @replay_waves A lower (map w_args ws) = ws.
  Proof.
    intros ws [Hu [->|[a [v [u [b [-> [Ha Hb]]]]]]]]; [reflexivity|].
    unfold M_C19.replay_waves. rewrite map_app, fold_left_app. simpl.
    assert (@units_lower A lower a) as Hua by (intros w Hw; apply Hu, in_or_app; now left).
    assert (@units_lower A lower b) as Hub by (intros w Hw; apply Hu, in_or_app; right; now right).
    assert (lower u = u) as Eu by (apply (Hu (WL A v true u)), in_or_app; right; now left).
    rewrite fold_noprim_empty by assumption.
    unfold M_C19.add_wavelength at 2. rewrite (unset_force a Ha), Eu.
    assert (match force_first a with [] => true | _ :: _ => true end = true) as -> by (destruct (force_first a); reflexivity).
    rewrite fold_noprim_nonempty; try assumption.
    - now rewrite <- app_assoc.
    - destruct a; discriminate.
  Qed.

  (** ** the whole lens *)
  Lemma existsb_false_in : forall X (f : X -> bool) l x, existsb f l = false -> In x l -> f x = false.
  Proof.
    intros X f l x H Hin. destruct (f x) eqn:E; [|reflexivity].
    assert (existsb f l = true) by (apply existsb_exists; eauto). congruence.
  Qed.

  Theorem decode_to_dict : forall l : lens,
      wf l -> loadable I l = true -> decode I (to_dict I l) = Some l.
  Proof.
    intros [ap ft surfs fields fgt waves pol pks sols tele] Hwf Hload.
    unfold M_C19.wf in Hwf. simpl in Hwf.
    unfold loadable, has_image_class, no_aperture, has_plane_conic in Hload. simpl in Hload.
    apply andb_true_iff in Hload. destruct Hload as [Hload Hpc].
    apply andb_true_iff in Hload. destruct Hload as [Himg Hap].
    unfold M_C19.decode, M_C19.to_dict, req. simpl.
    assert (traverse d_surface (map e_surface surfs) = Some surfs) as ->.
    { apply traverse_map. intros s Hs. apply d_surface_e; intros Hi.
      - destruct (image_from_dict I); [reflexivity|]. rewrite orb_false_r in Himg.
        apply negb_true_iff in Himg. rewrite (existsb_false_in _ _ _ _ Himg Hs) in Hi. discriminate.
      - destruct (plane_conic I); [reflexivity|]. rewrite orb_false_r in Hpc.
        apply negb_true_iff in Hpc. rewrite (existsb_false_in _ _ _ _ Hpc Hs) in Hi. discriminate. }
    assert (traverse (@d_field A c_zero) (map e_field fields) = Some fields) as ->
        by (apply traverse_map; intros; apply d_field_e).
    assert (traverse d_wave_args (map e_wave waves) = Some (map w_args waves)) as ->.
    { clear. induction waves as [|w r IH]; simpl; [reflexivity|]. now rewrite d_wave_args_e, IH. }
    assert (traverse (@d_pickup A c_zero c_one) (map e_pickup pks) = Some pks) as ->
        by (apply traverse_map; intros; apply d_pickup_e).
    assert (traverse d_solve (map e_solve sols) = Some sols) as ->
        by (apply traverse_map; intros; apply d_solve_e).
    simpl. rewrite d_pol_e. simpl.
    rewrite (replay_waves_id waves Hwf).
    destruct ap as [a|]; simpl.
    - destruct a as [t v tc]. simpl. destruct ft; reflexivity.
    - simpl in Hap. rewrite Hap. destruct ft; reflexivity.
  Qed.

  Theorem to_dict_json_safe_iff : forall l : lens, json_safe (to_dict I l) = live_free I l.
  Proof.
    intros [ap ft surfs fields fgt waves pol pks sols tele].
    unfold M_C19.to_dict, live_free, has_fresnel, has_polstate. simpl.
    rewrite (safe_opt _ _ _ safe_sysap).
    fold (all_safe (map e_surface surfs)). rewrite safe_surfaces.
    fold (all_safe (map (@e_field A) fields)). rewrite (all_safe_map _ _ _ (fun x _ => safe_field x)).
    fold (all_safe (map (@e_wave A) waves)). rewrite (all_safe_map _ _ _ (fun x _ => safe_wave x)).
    fold (all_safe (map (@e_pickup A) pks)). rewrite (all_safe_map _ _ _ (fun x _ => safe_pickup x)).
    fold (all_safe (map (@e_solve A) sols)). rewrite (all_safe_map _ _ _ (fun x _ => safe_solve x)).
    rewrite safe_pol. destruct ft; simpl; rewrite ?andb_true_r; reflexivity.
  Qed.

  (** ** the clauses of the property (Spec/S_C19.v) for this codec *)
  Section Clauses.
  Variable apply_pickups : lens -> lens.

  (** lenses for which reloading is claimed: wavelength invariant, a reload path for every class in
      the lens, and - when the implementation re-applies pickups on load - the lens is at a fixed point
      of its pickups (i.e. `update()` has been called since the last edit) *)
  Definition reloadable (l : lens) : Prop :=
    wf l /\ loadable I l = true /\ (pickups_applied_on_load I = true -> apply_pickups l = l).

  Theorem dict_roundtrip_partial :
    dict_roundtrip (to_dict I) (from_dict I apply_pickups) reloadable.
  Proof.
    intros l [Hwf [Hl Hp]]. unfold M_C19.from_dict. rewrite (decode_to_dict l Hwf Hl). simpl.
    destruct (pickups_applied_on_load I); [rewrite Hp|]; reflexivity.
  Qed.

  Theorem file_roundtrip_partial :
    file_roundtrip (to_dict I) (from_dict I apply_pickups) (fun l => reloadable l /\ live_free I l = true).
  Proof.
    apply roundtrip_serialisable_gives_file.
    - intros l [H _]. now apply dict_roundtrip_partial.
    - intros l [_ H]. now rewrite to_dict_json_safe_iff.
  Qed.

  Theorem dict_fixpoint_partial : dict_fixpoint (to_dict I) (from_dict I apply_pickups) reloadable.
  Proof. apply roundtrip_gives_fixpoint, dict_roundtrip_partial. Qed.

  Theorem same_behaviour_partial : same_behaviour (to_dict I) (from_dict I apply_pickups) reloadable.
  Proof. apply roundtrip_gives_same_behaviour, dict_roundtrip_partial. Qed.

  Theorem to_dict_injective_partial :
    forall x y, reloadable x -> reloadable y -> to_dict I x = to_dict I y -> x = y.
  Proof. eapply roundtrip_gives_injective, dict_roundtrip_partial. Qed.
  End Clauses.

  (** ** edits.  The values an edit writes (new radius, new vertex positions computed by set_thickness /
      scale_system / a solve / image_solve / a pickup, new index ...) are arbitrary: serialisability does
      not depend on the arithmetic, only on where the values are stored. *)
  Fixpoint upd {X} (k : nat) (f : X -> X) (l : list X) : list X :=
    match l, k with
    | [], _ => []
    | x :: r, O => f x :: r
    | x :: r, S k' => x :: upd k' f r
    end.

  Definition g_cs (g : geom) : cs :=
    match g with GPlane _ c _ | GStd _ c _ _ | GEven _ c _ _ _ _ _ | GPoly _ c _ _ _ _ _ | GCheb _ c _ _ _ _ _ _ _ => c end.
  Definition g_with_cs (c : cs) (g : geom) : geom :=
    match g with
    | GPlane _ _ ko => GPlane A c ko | GStd _ _ R k => GStd A c R k | GEven _ _ R k t m cf => GEven A c R k t m cf
    | GPoly _ _ R k t m cf => GPoly A c R k t m cf | GCheb _ _ R k t m cf nx ny => GCheb A c R k t m cf nx ny
    end.
  Definition cs_with_pos (x y z : A) (c : cs) : cs := match c with CS _ _ _ _ rx ry rz r => CS A x y z rx ry rz r end.
  (** Optic.set_radius(inf) on a standard surface: back to a Plane on the same coordinate system *)
  Definition g_flatten (ko : option A) (g : geom) : geom := match g with GStd _ c _ _ => GPlane A c ko | _ => g end.
  (** Optic.set_conic on a flat surface stores the value as attribute k of the Plane *)
  Definition g_plane_conic (ko : option A) (g : geom) : geom := match g with GPlane _ c _ => GPlane A c ko | _ => g end.
  (** Optic.set_radius: a plane becomes a standard surface with conic 0 *)
  Definition g_set_radius (v : A) (g : geom) : geom :=
    match g with
    | GPlane _ c ko => GStd A c v (match ko with Some k => k | None => c_zero end) | GStd _ c _ k => GStd A c v k | GEven _ c _ k t m cf => GEven A c v k t m cf
    | GPoly _ c _ k t m cf => GPoly A c v k t m cf | GCheb _ c _ k t m cf nx ny => GCheb A c v k t m cf nx ny
    end.
  Definition g_set_conic (v : A) (g : geom) : geom :=
    match g with
    | GPlane _ c ko => GPlane A c ko | GStd _ c R _ => GStd A c R v | GEven _ c R _ t m cf => GEven A c R v t m cf
    | GPoly _ c R _ t m cf => GPoly A c R v t m cf | GCheb _ c R _ t m cf nx ny => GCheb A c R v t m cf nx ny
    end.
  Definition g_set_coeff (i : nat) (v : A) (g : geom) : geom :=
    match g with GEven _ c R k t m cf => GEven A c R k t m (upd i (fun _ => v) cf) | _ => g end.

  Definition s_geom (f : geom -> geom) (s : surface A) : surface A :=
    match s with
    | SObject _ g m => SObject A (f g) m
    | SStandard _ g a b st ap co bs rf => SStandard A (f g) a b st ap co bs rf
    | SImage _ g m ap => SImage A (f g) m ap
    end.
  Definition s_set_post (m : material) (s : surface A) : surface A :=
    match s with
    | SObject _ g _ => SObject A g m
    | SStandard _ g a _ st ap co bs rf => SStandard A g a m st ap co bs rf
    | SImage _ g p ap => SImage A g p ap
    end.
  Definition s_set_pre (m : material) (s : surface A) : surface A :=
    match s with
    | SObject _ g p => SObject A g p
    | SStandard _ g _ b st ap co bs rf => SStandard A g m b st ap co bs rf
    | SImage _ g _ ap => SImage A g m ap
    end.
  Definition s_scale_ap (rmax rmin : A) (s : surface A) : surface A :=
    match s with
    | SStandard _ g a b st (Some _) co bs rf => SStandard A g a b st (Some (PRadial A rmax rmin)) co bs rf
    | SImage _ g m (Some _) => SImage A g m (Some (PRadial A rmax rmin))
    | _ => s
    end.

  Inductive edit :=
  | ESetRadius (k : nat) (v : A)              (* set_radius, radius pickups, radius variables, scale_system *)
  | ESetConic (k : nat) (v : A)               (* set_conic, conic pickups / variables *)
  | ESetIndex (k : nat) (v : A)               (* set_index *)
  | ESetCoeff (k i : nat) (v : A)             (* set_asphere_coeff *)
  | ESetPos (k : nat) (x y z : A)             (* one vertex position written by set_thickness / solves / image_solve /
                                                 scale_system (which also scales the decentres x, y) *)
  | ESetFlat (k : nat) (ko : option A)        (* set_radius(inf): a standard surface becomes a Plane again and keeps
                                                 its conic when that is not zero *)
  | ESetPlaneConic (k : nat) (ko : option A)  (* set_conic on a flat surface *)
  | ESetApertureValue (v : A)                 (* scale_system on an EPD aperture *)
  | ESetPhysAperture (k : nat) (rmax rmin : A) (* scale_system on a surface aperture *)
  | EAddPickup (p : pickup A)
  | EAddSolve (s : solve A).

  Definition with_surfs (l : lens) (ss : list (surface A)) : lens :=
    mkLens (l_ap l) (l_ftype l) ss (l_fields l) (l_fg_tele l) (l_waves l) (l_pol l) (l_pickups l) (l_solves l) (l_tele l).

  Definition apply_edit (l : lens) (e : edit) : lens :=
    match e with
    | ESetRadius k v => with_surfs l (upd k (s_geom (g_set_radius v)) (l_surfs l))
    | ESetConic k v => with_surfs l (upd k (s_geom (g_set_conic v)) (l_surfs l))
    | ESetIndex k v => with_surfs l (upd (S k) (s_set_pre (MIdeal A v c_zero))
                                        (upd k (s_set_post (MIdeal A v c_zero)) (l_surfs l)))
    | ESetCoeff k i v => with_surfs l (upd k (s_geom (g_set_coeff i v)) (l_surfs l))
    | ESetPos k x y z => with_surfs l (upd k (s_geom (fun g => g_with_cs (cs_with_pos x y z (g_cs g)) g)) (l_surfs l))
    | ESetFlat k ko => with_surfs l (upd k (s_geom (g_flatten ko)) (l_surfs l))
    | ESetPlaneConic k ko => with_surfs l (upd k (s_geom (g_plane_conic ko)) (l_surfs l))
    | ESetApertureValue v =>
        mkLens (match l_ap l with Some (SysAp _ t _ tc) => Some (SysAp A t v tc) | None => None end)
               (l_ftype l) (l_surfs l) (l_fields l) (l_fg_tele l) (l_waves l) (l_pol l) (l_pickups l) (l_solves l) (l_tele l)
    | ESetPhysAperture k a b => with_surfs l (upd k (s_scale_ap a b) (l_surfs l))
    | EAddPickup p =>
        mkLens (l_ap l) (l_ftype l) (l_surfs l) (l_fields l) (l_fg_tele l) (l_waves l) (l_pol l)
               (l_pickups l ++ [p]) (l_solves l) (l_tele l)
    | EAddSolve s =>
        mkLens (l_ap l) (l_ftype l) (l_surfs l) (l_fields l) (l_fg_tele l) (l_waves l) (l_pol l)
               (l_pickups l) (l_solves l ++ [s]) (l_tele l)
    end.

  Lemma existsb_upd : forall X (p : X -> bool) (f : X -> X) k l,
      (forall x, p (f x) = p x) -> existsb p (upd k f l) = existsb p l.
  Proof.
    intros X p f k l H. revert k. induction l as [|x r IH]; intros [|k]; simpl; try reflexivity.
    - now rewrite H.
    - now rewrite IH.
  Qed.
  Arguments upd : simpl never.

  (** edits that do not leave a conic on a flat surface *)
  Definition edit_plain (e : edit) : bool :=
    match e with ESetFlat _ (Some _) | ESetPlaneConic _ (Some _) => false | _ => true end.

  Lemma existsb_upd_false : forall X (p : X -> bool) (f : X -> X) k l,
      (forall x, p x = false -> p (f x) = false) -> existsb p l = false -> existsb p (upd k f l) = false.
  Proof.
    intros X p f k l H. revert k. induction l as [|x r IH]; intros [|k] E; unfold upd; fold (@upd X); simpl in *;
      try reflexivity; apply orb_false_iff in E; destruct E as [E1 E2]; apply orb_false_iff; split; auto.
  Qed.

  Lemma edit_keeps_status : forall l e,
      live_free I (apply_edit l e) = live_free I l
      /\ (loadable I l = true -> plane_conic I = true \/ edit_plain e = true -> loadable I (apply_edit l e) = true)
      /\ l_waves (apply_edit l e) = l_waves l.
  Proof.
    intros l e. split; [|split].
    - unfold live_free, has_fresnel, has_polstate.
      destruct e; simpl; try reflexivity; rewrite ?existsb_upd; try reflexivity;
        try (intros [| | ]; reflexivity);
        try (intros [g m|g a b st [ap|] co bs rf|g m [ap|]]; reflexivity).
    - intros Hl Hp. unfold loadable in *.
      apply andb_true_iff in Hl. destruct Hl as [Hl H3]. apply andb_true_iff in Hl. destruct Hl as [H1 H2].
      apply andb_true_iff. split; [apply andb_true_iff; split|].
      + rewrite <- H1. unfold has_image_class. f_equal. f_equal.
        destruct e; simpl; try reflexivity; rewrite ?existsb_upd; try reflexivity;
          try (intros [| | ]; reflexivity);
          try (intros [g m|g a b st [ap|] co bs rf|g m [ap|]]; reflexivity).
      + rewrite <- H2. unfold no_aperture. f_equal. f_equal.
        destruct e; simpl; try reflexivity. destruct (l_ap l) as [[t v0 tc]|]; reflexivity.
      + destruct (plane_conic I) eqn:Epc; [now rewrite orb_true_r|]. rewrite orb_false_r in *.
        destruct Hp as [Hp|Hp]; [discriminate|].
        apply negb_true_iff in H3. apply negb_true_iff. unfold has_plane_conic in *.
        assert (forall f : geom -> geom,
                   (forall g, geom_plane_conic g = false -> geom_plane_conic (f g) = false) ->
                   forall x, surf_plane_conic x = false -> surf_plane_conic (s_geom f x) = false) as Hg.
        { intros f Hf [g m0|g a b st ap co bs rf|g m0 ap]; unfold surf_plane_conic; simpl; apply Hf. }
        destruct e; simpl in *; try assumption.
        * apply existsb_upd_false; [|assumption]. apply Hg. intros [c [k0|]|c R k0|c R k0 t m cf|c R k0 t m cf|c R k0 t m cf nx ny]; simpl; congruence.
        * apply existsb_upd_false; [|assumption]. apply Hg. intros [c [k0|]|c R k0|c R k0 t m cf|c R k0 t m cf|c R k0 t m cf nx ny]; simpl; congruence.
        * apply existsb_upd_false; [|apply existsb_upd_false; [|assumption]];
            intros [g m0|g a b st ap co bs rf|g m0 ap]; unfold surf_plane_conic; simpl; auto.
        * apply existsb_upd_false; [|assumption]. apply Hg. intros [c [k0|]|c R k0|c R k0 t m cf|c R k0 t m cf|c R k0 t m cf nx ny]; simpl; congruence.
        * apply existsb_upd_false; [|assumption]. apply Hg. intros [c [k0|]|c R k0|c R k0 t m cf|c R k0 t m cf|c R k0 t m cf nx ny]; simpl; congruence.
        * destruct ko; [discriminate|]. apply existsb_upd_false; [|assumption]. apply Hg.
          intros [c [k0|]|c R k0|c R k0 t m cf|c R k0 t m cf|c R k0 t m cf nx ny]; simpl; congruence.
        * destruct ko; [discriminate|]. apply existsb_upd_false; [|assumption]. apply Hg.
          intros [c [k0|]|c R k0|c R k0 t m cf|c R k0 t m cf|c R k0 t m cf nx ny]; simpl; congruence.
        * apply existsb_upd_false; [|assumption].
          intros [g m0|g a b st [ap|] co bs rf|g m0 [ap|]]; unfold surf_plane_conic; simpl; auto.
    - destruct e; reflexivity.
  Qed.

  Theorem serialisable_after_edits : forall (es : list edit) (l : lens),
      json_safe (to_dict I (fold_left apply_edit es l)) = json_safe (to_dict I l).
  Proof.
    intros es. induction es as [|e r IH]; intros l; cbn [fold_left]; [reflexivity|].
    rewrite IH, !to_dict_json_safe_iff. apply edit_keeps_status.
  Qed.

  (** a reloadable lens stays reloadable under every edit history; while Plane does not serialise a conic
      ([plane_conic I = false]) the history must not leave one on a flat surface *)
  Theorem reloadable_after_edits : forall (es : list edit) (l : lens),
      wf l -> loadable I l = true ->
      plane_conic I = true \/ forallb edit_plain es = true ->
      decode I (to_dict I (fold_left apply_edit es l)) = Some (fold_left apply_edit es l).
  Proof.
    intros es. induction es as [|e r IH]; intros l Hwf Hl Hp; cbn [fold_left].
    - now apply decode_to_dict.
    - destruct (edit_keeps_status l e) as [_ [H2 H3]]. apply IH.
      + unfold M_C19.wf in *. now rewrite H3.
      + apply H2; [assumption|]. destruct Hp as [Hp|Hp]; [now left|right].
        simpl in Hp. now apply andb_true_iff in Hp.
      + destruct Hp as [Hp|Hp]; [now left|right]. simpl in Hp. now apply andb_true_iff in Hp.
  Qed.
  End WithImpl.

  (** ** with every listed defect repaired ([impl_fixed]) nothing is excluded *)
  Theorem fixed_serialisable : forall l : lens, json_safe (to_dict impl_fixed l) = true.
  Proof. intros l. rewrite to_dict_json_safe_iff. unfold live_free. simpl. now rewrite !orb_true_r. Qed.

  Theorem fixed_file_roundtrip : forall (ap : lens -> lens) (l : lens),
      wf l ->
      match json_file_roundtrip (to_dict impl_fixed l) with
      | Some j => from_dict impl_fixed ap j | None => None end = Some l.
  Proof.
    intros ap l Hwf. unfold json_file_roundtrip. rewrite fixed_serialisable.
    unfold M_C19.from_dict. rewrite decode_to_dict; [reflexivity|assumption|].
    unfold loadable. simpl. now rewrite !orb_true_r.
  Qed.
End Proofs.

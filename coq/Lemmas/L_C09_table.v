(** RmsWavefrontErrorVsField._rms_wavefront_error (regenerated kernel k_wf_rms_vs_field): the table filled by
    the two nested loops holds, at (i, j), the RMS of the OPD samples of field i and wavelength j. *)
From Coq Require Import Reals Lra Lia ZArith List Psatz.
From OV Require Import Ops RInst Num.OpsC09 Gen.Wavefront Spec.S_C09 Lemmas.L_C09_sphere Lemmas.L_C09_stats.
Import ListNotations.
Local Open Scope R_scope.
Notation length := List.length.

(** ** lists *)
Lemma set_nth_length {A} (l : list A) k x : length (set_nth l k x) = length l.
Proof. revert k. induction l as [|y l IH]; intros k; [reflexivity|]. destruct k; cbn; [reflexivity|]. f_equal. apply IH. Qed.

Lemma nth_set_nth_same {A} (l : list A) k x d : (k < length l)%nat -> nth k (set_nth l k x) d = x.
Proof. revert k. induction l as [|y l IH]; intros k H; cbn in H; [lia|]. destruct k; cbn; [reflexivity|]. apply IH. lia. Qed.

Lemma nth_set_nth_other {A} (l : list A) k k' x d : k <> k' -> nth k' (set_nth l k x) d = nth k' l d.
Proof.
  revert k k'. induction l as [|y l IH]; intros k k' H; [reflexivity|].
  destruct k, k'; cbn; try reflexivity; try lia. apply IH. lia.
Qed.

Lemma fold_left_map {A B C} (f : A -> B -> A) (g : C -> B) (l : list C) (a : A) :
  fold_left f (map g l) a = fold_left (fun a x => f a (g x)) l a.
Proof. revert a. induction l as [|x l IH]; intros a; [reflexivity|]. cbn. apply IH. Qed.

Lemma seqZ_map (a : Z) (n : nat) : seqZ a n = map (fun k => (a + Z.of_nat k)%Z) (seq 0 n).
Proof.
  revert a. induction n as [|n IH]; intros a; [reflexivity|]. cbn [seqZ seq map]. f_equal; [lia|].
  rewrite IH, <- seq_shift, map_map. apply map_ext. intros k. lia.
Qed.

Lemma rangeZ_nat (n : nat) : rangeZ 0 (Z.of_nat n) = map Z.of_nat (seq 0 n).
Proof. unfold rangeZ. rewrite Z.sub_0_r, Nat2Z.id, seqZ_map. apply map_ext. intros; lia. Qed.

(** ** tables indexed by naturals *)
Definition set2 (t : list (list R)) (a b : nat) (v : R) : list (list R) :=
  match nth_error t a with None => t | Some row => set_nth t a (set_nth row b v) end.
Definition get2 (t : list (list R)) (a b : nat) : R := nth b (nth a t []) 0.
Definition shape (t : list (list R)) (n m : nat) : Prop := length t = n /\ forall a, (a < n)%nat -> length (nth a t []) = m.

Lemma nthZ_nat {A} (l : list A) (i : nat) : nthZ l (Z.of_nat i) = nth_error l i.
Proof.
  unfold nthZ. cbv zeta.
  assert (E0 : (Z.of_nat i <? 0)%Z = false) by (apply Z.ltb_ge; lia). rewrite !E0. cbn [orb].
  destruct (Z.leb_spec (Z.of_nat (length l)) (Z.of_nat i)) as [H|H]; cbn [orb].
  - symmetry. apply nth_error_None. lia.
  - rewrite Nat2Z.id. reflexivity.
Qed.

Lemma set_nth_overflow {A} (l : list A) k x : (length l <= k)%nat -> set_nth l k x = l.
Proof. revert k. induction l as [|y l IH]; intros k H; [reflexivity|]. destruct k; cbn in H; [lia|]. cbn. f_equal. apply IH. lia. Qed.

Lemma setZ_nat (row : list R) (b : nat) (v : R) : setZ (O:=ROps) row (Z.of_nat b) v = set_nth row b v.
Proof.
  unfold setZ. cbv zeta. rops.
  assert (E0 : (Z.of_nat b <? 0)%Z = false) by (apply Z.ltb_ge; lia). rewrite !E0. cbn [orb].
  destruct (le_lt_dec (length row) b) as [H|H].
  - rewrite (proj2 (Z.leb_le (Z.of_nat (length row)) (Z.of_nat b))) by lia. rewrite set_nth_overflow by exact H. reflexivity.
  - rewrite (proj2 (Z.leb_gt (Z.of_nat (length row)) (Z.of_nat b))) by lia. rewrite Nat2Z.id. reflexivity.
Qed.

Lemma set2Z_nat (t : list (list R)) (a b : nat) (v : R) :
  set2Z (O:=ROps) t (Z.of_nat a) (Z.of_nat b) v = set2 t a b v.
Proof.
  unfold set2Z, set2. rops. rewrite nthZ_nat. destruct (nth_error t a) as [row|]; [|reflexivity].
  cbv zeta. assert (E0 : (Z.of_nat a <? 0)%Z = false) by (apply Z.ltb_ge; lia). rewrite E0, Nat2Z.id, setZ_nat. reflexivity.
Qed.

Lemma get2Z_nat (t : list (list R)) (a b : nat) : get2Z (O:=ROps) t (Z.of_nat a) (Z.of_nat b) = get2 t a b.
Proof.
  unfold get2Z, getLZ, getZ, get2. rops. rewrite !nthZ_nat.
  destruct (nth_error t a) as [row|] eqn:Ea.
  - rewrite (nth_error_nth _ _ [] Ea).
    destruct (nth_error row b) as [x|] eqn:Eb; [rewrite (nth_error_nth _ _ 0 Eb); reflexivity|].
    apply nth_error_None in Eb. rewrite nth_overflow by lia. reflexivity.
  - apply nth_error_None in Ea. rewrite (nth_overflow t [] Ea). cbn. destruct b; reflexivity.
Qed.

Lemma shape_set2 t n m a b v : shape t n m -> shape (set2 t a b v) n m.
Proof.
  intros [Hn Hm]. unfold set2. destruct (nth_error t a) as [row|] eqn:Ea; [|split; assumption].
  assert (Ha : (a < n)%nat) by (rewrite <- Hn; apply nth_error_Some; rewrite Ea; discriminate).
  split; [rewrite set_nth_length; exact Hn|]. intros a' Ha'.
  destruct (Nat.eq_dec a a') as [<-|Hne].
  - rewrite nth_set_nth_same by lia. rewrite set_nth_length. rewrite <- (Hm a Ha). rewrite (nth_error_nth _ _ [] Ea). reflexivity.
  - rewrite nth_set_nth_other by exact Hne. apply Hm. exact Ha'.
Qed.

Lemma get2_set2_same t n m a b v : shape t n m -> (a < n)%nat -> (b < m)%nat -> get2 (set2 t a b v) a b = v.
Proof.
  intros [Hn Hm] Ha Hb. unfold set2, get2.
  destruct (nth_error t a) as [row|] eqn:Ea; [|apply nth_error_None in Ea; lia].
  rewrite nth_set_nth_same by lia. apply nth_set_nth_same.
  rewrite <- (nth_error_nth _ _ [] Ea). rewrite Hm by exact Ha. exact Hb.
Qed.

Lemma get2_set2_other t a b v a' b' : (a, b) <> (a', b') -> get2 (set2 t a b v) a' b' = get2 t a' b'.
Proof.
  intros Hne. unfold set2, get2. destruct (nth_error t a) as [row|] eqn:Ea; [|reflexivity].
  destruct (Nat.eq_dec a a') as [<-|Ha].
  - assert (Hlt : (a < length t)%nat) by (apply nth_error_Some; rewrite Ea; discriminate).
    rewrite nth_set_nth_same by exact Hlt. rewrite (nth_error_nth _ _ [] Ea).
    apply nth_set_nth_other. intros ->. apply Hne. reflexivity.
  - rewrite nth_set_nth_other by exact Ha. reflexivity.
Qed.

(** ** the two loops *)
Section Fill.
  Variable F : nat -> nat -> R.
  Variables n m : nat.

  Definition fill_row (a : nat) (bs : list nat) (t : list (list R)) : list (list R) :=
    fold_left (fun t b => set2 t a b (F a b)) bs t.
  Definition fill (rows : list nat) (t : list (list R)) : list (list R) :=
    fold_left (fun t a => fill_row a (seq 0 m) t) rows t.

  Lemma fill_row_spec a bs : (a < n)%nat -> (forall b, In b bs -> (b < m)%nat) ->
    forall t, shape t n m ->
      shape (fill_row a bs t) n m /\
      (forall a' b', a' <> a -> get2 (fill_row a bs t) a' b' = get2 t a' b') /\
      (forall b', In b' bs -> get2 (fill_row a bs t) a b' = F a b') /\
      (forall b', ~ In b' bs -> get2 (fill_row a bs t) a b' = get2 t a b').
  Proof.
    intros Ha. induction bs as [|b bs IH]; intros Hbs t Hs.
    - cbn. repeat split; try apply Hs; auto. intros b' [].
    - cbn [fill_row fold_left]. fold (fill_row a bs (set2 t a b (F a b))).
      assert (Hb : (b < m)%nat) by (apply Hbs; left; reflexivity).
      assert (Hs1 : shape (set2 t a b (F a b)) n m) by (apply shape_set2; exact Hs).
      destruct (IH (fun x Hx => Hbs x (or_intror Hx)) _ Hs1) as [H1 [H2 [H3 H4]]].
      split; [exact H1|]. split; [|split].
      + intros a' b' Hne. rewrite H2 by exact Hne. apply get2_set2_other. intros E. injection E as E _. lia.
      + intros b' [<-|Hin].
        * destruct (in_dec Nat.eq_dec b bs) as [Hi|Hi]; [apply H3; exact Hi|].
          rewrite H4 by exact Hi. apply (get2_set2_same t n m); assumption.
        * apply H3. exact Hin.
      + intros b' Hni. rewrite H4 by (intros Hi; apply Hni; right; exact Hi).
        apply get2_set2_other. intros E. injection E as E. apply Hni. left. exact E.
  Qed.

  Lemma fill_spec rows : (forall a, In a rows -> (a < n)%nat) ->
    forall t, shape t n m ->
      shape (fill rows t) n m /\
      (forall a b, In a rows -> (b < m)%nat -> get2 (fill rows t) a b = F a b) /\
      (forall a b, ~ In a rows -> get2 (fill rows t) a b = get2 t a b).
  Proof.
    induction rows as [|a rows IH]; intros Hr t Hs.
    - cbn. repeat split; try apply Hs; auto. intros a b [].
    - cbn [fill fold_left]. fold (fill rows (fill_row a (seq 0 m) t)).
      assert (Ha : (a < n)%nat) by (apply Hr; left; reflexivity).
      destruct (fill_row_spec a (seq 0 m) Ha (fun b Hb => proj2 (proj1 (in_seq _ _ _) Hb)) t Hs) as [R1 [R2 [R3 R4]]].
      destruct (IH (fun x Hx => Hr x (or_intror Hx)) _ R1) as [H1 [H2 H3]].
      split; [exact H1|]. split.
      + intros a' b [<-|Hin] Hb.
        * destruct (in_dec Nat.eq_dec a rows) as [Hi|Hi]; [apply H2; assumption|].
          rewrite H3 by exact Hi. apply R3. apply in_seq. lia.
        * apply H2; assumption.
      + intros a' b Hni. rewrite H3 by (intros Hi; apply Hni; right; exact Hi).
        apply R2. intros ->. apply Hni. left. reflexivity.
  Qed.
End Fill.

Lemma shape_zeros2 (n m : nat) : shape (zeros2 (O:=ROps) (Z.of_nat n) (Z.of_nat m)) n m.
Proof.
  unfold zeros2. rewrite !Nat2Z.id. split; [apply repeat_length|].
  intros a Ha. rewrite (nth_indep _ [] (repeat (ofZ (o:=ROps) 0) m)) by (rewrite repeat_length; exact Ha).
  rewrite nth_repeat. apply repeat_length.
Qed.

(** ** the kernel *)
Lemma fold_left_ext {A B} (f g : A -> B -> A) (l : list B) (a : A) :
  (forall a x, f a x = g a x) -> fold_left f l a = fold_left g l a.
Proof. intros H. revert a. induction l as [|x l IH]; intros a; [reflexivity|]. cbn. rewrite H. apply IH. Qed.

Lemma loops_are_fill (G : Z -> Z -> R) (m : nat) (rows : list nat) (t : list (list R)) :
  fold_left (fun t i => fold_left (fun t j => set2Z (O:=ROps) t i j (G i j)) (map Z.of_nat (seq 0 m)) t)
            (map Z.of_nat rows) t
  = fill (fun a b => G (Z.of_nat a) (Z.of_nat b)) m rows t.
Proof.
  unfold fill, fill_row. rewrite fold_left_map. apply fold_left_ext. intros t' a.
  rewrite fold_left_map. apply fold_left_ext. intros t'' b. apply set2Z_nat.
Qed.

Theorem rms_vs_field_table :
  forall (n : nat) (wls : list R) (data : wfdata (O:=ROps)) (i j : nat),
    (i < n)%nat -> (j < length wls)%nat ->
    get2Z (O:=ROps) (k_wf_rms_vs_field ROps (Z.of_nat n) wls data) (Z.of_nat i) (Z.of_nat j)
    = rmsR (fst (wf_cell (wf_row data (Z.of_nat i)) (Z.of_nat j))).
Proof.
  intros n wls data i j Hi Hj. unfold k_wf_rms_vs_field.
  set (m := length wls).
  rewrite !rangeZ_nat.
  rewrite (loops_are_fill (fun i j => sqrt_ (o:=ROps) (mean_list (sq_list (fst (wf_cell (wf_row data i) j))))) m (seq 0 n)).
  rewrite get2Z_nat.
  destruct (fill_spec (fun a b => sqrt_ (o:=ROps) (mean_list (sq_list (fst (wf_cell (wf_row data (Z.of_nat a)) (Z.of_nat b))))))
                      n m (seq 0 n) (fun a Ha => proj2 (proj1 (in_seq _ _ _) Ha)) _ (shape_zeros2 n m)) as [_ [H _]].
  rewrite H; [|apply in_seq; lia|exact Hj].
  rewrite mean_list_meanR, sq_list_map. reflexivity.
Qed.

(** the table has one row per field and one column per wavelength *)
Theorem rms_vs_field_shape :
  forall (n : nat) (wls : list R) (data : wfdata (O:=ROps)),
    shape (k_wf_rms_vs_field ROps (Z.of_nat n) wls data) n (length wls).
Proof.
  intros n wls data. unfold k_wf_rms_vs_field. set (m := length wls). rewrite !rangeZ_nat.
  rewrite (loops_are_fill (fun i j => sqrt_ (o:=ROps) (mean_list (sq_list (fst (wf_cell (wf_row data i) j))))) m (seq 0 n)).
  apply (fill_spec _ n m (seq 0 n) (fun a Ha => proj2 (proj1 (in_seq _ _ _) Ha)) _ (shape_zeros2 n m)).
Qed.

(** * C07 - re-descriptions that leave the physical system unchanged.

    - the hand-written frame changes of Model/Trace.v ARE the regenerated kernels of
      CoordinateSystem.localize / globalize (every instance of [Ops]);
    - a plane between equal non-absorbing media (dummy surface) only moves the ray along itself:
      refraction with n1 = n2 returns the direction, propagation and path length add up;
    - with dispersion-free, non-absorbing media the trace depends on the wavelength only through
      the wavelength field of the ray record;
    - a sphere tilted about its own centre of curvature is the same point set, and refraction /
      reflection commute with the rotation of the frame. *)
From Coq Require Import Reals Lra Psatz ZArith List Bool.
From OV Require Import Ops RInst Gen.RealRays Gen.Standard Gen.Geometries Gen.Apertures Gen.C07K
  Model.Trace Model.M_C07 Lemmas.L_RealRays Lemmas.L_Standard.
Import ListNotations.

Local Open Scope R_scope.

(** ** dummy surface *)
(** refraction between equal media returns the incident direction (no hypothesis on the vectors) *)
Theorem refract_equal_media nx ny nz n L M N :
  n <> 0 -> k_refract ROps nx ny nz n n L M N = (L, M, N).
Proof.
  intros Hn. unfold k_refract, k_align. rops.
  set (dot := L * nx + M * ny + N * nz).
  replace (n / n) with 1 by (field; exact Hn).
  replace (1 - 1 * 1 * (1 - Rabs dot * Rabs dot)) with (Rabs dot * Rabs dot) by ring.
  rewrite sqrt_square by apply Rabs_pos.
  f_equal; [f_equal|]; ring.
Qed.

(** moving t1 then t2 along the ray = moving t1 + t2; a medium with k = 0 leaves the intensity alone *)
Theorem propagate_additive t1 t2 x L y M z N w i :
  let '(x1, y1, z1, i1) := k_propagate ROps t1 x L y M z N 0 w i in
  k_propagate ROps t2 x1 L y1 M z1 N 0 w i1 = k_propagate ROps (t1 + t2) x L y M z N 0 w i.
Proof.
  unfold k_propagate. rops.
  replace (4 * PI * 0 / w) with 0 by (unfold Rdiv; ring).
  replace (- 0 * t1 * Rlit 1 3) with 0 by ring.
  replace (- 0 * t2 * Rlit 1 3) with 0 by ring.
  replace (- 0 * (t1 + t2) * Rlit 1 3) with 0 by ring.
  rewrite exp_0. f_equal; [f_equal; [f_equal|]|]; ring.
Qed.

Theorem opd_additive t1 t2 n : 0 <= t1 -> 0 <= t2 -> Rabs (t1 * n) + Rabs (t2 * n) = Rabs ((t1 + t2) * n).
Proof.
  intros H1 H2. rewrite !Rabs_mult. rewrite (Rabs_right t1), (Rabs_right t2), (Rabs_right (t1 + t2)) by lra. ring.
Qed.

(** the whole dummy surface: the ray is moved to the plane and nothing else changes *)
Lemma nonzero_0_R : nonzero (O:=ROps) (ofZ 0) = false.
Proof. unfold nonzero. rops. replace (Reqb 0 0) with true; [reflexivity|]. symmetry. apply Reqb_true. reflexivity. Qed.

Lemma localize_dummy zd n x y z L M N i w opd :
  localize (dummy_surf (O:=ROps) zd n) (mkRay (O:=ROps) x y z L M N i w opd) = mkRay (O:=ROps) x y (z - zd) L M N i w opd.
Proof.
  unfold localize, dummy_surf.
  cbn [s_x s_y s_z s_rx s_ry s_rz rx ry rz rL rM rN ri rw ropd].
  rewrite !nonzero_0_R. unfold k_translate. rops. cbn [rx ry rz rL rM rN ri rw ropd].
  f_equal; ring.
Qed.
Lemma globalize_dummy zd n x y z L M N i w opd :
  globalize (dummy_surf (O:=ROps) zd n) (mkRay (O:=ROps) x y z L M N i w opd) = mkRay (O:=ROps) x y (z + zd) L M N i w opd.
Proof.
  unfold globalize, dummy_surf.
  cbn [s_x s_y s_z s_rx s_ry s_rz rx ry rz rL rM rN ri rw ropd].
  rewrite !nonzero_0_R. unfold k_translate. rops. cbn [rx ry rz rL rM rN ri rw ropd].
  f_equal; ring.
Qed.

Theorem dummy_surface_advances (zd n : R) (r : ray ROps) :
  n <> 0 -> rN r <> 0 -> 0 <= (zd - rz r) / rN r ->
  trace_surface (dummy_surf (O:=ROps) zd n) r = Some (advance (O:=ROps) ((zd - rz r) / rN r) n r).
Proof.
  intros Hn HN Ht. destruct r as [x y z L M N i w opd]. cbn [rz rN] in *.
  unfold trace_surface. rewrite localize_dummy.
  assert (E1 : s_shape (dummy_surf (O:=ROps) zd n) = SPlane) by reflexivity.
  assert (E2 : s_k1 (dummy_surf (O:=ROps) zd n) = 0) by reflexivity.
  assert (E3 : s_aper (dummy_surf (O:=ROps) zd n) = None) by reflexivity.
  assert (E4 : s_refl (dummy_surf (O:=ROps) zd n) = false) by reflexivity.
  assert (E5 : s_coat (dummy_surf (O:=ROps) zd n) = None) by reflexivity.
  assert (E6 : s_n1 (dummy_surf (O:=ROps) zd n) = n) by reflexivity.
  assert (E7 : s_n2 (dummy_surf (O:=ROps) zd n) = n) by reflexivity.
  rewrite E1, E2, E3, E4, E5, E6, E7.
  unfold distance, normal. cbn [rx ry rz rL rM rN ri rw ropd].
  unfold k_plane_distance. rops.
  set (t := (zd - z) / N) in *.
  replace (- (z - zd) / N) with t by (unfold t; field; exact HN).
  replace (Rltb t 0) with false by (symmetry; apply Rltb_false; exact Ht).
  unfold k_propagate. rops.
  replace (4 * PI * 0 / w) with 0 by (unfold Rdiv; ring).
  replace (- 0 * t * Rlit 1 3) with 0 by ring. rewrite exp_0.
  cbn [rx ry rz rL rM rN ri rw ropd].
  rewrite (refract_equal_media 0 0 1 n L M N Hn).
  cbn [rx ry rz rL rM rN ri rw ropd].
  rewrite globalize_dummy. unfold advance. cbn [rx ry rz rL rM rN ri rw ropd]. rops.
  f_equal. f_equal; ring.
Qed.

(** a plane further along the same ray is reached from the dummy surface exactly when it is reached
    directly, with the remaining distance: the next plane cannot tell whether the dummy was there *)
Theorem plane_after_dummy z N t1 :
  N <> 0 -> k_plane_distance ROps (z + t1 * N) N = (if Rltb (- z / N - t1) 0 then 0 else - z / N - t1).
Proof.
  intros HN. unfold k_plane_distance. rops.
  replace (- (z + t1 * N) / N) with (- z / N - t1) by (field; exact HN). reflexivity.
Qed.

(** a conic further along the ray: moving the start point by t1 along the ray shifts both candidate
    intersection parameters by t1 and keeps the intersection POINTS (discriminant and quadric
    unchanged): stated on the quadratic the kernel solves *)
Theorem conic_roots_shift k N L M z x y Rc t1 t :
  quadric k Rc (x + t1 * L + t * L) (y + t1 * M + t * M) (z + t1 * N + t * N) =
  quadric k Rc (x + (t1 + t) * L) (y + (t1 + t) * M) (z + (t1 + t) * N).
Proof. unfold quadric. ring. Qed.

(** ** wavelength independence *)
Definition nonabsorbing (u : surf ROps) : Prop := s_k1 u = 0.

Lemma propagate_wavelength_free t x L y M z N w w' i :
  k_propagate ROps t x L y M z N 0 w i = k_propagate ROps t x L y M z N 0 w' i.
Proof.
  unfold k_propagate. rops.
  replace (4 * PI * 0 / w) with 0 by (unfold Rdiv; ring).
  replace (4 * PI * 0 / w') with 0 by (unfold Rdiv; ring). reflexivity.
Qed.

Lemma localize_set_w u w' (r : ray ROps) : localize u (set_w w' r) = set_w w' (localize u r).
Proof.
  destruct u as [sx sy sz srx sry srz sh n1 n2 k1 rf ap co], r as [x y z L M N i w opd]. unfold localize, set_w.
  cbn [s_x s_y s_z s_rx s_ry s_rz rx ry rz rL rM rN ri rw ropd].
  destruct (k_translate ROps (neg sx) (neg sy) (neg sz) x y z) as [[a b] c].
  cbn [rx ry rz rL rM rN ri rw ropd].
  destruct (nonzero srx); cbn [rx ry rz rL rM rN ri rw ropd];
    [destruct (k_rotate_x ROps (neg srx) b c M N) as [[[? ?] ?] ?]|]; cbn [rx ry rz rL rM rN ri rw ropd];
  (destruct (nonzero sry); cbn [rx ry rz rL rM rN ri rw ropd];
    [match goal with |- context [k_rotate_y ROps ?p ?q ?v ?u ?t] => destruct (k_rotate_y ROps p q v u t) as [[[? ?] ?] ?] end|];
   cbn [rx ry rz rL rM rN ri rw ropd]);
  (destruct (nonzero srz); cbn [rx ry rz rL rM rN ri rw ropd];
    [match goal with |- context [k_rotate_z ROps ?p ?q ?v ?u ?t] => destruct (k_rotate_z ROps p q v u t) as [[[? ?] ?] ?] end|];
   cbn [rx ry rz rL rM rN ri rw ropd]); reflexivity.
Qed.

Lemma globalize_set_w u w' (r : ray ROps) : globalize u (set_w w' r) = set_w w' (globalize u r).
Proof.
  destruct u as [sx sy sz srx sry srz sh n1 n2 k1 rf ap co], r as [x y z L M N i w opd]. unfold globalize, set_w.
  cbn [s_x s_y s_z s_rx s_ry s_rz rx ry rz rL rM rN ri rw ropd].
  destruct (nonzero srz); cbn [rx ry rz rL rM rN ri rw ropd];
    [destruct (k_rotate_z ROps srz x y L M) as [[[? ?] ?] ?]|]; cbn [rx ry rz rL rM rN ri rw ropd];
  (destruct (nonzero sry); cbn [rx ry rz rL rM rN ri rw ropd];
    [match goal with |- context [k_rotate_y ROps ?p ?q ?v ?u ?t] => destruct (k_rotate_y ROps p q v u t) as [[[? ?] ?] ?] end|];
   cbn [rx ry rz rL rM rN ri rw ropd]);
  (destruct (nonzero srx); cbn [rx ry rz rL rM rN ri rw ropd];
    [match goal with |- context [k_rotate_x ROps ?p ?q ?v ?u ?t] => destruct (k_rotate_x ROps p q v u t) as [[[? ?] ?] ?] end|];
   cbn [rx ry rz rL rM rN ri rw ropd]);
  match goal with |- context [k_translate ROps ?a ?b ?c ?d ?e ?f] => destruct (k_translate ROps a b c d e f) as [[? ?] ?] end;
  reflexivity.
Qed.

Lemma normal_w (sh : shape ROps) a b c d e f g w1 w2 h :
  normal sh (mkRay a b c d e f g w1 h) = normal sh (mkRay a b c d e f g w2 h).
Proof. destruct sh; reflexivity. Qed.
Lemma distance_w (sh : shape ROps) a b c d e f g w1 w2 h :
  distance sh (mkRay a b c d e f g w1 h) = distance sh (mkRay a b c d e f g w2 h).
Proof. destruct sh; reflexivity. Qed.

Lemma trace_surface_set_w u w' (r : ray ROps) :
  nonabsorbing u -> trace_surface u (set_w w' r) = option_map (set_w w') (trace_surface u r).
Proof.
  intros Hk. unfold trace_surface. rewrite localize_set_w.
  destruct (localize u r) as [x y z L M N i w opd]. unfold nonabsorbing in Hk. rewrite Hk.
  change (set_w w' (mkRay x y z L M N i w opd)) with (mkRay x y z L M N i w' opd).
  rewrite (distance_w (s_shape u) x y z L M N i w' w opd).
  destruct (distance (s_shape u) (mkRay x y z L M N i w opd)) as [t|]; [|reflexivity].
  cbn [rx ry rz rL rM rN ri rw ropd].
  rewrite (propagate_wavelength_free t x L y M z N w' w i).
  destruct (k_propagate ROps t x L y M z N 0 w i) as [[[px py] pz] pi].
  destruct (s_aper u) as [[rmax rmin]|]; cbn [rx ry rz rL rM rN ri rw ropd].
  - rewrite (normal_w (s_shape u) px py pz L M N _ w' w _).
    destruct (normal (s_shape u) _) as [[[nx ny] nz]|]; [|reflexivity].
    destruct (s_refl u);
      [destruct (k_reflect ROps nx ny nz L M N) as [[tx ty] tz]|destruct (k_refract ROps nx ny nz (s_n1 u) (s_n2 u) L M N) as [[tx ty] tz]];
    destruct (s_coat u) as [[tr rf]|]; cbn [rx ry rz rL rM rN ri rw ropd option_map];
    rewrite <- globalize_set_w; reflexivity.
  - rewrite (normal_w (s_shape u) px py pz L M N _ w' w _).
    destruct (normal (s_shape u) _) as [[[nx ny] nz]|]; [|reflexivity].
    destruct (s_refl u);
      [destruct (k_reflect ROps nx ny nz L M N) as [[tx ty] tz]|destruct (k_refract ROps nx ny nz (s_n1 u) (s_n2 u) L M N) as [[tx ty] tz]];
    destruct (s_coat u) as [[tr rf]|]; cbn [rx ry rz rL rM rN ri rw ropd option_map];
    rewrite <- globalize_set_w; reflexivity.
Qed.

Theorem trace_wavelength_independent ss : forall w' (r : ray ROps),
  Forall nonabsorbing ss -> trace ss (set_w w' r) = option_map (map (set_w w')) (trace ss r).
Proof.
  induction ss as [|u ss IH]; intros w' r H; [reflexivity|].
  inversion H as [|u' ss' Hu Hss]; subst. cbn [trace].
  rewrite (trace_surface_set_w _ _ _ Hu).
  destruct (trace_surface u r) as [r'|]; [|reflexivity]. cbn [option_map].
  rewrite (IH _ _ Hss). destruct (trace ss r'); reflexivity.
Qed.

(** ** tilt of a sphere about its own centre of curvature *)
(** the sphere of radius Rc with vertex (vx, vy, vz), untilted, and its re-description with tilt a
    about x, vertex (vx, vy + Rc sin a, vz + Rc (1 - cos a)): a global point has the same value of the
    surface's quadric in both local frames, so it is on one iff it is on the other *)
Theorem sphere_tilt_x_same_points (X Y Z vx vy vz Rc a : R) :
  let '(x0, y0, z0) := k_translate ROps (- vx) (- vy) (- vz) X Y Z in
  let '(x1, y1, z1) := k_translate ROps (- vx) (- (vy + Rc * sin a)) (- (vz + Rc * (1 - cos a))) X Y Z in
  let '(y2, z2, _, _) := k_rotate_x ROps (- a) y1 z1 0 0 in
  quadric 0 Rc x1 y2 z2 = quadric 0 Rc x0 y0 z0.
Proof.
  unfold k_translate, k_rotate_x, quadric. rops. rewrite cos_neg, sin_neg.
  generalize (cs1 a); intros H.
  set (c := cos a) in *. set (s := sin a) in *.
  assert (Hs : s * s = 1 - c * c) by lra.
  ring [Hs].
Qed.
Theorem sphere_tilt_y_same_points (X Y Z vx vy vz Rc a : R) :
  let '(x0, y0, z0) := k_translate ROps (- vx) (- vy) (- vz) X Y Z in
  let '(x1, y1, z1) := k_translate ROps (- (vx - Rc * sin a)) (- vy) (- (vz + Rc * (1 - cos a))) X Y Z in
  let '(x2, z2, _, _) := k_rotate_y ROps (- a) x1 z1 0 0 in
  quadric 0 Rc x2 y1 z2 = quadric 0 Rc x0 y0 z0.
Proof.
  unfold k_translate, k_rotate_y, quadric. rops. rewrite cos_neg, sin_neg.
  generalize (cs1 a); intros H.
  set (c := cos a) in *. set (s := sin a) in *.
  assert (Hs : s * s = 1 - c * c) by lra.
  ring [Hs].
Qed.

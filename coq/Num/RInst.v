(** * ROps: exact real interpretation (proof instance) *)
From Coq Require Import Reals ZArith Lra.
From OV Require Import Ops.
Local Open Scope R_scope.

Definition Rltb (x y : R) : bool := if Rlt_dec x y then true else false.
Definition Rleb (x y : R) : bool := if Rle_dec x y then true else false.
Definition Reqb (x y : R) : bool := if Req_EM_T x y then true else false.
Definition Rsign (x : R) : R := if Rlt_dec 0 x then 1 else if Rlt_dec x 0 then -1 else 0.

(** decimal literal  m * 10^e *)
Definition Rlit (m e : Z) : R :=
  if (e <? 0)%Z then IZR m / IZR (10 ^ (- e)) else IZR m * IZR (10 ^ e).

(** [atan2] and [floor]: real versions (only used in statements that do not depend on them) *)
Definition Ratan2 (y x : R) : R :=
  if Rlt_dec 0 x then atan (y / x)
  else if Rlt_dec x 0 then (if Rle_dec 0 y then atan (y / x) + PI else atan (y / x) - PI)
  else if Rlt_dec 0 y then PI / 2 else if Rlt_dec y 0 then - PI / 2 else 0.
Definition Rpow (x y : R) : R := if Req_EM_T y 0 then 1 else if Req_EM_T x 0 then 0 else Rpower x y.
Definition Rfloor (x : R) : R := IZR (Int_part x).

Definition ROps : Ops := {|
  T := R; add := Rplus; sub := Rminus; mul := Rmult; div := Rdiv;
  neg := Ropp; sqrt_ := R_sqrt.sqrt; abs_ := Rabs; sign_ := Rsign;
  ltb_ := Rltb; leb_ := Rleb; eqb_ := Reqb;
  isnan_ := fun _ => false; isinf_ := fun _ => false;
  ofZ := IZR; lit := fun m e _ => Rlit m e;
  inf_ := 0; nan_ := 0; pi_ := PI;
  cos_ := cos; sin_ := sin; tan_ := tan; exp_ := exp;
  acos_ := acos; asin_ := asin; atan2_ := Ratan2; pow_ := Rpow; floor_ := Rfloor |}.

Lemma Rltb_true x y : Rltb x y = true <-> x < y.
Proof. unfold Rltb; destruct (Rlt_dec x y); split; intros; auto; try discriminate; lra. Qed.
Lemma Rltb_false x y : Rltb x y = false <-> y <= x.
Proof. unfold Rltb; destruct (Rlt_dec x y); split; intros; auto; try discriminate; lra. Qed.
Lemma Rleb_true x y : Rleb x y = true <-> x <= y.
Proof. unfold Rleb; destruct (Rle_dec x y); split; intros; auto; try discriminate; lra. Qed.
Lemma Rleb_false x y : Rleb x y = false <-> y < x.
Proof. unfold Rleb; destruct (Rle_dec x y); split; intros; auto; try discriminate; lra. Qed.
Lemma Reqb_true x y : Reqb x y = true <-> x = y.
Proof. unfold Reqb; destruct (Req_EM_T x y); split; intros; auto; try discriminate; lra. Qed.
Lemma Reqb_false x y : Reqb x y = false <-> x <> y.
Proof. unfold Reqb; destruct (Req_EM_T x y); split; intros; auto; try discriminate; contradiction. Qed.

Lemma Rsign_pos x : 0 < x -> Rsign x = 1.
Proof. intros; unfold Rsign; destruct (Rlt_dec 0 x); [reflexivity|lra]. Qed.
Lemma Rsign_neg x : x < 0 -> Rsign x = -1.
Proof. intros; unfold Rsign; destruct (Rlt_dec 0 x); [lra|]. destruct (Rlt_dec x 0); [reflexivity|lra]. Qed.
Lemma Rsign_zero : Rsign 0 = 0.
Proof. unfold Rsign; destruct (Rlt_dec 0 0); [lra|]; destruct (Rlt_dec 0 0); [lra|reflexivity]. Qed.
Lemma Rsign_abs x : Rsign x * x = Rabs x.
Proof.
  destruct (Rtotal_order x 0) as [H|[H|H]].
  - rewrite Rsign_neg, Rabs_left by assumption; ring.
  - subst; rewrite Rsign_zero, Rabs_R0; ring.
  - rewrite Rsign_pos, Rabs_right by lra; ring.
Qed.
Lemma Rsign_sq x : x <> 0 -> Rsign x * Rsign x = 1.
Proof.
  intros Hx; destruct (Rtotal_order x 0) as [H|[H|H]]; [|contradiction|].
  - rewrite Rsign_neg by assumption; ring.
  - rewrite Rsign_pos by assumption; ring.
Qed.

(** unfold every Ops projection of ROps *)
Ltac rops := cbn [T add sub mul div neg sqrt_ abs_ sign_ ltb_ leb_ eqb_ isnan_ isinf_ ofZ lit
                  inf_ nan_ pi_ cos_ sin_ tan_ exp_ acos_ asin_ atan2_ pow_ floor_ ROps] in *.

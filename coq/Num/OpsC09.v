(** * Extra primitives used by the kernels regenerated for property C09
    (optiland/wavefront.py, optiland/analysis/rms_vs_field.py). *)
From Coq Require Import ZArith List.
From OV Require Import Ops.
Import ListNotations.

Section C09.
  Context {O : Ops}.
  Notation T := (T O).

  (** a ** 2 on an array *)
  Definition sq_list (l : list T) : list T := map (fun x => mul x x) l.
  (** np.mean(a) = np.add.reduce(a) / a.size  (0/0 = nan on an empty array) *)
  Definition mean_list (l : list T) : T := div (sum_list l) (ofZ (Z.of_nat (length l))).

  (** Wavefront.data : per field, per wavelength, the pair (opd array, intensity array) *)
  Definition wfdata := list (list (list T * list T)).
  Definition wf_row (d : wfdata) (i : Z) : list (list T * list T) :=
    match nthZ d i with Some r => r | None => [] end.
  Definition wf_cell (r : list (list T * list T)) (j : Z) : list T * list T :=
    match nthZ r j with Some c => c | None => ([], []) end.

  (** np.zeros((n, m)) and tbl[i, j] = v *)
  Definition zeros2 (n m : Z) : list (list T) := repeat (repeat (ofZ 0) (Z.to_nat m)) (Z.to_nat n).
  Definition set2Z (tbl : list (list T)) (i j : Z) (v : T) : list (list T) :=
    match nthZ tbl i with
    | None => tbl
    | Some row =>
        let n := Z.of_nat (length tbl) in
        let i' := if (i <? 0)%Z then (n + i)%Z else i in
        set_nth tbl (Z.to_nat i') (setZ row j v)
    end.
End C09.

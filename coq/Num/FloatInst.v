(** * FOps: binary64 execution instance (PrimFloat), used only by [vm_compute]
    in the correspondence check.  [+ - * / sqrt abs] and comparisons are the IEEE
    primitives; the transcendental functions are software implementations accurate to
    about 1e-15 relative (validated against libm by the harness), compared with a
    tolerance, never bit-for-bit. *)
From Coq Require Import Bool ZArith Uint63 PrimFloat FloatOps List.
From OV Require Import Ops.
Import ListNotations.
Local Open Scope bool_scope.
Local Open Scope float_scope.

Definition F_ofZ (z : Z) : float :=
  if (z <? 0)%Z then - (of_uint63 (Uint63.of_Z (- z))) else of_uint63 (Uint63.of_Z z).

Definition F_isnan (x : float) : bool := negb (x =? x).
Definition F_isinf (x : float) : bool := (abs x =? infinity).
Definition F_sign (x : float) : float :=
  if F_isnan x then nan else if 0 <? x then 1 else if x <? 0 then -1 else 0.

(** round to nearest integer, for |x| < 2^51 *)
Definition F_rint (x : float) : float :=
  if abs x <? 0x1p51 then (x + 0x1.8p52) - 0x1.8p52 else x.
Definition F_floor (x : float) : float :=
  let r := F_rint x in if x <? r then r - 1 else r.

(** Horner evaluation  c0 + y*(c1 + y*(...)) *)
Fixpoint horner (cs : list float) (y : float) : float :=
  match cs with [] => 0 | c :: cs' => c + y * horner cs' y end.

Definition PIO2_1 := 0x1.921fb54400000p+0.   (* first 33 bits of pi/2 *)
Definition PIO2_2 := 0x1.0b4611a600000p-34.
Definition PIO2_3 := 0x1.3198a2e037073p-69.
Definition F_pi := 0x1.921fb54442d18p+1.
Definition F_pio2 := 0x1.921fb54442d18p+0.

(* Taylor coefficients in y = r^2:  sin r = r * S(y),  cos r = C(y) *)
Definition sin_cs : list float :=
  [1; -1/6; 1/120; -1/5040; 1/362880; -1/39916800; 1/6227020800; -1/1307674368000;
   1/355687428096000; -1/121645100408832000].
Definition cos_cs : list float :=
  [1; -1/2; 1/24; -1/720; 1/40320; -1/3628800; 1/479001600; -1/87178291200;
   1/20922789888000; -1/6402373705728000; 1/2432902008176640000].

Definition sincos_red (x : float) : float * float :=   (* (quadrant in {0,1,2,3}, r) *)
  let k := F_rint (x * 0x1.45f306dc9c883p-1) in       (* 2/pi *)
  let r := ((x - k * PIO2_1) - k * PIO2_2) - k * PIO2_3 in
  let q := k - 4 * F_floor (k / 4) in
  (q, r).
Definition ksin (r : float) := r * horner sin_cs (r * r).
Definition kcos (r : float) := horner cos_cs (r * r).

Definition F_sin (x : float) : float :=
  if F_isnan x || F_isinf x then nan else
  let '(q, r) := sincos_red x in
  if q =? 0 then ksin r else if q =? 1 then kcos r else if q =? 2 then - ksin r else - kcos r.
Definition F_cos (x : float) : float :=
  if F_isnan x || F_isinf x then nan else
  let '(q, r) := sincos_red x in
  if q =? 0 then kcos r else if q =? 1 then - ksin r else if q =? 2 then - kcos r else ksin r.
Definition F_tan (x : float) : float := F_sin x / F_cos x.

Definition LN2_HI := 0x1.62e42fee00000p-1.
Definition LN2_LO := 0x1.a39ef35793c76p-33.
Definition exp_cs : list float :=
  [1; 1; 1/2; 1/6; 1/24; 1/120; 1/720; 1/5040; 1/40320; 1/362880; 1/3628800; 1/39916800;
   1/479001600; 1/6227020800; 1/87178291200; 1/1307674368000].
(** float integer -> Z, |k| small *)
Definition F_toZ (k : float) : Z :=
  let '(m, e) := Z.frexp (abs k) in          (* |k| = m * 2^e, m in [0.5,1) *)
  let zi := to_Z (normfr_mantissa m) in      (* m * 2^53 *)
  let v := Z.shiftr zi (53 - e) in
  if k <? 0 then (- v)%Z else v.
Definition F_exp (x : float) : float :=
  if F_isnan x then nan else
  if 710 <? x then infinity else if x <? -746 then 0 else
  let k := F_rint (x * 0x1.71547652b82fep+0) in      (* 1/ln2 *)
  let r := (x - k * LN2_HI) - k * LN2_LO in
  Z.ldexp (horner exp_cs r) (F_toZ k).

Definition ln_cs : list float :=   (* 2*atanh f = 2 f (1 + f^2/3 + f^4/5 + ...) in y = f^2 *)
  [1; 1/3; 1/5; 1/7; 1/9; 1/11; 1/13; 1/15; 1/17; 1/19; 1/21; 1/23; 1/25; 1/27].
Definition F_ln (x : float) : float :=
  if F_isnan x then nan else if x <? 0 then nan else if x =? 0 then neg_infinity else
  if F_isinf x then infinity else
  let '(m0, e0) := Z.frexp x in
  let '(m, e) := if m0 <? 0x1.6a09e667f3bcdp-1 then (m0 * 2, (e0 - 1)%Z) else (m0, e0) in
  let f := (m - 1) / (m + 1) in
  let ke := F_ofZ e in
  (ke * LN2_HI + (2 * f * horner ln_cs (f * f) + ke * LN2_LO)).

Fixpoint F_pow_nat (x : float) (n : nat) : float :=
  match n with O => 1 | S n' => x * F_pow_nat x n' end.
Definition F_is_int (y : float) : bool := (F_rint y =? y) && (abs y <? 0x1p51).
Definition F_pow (x y : float) : float :=
  if y =? 0 then 1 else
  if F_isnan x || F_isnan y then nan else
  if F_is_int y && (abs y <=? 64) then
    let n := Z.to_nat (F_toZ (abs y)) in
    if y <? 0 then 1 / F_pow_nat x n else F_pow_nat x n
  else if x <? 0 then nan
  else if x =? 0 then (if y <? 0 then infinity else 0)
  else F_exp (y * F_ln x).

Definition atan_cs : list float :=
  [1; -1/3; 1/5; -1/7; 1/9; -1/11; 1/13; -1/15; 1/17; -1/19; 1/21; -1/23; 1/25; -1/27; 1/29].
Definition atan_half (x : float) := x / (1 + sqrt (1 + x * x)).
Definition F_atan_01 (x : float) : float :=     (* 0 <= x <= 1 *)
  let x2 := atan_half (atan_half x) in
  4 * (x2 * horner atan_cs (x2 * x2)).
Definition F_atan (x : float) : float :=
  if F_isnan x then nan else
  let a := abs x in
  let r := if a <=? 1 then F_atan_01 a else F_pio2 - F_atan_01 (1 / a) in
  if x <? 0 then - r else r.
Definition F_atan2 (y x : float) : float :=
  if F_isnan x || F_isnan y then nan else
  if 0 <? x then F_atan (y / x)
  else if x <? 0 then (if y <? 0 then F_atan (y / x) - F_pi else F_atan (y / x) + F_pi)
  else if 0 <? y then F_pio2 else if y <? 0 then - F_pio2 else 0.
Definition F_asin (x : float) : float :=
  if 1 <? abs x then nan else F_atan2 x (sqrt ((1 - x) * (1 + x))).
Definition F_acos (x : float) : float :=
  if 1 <? abs x then nan else F_atan2 (sqrt ((1 - x) * (1 + x))) x.

Definition FOps : Ops := {|
  T := float; add := PrimFloat.add; sub := PrimFloat.sub; mul := PrimFloat.mul; div := PrimFloat.div;
  neg := PrimFloat.opp; sqrt_ := PrimFloat.sqrt; abs_ := PrimFloat.abs; sign_ := F_sign;
  ltb_ := PrimFloat.ltb; leb_ := PrimFloat.leb; eqb_ := PrimFloat.eqb;
  isnan_ := F_isnan; isinf_ := F_isinf;
  ofZ := F_ofZ; lit := fun _ _ f => f;
  inf_ := infinity; nan_ := nan; pi_ := F_pi;
  cos_ := F_cos; sin_ := F_sin; tan_ := F_tan; exp_ := F_exp;
  acos_ := F_acos; asin_ := F_asin; atan2_ := F_atan2; pow_ := F_pow; floor_ := F_floor |}.

(** ** Comparison helpers for the correspondence check *)
Definition same (a b : float) : bool := (a =? b) || (F_isnan a && F_isnan b).
(** close: relative-or-absolute tolerance; NaN ~ NaN; infinities exact *)
Definition close (tol : float) (a b : float) : bool :=
  if F_isnan a || F_isnan b then F_isnan a && F_isnan b
  else if F_isinf a || F_isinf b then (a =? b)
  else abs (a - b) <=? tol * (1 + PrimFloat.abs a + PrimFloat.abs b).
Fixpoint close_list (tol : float) (a b : list float) : bool :=
  match a, b with
  | [], [] => true
  | x :: a', y :: b' => close tol x y && close_list tol a' b'
  | _, _ => false
  end.
(** indices of failing cases *)
Fixpoint failing_from (i : nat) (l : list bool) : list nat :=
  match l with [] => [] | b :: l' => if b then failing_from (S i) l' else i :: failing_from (S i) l' end.
Definition report (l : list bool) : nat * nat * list nat :=
  let f := failing_from 0 l in (length l, length f, firstn 10 f).

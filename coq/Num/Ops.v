(** * Ops: the arithmetic signature every translated kernel is written against.

    One Gallina term, several interpretations:
    - [ROps]  exact reals (proofs of algebraic identities);
    - [FOps]  IEEE binary64 via PrimFloat (execution, correspondence with NumPy);
    - [XOps]  extended reals with NaN/inf (proofs of the non-finite clauses), in XR.v. *)
From Coq Require Import ZArith List.
From Coq Require PrimFloat.
Import ListNotations.

Record Ops := mkOps {
  T : Type;
  add : T -> T -> T;  sub : T -> T -> T;  mul : T -> T -> T;  div : T -> T -> T;
  neg : T -> T;  sqrt_ : T -> T;  abs_ : T -> T;  sign_ : T -> T;
  ltb_ : T -> T -> bool;  leb_ : T -> T -> bool;  eqb_ : T -> T -> bool;
  isnan_ : T -> bool; isinf_ : T -> bool;
  ofZ : Z -> T;
  (* decimal literal m * 10^e; FOps uses the carried binary64 (what Python parsed) *)
  lit : Z -> Z -> PrimFloat.float -> T;
  inf_ : T;  nan_ : T;  pi_ : T;
  cos_ : T -> T;  sin_ : T -> T;  tan_ : T -> T;  exp_ : T -> T;
  acos_ : T -> T;  asin_ : T -> T; atan2_ : T -> T -> T;  pow_ : T -> T -> T;
  floor_ : T -> T
}.

Arguments add {o}. Arguments sub {o}. Arguments mul {o}. Arguments div {o}.
Arguments neg {o}. Arguments sqrt_ {o}. Arguments abs_ {o}. Arguments sign_ {o}.
Arguments ltb_ {o}. Arguments leb_ {o}. Arguments eqb_ {o}.
Arguments isnan_ {o}. Arguments isinf_ {o}.
Arguments ofZ {o}. Arguments lit {o}. Arguments inf_ {o}. Arguments nan_ {o}. Arguments pi_ {o}.
Arguments cos_ {o}. Arguments sin_ {o}. Arguments tan_ {o}. Arguments exp_ {o}.
Arguments acos_ {o}. Arguments asin_ {o}. Arguments atan2_ {o}. Arguments pow_ {o}.
Arguments floor_ {o}.

Section Derived.
  Context {O : Ops}.
  Notation T := (T O).

  (** integer power by repeated multiplication: x**k for a literal / loop index k >= 0 *)
  Fixpoint pow_nat (x : T) (n : nat) : T :=
    match n with 0%nat => ofZ 1 | S n' => mul x (pow_nat x n') end.
  Definition powZ (x : T) (k : Z) : T :=
    if (k <? 0)%Z then div (ofZ 1) (pow_nat x (Z.to_nat (- k))) else pow_nat x (Z.to_nat k).

  Definition gtb_ (a b : T) := ltb_ b a.
  Definition geb_ (a b : T) := leb_ b a.
  Definition neb_ (a b : T) := negb (eqb_ a b).

  (** Python list indexing with negative indices; [None] models IndexError *)
  Definition nthZ {A} (l : list A) (i : Z) : option A :=
    let n := Z.of_nat (length l) in
    let j := if (i <? 0)%Z then (n + i)%Z else i in
    if orb (j <? 0)%Z (n <=? j)%Z then None else nth_error l (Z.to_nat j).
  Definition getZ (l : list T) (i : Z) : T :=
    match nthZ l i with Some x => x | None => nan_ end.

  Fixpoint seqZ (a : Z) (n : nat) : list Z :=
    match n with 0%nat => [] | S n' => a :: seqZ (a + 1) n' end.
  Definition rangeZ (a b : Z) : list Z := seqZ a (Z.to_nat (b - a)).
  Definition sum_list (l : list T) : T := fold_left add l (ofZ 0).
  (** np.clip(v, lo, hi) = minimum(maximum(v, lo), hi); NaN propagates *)
  Definition clip_ (v lo hi : T) : T :=
    if isnan_ v then v else
    let v1 := if ltb_ v lo then lo else v in if ltb_ hi v1 then hi else v1.
  (** indices (i, j) of the non-zero entries of a 2-D table in row-major order (np.argwhere(c != 0)) *)
  Definition nonzero_idx (c : list (list T)) : list (Z * Z) :=
    flat_map (fun '(i, row) =>
      flat_map (fun '(j, v) => if eqb_ v (ofZ 0) then [] else [(i, j)]) (combine (seqZ 0 (length row)) row))
      (combine (seqZ 0 (length c)) c).
  Definition getLZ (l : list (list T)) (i : Z) : list T :=
    match nthZ l i with Some x => x | None => [] end.
  Definition get2Z (l : list (list T)) (i j : Z) : T := getZ (getLZ l i) j.
  Definition getIZ (l : list Z) (i : Z) : Z :=
    match nthZ l i with Some x => x | None => 0%Z end.
  Fixpoint set_nth {A} (l : list A) (n : nat) (x : A) : list A :=
    match l with
    | [] => []
    | y :: l' => match n with 0%nat => x :: l' | S n' => y :: set_nth l' n' x end
    end.
  Definition setZ (l : list T) (i : Z) (x : T) : list T :=
    let n := Z.of_nat (length l) in
    let j := if (i <? 0)%Z then (n + i)%Z else i in
    if orb (j <? 0)%Z (n <=? j)%Z then l else set_nth l (Z.to_nat j) x.

  Definition enumZ {A} (l : list A) : list (Z * A) := combine (seqZ 0 (length l)) l.
  (** Python slice l[lo:hi] with non-negative lo; hi = None means to the end, negative hi counts from the end *)
  Definition sliceZ {A} (l : list A) (lo : Z) (hi : option Z) : list A :=
    let n := Z.of_nat (length l) in
    let h := match hi with None => n | Some h => if (h <? 0)%Z then (n + h)%Z else Z.min h n end in
    let lo' := if (lo <? 0)%Z then Z.max 0 (n + lo)%Z else lo in
    firstn (Z.to_nat (h - lo')) (skipn (Z.to_nat lo') l).
End Derived.

(** * Extra list primitives used by the kernels regenerated for property C03
    (NumPy 1-D array code of optiland/distribution.py and ray_generator.py). *)
From Coq Require Import ZArith List Bool.
From OV Require Import Ops.
Import ListNotations.

Section ListOps.
  Context {O : Ops}.
  Notation T := (T O).

  (** elementwise binary operation on two arrays of the same length *)
  Definition zip2 (f : T -> T -> T) (a b : list T) : list T :=
    map (fun p => f (fst p) (snd p)) (combine a b).

  (** np.zeros(n) *)
  Definition zerosZ (n : Z) : list T := repeat (ofZ 0) (Z.to_nat n).

  (** np.linspace(a, b, n) (endpoint=True): y_i = i*step + a with step = (b-a)/(n-1), last point = b
      exactly; n = 1 gives [a]; n <= 0 gives [] (NumPy raises for n < 0: callers keep n >= 0). *)
  Definition linspace_ (a b : T) (n : Z) : list T :=
    match Z.to_nat n with
    | 0%nat => []
    | 1%nat => [a]
    | S m => let step := div (sub b a) (ofZ (n - 1)) in
             map (fun i => add (mul (ofZ i) step) a) (seqZ 0 m) ++ [b]
    end.

  (** np.min over a 1-D array (nan_ for the empty array, where NumPy raises) *)
  Definition min_list (l : list T) : T :=
    match l with
    | [] => nan_
    | x :: r => fold_left (fun a b => if ltb_ b a then b else a) r x
    end.

  (** np.max over a 1-D array (nan_ for the empty array, where NumPy raises) *)
  Definition max_list (l : list T) : T :=
    match l with
    | [] => nan_
    | x :: r => fold_left (fun a b => if ltb_ a b then b else a) r x
    end.

  (** x[mask] *)
  Definition mask_filter (l : list T) (m : list bool) : list T :=
    map fst (filter snd (combine l m)).

  (** np.outer(a, b).flatten() *)
  Definition outer_flat (a b : list T) : list T :=
    flat_map (fun r => map (fun c => mul r c) b) a.

  (** X, Y = np.meshgrid(xs, ys), both flattened in row-major order: X[j,i] = xs[i], Y[j,i] = ys[j] *)
  Definition mesh_x (xs ys : list T) : list T := flat_map (fun _ : T => xs) ys.
  Definition mesh_y (xs ys : list T) : list T := flat_map (fun yv => map (fun _ : T => yv) xs) ys.
End ListOps.

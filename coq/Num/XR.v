(** * XOps: extended reals  Fin r | +inf | -inf | NaN  with IEEE-754 special-value rules
    and EXACT arithmetic on finite values.  Proof instance for the clauses of the
    properties that speak about non-finite results (missed surfaces, total internal
    reflection).  Not modelled: rounding, overflow to inf, underflow, signed zero. *)
From Coq Require Import Reals ZArith Lra.
From OV Require Import Ops RInst.
Local Open Scope R_scope.

Inductive xR := Fin (r : R) | PInf | NInf | NaN.

Definition xneg (a : xR) : xR :=
  match a with Fin x => Fin (- x) | PInf => NInf | NInf => PInf | NaN => NaN end.
Definition xadd (a b : xR) : xR :=
  match a, b with
  | NaN, _ | _, NaN => NaN
  | Fin x, Fin y => Fin (x + y)
  | PInf, NInf | NInf, PInf => NaN
  | PInf, _ | _, PInf => PInf
  | NInf, _ | _, NInf => NInf
  end.
Definition xsub (a b : xR) : xR := xadd a (xneg b).
(** sign of a real as an extended value selector *)
Definition xinf_signed (pos : bool) : xR := if pos then PInf else NInf.
Definition xmul (a b : xR) : xR :=
  match a, b with
  | NaN, _ | _, NaN => NaN
  | Fin x, Fin y => Fin (x * y)
  | Fin x, PInf | PInf, Fin x => if Rlt_dec 0 x then PInf else if Rlt_dec x 0 then NInf else NaN
  | Fin x, NInf | NInf, Fin x => if Rlt_dec 0 x then NInf else if Rlt_dec x 0 then PInf else NaN
  | PInf, PInf | NInf, NInf => PInf
  | PInf, NInf | NInf, PInf => NInf
  end.
Definition xdiv (a b : xR) : xR :=
  match a, b with
  | NaN, _ | _, NaN => NaN
  | Fin x, Fin y =>
      if Req_EM_T y 0 then (if Rlt_dec 0 x then PInf else if Rlt_dec x 0 then NInf else NaN)
      else Fin (x / y)
  | Fin _, PInf | Fin _, NInf => Fin 0
  | PInf, Fin y => if Rlt_dec y 0 then NInf else PInf
  | NInf, Fin y => if Rlt_dec y 0 then PInf else NInf
  | _, _ => NaN
  end.
Definition xsqrt (a : xR) : xR :=
  match a with
  | Fin x => if Rlt_dec x 0 then NaN else Fin (sqrt x)
  | PInf => PInf | _ => NaN end.
Definition xabs (a : xR) : xR :=
  match a with Fin x => Fin (Rabs x) | PInf | NInf => PInf | NaN => NaN end.
Definition xsign (a : xR) : xR :=
  match a with Fin x => Fin (Rsign x) | PInf => Fin 1 | NInf => Fin (-1) | NaN => NaN end.
Definition xltb (a b : xR) : bool :=
  match a, b with
  | NaN, _ | _, NaN => false
  | Fin x, Fin y => Rltb x y
  | NInf, NInf | PInf, _ => false
  | NInf, _ => true
  | Fin _, PInf => true
  | Fin _, NInf => false
  end.
Definition xleb (a b : xR) : bool :=
  match a, b with
  | NaN, _ | _, NaN => false
  | Fin x, Fin y => Rleb x y
  | NInf, _ => true
  | _, PInf => true
  | _, _ => false
  end.
Definition xeqb (a b : xR) : bool :=
  match a, b with
  | Fin x, Fin y => Reqb x y
  | PInf, PInf | NInf, NInf => true
  | _, _ => false
  end.
Definition xisnan (a : xR) := match a with NaN => true | _ => false end.
Definition xisinf (a : xR) := match a with PInf | NInf => true | _ => false end.
Definition xfin1 (f : R -> R) (a : xR) : xR := match a with Fin x => Fin (f x) | _ => NaN end.
Definition xexp (a : xR) : xR :=
  match a with Fin x => Fin (exp x) | PInf => PInf | NInf => Fin 0 | NaN => NaN end.
Definition xacos (a : xR) : xR :=
  match a with Fin x => if Rlt_dec 1 (Rabs x) then NaN else Fin (acos x) | _ => NaN end.
Definition xasin (a : xR) : xR :=
  match a with Fin x => if Rlt_dec 1 (Rabs x) then NaN else Fin (asin x) | _ => NaN end.
Definition xatan2 (a b : xR) : xR :=
  match a, b with Fin y, Fin x => Fin (Ratan2 y x) | _, _ => NaN end.
Definition xpow (a b : xR) : xR :=
  match a, b with Fin x, Fin y => Fin (Rpow x y) | _, _ => NaN end.

Definition XOps : Ops := {|
  T := xR; add := xadd; sub := xsub; mul := xmul; div := xdiv;
  neg := xneg; sqrt_ := xsqrt; abs_ := xabs; sign_ := xsign;
  ltb_ := xltb; leb_ := xleb; eqb_ := xeqb; isnan_ := xisnan; isinf_ := xisinf;
  ofZ := fun z => Fin (IZR z); lit := fun m e _ => Fin (Rlit m e);
  inf_ := PInf; nan_ := NaN; pi_ := Fin PI;
  cos_ := xfin1 cos; sin_ := xfin1 sin; tan_ := xfin1 tan; exp_ := xexp;
  acos_ := xacos; asin_ := xasin; atan2_ := xatan2; pow_ := xpow; floor_ := xfin1 Rfloor |}.

Definition is_fin (a : xR) : Prop := match a with Fin _ => True | _ => False end.

Ltac xops := cbn [T add sub mul div neg sqrt_ abs_ sign_ ltb_ leb_ eqb_ isnan_ isinf_ ofZ lit
                  inf_ nan_ pi_ cos_ sin_ tan_ exp_ acos_ asin_ atan2_ pow_ floor_ XOps] in *.
(** compute finite-by-finite operations *)
Ltac xfin := cbn [xadd xsub xmul xneg xabs xsign xltb xleb xeqb xfin1 xisnan xisinf] in *.

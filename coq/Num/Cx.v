(** * Cx: complex numbers as pairs over [Ops], 3-vectors and 3x3 complex matrices.

    Used by the kernels translated from optiland/jones.py (py2coq_cx) and by the
    hand model of the polarization ray trace (Model/M_C17.v).  Everything is generic
    over the arithmetic signature, so the same term runs in PrimFloat (correspondence)
    and is reasoned about over R (proofs). *)
From Coq Require Import ZArith List.
From OV Require Import Ops.
Import ListNotations.

Section Cx.
  Context {O : Ops}.
  Notation T := (T O).

  Definition Cx := (T * T)%type.
  Definition cre (z : Cx) : T := fst z.
  Definition cim (z : Cx) : T := snd z.
  Definition c0 : Cx := (ofZ 0, ofZ 0).
  Definition c1 : Cx := (ofZ 1, ofZ 0).
  Definition cI : Cx := (ofZ 0, ofZ 1).
  Definition cofR (x : T) : Cx := (x, ofZ 0).
  Definition cadd (a b : Cx) : Cx := (add (fst a) (fst b), add (snd a) (snd b)).
  Definition csub (a b : Cx) : Cx := (sub (fst a) (fst b), sub (snd a) (snd b)).
  Definition cneg (a : Cx) : Cx := (neg (fst a), neg (snd a)).
  Definition cconj (a : Cx) : Cx := (fst a, neg (snd a)).
  Definition cmul (a b : Cx) : Cx :=
    (sub (mul (fst a) (fst b)) (mul (snd a) (snd b)), add (mul (fst a) (snd b)) (mul (snd a) (fst b))).
  Definition cscale (x : T) (a : Cx) : Cx := (mul x (fst a), mul x (snd a)).
  Definition cabs2 (a : Cx) : T := add (mul (fst a) (fst a)) (mul (snd a) (snd a)).
  (** textbook quotient  a * conj b / |b|^2  (NumPy uses Smith's scaling; equal up to rounding) *)
  Definition cdiv (a b : Cx) : Cx :=
    let d := cabs2 b in
    (div (add (mul (fst a) (fst b)) (mul (snd a) (snd b))) d,
     div (sub (mul (snd a) (fst b)) (mul (fst a) (snd b))) d).
  Definition cexp (a : Cx) : Cx :=
    let e := exp_ (fst a) in (mul e (cos_ (snd a)), mul e (sin_ (snd a))).
  (** principal square root.  On the real axis (the only case the Fresnel code produces:
      [(n**2 - sin(aoi)**2).astype(complex)]) it is  sqrt x  or  i sqrt(-x). *)
  Definition csqrt (a : Cx) : Cx :=
    let '(x, y) := a in
    if eqb_ y (ofZ 0) then
      (if ltb_ x (ofZ 0) then (ofZ 0, sqrt_ (neg x)) else (sqrt_ x, ofZ 0))
    else
      let r := sqrt_ (cabs2 a) in
      let re := sqrt_ (div (add r x) (ofZ 2)) in
      let im := sqrt_ (div (sub r x) (ofZ 2)) in
      (re, if ltb_ y (ofZ 0) then neg im else im).

  (** ** 3-vectors (real and complex) *)
  Definition V3 := (T * T * T)%type.
  Definition CV3 := (Cx * Cx * Cx)%type.
  Definition v3x (v : V3) := fst (fst v).
  Definition v3y (v : V3) := snd (fst v).
  Definition v3z (v : V3) := snd v.
  Definition cross (a b : V3) : V3 :=
    let '(ax, ay, az) := a in let '(bx, by_, bz) := b in
    (sub (mul ay bz) (mul az by_), sub (mul az bx) (mul ax bz), sub (mul ax by_) (mul ay bx)).
  Definition dot3 (a b : V3) : T :=
    let '(ax, ay, az) := a in let '(bx, by_, bz) := b in
    add (add (mul ax bx) (mul ay by_)) (mul az bz).
  (** np.linalg.norm(axis=1): sqrt(x^2 + y^2 + z^2) *)
  Definition norm3 (a : V3) : T := sqrt_ (dot3 a a).
  Definition vdiv (a : V3) (m : T) : V3 :=
    let '(ax, ay, az) := a in (div ax m, div ay m, div az m).
  Definition cv_abs2 (e : CV3) : T :=
    let '(a, b, c) := e in add (add (cabs2 a) (cabs2 b)) (cabs2 c).
  (** bilinear (no conjugate) product of a complex field with a real direction *)
  Definition cv_dotr (e : CV3) (k : V3) : Cx :=
    let '(a, b, c) := e in let '(kx, ky, kz) := k in
    cadd (cadd (cscale kx a) (cscale ky b)) (cscale kz c).

  (** ** 3x3 complex matrices, row-major 9-tuples *)
  Definition M3 := (Cx * Cx * Cx * Cx * Cx * Cx * Cx * Cx * Cx)%type.
  Definition m3_zero : M3 := (c0, c0, c0, c0, c0, c0, c0, c0, c0).
  Definition m3_id : M3 := (c1, c0, c0, c0, c1, c0, c0, c0, c1).
  (** [jones_matrix[:, i, j] = v] *)
  Definition m3_set (m : M3) (i j : Z) (v : Cx) : M3 :=
    let '(a, b, c, d, e, f, g, h, k) := m in
    match (3 * i + j)%Z with
    | 0%Z => (v, b, c, d, e, f, g, h, k)
    | 1%Z => (a, v, c, d, e, f, g, h, k)
    | 2%Z => (a, b, v, d, e, f, g, h, k)
    | 3%Z => (a, b, c, v, e, f, g, h, k)
    | 4%Z => (a, b, c, d, v, f, g, h, k)
    | 5%Z => (a, b, c, d, e, v, g, h, k)
    | 6%Z => (a, b, c, d, e, f, v, h, k)
    | 7%Z => (a, b, c, d, e, f, g, v, k)
    | 8%Z => (a, b, c, d, e, f, g, h, v)
    | _ => m
    end.
  Definition m3_list (m : M3) : list Cx :=
    let '(a, b, c, d, e, f, g, h, k) := m in [a; b; c; d; e; f; g; h; k].
  (** the order in which a complex ndarray is sent to the harness: re, im interleaved, row-major *)
  Definition cx_flat (l : list Cx) : list T := flat_map (fun z => [fst z; snd z]) l.
  Definition m3_flat (m : M3) : list T := cx_flat (m3_list m).
  Definition m3_ofR (r : T * T * T * T * T * T * T * T * T) : M3 :=
    let '(a, b, c, d, e, f, g, h, k) := r in
    (cofR a, cofR b, cofR c, cofR d, cofR e, cofR f, cofR g, cofR h, cofR k).
  Definition m3_mul (x y : M3) : M3 :=
    let '(a, b, c, d, e, f, g, h, k) := x in
    let '(a', b', c', d', e', f', g', h', k') := y in
    (cadd (cadd (cmul a a') (cmul b d')) (cmul c g'),
     cadd (cadd (cmul a b') (cmul b e')) (cmul c h'),
     cadd (cadd (cmul a c') (cmul b f')) (cmul c k'),
     cadd (cadd (cmul d a') (cmul e d')) (cmul f g'),
     cadd (cadd (cmul d b') (cmul e e')) (cmul f h'),
     cadd (cadd (cmul d c') (cmul e f')) (cmul f k'),
     cadd (cadd (cmul g a') (cmul h d')) (cmul k g'),
     cadd (cadd (cmul g b') (cmul h e')) (cmul k h'),
     cadd (cadd (cmul g c') (cmul h f')) (cmul k k')).
  Definition m3_apply (x : M3) (v : CV3) : CV3 :=
    let '(a, b, c, d, e, f, g, h, k) := x in
    let '(p, q, r) := v in
    (cadd (cadd (cmul a p) (cmul b q)) (cmul c r),
     cadd (cadd (cmul d p) (cmul e q)) (cmul f r),
     cadd (cadd (cmul g p) (cmul h q)) (cmul k r)).
End Cx.

Arguments Cx : clear implicits.
Arguments V3 : clear implicits.
Arguments CV3 : clear implicits.
Arguments M3 : clear implicits.

(** * Array primitives used by the kernels regenerated for property C12
    (NumPy 1-D float arrays as lists: elementwise maps and the reductions mean / max). *)
From Coq Require Import ZArith List.
From OV Require Import Ops.
Import ListNotations.

Section Arr.
  Context {O : Ops}.
  Notation T := (T O).

  (** elementwise unary / binary array operations (equal shapes; NumPy raises otherwise) *)
  Definition lmap (f : T -> T) (l : list T) : list T := map f l.
  Fixpoint lmap2 (f : T -> T -> T) (a b : list T) : list T :=
    match a, b with
    | x :: a', y :: b' => f x y :: lmap2 f a' b'
    | _, _ => []
    end.

  (** np.mean of a 1-D array: sum / count  (0/0 = NaN on the empty array, as NumPy) *)
  Definition mean_ (l : list T) : T := div (sum_list l) (ofZ (Z.of_nat (length l))).

  (** np.max of a 1-D array: NaN propagates; (the empty array raises in NumPy: NaN here) *)
  Definition max2 (a v : T) : T :=
    if isnan_ a then a else if isnan_ v then v else if ltb_ a v then v else a.
  Definition max_list (l : list T) : T :=
    match l with [] => nan_ | x :: r => fold_left max2 r x end.

  (** np.nansum: NaN entries count as zero *)
  Definition nansum (l : list T) : T :=
    fold_left (fun acc v => if isnan_ v then acc else add acc v) l (ofZ 0).
End Arr.

(** additions for the repaired analyses: NaN-ignoring reductions and boolean masks *)
Section ArrNan.
  Context {O : Ops}.
  Notation T := (T O).
  Definition notnan (v : T) : bool := negb (isnan_ v).
  (** np.nanmean / np.nanmax: the reduction over the entries that are not NaN *)
  Definition nanmean_ (l : list T) : T := mean_ (filter notnan l).
  Definition nanmax_list (l : list T) : T := max_list (filter notnan l).
  (** arr[mask] *)
  Fixpoint lmask (l : list T) (m : list bool) : list T :=
    match l, m with
    | x :: l', b :: m' => if b then x :: lmask l' m' else lmask l' m'
    | _, _ => []
    end.
End ArrNan.

(** * Extra primitives used by the kernels regenerated for property C18
    (range with a step, IndexError-checked list reads, np.interp). *)
From Coq Require Import ZArith List.
From OV Require Import Ops.
Import ListNotations.

(** `try: ... c[k] ... except IndexError: raise`  -- a failed read makes the whole kernel raise *)
Notation "'TRY' x <- e 'IN' b" := (match e with None => None | Some x => b end)
  (at level 200, x name, e at level 100, b at level 200, right associativity, only parsing).

(** range(a, b, s) for s > 0 : a, a+s, ... < b *)
Fixpoint stepZ (a s : Z) (n : nat) : list Z :=
  match n with 0%nat => [] | S n' => a :: stepZ (a + s) s n' end.
Definition rangeStepZ (a b s : Z) : list Z :=
  if (s <=? 0)%Z then [] else stepZ a s (Z.to_nat ((b - a + s - 1) / s)).

Section Interp.
  Context {O : Ops}.
  Notation T := (T O).
  (** np.interp(x, xp, fp) on one abscissa (compiled loop of numpy/_core/src/multiarray/compiled_base.c):
      clamp outside [xp[0], xp[-1]]; inside, j = last knot with xp[j] <= x;
      fp[j] when x = xp[j], otherwise slope*(x - xp[j]) + fp[j]. *)
  Fixpoint interp_seg (x x0 f0 : T) (rest : list (T * T)) : T :=
    match rest with
    | [] => f0
    | (x1, f1) :: rest' =>
        if ltb_ x x1 then
          (if eqb_ x x0 then f0 else add (mul (div (sub f1 f0) (sub x1 x0)) (sub x x0)) f0)
        else interp_seg x x1 f1 rest'
    end.
  Definition interp_pairs (x : T) (tbl : list (T * T)) : T :=
    match tbl with
    | [] => nan_
    | (x0, f0) :: rest =>
        if isnan_ x then x else
        if ltb_ x x0 then f0 else interp_seg x x0 f0 rest
    end.
  Definition interp_ (x : T) (xp fp : list T) : T := interp_pairs x (combine xp fp).
End Interp.

Section Polyval.
  Context {O : Ops}.
  (** np.polyval(p, x): y = 0; for c in p: y = y*x + c *)
  Definition polyval_ (p : list (T O)) (x : T O) : T O :=
    fold_left (fun acc c => add (mul acc x) c) p (ofZ 0).
End Polyval.

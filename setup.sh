#!/bin/bash
# Build the framework offline: regenerate the model from /repo and compile the whole Coq development.
set -e
cd "$(dirname "$0")"
exec /venv/bin/python tools/setup.py

"""C13 kernels.  The arithmetic C13 leans on is mostly translated already (Geometries: nr_sphere ea_sag pg_sag
are the start point and the sag of the batch Newton loop modelled in Model/M_C13.v; Paraxial: surf_trace_paraxial).
New here:
  * SurfaceGroup.get_thickness (reads the positions property; used by set_thickness / scale_system, the EDITING calls);
  * Wavefront._opd_image_to_xp and Wavefront._get_path_length: the code that READS the record table after a trace
    (surface_group.x[-1, :] ... -> `row_inputs`: the last-row value of the ray is the kernel's input).
The record plumbing itself (reset/_record/getters/trace/inverted) manipulates objects, not numbers: it is
hand-modelled in coq/Model/M_C13.v and tied by the record-size correspondence."""
SG = 'optiland/surfaces/surface_group.py'
WF = 'optiland/wavefront.py'
ROWS = ['self.optic.surface_group.' + g for g in ('x', 'y', 'z', 'L', 'M', 'N', 'opd')]

MODULES = {
    'C13Kern': [
        dict(name='sg_get_thickness', file=SG, cls='SurfaceGroup', func='get_thickness',
             types={'surface_number': 'int', 'self.positions': 'list'}),
        dict(name='wf_opd_image_to_xp', file=WF, cls='Wavefront', func='_opd_image_to_xp', row_inputs=ROWS),
        # Wavefront._get_path_length(xc, yc, zc, r, wavelength): with a wavelength the image -> reference-sphere
        # segment is weighted by |n| of the image-space medium (material.n(wavelength) is an input of the kernel);
        # without (default None) by 1
        dict(name='wf_path_length', file=WF, cls='Wavefront', func='_get_path_length', row_inputs=ROWS,
             static={'wavelength': 'notnone'}, types={'self.optic.image_surface.material_pre': 'obj'},
             opaque_calls={'material.n': 'num'},
             calls={'self._opd_image_to_xp': 'wf_opd_image_to_xp'}),
        dict(name='wf_path_length_vac', file=WF, cls='Wavefront', func='_get_path_length', row_inputs=ROWS,
             static={'wavelength': 'none'},
             calls={'self._opd_image_to_xp': 'wf_opd_image_to_xp'}),
    ],
}
MODULE_DEPS = {}

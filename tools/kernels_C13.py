"""C13 kernels.  The arithmetic C13 leans on is mostly translated already (Geometries: nr_sphere ea_sag pg_sag
are the start point and the sag of the batch Newton loop modelled in Model/M_C13.v; Paraxial: surf_trace_paraxial).
New here: SurfaceGroup.get_thickness (reads the positions property, used by scale_system / set_thickness to decide
what an edit is).  The record plumbing itself (reset/_record/getters/trace/inverted) manipulates objects, not
numbers: it is hand-modelled in coq/Model/M_C13.v and tied by the record-size correspondence."""
SG = 'optiland/surfaces/surface_group.py'

MODULES = {
    'C13Kern': [
        dict(name='sg_get_thickness', file=SG, cls='SurfaceGroup', func='get_thickness',
             types={'surface_number': 'int', 'self.positions': 'list'}),
    ],
}
MODULE_DEPS = {}

"""apply a proposed fix to /repo as one `fix:` commit and flip the finding to fixed.
usage: apply_fix.py <diff> <property> <finding-id> "<commit message after 'fix: '>" """
import json, os, subprocess, sys
diff, prop, fid, msg = sys.argv[1:5]
V = os.path.dirname(os.path.dirname(os.path.abspath(__file__)))
r = subprocess.run(['git', '-C', '/repo', 'apply', '--whitespace=nowarn', os.path.abspath(diff)], capture_output=True, text=True)
if r.returncode != 0:
    r = subprocess.run(['patch', '-p1', '-d', '/repo', '-i', os.path.abspath(diff)], capture_output=True, text=True)
    if r.returncode != 0:
        print('APPLY FAILED', r.stdout[-500:], r.stderr[-500:]); sys.exit(1)
subprocess.run('find /repo -name "*.orig" -delete; find /repo -name "*.rej" -delete', shell=True)
subprocess.run(['git', '-C', '/repo', 'add', '-A'], check=True)
subprocess.run(['git', '-C', '/repo', 'commit', '-q', '-m', 'fix: ' + msg], check=True)
h = subprocess.run(['git', '-C', '/repo', 'log', '--format=%h', '-1'], capture_output=True, text=True).stdout.strip()
what = msg
for p in [os.path.join(V, 'known_findings.d', prop + '.json'), os.path.join(V, 'known_findings.json')]:
    if not os.path.exists(p):
        continue
    d = json.load(open(p))
    for f in d.get('findings', []):
        if f.get('property') == prop and f.get('id') == fid and f.get('status', 'open') == 'open':
            f['status'] = 'fixed'
            f['fixed_by'] = h
            what = f.get('what', msg)
    json.dump(d, open(p, 'w'), indent=1)
p = os.path.join(V, 'known_findings.json')
d = json.load(open(p))
d['fixed'].append(f'fixed: property={prop} {h} {fid}: {what}')
json.dump(d, open(p, 'w'), indent=1)
print('committed', h)

"""py2coq extension for the Jones-calculus code (property C17): complex scalars and Nx3x3 complex
matrices.  Used through `kclass=CxKernel` in tools/kernels_C17.py.

New kinds:
  cx    a Coq value of type `Cx O` (pair re, im; coq/Num/Cx.v)
  mat3  a Coq value of type `M3 O` (row-major 9-tuple of Cx), the per-ray slice of an (N,3,3) array

Supported on top of the base translator:
  1j, 0.5j                      complex literals
  -z, z+w, z-w, z*w, z/w, z**k  with automatic promotion real -> complex (NumPy semantics)
  np.exp(z), np.sqrt(z)         on complex arguments
  x.astype(complex)
  np.zeros((n, 3, 3), dtype=complex)
  m[:, i, j] = v                with literal i, j
  a.size                        (the receiver is registered as an input; the value is the per-ray 1)
  return m / return z           sent to the harness as a flat list (re, im interleaved)
Everything else falls through to the base class (and fails closed there).
"""
import ast
import decimal

from py2coq import Kernel, Unsupported, V, app, paren


class CxKernel(Kernel):
    def coq_type(self, kind):
        if kind == 'cx':
            return 'Cx O'
        if kind == 'mat3':
            return 'M3 O'
        return super().coq_type(kind)

    # ---- coercions ----
    def to_cx(self, v):
        if v.kind == 'cx':
            return v.coq
        if v.kind in ('num', 'int', 'bool'):
            return app('cofR', self.to_num(v))
        raise Unsupported(f'cannot use {v.kind} as a complex number')

    def lit_num(self, node):
        val = node.value
        if isinstance(val, complex):
            if val.real != 0:
                raise Unsupported('complex literal with a real part')
            text = ast.get_source_segment(self.source, node).strip()
            if not text.endswith(('j', 'J')):
                raise Unsupported('complex literal ' + text)
            body = text[:-1]
            if body in ('1', '1.0', '1.'):
                return V('cx', 'cI')
            d = decimal.Decimal(body)
            sign, digits, exp = d.as_tuple()
            m = int(''.join(map(str, digits))) * (-1 if sign else 1)
            hx = float(val.imag).hex()
            return V('cx', f'(ofZ 0%Z, lit ({m})%Z ({exp})%Z {hx}%float)')
        return super().lit_num(node)

    # ---- expressions ----
    def expr(self, node, env):
        if isinstance(node, ast.Attribute) and node.attr == 'size':
            base = self.expr(node.value, env)        # registers the receiver as an input
            if base.kind not in ('num',):
                raise Unsupported('.size of ' + base.kind)
            return V('int', '1%Z')
        if isinstance(node, ast.UnaryOp) and isinstance(node.op, (ast.USub, ast.UAdd)):
            v = self.expr(node.operand, env)
            if v.kind == 'cx':
                return V('cx', app('cneg', v.coq)) if isinstance(node.op, ast.USub) else v
            if isinstance(node.op, ast.UAdd):
                return v
            if v.kind == 'int':
                return V('int', f'(- {paren(v.coq)})%Z')
            return V('num', app('neg', self.to_num(v)))
        return super().expr(node, env)

    def binop(self, node, env):
        a = self.expr(node.left, env)
        b = self.expr(node.right, env)
        if a.kind != 'cx' and b.kind != 'cx':
            return super().binop(node, env)
        op = node.op
        if isinstance(op, ast.Pow):
            if a.kind == 'cx' and isinstance(node.right, ast.Constant) and isinstance(node.right.value, int) \
                    and 1 <= node.right.value <= 8:
                x = paren(a.coq)
                out = x
                for _ in range(node.right.value - 1):
                    out = f'cmul {x} {paren(out)}'
                return V('cx', out)
            raise Unsupported('complex power')
        f = {ast.Add: 'cadd', ast.Sub: 'csub', ast.Mult: 'cmul', ast.Div: 'cdiv'}.get(type(op))
        if f is None:
            raise Unsupported('complex operator ' + type(op).__name__)
        return V('cx', app(f, self.to_cx(a), self.to_cx(b)))

    def call(self, node, env):
        fn = node.func
        dotted = self.dotted_of(fn)
        args = node.args
        if dotted and dotted.split('.')[0] in ('np', 'numpy'):
            name = dotted.split('.', 1)[1]
            if name in ('exp', 'sqrt') and len(args) == 1:
                v = self.expr(args[0], env)
                if v.kind == 'cx':
                    return V('cx', app('cexp' if name == 'exp' else 'csqrt', v.coq))
            if name == 'zeros' and len(args) == 1 and isinstance(args[0], ast.Tuple) and len(args[0].elts) == 3:
                e = args[0].elts
                is3 = all(isinstance(x, ast.Constant) and x.value == 3 for x in e[1:])
                dt = [kw for kw in node.keywords if kw.arg == 'dtype']
                if is3 and len(dt) == 1 and isinstance(dt[0].value, ast.Name) and dt[0].value.id == 'complex' \
                        and len(node.keywords) == 1:
                    n = self.expr(e[0], env)
                    if n.kind != 'int':
                        raise Unsupported('np.zeros leading dimension')
                    return V('mat3', 'm3_zero')
                raise Unsupported('np.zeros form ' + ast.unparse(node)[:60])
        if isinstance(fn, ast.Attribute) and fn.attr == 'astype' and len(args) == 1 and not node.keywords:
            if isinstance(args[0], ast.Name) and args[0].id == 'complex':
                v = self.expr(fn.value, env)
                return V('cx', self.to_cx(v))
            raise Unsupported('astype(' + ast.unparse(args[0]) + ')')
        if dotted in self.spec.get('opaque_calls', {}):
            for a_ in args:                      # the arguments are still read by the Python call
                self.expr(a_, env)
        return super().call(node, env)

    # ---- statements ----
    def assign(self, target, v, env):
        if isinstance(target, ast.Subscript):
            d = self.dotted_of(target.value)
            old = self.load_name(d, env) if d else None
            if old is not None and old.kind == 'mat3':
                sl = target.slice
                ok = isinstance(sl, ast.Tuple) and len(sl.elts) == 3 and isinstance(sl.elts[0], ast.Slice) \
                    and sl.elts[0].lower is None and sl.elts[0].upper is None and sl.elts[0].step is None \
                    and all(isinstance(x, ast.Constant) and isinstance(x.value, int) and 0 <= x.value <= 2
                            for x in sl.elts[1:])
                if not ok:
                    raise Unsupported('matrix store ' + ast.unparse(target))
                i, j = sl.elts[1].value, sl.elts[2].value
                env = dict(env)
                env[d] = self.bind(d, V('mat3', app('m3_set', old.coq, f'{i}%Z', f'{j}%Z', self.to_cx(v))))
                return env
        return super().assign(target, v, env)

    def final(self, env, retval):
        def conv(v):
            if v is None:
                return v
            if v.kind == 'mat3':
                return V('list', app('m3_flat', v.coq))
            if v.kind == 'cx':
                return V('list', f'[fst {paren(v.coq)}; snd {paren(v.coq)}]')
            if v.kind == 'tuple':
                return V('tuple', items=[conv(x) for x in v.items])
            return v
        return super().final(env, conv(retval))

    def translate(self):
        txt = super().translate()
        self.coq_text = 'From OV Require Import Cx.\n' + txt
        return self.coq_text

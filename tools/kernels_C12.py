"""Kernels of property C12 (geometric analyses) translated by py2coq (extension tools/py2coq_c12.py:
1-D NumPy arrays as Coq lists, elementwise arithmetic, mean / max reductions) into coq/Gen/Analysis.v.

The reads of the trace records (`self.optic.surface_group.y[-1, :]`, ...) are INPUTS of the kernels:
what is translated is everything the analysis computes FROM the traced rays.  The nested-list plumbing of
SpotDiagram / EncircledEnergy / RayFan / PupilAberration is hand-modelled in coq/Model/M_C12.v."""
from py2coq_c12 import AnKernel

AN = 'optiland/analysis/'
_R = ['Num.OpsC12']
SG = 'self.optic.surface_group.'
L = 'list'


def _fc(name, func, a, b, A, B):
    """FieldCurvature._intersection_parabasal_*: pairs of parabasal rays -> z offset of their crossing"""
    ei = {f'{SG}{A}[-1, ::2]': (f'{A}1', L), f'{SG}N[-1, ::2]': ('N1', L),
          f'{SG}{A}[-1, 1::2]': (f'{A}2', L), f'{SG}N[-1, 1::2]': ('N2', L),
          f'{SG}{a}[-1, ::2]': (f'{a}01', L), f'{SG}z[-1, ::2]': ('z01', L),
          f'{SG}{a}[-1, 1::2]': (f'{a}02', L), f'{SG}z[-1, 1::2]': ('z02', L)}
    return dict(name=name, file=AN + 'field_curvature.py', cls='FieldCurvature', func=func, kclass=AnKernel,
                requires=_R, expr_inputs=ei, skip_assign=['Hx', 'Hy', 'Px', 'Py'],
                ignore_calls=['self.optic.trace_generic'])


def _dist(name, ty, height=False):
    """Distortion._generate_data, one kernel per (field kind, distortion type): the type / field-kind tests are fixed at
    translation time (the invalid-type ValueError is part of the hand model)"""
    st = {"self.distortion_type not in ('f-tan', 'f-theta')": 'false',
          "self.optic.field_type == 'object_height'": 'true' if height else 'false',
          "self.distortion_type == 'f-tan'": 'true' if ty == 'f-tan' else 'false'}
    return dict(name=name, file=AN + 'distortion.py', cls='Distortion', func='_generate_data', kclass=AnKernel,
                requires=_R, types={'self.wavelengths': L},
                expr_inputs={f'{SG}y[-1, :]': ('yr', L), 'np.linspace(1e-10, 1, self.num_points)': ('Hy', L)},
                skip_assign=['Hx'], list2_names=['data'], static_tests=st,
                ignore_calls=['self.optic.trace_generic'])


def _init(name, file, cls):
    """__init__ of RayFan / PupilAberration: the number of fan points is forced odd (a sample at P = 0)"""
    return dict(name=name, file=AN + file, cls=cls, func='__init__', kclass=AnKernel, requires=_R,
                types={'num_points': 'int'},
                skip_assign=['self.optic', 'self.fields', 'self.wavelengths', 'self.data'],
                static_tests={"self.fields == 'all'": 'false', "self.wavelengths == 'all'": 'false'},
                outputs=['self.num_points'])


MODULES = {
    'Analysis': [
        _fc('fc_tangential', '_intersection_parabasal_tangential', 'y', 'z', 'M', 'N'),
        _fc('fc_sagittal', '_intersection_parabasal_sagittal', 'x', 'z', 'L', 'N'),
        _dist('distortion_ftan', 'f-tan'),
        _dist('distortion_ftheta', 'f-theta'),
        _dist('distortion_height', 'f-tan', height=True),
        dict(name='grid_distortion', file=AN + 'grid_distortion.py', cls='GridDistortion', func='_generate_data',
             kclass=AnKernel, requires=_R, types={'self.distortion_type': 'str', 'self.optic.field_type': 'str'},
             expr_inputs={f'{SG}y[-1, 0]': ('y_ref0', 'num'), f'{SG}x[-1, 0]': ('x_ref0', 'num'),
                          f'{SG}x[-1, :]': ('xr', L), f'{SG}y[-1, :]': ('yr', L)},
             free_inputs={'Hx': L, 'Hy': L}, skip_assign=['max_field', 'extent', '(Hx, Hy)'],
             ignore_calls=['self.optic.trace_generic'],
             outputs=['data.K__xr', 'data.K__yr', 'data.K__xp', 'data.K__yp', 'data.K__max_distortion']),
        dict(name='op_rms_spot', file='optiland/optimization/operand/ray.py', cls='RayOperand', func='rms_spot_size',
             kclass=AnKernel, requires=_R,
             expr_inputs={'optic.surface_group.x[surface_number, :]': ('xs', L),
                          'optic.surface_group.y[surface_number, :]': ('ys', L)},
             static_tests={"wavelength == 'all'": 'false'}, ignore_calls=['optic.trace']),
        _init('rayfan_init', 'ray_fan.py', 'RayFan'),
        _init('pupilab_init', 'pupil_aberration.py', 'PupilAberration'),
    ],
}
MODULE_DEPS = {}

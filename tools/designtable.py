import io, sys as _sys
_buf = io.StringIO()
_real_print = print
def print(*a, **k):
    _real_print(*a, **k, file=_buf) if '--write' in _sys.argv else _real_print(*a, **k)
"""print the per-property 'as built' table for DESIGN.md §14.7 from the tree"""
import glob, importlib, json, os, re, sys
V = os.path.dirname(os.path.dirname(os.path.abspath(__file__)))
sys.path.insert(0, os.path.join(V, 'tools'))
props = [json.loads(l) for l in open(os.path.join(V, 'properties.jsonl'))]
find = {}
for p in [os.path.join(V, 'known_findings.json')] + sorted(glob.glob(os.path.join(V, 'known_findings.d', '*.json'))):
    for f in json.load(open(p)).get('findings', []):
        find.setdefault(f['property'], []).append((f['id'], f.get('status', 'open')))
print('| prop | theorems | regenerated kernels | hand models / specs | evidence (quick) | open findings | repaired via fix: |')
print('|---|---|---|---|---|---|---|')
for p in props:
    pid = p['id']
    src = open(os.path.join(V, 'coq', 'Props', pid + '.v')).read() if os.path.exists(os.path.join(V, 'coq', 'Props', pid + '.v')) else ''
    nth = len(re.findall(r'^Theorem ', src, re.M))
    try:
        P = importlib.import_module('props.' + pid)
        nk = len(getattr(P, 'KERNELS', []))
    except Exception as e:
        nk = '?'
    models = sorted(os.path.basename(x) for x in glob.glob(os.path.join(V, 'coq', 'Model', f'M_{pid}*.v')) + glob.glob(os.path.join(V, 'coq', 'Spec', f'S_{pid}*.v')))
    extra = {'C02': ['Trace.v', 'Plumb.v', 'PlumbSteps.v'], 'C04': ['Paraxial.v', 'S_ABCD.v'], 'C08': ['Seidel.v', 'S_Seidel.v'], 'C16': ['Trace.v', 'Plumb.v', 'PlumbSteps.v']}.get(pid, [])
    ev = {}
    try:
        ev = json.load(open(os.path.join(V, 'evidence', pid + '.json')))
    except Exception:
        pass
    cov = ev.get('coverage', {})
    evs = f"{cov.get('discharged','?')}/{cov.get('obligations','?')} obl., {cov.get('evaluations','?')} evals, {ev.get('wall_s','?')} s"
    op = [i for i, s in find.get(pid, []) if s == 'open']
    fx = [i for i, s in find.get(pid, []) if s != 'open']
    print(f"| {pid} | {nth} | {nk} | {', '.join(extra + models) or '-'} | {evs} | {', '.join(op) or '-'} | {', '.join(fx) or '-'} |")

if '--write' in _sys.argv:
    import os as _os
    dp = _os.path.join(_os.path.dirname(_os.path.dirname(_os.path.abspath(__file__))), 'DESIGN.md')
    d = open(dp).read()
    a, b = d.index('<!-- TABLE:BEGIN -->') + len('<!-- TABLE:BEGIN -->'), d.index('<!-- TABLE:END -->')
    open(dp, 'w').write(d[:a] + '\n' + _buf.getvalue() + d[b:])
    _real_print('DESIGN.md table refreshed')

"""Correspondence of Model/Paraxial.v with optiland.paraxial.Paraxial."""
import math
import numpy as np
import vlib
import lensgen

QUERIES = ['f1', 'f2', 'F1', 'F2', 'P1', 'P2', 'N1', 'N2', 'EPL', 'EPD', 'XPL', 'XPD', 'FNO', 'magnification', 'invariant']


def psurfs(optic, wavelength=None):
    w = optic.primary_wavelength if wavelength is None else wavelength
    out = []
    for i, s in enumerate(optic.surface_group.surfaces):
        cs = s.geometry.cs
        out.append({'x': float(cs.x), 'y': float(cs.y), 'z': float(cs.z), 'rx': float(cs.rx), 'ry': float(cs.ry),
                    'rz': float(cs.rz), 'R': float(s.geometry.radius),
                    'npre': float(np.ravel(s.material_pre.n(w))[0]) if s.material_pre is not None else float('nan'),
                    'npost': float(np.ravel(s.material_post.n(w))[0]),
                    'refl': bool(s.is_reflective), 'stop': bool(s.is_stop), 'obj': i == 0})
    return out


def coq_psurf(s):
    fh = vlib.fhex
    b = lambda v: 'true' if v else 'false'
    return (f'(mkPS (O:=FOps) {fh(s["x"])} {fh(s["y"])} {fh(s["z"])} {fh(s["rx"])} {fh(s["ry"])} {fh(s["rz"])} '
            f'{fh(s["R"])} {fh(s["npre"])} {fh(s["npost"])} {b(s["refl"])} {b(s["stop"])} {b(s["obj"])})')


def coq_lens(name, ps):
    return f'Definition {name} := [' + ';\n  '.join(coq_psurf(s) for s in ps) + '].'


def impl_queries(optic):
    """returns dict name -> float (nan when the call raises), plus marginal/chief arrays"""
    out = {}
    P = optic.paraxial
    for q in QUERIES:
        try:
            v = getattr(P, q)()
            out[q] = float(np.ravel(v)[0])
        except Exception as e:   # noqa
            out[q] = ('err', type(e).__name__)
    for nm in ('marginal_ray', 'chief_ray'):
        try:
            y, u = getattr(P, nm)()
            out[nm] = ([float(v) for v in np.ravel(y)], [float(v) for v in np.ravel(u)])
        except Exception as e:  # noqa
            out[nm] = ('err', type(e).__name__)
    return out


def ap_args(spec):
    ap = {'EPD': 'EPDt', 'imageFNO': 'FNOt', 'objectNA': 'NAt'}[spec['aperture'][0]]
    ft = 'FAngle' if spec['field_type'] == 'angle' else 'FHeight'
    mf = max(f[0] for f in spec['fields'])
    return ap, vlib.fhex(spec['aperture'][1]), ft, vlib.fhex(mf)


def model_expr(q, ap, v, ft, mf, l='l'):
    if q in ('f1', 'f2', 'F1', 'F2', 'P1', 'P2', 'N1', 'N2', 'EPL', 'XPL'):
        return f'{q} {l}'
    if q in ('EPD', 'XPD', 'FNO', 'magnification'):
        return f'{q} {l} {ap} {v}'
    if q == 'invariant':
        return f'invariant {l} {ap} {v} {ft} {mf}'
    raise ValueError(q)


def run(cases, tol=1e-9, tag='parax', chunk=40):
    """cases: dict(ps=[psurf], spec=spec, impl=impl_queries result). returns per-case list of failing query names"""
    bodies, index = [], []
    for start in range(0, len(cases), chunk):
        defs, lines, keys = [], [], []
        for ci in range(start, min(start + chunk, len(cases))):
            c = cases[ci]
            defs.append(coq_lens(f'l{ci}', c['ps']))
            ap, v, ft, mf = ap_args(c['spec'])
            for q in QUERIES:
                e = c['impl'][q]
                if isinstance(e, tuple):
                    continue
                lines.append(f'close {vlib.fhex(tol)} ({model_expr(q, ap, v, ft, mf, f"l{ci}")}) {vlib.fhex(e)}')
                keys.append((ci, q))
            for nm, call in (('marginal_ray', f'marginal_ray l{ci} {ap} {v}'), ('chief_ray', f'chief_ray l{ci} {ft} {mf}')):
                e = c['impl'][nm]
                if e[0] == 'err':
                    continue
                ys, us = e
                lines.append(f'close_list {vlib.fhex(tol)} (map fst ({call}) ++ map snd ({call})) {vlib.flist(ys + us)}')
                keys.append((ci, nm))
        bodies.append('\n'.join(defs) + '\nEval vm_compute in (report [\n' + ';\n'.join(lines) + '\n]).\n')
        index.append(keys)
    res = vlib.run_cases(tag, 'From OV Require Import Model.Paraxial.', bodies)
    fails = {}
    n = 0
    for keys, r in zip(index, res):
        if r[0] == 'error':
            raise RuntimeError(r[1])
        n += r[0]
        for i in r[2]:
            ci, q = keys[i]
            fails.setdefault(ci, []).append(q)
        if r[1] > len(r[2]):
            fails.setdefault(-1, []).append(f'{r[1] - len(r[2])} more')
    return fails, n

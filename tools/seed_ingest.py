"""copy a seeding agent's mutant (from its scratch worktree) into seeded/<prop>-m<k>/"""
import json, os, shutil, sys
prop = sys.argv[1]
rnd = int(sys.argv[2]) if len(sys.argv) > 2 else 1
wt = f'/tmp/seed_{prop}' if rnd == 1 else f'/tmp/seed{rnd}_{prop}'
off = 2 * (rnd - 1)
V = os.path.dirname(os.path.dirname(os.path.abspath(__file__)))
for k in (1, 2, 3):
    diff = os.path.join(wt, f'mutant_{k}.diff')
    if not os.path.exists(diff):
        continue
    d = os.path.join(V, 'seeded', f'{prop}-m{k + off}')
    os.makedirs(d, exist_ok=True)
    shutil.copy(diff, os.path.join(d, 'patch.diff'))
    demo = os.path.join(wt, f'demo_{prop}_{k}.py')
    if not os.path.exists(demo):
        demo = os.path.join(wt, f'demo_{prop}.py')
    shutil.copy(demo, os.path.join(d, 'demo.py'))
    md = os.path.join(wt, f'mutant_{k}.md')
    note = open(md).read() if os.path.exists(md) else ''
    if note:
        open(os.path.join(d, 'NOTES.md'), 'w').write(note)
    meta = {'property': prop, 'id': f'{prop}-m{k + off}', 'round': rnd, 'demo': 'demo.py', 'patch': 'patch.diff',
            'origin': 'independent sub-agent given only the property text and a scratch worktree',
            'needs_to_manifest': note.split('\n')[0][:200] if note else '', 'what_i_ran': 'tools/seedtest.py (see result.json)'}
    json.dump(meta, open(os.path.join(d, 'meta.json'), 'w'), indent=1)
    print('ingested', d)

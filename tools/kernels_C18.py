"""Kernels of property C18 (catalogue materials) translated by py2coq."""
MF = 'optiland/materials/material_file.py'
BM = 'optiland/materials/base.py'
_T = {'self.coefficients': 'list'}
_R = ['Num.OpsC18']

MODULES = {
    'Materials': (
        [dict(name=f'formula_{i}', file=MF, cls='MaterialFile', func=f'_formula_{i}', types=_T, requires=_R)
         for i in range(1, 10)] +
        [dict(name='tabulated_n', file=MF, cls='MaterialFile', func='_tabulated_n', requires=_R,
              types={'self._n_wavelength': 'list', 'self._n': 'list'}),
         dict(name='mat_k', file=MF, cls='MaterialFile', func='k', requires=_R,
              types={'self._k_wavelength': 'list', 'self._k': 'list'}),
         dict(name='abbe_n', file='optiland/materials/abbe.py', cls='AbbeMaterial', func='n', requires=_R,
              types={'self._p': 'list'}),
         dict(name='abbe', file=BM, cls='BaseMaterial', func='abbe', fun_calls=['self.n'], requires=_R)]
    ),
}
MODULE_DEPS = {}

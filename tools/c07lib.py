"""C07 helpers: metamorphic transformations of lens specs (lensgen JSON specs), builders that reach the
parts of the prescription lensgen does not (vertex shift dz for the tilt about the centre of curvature),
prescription extraction, and the implementation-level oracle (relations stated directly on optiland)."""
import copy
import math
import random
import warnings

import numpy as np

import lensgen
import tracecorr

INF = float('inf')
warnings.simplefilter('ignore')

FIELDS8 = ['x', 'y', 'z', 'L', 'M', 'N', 'i', 'opd']


# ----------------------------------------------------------------------------------------------
# lens generation for C07
# ----------------------------------------------------------------------------------------------
def sym_spec(rng, n=None, ideal_only=False, allow=None, apertures=True, finite=None, angle_only=False):
    """rotationally symmetric refracting/reflecting lens (no decentre, no tilt)"""
    allow = allow or ['plane', 'standard', 'conic']
    spec = lensgen.gen_spec(rng, nsurf=n, allow=allow, decenter=False, finite_object=finite)
    for s in spec['surfaces']:
        s.pop('coating', None) if rng.random() < 0.5 else None
        if not apertures:
            s.pop('aperture', None)
        if ideal_only and isinstance(s.get('material'), list) and s['material'][0] == 'glass':
            s['material'] = ['ideal', rng.uniform(1.4, 1.9), 0.0]
    if angle_only:
        spec['field_type'] = 'angle'
    return spec


def build(spec, route=None, rng=None):
    """lensgen.build + optional per-surface 'dz' (vertex shift along z that leaves the other vertices in place)"""
    import contextlib, io
    with contextlib.redirect_stdout(io.StringIO()):      # optiland prints a catalogue warning per glass lookup
        o = lensgen.build(spec) if route in (None, 'direct') else lensgen.build_via(spec, route, rng or random.Random(0))
    for i, s in enumerate(spec['surfaces']):
        if s.get('dz'):
            o.surface_group.surfaces[i + 1].geometry.cs.z += s['dz']
    return o


def _ideal(n):
    return ['ideal', n, 0.0]


def corpus():
    """fixed lenses (present for every seed) for the classes of descriptions a random draw reaches too rarely:
    finite conjugates with the stop ON and BEHIND the first surface under every system-aperture type and both field types,
    and an infinite-conjugate lens with plane surfaces next to curved ones"""
    a = [{'type': 'standard', 'radius': 38.0, 'thickness': 5.0, 'is_stop': True, 'material': _ideal(1.62)},
         {'type': 'standard', 'radius': -75.0, 'thickness': 2.2, 'material': 'air'},
         {'type': 'standard', 'radius': -48.0, 'thickness': 2.0, 'material': _ideal(1.75)},
         {'type': 'standard', 'radius': -110.0, 'thickness': 90.0, 'material': 'air'}]
    b = [{'type': 'standard', 'radius': 60.0, 'thickness': 4.5, 'material': _ideal(1.52)},
         {'type': 'standard', 'radius': -150.0, 'thickness': 3.5, 'material': 'air'},
         {'type': 'standard', 'radius': INF, 'thickness': 2.5, 'is_stop': True, 'material': 'air'},
         {'type': 'standard', 'radius': -55.0, 'thickness': 1.8, 'material': _ideal(1.68)},
         {'type': 'standard', 'radius': 220.0, 'thickness': 110.0, 'material': 'air'}]
    c = [{'type': 'standard', 'radius': 42.0, 'thickness': 4.0, 'material': _ideal(1.6)},
         {'type': 'standard', 'radius': -64.0, 'thickness': 3.0, 'material': 'air'},
         {'type': 'standard', 'radius': INF, 'thickness': 5.0, 'is_stop': True, 'material': 'air'},
         {'type': 'standard', 'radius': INF, 'thickness': 2.5, 'material': _ideal(1.7)},
         {'type': 'standard', 'radius': -36.0, 'thickness': 32.0, 'material': 'air'}]
    out = []
    for surfs, obj in ((a, 95.0), (b, 70.0)):
        for k, ap in enumerate((['EPD', 8.0], ['imageFNO', 5.0], ['objectNA', 0.08])):
            ft = 'object_height' if k != 1 else 'angle'
            mf = 5.0 if ft == 'object_height' else 3.0
            out.append({'object_thickness': obj, 'surfaces': copy.deepcopy(surfs), 'aperture': ap, 'field_type': ft,
                        'fields': [[0.0, 0.0, 0.0, 0.0], [0.6 * mf, 0.0, 0.0, 0.0], [mf, 0.0, 0.0, 0.0]],
                        'wavelengths': [[0.55, True]], 'telecentric': False})
    for ap in (['EPD', 8.0], ['imageFNO', 4.5]):
        out.append({'object_thickness': INF, 'surfaces': copy.deepcopy(c), 'aperture': ap, 'field_type': 'angle',
                    'fields': [[0.0, 0.0, 0.0, 0.0], [4.0, 0.0, 0.0, 0.0], [7.0, 0.0, 0.0, 0.0]],
                    'wavelengths': [[0.55, True]], 'telecentric': False})
    return out


def trace(o, Hx, Hy, Px, Py, w):
    """('ok', records[list of 8 floats per surface incl. object]) or ('err', type, msg)"""
    return tracecorr.impl_trace(o, float(Hx), float(Hy), float(Px), float(Py), float(w))


# ----------------------------------------------------------------------------------------------
# transformations of a spec
# ----------------------------------------------------------------------------------------------
def scaled_spec(spec, s):
    """every length of the prescription multiplied by s (the independent statement of 'scaled copy')"""
    sp = copy.deepcopy(spec)
    if math.isfinite(sp['object_thickness']):
        sp['object_thickness'] *= s
    for su in sp['surfaces']:
        for key in ('radius', 'thickness', 'dx', 'dy', 'dz', 'norm_x', 'norm_y'):
            if key in su and math.isfinite(su[key]):
                su[key] *= s
        if su.get('aperture'):
            su['aperture'] = [su['aperture'][0] * s, su['aperture'][1] * s]
        if su.get('type') == 'even_asphere' and 'coefficients' in su:
            su['coefficients'] = [c * s ** (1 - 2 * (j + 1)) for j, c in enumerate(su['coefficients'])]
        if su.get('type') == 'polynomial' and 'coefficients' in su:
            su['coefficients'] = [[c * s ** (1 - (a + b)) for b, c in enumerate(r)] for a, r in enumerate(su['coefficients'])]
    if sp['aperture'][0] == 'EPD':
        sp['aperture'] = ['EPD', sp['aperture'][1] * s]
    if sp['field_type'] == 'object_height':
        sp['fields'] = [[f[0] * s, f[1] * s, f[2], f[3]] for f in sp['fields']]
    return sp


def dummy_spec(spec, gap, frac, front=None):
    """insert a plane between equal media in gap `gap` (0 = after surface 1 ... len-1 = before the image; -1 = the OBJECT
    gap: the dummy becomes surface 1 and the library re-bases every vertex), at fraction `frac` of the gap.
    For an object at infinity the object gap has no fractions: the dummy is put `front` lens units before surface 1."""
    sp = copy.deepcopy(spec)
    if gap == -1:
        t = sp['object_thickness']
        if math.isfinite(t):
            sp['object_thickness'] = t * frac
            d_t = t * (1 - frac)
        else:
            d_t = front
        sp['surfaces'].insert(0, {'type': 'standard', 'radius': INF, 'thickness': d_t, 'material': 'air', 'is_stop': False})
        return sp
    su = sp['surfaces'][gap]
    t = su['thickness']
    m = su.get('material', 'air')
    if m == 'mirror':
        # medium after a mirror is the medium before it
        return None
    d = {'type': 'standard', 'radius': INF, 'thickness': t * (1 - frac), 'material': copy.deepcopy(m), 'is_stop': False}
    su['thickness'] = t * frac
    sp['surfaces'].insert(gap + 1, d)
    return sp


def tilt_centre_spec(spec, idx, ang, axis='x'):
    """tilt spherical surface idx about its own centre of curvature by `ang`:
    the vertex moves to C - R*axis', the centre C = (0, 0, z + R) stays"""
    sp = copy.deepcopy(spec)
    su = sp['surfaces'][idx]
    R = su['radius']
    if not math.isfinite(R) or su.get('conic', 0.0) != 0.0 or su.get('type', 'standard') != 'standard':
        return None
    if axis == 'x':
        su['rx'] = ang
        su['dy'] = su.get('dy', 0.0) + R * math.sin(ang)
    else:
        su['ry'] = ang
        su['dx'] = su.get('dx', 0.0) - R * math.sin(ang)
    su['dz'] = su.get('dz', 0.0) + R * (1 - math.cos(ang))
    return sp


def mirror_rec(rec, mx, my):
    x, y, z, L, M, N, i, opd = rec
    return [-x if mx else x, -y if my else y, z, -L if mx else L, -M if my else M, N, i, opd]


def scale_rec(rec, s):
    x, y, z, L, M, N, i, opd = rec
    return [x * s, y * s, z * s, L, M, N, i, opd * s]


def rec_diff(a, b, fields=FIELDS8, scale=1.0):
    """largest discrepancy between two records over `fields`.  A ray that missed a surface is carried on with
    non-finite coordinates (t = inf, then inf * 0 = NaN or inf * 1e-17 = -inf depending on rounding noise in a direction
    cosine): a non-finite entry only has to be non-finite in the other record too ("lost" = "lost")"""
    worst = 0.0
    for k, f in enumerate(FIELDS8):
        if f not in fields:
            continue
        u, v = a[k], b[k]
        if not math.isfinite(u) or not math.isfinite(v):
            if math.isfinite(u) != math.isfinite(v):
                return INF
            continue
        tol_scale = scale if f in ('x', 'y', 'z', 'opd') else 1.0
        worst = max(worst, abs(u - v) / max(1.0, tol_scale))
    return worst


# ----------------------------------------------------------------------------------------------
# prescription of a built optic (what scale_system acts on)
# ----------------------------------------------------------------------------------------------
def prescription(o):
    sg = o.surface_group
    rows = []
    for s in sg.surfaces:
        cs = s.geometry.cs
        ap = None if s.aperture is None else [float(s.aperture.r_max), float(s.aperture.r_min)]
        rows.append({'R': float(s.geometry.radius), 'k': float(getattr(s.geometry, 'k', 0.0)),
                     'x': float(cs.x), 'y': float(cs.y), 'z': float(np.ravel(cs.z)[0]),
                     'rx': float(cs.rx), 'ry': float(cs.ry), 'rz': float(cs.rz), 'ap': ap,
                     'plane': type(s.geometry).__name__ == 'Plane'})
    return {'rows': rows, 'ap_type': o.aperture.ap_type, 'ap_value': float(o.aperture.value)}


def trace_from(o, rec, w):
    """trace ONE given ray (a launch record x y z L M N i opd) through every surface after the object:
    the relation 'same ray in, same ray out' for re-descriptions that legitimately change the paraxial launch"""
    from optiland.rays import RealRays
    x, y, z, L, M, N, i, opd = rec
    try:
        rays = RealRays(np.array([x]), np.array([y]), np.array([z]), np.array([L]), np.array([M]), np.array([N]),
                        np.array([i]), np.array([w]))
        rays.opd = np.array([opd], dtype=float)
        sg = o.surface_group
        sg.trace(rays, skip=1)
    except Exception as e:   # noqa
        return ('err', type(e).__name__, str(e)[:120])
    cols = [sg.x, sg.y, sg.z, sg.L, sg.M, sg.N, sg.intensity, sg.opd]
    recs = [[float(c[k, 0]) for c in cols] for k in range(cols[0].shape[0])]
    return ('ok', recs)

"""C07 helpers: metamorphic transformations of lens specs (lensgen JSON specs), builders that reach the
parts of the prescription lensgen does not (vertex shift dz for the tilt about the centre of curvature),
prescription extraction, and the implementation-level oracle (relations stated directly on optiland)."""
import copy
import math
import random
import warnings

import numpy as np

import lensgen
import tracecorr

INF = float('inf')
warnings.simplefilter('ignore')

FIELDS8 = ['x', 'y', 'z', 'L', 'M', 'N', 'i', 'opd']


# ----------------------------------------------------------------------------------------------
# lens generation for C07
# ----------------------------------------------------------------------------------------------
def sym_spec(rng, n=None, ideal_only=False, allow=None, apertures=True, finite=None, angle_only=False):
    """rotationally symmetric refracting/reflecting lens (no decentre, no tilt)"""
    allow = allow or ['plane', 'standard', 'conic']
    spec = lensgen.gen_spec(rng, nsurf=n, allow=allow, decenter=False, finite_object=finite)
    for s in spec['surfaces']:
        s.pop('coating', None) if rng.random() < 0.5 else None
        if not apertures:
            s.pop('aperture', None)
        if ideal_only and isinstance(s.get('material'), list) and s['material'][0] == 'glass':
            s['material'] = ['ideal', rng.uniform(1.4, 1.9), 0.0]
    if angle_only:
        spec['field_type'] = 'angle'
    return spec


def build(spec, route=None, rng=None):
    """lensgen.build + optional per-surface 'dz' (vertex shift along z that leaves the other vertices in place)"""
    import contextlib, io
    with contextlib.redirect_stdout(io.StringIO()):      # optiland prints a catalogue warning per glass lookup
        o = lensgen.build(spec) if route in (None, 'direct') else lensgen.build_via(spec, route, rng or random.Random(0))
    for i, s in enumerate(spec['surfaces']):
        if s.get('dz'):
            o.surface_group.surfaces[i + 1].geometry.cs.z += s['dz']
    return o


def _ideal(n):
    return ['ideal', n, 0.0]


def corpus():
    """fixed lenses (present for every seed) for the classes of descriptions a random draw reaches too rarely:
    finite conjugates with the stop ON and BEHIND the first surface under every system-aperture type and both field types,
    and an infinite-conjugate lens with plane surfaces next to curved ones"""
    a = [{'type': 'standard', 'radius': 38.0, 'thickness': 5.0, 'is_stop': True, 'material': _ideal(1.62)},
         {'type': 'standard', 'radius': -75.0, 'thickness': 2.2, 'material': 'air'},
         {'type': 'standard', 'radius': -48.0, 'thickness': 2.0, 'material': _ideal(1.75)},
         {'type': 'standard', 'radius': -110.0, 'thickness': 90.0, 'material': 'air'}]
    b = [{'type': 'standard', 'radius': 60.0, 'thickness': 4.5, 'material': _ideal(1.52)},
         {'type': 'standard', 'radius': -150.0, 'thickness': 3.5, 'material': 'air'},
         {'type': 'standard', 'radius': INF, 'thickness': 2.5, 'is_stop': True, 'material': 'air'},
         {'type': 'standard', 'radius': -55.0, 'thickness': 1.8, 'material': _ideal(1.68)},
         {'type': 'standard', 'radius': 220.0, 'thickness': 110.0, 'material': 'air'}]
    c = [{'type': 'standard', 'radius': 42.0, 'thickness': 4.0, 'material': _ideal(1.6)},
         {'type': 'standard', 'radius': -64.0, 'thickness': 3.0, 'material': 'air'},
         {'type': 'standard', 'radius': INF, 'thickness': 5.0, 'is_stop': True, 'material': 'air'},
         {'type': 'standard', 'radius': INF, 'thickness': 2.5, 'material': _ideal(1.7)},
         {'type': 'standard', 'radius': -36.0, 'thickness': 32.0, 'material': 'air'}]
    out = []
    for surfs, obj in ((a, 95.0), (b, 70.0)):
        for k, ap in enumerate((['EPD', 8.0], ['imageFNO', 5.0], ['objectNA', 0.08])):
            ft = 'object_height' if k != 1 else 'angle'
            mf = 5.0 if ft == 'object_height' else 3.0
            out.append({'object_thickness': obj, 'surfaces': copy.deepcopy(surfs), 'aperture': ap, 'field_type': ft,
                        'fields': [[0.0, 0.0, 0.0, 0.0], [0.6 * mf, 0.0, 0.0, 0.0], [mf, 0.0, 0.0, 0.0]],
                        'wavelengths': [[0.55, True]], 'telecentric': False})
    for ap in (['EPD', 8.0], ['imageFNO', 4.5]):
        out.append({'object_thickness': INF, 'surfaces': copy.deepcopy(c), 'aperture': ap, 'field_type': 'angle',
                    'fields': [[0.0, 0.0, 0.0, 0.0], [4.0, 0.0, 0.0, 0.0], [7.0, 0.0, 0.0, 0.0]],
                    'wavelengths': [[0.55, True]], 'telecentric': False})
    return out


def trace(o, Hx, Hy, Px, Py, w):
    """('ok', records[list of 8 floats per surface incl. object]) or ('err', type, msg)"""
    return tracecorr.impl_trace(o, float(Hx), float(Hy), float(Px), float(Py), float(w))


# ----------------------------------------------------------------------------------------------
# transformations of a spec
# ----------------------------------------------------------------------------------------------
def scaled_spec(spec, s):
    """every length of the prescription multiplied by s (the independent statement of 'scaled copy')"""
    sp = copy.deepcopy(spec)
    if math.isfinite(sp['object_thickness']):
        sp['object_thickness'] *= s
    for su in sp['surfaces']:
        for key in ('radius', 'thickness', 'dx', 'dy', 'dz', 'norm_x', 'norm_y'):
            if key in su and math.isfinite(su[key]):
                su[key] *= s
        if su.get('aperture'):
            su['aperture'] = [su['aperture'][0] * s, su['aperture'][1] * s]
        if su.get('type') == 'even_asphere' and 'coefficients' in su:
            su['coefficients'] = [c * s ** (1 - 2 * (j + 1)) for j, c in enumerate(su['coefficients'])]
        if su.get('type') == 'polynomial' and 'coefficients' in su:
            su['coefficients'] = [[c * s ** (1 - (a + b)) for b, c in enumerate(r)] for a, r in enumerate(su['coefficients'])]
    if sp['aperture'][0] == 'EPD':
        sp['aperture'] = ['EPD', sp['aperture'][1] * s]
    if sp['field_type'] == 'object_height':
        sp['fields'] = [[f[0] * s, f[1] * s, f[2], f[3]] for f in sp['fields']]
    return sp


def dummy_spec(spec, gap, frac, front=None):
    """insert a plane between equal media in gap `gap` (0 = after surface 1 ... len-1 = before the image; -1 = the OBJECT
    gap: the dummy becomes surface 1 and the library re-bases every vertex), at fraction `frac` of the gap.
    For an object at infinity the object gap has no fractions: the dummy is put `front` lens units before surface 1."""
    sp = copy.deepcopy(spec)
    if gap == -1:
        t = sp['object_thickness']
        if math.isfinite(t):
            sp['object_thickness'] = t * frac
            d_t = t * (1 - frac)
        else:
            d_t = front
        sp['surfaces'].insert(0, {'type': 'standard', 'radius': INF, 'thickness': d_t, 'material': 'air', 'is_stop': False})
        return sp
    su = sp['surfaces'][gap]
    t = su['thickness']
    m = su.get('material', 'air')
    if m == 'mirror':
        # medium after a mirror is the medium before it
        return None
    d = {'type': 'standard', 'radius': INF, 'thickness': t * (1 - frac), 'material': copy.deepcopy(m), 'is_stop': False}
    su['thickness'] = t * frac
    sp['surfaces'].insert(gap + 1, d)
    return sp


def tilt_centre_spec(spec, idx, ang, axis='x'):
    """tilt spherical surface idx about its own centre of curvature by `ang`:
    the vertex moves to C - R*axis', the centre C = (0, 0, z + R) stays"""
    sp = copy.deepcopy(spec)
    su = sp['surfaces'][idx]
    R = su['radius']
    if not math.isfinite(R) or su.get('conic', 0.0) != 0.0 or su.get('type', 'standard') != 'standard':
        return None
    if axis == 'x':
        su['rx'] = ang
        su['dy'] = su.get('dy', 0.0) + R * math.sin(ang)
    else:
        su['ry'] = ang
        su['dx'] = su.get('dx', 0.0) - R * math.sin(ang)
    su['dz'] = su.get('dz', 0.0) + R * (1 - math.cos(ang))
    return sp


def mirror_rec(rec, mx, my):
    x, y, z, L, M, N, i, opd = rec
    return [-x if mx else x, -y if my else y, z, -L if mx else L, -M if my else M, N, i, opd]


def scale_rec(rec, s):
    x, y, z, L, M, N, i, opd = rec
    return [x * s, y * s, z * s, L, M, N, i, opd * s]


def rec_diff(a, b, fields=FIELDS8, scale=1.0):
    """largest discrepancy between two records over `fields`.  A ray that missed a surface is carried on with
    non-finite coordinates (t = inf, then inf * 0 = NaN or inf * 1e-17 = -inf depending on rounding noise in a direction
    cosine): a non-finite entry only has to be non-finite in the other record too ("lost" = "lost")"""
    worst = 0.0
    for k, f in enumerate(FIELDS8):
        if f not in fields:
            continue
        u, v = a[k], b[k]
        if not math.isfinite(u) or not math.isfinite(v):
            if math.isfinite(u) != math.isfinite(v):
                return INF
            continue
        tol_scale = scale if f in ('x', 'y', 'z', 'opd') else 1.0
        worst = max(worst, abs(u - v) / max(1.0, tol_scale))
    return worst


# ----------------------------------------------------------------------------------------------
# prescription of a built optic (what scale_system acts on)
# ----------------------------------------------------------------------------------------------
def prescription(o):
    sg = o.surface_group
    rows = []
    for s in sg.surfaces:
        cs = s.geometry.cs
        ap = None if s.aperture is None else [float(s.aperture.r_max), float(s.aperture.r_min)]
        rows.append({'R': float(s.geometry.radius), 'k': float(getattr(s.geometry, 'k', 0.0)),
                     'x': float(cs.x), 'y': float(cs.y), 'z': float(np.ravel(cs.z)[0]),
                     'rx': float(cs.rx), 'ry': float(cs.ry), 'rz': float(cs.rz), 'ap': ap,
                     'plane': type(s.geometry).__name__ == 'Plane'})
    return {'rows': rows, 'ap_type': o.aperture.ap_type, 'ap_value': float(o.aperture.value)}


def trace_from(o, rec, w):
    """trace ONE given ray (a launch record x y z L M N i opd) through every surface after the object:
    the relation 'same ray in, same ray out' for re-descriptions that legitimately change the paraxial launch"""
    from optiland.rays import RealRays
    x, y, z, L, M, N, i, opd = rec
    try:
        rays = RealRays(np.array([x]), np.array([y]), np.array([z]), np.array([L]), np.array([M]), np.array([N]),
                        np.array([i]), np.array([w]))
        rays.opd = np.array([opd], dtype=float)
        sg = o.surface_group
        sg.trace(rays, skip=1)
    except Exception as e:   # noqa
        return ('err', type(e).__name__, str(e)[:120])
    cols = [sg.x, sg.y, sg.z, sg.L, sg.M, sg.N, sg.intensity, sg.opd]
    recs = [[float(c[k, 0]) for c in cols] for k in range(cols[0].shape[0])]
    return ('ok', recs)


# ----------------------------------------------------------------------------------------------
# argument forms of Optic.trace_generic (the SAME rays written as Python ints, Python floats, integer-dtype arrays,
# float arrays): the relations of the property must hold in every form, and every form denotes the same rays
# ----------------------------------------------------------------------------------------------
ARG_FORMS = ['float64_arrays', 'int64_arrays', 'int32_pupil_arrays+float64_field_arrays',
             'int64_pupil_arrays+python_float_field_scalars', 'int64_pupil_arrays+python_int_field_scalars',
             'int64_Py_array+python_int_Px_scalar+python_float_field_scalars', 'python_int_scalars_one_ray_per_call',
             'python_float_scalars_one_ray_per_call']

# pupil points that one writes as integers: the chief ray and the four rim rays; a tangential fan has Px = 0 throughout
PUPIL_STAR = [(0, 0), (0, 1), (0, -1), (1, 0), (-1, 0)]
PUPIL_FAN = [(0, -1), (0, 0), (0, 1)]


def form_args(form, H, P):
    """list of (Hx, Hy, Px, Py) argument tuples (one per trace_generic call) for field H = (Hx, Hy) (integers) and the
    integer pupil points P, written in `form`; None when the form cannot express the batch"""
    hx, hy = H
    px, py = [p[0] for p in P], [p[1] for p in P]
    k = len(P)
    f64, i64, i32 = (lambda v: np.array(v, dtype=np.float64)), (lambda v: np.array(v, dtype=np.int64)), \
        (lambda v: np.array(v, dtype=np.int32))
    if form == 'float64_arrays':
        return [(f64([hx] * k), f64([hy] * k), f64(px), f64(py))]
    if form == 'int64_arrays':
        return [(i64([hx] * k), i64([hy] * k), i64(px), i64(py))]
    if form == 'int32_pupil_arrays+float64_field_arrays':
        return [(f64([hx] * k), f64([hy] * k), i32(px), i32(py))]
    if form == 'int64_pupil_arrays+python_float_field_scalars':
        return [(float(hx), float(hy), i64(px), i64(py))]
    if form == 'int64_pupil_arrays+python_int_field_scalars':
        return [(int(hx), int(hy), i64(px), i64(py))]
    if form == 'int64_Py_array+python_int_Px_scalar+python_float_field_scalars':
        if len(set(px)) != 1:
            return None
        return [(float(hx), float(hy), int(px[0]), i64(py))]
    if form == 'python_int_scalars_one_ray_per_call':
        return [(int(hx), int(hy), int(a), int(b)) for a, b in P]
    if form == 'python_float_scalars_one_ray_per_call':
        return [(float(hx), float(hy), float(a), float(b)) for a, b in P]
    raise ValueError(form)


def trace_form(o, form, H, P, w):
    """the rays (H, p) for p in P through o.trace_generic with the arguments written in `form`:
    ('ok', [records of ray 0, records of ray 1, ...]) (records = 8 floats per surface incl. the launch),
    ('err', type, msg), or None when the form cannot express the batch"""
    calls = form_args(form, H, P)
    if calls is None:
        return None
    out = []
    sg = o.surface_group
    for (a, b, c, d) in calls:
        keep = [np.copy(v) if isinstance(v, np.ndarray) else v for v in (a, b, c, d)]
        try:
            o.trace_generic(a, b, c, d, w)
        except Exception as e:   # noqa
            return ('err', type(e).__name__, str(e)[:120])
        for u, v in zip(keep, (a, b, c, d)):
            if isinstance(u, np.ndarray) and (u.dtype != v.dtype or not np.array_equal(u, v)):
                return ('err', 'CallerArrayModified', str(v)[:80])
        cols = [np.asarray(c_, dtype=float) for c_ in (sg.x, sg.y, sg.z, sg.L, sg.M, sg.N, sg.intensity, sg.opd)]
        nray = len(P) if len(calls) == 1 else 1
        if any(c_.shape != (len(sg.surfaces), nray) for c_ in cols):
            return ('err', 'RecordShape', str([c_.shape for c_ in cols]))
        for j in range(nray):
            out.append([[float(c_[k, j]) for c_ in cols] for k in range(cols[0].shape[0])])
    return ('ok', out)


def form_corpus():
    """fixed all-ideal lenses with NON-integer pupil positions, pupil diameters, object distances and field heights
    (what an integer container silently truncates): stop inside / on the first surface / behind the lens,
    infinite and finite objects, both field types"""
    def lens(surfs, obj, ap, ft, mf):
        return {'object_thickness': obj, 'surfaces': surfs, 'aperture': ap, 'field_type': ft,
                'fields': [[0.0, 0.0, 0.0, 0.0], [0.7 * mf, 0.0, 0.0, 0.0], [mf, 0.0, 0.0, 0.0]],
                'wavelengths': [[0.5876, True]], 'telecentric': False}
    trip = lambda: [
        {'type': 'standard', 'radius': 24.3, 'thickness': 3.4, 'material': _ideal(1.61)},
        {'type': 'standard', 'radius': -310.5, 'thickness': 5.7, 'material': 'air'},
        {'type': 'standard', 'radius': -23.6, 'thickness': 1.1, 'material': _ideal(1.59)},
        {'type': 'standard', 'radius': 21.9, 'thickness': 4.6, 'is_stop': True, 'material': 'air'},
        {'type': 'standard', 'radius': 84.2, 'thickness': 3.1, 'material': _ideal(1.61)},
        {'type': 'standard', 'radius': -19.7, 'thickness': 44.3, 'material': 'air'}]
    front = lambda: [
        {'type': 'standard', 'radius': 41.3, 'thickness': 4.4, 'is_stop': True, 'material': _ideal(1.55)},
        {'type': 'standard', 'radius': -87.6, 'thickness': 71.9, 'material': 'air'}]
    rear = lambda: [
        {'type': 'standard', 'radius': 52.7, 'thickness': 5.2, 'material': _ideal(1.66)},
        {'type': 'standard', 'radius': -61.4, 'thickness': 7.35, 'material': 'air'},
        {'type': 'standard', 'radius': INF, 'thickness': 36.8, 'is_stop': True, 'material': 'air'}]
    return [lens(trip(), INF, ['EPD', 9.3], 'angle', 13.0),
            lens(front(), INF, ['EPD', 8.3], 'angle', 6.5),
            lens(rear(), INF, ['EPD', 7.7], 'angle', 4.25),
            lens(trip(), 183.6, ['EPD', 6.9], 'object_height', 17.3),
            lens(rear(), 120.45, ['EPD', 7.1], 'angle', 3.5),
            lens(trip(), INF, ['imageFNO', 5.6], 'angle', 9.5),
            lens(rear(), 97.3, ['objectNA', 0.041], 'object_height', 6.45)]


def all_ideal(spec):
    return all(s.get('material', 'air') == 'air' or (isinstance(s['material'], list) and s['material'][0] == 'ideal')
               for s in spec['surfaces']) and not any(s.get('dx') or s.get('dy') or s.get('rx') or s.get('ry')
                                                      for s in spec['surfaces'])


def independent_EPL(spec):
    """position of the entrance pupil (paraxial image of the stop in object space) measured from surface 1, from the
    numbers of the prescription alone: reduced-angle matrices (y, n u) from surface 1 to the stop plane,
    M = [[A, B], [C, D]]; the axial object-space point whose rays reach the centre of the stop is at z = n0 B / A.
    Lenses of air / ideal glass without mirrors only (None otherwise)"""
    if not all_ideal(spec):
        return None
    k = [i for i, s in enumerate(spec['surfaces']) if s.get('is_stop')]
    if len(k) != 1:
        return None
    n_of = lambda s: 1.0 if s.get('material', 'air') == 'air' else float(s['material'][1])
    A, B, C, D = 1.0, 0.0, 0.0, 1.0
    n1 = 1.0
    for s in spec['surfaces'][:k[0]]:
        n2 = n_of(s)
        R = s.get('radius', INF)
        phi = 0.0 if math.isinf(R) else (n2 - n1) / R
        A, B, C, D = A, B, C - phi * A, D - phi * B           # refraction
        tr = s['thickness'] / n2
        A, B, C, D = A + tr * C, B + tr * D, C, D             # transfer to the next vertex
        n1 = n2
    if A == 0.0:
        return None
    return B / A


def launch_oracle(spec, H, p, rec, epl):
    """discrepancy (in lens units / direction cosines) between the launch record of ray (H, p), H = (0, Hy), and what the
    prescription says about that ray, independent of where on its line the library starts it:
    - the ray passes through the pupil point (Px EPD/2, Py EPD/2, EPL) (EPD prescribed) / the chief ray through (0, 0, EPL);
    - object at infinity, angular field: direction (0, sin(Hy theta_max), cos(Hy theta_max));
    - finite object: it starts in the object plane z = -object distance, at height |Hy| h_max (object_height fields) or
      such that the chief ray makes the angle Hy theta_max with the axis (angular fields).
    Returns (worst, which) or None when nothing can be said"""
    if H[0] != 0 or epl is None or not all(math.isfinite(v) for v in rec[:6]):
        return None
    x0, y0, z0, Lc, Mc, Nc = rec[:6]
    mf = max(abs(f[0]) for f in spec['fields'])
    out = []
    if Nc <= 0:
        return (INF, 'launched backwards')
    t = (epl - z0) / Nc
    xp, yp = x0 + t * Lc, y0 + t * Mc
    if spec['aperture'][0] == 'EPD' and not any(f[2] or f[3] for f in spec['fields']):
        # (fields with vignetting factors compress the pupil: only the chief ray is prescribed)
        epd = spec['aperture'][1]
        out.append((max(abs(xp - p[0] * epd / 2), abs(yp - p[1] * epd / 2)), 'point in the pupil plane z = EPL'))
    elif p == (0, 0):
        out.append((max(abs(xp), abs(yp)), 'chief ray through the centre of the entrance pupil'))
    inf = math.isinf(spec['object_thickness'])
    if inf and spec['field_type'] == 'angle':
        th = math.radians(H[1] * mf)
        out.append((max(abs(Lc), abs(Mc - math.sin(th)), abs(Nc - math.cos(th))), 'direction of the field'))
    if not inf:
        zo = -spec['object_thickness']
        out.append((abs(z0 - zo), 'launch from the object plane'))
        if spec['field_type'] == 'object_height':
            out.append((max(abs(x0), abs(abs(y0) - abs(H[1]) * mf)), 'object height'))
        else:
            th = math.radians(H[1] * mf)
            out.append((max(abs(x0), abs(abs(y0) - abs(math.tan(th)) * (epl - zo))), 'object point of the field angle'))
    if not out:
        return None
    return max(out, key=lambda e: e[0])

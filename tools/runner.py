"""Generic driver: one property check = regenerate -> prove -> correspond -> (search) -> decide."""
import importlib
import json
import os
import sys
import time
import traceback

import vlib

sys.path.insert(0, vlib.REPO)
os.environ.setdefault('MPLBACKEND', 'Agg')


class Ctx:
    def __init__(self, prop, tier, seed):
        self.prop = prop
        self.tier = tier
        self.seed = seed
        self.manifests = {}
        self.notes = []
        self.gen = vlib.Gen(seed)

    def quick(self):
        return self.tier == 'quick'

    def n(self, quick, thorough):
        return quick if self.tier == 'quick' else thorough


def run_property(prop, tier, seed, replay=None):
    t0 = time.time()
    P = importlib.import_module('props.' + prop)
    ctx = Ctx(prop, tier, seed)
    broken = []          # obligations that no longer check: dicts with kind/detail
    witnesses = []       # concrete failing inputs (already confirmed against the implementation)
    coverage = {'samples': [], 'kernels': {}, 'system': {}}
    obligations = 0
    discharged = 0
    theorems = {}
    checker_cmd = f'cd coq && coq_makefile -f _CoqProject -o Makefile && make -j16 Props/{prop}.vo && coqc -Q . OV Props/{prop}.v  (Print Assumptions parsed)'

    # ---- 1. regenerate + 2. prove (serialised across concurrent checks) ----
    with vlib.Lock():
        manifests, failures, changed = vlib.regenerate()
        ctx.manifests = manifests
        used = set(P.KERNELS)
        for f in failures:
            if f['kernel'] in used:
                broken.append({'kind': 'translation-failed', 'kernel': f['kernel'], 'file': f['file'],
                               'func': f['func'], 'why': f['why']})
        bad_src = vlib.forbidden_source_scan(only=vlib.cone_of(prop, ['Num/FloatInst.vo'] + list(getattr(P, 'COQ_TARGETS', []))))
        if bad_src:
            broken.append({'kind': 'forbidden-construct', 'where': bad_src[:10]})
        ok, log = vlib.coq_make([f'Props/{prop}.vo', 'Num/FloatInst.vo'] + [t for t in getattr(P, 'COQ_TARGETS', [])])
        if not ok:
            err = vlib.parse_coq_error(log) or {'error': log[-1500:]}
            thm = vlib.theorem_at(err['file'], err['line']) if 'file' in err else None
            broken.append({'kind': 'proof-broken', 'theorem': thm, **err})
        aok, theorems, alog = (False, {}, '')
        if ok:
            aok, theorems, alog = vlib.props_assumptions(prop)
            if not aok:
                broken.append({'kind': 'assumptions-unreadable', 'log': alog[-800:]})
    chk_axioms = None
    if tier == 'thorough' and ok and aok:
        # independent checker over the compiled property file and everything it depends on
        obligations += 1
        cok, chk_axioms, cbad, clog = vlib.coqchk(prop)
        if cok:
            discharged += 1
        else:
            broken.append({'kind': 'coqchk-failed', 'not_allowed': cbad[:10], 'log': clog})
    obligations += len(theorems) if theorems else len(getattr(P, 'THEOREMS', [])) or 1
    for name, axs in theorems.items():
        badax = [a for a in axs if not vlib.axiom_ok(a)]
        if badax:
            broken.append({'kind': 'axiom-not-allowed', 'theorem': name, 'axioms': badax})
        else:
            discharged += 1
    expected = getattr(P, 'THEOREMS', None)
    if expected is not None and theorems:
        missing = [t for t in expected if t not in theorems]
        if missing:
            broken.append({'kind': 'theorem-missing', 'theorems': missing})
            obligations += len(missing)

    # ---- 3. correspondence ----
    evals = 0
    nontrivial = 0
    traces = 0
    corr_disagreements = []
    # 3a. translated kernels against the Python functions they came from
    try:
        for (kname, cases, opts) in P.kernel_cases(ctx):
            if kname not in manifests:
                continue    # already reported as translation failure
            r = vlib.kernel_correspondence(manifests[kname], cases, **opts)
            obligations += 1
            evals += r['n']
            traces += r['n']
            coverage['kernels'][kname] = {'cases': r['n'], 'python_raised': r['python_errors'],
                                          'mismatches': len(r['mismatches'])}
            if cases:
                coverage['samples'].append({'kernel': kname, 'inputs': [str(x) for x in cases[0]],
                                            'python': r['pyres'][0]})
            if r['errors']:
                broken.append({'kind': 'correspondence-error', 'kernel': kname, 'log': r['errors'][0][-800:]})
            elif r['mismatches']:
                corr_disagreements.extend(r['mismatches'])
                broken.append({'kind': 'kernel-correspondence', 'kernel': kname,
                               'first': r['mismatches'][0]})
            else:
                discharged += 1
    except Exception as e:     # harness failure is an obligation failure, never silent
        broken.append({'kind': 'harness-exception', 'where': 'kernel_cases', 'error': traceback.format_exc()[-1500:]})

    # 3b. hand models / specs against the implementation at system level
    try:
        for res in P.system_checks(ctx):
            obligations += 1
            evals += res.get('n', 0)
            nontrivial += res.get('nontrivial', 0)
            traces += res.get('n', 0)
            coverage['system'][res['name']] = {k: v for k, v in res.items()
                                               if k in ('n', 'nontrivial', 'histogram', 'note', 'exhaustive')}
            for s in res.get('samples', [])[:2]:
                coverage['samples'].append({'check': res['name'], **(s if isinstance(s, dict) else {'case': s})})
            if res.get('error'):
                broken.append({'kind': 'correspondence-error', 'check': res['name'], 'log': res['error'][-800:]})
            elif res.get('disagreements'):
                for d in res['disagreements']:
                    d.setdefault('check', res['name'])
                # a disagreement that the property's own oracle confirms on the implementation is a witness
                for d in res['disagreements']:
                    if d.get('violates_property'):
                        witnesses.append(d)
                    else:
                        corr_disagreements.append(d)
                if any(not d.get('violates_property') for d in res['disagreements']):
                    broken.append({'kind': 'model-correspondence', 'check': res['name'],
                                   'first': [d for d in res['disagreements'] if not d.get('violates_property')][0]})
                else:
                    discharged += 1
            else:
                discharged += 1
    except Exception as e:
        broken.append({'kind': 'harness-exception', 'where': 'system_checks', 'error': traceback.format_exc()[-1500:]})

    # ---- 4. search for a failing input when something broke ----
    searched = False
    known_pre = vlib.load_known_findings(prop)
    unlisted_pre = [w for w in witnesses if not any(P.matches_finding(w, f) for f in known_pre)]
    if broken and not unlisted_pre:
        searched = True
        try:
            w = P.search(ctx, broken, corr_disagreements)
            if w:
                witnesses.extend(w if isinstance(w, list) else [w])
        except Exception as e:
            ctx.notes.append('search raised: ' + traceback.format_exc()[-800:])

    # ---- 5. known findings ----
    known = vlib.load_known_findings(prop)
    lines = []
    unlisted = []
    seen_known = set()
    for w in witnesses:
        fid = None
        for f in known:
            if P.matches_finding(w, f):
                fid = f['id']
                break
        if fid:
            seen_known.add(fid)
        else:
            unlisted.append(w)
    # replay each listed finding against the implementation (prints KNOWN-FINDING when it still fails)
    finding_status = {}
    for f in known:
        try:
            still = P.replay_finding(ctx, f)
        except Exception as e:
            still = None
            ctx.notes.append(f'replay of finding {f["id"]} raised: {e}')
        finding_status[f['id']] = still
        if still:
            lines.append(f'KNOWN-FINDING: property={prop} {f["id"]}: {f["what"]}')
        elif still is False:
            ctx.notes.append(f'finding {f["id"]} no longer reproduces')

    # obligations broken only because of a listed finding do not alarm
    residual_broken = [b for b in broken if not b.get('explained_by_finding')]
    if residual_broken and witnesses and not unlisted:
        # every witness is a listed finding: is each broken obligation attributable to one?
        residual_broken = [b for b in residual_broken if not P.broken_explained(b, known, witnesses)]

    violation = None
    if unlisted:
        w = unlisted[0]
        path = vlib.write_replay(prop, {'property': prop, 'kind': 'counterexample', 'seed': seed,
                                        'witness': w, 'broken_obligations': broken[:5]})
        violation = f'VIOLATION property={prop} replay={path}'
    elif residual_broken:
        path = vlib.write_replay(prop, {'property': prop, 'kind': 'obligation-broken', 'seed': seed,
                                        'broken_obligations': residual_broken[:8],
                                        'searched': searched, 'notes': ctx.notes})
        violation = f'VIOLATION property={prop} replay={path} no-failing-input-found'

    wall = time.time() - t0
    ev = {
        'property_id': prop, 'tier': tier, 'seed': seed, 'level': 'proof',
        'coverage': {
            'obligations': obligations, 'discharged': discharged,
            'checker_cmd': checker_cmd,
            'trusted_base': P.TRUSTED_BASE,
            'theorems': sorted(theorems),
            'axioms_used': sorted({a for v in theorems.values() for a in v}),
            'coqchk_axioms_non_primitive': sorted(a for a in (chk_axioms or []) if not a.startswith(vlib.COQCHK_PRIMS)) if chk_axioms is not None else 'not run (thorough tier only)',
            'theorems_closed_under_global_context': sorted(k for k, v in theorems.items() if not v),
            'evaluations': evals, 'distinct_nontrivial': nontrivial,
            'traces_validated_against_impl': traces,
            'rule': getattr(P, 'RULE', ''),
            'samples': coverage['samples'][:8] or [{'theorems': list(theorems)[:5]}],
            'kernels': coverage['kernels'], 'system': coverage['system'],
            'partial': getattr(P, 'PARTIAL', []),
            'known_findings_seen': sorted(k for k, v in finding_status.items() if v),
            'notes': ctx.notes,
        },
        'assumptions': P.TRUSTED_BASE,
        'wall_s': round(wall, 2),
        'violations': (1 if violation else 0),
    }
    vlib.write_evidence(prop, ev)
    for ln in lines:
        print(ln)
    if violation:
        print(violation)
        for b in (residual_broken or broken)[:3]:
            print('  broken:', json.dumps(b, default=str)[:600])
        return 1
    print(f'OK property={prop} tier={tier} obligations={discharged}/{obligations} evaluations={evals} wall={wall:.1f}s')
    return 0

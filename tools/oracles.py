"""Implementation-level oracles: the properties stated directly as numerical checks on data
returned by optiland.  Used by the searches (to find a failing input when a proof obligation or
a correspondence breaks) and to decide whether a model/implementation disagreement violates the
property.  Everything here is written independently of optiland's own formulas."""
import math
import numpy as np
from numpy.polynomial import chebyshev as C


def rot_x(v, a):
    c, s = math.cos(a), math.sin(a)
    x, y, z = v
    return np.array([x, y * c - z * s, y * s + z * c])


def rot_y(v, a):
    c, s = math.cos(a), math.sin(a)
    x, y, z = v
    return np.array([x * c + z * s, y, -x * s + z * c])


def rot_z(v, a):
    c, s = math.cos(a), math.sin(a)
    x, y, z = v
    return np.array([x * c - y * s, x * s + y * c, z])


def to_local(p, d, s):
    """global point/direction -> frame of surface dict s (as produced by lensgen.model_surfaces)"""
    p = np.array(p, dtype=float) - np.array([s['x'], s['y'], s['z']])
    d = np.array(d, dtype=float)
    for f, a in ((rot_x, s['rx']), (rot_y, s['ry']), (rot_z, s['rz'])):
        if a:
            p = f(p, -a)
            d = f(d, -a)
    return p, d


def sag_and_grad(sh, x, y):
    """independent sag z(x,y) and (dz/dx, dz/dy) of a shape tuple"""
    t = sh[0]
    if t == 'plane':
        return 0.0, 0.0, 0.0
    R, k = sh[1], sh[2]
    r2 = x * x + y * y
    rad = 1 - (1 + k) * r2 / (R * R)
    if rad < 0:
        return float('nan'), float('nan'), float('nan')
    sq = math.sqrt(rad)
    z = r2 / (R * (1 + sq))
    if sq == 0:
        return z, float('inf'), float('inf')
    gx = x / (R * sq)
    gy = y / (R * sq)
    if t == 'even':
        for i, c in enumerate(sh[3]):
            z += c * r2 ** (i + 1)
            gx += 2 * (i + 1) * c * x * r2 ** i
            gy += 2 * (i + 1) * c * y * r2 ** i
    elif t == 'poly':
        for i, row in enumerate(sh[3]):
            for j, c in enumerate(row):
                z += c * x ** i * y ** j
                if i >= 1:
                    gx += c * i * x ** (i - 1) * y ** j
                if j >= 1:
                    gy += c * j * x ** i * y ** (j - 1)
    elif t == 'cheb':
        nx, ny = sh[6], sh[7]
        c = np.array(sh[3], dtype=float)
        xn, yn = x / nx, y / ny
        z += float(C.chebval2d(xn, yn, c))
        gx += float(C.chebval2d(xn, yn, C.chebder(c, axis=0))) / nx if c.shape[0] > 1 else 0.0
        gy += float(C.chebval2d(xn, yn, C.chebder(c, axis=1))) / ny if c.shape[1] > 1 else 0.0
    return z, gx, gy


def check_trace(surfs, recs, scale_tol=1e-7):
    """surfs: model surface dicts; recs: records [launch, after s1, ...] of ONE ray, each
    [x,y,z,L,M,N,i,opd].  Returns list of violations (strings); empty = property holds here."""
    bad = []
    prev = recs[0]
    dead = not all(math.isfinite(v) for v in prev[:6])
    for si, (s, rec) in enumerate(zip(surfs, recs[1:])):
        x, y, z, L, M, N, inten, opd = rec
        fin = all(math.isfinite(v) for v in rec[:6])
        if dead:
            if fin:
                bad.append({'surface': si + 1, 'kind': 'resurrected', 'shape': s['shape'][0], 'detail': f'finite record after a non-finite one'})
            prev = rec
            continue
        if not fin:
            dead = True
            prev = rec
            continue
        p, d_out = to_local([x, y, z], [L, M, N], s)
        _, d_in = to_local([0, 0, 0], prev[3:6], s)
        size = 1.0 + abs(p[0]) + abs(p[1]) + abs(p[2])
        newton = s['shape'][0] in ('even', 'poly', 'cheb')
        tol_pos = (10 * s['shape'][4] if newton else scale_tol * size)
        zs, gx, gy = sag_and_grad(s['shape'], p[0], p[1])
        if not math.isfinite(zs):
            bad.append({'surface': si + 1, 'kind': 'off-surface', 'shape': s['shape'][0], 'detail': f'finite hit recorded outside the domain of the sag'})
            prev = rec
            continue
        # 1. the point lies on the prescribed shape (in the surface's own frame)
        if s['shape'][0] == 'std':
            R, k = s['shape'][1], s['shape'][2]
            q = p[0] ** 2 + p[1] ** 2 + (1 + k) * p[2] ** 2 - 2 * R * p[2]
            if abs(q) > 1e-7 * (size ** 2 + abs(R) * size):
                bad.append({'surface': si + 1, 'kind': 'off-surface', 'shape': s['shape'][0], 'detail': f'hit not on the conic (quadric residual {q:.3e})'})
        elif abs(p[2] - zs) > tol_pos:
            bad.append({'surface': si + 1, 'kind': 'off-surface', 'shape': s['shape'][0], 'detail': f'hit off the surface by {p[2]-zs:.3e}'})
        # 2. unit outgoing direction
        nrm = math.sqrt(L * L + M * M + N * N)
        if abs(nrm - 1) > 1e-9:
            bad.append({'surface': si + 1, 'kind': 'unit', 'shape': s['shape'][0], 'detail': f'outgoing direction has norm {nrm!r}'})
        # 3. Snell / reflection with the normal of the prescribed shape at the hit point
        n = np.array([gx, gy, -1.0])
        if np.all(np.isfinite(n)):
            n = n / np.linalg.norm(n)
            tol_dir = 1e-8 if not newton else 1e-5
            on_sheet = True
            if s['shape'][0] == 'std':
                on_sheet = abs(p[2] - zs) <= 1e-6 * size
            if on_sheet:
                if s['refl']:
                    res = np.cross(d_out, n) - np.cross(d_in, n)
                    side = np.dot(d_out, n) + np.dot(d_in, n)
                    if np.max(np.abs(res)) > tol_dir or abs(side) > tol_dir:
                        bad.append({'surface': si + 1, 'kind': 'reflect', 'shape': s['shape'][0], 'detail': f'law of reflection residual {np.max(np.abs(res)):.3e}/{side:.3e}'})
                else:
                    res = s['n2'] * np.cross(d_out, n) - s['n1'] * np.cross(d_in, n)
                    if np.max(np.abs(res)) > tol_dir * max(1, s['n1'], s['n2']):
                        bad.append({'surface': si + 1, 'kind': 'snell', 'shape': s['shape'][0], 'detail': f'Snell residual {np.max(np.abs(res)):.3e}'})
                    if np.dot(d_out, n) * np.dot(d_in, n) < -1e-12:
                        bad.append({'surface': si + 1, 'kind': 'halfspace', 'shape': s['shape'][0], 'detail': f'refracted ray on the wrong side of the surface'})
        # 4. optical path = sum n * length
        seg = math.dist(rec[:3], prev[:3])
        dopd = opd - prev[7]
        if abs(dopd - abs(s['n1']) * seg) > 1e-8 * (1 + abs(opd)) + (1e-5 if newton else 0):
            bad.append({'surface': si + 1, 'kind': 'opl', 'shape': s['shape'][0], 'detail': f'optical path increment {dopd!r} != n*length {abs(s["n1"])*seg!r}'})
        prev = rec
    return bad

"""Implementation-level oracles: the properties stated directly as numerical checks on data
returned by optiland.  Used by the searches (to find a failing input when a proof obligation or
a correspondence breaks) and to decide whether a model/implementation disagreement violates the
property.  Everything here is written independently of optiland's own formulas."""
import math
import numpy as np
from numpy.polynomial import chebyshev as C


def rot_x(v, a):
    c, s = math.cos(a), math.sin(a)
    x, y, z = v
    return np.array([x, y * c - z * s, y * s + z * c])


def rot_y(v, a):
    c, s = math.cos(a), math.sin(a)
    x, y, z = v
    return np.array([x * c + z * s, y, -x * s + z * c])


def rot_z(v, a):
    c, s = math.cos(a), math.sin(a)
    x, y, z = v
    return np.array([x * c - y * s, x * s + y * c, z])


def to_local(p, d, s):
    """global point/direction -> frame of surface dict s (as produced by lensgen.model_surfaces)"""
    p = np.array(p, dtype=float) - np.array([s['x'], s['y'], s['z']])
    d = np.array(d, dtype=float)
    for f, a in ((rot_x, s['rx']), (rot_y, s['ry']), (rot_z, s['rz'])):
        if a:
            p = f(p, -a)
            d = f(d, -a)
    return p, d


def sag_and_grad(sh, x, y):
    """independent sag z(x,y) and (dz/dx, dz/dy) of a shape tuple"""
    t = sh[0]
    if t == 'plane':
        return 0.0, 0.0, 0.0
    R, k = sh[1], sh[2]
    r2 = x * x + y * y
    rad = 1 - (1 + k) * r2 / (R * R)
    if rad < 0:
        return float('nan'), float('nan'), float('nan')
    sq = math.sqrt(rad)
    z = r2 / (R * (1 + sq))
    if sq == 0:
        return z, float('inf'), float('inf')
    gx = x / (R * sq)
    gy = y / (R * sq)
    if t == 'even':
        for i, c in enumerate(sh[3]):
            z += c * r2 ** (i + 1)
            gx += 2 * (i + 1) * c * x * r2 ** i
            gy += 2 * (i + 1) * c * y * r2 ** i
    elif t == 'poly':
        for i, row in enumerate(sh[3]):
            for j, c in enumerate(row):
                z += c * x ** i * y ** j
                if i >= 1:
                    gx += c * i * x ** (i - 1) * y ** j
                if j >= 1:
                    gy += c * j * x ** i * y ** (j - 1)
    elif t == 'cheb':
        nx, ny = sh[6], sh[7]
        c = np.array(sh[3], dtype=float)
        xn, yn = x / nx, y / ny
        z += float(C.chebval2d(xn, yn, c))
        gx += float(C.chebval2d(xn, yn, C.chebder(c, axis=0))) / nx if c.shape[0] > 1 else 0.0
        gy += float(C.chebval2d(xn, yn, C.chebder(c, axis=1))) / ny if c.shape[1] > 1 else 0.0
    return z, gx, gy


def check_trace(surfs, recs, scale_tol=1e-7):
    """surfs: model surface dicts; recs: records [launch, after s1, ...] of ONE ray, each
    [x,y,z,L,M,N,i,opd].  Returns list of violations (strings); empty = property holds here."""
    bad = []
    prev = recs[0]
    dead = not all(math.isfinite(v) for v in prev[:6])
    for si, (s, rec) in enumerate(zip(surfs, recs[1:])):
        x, y, z, L, M, N, inten, opd = rec
        fin = all(math.isfinite(v) for v in rec[:6])
        if dead:
            if fin:
                bad.append({'surface': si + 1, 'kind': 'resurrected', 'shape': s['shape'][0], 'detail': f'finite record after a non-finite one'})
            prev = rec
            continue
        if not fin:
            dead = True
            prev = rec
            continue
        p, d_out = to_local([x, y, z], [L, M, N], s)
        _, d_in = to_local([0, 0, 0], prev[3:6], s)
        size = 1.0 + abs(p[0]) + abs(p[1]) + abs(p[2])
        newton = s['shape'][0] in ('even', 'poly', 'cheb')
        tol_pos = (10 * s['shape'][4] if newton else scale_tol * size)
        zs, gx, gy = sag_and_grad(s['shape'], p[0], p[1])
        if not math.isfinite(zs):
            bad.append({'surface': si + 1, 'kind': 'off-surface', 'shape': s['shape'][0], 'detail': f'finite hit recorded outside the domain of the sag'})
            prev = rec
            continue
        # 1. the point lies on the prescribed shape (in the surface's own frame)
        if s['shape'][0] == 'std':
            R, k = s['shape'][1], s['shape'][2]
            q = p[0] ** 2 + p[1] ** 2 + (1 + k) * p[2] ** 2 - 2 * R * p[2]
            if abs(q) > 1e-7 * (size ** 2 + abs(R) * size):
                bad.append({'surface': si + 1, 'kind': 'off-surface', 'shape': s['shape'][0], 'detail': f'hit not on the conic (quadric residual {q:.3e})'})
            # the prescribed shape is the sheet of the quadric through the vertex, z = sag(x, y): a point of the quadric
            # lies on it iff (R - (1+k) z) R >= 0 (theorem C02_sheet_is_sag_sheet); the other sheet of a hyperboloid /
            # the far half of an ellipsoid is not the surface
            elif math.isfinite(R) and (R - (1 + k) * p[2]) * R < -1e-9 * (R * R + abs(R) * size):
                bad.append({'surface': si + 1, 'kind': 'wrong-sheet', 'shape': 'std', 'conic': k,
                            'detail': f'hit at z = {p[2]:.6g} lies on the quadric but not on the sheet through the vertex (sag there = {zs:.6g})'})
        elif abs(p[2] - zs) > tol_pos:
            bad.append({'surface': si + 1, 'kind': 'off-surface', 'shape': s['shape'][0], 'detail': f'hit off the surface by {p[2]-zs:.3e}'})
        # 1b. a conic is met on the half line leaving the previous point: the closed-form intersection discards roots
        #     behind the ray (a ray whose quadric lies wholly behind it has NO intersection and must be non-finite)
        if s['shape'][0] == 'std' and all(math.isfinite(v) for v in prev[:6]):
            along = sum((a - b) * c for a, b, c in zip(rec[:3], prev[:3], prev[3:6]))
            if along < -1e-9 * size:
                kk = s['shape'][2]
                a_coef = kk * d_in[2] ** 2 + d_in[0] ** 2 + d_in[1] ** 2 + d_in[2] ** 2
                bad.append({'surface': si + 1, 'kind': 'behind-ray', 'shape': 'std', 'conic': kk, 'a_is_zero': bool(a_coef == 0.0),
                            'detail': f'recorded hit lies {-along:.3e} BEHIND the ray origin (no intersection on the half line, yet finite)'})
        # 2. unit outgoing direction
        nrm = math.sqrt(L * L + M * M + N * N)
        if abs(nrm - 1) > 1e-9:
            bad.append({'surface': si + 1, 'kind': 'unit', 'shape': s['shape'][0], 'detail': f'outgoing direction has norm {nrm!r}'})
        # 3. Snell / reflection with the normal of the prescribed shape at the hit point
        n = np.array([gx, gy, -1.0])
        if np.all(np.isfinite(n)):
            n = n / np.linalg.norm(n)
            tol_dir = 1e-8 if not newton else 1e-5
            on_sheet = True
            if s['shape'][0] == 'std':
                on_sheet = abs(p[2] - zs) <= 1e-6 * size
            if on_sheet:
                if s['refl']:
                    res = np.cross(d_out, n) - np.cross(d_in, n)
                    side = np.dot(d_out, n) + np.dot(d_in, n)
                    if np.max(np.abs(res)) > tol_dir or abs(side) > tol_dir:
                        bad.append({'surface': si + 1, 'kind': 'reflect', 'shape': s['shape'][0], 'detail': f'law of reflection residual {np.max(np.abs(res)):.3e}/{side:.3e}'})
                else:
                    res = s['n2'] * np.cross(d_out, n) - s['n1'] * np.cross(d_in, n)
                    if np.max(np.abs(res)) > tol_dir * max(1, s['n1'], s['n2']):
                        bad.append({'surface': si + 1, 'kind': 'snell', 'shape': s['shape'][0], 'detail': f'Snell residual {np.max(np.abs(res)):.3e}'})
                    if np.dot(d_out, n) * np.dot(d_in, n) < -1e-12:
                        bad.append({'surface': si + 1, 'kind': 'halfspace', 'shape': s['shape'][0], 'detail': f'refracted ray on the wrong side of the surface'})
        # 4. optical path = sum n * length
        seg = math.dist(rec[:3], prev[:3])
        dopd = opd - prev[7]
        if abs(dopd - abs(s['n1']) * seg) > 1e-8 * (1 + abs(opd)) + (1e-5 if newton else 0):
            bad.append({'surface': si + 1, 'kind': 'opl', 'shape': s['shape'][0], 'detail': f'optical path increment {dopd!r} != n*length {abs(s["n1"])*seg!r}'})
        prev = rec
    return bad


# --------------------------------------------------------------------------
# C04: matrix optics, independent of optiland's trace-based method
# --------------------------------------------------------------------------
def _T(t):
    return np.array([[1.0, t], [0.0, 1.0]])


def _S(s):
    c = 0.0 if math.isinf(s['R']) else 1.0 / s['R']
    if s['refl']:
        return np.array([[1.0, 0.0], [-2.0 * c, -1.0]])
    return np.array([[1.0, 0.0], [-(s['npost'] - s['npre']) * c / s['npost'], s['npre'] / s['npost']]])


def abcd_quantities(ps, ap_type, ap_value, field_type, max_field):
    """ps: psurf dicts (index 0 = object).  Returns dict of matrix-optics values."""
    real = ps[1:]
    z1 = real[0]['z']
    n = len(real)
    stop = next((i for i, s in enumerate(real) if s['stop']), None)
    # accumulated matrices from the plane z = z1 (before refraction at surface 1)
    M = np.eye(2)
    z = z1
    after = []        # matrix up to and including refraction at surface k
    before = []       # matrix up to arrival at surface k (before refraction)
    for s in real:
        M = _T(s['z'] - z) @ M
        before.append(M.copy())
        M = _S(s) @ M
        after.append(M.copy())
        z = s['z']
    out = {}
    Msys = after[-1]
    A, B, Cc, D = Msys[0, 0], Msys[0, 1], Msys[1, 0], Msys[1, 1]
    out['f2'] = -1.0 / Cc if Cc != 0 else float('inf')
    out['F2'] = -A / Cc if Cc != 0 else float('inf')      # relative to the last (image) surface
    out['P2'] = out['F2'] - out['f2']
    det = A * D - B * Cc
    # reversed system (seen from image space): M' = J M^-1 J = 1/det [[D, B],[C, A]]
    # optiland's reverse traces start 1 unit before the image surface and end after surface 1
    out['f1'] = det / Cc if Cc != 0 else float('inf')
    out['F1'] = D / Cc if Cc != 0 else float('inf')
    out['P1'] = out['F1'] - out['f1']
    out['N1'] = out['P1'] + out['f1'] + out['f2']
    out['N2'] = out['P2'] + out['f1'] + out['f2']
    if stop is not None:
        Fm = before[stop]                    # plane z1 -> stop plane (before the stop refracts)
        out['EPL'] = z1 + (Fm[0, 1] / Fm[0, 0] if Fm[0, 0] != 0 else float('inf'))
        if stop == n - 1:
            out['XPL'] = float('nan')
        else:
            Bm = np.eye(2)
            z = real[stop]['z']
            Bm = _S(real[stop])
            for s in real[stop + 1:]:
                Bm = _S(s) @ _T(s['z'] - z) @ Bm
                z = s['z']
            # ray from the stop centre: (0, u) BEFORE the stop refracts gives the same centre
            out['XPL'] = -Bm[0, 1] / Bm[1, 1] if Bm[1, 1] != 0 else float('inf')
        if stop == n - 2:
            out['XPL'] = real[-2]['z'] - real[-1]['z']
    obj = ps[0]
    if ap_type == 'EPD':
        out['EPD'] = ap_value
    elif ap_type == 'imageFNO':
        out['EPD'] = abs(out['f2']) / ap_value
    elif ap_type == 'objectNA' and 'EPL' in out:
        u0 = math.asin(ap_value / obj['npost'])
        out['EPD'] = 2 * (out['EPL'] - obj['z']) * math.tan(u0)
    # marginal ray
    if 'EPD' in out and 'EPL' in out:
        if math.isinf(obj['z']):
            v = np.array([out['EPD'] / 2, 0.0])
        else:
            u = out['EPD'] / (2 * (out['EPL'] - obj['z']))
            v = np.array([(z1 - obj['z']) * u, u])       # at the plane z1
        out['marginal'] = [list(m @ v) for m in after]
        # chief ray: through the centre of the stop, object-space field = max_field
        if stop is not None:
            Fm = before[stop]
            if field_type == 'angle':
                u = math.tan(math.radians(max_field))
                y1 = -Fm[0, 1] / Fm[0, 0] * u if Fm[0, 0] != 0 else float('nan')
            else:
                # from the object point of height max_field through the entrance pupil centre
                if math.isinf(obj['z']):
                    y1, u = float('nan'), float('nan')
                else:
                    u = (0 - max_field) / (out['EPL'] - obj['z'])
                    y1 = max_field + (z1 - obj['z']) * u
            out['chief'] = [list(m @ np.array([y1, u])) for m in after]
    return out


def check_paraxial(ps, spec, impl, rtol=1e-7):
    """impl: result of paraxcorr.impl_queries.  Returns list of violation dicts."""
    bad = []
    ap_type, ap_value = spec['aperture']
    mf = max(f[0] for f in spec['fields'])
    try:
        q = abcd_quantities(ps, ap_type, ap_value, spec['field_type'], mf)
    except Exception as e:  # noqa
        return [{'kind': 'oracle-error', 'detail': repr(e)}]

    def cmp(name, a, b, sign_free=False):
        if isinstance(a, tuple) or a is None or b is None:
            return
        if not (math.isfinite(a) and math.isfinite(b)):
            return
        tol = rtol * (1 + abs(a) + abs(b))
        if abs(a - b) <= tol or (sign_free and abs(a + b) <= tol):
            return
        bad.append({'kind': 'paraxial', 'quantity': name, 'implementation': a, 'matrix_optics': b})
    odd_mirrors = sum(1 for s in ps if s['refl']) % 2 == 1
    for name in ('f2', 'F2', 'P2', 'f1', 'F1', 'P1', 'N1', 'N2', 'EPL', 'XPL', 'EPD'):
        if name in q and name in impl:
            if odd_mirrors and name in ('P2', 'N1', 'N2'):
                continue      # sign convention of image-space distances after an odd number of mirrors is not fixed by the property
            if odd_mirrors and name == 'f2':
                cmp(name, impl[name], -q[name])     # index sign reversal
                continue
            cmp(name, impl[name], q[name])
    if 'f2' in q and 'EPD' in q and not isinstance(impl.get('FNO'), tuple) and ap_type != 'imageFNO':
        cmp('FNO', impl['FNO'], abs(q['f2']) / q['EPD'])
    mr = impl.get('marginal_ray')
    if mr and mr[0] != 'err' and 'marginal' in q and not isinstance(impl.get('EPD'), tuple):
        ys, us = mr
        for k, (y, u) in enumerate(q['marginal']):
            cmp(f'marginal_y[{k+1}]', ys[k + 1], y)
            cmp(f'marginal_u[{k+1}]', us[k + 1], u)
        if 'XPL' in q and math.isfinite(q['XPL']):
            cmp('XPD', impl.get('XPD'), 2 * (q['marginal'][-1][0] + q['marginal'][-1][1] * q['XPL']))
        n0, nl = ps[0]['npost'], ps[-1]['npost']
        if q['marginal'][-1][1] != 0 and not math.isinf(ps[0]['z']):
            u_obj = us[0]
            cmp('magnification', impl.get('magnification'), n0 * u_obj / (nl * q['marginal'][-1][1]))
    cr = impl.get('chief_ray')
    if cr and cr[0] != 'err' and 'chief' in q and mf != 0:
        ys, us = cr
        # overall sign convention of the chief ray is not part of the property: compare up to one global sign
        sgn = None
        for k, (y, u) in enumerate(q['chief']):
            for a, b, nm in ((ys[k + 1], y, f'chief_y[{k+1}]'), (us[k + 1], u, f'chief_u[{k+1}]')):
                if not (math.isfinite(a) and math.isfinite(b)) or abs(b) < 1e-12:
                    continue
                if sgn is None:
                    sgn = 1.0 if abs(a - b) <= abs(a + b) else -1.0
                cmp(nm, a, sgn * b)
        # stop centre
        stop = next((i for i, s in enumerate(ps) if s['stop']), None)
        if stop is not None and abs(ys[stop]) > 1e-7 * (1 + max(abs(v) for v in ys)):
            bad.append({'kind': 'paraxial', 'quantity': 'chief ray height at the stop', 'implementation': ys[stop], 'matrix_optics': 0.0})
    # Lagrange invariant at every surface from the RETURNED rays
    if mr and cr and mr[0] != 'err' and cr[0] != 'err' and mf != 0:
        ya, ua = mr
        yb, ub = cr
        sign = 1.0
        H0 = None
        for k in range(1, len(ps)):
            s = ps[k]
            if s['refl']:
                sign = -sign
            H = sign * s['npost'] * (yb[k] * ua[k] - ya[k] * ub[k])
            if not math.isfinite(H):
                continue
            if H0 is None:
                H0 = H
            elif abs(H - H0) > 1e-7 * (1 + abs(H0)):
                bad.append({'kind': 'paraxial', 'quantity': f'Lagrange invariant at surface {k}', 'implementation': H, 'matrix_optics': H0})
                break
    return bad


# --------------------------------------------------------------------------
# C16: intensity along the path
# --------------------------------------------------------------------------
def check_intensity(surfs, recs, w):
    """recs of one ray [launch, s1, ...] each [x,y,z,L,M,N,i,opd]; independent recomputation of the
    intensity from segment lengths, apertures and coatings"""
    bad = []
    prev = recs[0]
    exp_i = prev[6]
    clipped = False
    for si, (s, rec) in enumerate(zip(surfs, recs[1:])):
        i = rec[6]
        if not all(math.isfinite(v) for v in rec[:3]) or not all(math.isfinite(v) for v in prev[:3]):
            break
        if not math.isfinite(i):
            bad.append({'surface': si + 1, 'kind': 'intensity-nonfinite', 'detail': repr(i)})
            break
        d = math.dist(rec[:3], prev[:3])
        # a NEGATIVE propagation distance inside an absorbing medium (virtual propagation, crossing surfaces): the library
        # attenuates with the signed distance, i.e. the intensity GROWS there (listed finding absorption-negative-distance)
        backward = bool(s['k1'] > 0 and all(math.isfinite(v) for v in prev[3:6])
                        and sum((a - b) * c for a, b, c in zip(rec[:3], prev[:3], prev[3:6])) < -1e-12 * (1 + d))
        if i < -1e-15 or i > 1 + 1e-12:
            bad.append({'surface': si + 1, 'kind': 'intensity-range', 'detail': repr(i), 'backward_in_absorber': backward})
        if i > prev[6] * (1 + 1e-12) + 1e-15:
            bad.append({'surface': si + 1, 'kind': 'intensity-increase', 'detail': f'{prev[6]!r} -> {i!r}', 'backward_in_absorber': backward})
        exp_i *= math.exp(-4 * math.pi * s['k1'] * d * 1e3 / w)
        p, _ = to_local(rec[:3], rec[3:6], s)
        if s['aper'] is not None:
            r2 = p[0] ** 2 + p[1] ** 2
            rims = [s['aper'][0]] + ([s['aper'][1]] if s['aper'][1] > 0 else [])
            edge = min(abs(r2 - rr ** 2) for rr in rims)
            if edge < 1e-9 * (1 + r2):
                break      # on a physical rim: either verdict is acceptable (r_min = 0 is not a rim)
            if r2 > s['aper'][0] ** 2 or r2 < s['aper'][1] ** 2:
                exp_i = 0.0
                clipped = True
        if s['coat'] is not None:
            exp_i *= s['coat'][1] if s['refl'] else s['coat'][0]
        if abs(i - exp_i) > 1e-9 * (1 + abs(exp_i)):
            bad.append({'surface': si + 1, 'kind': 'intensity-factor', 'detail': f'recorded {i!r}, expected {exp_i!r}',
                        'clipped': clipped, 'backward_in_absorber': backward})
            break
        prev = rec
    return bad

"""Kernels of property C19 (save / reload preserves the lens).

Two kinds:
* the little arithmetic that lives in the anchored classes (RadialAperture.scale, SimpleCoating.__init__,
  SurfaceGroup.get_thickness) - ordinary py2coq kernels, run against the Python functions in kernel_cases;
* the serialisation code itself, regenerated as *codec tables* by tools/py2coq_codec.py (one `codec_<Class>`
  per class that defines to_dict / from_dict / __init__) plus the defect-site flags `codec_flags`.
  The tables are pinned by reflexivity lemmas (Lemmas/L_C19_Pins.v) and the flags select the behaviour of the
  hand model Model/M_C19.v at the known defect sites.
"""
from py2coq_codec import CodecKernel

O = 'optiland/'
G = O + 'geometries/'
M = O + 'materials/'
S = O + 'surfaces/'

# (kernel suffix, file, class, methods)
CODEC_CLASSES = [
    ('Optic', O + 'optic.py', 'Optic', ['to_dict', 'from_dict']),
    ('SurfaceGroup', S + 'surface_group.py', 'SurfaceGroup', ['to_dict', 'from_dict', '__init__']),
    ('Surface', S + 'standard_surface.py', 'Surface', ['to_dict', 'from_dict', '_from_dict', '__init__']),
    ('ObjectSurface', S + 'object_surface.py', 'ObjectSurface', ['to_dict', '_from_dict', '__init__']),
    ('ImageSurface', S + 'image_surface.py', 'ImageSurface', ['to_dict', '_from_dict', '__init__']),
    ('CoordinateSystem', O + 'coordinate_system.py', 'CoordinateSystem', ['to_dict', 'from_dict', '__init__']),
    ('BaseGeometry', G + 'base.py', 'BaseGeometry', ['to_dict', 'from_dict', '__init__']),
    ('Plane', G + 'plane.py', 'Plane', ['to_dict', 'from_dict', '__init__']),
    ('StandardGeometry', G + 'standard.py', 'StandardGeometry', ['to_dict', 'from_dict', '__init__']),
    ('NewtonRaphsonGeometry', G + 'newton_raphson.py', 'NewtonRaphsonGeometry', ['to_dict', 'from_dict', '__init__']),
    ('EvenAsphere', G + 'even_asphere.py', 'EvenAsphere', ['to_dict', 'from_dict', '__init__']),
    ('PolynomialGeometry', G + 'polynomial.py', 'PolynomialGeometry', ['to_dict', 'from_dict', '__init__']),
    ('ChebyshevGeometry', G + 'chebyshev.py', 'ChebyshevPolynomialGeometry', ['to_dict', 'from_dict', '__init__']),
    ('BaseMaterial', M + 'base.py', 'BaseMaterial', ['to_dict', 'from_dict']),
    ('IdealMaterial', M + 'ideal.py', 'IdealMaterial', ['to_dict', 'from_dict', '__init__']),
    ('Mirror', M + 'mirror.py', 'Mirror', ['to_dict', 'from_dict', '__init__']),
    ('AbbeMaterial', M + 'abbe.py', 'AbbeMaterial', ['to_dict', 'from_dict', '__init__']),
    ('Material', M + 'material.py', 'Material', ['to_dict', 'from_dict', '__init__']),
    ('MaterialFile', M + 'material_file.py', 'MaterialFile', ['to_dict', 'from_dict']),
    ('BaseCoating', O + 'coatings.py', 'BaseCoating', ['to_dict', 'from_dict']),
    ('SimpleCoating', O + 'coatings.py', 'SimpleCoating', ['to_dict', 'from_dict', '__init__']),
    ('FresnelCoating', O + 'coatings.py', 'FresnelCoating', ['to_dict', 'from_dict', '__init__']),
    ('BaseBSDF', O + 'scatter.py', 'BaseBSDF', ['to_dict', 'from_dict']),
    ('LambertianBSDF', O + 'scatter.py', 'LambertianBSDF', ['to_dict', 'from_dict', '__init__']),
    ('GaussianBSDF', O + 'scatter.py', 'GaussianBSDF', ['to_dict', 'from_dict', '__init__']),
    ('BaseAperture', O + 'physical_apertures.py', 'BaseAperture', ['to_dict', 'from_dict']),
    ('RadialAperture', O + 'physical_apertures.py', 'RadialAperture', ['to_dict', 'from_dict', '__init__']),
    ('Field', O + 'fields.py', 'Field', ['to_dict', 'from_dict', '__init__']),
    ('FieldGroup', O + 'fields.py', 'FieldGroup', ['to_dict', 'from_dict', '__init__', 'add_field', 'set_telecentric']),
    ('Wavelength', O + 'wavelength.py', 'Wavelength', ['to_dict', 'from_dict', '__init__']),
    ('WavelengthGroup', O + 'wavelength.py', 'WavelengthGroup', ['to_dict', 'from_dict', '__init__', 'add_wavelength']),
    ('Aperture', O + 'aperture.py', 'Aperture', ['to_dict', 'from_dict', '__init__']),
    ('Pickup', O + 'pickup.py', 'Pickup', ['to_dict', 'from_dict', '__init__']),
    ('PickupManager', O + 'pickup.py', 'PickupManager', ['to_dict', 'from_dict', '__init__', 'add']),
    ('BaseSolve', O + 'solves.py', 'BaseSolve', ['to_dict', 'from_dict']),
    ('MarginalRayHeightSolve', O + 'solves.py', 'MarginalRayHeightSolve', ['to_dict', 'from_dict', '__init__']),
    ('SolveManager', O + 'solves.py', 'SolveManager', ['to_dict', 'from_dict', '__init__']),
    ('FileIO', O + 'fileio/optiland_handler.py', None,
     ['load_obj_from_json', 'save_obj_to_json', 'load_optiland_file', 'save_optiland_file']),
]

CODEC_KERNELS = ['codec_' + c[0] for c in CODEC_CLASSES]

MODULES = {
    'C19Arith': [
        dict(name='c19_ap_scale', file=O + 'physical_apertures.py', cls='RadialAperture', func='scale',
             outputs=['self.r_max', 'self.r_min']),
        dict(name='c19_coat_init', file=O + 'coatings.py', cls='SimpleCoating', func='__init__',
             outputs=['self.transmittance', 'self.reflectance', 'self.absorptance']),
        dict(name='c19_get_thickness', file=S + 'surface_group.py', cls='SurfaceGroup', func='get_thickness',
             types={'surface_number': 'int', 'self.positions': 'list'}),
    ],
    'C19Codec': [dict(name='codec_' + n, file=f, cls=c, func='to_dict', methods=ms, kclass=CodecKernel)
                 for (n, f, c, ms) in CODEC_CLASSES]
                + [dict(name='codec_flags', file=O + 'optic.py', cls='Optic', func='to_dict', mode='flags',
                        kclass=CodecKernel)],
}
MODULE_DEPS = {}

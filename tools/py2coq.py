"""py2coq: fail-closed translator from a subset of optiland's NumPy code to Gallina.

Each *kernel* (one Python function or method) becomes one Gallina definition
generic over the arithmetic signature `Ops` (coq/Num/Ops.v).  The translation is
a symbolic execution of the Python AST in continuation-passing style:

  * every attribute the code READS before writing it (`self.k`, `rays.x`,
    `self.optic.aperture.value`, ...) becomes an explicit argument, so the
    kernel's inputs are exactly what the Python reads;
  * assignments become `let`s; `if` becomes `if`; `raise` makes the result an
    `option` (None = the call raises); `for ... in enumerate(xs)` /
    `for k in range(a, b)` become `fold_left` with the loop-carried names as the
    accumulator; mask assignment `t[c] = v` and `np.where` become `if`;
  * anything outside the subset raises `Unsupported` and the kernel is reported
    as an obligation failure (never guessed).

The per-ray scalar semantics of NumPy elementwise code is assumed (DESIGN §3).

Output: Coq text + a manifest (inputs, kinds, outputs) used by the harness to
run the very same Python function against the generated definition.
"""
import ast
import decimal
import json
import os
import textwrap


class Unsupported(Exception):
    pass


class RetryLayout(Exception):
    """a later return path yields an optional number where an earlier one fixed a plain number:
    translate again with those result positions lifted to `option` (lift_opt)"""
    def __init__(self, positions):
        Exception.__init__(self, 'retry with optional results at %s' % sorted(positions))
        self.positions = set(positions)


class _PromoteAcc(Exception):
    pass


# --------------------------------------------------------------------------
# symbolic values
# --------------------------------------------------------------------------
class V:
    """symbolic value: kind in num|int|bool|str|list|list2|intlist|tuple|none|obj"""
    __slots__ = ('kind', 'coq', 'items', 'path')

    def __init__(self, kind, coq=None, items=None, path=None):
        self.kind = kind
        self.coq = coq
        self.items = items
        self.path = path

    def __repr__(self):
        return f'V({self.kind},{self.coq})'


def paren(s):
    s = s.strip()
    if s.startswith('(') and s.endswith(')'):
        # check balanced as a single group
        depth = 0
        for i, ch in enumerate(s):
            if ch == '(':
                depth += 1
            elif ch == ')':
                depth -= 1
                if depth == 0 and i != len(s) - 1:
                    break
        else:
            return s
    if all(c.isalnum() or c in "_'." for c in s):
        return s
    return '(' + s + ')'


def app(f, *args):
    return f + ' ' + ' '.join(paren(a) for a in args)


NP_UNARY = {'sqrt': 'sqrt_', 'abs': 'abs_', 'absolute': 'abs_', 'sign': 'sign_', 'cos': 'cos_',
            'sin': 'sin_', 'tan': 'tan_', 'exp': 'exp_', 'arccos': 'acos_',
            'arcsin': 'asin_', 'floor': 'floor_'}
IDENTITY_CALLS = {'copy', 'atleast_1d', 'ravel', 'array', 'asarray', 'squeeze', 'flatten', 'float'}


class Kernel:
    def __init__(self, spec, registry, src_root):
        self.spec = spec
        self.name = spec['name']
        self.registry = registry
        self.src_root = src_root
        self.types = dict(spec.get('types', {}))     # dotted name -> kind
        self.inputs = []                             # [(dotted, kind, coqname)]
        self.input_names = {}
        self.counter = 0
        self.can_raise = False
        self.out_kinds = None
        self.func = None
        self.source = None

    # ---------------- source lookup ----------------
    def load(self):
        path = os.path.join(self.src_root, self.spec['file'])
        self.source = open(path).read()
        tree = ast.parse(self.source)
        cls = self.spec.get('src_cls') or self.spec.get('cls')    # src_cls: class that defines an inherited method
        body = tree.body
        if cls:
            for n in body:
                if isinstance(n, ast.ClassDef) and n.name == cls:
                    body = n.body
                    break
            else:
                raise Unsupported(f'class {cls} not found in {path}')
        for n in body:
            if isinstance(n, ast.FunctionDef) and n.name == self.spec['func']:
                self.func = n
                return
        raise Unsupported(f"function {self.spec['func']} not found in {path}")

    # ---------------- helpers ----------------
    def fresh(self, base):
        self.counter += 1
        base = ''.join(c if c.isalnum() else '_' for c in base)
        return f'{base}_{self.counter}'

    def coqname(self, dotted):
        return 'i_' + dotted.replace('.', '_').replace('[', '_').replace(']', '').replace('()', '_call')

    def coq_type(self, kind):
        return {'num': 'T O', 'int': 'Z', 'bool': 'bool', 'str': 'string',
                'list': 'list (T O)', 'list2': 'list (list (T O))', 'intlist': 'list Z',
                'fun': 'T O -> T O', 'optnum': 'option (T O)'}[kind]

    def bind_kind_ok(self, kind):
        return kind in ('num', 'int', 'bool', 'str', 'list', 'list2', 'intlist', 'idx2')

    def get_input(self, dotted):
        if dotted in self.input_names:
            name, kind = self.input_names[dotted]
            return V(kind, name)
        kind = self.types.get(dotted, 'num')
        if kind == 'obj':
            return V('obj', path=dotted)
        name = self.coqname(dotted)
        self.inputs.append((dotted, kind, name))
        self.input_names[dotted] = (name, kind)
        return V(kind, name)

    def to_num(self, v):
        if v.kind == 'num':
            return v.coq
        if v.kind == 'int':
            return app('ofZ', v.coq)
        if v.kind == 'bool':
            return f'(if {v.coq} then ofZ 1%Z else ofZ 0%Z)'
        raise Unsupported(f'cannot use {v.kind} as a number')

    # ---------------- expressions ----------------
    def dotted_of(self, node):
        if isinstance(node, ast.Name):
            return node.id
        if isinstance(node, ast.Attribute):
            base = self.dotted_of(node.value)
            if base is None:
                return None
            return base + '.' + node.attr
        if isinstance(node, ast.Subscript) and isinstance(node.slice, ast.Constant) \
                and isinstance(node.slice.value, str) and node.slice.value.isidentifier():
            # entry of a dict under a literal key: d['k'] is the dotted name d.K__k  (C20 reader state)
            base = self.dotted_of(node.value)
            return None if base is None else base + '.K__' + node.slice.value
        return None

    def lit_num(self, node):
        val = node.value
        if isinstance(val, bool):
            return V('bool', 'true' if val else 'false')
        if isinstance(val, int):
            return V('int', f'{val}%Z' if val >= 0 else f'({val})%Z')
        if isinstance(val, float):
            text = ast.get_source_segment(self.source, node)
            d = decimal.Decimal(text)
            sign, digits, exp = d.as_tuple()
            m = int(''.join(map(str, digits))) * (-1 if sign else 1)
            hx = float(val).hex()
            return V('num', f'lit ({m})%Z ({exp})%Z {hx}%float')
        if isinstance(val, str):
            return V('str', '"' + val + '"%string')
        if val is None:
            return V('none', 'tt')
        raise Unsupported(f'constant {val!r}')

    def expr(self, node, env):
        if isinstance(node, ast.Constant):
            return self.lit_num(node)
        if isinstance(node, (ast.Name, ast.Attribute)):
            dotted = self.dotted_of(node)
            if dotted is None:
                # attribute of a call etc.
                if isinstance(node, ast.Attribute) and node.attr in ('T',):
                    return self.expr(node.value, env)
                raise Unsupported('attribute of complex expression: ' + ast.unparse(node))
            return self.load_name(dotted, env)
        if isinstance(node, ast.UnaryOp):
            v = self.expr(node.operand, env)
            if isinstance(node.op, ast.USub):
                if v.kind == 'int':
                    return V('int', f'(- {paren(v.coq)})%Z')
                return V('num', app('neg', self.to_num(v)))
            if isinstance(node.op, ast.UAdd):
                return v
            if isinstance(node.op, (ast.Not, ast.Invert)):
                if v.kind != 'bool':
                    raise Unsupported('not on non-bool')
                return V('bool', app('negb', v.coq))
        if isinstance(node, ast.BinOp):
            return self.binop(node, env)
        if isinstance(node, ast.BoolOp):
            vals = [self.expr(v, env) for v in node.values]
            if any(v.kind != 'bool' for v in vals):
                raise Unsupported('boolop on non-bool: ' + ast.unparse(node))
            f = 'andb' if isinstance(node.op, ast.And) else 'orb'
            out = vals[0].coq
            for v in vals[1:]:
                out = app(f, out, v.coq)
            return V('bool', out)
        if isinstance(node, ast.Compare):
            return self.compare(node, env)
        if isinstance(node, ast.Call):
            return self.call(node, env)
        if isinstance(node, ast.Subscript) and self.dotted_of(node) is not None:
            return self.load_name(self.dotted_of(node), env)     # dict entry under a literal key
        if isinstance(node, ast.ListComp) and len(node.generators) == 1 and not node.generators[0].ifs \
                and isinstance(node.generators[0].target, ast.Name):
            # [float(v) for v in xs] / [v for v in xs] over a numeric list is that list
            g0 = node.generators[0]
            elt = node.elt
            if isinstance(elt, ast.Call) and isinstance(elt.func, ast.Name) and elt.func.id == 'float' \
                    and len(elt.args) == 1 and not elt.keywords:
                elt = elt.args[0]
            if isinstance(elt, ast.Name) and elt.id == g0.target.id:
                lst = self.expr(g0.iter, env)
                if lst.kind == 'list':
                    return lst
            raise Unsupported('list comprehension ' + ast.unparse(node)[:60])
        if isinstance(node, ast.Subscript):
            return self.subscript(node, env)
        if isinstance(node, ast.Tuple):
            return V('tuple', items=[self.expr(e, env) for e in node.elts])
        if isinstance(node, ast.List):
            items = [self.expr(e, env) for e in node.elts]
            if not items:
                return V('list', '[]')
            if all(i.kind in ('num', 'int') for i in items):
                return V('list', '[' + '; '.join(self.to_num(i) for i in items) + ']')
            if all(i.kind == 'list' for i in items):
                return V('list2', '[' + '; '.join(i.coq for i in items) + ']')
            raise Unsupported('heterogeneous list')
        if isinstance(node, ast.IfExp):
            c = self.expr(node.test, env)
            if c.kind == 'bool' and c.coq in ('true', 'false'):
                # statically decided test (None-test declared in `static`): only the live branch exists
                return self.expr(node.body if c.coq == 'true' else node.orelse, env)
            a = self.expr(node.body, env)
            b = self.expr(node.orelse, env)
            return self.ite(self.truthy(c), a, b)
        raise Unsupported('expression ' + ast.dump(node)[:80])

    def truthy(self, v):
        if v.kind == 'bool':
            return v.coq
        if v.kind == 'num':
            return app('negb', app('eqb_', v.coq, 'ofZ 0%Z'))
        if v.kind == 'int':
            return app('negb', f'({v.coq} =? 0)%Z')
        raise Unsupported(f'truth value of {v.kind}')

    def ite(self, c, a, b):
        if a.kind == 'tuple' and b.kind == 'tuple':
            return V('tuple', items=[self.ite(c, x, y) for x, y in zip(a.items, b.items)])
        if a.kind != b.kind:
            if {a.kind, b.kind} <= {'num', 'int'}:
                return V('num', f'(if {c} then {self.to_num(a)} else {self.to_num(b)})')
            if {a.kind, b.kind} <= {'num', 'int', 'none', 'optnum'}:
                # `x if cond else None`: an optional number (kind optnum, Coq type option (T O))
                def opt(v):
                    return 'None' if v.kind == 'none' else (v.coq if v.kind == 'optnum' else app('Some', self.to_num(v)))
                return V('optnum', f'(if {c} then {opt(a)} else {opt(b)})')
            raise Unsupported(f'if-merge of {a.kind} and {b.kind}')
        return V(a.kind, f'(if {c} then {a.coq} else {b.coq})')

    def load_name(self, dotted, env):
        if dotted in env:
            return env[dotted]
        parts = dotted.split('.')
        # np constants
        if dotted in ('np.inf', 'numpy.inf', 'math.inf'):
            return V('num', 'inf_')
        if dotted in ('np.nan', 'numpy.nan'):
            return V('num', 'nan_')
        if dotted in ('np.pi', 'numpy.pi', 'math.pi'):
            return V('num', 'pi_')
        # object alias prefix
        for n in range(len(parts) - 1, 0, -1):
            pre = '.'.join(parts[:n])
            if pre in env and env[pre].kind == 'obj' and env[pre].path != pre:
                return self.load_name(env[pre].path + '.' + '.'.join(parts[n:]), env)
        root = parts[0]
        if root in self.params or root == 'self':
            if len(parts) == 1:
                if root in env:
                    return env[root]
            return self.get_input(dotted)
        raise Unsupported('unbound name ' + dotted)

    def binop(self, node, env):
        a = self.expr(node.left, env)
        b = self.expr(node.right, env)
        op = node.op
        if isinstance(op, (ast.BitAnd, ast.BitOr)):
            if a.kind == 'bool' and b.kind == 'bool':
                return V('bool', app('andb' if isinstance(op, ast.BitAnd) else 'orb', a.coq, b.coq))
            raise Unsupported('bit op on non-bool')
        if isinstance(op, ast.Pow):
            if b.kind == 'int' and a.kind == 'num':
                lit_k = None
                if isinstance(node.right, ast.Constant) and isinstance(node.right.value, int):
                    lit_k = node.right.value
                if lit_k is not None and 1 <= lit_k <= 8:
                    x = paren(a.coq)
                    out = x
                    for _ in range(lit_k - 1):
                        out = f'mul {x} {paren(out)}'
                    return V('num', out)
                return V('num', app('powZ', a.coq, b.coq))
            if b.kind == 'int' and a.kind == 'int':
                return V('int', f'({paren(a.coq)} ^ {paren(b.coq)})%Z')
            return V('num', app('pow_', self.to_num(a), self.to_num(b)))
        if a.kind == 'int' and b.kind == 'int' and not isinstance(op, ast.Div):
            sym = {ast.Add: '+', ast.Sub: '-', ast.Mult: '*', ast.FloorDiv: '/', ast.Mod: 'mod'}.get(type(op))
            if sym is None:
                raise Unsupported('int op')
            return V('int', f'({paren(a.coq)} {sym} {paren(b.coq)})%Z')
        if a.kind == 'list' and b.kind == 'list' and isinstance(op, ast.Add):
            return V('list', f'({a.coq} ++ {b.coq})')
        f = {ast.Add: 'add', ast.Sub: 'sub', ast.Mult: 'mul', ast.Div: 'div'}.get(type(op))
        if f is None:
            raise Unsupported('operator ' + type(op).__name__)
        return V('num', app(f, self.to_num(a), self.to_num(b)))

    def compare(self, node, env):
        if len(node.ops) != 1:
            raise Unsupported('chained comparison')
        op = node.ops[0]
        if isinstance(op, (ast.Is, ast.IsNot)) and isinstance(node.comparators[0], ast.Constant) \
                and node.comparators[0].value is None:
            d = self.dotted_of(node.left)
            st = self.spec.get('static', {}).get(d)
            if st == 'notnone':
                return V('bool', 'false' if isinstance(op, ast.Is) else 'true')
            if st == 'none':
                return V('bool', 'true' if isinstance(op, ast.Is) else 'false')
            raise Unsupported(f'None test on {d} (declare it in static)')
        a = self.expr(node.left, env)
        b = self.expr(node.comparators[0], env)
        if a.kind == 'str' or b.kind == 'str':
            if a.kind != b.kind:
                raise Unsupported('str compared with non-str')
            e = app('String.eqb', a.coq, b.coq)
            if isinstance(op, ast.Eq):
                return V('bool', e)
            if isinstance(op, ast.NotEq):
                return V('bool', app('negb', e))
            raise Unsupported('string order comparison')
        if a.kind == 'int' and b.kind == 'int':
            sym = {ast.Lt: '<?', ast.LtE: '<=?', ast.Gt: '>?', ast.GtE: '>=?', ast.Eq: '=?'}.get(type(op))
            if sym:
                return V('bool', f'({paren(a.coq)} {sym} {paren(b.coq)})%Z')
            if isinstance(op, ast.NotEq):
                return V('bool', f'(negb ({paren(a.coq)} =? {paren(b.coq)})%Z)')
            raise Unsupported('int comparison')
        if a.kind == 'bool' and b.kind == 'bool' and isinstance(op, (ast.Eq, ast.Is)):
            return V('bool', app('Bool.eqb', a.coq, b.coq))
        f = {ast.Lt: 'ltb_', ast.LtE: 'leb_', ast.Gt: 'gtb_', ast.GtE: 'geb_', ast.Eq: 'eqb_',
             ast.NotEq: 'neb_'}.get(type(op))
        if f is None:
            raise Unsupported('comparison ' + type(op).__name__)
        return V('bool', app(f, self.to_num(a), self.to_num(b)))

    def subscript(self, node, env):
        base = self.expr(node.value, env)
        sl = node.slice
        if isinstance(sl, ast.Tuple):
            # c[i, j]  on list2
            if base.kind == 'list2' and len(sl.elts) == 2:
                i = self.expr(sl.elts[0], env)
                j = self.expr(sl.elts[1], env)
                if i.kind == 'int' and j.kind == 'int':
                    return V('num', app('get2Z', base.coq, i.coq, j.coq))
            # records[-1, :] / records[k, :] on a per-ray input: the row is part of the input's meaning (C13)
            if base.kind == 'num' and len(sl.elts) == 2 and isinstance(sl.elts[1], ast.Slice) \
                    and sl.elts[1].lower is None and sl.elts[1].upper is None and sl.elts[1].step is None \
                    and self.spec.get('row_inputs') and self.dotted_of(node.value) in self.spec['row_inputs']:
                return base
            # a[:, None] style broadcasting -> identity
            if all(isinstance(e, ast.Slice) or (isinstance(e, ast.Constant) and e.value is None) for e in sl.elts):
                return base
            raise Unsupported('tuple subscript ' + ast.unparse(node))
        if isinstance(sl, ast.Slice):
            if base.kind == 'list':
                lo = self.expr(sl.lower, env) if sl.lower else V('int', '0%Z')
                if sl.upper is None:
                    return V('list', app('sliceZ', base.coq, lo.coq, 'None'))
                hi = self.expr(sl.upper, env)
                return V('list', app('sliceZ', base.coq, lo.coq, f'(Some {paren(hi.coq)})'))
            return base
        idx = self.expr(sl, env)
        if idx.kind == 'bool':
            # boolean mask read: elementwise -> identity
            return base
        if idx.kind == 'int':
            if base.kind == 'num':
                return base                      # x[0] on a 1-element array
            if base.kind == 'list' and getattr(self, 'idx_checked', False):
                # inside `try: ... except IndexError: raise`: an out-of-range read makes the kernel raise
                n = self.fresh('ci')
                self.pending_lets.append(('?' + n, app('nthZ', base.coq, idx.coq)))
                return V('num', n)
            if base.kind == 'list':
                return V('num', app('getZ', base.coq, idx.coq))
            if base.kind == 'list2':
                return V('list', app('getLZ', base.coq, idx.coq))
            if base.kind == 'intlist':
                return V('int', app('getIZ', base.coq, idx.coq))
            if base.kind == 'tuple':
                if isinstance(sl, ast.Constant):
                    return base.items[sl.value]
        raise Unsupported(f'subscript {ast.unparse(node)} ({base.kind}[{idx.kind}])')

    def int_dyadic(self, node, env):
        """int(E) support: E built from int-kinded leaves with + - * and division by a literal power of
        two is an exact dyadic rational num/den in binary64 (for |values| < 2**52), so Python's int(E)
        (truncation toward zero) is Z.quot num den.  Returns (num_coq, den:int) or None."""
        if isinstance(node, ast.BinOp):
            a = self.int_dyadic(node.left, env)
            if a is None:
                return None
            if isinstance(node.op, ast.Div):
                r = node.right
                if isinstance(r, ast.Constant) and isinstance(r.value, int) and not isinstance(r.value, bool) \
                        and r.value > 0 and (r.value & (r.value - 1)) == 0:
                    return (a[0], a[1] * r.value)
                return None
            b = self.int_dyadic(node.right, env)
            if b is None:
                return None
            if isinstance(node.op, (ast.Add, ast.Sub)):
                d = max(a[1], b[1])
                sym = '+' if isinstance(node.op, ast.Add) else '-'
                return (f'(({paren(a[0])} * {d // a[1]}) {sym} ({paren(b[0])} * {d // b[1]}))%Z', d)
            if isinstance(node.op, ast.Mult):
                return (f'({paren(a[0])} * {paren(b[0])})%Z', a[1] * b[1])
            return None
        if isinstance(node, ast.UnaryOp) and isinstance(node.op, ast.USub):
            a = self.int_dyadic(node.operand, env)
            return None if a is None else (f'(- {paren(a[0])})%Z', a[1])
        try:
            v = self.expr(node, env)
        except Unsupported:
            return None
        return (v.coq, 1) if v.kind == 'int' else None

    def call(self, node, env):
        fn = node.func
        dotted = self.dotted_of(fn)
        args = node.args
        # ---- numpy ----
        if dotted and dotted.split('.')[0] in ('np', 'numpy', 'math'):
            name = dotted.split('.', 1)[1]
            if name in NP_UNARY:
                v = self.expr(args[0], env)
                return V('num', app(NP_UNARY[name], self.to_num(v)))
            if name == 'factorial' and len(args) == 1:
                # math.factorial(k) on an int: prod(1..k); Python raises for k < 0 (the model gives 1:
                # callers must keep k >= 0, the correspondence check compares on such inputs)
                v = self.expr(args[0], env)
                if v.kind == 'int':
                    return V('int', f'(fold_left Z.mul (rangeZ 1%Z ({paren(v.coq)} + 1)%Z) 1%Z)')
                raise Unsupported('factorial of non-int')
            if name in ('radians', 'deg2rad'):
                v = self.expr(args[0], env)
                return V('num', app('div', app('mul', self.to_num(v), 'pi_'), 'ofZ 180%Z'))
            if name == 'arctan2':
                a = self.expr(args[0], env)
                b = self.expr(args[1], env)
                return V('num', app('atan2_', self.to_num(a), self.to_num(b)))
            if name == 'where' and len(args) == 3:
                c = self.expr(args[0], env)
                return self.ite(self.truthy(c), self.expr(args[1], env), self.expr(args[2], env))
            if name == 'isinf':
                return V('bool', app('isinf_', self.to_num(self.expr(args[0], env))))
            if name == 'isnan':
                return V('bool', app('isnan_', self.to_num(self.expr(args[0], env))))
            if name in ('any', 'all'):
                return self.expr(args[0], env)
            if name in ('full_like',):
                return V('num', self.to_num(self.expr(args[1], env)))
            if name == 'ones_like':
                return V('num', 'ofZ 1%Z')
            if name == 'zeros_like':
                return V('num', 'ofZ 0%Z')
            if name in IDENTITY_CALLS:
                return self.expr(args[0], env)
            if name == 'argwhere':
                # np.argwhere(c != 0) on a 2-D coefficient table
                a0 = args[0]
                if isinstance(a0, ast.Compare) and isinstance(a0.ops[0], ast.NotEq) and \
                        isinstance(a0.comparators[0], ast.Constant) and a0.comparators[0].value == 0:
                    tbl = self.expr(a0.left, env)
                    if tbl.kind == 'list2':
                        return V('idx2', app('nonzero_idx', tbl.coq))
                raise Unsupported('argwhere form')
            if name == 'clip' and len(args) == 3:
                v = self.to_num(self.expr(args[0], env)); lo = self.to_num(self.expr(args[1], env)); hi = self.to_num(self.expr(args[2], env))
                return V('num', app('clip_', v, lo, hi))
            if name in ('maximum',):
                a = self.expr(args[0], env); b = self.expr(args[1], env)
                return V('num', f'(if ltb_ {paren(self.to_num(a))} {paren(self.to_num(b))} then {self.to_num(b)} else {self.to_num(a)})')
            if name in ('sum',):
                v = self.expr(args[0], env)
                if v.kind == 'list':
                    return V('num', app('sum_list', v.coq))
            if name == 'polyval' and len(args) == 2:
                pv = self.expr(args[0], env)
                if pv.kind == 'list':
                    return V('num', app('polyval_', pv.coq, self.to_num(self.expr(args[1], env))))
            if name == 'interp' and len(args) == 3:
                x = self.to_num(self.expr(args[0], env)); xp = self.expr(args[1], env); fp = self.expr(args[2], env)
                if xp.kind == 'list' and fp.kind == 'list':
                    return V('num', app('interp_', x, xp.coq, fp.coq))
            raise Unsupported('numpy call ' + dotted)
        # ---- builtins ----
        if isinstance(fn, ast.Name):
            if fn.id in ('float', 'int') and len(args) == 1:
                v = self.expr(args[0], env)
                if fn.id == 'int' and v.kind == 'num':
                    q = self.int_dyadic(args[0], env)
                    if q is not None:
                        return V('int', f'(Z.quot {paren(q[0])} {q[1]}%Z)') if q[1] != 1 else V('int', q[0])
                    raise Unsupported('int() of float')
                return v
            if fn.id == 'abs':
                v = self.expr(args[0], env)
                if v.kind == 'int':
                    return V('int', f'(Z.abs {paren(v.coq)})')
                return V('num', app('abs_', self.to_num(v)))
            if fn.id == 'len':
                v = self.expr(args[0], env)
                if v.kind in ('list', 'list2', 'intlist'):
                    return V('int', f'(Z.of_nat (List.length {paren(v.coq)}))')
            if fn.id == 'sum':
                v = self.expr(args[0], env)
                if v.kind == 'list':
                    return V('num', app('sum_list', v.coq))
            if fn.id == 'isinstance':
                raise Unsupported('isinstance')
            raise Unsupported('call to ' + fn.id)
        # ---- x.copy() etc ----
        if isinstance(fn, ast.Attribute) and fn.attr in IDENTITY_CALLS and not args:
            return self.expr(fn.value, env)
        # ---- calls of a function-valued input (`self.n(w)`): the function is an input of the kernel ----
        if dotted in self.spec.get('fun_calls', ()) and len(args) == 1:
            self.types.setdefault(dotted, 'fun')
            f = self.get_input(dotted)
            return V('num', app(f.coq, self.to_num(self.expr(args[0], env))))
        # ---- opaque calls: the result is an input of the kernel ----
        opaque = self.spec.get('opaque_calls', {})
        if dotted in opaque:
            key = dotted + '()'
            if key not in self.types:
                self.types[key] = opaque[dotted]
            return self.get_input(key)
        # ---- calls of other kernels ----
        calls = self.spec.get('calls', {})
        if dotted in calls:
            return self.call_kernel(calls[dotted], node, env)
        raise Unsupported('call ' + ast.unparse(node)[:60])

    def call_kernel(self, callee_name, node, env):
        callee = self.registry[callee_name]
        if callee.coq_text is None:
            raise Unsupported(f'callee {callee_name} did not translate')
        # bind params
        cparams = callee.param_list
        bound = {}
        for p, a in zip(cparams, node.args):
            bound[p] = a
        for kw in node.keywords:
            bound[kw.arg] = kw.value
        argexprs = []
        recv = self.dotted_of(node.func).rsplit('.', 1)[0] if '.' in self.dotted_of(node.func) else 'self'
        self._last_recv = recv
        for dotted, kind, cname in callee.inputs:
            root = dotted.split('.')[0]
            rest = dotted.split('.')[1:]
            if root == 'self':
                v = self.load_name('.'.join([recv] + rest), env)
            elif root in bound:
                a = bound[root]
                if rest:
                    ad = self.dotted_of(a)
                    if ad is None:
                        raise Unsupported('object argument must be a name')
                    v = self.load_name(ad + '.' + '.'.join(rest), env)
                else:
                    v = self.expr(a, env)
            elif root in callee.defaults:
                if rest:
                    raise Unsupported('default object param')
                v = callee.expr_default(callee.defaults[root])
            else:
                raise Unsupported(f'missing argument {root} for {callee_name}')
            if kind == 'num':
                argexprs.append(self.to_num(v))
            else:
                if v.kind != kind:
                    raise Unsupported(f'argument kind {v.kind} for {kind} in call of {callee_name}')
                argexprs.append(v.coq)
        call = app('k_' + callee_name + ' O', *argexprs) if argexprs else 'k_' + callee_name + ' O'
        if callee.can_raise:
            self.can_raise = True
            return ('raising', call, callee, recv)
        return self.unpack_call_result(call, callee, env, recv)

    def relabel(self, lab, recv):
        if lab.startswith('self.') or lab == 'self':
            return recv + lab[4:]
        return lab

    def unpack_call_result(self, call, callee, env, recv='self'):
        """callee result layout: (ret..., attr writes...) flattened tuple"""
        kinds = callee.out_layout       # list of (label, kind)
        if len(kinds) == 1:
            v = V(kinds[0][1], call)
            vals = [v]
        else:
            names = [self.fresh('r') for _ in kinds]
            self.pending_lets.append(("'(" + ', '.join(names) + ')', call))
            vals = [V(k, n) for (lab, k), n in zip(kinds, names)]
        ret = []
        for (lab, k), v in zip(kinds, vals):
            if lab.startswith('ret'):
                ret.append(v)
            else:
                env[self.relabel(lab, recv)] = v
        if not ret:
            return V('none', 'tt')
        if len(ret) == 1:
            return ret[0]
        return V('tuple', items=ret)

    # ---------------- statements (CPS) ----------------
    def bind(self, name_hint, v):
        """let-bind a value, return (lets, V)"""
        if v.kind == 'tuple':
            items = []
            for it in v.items:
                items.append(self.bind(name_hint, it))
            return V('tuple', items=items)
        if v.kind in ('none', 'obj'):
            return v
        if v.coq is not None and all(c.isalnum() or c in "_'" for c in v.coq):
            return v
        n = self.fresh(name_hint)
        self.pending_lets.append((n, v.coq))
        return V(v.kind, n)

    def flush(self):
        lets = self.pending_lets
        self.pending_lets = []
        return ''.join((f'TRY {n[1:]} <- {e} IN\n' if n.startswith('?') else f'let {n} := {e} in\n') for n, e in lets)

    def has_exit(self, stmts):
        for s in stmts:
            for n in ast.walk(s):
                if isinstance(n, (ast.Return, ast.Raise)):
                    return True
        return False

    def assigned_names(self, stmts):
        out = []
        for s in stmts:
            for n in ast.walk(s):
                targets = []
                if isinstance(n, ast.Assign):
                    targets = n.targets
                elif isinstance(n, ast.AugAssign):
                    targets = [n.target]
                elif isinstance(n, ast.Expr) and isinstance(n.value, ast.Call) and \
                        isinstance(n.value.func, ast.Attribute) and n.value.func.attr == 'append':
                    targets = [n.value.func.value]
                elif isinstance(n, ast.Call) and self.dotted_of(n.func) in self.spec.get('calls', {}):
                    # (C07) a registered callee mutates attributes of its receiver (`if c: rays.rotate_x(a)`):
                    # those writes are assignments of the enclosing branch
                    cal = self.registry.get(self.spec['calls'][self.dotted_of(n.func)])
                    fd = self.dotted_of(n.func)
                    recv = fd.rsplit('.', 1)[0] if '.' in fd else 'self'
                    for lab, _k in (getattr(cal, 'out_layout', None) or []):
                        if not lab.startswith('ret'):
                            d = self.relabel(lab, recv)
                            if d not in out:
                                out.append(d)
                for t in targets:
                    for e in (t.elts if isinstance(t, ast.Tuple) else [t]):
                        if isinstance(e, ast.Subscript) and self.dotted_of(e) is None:
                            e = e.value
                        d = self.dotted_of(e)
                        if d and d not in out:
                            out.append(d)
        return out

    def wrap_ok(self, s):
        return f'Some {paren(s)}' if self.can_raise_static else s

    def final(self, env, retval):
        """build the output expression"""
        outs = []
        layout = []
        if retval is not None and retval.kind != 'none':
            items = retval.items if retval.kind == 'tuple' else [retval]
            flat = []
            for it in items:
                if it.kind == 'tuple':
                    flat.extend(it.items)
                elif it.kind in ('obj', 'none'):
                    continue
                else:
                    flat.append(it)
            for i, it in enumerate(flat):
                if it.kind == 'int' and self.spec.get('ret_num', True) and False:
                    pass
                outs.append(it)
                layout.append((f'ret{i}', it.kind))
        for d in self.spec.get('outputs', []):
            if d not in env:
                v = self.load_name(d, env)
            else:
                v = env[d]
            outs.append(v)
            layout.append((d, v.kind))
        lift = getattr(self, 'lift_opt', set())
        for i in lift:
            if i < len(outs) and outs[i].kind in ('num', 'int'):
                outs[i] = V('optnum', app('Some', self.to_num(outs[i])))
                layout[i] = (layout[i][0], 'optnum')
        if self.out_layout is not None:
            need = {i for i, ((lab, k0), v) in enumerate(zip(self.out_layout, outs))
                    if k0 in ('num', 'int') and v.kind == 'optnum'}
            if need:
                raise RetryLayout(need | lift)
        if self.out_layout is None:
            self.out_layout = layout
        else:
            if [k for _, k in self.out_layout] != [k for _, k in layout]:
                # allow int/num mixing by coercion
                fixed = []
                for (lab, k0), v in zip(self.out_layout, outs):
                    if k0 == 'num' and v.kind == 'int':
                        fixed.append(V('num', self.to_num(v)))
                    elif k0 == v.kind:
                        fixed.append(v)
                    elif k0 == 'optnum' and v.kind in ('num', 'int'):
                        fixed.append(V('optnum', app('Some', self.to_num(v))))
                    else:
                        raise Unsupported(f'return kinds differ between paths: {self.out_layout} vs {layout}')
                outs = fixed
        if not outs:
            body = 'tt'
        elif len(outs) == 1:
            body = outs[0].coq
        else:
            body = '(' + ', '.join(o.coq for o in outs) + ')'
        return self.flush() + self.wrap_ok(body)

    def block(self, stmts, env, k):
        """translate stmts then continue with k(env) -> coq string"""
        if not stmts:
            return k(env)
        s, rest = stmts[0], stmts[1:]
        cont = lambda e: self.block(rest, e, k)

        if isinstance(s, ast.Expr):
            if isinstance(s.value, ast.Constant):
                return cont(env)                     # docstring
            if isinstance(s.value, ast.Call):
                f = s.value.func
                if isinstance(f, ast.Attribute) and f.attr == 'append':
                    tgt = self.dotted_of(f.value)
                    lst = self.load_name(tgt, env)
                    item = self.expr(s.value.args[0], env)
                    if lst.kind == 'list':
                        env = dict(env)
                        env[tgt] = self.bind(tgt, V('list', f'({lst.coq} ++ [{self.to_num(item)}])'))
                        return self.flush() + cont(env)
                    raise Unsupported('append to ' + lst.kind)
                if isinstance(f, ast.Attribute) and f.attr in ('simplefilter',):
                    return cont(env)
                if self.dotted_of(f) in self.spec.get('ignore_calls', []):
                    return cont(env)
                r = self.call(s.value, env)
                if isinstance(r, tuple) and r[0] == 'raising':
                    return self.raising_call(r, None, env, cont)
                return self.flush() + cont(env)
            raise Unsupported('expression statement')
        if isinstance(s, ast.Pass):
            return cont(env)
        if isinstance(s, ast.With):
            return self.block(list(s.body) + rest, env, k)
        if isinstance(s, ast.Return):
            if s.value is None:
                return self.final(env, None)
            r = self.expr_or_raising(s.value, env)
            if isinstance(r, tuple):
                return self.raising_call(r, '__ret__', env, lambda e: self.final(e, e['__ret__']))
            return self.final(env, r)
        if isinstance(s, ast.Raise):
            self.can_raise = True
            if not self.can_raise_static:
                raise Unsupported('raise in a kernel not declared raising (internal)')
            self.pending_lets = []
            return 'None'
        if isinstance(s, ast.Assign):
            if len(s.targets) != 1:
                raise Unsupported('multiple assignment targets')
            r = self.expr_or_raising(s.value, env)
            if isinstance(r, tuple):
                return self.raising_call(r, s.targets[0], env, cont)
            env = self.assign(s.targets[0], r, env)
            return self.flush() + cont(env)
        if isinstance(s, ast.AugAssign):
            binop = ast.BinOp(left=self.target_as_load(s.target), op=s.op, right=s.value)
            ast.copy_location(binop, s)
            ast.fix_missing_locations(binop)
            v = self.expr(binop, env)
            env = self.assign(s.target, v, env)
            return self.flush() + cont(env)
        if isinstance(s, ast.If):
            dtest = self.dotted_of(s.test) if isinstance(s.test, (ast.Name, ast.Attribute)) else None
            st = self.spec.get('static', {}).get(dtest) if dtest else None
            if st in ('none', 'false'):
                c = 'false'
            elif st in ('notnone', 'true'):
                c = 'true'
            else:
                c = self.truthy(self.expr(s.test, env))
            if c == 'true':
                return self.block(list(s.body) + rest, env, k)
            if c == 'false':
                return self.block(list(s.orelse) + rest, env, k)
            pre = self.flush()
            if self.has_exit(s.body) or self.has_exit(s.orelse):
                a = self.block(list(s.body) + rest, dict(env), k)
                b = self.block(list(s.orelse) + rest, dict(env), k)
                return pre + f'if {c} then (\n{a}) else (\n{b})'
            names = [n for n in self.assigned_names(list(s.body) + list(s.orelse))]
            results = {}

            def branch(body):
                def kk(e):
                    vals = []
                    for n in names:
                        if n in e:
                            vals.append(e[n])
                        else:
                            vals.append(None)
                    results[id(body)] = vals
                    return '@@'
                txt = self.block(body, dict(env), kk)
                return txt, results[id(body)]
            ta, va = branch(list(s.body))
            tb, vb = branch(list(s.orelse))
            keep = []
            for n, x, y in zip(names, va, vb):
                if x is None and y is None:
                    continue
                if x is None or y is None:
                    # defined in one branch only: needs prior value
                    try:
                        prior = self.load_name(n, env)
                    except Unsupported:
                        continue       # local to the branch
                    x = x or prior
                    y = y or prior
                keep.append((n, x, y))
            if not keep:
                return pre + cont(env)

            def pack(vals):
                flat = []
                for v in vals:
                    flat.append(self.to_num(v) if v.kind in ('num', 'int') and False else v.coq)
                return flat[0] if len(flat) == 1 else '(' + ', '.join(flat) + ')'
            kinds = []
            xs, ys = [], []
            for n, x, y in keep:
                if x.kind != y.kind:
                    if {x.kind, y.kind} <= {'num', 'int'}:
                        x = V('num', self.to_num(x)); y = V('num', self.to_num(y))
                    else:
                        raise Unsupported(f'if-merge kinds {x.kind}/{y.kind} for {n}')
                if x.kind in ('tuple', 'obj', 'none'):
                    raise Unsupported('if-merge of ' + x.kind)
                kinds.append(x.kind); xs.append(x); ys.append(y)
            newnames = [self.fresh(n) for n, _, _ in keep]
            pat = newnames[0] if len(newnames) == 1 else "'(" + ', '.join(newnames) + ')'
            ta = ta.replace('@@', pack(xs))
            tb = tb.replace('@@', pack(ys))
            env = dict(env)
            for (n, _, _), nn, kd in zip(keep, newnames, kinds):
                env[n] = V(kd, nn)
            return pre + f'let {pat} := (if {c} then (\n{ta}) else (\n{tb})) in\n' + cont(env)
        if isinstance(s, ast.For):
            return self.for_loop(s, env, cont)
        if isinstance(s, ast.Try) and len(s.handlers) == 1 and not s.orelse and not s.finalbody \
                and isinstance(s.handlers[0].type, ast.Name) and s.handlers[0].type.id == 'ZeroDivisionError' \
                and len(s.body) == 1 and isinstance(s.body[0], ast.Assign) \
                and isinstance(s.body[0].value, ast.BinOp) and isinstance(s.body[0].value.op, ast.Div):
            # try: t = a / b   except ZeroDivisionError: <handler>
            # (division of Python floats raises exactly when the divisor compares equal to zero)
            den = self.to_num(self.expr(s.body[0].value.right, env))
            env = dict(env)
            env['__zerodiv__'] = V('bool', app('eqb_', den, 'ofZ 0%Z'))
            node = ast.If(test=ast.Name(id='__zerodiv__', ctx=ast.Load()), body=list(s.handlers[0].body),
                          orelse=list(s.body))
            ast.copy_location(node, s)
            ast.fix_missing_locations(node)
            return self.block([node] + rest, env, k)
        if isinstance(s, ast.Try):
            # try: body  except (IndexError|ValueError): raise ...   (handlers must re-raise)
            if s.orelse or s.finalbody or not s.handlers:
                raise Unsupported('try with else/finally')
            caught = set()
            for h in s.handlers:
                if not (isinstance(h.type, ast.Name) and h.type.id in ('IndexError', 'ValueError')):
                    raise Unsupported('except clause ' + ast.unparse(h.type) if h.type else 'bare except')
                if not (h.body and isinstance(h.body[-1], ast.Raise) and
                        all(isinstance(x, ast.Assign) for x in h.body[:-1])):
                    raise Unsupported('except handler that does not re-raise')
                caught.add(h.type.id)
            self.can_raise = True
            saved = getattr(self, 'idx_checked', False)
            inside = saved or ('IndexError' in caught)

            def k_after(e):
                self.idx_checked = saved
                try:
                    return cont(e)
                finally:
                    self.idx_checked = inside
            self.idx_checked = inside
            try:
                return self.block(list(s.body), env, k_after)
            finally:
                self.idx_checked = saved
        raise Unsupported('statement ' + type(s).__name__)

    def expr_or_raising(self, node, env):
        if isinstance(node, ast.Call):
            dotted = self.dotted_of(node.func)
            if dotted in self.spec.get('calls', {}):
                return self.call(node, env)
        return self.expr(node, env)

    def raising_call(self, r, target, env, cont):
        _, call, callee, recv = r
        pre = self.flush()
        kinds = callee.out_layout
        names = [self.fresh('r') for _ in kinds]
        pat = '_' if not names else (names[0] if len(names) == 1 else "'(" + ', '.join(names) + ')')
        env = dict(env)
        ret = []
        for (lab, kd), n in zip(kinds, names):
            if lab.startswith('ret'):
                ret.append(V(kd, n))
            else:
                env[self.relabel(lab, recv)] = V(kd, n)
        rv = V('none', 'tt') if not ret else (ret[0] if len(ret) == 1 else V('tuple', items=ret))
        if target == '__ret__':
            env['__ret__'] = rv
        elif target is not None:
            env = self.assign(target, rv, env)
        body = self.flush() + cont(env)
        return pre + f'match {call} with None => None | Some {pat} =>\n{body}\nend'

    def target_as_load(self, t):
        t2 = ast.parse(ast.unparse(t), mode='eval').body
        return t2

    def assign(self, target, v, env):
        env = dict(env)
        if isinstance(target, ast.Tuple):
            if v.kind != 'tuple' or len(v.items) != len(target.elts):
                raise Unsupported('tuple unpack mismatch')
            for t, it in zip(target.elts, v.items):
                env = self.assign(t, it, env)
            return env
        if isinstance(target, ast.Subscript) and self.dotted_of(target) is not None:
            env[self.dotted_of(target)] = self.bind(self.dotted_of(target), v)   # dict entry under a literal key
            return env
        if isinstance(target, ast.Subscript):
            d = self.dotted_of(target.value)
            old = self.load_name(d, env)
            idx = self.expr(target.slice, env)
            if idx.kind == 'bool':
                new = self.ite(idx.coq, v if v.kind != 'int' else V('num', self.to_num(v)),
                               old if old.kind != 'int' else V('num', self.to_num(old)))
                env[d] = self.bind(d, new)
                return env
            if idx.kind == 'int' and old.kind == 'list':
                env[d] = self.bind(d, V('list', app('setZ', old.coq, idx.coq, self.to_num(v))))
                return env
            raise Unsupported('subscript store ' + ast.unparse(target))
        d = self.dotted_of(target)
        if d is None:
            raise Unsupported('assignment target ' + ast.unparse(target))
        env[d] = self.bind(d, v)
        return env

    def for_loop(self, s, env, cont):
        if s.orelse:
            raise Unsupported('for-else')
        if self.has_exit(s.body) or any(isinstance(n, (ast.Break, ast.Continue)) for b in s.body for n in ast.walk(b)):
            raise Unsupported('exit inside loop')
        it = s.iter
        # iteration space
        loopvars = {}
        if isinstance(it, ast.Call) and isinstance(it.func, ast.Name) and it.func.id == 'enumerate':
            lst = self.expr(it.args[0], env)
            if not (isinstance(s.target, ast.Tuple) and len(s.target.elts) == 2):
                raise Unsupported('enumerate target')
            iname = s.target.elts[0].id
            xname = s.target.elts[1].id
            if lst.kind == 'list':
                space = app('enumZ', lst.coq)
                ivar, xvar = self.fresh(iname), self.fresh(xname)
                pat = f"'({ivar}, {xvar})"
                loopvars = {iname: V('int', ivar), xname: V('num', xvar)}
            else:
                raise Unsupported('enumerate over ' + lst.kind)
        elif isinstance(it, ast.Call) and isinstance(it.func, ast.Name) and it.func.id == 'range':
            a = [self.expr(x, env) for x in it.args]
            if any(x.kind != 'int' for x in a):
                raise Unsupported('range over non-int')
            if len(a) == 1:
                space = app('rangeZ', '0%Z', a[0].coq)
            elif len(a) == 2:
                space = app('rangeZ', a[0].coq, a[1].coq)
            elif len(a) == 3:
                space = app('rangeStepZ', a[0].coq, a[1].coq, a[2].coq)
            else:
                raise Unsupported('range arity')
            ivar = self.fresh(s.target.id)
            pat = ivar
            loopvars = {s.target.id: V('int', ivar)}
        elif isinstance(it, (ast.Name, ast.Attribute)) and self.expr(it, env).kind == 'idx2':
            lst = self.expr(it, env)
            if not (isinstance(s.target, ast.Tuple) and len(s.target.elts) == 2):
                raise Unsupported('idx2 loop target')
            iv, jv = self.fresh(s.target.elts[0].id), self.fresh(s.target.elts[1].id)
            space = lst.coq
            pat = f"'({iv}, {jv})"
            loopvars = {s.target.elts[0].id: V('int', iv), s.target.elts[1].id: V('int', jv)}
        elif isinstance(it, (ast.Name, ast.Attribute)):
            lst = self.expr(it, env)
            if lst.kind == 'list' and isinstance(s.target, ast.Name):
                space = lst.coq
                xvar = self.fresh(s.target.id)
                pat = xvar
                loopvars = {s.target.id: V('num', xvar)}
            else:
                raise Unsupported('for over ' + lst.kind)
        else:
            raise Unsupported('for iterable ' + ast.unparse(it)[:40])
        pre = self.flush()
        # accumulators: names assigned in body that exist before the loop
        accs = []
        for n in self.assigned_names(s.body):
            if n in loopvars:
                continue
            try:
                v0 = self.load_name(n, env)
            except Unsupported:
                continue                          # loop-local temporary
            if v0.kind in ('tuple', 'obj', 'none'):
                raise Unsupported('loop accumulator kind ' + v0.kind)
            if v0.kind == 'int' and (id(s), n) in getattr(self, '_promote_acc', ()):
                v0 = V('num', self.to_num(v0))
            accs.append((n, v0))
        if not accs:
            return pre + cont(env)
        accvars = [self.fresh(n) for n, _ in accs]
        benv = dict(env)
        for (n, v0), av in zip(accs, accvars):
            benv[n] = V(v0.kind, av)
        benv.update(loopvars)

        def kk(e):
            vals = []
            for (n, v0) in accs:
                v = e[n]
                if v.kind != v0.kind:
                    if v0.kind == 'num' and v.kind == 'int':
                        v = V('num', self.to_num(v))
                    elif v0.kind == 'int' and v.kind == 'num':
                        raise _PromoteAcc(n)          # `value = 0; value += <float>`: redo with a num accumulator
                    else:
                        raise Unsupported(f'accumulator {n} changes kind {v0.kind}->{v.kind}')
                vals.append(v.coq)
            packed = (vals[0] if len(vals) == 1 else '(' + ', '.join(vals) + ')')
            return self.flush() + (f'Some {paren(packed)}' if optmode else packed)
        optmode = getattr(self, 'idx_checked', False)      # body may raise IndexError: accumulator is an option
        try:
            body = self.block(list(s.body), benv, kk)
        except _PromoteAcc as pa:
            self._promote_acc = getattr(self, '_promote_acc', set()) | {(id(s), pa.args[0])}
            self.pending_lets = []
            return pre + self.for_loop(s, env, cont)
        accpat = accvars[0] if len(accvars) == 1 else "'(" + ', '.join(accvars) + ')'
        init = accs[0][1].coq if len(accs) == 1 else '(' + ', '.join(v0.coq for _, v0 in accs) + ')'
        newnames = [self.fresh(n) for n, _ in accs]
        newpat = newnames[0] if len(newnames) == 1 else "'(" + ', '.join(newnames) + ')'
        env = dict(env)
        for (n, v0), nn in zip(accs, newnames):
            env[n] = V(v0.kind, nn)
        if optmode:
            loop = (f'fold_left (fun oacc {pat} => match oacc with None => None | Some {accpat.lstrip(chr(39))} =>\n{body}\nend) '
                    f'{paren(space)} (Some {paren(init)})')
            return pre + f'match {loop} with None => None | Some {newpat.lstrip(chr(39))} =>\n' + cont(env) + '\nend'
        loop = f'fold_left (fun {accpat} {pat} =>\n{body}) {paren(space)} {paren(init)}'
        return pre + f'let {newpat} := {loop} in\n' + cont(env)

    # ---------------- driver ----------------
    def expr_default(self, node):
        return self.expr(node, {})

    def translate(self):
        self.coq_text = None
        self.load()
        f = self.func
        args = f.args
        names = [a.arg for a in args.args]
        self.params = [n for n in names if n != 'self']
        self.param_list = list(self.params)
        self.defaults = {}
        for a, d in zip(names[len(names) - len(args.defaults):], args.defaults):
            self.defaults[a] = d
        self.can_raise_static = any(isinstance(n, ast.Raise) for n in ast.walk(f)) or \
            any(self.registry[c].can_raise for c in self.spec.get('calls', {}).values()
                if self.registry[c].coq_text is not None)
        self.can_raise = self.can_raise_static
        self.out_layout = None
        self.pending_lets = []
        env = {}
        # params become inputs lazily (object params resolve through attribute reads)
        for p in self.params:
            kind = self.types.get(p, 'num')
            if kind == 'obj':
                env[p] = V('obj', path=p)
        body = self.block(list(f.body), env, lambda e: self.final(e, None))
        # argument list: params first (in signature order) then attribute reads
        order = []
        for p in self.params:
            for t in self.inputs:
                if t[0] == p:
                    order.append(t)
        for t in self.inputs:
            if t not in order:
                order.append(t)
        self.inputs = order
        argtxt = ' '.join(f'({n} : {self.coq_type(k)})' for _, k, n in self.inputs)
        lay = self.out_layout or []
        rty = ' * '.join(paren(self.coq_type(k)) if ' ' in self.coq_type(k) and k != 'num' else self.coq_type(k) for _, k in lay) if lay else 'unit'
        if self.can_raise_static:
            rty = f'option ({rty})'
        argtxt += f' : {rty}' 
        self.coq_text = (f'(* {self.spec["file"]} :: {self.spec.get("cls", "")}.{self.spec["func"]} *)\n'
                         f'Definition k_{self.name} (O : Ops) {argtxt} :=\n'
                         + textwrap.indent(body, '  ') + '.\n')
        return self.coq_text

    def manifest(self):
        return {'name': self.name, 'file': self.spec['file'], 'cls': self.spec.get('cls'),
                'func': self.spec['func'],
                'inputs': [{'path': d, 'kind': k, 'coq': n} for d, k, n in self.inputs],
                'outputs': [{'label': l, 'kind': k} for l, k in (self.out_layout or [])],
                'can_raise': self.can_raise_static}


HEADER = '''(* GENERATED by tools/py2coq.py from /repo sources -- do not edit. *)
From Coq Require Import ZArith List String Bool.
From Coq Require Import PrimFloat.
From OV Require Import Ops.
Import ListNotations.
Set Implicit Arguments.
'''


def translate_module(modname, specs, src_root, registry=None):
    """returns (coq_text, manifests, failures)"""
    registry = registry if registry is not None else {}
    out = [HEADER]
    req = sorted({r for spec in specs for r in spec.get('requires', ())})
    if req:
        out.append('From OV Require Import ' + ' '.join(req) + '.\n')
    manifests = []
    failures = []
    for spec in specs:
        k = spec.get('kclass', Kernel)(spec, registry, src_root)   # per-property translator extensions (e.g. py2coq_cx)
        registry[spec['name']] = k
        k.coq_text = None
        try:
            for _attempt in range(4):
                try:
                    txt = k.translate()
                    break
                except RetryLayout as r:
                    k = spec.get('kclass', Kernel)(spec, registry, src_root)
                    k.lift_opt = r.positions
                    registry[spec['name']] = k
                    k.coq_text = None
            else:
                raise Unsupported('optional-result layout did not stabilise')
            out.append(txt)
            manifests.append(k.manifest())
        except Unsupported as e:
            failures.append({'kernel': spec['name'], 'file': spec['file'], 'func': spec['func'], 'why': str(e)})
            out.append(f'(* kernel {spec["name"]} NOT TRANSLATED: {e} *)\n')
        except Exception as e:    # fail closed on anything unexpected
            failures.append({'kernel': spec['name'], 'file': spec['file'], 'func': spec['func'],
                             'why': f'translator error {type(e).__name__}: {e}'})
            out.append(f'(* kernel {spec["name"]} NOT TRANSLATED: {type(e).__name__} {e} *)\n')
    return '\n'.join(out), manifests, failures

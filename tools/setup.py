import os, sys
sys.path.insert(0, os.path.dirname(os.path.abspath(__file__)))
import vlib
with vlib.Lock():
    man, fails, changed = vlib.regenerate()
    for f in fails:
        print('translation failure:', f)
    targets = [f[:-2] + '.vo' for f in vlib.coq_files() if f.startswith('Props/')]
    ok, log = vlib.coq_make(targets, timeout=3000)
    print(log[-1500:])
    print('setup', 'ok' if ok else 'FAILED (checks will report the broken obligations)')
# a broken proof must surface through the property's own check, not block setup
sys.exit(0)

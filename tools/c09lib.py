"""C09 helpers: run optiland's wavefront code on a generated lens, collect everything the Coq model
needs (per-ray surface records of the chief trace and of the pupil batch), and the property stated
directly as an independent NumPy oracle (no optiland formula is reused: paths are recomputed from
the recorded intersection points, the exit pupil from matrix optics, the sphere intersection and
the plane-wave offset from first principles)."""
import math
import numpy as np

import vlib
import lensgen
import oracles
import paraxcorr

DISTS = ['hexapolar', 'cross', 'line_x', 'line_y', 'uniform', 'random', 'ring', 'gaussian_quad']


def build(spec):
    """lensgen.build plus a DISPERSIVE object-space medium: spec['object_material'] = ['abbe', n_d, V_d] or
    ['glass', name, catalogue] (lensgen.build knows ['ideal', n, k] only).  The medium is put where
    Optic.add_surface(index=0, material=...) puts it: material_post of the object surface, material_pre of surface 1."""
    om = spec.get('object_material')
    if not om or om[0] == 'ideal':
        return lensgen.build(spec)
    from optiland.materials import AbbeMaterial, Material
    s2 = dict(spec)
    s2['object_material'] = ['ideal', 1.0, 0.0]
    o = lensgen.build(s2)
    m = AbbeMaterial(om[1], om[2]) if om[0] == 'abbe' else (Material(om[1]) if len(om) == 2 else Material(om[1], om[2]))
    surfs = o.surface_group.surfaces
    surfs[0].material_post = m
    surfs[0].material_pre = m
    surfs[1].material_pre = m
    return o


HISTORIES = ['standard', 'fields-first', 'type-changed', 'settings-twice']
ROUTES = ['direct', 'handbuilt', 'reuse', 'roundtrip', 'file', 'roundtrip-twice']


def route_corpus():
    """fixed lenses for the construction-route check (independent of any random stream): off-axis angular fields of an
    infinite object (where the tilt term matters), a finite-object lens with height fields, a mirror, a lens in a medium"""
    inf = float('inf')
    out = []
    out.append({'name': 'singlet-stop-in-front', 'object_thickness': inf, 'aperture': ['EPD', 12.0], 'field_type': 'angle',
                'fields': [[0.0, 0.0, 0.0, 0.0], [7.0, 0.0, 0.0, 0.0], [10.0, 0.0, 0.0, 0.0]],
                'wavelengths': [[0.5876, True]], 'telecentric': False, 'surfaces': [
        {'type': 'standard', 'radius': inf, 'thickness': 10.0, 'material': 'air', 'is_stop': True},
        {'type': 'standard', 'radius': 60.0, 'thickness': 6.0, 'material': ['glass', 'N-BK7', 'schott']},
        {'type': 'standard', 'radius': -90.0, 'thickness': 70.0, 'material': 'air'}]})
    out.append({'name': 'doublet-two-colours', 'object_thickness': inf, 'aperture': ['imageFNO', 6.0], 'field_type': 'angle',
                'fields': [[8.0, 0.0, 0.0, 0.0], [0.0, 0.0, 0.0, 0.0], [4.0, 0.0, 0.0, 0.0]],
                'wavelengths': [[0.4861, False], [0.6563, True]], 'telecentric': False, 'surfaces': [
        {'type': 'standard', 'radius': 61.0, 'thickness': 6.0, 'material': ['glass', 'N-BK7', 'schott'], 'is_stop': True},
        {'type': 'standard', 'radius': -43.0, 'thickness': 2.5, 'material': ['glass', 'N-SF5', 'schott']},
        {'type': 'standard', 'radius': -125.0, 'thickness': 80.0, 'material': 'air'}]})
    out.append({'name': 'finite-object-heights', 'object_thickness': 150.0, 'aperture': ['EPD', 8.0], 'field_type': 'object_height',
                'fields': [[0.0, 0.0, 0.0, 0.0], [6.0, 0.0, 0.0, 0.0]], 'wavelengths': [[0.55, True]], 'telecentric': False,
                'surfaces': [
        {'type': 'standard', 'radius': 50.0, 'thickness': 5.0, 'material': ['ideal', 1.6, 0.0], 'is_stop': True},
        {'type': 'standard', 'radius': -50.0, 'thickness': 90.0, 'material': 'air'}]})
    out.append({'name': 'concave-mirror', 'object_thickness': inf, 'aperture': ['EPD', 20.0], 'field_type': 'angle',
                'fields': [[0.0, 0.0, 0.0, 0.0], [3.0, 0.0, 0.0, 0.0]], 'wavelengths': [[0.55, True]], 'telecentric': False,
                'surfaces': [
        {'type': 'standard', 'radius': -200.0, 'conic': -0.5, 'thickness': -100.0, 'material': 'mirror', 'is_stop': True}]})
    out.append({'name': 'underwater-lens', 'object_thickness': inf, 'object_material': ['ideal', 1.333, 0.0],
                'aperture': ['EPD', 6.0], 'field_type': 'angle',
                'fields': [[0.0, 0.0, 0.0, 0.0], [9.0, 0.0, 0.0, 0.0]], 'wavelengths': [[0.5, True]], 'telecentric': False,
                'surfaces': [
        {'type': 'standard', 'radius': inf, 'thickness': 3.0, 'material': ['glass', 'N-BK7', 'schott']},
        {'type': 'standard', 'radius': inf, 'thickness': 2.0, 'material': 'air', 'is_stop': True},
        {'type': 'standard', 'radius': 30.0, 'thickness': 4.0, 'material': ['glass', 'N-LAK9', 'schott']},
        {'type': 'standard', 'radius': -45.0, 'thickness': 35.0, 'material': 'air'}]})
    return out


def build_history(spec, history, route, rng):
    """the SAME prescription reached through another legitimate history of public calls and another public route.
    history (order of the system-level settings; the library documents no order):
      'standard'       surfaces, aperture, field type, fields, wavelengths (lensgen.build)
      'fields-first'   fields and wavelengths are entered into the empty Optic, before the surfaces and before set_field_type
      'type-changed'   the lens is set up with the OTHER field type, the fields entered, then set_field_type(right one)
      'settings-twice' standard, then set_aperture / set_field_type are called again with the same values
    route: 'direct' | 'handbuilt' (some surfaces as ready-made Surface objects) | 'reuse' (an Optic that held another lens,
      emptied with reset()) | 'roundtrip' (Optic.from_dict(to_dict())) | 'roundtrip-twice' | 'file' (save / load_optiland_file)"""
    import copy
    import os
    import tempfile
    from optiland.optic import Optic
    if route == 'reuse':
        other = lensgen.gen_spec(rng, nsurf=len(spec['surfaces']), allow=['plane', 'standard'], mirrors=False, decenter=False)
        o = lensgen.build(other)
        try:
            o.paraxial.f2(); o.paraxial.EPL()
        except Exception:   # noqa
            pass
        o.reset()
    else:
        o = Optic()
    hb = None
    if route == 'handbuilt':
        tmp = lensgen.build(spec)
        n = len(spec['surfaces'])
        picks = set(rng.sample(range(1, n + 1), rng.choice([1, 1, 2]) if n > 1 else 1))
        hb = {k: copy.deepcopy(tmp.surface_group.surfaces[k]) for k in picks}
    sp = copy.deepcopy(spec)
    if history == 'fields-first':
        for f in spec['fields']:
            o.add_field(y=f[0], x=f[1], vx=f[2], vy=f[3])
        for w_, prim in spec['wavelengths']:
            o.add_wavelength(w_, is_primary=prim)
        sp['fields'], sp['wavelengths'] = [], []
    elif history == 'type-changed':
        sp['field_type'] = 'object_height' if spec['field_type'] == 'angle' else 'angle'
    o = lensgen.build(sp, optic=o, handbuilt=hb)
    if history == 'type-changed':
        o.set_field_type(spec['field_type'])
    elif history == 'settings-twice':
        o.set_aperture(spec['aperture'][0], spec['aperture'][1])
        o.set_field_type(spec['field_type'])
    if route in ('roundtrip', 'roundtrip-twice'):
        o = Optic.from_dict(o.to_dict())
        if route == 'roundtrip-twice':
            o = Optic.from_dict(o.to_dict())
    elif route == 'file':
        from optiland.fileio.optiland_handler import save_optiland_file, load_optiland_file
        fd, path = tempfile.mkstemp(suffix='.json', prefix='c09_')
        os.close(fd)
        try:
            save_optiland_file(o, path)
            o = load_optiland_file(path)
        finally:
            os.remove(path)
    return o


def in_scope(spec):
    """the property quantifies over infinite objects with angular fields and finite objects with
    height fields, fields along y"""
    inf = math.isinf(spec['object_thickness'])
    if inf and spec['field_type'] != 'angle':
        return False
    if not inf and spec['field_type'] != 'object_height':
        return False
    return all(f[1] == 0 for f in spec['fields'])


def make_distribution(name, n, seed=0):
    from optiland import distribution as D
    if name == 'gaussian_quad':
        d = D.GaussianQuadrature(is_symmetric=False)
        d.generate_points(num_rings=n)
        return d
    if name == 'random':
        d = D.RandomDistribution(seed=seed)
        d.generate_points(n)
        return d
    d = D.create_distribution(name)
    d.generate_points(n)
    return d


def records(optic):
    sg = optic.surface_group
    cols = [np.array(c, dtype=float) for c in (sg.x, sg.y, sg.z, sg.L, sg.M, sg.N, sg.intensity, sg.opd)]
    cols = [c.reshape(c.shape[0], -1) for c in cols]
    nrec, nr = cols[0].shape
    return [[[float(c[k, j]) for c in cols] for k in range(nrec)] for j in range(nr)]   # [ray][surface][8]


def trace_records(optic, field, w, dist):
    """the two traces Wavefront makes for one (field, wavelength): the pupil batch and the chief ray alone.
    (EPD() inside _correct_tilt may run a paraxial trace after them, which clears the recorded real rays: they
    are redone here.)  returns (chief records, [records per ray])"""
    optic.trace(*field, w, None, dist)
    rays = records(optic)
    optic.trace_generic(*field, Px=0.0, Py=0.0, wavelength=w)
    chief = records(optic)[0]
    return chief, rays


def run_wavefront(optic, field, w, dist):
    """Wavefront(...) on one field / wavelength plus the records of both traces it makes.
    returns dict(data, intensity, chief=[records], rays=[[records]...], pupil_z, xpl, epd, pos_last)"""
    from optiland.wavefront import Wavefront
    wf = Wavefront(optic, fields=[field], wavelengths=[w], num_rays=len(dist.x), distribution=dist)
    data = [float(v) for v in np.ravel(wf.data[0][0][0])]
    inten = [float(v) for v in np.ravel(wf.data[0][0][1])]
    chief, rays = trace_records(optic, field, w, dist)
    xpl = float(np.ravel(optic.paraxial.XPL())[0])
    pos_last = float(np.ravel(optic.surface_group.positions[-1])[0])
    epd = float(np.ravel(optic.paraxial.EPD())[0])
    return dict(data=data, intensity=inten, chief=chief, rays=rays, xpl=xpl, pos_last=pos_last,
                pupil_z=xpl + pos_last, epd=epd, wf=wf)


# --------------------------------------------------------------------------
# the property as an oracle
# --------------------------------------------------------------------------
def _path_to_image(recs, n_pre):
    """sum n * segment length from the launch point to the image point, from the recorded points"""
    tot = 0.0
    for k in range(1, len(recs)):
        tot += abs(n_pre[k - 1]) * math.dist(recs[k][:3], recs[k - 1][:3])
    return tot


def _sphere_t(p, d, c, R):
    """signed distances t with |p - t d - c| = R (|d| = 1): both roots, larger first"""
    q = np.array(p) - np.array(c)
    b = -2.0 * float(np.dot(q, d))
    cc = float(np.dot(q, q)) - R * R
    disc = b * b - 4 * cc
    if not disc >= 0:
        return (float('nan'), float('nan'))
    s = math.sqrt(disc)
    return ((-b + s) / 2, (-b - s) / 2)


def matrix_optics_applies(spec):
    """lenses whose paraxial exit pupil is fixed by vertex radii alone (the domain of oracles.abcd_quantities)"""
    for s in spec['surfaces']:
        if s.get('type', 'standard') != 'standard' or any(s.get(k) for k in ('dx', 'dy', 'rx', 'ry')):
            return False
    return True


def _families(total, chief, rays, c, R, w):
    """OPD lists for the two intersection families (both rays back along / both forward), plus, for a ray whose
    image point lies OUTSIDE the reference sphere (both intersections on the same side: which one is "the"
    sphere crossing is not fixed by the property), the value with the other intersection of that ray"""
    fam = []
    alt = []
    for root in (0, 1):
        ref = total(chief, root)
        fam.append([(ref - total(r, root)) / (w * 1e-3) for r in rays])
        alt.append([(ref - total(r, 1 - root)) / (w * 1e-3)
                    if math.dist(r[-1][:3], c) > R else None for r in rays])
    return fam[0], fam[1], alt


def expected_opd(surfs, ps, spec, chief, rays, w, impl_xpl=None):
    """OPD (waves) of every ray of `rays` against the chief-ray reference sphere through the axial point of
    the paraxial exit pupil, both paths measured from a common object-space wavefront.
    surfs: lensgen.model_surfaces, ps: paraxcorr.psurfs (at wavelength w).
    Returns (list for the backward intersection, list for the forward intersection, info)."""
    ap_type, ap_value = spec['aperture']
    mf = max(f[0] for f in spec['fields'])
    q = oracles.abcd_quantities(ps, ap_type, ap_value, spec['field_type'], mf)
    xpl = float(q.get('XPL', float('nan')))
    xpl_src = 'matrix-optics'
    if impl_xpl is not None and not matrix_optics_applies(spec):
        # aspheric r^2 terms / decentres: "the paraxial exit pupil" is what C04 establishes for optiland.paraxial
        xpl, xpl_src = float(impl_xpl), 'implementation (C04)'
    pupil = np.array([0.0, 0.0, ps[-1]['z'] + xpl])
    n_pre = [s['n1'] for s in surfs]
    n_img = abs(surfs[-1]['n1'])
    n_obj = abs(surfs[0]['n1'])
    c = np.array(chief[-1][:3])
    R = float(np.linalg.norm(c - pupil))
    infinite = math.isinf(spec['object_thickness'])
    d0 = np.array(chief[0][3:6])
    p0 = np.array(chief[0][:3])

    def total(recs, root):
        # from the common wavefront to the launch point
        if infinite:
            off = n_obj * float(np.dot(np.array(recs[0][3:6]), np.array(recs[0][:3]) - p0))
        else:
            off = n_obj * math.dist(recs[0][:3], p0)      # point source: every ray starts on it
        t = _sphere_t(recs[-1][:3], np.array(recs[-1][3:6]), c, R)[root]
        return off + _path_to_image(recs, n_pre) - n_img * t
    out = _families(lambda recs, root: total(recs, root), chief, rays, c, R, w)
    par = max((float(np.linalg.norm(np.cross(np.array(r[0][3:6]), d0))) for r in rays), default=0.0) if infinite else 0.0
    return out[0], out[1], dict(alt=out[2], R=R, xpl=xpl, xpl_src=xpl_src, center=[float(v) for v in c], nonparallel=par,
                                n_img=n_img, n_obj=n_obj)


def compare(data, exp_b, exp_f, atol=1e-6, rtol=1e-9, alt=None):
    """indices where the reported OPD is neither expectation (NaN must meet NaN)"""
    def close(a, b):
        if math.isnan(a) or math.isnan(b):
            return math.isnan(a) and math.isnan(b)
        return abs(a - b) <= atol + rtol * (abs(a) + abs(b))

    def bad_against(e, al):
        out = []
        for i, (a, b) in enumerate(zip(data, e)):
            if close(a, b) or (al is not None and al[i] is not None and close(a, al[i])):
                continue
            out.append(i)
        return out
    bb = bad_against(exp_b, alt[0] if alt else None)
    bf = bad_against(exp_f, alt[1] if alt else None)
    return bb if len(bb) <= len(bf) else bf


# --------------------------------------------------------------------------
# known-defect semantics: the same oracle with one or more of the recorded defects switched on
# --------------------------------------------------------------------------
DEFECTS = ['tilt-ignores-vignetting', 'image-space-index', 'object-space-index', 'signed-max-y-field']


def expected_opd_with(defects, surfs, chief, rays, w, info, dist_xy, epd, Hy, max_y_field, infinite):
    """the oracle of expected_opd with the listed defects of optiland reproduced:
      tilt-ignores-vignetting: the launch offset is taken at the distribution's (unscaled) point
      signed-max-y-field:      ... and along the direction sin(radians(max_y_field * Hy)) (optiland's formula)
      object-space-index:      the launch offset is not multiplied by the object-space index
      image-space-index:       the segment image -> sphere is not multiplied by the image-space index"""
    n_pre = [s['n1'] for s in surfs]
    n_img = 1.0 if 'image-space-index' in defects else info['n_img']
    n_obj = 1.0 if 'object-space-index' in defects else info['n_obj']
    c, R = info['center'], info['R']
    p0 = np.array(chief[0][:3])
    dmap = {id(r): dxy for r, dxy in zip(rays, dist_xy)}
    dmap[id(chief)] = (0.0, 0.0)

    def total(recs, root):
        dxy = dmap[id(recs)]
        off = 0.0
        if infinite:
            d = np.array(recs[0][3:6])
            dp = np.array(recs[0][:3]) - p0
            if 'tilt-ignores-vignetting' in defects or 'signed-max-y-field' in defects:
                dp = np.array([dxy[0] * epd / 2, dxy[1] * epd / 2, 0.0]) if 'tilt-ignores-vignetting' in defects else dp
                if 'signed-max-y-field' in defects:
                    d = np.array([d[0], math.sin(math.radians(max_y_field * Hy)), d[2]])
                dp = np.array([dp[0], dp[1], 0.0])
            off = n_obj * float(np.dot(d, dp))
        t = _sphere_t(recs[-1][:3], np.array(recs[-1][3:6]), c, R)[root]
        return off + _path_to_image(recs, n_pre) - n_img * t
    return _families(total, chief, rays, c, R, w)


def explain(case, exp_info):
    """smallest set of recorded defects under which the oracle reproduces the implementation's data
    (None: no combination does -> an unlisted violation)"""
    import itertools
    for k in range(1, len(DEFECTS) + 1):
        for combo in itertools.combinations(DEFECTS, k):
            eb, ef, alt = expected_opd_with(set(combo), case['surfs'], case['chief'], case['rays'], case['w'], exp_info,
                                            case['dist'], case['epd'], case['H'][1], case['max_y_field'], case['infinite'])
            if not compare(case['data'], eb, ef, atol=1e-5 + newton_slack(case), rtol=1e-8, alt=alt):
                return list(combo)
    return None


# --------------------------------------------------------------------------
# generated cases
# --------------------------------------------------------------------------
def gen_spec(rng, exotic=True):
    """in-scope prescription: infinite object + angle fields or finite object + height fields, fields along y.
    exotic: occasionally an image-space / object-space medium other than air, or non-positive fields"""
    spec = lensgen.gen_spec(rng)
    if rng.random() < 0.5:
        for s_ in spec['surfaces']:
            if s_.get('type', 'standard') != 'standard':
                s_['tol'] = 1e-11       # otherwise the factory default 1e-6
    spec['field_type'] = 'angle' if math.isinf(spec['object_thickness']) else 'object_height'
    if spec['aperture'][0] == 'objectNA' and math.isinf(spec['object_thickness']):
        spec['aperture'] = ['EPD', 5.0]
    if exotic:
        r = rng.random()
        if r < 0.08 and spec['surfaces'][-1]['material'] == 'air':
            spec['surfaces'][-1]['material'] = ['ideal', rng.uniform(1.2, 1.7), 0.0]
        elif r < 0.14:
            spec['object_material'] = ['ideal', rng.uniform(1.1, 1.5), 0.0]
            if rng.random() < 0.5:      # a dispersive immersion (the index depends on the wavelength analysed)
                spec['object_material'] = rng.choice([['abbe', rng.uniform(1.3, 1.5), rng.uniform(20.0, 60.0)],
                                                      ['glass', rng.choice(lensgen.GLASSES), 'schott']])
        elif r < 0.22 and len(spec['fields']) > 1:
            for f in spec['fields']:
                f[0] = -f[0]
    if rng.random() < 0.25:
        # curved image surface: an off-axis chief ray does not meet it in the vertex plane
        spec['image_radius'] = rng.uniform(15.0, 80.0) * rng.choice([-1, 1])
    return spec


def case_from_data(spec, optic, H, w, dist, data, intensity, fidx=None, dist_name='given', dist_n=None, seed=0):
    """the record a model / oracle comparison needs, for OPD samples `data` that some analysis reported for
    field H, wavelength w on the points of `dist` (the two traces are redone here to collect their records)"""
    H = (float(H[0]), float(H[1]))
    chief, rays = trace_records(optic, H, w, dist)
    vx, vy = optic.fields.get_vig_factor(*H)
    return dict(spec=spec, fidx=fidx, H=H, w=float(w), dist_name=dist_name, dist_n=dist_n or len(dist.x), dist_seed=seed,
                dist=[(float(a), float(b)) for a, b in zip(dist.x, dist.y)],
                vx=float(vx), vy=float(vy), data=[float(v) for v in np.ravel(data)],
                intensity=[float(v) for v in np.ravel(intensity)], chief=chief, rays=rays,
                xpl=float(np.ravel(optic.paraxial.XPL())[0]), epd=float(np.ravel(optic.paraxial.EPD())[0]),
                surfs=lensgen.model_surfaces(optic, w), ps=paraxcorr.psurfs(optic),
                max_field=float(optic.fields.max_field), max_x_field=float(optic.fields.max_x_field),
                max_y_field=float(optic.fields.max_y_field), infinite=math.isinf(spec['object_thickness']))


def make_case(spec, optic, fidx, w, dn, n, seed=0):
    """run the implementation once (single field, single wavelength) and collect what model and oracle need"""
    from optiland.wavefront import Wavefront
    H = optic.fields.get_field_coords()[fidx]
    H = (float(H[0]), float(H[1]))
    dist = make_distribution(dn, n, seed)
    wf = Wavefront(optic, fields=[H], wavelengths=[w], num_rays=len(dist.x), distribution=dist)
    return case_from_data(spec, optic, H, w, dist, wf.data[0][0][0], wf.data[0][0][1], fidx=fidx, dist_name=dn,
                          dist_n=n, seed=seed)


def gen_dispersive_spec(rng, curved_image=None):
    """centred lens of catalogue glasses (so that it has lateral colour), two or three wavelengths in random
    order with a random primary, at least two fields the largest of which is well off axis, no vignetting
    factors; half of them with a curved image surface"""
    spec = gen_spec(rng, exotic=False)
    for s_ in spec['surfaces']:
        if isinstance(s_.get('material'), list):
            s_['material'] = ['glass', rng.choice(lensgen.GLASSES), 'schott']
        for k in ('dx', 'dy', 'rx', 'ry'):
            s_.pop(k, None)
    if not any(isinstance(s_.get('material'), list) for s_ in spec['surfaces']) and len(spec['surfaces']) > 1:
        spec['surfaces'][0]['material'] = ['glass', rng.choice(lensgen.GLASSES), 'schott']
    ws = rng.sample([0.4358, 0.4861, 0.5461, 0.5876, 0.6563, 0.7065], rng.choice([2, 3]))
    pi = rng.randrange(len(ws))
    spec['wavelengths'] = [[w_, j == pi] for j, w_ in enumerate(ws)]
    maxf = rng.uniform(4.0, 9.0)
    spec['fields'] = [[0.0, 0.0, 0.0, 0.0], [0.7 * maxf, 0.0, 0.0, 0.0], [maxf, 0.0, 0.0, 0.0]][rng.choice([0, 1]):]
    if (rng.random() < 0.5) if curved_image is None else curved_image:
        spec['image_radius'] = rng.uniform(15.0, 60.0) * rng.choice([-1, 1])
    if math.isinf(spec['object_thickness']) and rng.random() < 0.4:
        # infinite object in a dispersive medium (underwater lens): the launch offset is weighted by n_object(wavelength)
        spec['object_material'] = rng.choice([['abbe', rng.uniform(1.3, 1.5), rng.uniform(20.0, 60.0)],
                                              ['glass', rng.choice(lensgen.GLASSES), 'schott']])
    else:
        spec.pop('object_material', None)
    return spec


def gen_lossy_spec(rng):
    """a lens whose rays do NOT all arrive with intensity 1: a SimpleCoating with T < 1, a RadialAperture that
    clips part of the beam (clipped rays keep a finite OPD, intensity 0), an absorbing glass -- one or more of them.
    Everything else as gen_spec (no vignetting factors, so the pupil is the nominal one)."""
    spec = gen_spec(rng, exotic=False)
    for f in spec['fields']:
        f[2] = f[3] = 0.0
    kinds = rng.sample(['coating', 'clipping', 'absorbing'], rng.choice([1, 1, 2, 3]))
    surfs = spec['surfaces']
    epd = spec['aperture'][1] if spec['aperture'][0] == 'EPD' else 5.0
    for s_ in surfs:
        s_.pop('aperture', None)
        s_.pop('coating', None)
        if isinstance(s_.get('material'), list) and s_['material'][0] == 'ideal':
            s_['material'][2] = 0.0
    if 'coating' in kinds:
        for s_ in rng.sample(surfs, min(len(surfs), rng.choice([1, 2]))):
            s_['coating'] = [rng.uniform(0.4, 0.97), rng.uniform(0.0, 0.3)]
    if 'clipping' in kinds:
        k = rng.randrange(len(surfs))
        rmax = epd / 2 * rng.uniform(0.45, 0.85)
        surfs[k]['aperture'] = [rmax, rng.choice([0.0, 0.0, rmax * rng.uniform(0.1, 0.3)])]
    if 'absorbing' in kinds:
        glass = [s_ for s_ in surfs if isinstance(s_.get('material'), list) and s_['material'][0] == 'ideal']
        if glass:
            rng.choice(glass)['material'][2] = rng.uniform(2e-7, 3e-6)
        else:
            surfs[0]['coating'] = [rng.uniform(0.4, 0.97), 0.0]
    spec['lossy'] = sorted(kinds)
    return spec


def expected_samples(case):
    """the oracle's OPD per sample for a case (backward intersection family, the one optiland reports; for a ray
    that lands outside the reference sphere the other crossing is allowed and taken when the data sit on it)"""
    eb, ef, info = expected_opd(case['surfs'], case['ps'], case['spec'], case['chief'], case['rays'], case['w'],
                                impl_xpl=case['xpl'])
    out = []
    for i, e in enumerate(eb):
        a = info['alt'][0][i]
        d = case['data'][i]
        if a is not None and math.isfinite(d) and math.isfinite(a) and (not math.isfinite(e) or abs(d - a) < abs(d - e)):
            e = a
        out.append(e)
    return out


def newton_slack(case):
    """waves of OPD noise allowed by the stopping tolerance of the iteratively intersected surfaces
    (the chief ray is traced alone for the reference and inside the batch for the data; the batch
    iterates until its slowest ray meets the tolerance).  0 for plane/conic lenses."""
    tol = sum(s['shape'][4] for s in case['surfs'] if s['shape'][0] in ('even', 'poly', 'cheb'))
    return 4.0 * tol / (case['w'] * 1e-3)


def oracle_case(case):
    """None when the reported OPD is the property's quantity, else a witness dict"""
    eb, ef, info = expected_opd(case['surfs'], case['ps'], case['spec'], case['chief'], case['rays'], case['w'],
                                impl_xpl=case['xpl'])
    bad = compare(case['data'], eb, ef, atol=1e-6 + newton_slack(case), alt=info['alt'])
    # the chief ray itself: exactly zero (to the Newton tolerance through iterated surfaces)
    chief_bad = [i for i, (d, v) in enumerate(zip(case['dist'], case['data']))
                 if d == (0.0, 0.0) and not (abs(v) <= newton_slack(case))]
    if not bad and not chief_bad:
        return None
    i = (bad or chief_bad)[0]
    return {'spec': case['spec'], 'field_index': case['fidx'], 'H': list(case['H']), 'wavelength': case['w'],
            'distribution': [case['dist_name'], case['dist_n'], case['dist_seed']],
            'vignetting': [case['vx'], case['vy']], 'n_image': info['n_img'], 'n_object': info['n_obj'],
            'max_y_field': case['max_y_field'], 'max_field': case['max_field'],
            'first_bad_sample': {'index': i, 'pupil': list(case['dist'][i]), 'reported_waves': case['data'][i],
                                 'expected_waves': eb[i], 'expected_waves_forward_root': ef[i]},
            'bad_samples': len(bad), 'samples': len(case['data']), 'chief_nonzero': bool(chief_bad),
            'exit_pupil': {'XPL': info['xpl'], 'source': info['xpl_src'], 'R': info['R']},
            'explained_by': explain(case, info) if bad and not chief_bad else None,
            'violates_property': True}


# --------------------------------------------------------------------------
# Coq rendering of a case for Model/M_C09.v
# --------------------------------------------------------------------------
def _wc_fields(case, fh):
    """the field maxima the model's wfcfg carries: (max_x_field, max_y_field) for the code as it stands,
    max_field once proposed_fixes/C09-signed-max-y-field.diff is applied (Model/M_C09.v says which)"""
    import os
    txt = open(os.path.join(vlib.COQ, 'Model', 'M_C09.v')).read()
    if 'w_maxfield' in txt:
        return fh(case['max_field'])
    return f'{fh(case["max_x_field"])} {fh(case["max_y_field"])}'


def coq_case_defs(tag, case):
    fh = vlib.fhex
    ap, apv, _, _ = paraxcorr.ap_args(case['spec'])
    angle = 'true' if case['spec']['field_type'] == 'angle' else 'false'
    surfs = '[' + ';\n  '.join(lensgen.coq_surf(s, fh) for s in case['surfs']) + ']'
    return (f'Definition l{tag} := {surfs}.\n' + paraxcorr.coq_lens(f'p{tag}', case['ps']) + '\n'
            f'Definition lc{tag} := lc_of (O:=FOps) p{tag} {ap} {apv} {angle} {fh(case["max_field"])}.\n'
            f'Definition wc{tag} := wc_of (O:=FOps) p{tag} {ap} {apv} {angle} {_wc_fields(case, fh)}.\n')


def coq_case_check(tag, case, tol):
    fh = vlib.fhex
    dist = '[' + '; '.join(f'({fh(a)}, {fh(b)})' for a, b in case['dist']) + ']'
    call = (f'field_data (O:=FOps) l{tag} (pupil_z_of p{tag}) wc{tag} lc{tag} {fh(case["w"])} {fh(case["H"][0])} {fh(case["H"][1])} '
            f'{fh(case["vx"])} {fh(case["vy"])} {dist}')
    tol = tol + newton_slack(case)
    return (f'match {call} with None => false | Some (o_, i_) => '
            f'close_list {fh(tol)} o_ {vlib.flist(case["data"])} && close_list {fh(1e-9 + 1e-3 * newton_slack(case))} i_ {vlib.flist(case["intensity"])} end')


def coq_launch_check(tag, case, tol=1e-9):
    """the modelled launch against the object-surface records of the implementation (chief + batch)"""
    fh = vlib.fhex
    lines = []
    pts = [(0.0, 0.0, case['chief'][0])] + [(a, b, r[0]) for (a, b), r in zip(case['dist'], case['rays'])]
    for a, b, rec in pts[:6]:
        call = (f'launch (O:=FOps) lc{tag} {fh(case["w"])} {fh(case["H"][0])} {fh(case["H"][1])} (scaled (O:=FOps) {fh(a)} {fh(case["vx"])}) '
                f'(scaled (O:=FOps) {fh(b)} {fh(case["vy"])}) {fh(case["vx"])} {fh(case["vy"])}')
        lines.append(f'match {call} with None => false | Some r_ => close_list {fh(tol)} '
                     f'[rx r_; ry r_; rz r_; rL r_; rM r_; rN r_] {vlib.flist(rec[:6])} end')
    return lines


IMPORTS = 'From OV Require Import Model.Trace Model.Paraxial Gen.Wavefront Model.M_C09.'


def run_cases_fresh(tag, bodies):
    """vlib.run_cases; when a concurrent check rebuilt a shared library under our feet (coqc reports
    'inconsistent assumptions'), rebuild our model under the lock and try once more"""
    res = vlib.run_cases(tag, IMPORTS, bodies)
    if any(r[0] == 'error' and 'inconsistent assumptions' in r[1] for r in res):
        with vlib.Lock():
            vlib.coq_make(['Model/M_C09.vo', 'Num/FloatInst.vo'])
        res = vlib.run_cases(tag, IMPORTS, bodies)
    return res


def run_model(cases, tol=1e-7, tag='C09wf', rays_per_file=160):
    """returns (per-case ok flags for field_data, per-case ok flags for the launch, n evaluations)"""
    bodies, index = [], []
    cur, cur_idx, cur_n = [], [], 0

    def flush():
        nonlocal cur, cur_idx, cur_n
        if cur:
            defs = '\n'.join(d for d, _ in cur)
            lines = [ln for _, ls in cur for ln in ls]
            bodies.append(defs + '\nEval vm_compute in (report [\n' + ';\n'.join(lines) + '\n]).\n')
            index.append(cur_idx)
        cur, cur_idx, cur_n = [], [], 0
    for ci, c in enumerate(cases):
        lines = [coq_case_check(ci, c, tol)] + coq_launch_check(ci, c)
        cur.append((coq_case_defs(ci, c), lines))
        cur_idx.extend([(ci, 'data')] + [(ci, 'launch')] * (len(lines) - 1))
        cur_n += len(c['dist']) + 1
        if cur_n >= rays_per_file:
            flush()
    flush()
    res = run_cases_fresh(tag, bodies)
    ok_data = [True] * len(cases)
    ok_launch = [True] * len(cases)
    n = 0
    for keys, r in zip(index, res):
        if r[0] == 'error':
            raise RuntimeError(r[1])
        n += r[0]
        if r[1] > len(r[2]):
            for ci, _ in keys:
                ok_data[ci] = False
        for i in r[2]:
            ci, what = keys[i]
            if what == 'data':
                ok_data[ci] = False
            else:
                ok_launch[ci] = False
    return ok_data, ok_launch, n


# --------------------------------------------------------------------------
# the OPD-difference operand on ITS documented samples (Gaussian quadrature, Forbes 1988)
# --------------------------------------------------------------------------
# radii / weights as documented (tabulated to 5 digits); gq_table_deviation() ties them to Gauss-Legendre
GQ_RADII = {1: [0.70711], 2: [0.45970, 0.88807], 3: [0.33571, 0.70711, 0.94196], 4: [0.26350, 0.57446, 0.81853, 0.96466],
            5: [0.21659, 0.48038, 0.70711, 0.87706, 0.97626], 6: [0.18375, 0.41158, 0.61700, 0.78696, 0.91138, 0.98300]}
GQ_WEIGHTS = {1: [0.5], 2: [0.25, 0.25], 3: [0.13889, 0.22222, 0.13889], 4: [0.08696, 0.16304, 0.16304, 0.08696],
              5: [0.059231, 0.11966, 0.14222, 0.11966, 0.059231], 6: [0.04283, 0.09019, 0.11698, 0.11698, 0.09019, 0.04283]}


def gq_table_deviation():
    """largest distance of the tabulated radii / weights from r_i = sqrt((1 + t_i)/2), w_i = g_i/4 with (t_i, g_i) the
    Gauss-Legendre nodes / weights on [-1, 1] (the rule the documentation cites); the table is rounded to 5 digits"""
    dev = 0.0
    for n in GQ_RADII:
        t, g = np.polynomial.legendre.leggauss(n)
        dev = max(dev, float(np.max(np.abs(np.sqrt((1 + t) / 2) - GQ_RADII[n]))), float(np.max(np.abs(g / 4 - GQ_WEIGHTS[n]))))
    return dev


def gq_documented(rings, on_axis):
    """pupil points and per-sample weights the operand documents: `rings` radii on one arm (theta = 0) for the axial
    field, on three arms (theta = -60, 0, +60 degrees) otherwise, ring-major.  Forbes' rule has six arms: the single arm of
    the rotationally symmetric case stands for all six (weight 6 w_ring), each of the three arms of the half pupil for
    itself and its mirror image in the y axis (weight 2 w_ring); the weights of all samples add up to 3 either way"""
    arms = [0.0] if on_axis else [-math.pi / 3, 0.0, math.pi / 3]
    mult = 6.0 / len(arms)
    xs, ys, ws = [], [], []
    for r, wt in zip(GQ_RADII[rings], GQ_WEIGHTS[rings]):
        for th in arms:
            xs.append(r * math.cos(th))
            ys.append(r * math.sin(th))
            ws.append(mult * wt)
    return xs, ys, ws


def mean_abs_dev(opd, weights):
    """mean over ALL samples of |w_i (d_i - mean d)|: not a number as soon as one sample has no OPD"""
    n = len(opd)
    m = sum(opd) / n
    return sum(abs(w_ * (d - m)) for d, w_ in zip(opd, weights)) / n


def operand_corpus():
    """fixed lenses (independent of any random stream) for the operand check: beams that pass entirely, and beams whose
    OUTERMOST Gaussian-quadrature ring (only) does not reach the image: (a) it passes outside a strongly curved front
    surface (ring radius * EPD/2 > |R|), (b) it is totally reflected at a steep glass-air surface (height > |R|/n).
    The aperture is derived from the documented ring radii so that ring k fails and ring k-1 does not.
    Each entry: (spec, rings to ask for, class label)"""
    inf = float('inf')
    out = []

    def lens(name, surfaces, epd, field=3.0, obj=inf, w=0.55):
        return {'name': name, 'object_thickness': obj, 'aperture': ['EPD', epd],
                'field_type': 'angle' if math.isinf(obj) else 'object_height',
                'fields': [[0.0, 0.0, 0.0, 0.0], [field, 0.0, 0.0, 0.0]], 'wavelengths': [[w, True]], 'telecentric': False,
                'surfaces': surfaces}
    bk7 = ['glass', 'N-BK7', 'schott']
    for rings in (1, 3, 6):
        out.append((lens('healthy-biconvex', [
            {'type': 'standard', 'radius': 40.0, 'thickness': 6.0, 'material': bk7, 'is_stop': True},
            {'type': 'standard', 'radius': -60.0, 'thickness': 45.0, 'material': 'air'}], 16.0, field=6.0), rings, 'all-arrive'))
    out.append((lens('healthy-finite-object', [
        {'type': 'standard', 'radius': 50.0, 'thickness': 5.0, 'material': ['ideal', 1.6, 0.0], 'is_stop': True},
        {'type': 'standard', 'radius': -50.0, 'thickness': 90.0, 'material': 'air'}], 8.0, field=6.0, obj=150.0), 4, 'all-arrive'))
    # (a) the outer ring is wider than the front surface
    for rings, R in ((2, 22.0), (3, 35.0), (4, 28.0), (5, 40.0), (6, 30.0)):
        rr = GQ_RADII[rings]
        half = R / math.sqrt(rr[-1] * rr[-2])          # rr[-2]*half < R < rr[-1]*half
        out.append((lens(f'outer-ring-misses-front-surface-{rings}', [
            {'type': 'standard', 'radius': R, 'thickness': 1.2 * R, 'material': bk7, 'is_stop': True},
            {'type': 'standard', 'radius': -12.0 * R, 'thickness': 1.3 * R, 'material': 'air'}], 2 * half, field=2.0),
            rings, 'outer-ring-misses-a-surface'))
    # (b) the outer ring meets the curved back surface beyond the critical angle
    for rings, R, n in ((3, 20.0, 1.7), (5, 26.0, 1.6), (6, 18.0, 1.8)):
        rr = GQ_RADII[rings]
        half = (R / n) / math.sqrt(rr[-1] * rr[-2])
        out.append((lens(f'outer-ring-totally-reflected-{rings}', [
            {'type': 'standard', 'radius': inf, 'thickness': 0.75 * R, 'material': ['ideal', n, 0.0], 'is_stop': True},
            {'type': 'standard', 'radius': -R, 'thickness': 1.1 * R, 'material': 'air'}], 2 * half, field=1.0),
            rings, 'outer-ring-totally-reflected'))
    # finite object, height field: the cone of the outer ring is wider than the front surface
    rr = GQ_RADII[4]
    out.append((lens('outer-ring-misses-finite-object', [
        {'type': 'standard', 'radius': 25.0, 'thickness': 30.0, 'material': bk7, 'is_stop': True},
        {'type': 'standard', 'radius': -300.0, 'thickness': 60.0, 'material': 'air'}], 2 * 25.0 / math.sqrt(rr[-1] * rr[-2]),
        field=2.0, obj=400.0), 4, 'outer-ring-misses-a-surface'))
    return out


def operand_case(spec, optic, H, w, rings):
    """RayOperand.OPD_difference(optic, H, rings, w) against the property's quantity on the documented samples:
    the documented points are traced (chief alone + batch), the OPD of every sample is recomputed from the recorded
    ray data by the oracle (a ray that does not arrive has none: NaN), and reduced with the documented weights.
    Returns (record, witness or None)"""
    from optiland.wavefront import Wavefront
    from optiland.optimization.operand.ray import RayOperand
    H = (float(H[0]), float(H[1]))
    xs, ys, ws = gq_documented(rings, on_axis=(H == (0.0, 0.0)))
    od = float(RayOperand.OPD_difference(optic, H[0], H[1], rings, w))
    dist = make_distribution('line_y', 1)
    dist.x, dist.y = np.array(xs), np.array(ys)
    wf = Wavefront(optic, [H], [w], len(xs), dist)
    c = case_from_data(spec, optic, H, w, dist, wf.data[0][0][0], wf.data[0][0][1], dist_name='documented-gaussian-quadrature',
                       dist_n=rings)
    chief_ok = all(math.isfinite(v) for v in c['chief'][-1][:6])
    exp = expected_samples(c) if chief_ok else [float('nan')] * len(xs)
    arrived = [all(math.isfinite(v) for v in r[-1][:6]) for r in c['rays']]
    e = mean_abs_dev(exp, ws)
    tol = 1e-6 + newton_slack(c)
    rec = dict(case=c, operand=od, expected=e, failed=len(xs) - sum(arrived), samples=len(xs), chief_ok=chief_ok)
    if math.isfinite(od) and math.isfinite(e):
        ok = abs(od - e) <= tol + 1e-9 * (abs(od) + abs(e))
    else:
        ok = (not math.isfinite(od)) and (not math.isfinite(e))
    if ok:
        return rec, None
    surv = [d for d, a in zip(exp, arrived) if a and math.isfinite(d)]
    wit = {'spec': spec, 'H': list(H), 'wavelength': float(w), 'rings': rings, 'samples': len(xs),
           'samples_whose_ray_does_not_reach_the_image': [{'index': i, 'pupil': [xs[i], ys[i]], 'weight': ws[i]}
                                                          for i, a in enumerate(arrived) if not a][:6],
           'operand_reported': od, 'expected_on_documented_samples': e,
           'expected_opd_waves': exp[:18], 'weights': ws[:18],
           'derived': 'RayOperand.OPD_difference is not mean|w (OPD - mean OPD)| of the path difference evaluated on its documented '
                      'Gaussian-quadrature samples and weights',
           'explained_by': None, 'violates_property': True}
    if surv and len(surv) < len(xs) and math.isfinite(od):
        ws_s = [w_ for w_, d, a in zip(ws, exp, arrived) if a and math.isfinite(d)]
        wit['value_on_the_surviving_samples_only'] = mean_abs_dev(surv, ws_s)
    return rec, wit

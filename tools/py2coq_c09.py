"""py2coq extension for property C09 (optiland/wavefront.py, analysis/rms_vs_field.py).
Used through `kclass=C09Kernel` in tools/kernels_C09.py; the Coq side of the new primitives is
coq/Num/OpsC09.v.  Everything not listed falls through to the base translator (fail closed).

  recorded ray data  `self.optic.surface_group.x[-1, :]`
      the attribute is declared kind 'list' = the column of ONE ray over the recorded surfaces
      (per-ray scalar semantics of the (surfaces, rays) array); `[k, :]` reads row k  ->  getZ col k
  `<recorded row>.size`      the number of rays of the batch: an int input named `nrays`
  a parameter declared kind 'pair' (`field`): the tuple of its two components `field.0`, `field.1`
  a parameter declared None in `static` that is merged at an `if`: the placeholder nan_ (never read,
      every use is behind the statically decided `is None` test); it does not become an input
  wavefront data  `self.data[i][j][0]`   `self.data` is declared kind 'wfdata' =
      list (fields) of list (wavelengths) of (opd list, intensity list)
  `a ** 2` on a list (elementwise square), `np.mean(list)`
  `np.zeros((n, m))` -> n x m table of zeros; `tbl[i, j] = v` -> set2Z; `return tbl` as list2
  opaque calls returning a pair (spec['opaque_pairs']): `vx, vy = self.optic.fields.get_vig_factor(Hx, Hy)`
      -> two inputs `<dotted>().0`, `<dotted>().1`
  opaque calls through a local alias of an object (`material = self.optic.image_surface.material_pre;
      material.n(w)`): looked up in spec['opaque_calls'] under the full dotted name
"""
import ast

from py2coq import Kernel, Unsupported, V, app, paren


class C09Kernel(Kernel):
    def coq_type(self, kind):
        if kind == 'wfdata':
            return 'list (list (list (T O) * list (T O)))'
        return super().coq_type(kind)

    def bind_kind_ok(self, kind):
        return kind in ('wfdata',) or super().bind_kind_ok(kind)

    # a parameter that is statically None never becomes an input
    def get_input(self, dotted):
        if '.' not in dotted and self.spec.get('static', {}).get(dotted) == 'none' \
                and dotted in getattr(self, 'params', ()):
            return V('num', 'nan_')
        if self.types.get(dotted) == 'pair':
            return V('tuple', items=[super().get_input(dotted + '.0'), super().get_input(dotted + '.1')])
        return super().get_input(dotted)

    def expr(self, node, env):
        # <row of recorded data>.size
        if isinstance(node, ast.Attribute) and node.attr == 'size' and isinstance(node.value, ast.Subscript):
            row = self.expr(node.value, env)
            if row.kind == 'num':
                self.types.setdefault('nrays', 'int')
                return super().get_input('nrays')
            raise Unsupported('.size of ' + row.kind)
        if isinstance(node, ast.BinOp) and isinstance(node.op, ast.Pow):
            a = self.expr(node.left, env)
            if a.kind == 'list' and isinstance(node.right, ast.Constant) and node.right.value == 2:
                return V('list', app('sq_list', a.coq))
        return super().expr(node, env)

    def subscript(self, node, env):
        sl = node.slice
        if isinstance(sl, ast.Tuple) and len(sl.elts) == 2 and isinstance(sl.elts[1], ast.Slice) \
                and sl.elts[1].lower is None and sl.elts[1].upper is None and sl.elts[1].step is None:
            base = self.expr(node.value, env)
            if base.kind == 'list':
                i = self.expr(sl.elts[0], env)
                if i.kind == 'int':
                    return V('num', app('getZ', base.coq, i.coq))
        base = None
        try:
            base = self.expr(node.value, env)
        except Unsupported:
            base = None
        if base is not None and base.kind in ('wfdata', 'wfrow', 'wfcell'):
            i = self.expr(sl, env)
            if i.kind != 'int':
                raise Unsupported('wavefront data index of kind ' + i.kind)
            if base.kind == 'wfdata':
                return V('wfrow', app('wf_row', base.coq, i.coq))
            if base.kind == 'wfrow':
                return V('wfcell', app('wf_cell', base.coq, i.coq))
            if isinstance(sl, ast.Constant) and sl.value in (0, 1):
                return V('list', app('fst' if sl.value == 0 else 'snd', base.coq))
            raise Unsupported('component of a (opd, intensity) pair must be the literal 0 or 1')
        return super().subscript(node, env)

    def call(self, node, env):
        dotted = self.dotted_of(node.func)
        if dotted in self.spec.get('opaque_pairs', ()):
            return V('tuple', items=[super().get_input(dotted + '().0'), super().get_input(dotted + '().1')])
        if dotted and '.' in dotted:
            parts = dotted.split('.')
            for n in range(len(parts) - 1, 0, -1):
                pre = '.'.join(parts[:n])
                if pre in env and env[pre].kind == 'obj' and env[pre].path != pre:
                    full = env[pre].path + '.' + '.'.join(parts[n:])
                    if full in self.spec.get('opaque_calls', {}):
                        key = full + '()'
                        self.types.setdefault(key, self.spec['opaque_calls'][full])
                        return super().get_input(key)
        if dotted in ('np.mean', 'numpy.mean') and len(node.args) == 1 and not node.keywords:
            v = self.expr(node.args[0], env)
            if v.kind == 'list':
                return V('num', app('mean_list', v.coq))
            raise Unsupported('np.mean of ' + v.kind)
        if dotted in ('np.zeros', 'numpy.zeros') and len(node.args) == 1 and isinstance(node.args[0], ast.Tuple) \
                and len(node.args[0].elts) == 2 and not node.keywords:
            n = self.expr(node.args[0].elts[0], env)
            m = self.expr(node.args[0].elts[1], env)
            if n.kind == 'int' and m.kind == 'int':
                return V('list2', app('zeros2', n.coq, m.coq))
            raise Unsupported('np.zeros shape')
        return super().call(node, env)

    def assign(self, target, v, env):
        if isinstance(target, ast.Subscript) and isinstance(target.slice, ast.Tuple) and len(target.slice.elts) == 2:
            d = self.dotted_of(target.value)
            if d is not None:
                old = self.load_name(d, env)
                i = self.expr(target.slice.elts[0], env)
                j = self.expr(target.slice.elts[1], env)
                if old.kind == 'list2' and i.kind == 'int' and j.kind == 'int':
                    env = dict(env)
                    env[d] = self.bind(d, V('list2', app('set2Z', old.coq, i.coq, j.coq, self.to_num(v))))
                    return env
        return super().assign(target, v, env)

"""Paraxial kernels (C04, C01, C08)."""
SS = 'optiland/surfaces/standard_surface.py'
CS = 'optiland/coordinate_system.py'
PR = 'optiland/rays/paraxial_rays.py'
GB = 'optiland/geometries/base.py'

from py2coq_c04 import LaunchKernel
PX = 'optiland/paraxial.py'

MODULE_DEPS = {'Paraxial': ['RealRays']}
MODULES = {
    'Paraxial': [
        dict(name='px_propagate', file=PR, cls='ParaxialRays', func='propagate', outputs=['self.z', 'self.y']),
        dict(name='px_rot_x', file=PR, cls='ParaxialRays', func='rotate_x'),
        dict(name='px_rot_y', file=PR, cls='ParaxialRays', func='rotate_y'),
        dict(name='px_rot_z', file=PR, cls='ParaxialRays', func='rotate_z'),
        dict(name='cs_localize_px', file=CS, cls='CoordinateSystem', func='localize', types={'rays': 'obj'},
             static={'self.reference_cs': 'none'},
             calls={'rays.translate': 'translate', 'rays.rotate_x': 'px_rot_x', 'rays.rotate_y': 'px_rot_y',
                    'rays.rotate_z': 'px_rot_z'},
             outputs=['rays.x', 'rays.y', 'rays.z']),
        dict(name='cs_globalize_px', file=CS, cls='CoordinateSystem', func='globalize', types={'rays': 'obj'},
             static={'self.reference_cs': 'none'},
             calls={'rays.translate': 'translate', 'rays.rotate_x': 'px_rot_x', 'rays.rotate_y': 'px_rot_y',
                    'rays.rotate_z': 'px_rot_z'},
             outputs=['rays.x', 'rays.y', 'rays.z']),
        dict(name='geom_localize_px', file=GB, cls='BaseGeometry', func='localize', types={'rays': 'obj'},
             calls={'self.cs.localize': 'cs_localize_px'}, outputs=['rays.x', 'rays.y', 'rays.z']),
        dict(name='geom_globalize_px', file=GB, cls='BaseGeometry', func='globalize', types={'rays': 'obj'},
             calls={'self.cs.globalize': 'cs_globalize_px'}, outputs=['rays.x', 'rays.y', 'rays.z']),
        dict(name='surf_trace_paraxial', file=SS, cls='Surface', func='_trace_paraxial', types={'rays': 'obj', 'self.is_reflective': 'bool'},
             calls={'self.geometry.localize': 'geom_localize_px', 'self.geometry.globalize': 'geom_globalize_px',
                    'rays.propagate': 'px_propagate'},
             opaque_calls={'self.material_pre.n': 'num', 'self.material_post.n': 'num'},
             ignore_calls=['self.reset', 'self._record'],
             outputs=['rays.y', 'rays.u', 'rays.z', 'rays.x']),
    ],
    # the LAUNCH of the marginal ray as Paraxial.marginal_ray computes it (height, slope, start plane, wavelength =
    # the arguments of its final `return self._trace_generic(...)`); EPD() and EPL() are inputs
    'ParaxLaunch': [
        dict(name='px_marginal_launch', file=PX, cls='Paraxial', func='marginal_ray', kclass=LaunchKernel,
             types={'self.optic.object_surface.is_infinite': 'bool', 'self.surfaces.positions': 'list'},
             opaque_calls={'self.EPD': 'num', 'self.EPL': 'num'},
             return_args_of=['self._trace_generic']),
    ],
}

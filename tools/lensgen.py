"""Seeded generator of lens prescriptions (JSON-able specs), builder through optiland's public
API, and extraction of the prescription data the Coq models take as input."""
import math
import random

INF = float('inf')

GLASSES = ['N-BK7', 'N-SF11', 'N-F2', 'N-LAK9', 'SF6', 'N-SK16', 'F2', 'N-BAF10', 'N-SF5']


def gen_spec(rng, nsurf=None, allow=None, finite_object=None, mirrors=None, decenter=None):
    """random prescription.  allow: set of surface types."""
    allow = allow or ['plane', 'standard', 'conic', 'even_asphere', 'polynomial', 'chebyshev']
    n = nsurf or rng.choice([1, 2, 2, 3, 3, 4, 4, 5, 6, 8, 10, 12])
    finite = rng.random() < 0.4 if finite_object is None else finite_object
    use_mirror = (rng.random() < 0.15) if mirrors is None else mirrors
    use_dec = (rng.random() < 0.25) if decenter is None else decenter
    epd = rng.uniform(3.0, 9.0)
    surfs = []
    in_glass = False
    stop_at = rng.randrange(n)
    for i in range(n):
        ty = rng.choices(['plane', 'standard', 'conic', 'even_asphere', 'polynomial', 'chebyshev'],
                         weights=[20, 30, 20, 15, 8, 7])[0]
        if ty not in allow:
            ty = 'standard' if 'standard' in allow else allow[0]
        s = {'type': 'standard', 'thickness': rng.uniform(1.5, 9.0), 'is_stop': i == stop_at}
        R = rng.uniform(25.0, 180.0) * rng.choice([-1, 1])
        if ty == 'plane':
            s['radius'] = INF
        elif ty == 'standard':
            s['radius'] = R
        elif ty == 'conic':
            s['radius'] = R
            s['conic'] = rng.choice([-1.0, rng.uniform(-2.5, 1.0), rng.uniform(-0.8, 0.4)])
        elif ty == 'even_asphere':
            s['type'] = 'even_asphere'
            s['radius'] = R
            s['conic'] = rng.choice([0.0, rng.uniform(-1.5, 0.5)])
            s['coefficients'] = [rng.uniform(-1, 1) * 10 ** (-4 - 2 * j) for j in range(rng.choice([1, 2, 3]))]
        elif ty == 'polynomial':
            s['type'] = 'polynomial'
            s['radius'] = R
            s['conic'] = rng.choice([0.0, rng.uniform(-1.0, 0.3)])
            nr, nc = rng.choice([(2, 2), (3, 2), (3, 3)])
            s['coefficients'] = [[rng.uniform(-1, 1) * 10 ** (-3 - (a + b)) if a + b > 0 else 0.0
                                  for b in range(nc)] for a in range(nr)]
        elif ty == 'chebyshev':
            s['type'] = 'chebyshev'
            s['radius'] = R
            s['conic'] = rng.choice([0.0, rng.uniform(-1.0, 0.3)])
            nr, nc = rng.choice([(2, 2), (3, 2), (3, 3)])
            s['coefficients'] = [[rng.uniform(-1, 1) * 10 ** (-2 - (a + b)) if a + b > 0 else 0.0
                                  for b in range(nc)] for a in range(nr)]
            s['norm_x'] = rng.choice([1.0, 1.0]) * rng.uniform(30, 60)
            s['norm_y'] = rng.uniform(30, 60)
        # medium after the surface
        if use_mirror and i > 0 and rng.random() < 0.3 and (not in_glass or rng.random() < 0.4):
            s['material'] = 'mirror'       # (inside glass: a second-surface / Mangin mirror)
        elif in_glass:
            s['material'] = 'air'
            in_glass = False
            s['thickness'] = rng.uniform(2.0, 14.0)
        else:
            if i < n - 1 and rng.random() < 0.75:
                r = rng.random()
                if r < 0.3:
                    s['material'] = ['glass', rng.choice(GLASSES), 'schott']
                elif r < 0.9:
                    s['material'] = ['ideal', rng.uniform(1.35, 1.95), 0.0]
                else:
                    s['material'] = ['ideal', rng.uniform(1.35, 1.95), rng.uniform(0, 2e-6)]
                in_glass = True
            else:
                s['material'] = 'air'
        if use_dec and rng.random() < 0.4:
            s['dx'] = rng.uniform(-0.3, 0.3)
            s['dy'] = rng.uniform(-0.3, 0.3)
            s['rx'] = rng.uniform(-0.03, 0.03)
            s['ry'] = rng.uniform(-0.03, 0.03)
        if rng.random() < 0.15:
            rmax = epd * rng.uniform(0.35, 1.2)
            s['aperture'] = [rmax, rng.choice([0.0, 0.0, rmax * rng.uniform(0.05, 0.3)])]
        if rng.random() < 0.12:
            s['coating'] = [rng.uniform(0.5, 1.0), rng.uniform(0.0, 0.4)]
        surfs.append(s)
    # mirrors flip the propagation direction: thickness sign follows the number of mirrors so far
    sign = 1
    for s in surfs:
        if s['material'] == 'mirror':
            sign = -sign
        s['thickness'] = sign * abs(s['thickness'])
    if in_glass and rng.random() < 0.85:
        surfs[-1]['material'] = 'air'      # (15 %: the image lies inside the last medium - cover slip / immersion)
    surfs[-1]['thickness'] = sign * rng.uniform(20.0, 80.0)
    spec = {
        'object_thickness': (rng.uniform(40.0, 400.0) if finite else INF),
        'surfaces': surfs,
        'aperture': ['EPD', epd],
        'field_type': 'object_height' if (finite and rng.random() < 0.6) else 'angle',
        'fields': [[0.0, 0.0, 0.0, 0.0]],
        'wavelengths': [[rng.choice([0.4861, 0.5876, 0.6563, 0.55, 0.7]), True]],
        'telecentric': False,
    }
    apx = rng.random()
    if apx < 0.2:
        spec['aperture'] = ['imageFNO', rng.uniform(3.0, 10.0)]
    elif apx < 0.35 and finite:
        spec['aperture'] = ['objectNA', rng.uniform(0.01, 0.06)]
    maxf = rng.uniform(1.0, 8.0) if spec['field_type'] == 'angle' else rng.uniform(1.0, 8.0)
    nf = rng.choice([1, 2, 3])
    spec['fields'] = [[maxf * j / max(1, nf - 1) if nf > 1 else 0.0, 0.0, 0.0, 0.0] for j in range(nf)]
    if nf > 1 and rng.random() < 0.2:
        for f in spec['fields'][1:]:
            f[2] = rng.uniform(0, 0.3)
            f[3] = rng.uniform(0, 0.3)
    nw = rng.choice([1, 1, 2, 3])
    if nw > 1:
        ws = sorted(rng.sample([0.45, 0.4861, 0.5, 0.55, 0.5876, 0.62, 0.6563, 0.7], nw))
        pi = rng.randrange(nw)
        spec['wavelengths'] = [[w, j == pi] for j, w in enumerate(ws)]
    return spec


def immerse(spec, rng):
    """object and/or image space in a medium other than air (immersion objective, eye model): object-space index on
    surface 0, image-space index carried by the last lens surface AND the image surface.  Separate from gen_spec so
    that the random streams of the other checks do not change."""
    r = rng.random()
    if r < 0.6:
        spec['object_material'] = ['ideal', rng.uniform(1.2, 1.7), 0.0]
    if r > 0.4:
        last = spec['surfaces'][-1]
        if last.get('material') != 'mirror':
            n = rng.uniform(1.2, 1.7)
            last['material'] = ['ideal', n, 0.0]
            spec['image_material'] = ['ideal', n, 0.0]
    return spec


def cement(spec, rng):
    """turn air gaps behind glass into cemented interfaces (glass-glass, both sides dispersive): gen_spec always
    returns to air after a glass"""
    ss = spec['surfaces']
    n = 0
    for i in range(len(ss) - 2):
        a, b = ss[i].get('material'), ss[i + 1].get('material')
        if isinstance(a, list) and b == 'air' and ss[i + 2].get('material') != 'mirror' and rng.random() < 0.7:
            others = [g for g in GLASSES if not (a[0] == 'glass' and g == a[1])]
            ss[i + 1]['material'] = ['glass', rng.choice(others), 'schott']
            ss[i + 1]['thickness'] = math.copysign(rng.uniform(1.5, 6.0), ss[i + 1]['thickness'])
            if isinstance(ss[i + 2].get('material'), list):
                ss[i + 2]['material'] = 'air'
            n += 1
    return n


def reorder_fields(spec, rng):
    """list the field points in another order (largest first, or shuffled): the maximum field is a property of the set"""
    f = list(spec['fields'])
    if len(f) > 1:
        if rng.random() < 0.5:
            f.reverse()
        else:
            rng.shuffle(f)
        if f == spec['fields']:
            f.reverse()
    spec['fields'] = f
    return spec


def simple_spec(rng, n=None):
    """axially symmetric refracting lens of planes/spheres/conics with ideal or catalogue media"""
    return gen_spec(rng, nsurf=n, allow=['plane', 'standard', 'conic'], mirrors=False, decenter=False)


def spec_after_edits(spec, edits):
    """the prescription a history of public setter calls [(kind, surface, value)] should leave behind"""
    import copy
    sp = copy.deepcopy(spec)
    for k, si, v in edits:
        sf = sp['surfaces'][si - 1]
        if k == 'index':
            sf['material'] = ['ideal', float(v), 0.0]
        elif k == 'radius':
            sf['radius'] = float(v)
        elif k == 'thickness':
            sf['thickness'] = float(v)
        elif k == 'conic':
            sf['conic'] = float(v)
    return sp


def prescription_problems(spec, optic, wavelength=None, edits=()):
    """Is the lens object the prescription that was entered (after the recorded setter calls)?  Independent of how
    the object was reached: vertex positions = running sums of the thicknesses, media continuous from one surface to
    the next and equal to the entered index at the wavelength, radii and conics as entered.  Returns oracle entries."""
    import numpy as np
    sp = spec_after_edits(spec, edits) if edits else spec
    w = wavelength if wavelength is not None else optic.primary_wavelength
    ss = optic.surface_group.surfaces
    bad = []
    n_spec = len(sp['surfaces'])
    if len(ss) != n_spec + 2:
        return [{'kind': 'prescription', 'quantity': 'surface count', 'implementation': len(ss), 'entered': n_spec + 2}]

    def nval(m):
        return float(np.ravel(m.n(w))[0])

    def close(a, b):
        return (math.isinf(a) and math.isinf(b)) or abs(a - b) <= 1e-9 * (1 + abs(a) + abs(b))
    # vertex positions (surfaces without an explicit decentre in z)
    z = 0.0
    for i, sf in enumerate(sp['surfaces']):
        got = float(np.ravel(ss[i + 1].geometry.cs.z)[0])
        if not close(got, z):
            bad.append({'kind': 'prescription', 'quantity': f'vertex z of surface {i + 1}', 'implementation': got, 'entered': z})
            break
        z += float(sf['thickness'])
    if not bad:
        got = float(np.ravel(ss[-1].geometry.cs.z)[0])
        if not close(got, z):
            bad.append({'kind': 'prescription', 'quantity': 'vertex z of the image surface', 'implementation': got, 'entered': z})
    # media: entered index behind every surface, and the same medium in front of the next surface
    prev = float(sp['object_material'][1]) if sp.get('object_material') else 1.0
    if not close(nval(ss[0].material_post), prev):
        bad.append({'kind': 'prescription', 'quantity': 'index of the object space', 'implementation': nval(ss[0].material_post), 'entered': prev})
    for i, sf in enumerate(sp['surfaces']):
        m = sf.get('material', 'air')
        if m == 'mirror':
            exp = prev
        elif m == 'air':
            exp = 1.0
        elif m[0] == 'ideal':
            exp = float(m[1])
        else:
            from optiland.materials import Material
            exp = float(np.ravel((Material(m[1]) if len(m) == 2 else Material(m[1], m[2])).n(w))[0])
        pre, post = nval(ss[i + 1].material_pre), nval(ss[i + 1].material_post)
        if not close(pre, prev):
            bad.append({'kind': 'prescription', 'quantity': f'index in FRONT of surface {i + 1} (= behind surface {i})', 'implementation': pre, 'entered': prev})
        if not close(post, exp):
            bad.append({'kind': 'prescription', 'quantity': f'index behind surface {i + 1}', 'implementation': post, 'entered': exp})
        prev = exp
    pre = nval(ss[-1].material_pre)
    if not close(pre, prev):
        bad.append({'kind': 'prescription', 'quantity': 'index in front of the image surface (= behind the last surface)', 'implementation': pre, 'entered': prev})
    # radii and conics
    for i, sf in enumerate(sp['surfaces']):
        g = ss[i + 1].geometry
        R = float(sf.get('radius', INF))
        got = float(getattr(g, 'radius', INF))
        if not close(got, R):
            bad.append({'kind': 'prescription', 'quantity': f'radius of surface {i + 1}', 'implementation': got, 'entered': R})
        if 'conic' in sf and not math.isinf(R) and hasattr(g, 'k') and not close(float(g.k), float(sf['conic'])):
            bad.append({'kind': 'prescription', 'quantity': f'conic of surface {i + 1}', 'implementation': float(g.k), 'entered': float(sf['conic'])})
    return bad[:4]


def build_via(spec, mode, rng):
    """the same prescription reached through another public route:
    'reuse'     - an Optic object that held a DIFFERENT lens before, emptied with reset() and filled again;
    'roundtrip' - built, converted with to_dict() and restored with Optic.from_dict();
    anything else - built directly"""
    from optiland.optic import Optic
    if mode == 'reuse':
        other = gen_spec(rng, nsurf=len(spec['surfaces']), allow=['plane', 'standard'], mirrors=False, decenter=False)
        o = build(other)
        try:
            o.paraxial.f2(); o.paraxial.EPL()       # the helpers have been used on the old lens
        except Exception:   # noqa
            pass
        o.reset()
        return build(spec, optic=o)
    if mode == 'handbuilt':
        # some surfaces enter as ready-made Surface objects (add_surface(new_surface=...)), the rest from keywords
        import copy
        tmp = build(spec)
        n = len(spec['surfaces'])
        picks = set(rng.sample(range(1, n + 1), rng.choice([1, 1, 2]) if n > 1 else 1))
        return build(spec, handbuilt={k: copy.deepcopy(tmp.surface_group.surfaces[k]) for k in picks})
    o = build(spec)
    if mode == 'roundtrip':
        o = Optic.from_dict(o.to_dict())
    return o


def build(spec, optic=None, handbuilt=None):
    import numpy as np
    from optiland.optic import Optic
    from optiland.materials import IdealMaterial, Material
    from optiland.physical_apertures import RadialAperture
    from optiland.coatings import SimpleCoating
    o = Optic() if optic is None else optic
    okw = {}
    if spec.get('object_material'):      # ['ideal', n, k]: object-space medium (C09)
        okw['material'] = IdealMaterial(n=spec['object_material'][1], k=spec['object_material'][2])
    o.add_surface(index=0, radius=np.inf, thickness=spec['object_thickness'], **okw)
    for i, s in enumerate(spec['surfaces']):
        kw = {}
        for key in ('radius', 'conic', 'coefficients', 'norm_x', 'norm_y', 'dx', 'dy', 'rx', 'ry', 'tol', 'max_iter'):
            if key in s:
                kw[key] = s[key]
        if 'radius' not in kw:
            kw['radius'] = np.inf
        m = s.get('material', 'air')
        if isinstance(m, list):
            if m[0] == 'ideal':
                m = IdealMaterial(n=m[1], k=m[2])
            elif m[0] == 'glass':
                m = Material(m[1]) if len(m) == 2 else Material(m[1], m[2])
        if s.get('aperture'):
            kw['aperture'] = RadialAperture(r_max=s['aperture'][0], r_min=s['aperture'][1])
        if s.get('coating'):
            kw['coating'] = SimpleCoating(s['coating'][0], s['coating'][1])
        if handbuilt and (i + 1) in handbuilt:
            o.add_surface(new_surface=handbuilt[i + 1], index=i + 1, thickness=s['thickness'])
            continue
        o.add_surface(index=i + 1, surface_type=s.get('type', 'standard'), thickness=s['thickness'],
                      material=m, is_stop=bool(s.get('is_stop')), **kw)
    ikw = {}
    if spec.get('image_radius'):          # curved image surface (C09: the chief ray does not land in the vertex plane)
        ikw['radius'] = spec['image_radius']
    if spec.get('image_material'):        # ['ideal', n, k]: the image surface carries the image-space medium (immersion / eye model)
        ikw['material'] = IdealMaterial(n=spec['image_material'][1], k=spec['image_material'][2])
    if spec.get('image_object'):
        # the image surface enters as an explicit ImageSurface object (the class the library provides for it)
        from optiland.surfaces.image_surface import ImageSurface
        from optiland.geometries import Plane
        from optiland.coordinate_system import CoordinateSystem
        zimg = float(sum(s_['thickness'] for s_ in spec['surfaces']))
        last = o.surface_group.surfaces[-1]
        o.add_surface(new_surface=ImageSurface(Plane(CoordinateSystem(0.0, 0.0, zimg)), last.material_post),
                      index=len(spec['surfaces']) + 1)
    else:
        o.add_surface(index=len(spec['surfaces']) + 1, **ikw)
    o.set_aperture(spec['aperture'][0], spec['aperture'][1])
    o.set_field_type(spec['field_type'])
    for f in spec['fields']:
        o.add_field(y=f[0], x=f[1], vx=f[2], vy=f[3])
    for w, prim in spec['wavelengths']:
        o.add_wavelength(w, is_primary=prim)
    o.obj_space_telecentric = bool(spec.get('telecentric'))
    return o


def shape_of(geom):
    """geometry object -> tagged tuple for the Coq model"""
    import numpy as np
    name = type(geom).__name__
    if name == 'Plane':
        return ('plane',)
    if name == 'StandardGeometry':
        return ('std', float(geom.radius), float(geom.k))
    if name == 'EvenAsphere':
        return ('even', float(geom.radius), float(geom.k), [float(c) for c in geom.c], float(geom.tol), int(geom.max_iter))
    if name == 'PolynomialGeometry':
        return ('poly', float(geom.radius), float(geom.k), [[float(c) for c in r] for r in np.atleast_2d(geom.c)],
                float(geom.tol), int(geom.max_iter))
    if name == 'ChebyshevPolynomialGeometry':
        return ('cheb', float(geom.radius), float(geom.k), [[float(c) for c in r] for r in np.atleast_2d(geom.c)],
                float(geom.tol), int(geom.max_iter), float(geom.norm_x), float(geom.norm_y))
    raise ValueError(name)


def model_surfaces(optic, wavelength):
    """prescription data of every surface after the object, as the trace model reads it"""
    import numpy as np
    out = []
    for s in optic.surface_group.surfaces[1:]:
        cs = s.geometry.cs
        n1 = float(np.ravel(s.material_pre.n(wavelength))[0])
        n2 = float(np.ravel(s.material_post.n(wavelength))[0])
        k1 = float(np.ravel(s.material_pre.k(wavelength))[0])
        ap = None
        if s.aperture is not None:
            ap = (float(s.aperture.r_max), float(s.aperture.r_min))
        coat = None
        if s.coating is not None and type(s.coating).__name__ == 'SimpleCoating':
            coat = (float(s.coating.transmittance), float(s.coating.reflectance))
        out.append({'x': float(cs.x), 'y': float(cs.y), 'z': float(cs.z), 'rx': float(cs.rx), 'ry': float(cs.ry),
                    'rz': float(cs.rz), 'shape': shape_of(s.geometry), 'n1': n1, 'n2': n2, 'k1': k1,
                    'refl': bool(s.is_reflective), 'aper': ap, 'coat': coat})
    return out


# ---------------- Coq rendering ----------------
def coq_shape(sh, fh):
    def fl(xs):
        return '[' + '; '.join(fh(x) for x in xs) + ']'

    def fl2(xs):
        return '[' + '; '.join(fl(r) for r in xs) + ']'
    t = sh[0]
    if t == 'plane':
        return '(SPlane (O:=FOps))'
    if t == 'std':
        return f'(SStd (O:=FOps) {fh(sh[1])} {fh(sh[2])})'
    if t == 'even':
        return f'(SEven (O:=FOps) {fh(sh[1])} {fh(sh[2])} {fl(sh[3])} {fh(sh[4])} {sh[5]}%nat)'
    if t == 'poly':
        return f'(SPoly (O:=FOps) {fh(sh[1])} {fh(sh[2])} {fl2(sh[3])} {fh(sh[4])} {sh[5]}%nat)'
    if t == 'cheb':
        return f'(SCheb (O:=FOps) {fh(sh[1])} {fh(sh[2])} {fl2(sh[3])} {fh(sh[4])} {sh[5]}%nat {fh(sh[6])} {fh(sh[7])})'
    raise ValueError(t)


def coq_surf(s, fh):
    ap = 'None' if s['aper'] is None else f'(Some ({fh(s["aper"][0])}, {fh(s["aper"][1])}))'
    co = 'None' if s['coat'] is None else f'(Some ({fh(s["coat"][0])}, {fh(s["coat"][1])}))'
    return (f'(mkSurf (O:=FOps) {fh(s["x"])} {fh(s["y"])} {fh(s["z"])} {fh(s["rx"])} {fh(s["ry"])} {fh(s["rz"])} '
            f'{coq_shape(s["shape"], fh)} {fh(s["n1"])} {fh(s["n2"])} {fh(s["k1"])} '
            f'{"true" if s["refl"] else "false"} {ap} {co})')


# ---------------- edit histories through the public API ----------------
def random_edits(optic, spec, rng, n=None, kinds=None):
    """apply 1-3 random prescription edits through Optic's public setters; returns the list of edits
    [(kind, surface, value)] so that a replay can redo them.  Only surfaces 1..N (not object/image)."""
    import numpy as np
    kinds = kinds or ['index', 'radius', 'thickness', 'conic']
    ns = len(spec['surfaces'])
    edits = []
    for _ in range(n or rng.choice([1, 2, 3])):
        k = rng.choice(kinds)
        si = rng.randrange(1, ns + 1)
        s = optic.surface_group.surfaces[si]
        if k == 'index':
            # (a medium that is followed by a mirror is left alone: set_index does not update the
            #  reflected side of that medium - reported under C01, not a paraxial/aberration matter)
            cand = [i for i in range(1, ns + 1) if not optic.surface_group.surfaces[i].is_reflective
                    and not optic.surface_group.surfaces[i + 1].is_reflective
                    and float(np.ravel(optic.surface_group.surfaces[i].material_post.n(0.55))[0]) > 1.01]
            if not cand:
                continue
            si = rng.choice(cand)
            v = rng.uniform(1.4, 1.9)
            optic.set_index(v, si)
        elif k == 'image_index':
            # the medium behind the LAST lens surface (immersed detector, model eye)
            si = ns
            if optic.surface_group.surfaces[si].is_reflective:
                continue
            v = rng.uniform(1.2, 1.7)
            optic.set_index(v, si)
            k = 'index'
        elif k == 'radius':
            v = rng.uniform(30.0, 200.0) * rng.choice([-1, 1])
            optic.set_radius(v, si)
        elif k == 'thickness':
            if si >= ns:
                continue
            old = float(np.ravel(optic.surface_group.get_thickness(si))[0])
            v = old * rng.uniform(0.6, 1.5)
            optic.set_thickness(v, si)
        elif k == 'conic':
            if not hasattr(s.geometry, 'k'):
                continue
            v = rng.uniform(-1.5, 0.5)
            optic.set_conic(v, si)
        edits.append((k, si, v))
    return edits


def apply_edits(optic, edits):
    for k, si, v in edits:
        getattr(optic, 'set_' + k)(v, si)


# ---------------- corner-case corpus (runs first in every check that traces lenses) ----------------
def rear_stop_spec(rng):
    """finite object + positive singlet + stop behind the rear focus: EPL < 0 (entrance pupil in front of surface 1).
    rng None = the fixed corpus member, otherwise a random member of the family"""
    inf = float('inf')
    u = (lambda a, b: (a + b) / 2) if rng is None else rng.uniform
    R = u(30.0, 70.0)
    n = u(1.5, 1.8)
    f = R / (2 * (n - 1))                       # thin-lens estimate
    return {'name': 'rear-stop-finite-object', 'aperture': ['EPD', u(2.0, 6.0)], 'field_type': 'object_height',
            'fields': [[0.0, 0.0, 0.0, 0.0], [u(1.0, 4.0), 0.0, 0.0, 0.0]], 'wavelengths': [[0.5876, True]],
            'telecentric': False, 'object_thickness': u(1.6, 4.0) * f,
            'surfaces': [
                {'type': 'standard', 'radius': R, 'thickness': u(2.0, 5.0), 'material': ['ideal', n, 0.0]},
                {'type': 'standard', 'radius': -R, 'thickness': u(1.4, 3.0) * f, 'material': 'air'},
                {'type': 'standard', 'radius': inf, 'thickness': u(5.0, 30.0), 'material': 'air', 'is_stop': True}]}


def wide_hyperboloid_spec(rng):
    """stop plane close in front of a STRONGLY curved hyperboloid (k < -1, |R| smaller than the beam), wide field: rays
    far from the axis for which the vertex sheet has no intersection ahead while the quadric's OTHER sheet has one.
    rng None = the fixed corpus member"""
    inf = float('inf')
    if rng is None:
        R, k, d, fld, epd, mirror = -8.0, -2.5, 1.5, 25.0, 18.0, False
    else:
        R = rng.choice([-1, 1]) * rng.uniform(5.0, 30.0)
        k = -rng.uniform(1.3, 4.0)
        d = rng.choice([rng.uniform(0.3, 2.0), rng.uniform(20.0, 80.0)])
        fld, epd, mirror = rng.uniform(10.0, 35.0), rng.uniform(0.6, 2.6) * abs(R), rng.random() < 0.4
    return {'name': 'wide-hyperboloid', 'aperture': ['EPD', epd], 'field_type': 'angle',
            'fields': [[0.0, 0.0, 0.0, 0.0], [fld, 0.0, 0.0, 0.0]], 'wavelengths': [[0.55, True]],
            'telecentric': False, 'object_thickness': inf,
            'surfaces': [
                {'type': 'standard', 'radius': inf, 'thickness': d, 'material': 'air', 'is_stop': True},
                {'type': 'standard', 'radius': R, 'conic': k, 'thickness': (-30.0 if mirror else 30.0),
                 'material': ('mirror' if mirror else ['ideal', 1.5, 0.0])}]}


def corpus():
    inf = float('inf')
    base = {'aperture': ['EPD', 10.0], 'field_type': 'angle', 'fields': [[0.0, 0.0, 0.0, 0.0], [5.0, 0.0, 0.0, 0.0]],
            'wavelengths': [[0.5876, True]], 'telecentric': False, 'object_thickness': inf}
    out = []
    # fast plano-convex lens, flat side first: marginal rays exceed the critical angle at the curved glass->air surface
    out.append(dict(base, name='tir-planoconvex', aperture=['EPD', 19.0], surfaces=[
        {'type': 'standard', 'radius': inf, 'thickness': 6.0, 'material': ['glass', 'N-BK7', 'schott'], 'is_stop': True},
        {'type': 'standard', 'radius': -10.0, 'thickness': 20.0, 'material': 'air'}]))
    # second-surface (Mangin) mirror: reflection inside glass
    out.append(dict(base, name='mangin', surfaces=[
        {'type': 'standard', 'radius': -120.0, 'thickness': 5.0, 'material': ['ideal', 1.6, 0.0], 'is_stop': True},
        {'type': 'standard', 'radius': -150.0, 'thickness': -5.0, 'material': 'mirror'},
        {'type': 'standard', 'radius': -120.0, 'thickness': -60.0, 'material': 'air'}]))
    # image inside glass (cover slip / immersion)
    out.append(dict(base, name='image-in-glass', surfaces=[
        {'type': 'standard', 'radius': 40.0, 'thickness': 5.0, 'material': ['glass', 'N-SF5', 'schott'], 'is_stop': True},
        {'type': 'standard', 'radius': -60.0, 'thickness': 30.0, 'material': 'air'},
        {'type': 'standard', 'radius': inf, 'thickness': 3.0, 'material': ['glass', 'N-BK7', 'schott']}]))
    # paraboloid mirror, conic -1 (axis-parallel rays: a == 0 branch of the conic intersection)
    out.append(dict(base, name='paraboloid', surfaces=[
        {'type': 'standard', 'radius': -200.0, 'conic': -1.0, 'thickness': -100.0, 'material': 'mirror', 'is_stop': True}]))
    # even asphere with positive terms + aperture with obscuration, finite object with height fields, stop in the middle
    out.append(dict(base, name='asphere-finite', object_thickness=120.0, field_type='object_height',
                    fields=[[0.0, 0.0, 0.0, 0.0], [6.0, 0.0, 0.0, 0.0]], surfaces=[
        {'type': 'even_asphere', 'radius': 50.0, 'conic': 0.0, 'coefficients': [2e-5, 3e-8], 'thickness': 6.0,
         'material': ['ideal', 1.7, 1e-6], 'aperture': [7.0, 1.0]},
        {'type': 'standard', 'radius': -80.0, 'thickness': 4.0, 'material': 'air'},
        {'type': 'standard', 'radius': inf, 'thickness': 10.0, 'material': 'air', 'is_stop': True},
        {'type': 'standard', 'radius': 60.0, 'thickness': 5.0, 'material': ['glass', 'N-SF11', 'schott'], 'coating': [0.9, 0.05]},
        {'type': 'standard', 'radius': -90.0, 'thickness': 70.0, 'material': 'air'}]))
    # even asphere with POSITIVE terms on the stop, oblique field: in a bundle that contains the vertex ray the
    # batch-wide Newton stopping test is decided by the other rays (all residuals have one sign)
    out.append(dict(base, name='asphere-positive', aperture=['EPD', 12.0], fields=[[0.0, 0.0, 0.0, 0.0], [12.0, 0.0, 0.0, 0.0]], surfaces=[
        {'type': 'even_asphere', 'radius': 40.0, 'conic': 0.0, 'coefficients': [4e-5, 6e-8], 'thickness': 6.0,
         'material': ['ideal', 1.6, 0.0], 'is_stop': True},
        {'type': 'even_asphere', 'radius': -70.0, 'conic': 0.0, 'coefficients': [-3e-5], 'thickness': 50.0, 'material': 'air'}]))
    # plane-parallel window in front of the stop: the stop is imaged at apparent depth t/n although no surface
    # in front of it has power
    out.append(dict(base, name='window-before-stop', fields=[[0.0, 0.0, 0.0, 0.0], [6.0, 0.0, 0.0, 0.0]], surfaces=[
        {'type': 'standard', 'radius': inf, 'thickness': 12.0, 'material': ['ideal', 1.5, 0.0]},
        {'type': 'standard', 'radius': inf, 'thickness': 8.0, 'material': 'air'},
        {'type': 'standard', 'radius': inf, 'thickness': 2.0, 'material': 'air', 'is_stop': True},
        {'type': 'standard', 'radius': 55.0, 'thickness': 5.0, 'material': ['glass', 'N-SK16', 'schott']},
        {'type': 'standard', 'radius': -70.0, 'thickness': 60.0, 'material': 'air'}]))
    # cemented doublet + cemented triplet of catalogue glasses (glass-glass interfaces, dispersion on both sides)
    out.append(dict(base, name='cemented', wavelengths=[[0.4861, False], [0.5876, True], [0.6563, False]], surfaces=[
        {'type': 'standard', 'radius': 61.0, 'thickness': 6.0, 'material': ['glass', 'N-BK7', 'schott'], 'is_stop': True},
        {'type': 'standard', 'radius': -43.0, 'thickness': 2.5, 'material': ['glass', 'N-SF5', 'schott']},
        {'type': 'standard', 'radius': -125.0, 'thickness': 4.0, 'material': 'air'},
        {'type': 'standard', 'radius': 80.0, 'thickness': 3.0, 'material': ['glass', 'N-SF11', 'schott']},
        {'type': 'standard', 'radius': 30.0, 'thickness': 6.0, 'material': ['glass', 'N-LAK9', 'schott']},
        {'type': 'standard', 'radius': -60.0, 'thickness': 2.0, 'material': ['glass', 'F2', 'schott']},
        {'type': 'standard', 'radius': -200.0, 'thickness': 70.0, 'material': 'air'}]))
    # axial object point exactly at the centre of curvature of a concave mirror (1:1 / Foucault configuration): the
    # linear coefficient of the intersection quadratic is exactly 0 for every ray
    out.append(dict(base, name='centre-of-curvature', object_thickness=100.0, field_type='object_height',
                    fields=[[0.0, 0.0, 0.0, 0.0], [2.0, 0.0, 0.0, 0.0]], surfaces=[
        {'type': 'standard', 'radius': -100.0, 'thickness': -100.0, 'material': 'mirror', 'is_stop': True}]))
    # finite object, stop far behind a positive lens (beyond its focus): the entrance pupil is a real image of the stop
    # IN FRONT of the first surface (EPL < 0) - signed pupil position vs distance
    out.append(rear_stop_spec(None))
    # strongly curved hyperboloid right behind the stop, wide field (the two sheets of the quadric)
    out.append(wide_hyperboloid_spec(None))
    # Chebyshev surface AT the stop with normalisation radius = EPD/2 = 1: the axis-aligned marginal rays land exactly on
    # the edge of the normalisation square (x/norm = 1, where the closed-form derivative of T_n is 0/0)
    out.append(dict(base, name='chebyshev-rim-at-stop', aperture=['EPD', 2.0], fields=[[0.0, 0.0, 0.0, 0.0], [3.0, 0.0, 0.0, 0.0]], surfaces=[
        {'type': 'chebyshev', 'radius': 25.0, 'conic': 0.0, 'coefficients': [[0.0, 2e-3, 1e-3], [3e-3, 1e-3, 0.0], [2e-3, 0.0, 5e-4]],
         'norm_x': 1.0, 'norm_y': 1.0, 'thickness': 1.0, 'material': ['ideal', 1.5, 0.0], 'is_stop': True},
        {'type': 'standard', 'radius': -30.0, 'thickness': 20.0, 'material': 'air'}]))
    # one frame component at a time: tilt about y only, tilt about x only, decentre only
    out.append(dict(base, name='single-tilts', surfaces=[
        {'type': 'standard', 'radius': 60.0, 'thickness': 5.0, 'material': ['ideal', 1.6, 0.0], 'is_stop': True, 'ry': 0.06},
        {'type': 'standard', 'radius': -80.0, 'thickness': 6.0, 'material': 'air', 'rx': -0.05},
        {'type': 'standard', 'radius': 90.0, 'conic': -0.7, 'thickness': 4.0, 'material': ['glass', 'N-BK7', 'schott'], 'dx': 0.8},
        {'type': 'even_asphere', 'radius': -70.0, 'conic': 0.0, 'coefficients': [1e-5], 'thickness': 40.0, 'material': 'air', 'ry': -0.04}]))
    # thin fast bi-convex lens whose faces cross at h ~ 4.4 inside the beam (negative edge thickness): the outer rays
    # have left the second quadric behind them - no intersection, must be reported non-finite
    out.append(dict(base, name='crossing-faces', aperture=['EPD', 12.0], surfaces=[
        {'type': 'standard', 'radius': 20.0, 'thickness': 1.0, 'material': ['ideal', 1.5, 0.0], 'is_stop': True},
        {'type': 'standard', 'radius': -20.0, 'thickness': 30.0, 'material': 'air'}]))
    return out

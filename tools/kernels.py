"""Which methods of /repo are translated by py2coq (one Gen/<module>.v per entry).

types: kind of each dotted input (default 'num'); 'obj' marks object parameters
whose attributes are read (`rays.x`).  outputs: attributes written by the method
that are part of the result (after the return value).  calls: dotted call
expression -> kernel name (callee's `self` is the call's receiver).
opaque_calls: dotted call -> kind; the call's result becomes an input.
static: compile-time facts about None-tests.
"""
RR = 'optiland/rays/real_rays.py'
BR = 'optiland/rays/base.py'
STD = 'optiland/geometries/standard.py'
NR = 'optiland/geometries/newton_raphson.py'
EA = 'optiland/geometries/even_asphere.py'
PG = 'optiland/geometries/polynomial.py'
CH = 'optiland/geometries/chebyshev.py'
PA = 'optiland/physical_apertures.py'
CO = 'optiland/coatings.py'

MODULE_DEPS = {
    'Geometries': ['RealRays'],
    'Apertures': ['RealRays'],
}

MODULES = {
    'RealRays': [
        dict(name='align', file=RR, cls='RealRays', func='_align_surface_normal'),
        dict(name='refract', file=RR, cls='RealRays', func='refract',
             calls={'self._align_surface_normal': 'align'},
             outputs=['self.L', 'self.M', 'self.N']),
        dict(name='reflect', file=RR, cls='RealRays', func='reflect',
             calls={'self._align_surface_normal': 'align'},
             outputs=['self.L', 'self.M', 'self.N']),
        dict(name='rotate_x', file=RR, cls='RealRays', func='rotate_x',
             outputs=['self.y', 'self.z', 'self.M', 'self.N']),
        dict(name='rotate_y', file=RR, cls='RealRays', func='rotate_y',
             outputs=['self.x', 'self.z', 'self.L', 'self.N']),
        dict(name='rotate_z', file=RR, cls='RealRays', func='rotate_z',
             outputs=['self.x', 'self.y', 'self.L', 'self.M']),
        dict(name='translate', file=BR, cls='BaseRays', func='translate',
             outputs=['self.x', 'self.y', 'self.z']),
        dict(name='propagate', file=RR, cls='RealRays', func='propagate',
             static={'material': 'notnone'}, opaque_calls={'material.k': 'num'},
             outputs=['self.x', 'self.y', 'self.z', 'self.i']),
        dict(name='propagate_vac', file=RR, cls='RealRays', func='propagate',
             static={'material': 'none'},
             outputs=['self.x', 'self.y', 'self.z']),
        dict(name='rr_clip', file=RR, cls='RealRays', func='clip', types={'condition': 'bool'},
             outputs=['self.i']),
    ],
    'Standard': [
        dict(name='std_sag', file=STD, cls='StandardGeometry', func='sag'),
        dict(name='std_distance', file=STD, cls='StandardGeometry', func='distance',
             types={'rays': 'obj'}),
        dict(name='std_normal', file=STD, cls='StandardGeometry', func='surface_normal',
             types={'rays': 'obj'}),
        dict(name='plane_distance', file='optiland/geometries/plane.py', cls='Plane', func='distance',
             types={'rays': 'obj'}),
    ],
    'Geometries': [
        dict(name='nr_sphere', file=NR, cls='NewtonRaphsonGeometry', func='_intersection_sphere',
             types={'rays': 'obj'}),
        dict(name='ea_sag', file=EA, cls='EvenAsphere', func='sag', types={'self.c': 'list'}),
        dict(name='ea_normal', file=EA, cls='EvenAsphere', func='_surface_normal', types={'self.c': 'list'}),
        dict(name='pg_sag', file=PG, cls='PolynomialGeometry', func='sag', types={'self.c': 'list2'}),
        dict(name='pg_normal', file=PG, cls='PolynomialGeometry', func='_surface_normal',
             types={'self.c': 'list2'}),
        dict(name='cheb_T', file=CH, cls='ChebyshevPolynomialGeometry', func='_chebyshev', types={'n': 'int'}),
        dict(name='cheb_dT', file=CH, cls='ChebyshevPolynomialGeometry', func='_chebyshev_derivative',
             types={'n': 'int'}),
        dict(name='cheb_validate', file=CH, cls='ChebyshevPolynomialGeometry', func='_validate_inputs'),
        dict(name='cheb_sag', file=CH, cls='ChebyshevPolynomialGeometry', func='sag',
             types={'self.c': 'list2'},
             calls={'self._validate_inputs': 'cheb_validate', 'self._chebyshev': 'cheb_T'}),
        dict(name='cheb_normal', file=CH, cls='ChebyshevPolynomialGeometry', func='_surface_normal',
             types={'self.c': 'list2'},
             calls={'self._validate_inputs': 'cheb_validate', 'self._chebyshev': 'cheb_T',
                    'self._chebyshev_derivative': 'cheb_dT'}),
    ],
    'Apertures': [
        dict(name='radial_clip', file=PA, cls='RadialAperture', func='clip', types={'rays': 'obj'},
             calls={'rays.clip': 'rr_clip'}, outputs=['rays.i']),
        dict(name='coat_transmit', file=CO, cls='SimpleCoating', func='transmit', types={'rays': 'obj'},
             outputs=['rays.i']),
        dict(name='coat_reflect', file=CO, cls='SimpleCoating', func='reflect', types={'rays': 'obj'},
             outputs=['rays.i']),
    ],
}


# per-property kernel files (tools/kernels_Cxx.py) add their own modules
import glob as _glob, importlib as _importlib, os as _os
for _f in sorted(_glob.glob(_os.path.join(_os.path.dirname(_os.path.abspath(__file__)), 'kernels_*.py'))):
    try:
        _m = _importlib.import_module(_os.path.basename(_f)[:-3])
        MODULES.update(getattr(_m, 'MODULES', {}))
        MODULE_DEPS.update(getattr(_m, 'MODULE_DEPS', {}))
    except Exception as _e:      # a broken per-property file must not take the other properties down
        IMPORT_ERRORS = globals().setdefault('IMPORT_ERRORS', {})
        IMPORT_ERRORS[_os.path.basename(_f)] = repr(_e)

"""Which methods of /repo are translated by py2coq (one Gen/<module>.v per entry).

types: kind of each dotted input (default 'num'); 'obj' marks object parameters
whose attributes are read (`rays.x`).  outputs: attributes written by the method
that are part of the result (after the return value).  calls: dotted call
expression -> kernel name.
"""
RR = 'optiland/rays/real_rays.py'
STD = 'optiland/geometries/standard.py'

MODULE_DEPS = {}

MODULES = {
    'RealRays': [
        dict(name='align', file=RR, cls='RealRays', func='_align_surface_normal'),
        dict(name='refract', file=RR, cls='RealRays', func='refract',
             calls={'self._align_surface_normal': 'align'},
             outputs=['self.L', 'self.M', 'self.N']),
        dict(name='reflect', file=RR, cls='RealRays', func='reflect',
             calls={'self._align_surface_normal': 'align'},
             outputs=['self.L', 'self.M', 'self.N']),
        dict(name='rotate_x', file=RR, cls='RealRays', func='rotate_x',
             outputs=['self.y', 'self.z', 'self.M', 'self.N']),
        dict(name='rotate_y', file=RR, cls='RealRays', func='rotate_y',
             outputs=['self.x', 'self.z', 'self.L', 'self.N']),
        dict(name='rotate_z', file=RR, cls='RealRays', func='rotate_z',
             outputs=['self.x', 'self.y', 'self.L', 'self.M']),
    ],
    'Standard': [
        dict(name='std_sag', file=STD, cls='StandardGeometry', func='sag'),
        dict(name='std_distance', file=STD, cls='StandardGeometry', func='distance',
             types={'rays': 'obj'}),
        dict(name='std_normal', file=STD, cls='StandardGeometry', func='surface_normal',
             types={'rays': 'obj'}),
        dict(name='plane_distance', file='optiland/geometries/plane.py', cls='Plane', func='distance',
             types={'rays': 'obj'}),
    ],
}
